package main

// F2: the registered builtin tables (pkg/inimpl/guancecloud/funcs/all.go): the keys of FuncsMap and
// of FuncsCheckMap with the Go function each maps to.  Emits Platypus/Generated/FuncTable.lean.

import (
	"fmt"
	"go/ast"
	"go/token"
	"path/filepath"
	"sort"
	"strconv"
)

func init() { extractors = append(extractors, extractF2) }

func mapLiteral(f *ast.File, name string) ([][2]string, bool) {
	for _, d := range f.Decls {
		gd, ok := d.(*ast.GenDecl)
		if !ok || gd.Tok != token.VAR {
			continue
		}
		for _, sp := range gd.Specs {
			vs, ok := sp.(*ast.ValueSpec)
			if !ok || len(vs.Names) != 1 || vs.Names[0].Name != name || len(vs.Values) != 1 {
				continue
			}
			cl, ok := vs.Values[0].(*ast.CompositeLit)
			if !ok {
				return nil, false
			}
			res := [][2]string{}
			for _, el := range cl.Elts {
				kv, ok := el.(*ast.KeyValueExpr)
				if !ok {
					return nil, false
				}
				k, ok := kv.Key.(*ast.BasicLit)
				if !ok {
					return nil, false
				}
				ks, err := strconv.Unquote(k.Value)
				if err != nil {
					return nil, false
				}
				res = append(res, [2]string{ks, selName(kv.Value)})
			}
			sort.Slice(res, func(i, j int) bool { return res[i][0] < res[j][0] })
			return res, true
		}
	}
	return nil, false
}

func extractF2(repo string, o *out) {
	b := o.f("FuncTable.lean")
	fmt.Fprintf(b, "namespace Platypus.Generated\n\n")
	ok := true
	var call, check [][2]string
	f, _, err := parseFile(filepath.Join(repo, "pkg/inimpl/guancecloud/funcs/all.go"))
	if err != nil {
		ok = false
	} else {
		var ok1, ok2 bool
		call, ok1 = mapLiteral(f, "FuncsMap")
		check, ok2 = mapLiteral(f, "FuncsCheckMap")
		ok = ok1 && ok2
	}
	emit := func(name string, rows [][2]string) {
		fmt.Fprintf(b, "def %s : List (String × String) := [", name)
		for i, r := range rows {
			if i > 0 {
				fmt.Fprintf(b, ", ")
			}
			fmt.Fprintf(b, "(%q, %q)", r[0], r[1])
		}
		fmt.Fprintf(b, "]\n\n")
	}
	fmt.Fprintf(b, "/-- FuncsMap: builtin name ↦ Go function -/\n")
	emit("funcsMap", call)
	fmt.Fprintf(b, "/-- FuncsCheckMap: builtin name ↦ Go checker -/\n")
	emit("funcsCheckMap", check)
	fmt.Fprintf(b, "def extractOk_F2 : Bool := %v\n\nend Platypus.Generated\n", ok)
}
