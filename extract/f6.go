package main

// F6: writes to objects shared between runs (syntax-tree nodes, loaded scripts, package-level
// variables), split into load-time functions (check pass, *Checking functions, linker, init,
// InitLog-style host configuration) and run-time functions.
// Emits Platypus/Generated/SharedWrites.lean.

import (
	"fmt"
	"go/ast"
	"os"
	"path/filepath"
	"sort"
	"strings"
)

func init() { extractors = append(extractors, extractF6) }

func rootIdent(e ast.Expr) (string, []string) {
	path := []string{}
	for {
		switch x := e.(type) {
		case *ast.SelectorExpr:
			path = append([]string{x.Sel.Name}, path...)
			e = x.X
		case *ast.IndexExpr:
			e = x.X
		case *ast.StarExpr:
			e = x.X
		case *ast.ParenExpr:
			e = x.X
		case *ast.CallExpr:
			// node.CallExpr().Field = … : rooted in the callee's receiver
			if se, ok := x.Fun.(*ast.SelectorExpr); ok {
				path = append([]string{se.Sel.Name + "()"}, path...)
				e = se.X
			} else {
				return "", path
			}
		case *ast.Ident:
			return x.Name, path
		default:
			return "", path
		}
	}
}

func typeStr(e ast.Expr) string {
	switch x := e.(type) {
	case *ast.StarExpr:
		return "*" + typeStr(x.X)
	case *ast.SelectorExpr:
		return typeStr(x.X) + "." + x.Sel.Name
	case *ast.Ident:
		return x.Name
	case *ast.ArrayType:
		return "[]" + typeStr(x.Elt)
	}
	return "?"
}

func isLoadTime(fn string) bool {
	return strings.HasSuffix(fn, "Checking") || strings.HasSuffix(fn, "Check") || fn == "dfs" || fn == "init" ||
		fn == "InitLog" || fn == "reIndexFuncArgs" || fn == "CheckPassParam" || fn == "CheckFnParamDef" ||
		fn == "EngineCallRefLinkAndCheck" || fn == "LinkInOrder" || fn == "ParseScript" || fn == "ParseV2"
}

func extractF6(repo string, o *out) {
	b := o.f("SharedWrites.lean")
	fmt.Fprintf(b, "namespace Platypus.Generated\n\n")
	dirs := []string{"pkg/engine", "pkg/engine/runtime", "pkg/engine/runtimev2", "pkg/inimpl/guancecloud/funcs", "pkg/inimpl/guancecloud/input", "pkg/ast"}
	var loadW, runW []string
	ok := true
	note := ""
	for _, d := range dirs {
		ents, err := os.ReadDir(filepath.Join(repo, d))
		if err != nil {
			ok = false
			note = err.Error()
			continue
		}
		for _, ent := range ents {
			if ent.IsDir() || !strings.HasSuffix(ent.Name(), ".go") || strings.HasSuffix(ent.Name(), "_test.go") {
				continue
			}
			f, _, err := parseFile(filepath.Join(repo, d, ent.Name()))
			if err != nil {
				ok = false
				note = err.Error()
				continue
			}
			// package-level variables of this file
			pkgVars := map[string]bool{}
			for _, dd := range f.Decls {
				if gd, isG := dd.(*ast.GenDecl); isG {
					for _, sp := range gd.Specs {
						if vs, isV := sp.(*ast.ValueSpec); isV && gd.Tok.String() == "var" {
							for _, n := range vs.Names {
								pkgVars[n.Name] = true
							}
						}
					}
				}
			}
			for _, dd := range f.Decls {
				fd, isF := dd.(*ast.FuncDecl)
				if !isF || fd.Body == nil {
					continue
				}
				// parameters and receiver that are syntax-tree nodes or loaded scripts
				shared := map[string]string{}
				addParams := func(fl *ast.FieldList) {
					if fl == nil {
						return
					}
					for _, p := range fl.List {
						t := typeStr(p.Type)
						if strings.HasPrefix(t, "*ast.") || t == "ast.Stmts" || t == "*Script" || t == "*runtime.Script" || strings.HasPrefix(t, "[]*ast.") {
							for _, n := range p.Names {
								shared[n.Name] = t
							}
						}
					}
				}
				addParams(fd.Type.Params)
				addParams(fd.Recv)
				locals := map[string]bool{}
				ast.Inspect(fd.Body, func(n ast.Node) bool {
					// taint: loop variables over, and locals initialised from, a shared object
					if rs, isR := n.(*ast.RangeStmt); isR {
						if root, path := rootIdent(rs.X); root != "" {
							if t, isS := shared[root]; isS {
								if id, isI := rs.Value.(*ast.Ident); isI && id.Name != "_" {
									shared[id.Name] = t + "." + strings.Join(path, ".") + "[]"
								}
							}
						}
						return true
					}
					as, isA := n.(*ast.AssignStmt)
					if !isA {
						return true
					}
					if as.Tok.String() == ":=" {
						for i, l := range as.Lhs {
							if id, isI := l.(*ast.Ident); isI {
								locals[id.Name] = true
								if i < len(as.Rhs) && len(as.Lhs) == len(as.Rhs) {
									if root, path := rootIdent(as.Rhs[i]); root != "" && len(path) > 0 {
										if t, isS := shared[root]; isS {
											if _, isCall := as.Rhs[i].(*ast.CallExpr); !isCall || strings.HasSuffix(path[len(path)-1], "()") {
												shared[id.Name] = t + "." + strings.Join(path, ".")
											}
										}
									}
								}
							}
						}
						return true
					}
					for _, l := range as.Lhs {
						root, path := rootIdent(l)
						if root == "" {
							continue
						}
						var what string
						if t, isS := shared[root]; isS && len(path) > 0 {
							what = t + "." + strings.Join(path, ".")
						} else if pkgVars[root] && !locals[root] && shared[root] == "" {
							if _, isIdent := l.(*ast.Ident); isIdent || len(path) > 0 {
								what = "var " + root
							}
						}
						if what == "" {
							continue
						}
						row := fmt.Sprintf("%s/%s: %s", filepath.Base(d), fd.Name.Name, what)
						if isLoadTime(fd.Name.Name) {
							loadW = append(loadW, row)
						} else {
							runW = append(runW, row)
						}
					}
					return true
				})
			}
		}
	}
	uniq := func(xs []string) []string {
		sort.Strings(xs)
		out := []string{}
		for i, x := range xs {
			if i == 0 || xs[i-1] != x {
				out = append(out, x)
			}
		}
		return out
	}
	fmt.Fprintf(b, "def loadTimeSharedWrites : List String :=\n  %s\n", leanStrList(uniq(loadW)))
	fmt.Fprintf(b, "def runTimeSharedWrites : List String :=\n  %s\n\n", leanStrList(uniq(runW)))
	fmt.Fprintf(b, "def extractOk_F6 : Bool := %v\n", ok)
	fmt.Fprintf(b, "def extractNote_F6 : String := %q\n", note)
	fmt.Fprintf(b, "\nend Platypus.Generated\n")
}
