package main

// F3: the traversal table of the two check passes (checkstmt.go, r_check.go): for every
// Run<Kind>Check function, which fields of the node are handed to RunStmtCheck / RunStmtsCheck
// (directly, in a range loop, or through Block.Stmts) and under which `!= nil` guard.
// Emits Platypus/Generated/CheckTable.lean.

import (
	"fmt"
	"go/ast"
	"path/filepath"
	"sort"
	"strings"
)

func init() { extractors = append(extractors, extractF3) }

type visit struct {
	fn    string // checker function
	field string // field path, e.g. "Step", "Index[]", "Body.Stmts", "IfList[].Condition"
	guard string // field whose non-nilness guards the visit ("" = unconditional)
}

func exprPath(e ast.Expr, loopVars map[string]string) string {
	switch x := e.(type) {
	case *ast.SelectorExpr:
		base := exprPath(x.X, loopVars)
		if base == "" {
			return x.Sel.Name
		}
		return base + "." + x.Sel.Name
	case *ast.Ident:
		if p, ok := loopVars[x.Name]; ok {
			return p
		}
		return "" // the node parameter itself (expr / stmt)
	case *ast.IndexExpr:
		return exprPath(x.X, loopVars) + "[" + fmt.Sprint(litOf(x.Index)) + "]"
	}
	return "?"
}

func litOf(e ast.Expr) string {
	if b, ok := e.(*ast.BasicLit); ok {
		return b.Value
	}
	return "?"
}

func collectVisits(fd *ast.FuncDecl) []visit {
	var out []visit
	var walk func(stmts []ast.Stmt, guard string, loopVars map[string]string)
	callVisit := func(call *ast.CallExpr, guard string, loopVars map[string]string) {
		fn := selName(call.Fun)
		if (fn == "RunStmtCheck" || fn == "RunStmtsCheck") && len(call.Args) == 3 {
			out = append(out, visit{fd.Name.Name, exprPath(call.Args[2], loopVars), guard})
		}
	}
	var scanExpr func(e ast.Expr, guard string, loopVars map[string]string)
	scanExpr = func(e ast.Expr, guard string, loopVars map[string]string) {
		ast.Inspect(e, func(n ast.Node) bool {
			if c, ok := n.(*ast.CallExpr); ok {
				callVisit(c, guard, loopVars)
			}
			return true
		})
	}
	walk = func(stmts []ast.Stmt, guard string, loopVars map[string]string) {
		for _, st := range stmts {
			switch s := st.(type) {
			case *ast.IfStmt:
				g := guard
				// `if X != nil { ... }` guards; `if err := RunStmtCheck(...); err != nil {return}` is a visit
				if s.Init != nil {
					if as, ok := s.Init.(*ast.AssignStmt); ok {
						for _, r := range as.Rhs {
							scanExpr(r, guard, loopVars)
						}
					}
				} else if be, ok := s.Cond.(*ast.BinaryExpr); ok && be.Op.String() == "!=" {
					if id, ok := be.Y.(*ast.Ident); ok && id.Name == "nil" {
						g = exprPath(be.X, loopVars)
						walk(s.Body.List, g, loopVars)
						continue
					}
				}
				walk(s.Body.List, guard, loopVars)
				if s.Else != nil {
					if b, ok := s.Else.(*ast.BlockStmt); ok {
						walk(b.List, guard, loopVars)
					}
				}
			case *ast.RangeStmt:
				lv := map[string]string{}
				for k, v := range loopVars {
					lv[k] = v
				}
				if id, ok := s.Value.(*ast.Ident); ok {
					lv[id.Name] = exprPath(s.X, loopVars) + "[]"
				}
				walk(s.Body.List, guard, lv)
			case *ast.ReturnStmt:
				for _, r := range s.Results {
					scanExpr(r, guard, loopVars)
				}
			case *ast.ExprStmt:
				scanExpr(s.X, guard, loopVars)
			case *ast.AssignStmt:
				for _, r := range s.Rhs {
					scanExpr(r, guard, loopVars)
				}
			case *ast.BlockStmt:
				walk(s.List, guard, loopVars)
			case *ast.SwitchStmt:
				for _, c := range s.Body.List {
					walk(c.(*ast.CaseClause).Body, guard, loopVars)
				}
			}
		}
	}
	walk(fd.Body.List, "", map[string]string{})
	return out
}

func extractF3(repo string, o *out) {
	b := o.f("CheckTable.lean")
	fmt.Fprintf(b, "namespace Platypus.Generated\n\n")
	ok := true
	note := ""
	for _, v := range []struct{ tag, path string }{
		{"V1", "pkg/engine/runtime/checkstmt.go"},
		{"V2", "pkg/engine/runtimev2/r_check.go"},
	} {
		f, _, err := parseFile(filepath.Join(repo, v.path))
		if err != nil {
			ok = false
			note = err.Error()
			fmt.Fprintf(b, "def checkVisits%s : List (String × String × String) := []\n", v.tag)
			fmt.Fprintf(b, "def checkDispatch%s : List (String × String) := []\n\n", v.tag)
			continue
		}
		var vs []visit
		for _, d := range f.Decls {
			fd, isF := d.(*ast.FuncDecl)
			if !isF || fd.Body == nil || !strings.HasSuffix(fd.Name.Name, "Check") || fd.Name.Name == "RunStmtCheck" || fd.Name.Name == "RunStmtsCheck" {
				continue
			}
			vs = append(vs, collectVisits(fd)...)
		}
		sort.Slice(vs, func(i, j int) bool {
			if vs[i].fn != vs[j].fn {
				return vs[i].fn < vs[j].fn
			}
			if vs[i].field != vs[j].field {
				return vs[i].field < vs[j].field
			}
			return vs[i].guard < vs[j].guard
		})
		rows := []string{}
		for _, x := range vs {
			rows = append(rows, fmt.Sprintf("(%q, %q, %q)", x.fn, x.field, x.guard))
		}
		fmt.Fprintf(b, "def checkVisits%s : List (String × String × String) :=\n  [%s]\n", v.tag, strings.Join(rows, ",\n   "))
		// the dispatch of RunStmtCheck: node type -> checker function
		disp := []string{}
		if fd := findFunc(f, "RunStmtCheck"); fd != nil {
			ast.Inspect(fd, func(n ast.Node) bool {
				cc, isC := n.(*ast.CaseClause)
				if !isC {
					return true
				}
				for _, st := range cc.Body {
					if r, isR := st.(*ast.ReturnStmt); isR && len(r.Results) == 1 {
						if c, isCall := r.Results[0].(*ast.CallExpr); isCall {
							for _, e := range cc.List {
								disp = append(disp, fmt.Sprintf("(%q, %q)", selName(e), selName(c.Fun)))
							}
						}
					}
				}
				return true
			})
		} else {
			ok = false
			note = "RunStmtCheck not found in " + v.path
		}
		sort.Strings(disp)
		fmt.Fprintf(b, "def checkDispatch%s : List (String × String) :=\n  [%s]\n\n", v.tag, strings.Join(disp, ",\n   "))
	}
	fmt.Fprintf(b, "def extractOk_F3 : Bool := %v\n", ok)
	fmt.Fprintf(b, "def extractNote_F3 : String := %q\n", note)
	fmt.Fprintf(b, "\nend Platypus.Generated\n")
}
