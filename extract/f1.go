package main

// F1: the operator decision tables of runtime.go and runtimev2/run.go.
//   arithType, cmpType: the dtypes for which the function returns true
//   condTrue: the dtypes handled by the switch (everything else is falsy)
//   assign2arithOp: the mapping of compound-assignment operators
//   typePromotion: float iff an operand is float
// Emits Platypus/Generated/OpTables.lean.

import (
	"fmt"
	"go/ast"
	"go/parser"
	"go/token"
	"path/filepath"
	"sort"
	"strings"
)

func init() { extractors = append(extractors, extractF1) }

func parseFile(path string) (*ast.File, *token.FileSet, error) {
	fset := token.NewFileSet()
	f, err := parser.ParseFile(fset, path, nil, parser.ParseComments)
	return f, fset, err
}

func findFunc(f *ast.File, name string) *ast.FuncDecl {
	for _, d := range f.Decls {
		if fd, ok := d.(*ast.FuncDecl); ok && fd.Name.Name == name && fd.Recv == nil {
			return fd
		}
	}
	return nil
}

func selName(e ast.Expr) string {
	if s, ok := e.(*ast.SelectorExpr); ok {
		return s.Sel.Name
	}
	if id, ok := e.(*ast.Ident); ok {
		return id.Name
	}
	return "?"
}

func retBoolLit(stmts []ast.Stmt) (bool, bool) {
	for _, s := range stmts {
		if r, ok := s.(*ast.ReturnStmt); ok && len(r.Results) >= 1 {
			if id, ok := r.Results[0].(*ast.Ident); ok {
				if id.Name == "true" {
					return true, true
				}
				if id.Name == "false" {
					return false, true
				}
			}
		}
	}
	return false, false
}

// switchTrueCases: for `switch x { case A, B: return true } return false` style predicates
func switchTrueCases(fd *ast.FuncDecl) ([]string, bool) {
	if fd == nil || fd.Body == nil {
		return nil, false
	}
	var res []string
	found := false
	for _, st := range fd.Body.List {
		sw, ok := st.(*ast.SwitchStmt)
		if !ok {
			continue
		}
		found = true
		for _, c := range sw.Body.List {
			cc := c.(*ast.CaseClause)
			v, ok := retBoolLit(cc.Body)
			if !ok {
				return nil, false
			}
			if cc.List == nil { // default
				if v {
					return nil, false
				}
				continue
			}
			if v {
				for _, e := range cc.List {
					res = append(res, selName(e))
				}
			}
		}
	}
	sort.Strings(res)
	return res, found
}

// condTrue: the dtypes with an explicit case
func switchCases(fd *ast.FuncDecl) ([]string, bool) {
	if fd == nil || fd.Body == nil {
		return nil, false
	}
	for _, st := range fd.Body.List {
		if sw, ok := st.(*ast.SwitchStmt); ok {
			var res []string
			for _, c := range sw.Body.List {
				for _, e := range c.(*ast.CaseClause).List {
					res = append(res, selName(e))
				}
			}
			sort.Strings(res)
			return res, true
		}
	}
	return nil, false
}

func assignMap(fd *ast.FuncDecl) ([][2]string, bool) {
	if fd == nil || fd.Body == nil {
		return nil, false
	}
	var res [][2]string
	for _, st := range fd.Body.List {
		if sw, ok := st.(*ast.SwitchStmt); ok {
			for _, c := range sw.Body.List {
				cc := c.(*ast.CaseClause)
				if cc.List == nil {
					continue
				}
				for _, s := range cc.Body {
					if r, ok := s.(*ast.ReturnStmt); ok && len(r.Results) == 2 {
						for _, e := range cc.List {
							res = append(res, [2]string{selName(e), selName(r.Results[0])})
						}
					}
				}
			}
		}
	}
	sort.Slice(res, func(i, j int) bool { return res[i][0] < res[j][0] })
	return res, len(res) > 0
}

func leanStrList(xs []string) string {
	q := []string{}
	for _, x := range xs {
		q = append(q, fmt.Sprintf("%q", x))
	}
	return "[" + strings.Join(q, ", ") + "]"
}

func extractF1(repo string, o *out) {
	b := o.f("OpTables.lean")
	fmt.Fprintf(b, "namespace Platypus.Generated\n\n")
	ok := true
	reason := ""
	for _, v := range []struct{ tag, path string }{
		{"V1", "pkg/engine/runtime/runtime.go"},
		{"V2", "pkg/engine/runtimev2/run.go"},
	} {
		f, _, err := parseFile(filepath.Join(repo, v.path))
		if err != nil {
			ok = false
			reason = err.Error()
			continue
		}
		at, ok1 := switchTrueCases(findFunc(f, "arithType"))
		ct, ok2 := switchTrueCases(findFunc(f, "cmpType"))
		cases, ok3 := switchCases(findFunc(f, "condTrue"))
		am, ok4 := assignMap(findFunc(f, "assign2arithOp"))
		if !(ok1 && ok2 && ok3 && ok4) {
			ok = false
			reason = "unrecognised shape of arithType/cmpType/condTrue/assign2arithOp in " + v.path
		}
		fmt.Fprintf(b, "def arithTypeTrue%s : List String := %s\n", v.tag, leanStrList(at))
		fmt.Fprintf(b, "def cmpTypeTrue%s : List String := %s\n", v.tag, leanStrList(ct))
		fmt.Fprintf(b, "def condTrueCases%s : List String := %s\n", v.tag, leanStrList(cases))
		pairs := []string{}
		for _, p := range am {
			pairs = append(pairs, fmt.Sprintf("(%q, %q)", p[0], p[1]))
		}
		fmt.Fprintf(b, "def assign2arith%s : List (String × String) := [%s]\n\n", v.tag, strings.Join(pairs, ", "))
	}
	fmt.Fprintf(b, "def extractOk_F1 : Bool := %v\n", ok)
	fmt.Fprintf(b, "def extractNote_F1 : String := %q\n", reason)
	fmt.Fprintf(b, "\nend Platypus.Generated\n")
}
