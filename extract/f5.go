package main

// F5: the grammar (pkg/parser/gram.y): precedence lines, every production with its action text,
// whether goyacc regenerates pkg/parser/gram_y.go byte-for-byte from gram.y, the conflict summary of
// the generated automaton, and the documented operator table (docs/src/references/01-syntax-spec.md).
// Emits Platypus/Generated/Grammar.lean.

import (
	"bytes"
	"fmt"
	"os"
	"os/exec"
	"path/filepath"
	"regexp"
	"strings"
)

func init() { extractors = append(extractors, extractF5) }

type prod struct {
	lhs    string
	rhs    []string
	action string
}

// stripYaccComments removes // and /* */ comments outside actions' string literals (gram.y has none in strings)
func stripYaccComments(s string) string {
	var b strings.Builder
	for i := 0; i < len(s); {
		if strings.HasPrefix(s[i:], "//") {
			for i < len(s) && s[i] != '\n' {
				i++
			}
			continue
		}
		if strings.HasPrefix(s[i:], "/*") {
			j := strings.Index(s[i+2:], "*/")
			if j < 0 {
				break
			}
			i += j + 4
			b.WriteByte(' ')
			continue
		}
		if s[i] == '"' || s[i] == '\'' || s[i] == '`' {
			q := s[i]
			j := i + 1
			for j < len(s) && s[j] != q {
				if s[j] == '\\' && q != '`' {
					j++
				}
				j++
			}
			if j >= len(s) {
				j = len(s) - 1
			}
			b.WriteString(s[i : j+1])
			i = j + 1
			continue
		}
		b.WriteByte(s[i])
		i++
	}
	return b.String()
}

func parseRules(sec string) ([]prod, error) {
	var prods []prod
	i := 0
	n := len(sec)
	isId := func(c byte) bool {
		return c == '_' || c >= 'a' && c <= 'z' || c >= 'A' && c <= 'Z' || c >= '0' && c <= '9'
	}
	skip := func() {
		for i < n && (sec[i] == ' ' || sec[i] == '\t' || sec[i] == '\n' || sec[i] == '\r') {
			i++
		}
	}
	for {
		skip()
		if i >= n {
			break
		}
		j := i
		for j < n && isId(sec[j]) {
			j++
		}
		if j == i {
			return nil, fmt.Errorf("rule name expected at offset %d: %q", i, sec[i:])
		}
		lhs := sec[i:j]
		i = j
		skip()
		if i >= n || sec[i] != ':' {
			return nil, fmt.Errorf("':' expected after %s", lhs)
		}
		i++
		cur := prod{lhs: lhs}
		for {
			skip()
			if i >= n {
				return nil, fmt.Errorf("unterminated rule %s", lhs)
			}
			c := sec[i]
			switch {
			case c == '|':
				prods = append(prods, cur)
				cur = prod{lhs: lhs}
				i++
			case c == ';':
				prods = append(prods, cur)
				i++
				goto nextRule
			case c == '{':
				depth := 0
				j := i
				for j < n {
					if sec[j] == '"' || sec[j] == '\'' || sec[j] == '`' {
						q := sec[j]
						j++
						for j < n && sec[j] != q {
							if sec[j] == '\\' && q != '`' {
								j++
							}
							j++
						}
					} else if sec[j] == '{' {
						depth++
					} else if sec[j] == '}' {
						depth--
						if depth == 0 {
							break
						}
					}
					j++
				}
				act := sec[i+1 : j]
				cur.action += strings.Join(strings.Fields(act), "")
				i = j + 1
			case c == '%':
				j := i + 1
				for j < n && isId(sec[j]) {
					j++
				}
				cur.rhs = append(cur.rhs, sec[i:j])
				i = j
			case isId(c):
				j := i
				for j < n && isId(sec[j]) {
					j++
				}
				// a new rule starts when an identifier is followed by ':' (rules without closing ';')
				k := j
				for k < n && (sec[k] == ' ' || sec[k] == '\t' || sec[k] == '\n' || sec[k] == '\r') {
					k++
				}
				if k < n && sec[k] == ':' {
					prods = append(prods, cur)
					goto nextRule
				}
				cur.rhs = append(cur.rhs, sec[i:j])
				i = j
			default:
				return nil, fmt.Errorf("unexpected %q in rule %s", string(c), lhs)
			}
		}
	nextRule:
	}
	return prods, nil
}

func leanStr(s string) string {
	return "\"" + strings.ReplaceAll(strings.ReplaceAll(s, "\\", "\\\\"), "\"", "\\\"") + "\""
}

func extractF5(repo string, o *out) {
	b := o.f("Grammar.lean")
	fmt.Fprintf(b, "namespace Platypus.Generated\n\n")
	ok := true
	note := ""
	fail := func(s string) {
		ok = false
		if note == "" {
			note = s
		}
	}
	gramPath := filepath.Join(repo, "pkg/parser/gram.y")
	raw, err := os.ReadFile(gramPath)
	var precs [][2]string
	var prods []prod
	if err != nil {
		fail(err.Error())
	} else {
		parts := strings.Split(string(raw), "\n%%")
		if len(parts) < 2 {
			fail("no %% section in gram.y")
		} else {
			decl := stripYaccComments(parts[0])
			for _, ln := range strings.Split(decl, "\n") {
				f := strings.Fields(ln)
				if len(f) >= 2 && (f[0] == "%left" || f[0] == "%right" || f[0] == "%nonassoc") {
					precs = append(precs, [2]string{f[0][1:], strings.Join(f[1:], " ")})
				}
			}
			prods, err = parseRules(stripYaccComments(parts[1]))
			if err != nil {
				fail(err.Error())
			}
		}
	}
	fmt.Fprintf(b, "/-- gram.y's precedence declarations, lowest first: (associativity, tokens) -/\ndef precLines : List (String × List String) := [\n")
	for i, p := range precs {
		sep := ","
		if i == len(precs)-1 {
			sep = ""
		}
		fmt.Fprintf(b, "  (%s, %s)%s\n", leanStr(p[0]), leanStrList(strings.Fields(p[1])), sep)
	}
	fmt.Fprintf(b, "]\n\n/-- every production of gram.y: (left-hand side, right-hand side symbols incl. %%prec, action text without blanks) -/\ndef productions : List (String × List String × String) := [\n")
	for i, p := range prods {
		sep := ","
		if i == len(prods)-1 {
			sep = ""
		}
		fmt.Fprintf(b, "  (%s, %s, %s)%s\n", leanStr(p.lhs), leanStrList(p.rhs), leanStr(p.action), sep)
	}
	fmt.Fprintf(b, "]\n\n")

	// goyacc regeneration
	same := false
	conflicts := ""
	goyacc := filepath.Join(filepath.Dir(os.Args[0]), "goyacc")
	if abs, e := filepath.Abs(goyacc); e == nil {
		goyacc = abs // the command runs in a scratch directory
	}
	if tmp, e := os.MkdirTemp("", "verif-goyacc"); e != nil {
		fail(e.Error())
	} else {
		defer os.RemoveAll(tmp)
		os.WriteFile(filepath.Join(tmp, "gram.y"), raw, 0o644)
		cmd := exec.Command(goyacc, "-o", "gram_y.go", "gram.y")
		cmd.Dir = tmp
		outb, e := cmd.CombinedOutput()
		if e != nil {
			fail("goyacc: " + e.Error() + " " + string(outb))
		} else {
			gen, _ := os.ReadFile(filepath.Join(tmp, "gram_y.go"))
			have, e2 := os.ReadFile(filepath.Join(repo, "pkg/parser/gram_y.go"))
			same = e2 == nil && bytes.Equal(gen, have)
			yo, _ := os.ReadFile(filepath.Join(tmp, "y.output"))
			re := regexp.MustCompile(`(?m)^(\d+ shift/reduce, \d+ reduce/reduce conflicts reported)$`)
			if m := re.FindStringSubmatch(string(yo)); m != nil {
				conflicts = m[1]
			}
			if c := regexp.MustCompile(`(?m)^\s*conflicts: .*$`).FindAllString(string(outb), -1); len(c) > 0 {
				conflicts += " | " + strings.Join(c, ";")
			}
		}
	}
	fmt.Fprintf(b, "/-- goyacc applied to gram.y reproduces pkg/parser/gram_y.go byte for byte -/\ndef goyaccRegenerates : Bool := %v\n\n", same)
	fmt.Fprintf(b, "def yaccConflicts : String := %s\n\n", leanStr(conflicts))

	// documented operator table
	type row struct {
		prio         int
		sym, assoc   string
	}
	var rows []row
	if doc, e := os.ReadFile(filepath.Join(repo, "docs/src/references/01-syntax-spec.md")); e != nil {
		fail(e.Error())
	} else {
		re := regexp.MustCompile("(?m)^\\|\\s*(\\d+)\\s*\\|\\s*`([^`]*)`\\s*\\|\\s*(\\w+)\\s*\\|")
		for _, m := range re.FindAllStringSubmatch(string(doc), -1) {
			var p int
			fmt.Sscanf(m[1], "%d", &p)
			rows = append(rows, row{p, strings.ReplaceAll(m[2], "\\|", "|"), m[3]})
		}
		if len(rows) == 0 {
			fail("operator table not found in 01-syntax-spec.md")
		}
	}
	fmt.Fprintf(b, "/-- the operator table of the language reference: (priority, symbol, combinability) -/\ndef docOperators : List (Nat × String × String) := [\n")
	for i, r := range rows {
		sep := ","
		if i == len(rows)-1 {
			sep = ""
		}
		fmt.Fprintf(b, "  (%d, %s, %s)%s\n", r.prio, leanStr(r.sym), leanStr(r.assoc), sep)
	}
	fmt.Fprintf(b, "]\n\n")
	fmt.Fprintf(b, "def extractOk_F5 : Bool := %v\ndef extractNote_F5 : String := %s\n\nend Platypus.Generated\n", ok, leanStr(note))
}
