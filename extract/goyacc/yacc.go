/*
Derived from Inferno's utils/iyacc/yacc.c
http://code.google.com/p/inferno-os/source/browse/utils/iyacc/yacc.c

This copyright NOTICE applies to all files in this directory and
subdirectories, unless another copyright notice appears in a given
file or subdirectory.  If you take substantial code from this software to use in
other programs, you must somehow include with it an appropriate
copyright notice that includes the copyright notice and the other
notices below.  It is fine (and often tidier) to do that in a separate
file such as NOTICE, LICENCE or COPYING.

	Copyright © 1994-1999 Lucent Technologies Inc.  All rights reserved.
	Portions Copyright © 1995-1997 C H Forsyth (forsyth@terzarima.net)
	Portions Copyright © 1997-1999 Vita Nuova Limited
	Portions Copyright © 2000-2007 Vita Nuova Holdings Limited (www.vitanuova.com)
	Portions Copyright © 2004,2006 Bruce Ellis
	Portions Copyright © 2005-2007 C H Forsyth (forsyth@terzarima.net)
	Revisions Copyright © 2000-2007 Lucent Technologies Inc. and others
	Portions Copyright © 2009 The Go Authors. All rights reserved.

Permission is hereby granted, free of charge, to any person obtaining a copy
of this software and associated documentation files (the "Software"), to deal
in the Software without restriction, including without limitation the rights
to use, copy, modify, merge, publish, distribute, sublicense, and/or sell
copies of the Software, and to permit persons to whom the Software is
furnished to do so, subject to the following conditions:

The above copyright notice and this permission notice shall be included in
all copies or substantial portions of the Software.

THE SOFTWARE IS PROVIDED "AS IS", WITHOUT WARRANTY OF ANY KIND, EXPRESS OR
IMPLIED, INCLUDING BUT NOT LIMITED TO THE WARRANTIES OF MERCHANTABILITY,
FITNESS FOR A PARTICULAR PURPOSE AND NONINFRINGEMENT.  IN NO EVENT SHALL THE
AUTHORS OR COPYRIGHT HOLDERS BE LIABLE FOR ANY CLAIM, DAMAGES OR OTHER
LIABILITY, WHETHER IN AN ACTION OF CONTRACT, TORT OR OTHERWISE, ARISING FROM,
OUT OF OR IN CONNECTION WITH THE SOFTWARE OR THE USE OR OTHER DEALINGS IN
THE SOFTWARE.
*/

package main

// yacc
// major difference is lack of stem ("y" variable)
//

import (
	"bufio"
	"bytes"
	"flag"
	"fmt"
	"go/format"
	"math"
	"os"
	"strconv"
	"strings"
	"unicode"
)

// the following are adjustable
// according to memory size
const (
	ACTSIZE  = 240000
	NSTATES  = 16000
	TEMPSIZE = 16000

	SYMINC   = 50  // increase for non-term or term
	RULEINC  = 50  // increase for max rule length prodptr[i]
	PRODINC  = 100 // increase for productions     prodptr
	WSETINC  = 50  // increase for working sets    wsets
	STATEINC = 200 // increase for states          statemem

	PRIVATE = 0xE000 // unicode private use

	// relationships which must hold:
	//	TEMPSIZE >= NTERMS + NNONTERM + 1;
	//	TEMPSIZE >= NSTATES;
	//

	NTBASE     = 010000
	ERRCODE    = 8190
	ACCEPTCODE = 8191
	YYLEXUNK   = 3
	TOKSTART   = 4 //index of first defined token
)

// no, left, right, binary assoc.
const (
	NOASC = iota
	LASC
	RASC
	BASC
)

// flags for state generation
const (
	DONE = iota
	MUSTDO
	MUSTLOOKAHEAD
)

// flags for a rule having an action, and being reduced
const (
	ACTFLAG = 1 << (iota + 2)
	REDFLAG
)

// output parser flags
const yyFlag = -1000

// parse tokens
const (
	IDENTIFIER = PRIVATE + iota
	MARK
	TERM
	LEFT
	RIGHT
	BINARY
	PREC
	LCURLY
	IDENTCOLON
	NUMBER
	START
	TYPEDEF
	TYPENAME
	UNION
	ERROR
)

const ENDFILE = 0
const EMPTY = 1
const WHOKNOWS = 0
const OK = 1
const NOMORE = -1000

// macros for getting associativity and precedence levels
func ASSOC(i int) int { return i & 3 }

func PLEVEL(i int) int { return (i >> 4) & 077 }

func TYPE(i int) int { return (i >> 10) & 077 }

// macros for setting associativity and precedence levels
func SETASC(i, j int) int { return i | j }

func SETPLEV(i, j int) int { return i | (j << 4) }

func SETTYPE(i, j int) int { return i | (j << 10) }

// I/O descriptors
var finput *bufio.Reader // input file
var stderr *bufio.Writer
var ftable *bufio.Writer    // y.go file
var fcode = &bytes.Buffer{} // saved code
var foutput *bufio.Writer   // y.output file

var fmtImported bool // output file has recorded an import of "fmt"

var oflag string  // -o [y.go]		- y.go file
var vflag string  // -v [y.output]	- y.output file
var lflag bool    // -l			- disable line directives
var prefix string // name prefix for identifiers, default yy

func init() {
	flag.StringVar(&oflag, "o", "y.go", "parser output")
	flag.StringVar(&prefix, "p", "yy", "name prefix to use in generated code")
	flag.StringVar(&vflag, "v", "y.output", "create parsing tables")
	flag.BoolVar(&lflag, "l", false, "disable line directives")
}

var initialstacksize = 16

// communication variables between various I/O routines
var infile string  // input file name
var numbval int    // value of an input number
var tokname string // input token name, slop for runes and 0
var tokflag = false

// structure declarations
type Lkset []int

type Pitem struct {
	prod   []int
	off    int // offset within the production
	first  int // first term or non-term in item
	prodno int // production number for sorting
}

type Item struct {
	pitem Pitem
	look  Lkset
}

type Symb struct {
	name    string
	noconst bool
	value   int
}

type Wset struct {
	pitem Pitem
	flag  int
	ws    Lkset
}

// storage of types
var ntypes int                     // number of types defined
var typeset = make(map[int]string) // pointers to type tags

// token information

var ntokens = 0 // number of tokens
var tokset []Symb
var toklev []int // vector with the precedence of the terminals

// nonterminal information

var nnonter = -1 // the number of nonterminals
var nontrst []Symb
var start int // start symbol

// state information

var nstate = 0                      // number of states
var pstate = make([]int, NSTATES+2) // index into statemem to the descriptions of the states
var statemem []Item
var tystate = make([]int, NSTATES) // contains type information about the states
var tstates []int                  // states generated by terminal gotos
var ntstates []int                 // states generated by nonterminal gotos
var mstates = make([]int, NSTATES) // chain of overflows of term/nonterm generation lists
var lastred int                    // number of last reduction of a state
var defact = make([]int, NSTATES)  // default actions of states

// lookahead set information

var nolook = 0  // flag to turn off lookahead computations
var tbitset = 0 // size of lookahead sets
var clset Lkset // temporary storage for lookahead computations

// working set information

var wsets []Wset
var cwp int

// storage for action table

var amem []int                   // action table storage
var memp int                     // next free action table position
var indgo = make([]int, NSTATES) // index to the stored goto table

// temporary vector, indexable by states, terms, or ntokens

var temp1 = make([]int, TEMPSIZE) // temporary storage, indexed by terms + ntokens or states
var lineno = 1                    // current input line number
var fatfl = 1                     // if on, error is fatal
var nerrors = 0                   // number of errors

// assigned token type values

var extval = 0

// grammar rule information

var nprod = 1      // number of productions
var prdptr [][]int // pointers to descriptions of productions
var levprd []int   // precedence levels for the productions
var rlines []int   // line number for this rule

// statistics collection variables

var zzgoent = 0
var zzgobest = 0
var zzacent = 0
var zzexcp = 0
var zzclose = 0
var zzrrconf = 0
var zzsrconf = 0
var zzstate = 0

// optimizer arrays

var yypgo [][]int
var optst [][]int
var ggreed []int
var pgo []int

var maxspr int // maximum spread of any entry
var maxoff int // maximum offset into a array
var maxa int

// storage for information about the nonterminals

var pres [][][]int // vector of pointers to productions yielding each nonterminal
var pfirst []Lkset
var pempty []int // vector of nonterminals nontrivially deriving e

// random stuff picked out from between functions

var indebug = 0 // debugging flag for cpfir
var pidebug = 0 // debugging flag for putitem
var gsdebug = 0 // debugging flag for stagen
var cldebug = 0 // debugging flag for closure
var pkdebug = 0 // debugging flag for apack
var g2debug = 0 // debugging for go2gen
var adb = 0     // debugging for callopt

type Resrv struct {
	name  string
	value int
}

var resrv = []Resrv{
	{"binary", BINARY},
	{"left", LEFT},
	{"nonassoc", BINARY},
	{"prec", PREC},
	{"right", RIGHT},
	{"start", START},
	{"term", TERM},
	{"token", TERM},
	{"type", TYPEDEF},
	{"union", UNION},
	{"struct", UNION},
	{"error", ERROR},
}

type Error struct {
	lineno int
	tokens []string
	msg    string
}

var errors []Error

type Row struct {
	actions       []int
	defaultAction int
}

var stateTable []Row

var zznewstate = 0

const EOF = -1

func main() {

	setup() // initialize and read productions

	tbitset = (ntokens + 32) / 32
	cpres()  // make table of which productions yield a given nonterminal
	cempty() // make a table of which nonterminals can match the empty string
	cpfir()  // make a table of firsts of nonterminals

	stagen() // generate the states

	yypgo = make([][]int, nnonter+1)
	optst = make([][]int, nstate)
	output() // write the states and the tables
	go2out()

	hideprod()
	summary()

	callopt()

	others()

	exit(0)
}

func setup() {
	var j, ty int

	stderr = bufio.NewWriter(os.Stderr)
	foutput = nil

	flag.Parse()
	if flag.NArg() != 1 {
		usage()
	}
	if initialstacksize < 1 {
		// never set so cannot happen
		fmt.Fprintf(stderr, "yacc: stack size too small\n")
		usage()
	}
	yaccpar = strings.Replace(yaccpartext, "$$", prefix, -1)
	openup()

	fmt.Fprintf(ftable, "// Code generated by goyacc %s. DO NOT EDIT.\n", strings.Join(os.Args[1:], " "))

	defin(0, "$end")
	extval = PRIVATE // tokens start in unicode 'private use'
	defin(0, "error")
	defin(1, "$accept")
	defin(0, "$unk")
	i := 0

	t := gettok()

outer:
	for {
		switch t {
		default:
			errorf("syntax error tok=%v", t-PRIVATE)

		case MARK, ENDFILE:
			break outer

		case ';':
			// Do nothing.

		case START:
			t = gettok()
			if t != IDENTIFIER {
				errorf("bad %%start construction")
			}
			start = chfind(1, tokname)

		case ERROR:
			lno := lineno
			var tokens []string
			for {
				t := gettok()
				if t == ':' {
					break
				}
				if t != IDENTIFIER && t != IDENTCOLON {
					errorf("bad syntax in %%error")
				}
				tokens = append(tokens, tokname)
				if t == IDENTCOLON {
					break
				}
			}
			if gettok() != IDENTIFIER {
				errorf("bad syntax in %%error")
			}
			errors = append(errors, Error{lno, tokens, tokname})

		case TYPEDEF:
			t = gettok()
			if t != TYPENAME {
				errorf("bad syntax in %%type")
			}
			ty = numbval
			for {
				t = gettok()
				switch t {
				case IDENTIFIER:
					t = chfind(1, tokname)
					if t < NTBASE {
						j = TYPE(toklev[t])
						if j != 0 && j != ty {
							errorf("type redeclaration of token %s",
								tokset[t].name)
						} else {
							toklev[t] = SETTYPE(toklev[t], ty)
						}
					} else {
						j = nontrst[t-NTBASE].value
						if j != 0 && j != ty {
							errorf("type redeclaration of nonterminal %v",
								nontrst[t-NTBASE].name)
						} else {
							nontrst[t-NTBASE].value = ty
						}
					}
					continue

				case ',':
					continue
				}
				break
			}
			continue

		case UNION:
			cpyunion()

		case LEFT, BINARY, RIGHT, TERM:
			// nonzero means new prec. and assoc.
			lev := t - TERM
			if lev != 0 {
				i++
			}
			ty = 0

			// get identifiers so defined
			t = gettok()

			// there is a type defined
			if t == TYPENAME {
				ty = numbval
				t = gettok()
			}
			for {
				switch t {
				case ',':
					t = gettok()
					continue

				case ';':
					// Do nothing.

				case IDENTIFIER:
					j = chfind(0, tokname)
					if j >= NTBASE {
						errorf("%v defined earlier as nonterminal", tokname)
					}
					if lev != 0 {
						if ASSOC(toklev[j]) != 0 {
							errorf("redeclaration of precedence of %v", tokname)
						}
						toklev[j] = SETASC(toklev[j], lev)
						toklev[j] = SETPLEV(toklev[j], i)
					}
					if ty != 0 {
						if TYPE(toklev[j]) != 0 {
							errorf("redeclaration of type of %v", tokname)
						}
						toklev[j] = SETTYPE(toklev[j], ty)
					}
					t = gettok()
					if t == NUMBER {
						tokset[j].value = numbval
						t = gettok()
					}

					continue
				}
				break
			}
			continue

		case LCURLY:
			cpycode()
		}
		t = gettok()
	}

	if t == ENDFILE {
		errorf("unexpected EOF before %%")
	}

	fmt.Fprintf(fcode, "switch %snt {\n", prefix)

	moreprod()
	prdptr[0] = []int{NTBASE, start, 1, 0}

	nprod = 1
	curprod := make([]int, RULEINC)
	t = gettok()
	if t != IDENTCOLON {
		errorf("bad syntax on first rule")
	}

	if start == 0 {
		prdptr[0][1] = chfind(1, tokname)
	}

	// read rules
	// put into prdptr array in the format
	// target
	// followed by id's of terminals and non-terminals
	// followed by -nprod

	for t != MARK && t != ENDFILE {
		mem := 0

		// process a rule
		rlines[nprod] = lineno
		ruleline := lineno
		if t == '|' {
			curprod[mem] = prdptr[nprod-1][0]
			mem++
		} else if t == IDENTCOLON {
			curprod[mem] = chfind(1, tokname)
			if curprod[mem] < NTBASE {
				lerrorf(ruleline, "token illegal on LHS of grammar rule")
			}
			mem++
		} else {
			lerrorf(ruleline, "illegal rule: missing semicolon or | ?")
		}

		// read rule body
		t = gettok()
		for {
			for t == IDENTIFIER {
				curprod[mem] = chfind(1, tokname)
				if curprod[mem] < NTBASE {
					levprd[nprod] = toklev[curprod[mem]]
				}
				mem++
				if mem >= len(curprod) {
					ncurprod := make([]int, mem+RULEINC)
					copy(ncurprod, curprod)
					curprod = ncurprod
				}
				t = gettok()
			}
			if t == PREC {
				if gettok() != IDENTIFIER {
					lerrorf(ruleline, "illegal %%prec syntax")
				}
				j = chfind(2, tokname)
				if j >= NTBASE {
					lerrorf(ruleline, "nonterminal %s illegal after %%prec", nontrst[j-NTBASE].name)
				}
				levprd[nprod] = toklev[j]
				t = gettok()
			}
			if t != '=' {
				break
			}
			levprd[nprod] |= ACTFLAG
			fmt.Fprintf(fcode, "\n\tcase %v:", nprod)
			fmt.Fprintf(fcode, "\n\t\t%sDollar = %sS[%spt-%v:%spt+1]", prefix, prefix, prefix, mem-1, prefix)
			cpyact(curprod, mem)

			// action within rule...
			t = gettok()
			if t == IDENTIFIER {
				// make it a nonterminal
				j = chfind(1, fmt.Sprintf("$$%v", nprod))

				//
				// the current rule will become rule number nprod+1
				// enter null production for action
				//
				prdptr[nprod] = make([]int, 2)
				prdptr[nprod][0] = j
				prdptr[nprod][1] = -nprod

				// update the production information
				nprod++
				moreprod()
				levprd[nprod] = levprd[nprod-1] & ^ACTFLAG
				levprd[nprod-1] = ACTFLAG
				rlines[nprod] = lineno

				// make the action appear in the original rule
				curprod[mem] = j
				mem++
				if mem >= len(curprod) {
					ncurprod := make([]int, mem+RULEINC)
					copy(ncurprod, curprod)
					curprod = ncurprod
				}
			}
		}

		for t == ';' {
			t = gettok()
		}
		curprod[mem] = -nprod
		mem++

		// check that default action is reasonable
		if ntypes != 0 && (levprd[nprod]&ACTFLAG) == 0 &&
			nontrst[curprod[0]-NTBASE].value != 0 {
			// no explicit action, LHS has value
			tempty := curprod[1]
			if tempty < 0 {
				lerrorf(ruleline, "must return a value, since LHS has a type")
			}
			if tempty >= NTBASE {
				tempty = nontrst[tempty-NTBASE].value
			} else {
				tempty = TYPE(toklev[tempty])
			}
			if tempty != nontrst[curprod[0]-NTBASE].value {
				lerrorf(ruleline, "default action causes potential type clash")
			}
		}
		moreprod()
		prdptr[nprod] = make([]int, mem)
		copy(prdptr[nprod], curprod)
		nprod++
		moreprod()
		levprd[nprod] = 0
	}

	if TEMPSIZE < ntokens+nnonter+1 {
		errorf("too many tokens (%d) or non-terminals (%d)", ntokens, nnonter)
	}

	//
	// end of all rules
	// dump out the prefix code
	//

	fmt.Fprintf(fcode, "\n\t}")

	// put out non-literal terminals
	for i := TOKSTART; i <= ntokens; i++ {
		// non-literals
		if !tokset[i].noconst {
			fmt.Fprintf(ftable, "const %v = %v\n", tokset[i].name, tokset[i].value)
		}
	}

	// put out names of tokens
	ftable.WriteRune('\n')
	fmt.Fprintf(ftable, "var %sToknames = [...]string{\n", prefix)
	for i := 1; i <= ntokens; i++ {
		fmt.Fprintf(ftable, "\t%q,\n", tokset[i].name)
	}
	fmt.Fprintf(ftable, "}\n")

	// put out names of states.
	// commented out to avoid a huge table just for debugging.
	// re-enable to have the names in the binary.
	ftable.WriteRune('\n')
	fmt.Fprintf(ftable, "var %sStatenames = [...]string{\n", prefix)
	//	for i:=TOKSTART; i<=ntokens; i++ {
	//		fmt.Fprintf(ftable, "\t%q,\n", tokset[i].name);
	//	}
	fmt.Fprintf(ftable, "}\n")

	ftable.WriteRune('\n')
	fmt.Fprintf(ftable, "const %sEofCode = 1\n", prefix)
	fmt.Fprintf(ftable, "const %sErrCode = 2\n", prefix)
	fmt.Fprintf(ftable, "const %sInitialStackSize = %v\n", prefix, initialstacksize)

	//
	// copy any postfix code
	//
	if t == MARK {
		if !lflag {
			fmt.Fprintf(ftable, "\n//line %v:%v\n", infile, lineno)
		}
		for {
			c := getrune(finput)
			if c == EOF {
				break
			}
			ftable.WriteRune(c)
		}
	}
}

// allocate enough room to hold another production
func moreprod() {
	n := len(prdptr)
	if nprod >= n {
		nn := n + PRODINC
		aprod := make([][]int, nn)
		alevprd := make([]int, nn)
		arlines := make([]int, nn)

		copy(aprod, prdptr)
		copy(alevprd, levprd)
		copy(arlines, rlines)

		prdptr = aprod
		levprd = alevprd
		rlines = arlines
	}
}

// define s to be a terminal if nt==0
// or a nonterminal if nt==1
func defin(nt int, s string) int {
	val := 0
	if nt != 0 {
		nnonter++
		if nnonter >= len(nontrst) {
			anontrst := make([]Symb, nnonter+SYMINC)
			copy(anontrst, nontrst)
			nontrst = anontrst
		}
		nontrst[nnonter] = Symb{name: s}
		return NTBASE + nnonter
	}

	// must be a token
	ntokens++
	if ntokens >= len(tokset) {
		nn := ntokens + SYMINC
		atokset := make([]Symb, nn)
		atoklev := make([]int, nn)

		copy(atoklev, toklev)
		copy(atokset, tokset)

		tokset = atokset
		toklev = atoklev
	}
	tokset[ntokens].name = s
	toklev[ntokens] = 0

	// establish value for token
	// single character literal
	if s[0] == '\'' || s[0] == '"' {
		q, err := strconv.Unquote(s)
		if err != nil {
			errorf("invalid token: %s", err)
		}
		rq := []rune(q)
		if len(rq) != 1 {
			errorf("character token too long: %s", s)
		}
		val = int(rq[0])
		if val == 0 {
			errorf("token value 0 is illegal")
		}
		tokset[ntokens].noconst = true
	} else {
		val = extval
		extval++
		if s[0] == '$' {
			tokset[ntokens].noconst = true
		}
	}

	tokset[ntokens].value = val
	return ntokens
}

var peekline = 0

func gettok() int {
	var i int
	var match, c rune

	tokname = ""
	for {
		lineno += peekline
		peekline = 0
		c = getrune(finput)
		for c == ' ' || c == '\n' || c == '\t' || c == '\v' || c == '\r' {
			if c == '\n' {
				lineno++
			}
			c = getrune(finput)
		}

		// skip comment -- fix
		if c != '/' {
			break
		}
		lineno += skipcom()
	}

	switch c {
	case EOF:
		if tokflag {
			fmt.Printf(">>> ENDFILE %v\n", lineno)
		}
		return ENDFILE

	case '{':
		ungetrune(finput, c)
		if tokflag {
			fmt.Printf(">>> ={ %v\n", lineno)
		}
		return '='

	case '<':
		// get, and look up, a type name (union member name)
		c = getrune(finput)
		for c != '>' && c != EOF && c != '\n' {
			tokname += string(c)
			c = getrune(finput)
		}

		if c != '>' {
			errorf("unterminated < ... > clause")
		}

		for i = 1; i <= ntypes; i++ {
			if typeset[i] == tokname {
				numbval = i
				if tokflag {
					fmt.Printf(">>> TYPENAME old <%v> %v\n", tokname, lineno)
				}
				return TYPENAME
			}
		}
		ntypes++
		numbval = ntypes
		typeset[numbval] = tokname
		if tokflag {
			fmt.Printf(">>> TYPENAME new <%v> %v\n", tokname, lineno)
		}
		return TYPENAME

	case '"', '\'':
		match = c
		tokname = string(c)
		for {
			c = getrune(finput)
			if c == '\n' || c == EOF {
				errorf("illegal or missing ' or \"")
			}
			if c == '\\' {
				tokname += string('\\')
				c = getrune(finput)
			} else if c == match {
				if tokflag {
					fmt.Printf(">>> IDENTIFIER \"%v\" %v\n", tokname, lineno)
				}
				tokname += string(c)
				return IDENTIFIER
			}
			tokname += string(c)
		}

	case '%':
		c = getrune(finput)
		switch c {
		case '%':
			if tokflag {
				fmt.Printf(">>> MARK %%%% %v\n", lineno)
			}
			return MARK
		case '=':
			if tokflag {
				fmt.Printf(">>> PREC %%= %v\n", lineno)
			}
			return PREC
		case '{':
			if tokflag {
				fmt.Printf(">>> LCURLY %%{ %v\n", lineno)
			}
			return LCURLY
		}

		getword(c)
		// find a reserved word
		for i := range resrv {
			if tokname == resrv[i].name {
				if tokflag {
					fmt.Printf(">>> %%%v %v %v\n", tokname,
						resrv[i].value-PRIVATE, lineno)
				}
				return resrv[i].value
			}
		}
		errorf("invalid escape, or illegal reserved word: %v", tokname)

	case '0', '1', '2', '3', '4', '5', '6', '7', '8', '9':
		numbval = int(c - '0')
		for {
			c = getrune(finput)
			if !isdigit(c) {
				break
			}
			numbval = numbval*10 + int(c-'0')
		}
		ungetrune(finput, c)
		if tokflag {
			fmt.Printf(">>> NUMBER %v %v\n", numbval, lineno)
		}
		return NUMBER

	default:
		if isword(c) || c == '.' || c == '$' {
			getword(c)
			break
		}
		if tokflag {
			fmt.Printf(">>> OPERATOR %v %v\n", string(c), lineno)
		}
		return int(c)
	}

	// look ahead to distinguish IDENTIFIER from IDENTCOLON
	c = getrune(finput)
	for c == ' ' || c == '\t' || c == '\n' || c == '\v' || c == '\r' || c == '/' {
		if c == '\n' {
			peekline++
		}
		// look for comments
		if c == '/' {
			peekline += skipcom()
		}
		c = getrune(finput)
	}
	if c == ':' {
		if tokflag {
			fmt.Printf(">>> IDENTCOLON %v: %v\n", tokname, lineno)
		}
		return IDENTCOLON
	}

	ungetrune(finput, c)
	if tokflag {
		fmt.Printf(">>> IDENTIFIER %v %v\n", tokname, lineno)
	}
	return IDENTIFIER
}

func getword(c rune) {
	tokname = ""
	for isword(c) || isdigit(c) || c == '.' || c == '$' {
		tokname += string(c)
		c = getrune(finput)
	}
	ungetrune(finput, c)
}

// determine the type of a symbol
func fdtype(t int) int {
	var v int
	var s string

	if t >= NTBASE {
		v = nontrst[t-NTBASE].value
		s = nontrst[t-NTBASE].name
	} else {
		v = TYPE(toklev[t])
		s = tokset[t].name
	}
	if v <= 0 {
		errorf("must specify type for %v", s)
	}
	return v
}

func chfind(t int, s string) int {
	if s[0] == '"' || s[0] == '\'' {
		t = 0
	}
	for i := 0; i <= ntokens; i++ {
		if s == tokset[i].name {
			return i
		}
	}
	for i := 0; i <= nnonter; i++ {
		if s == nontrst[i].name {
			return NTBASE + i
		}
	}

	// cannot find name
	if t > 1 {
		errorf("%v should have been defined earlier", s)
	}
	return defin(t, s)
}

// copy the union declaration to the output, and the define file if present
func cpyunion() {

	if !lflag {
		fmt.Fprintf(ftable, "\n//line %v:%v\n", infile, lineno)
	}
	fmt.Fprintf(ftable, "type %sSymType struct", prefix)

	level := 0

out:
	for {
		c := getrune(finput)
		if c == EOF {
			errorf("EOF encountered while processing %%union")
		}
		ftable.WriteRune(c)
		switch c {
		case '\n':
			lineno++
		case '{':
			if level == 0 {
				fmt.Fprintf(ftable, "\n\tyys int")
			}
			level++
		case '}':
			level--
			if level == 0 {
				break out
			}
		}
	}
	fmt.Fprintf(ftable, "\n\n")
}

// saves code between %{ and %}
// adds an import for __fmt__ the first time
func cpycode() {
	lno := lineno

	c := getrune(finput)
	if c == '\n' {
		c = getrune(finput)
		lineno++
	}
	if !lflag {
		fmt.Fprintf(ftable, "\n//line %v:%v\n", infile, lineno)
	}
	// accumulate until %}
	code := make([]rune, 0, 1024)
	for c != EOF {
		if c == '%' {
			c = getrune(finput)
			if c == '}' {
				emitcode(code, lno+1)
				return
			}
			code = append(code, '%')
		}
		code = append(code, c)
		if c == '\n' {
			lineno++
		}
		c = getrune(finput)
	}
	lineno = lno
	errorf("eof before %%}")
}

// emits code saved up from between %{ and %}
// called by cpycode
// adds an import for __yyfmt__ after the package clause
func emitcode(code []rune, lineno int) {
	for i, line := range lines(code) {
		writecode(line)
		if !fmtImported && isPackageClause(line) {
			fmt.Fprintln(ftable, `import __yyfmt__ "fmt"`)
			if !lflag {
				fmt.Fprintf(ftable, "//line %v:%v\n\t\t", infile, lineno+i)
			}
			fmtImported = true
		}
	}
}

// does this line look like a package clause?  not perfect: might be confused by early comments.
func isPackageClause(line []rune) bool {
	line = skipspace(line)

	// must be big enough.
	if len(line) < len("package X\n") {
		return false
	}

	// must start with "package"
	for i, r := range []rune("package") {
		if line[i] != r {
			return false
		}
	}
	line = skipspace(line[len("package"):])

	// must have another identifier.
	if len(line) == 0 || (!unicode.IsLetter(line[0]) && line[0] != '_') {
		return false
	}
	for len(line) > 0 {
		if !unicode.IsLetter(line[0]) && !unicode.IsDigit(line[0]) && line[0] != '_' {
			break
		}
		line = line[1:]
	}
	line = skipspace(line)

	// eol, newline, or comment must follow
	if len(line) == 0 {
		return true
	}
	if line[0] == '\r' || line[0] == '\n' {
		return true
	}
	if len(line) >= 2 {
		return line[0] == '/' && (line[1] == '/' || line[1] == '*')
	}
	return false
}

// skip initial spaces
func skipspace(line []rune) []rune {
	for len(line) > 0 {
		if line[0] != ' ' && line[0] != '\t' {
			break
		}
		line = line[1:]
	}
	return line
}

// break code into lines
func lines(code []rune) [][]rune {
	l := make([][]rune, 0, 100)
	for len(code) > 0 {
		// one line per loop
		var i int
		for i = range code {
			if code[i] == '\n' {
				break
			}
		}
		l = append(l, code[:i+1])
		code = code[i+1:]
	}
	return l
}

// writes code to ftable
func writecode(code []rune) {
	for _, r := range code {
		ftable.WriteRune(r)
	}
}

// skip over comments
// skipcom is called after reading a '/'
func skipcom() int {
	c := getrune(finput)
	if c == '/' {
		for c != EOF {
			if c == '\n' {
				return 1
			}
			c = getrune(finput)
		}
		errorf("EOF inside comment")
		return 0
	}
	if c != '*' {
		errorf("illegal comment")
	}

	nl := 0 // lines skipped
	c = getrune(finput)

l1:
	switch c {
	case '*':
		c = getrune(finput)
		if c == '/' {
			break
		}
		goto l1

	case '\n':
		nl++
		fallthrough

	default:
		c = getrune(finput)
		goto l1
	}
	return nl
}

// copy action to the next ; or closing }
func cpyact(curprod []int, max int) {

	if !lflag {
		fmt.Fprintf(fcode, "\n//line %v:%v", infile, lineno)
	}
	fmt.Fprint(fcode, "\n\t\t")

	lno := lineno
	brac := 0

loop:
	for {
		c := getrune(finput)

	swt:
		switch c {
		case ';':
			if brac == 0 {
				fcode.WriteRune(c)
				return
			}

		case '{':
			brac++

		case '$':
			s := 1
			tok := -1
			c = getrune(finput)

			// type description
			if c == '<' {
				ungetrune(finput, c)
				if gettok() != TYPENAME {
					errorf("bad syntax on $<ident> clause")
				}
				tok = numbval
				c = getrune(finput)
			}
			if c == '$' {
				fmt.Fprintf(fcode, "%sVAL", prefix)

				// put out the proper tag...
				if ntypes != 0 {
					if tok < 0 {
						tok = fdtype(curprod[0])
					}
					fmt.Fprintf(fcode, ".%v", typeset[tok])
				}
				continue loop
			}
			if c == '-' {
				s = -s
				c = getrune(finput)
			}
			j := 0
			if isdigit(c) {
				for isdigit(c) {
					j = j*10 + int(c-'0')
					c = getrune(finput)
				}
				ungetrune(finput, c)
				j = j * s
				if j >= max {
					errorf("Illegal use of $%v", j)
				}
			} else if isword(c) || c == '.' {
				// look for $name
				ungetrune(finput, c)
				if gettok() != IDENTIFIER {
					errorf("$ must be followed by an identifier")
				}
				tokn := chfind(2, tokname)
				fnd := -1
				c = getrune(finput)
				if c != '@' {
					ungetrune(finput, c)
				} else if gettok() != NUMBER {
					errorf("@ must be followed by number")
				} else {
					fnd = numbval
				}
				for j = 1; j < max; j++ {
					if tokn == curprod[j] {
						fnd--
						if fnd <= 0 {
							break
						}
					}
				}
				if j >= max {
					errorf("$name or $name@number not found")
				}
			} else {
				fcode.WriteRune('$')
				if s < 0 {
					fcode.WriteRune('-')
				}
				ungetrune(finput, c)
				continue loop
			}
			fmt.Fprintf(fcode, "%sDollar[%v]", prefix, j)

			// put out the proper tag
			if ntypes != 0 {
				if j <= 0 && tok < 0 {
					errorf("must specify type of $%v", j)
				}
				if tok < 0 {
					tok = fdtype(curprod[j])
				}
				fmt.Fprintf(fcode, ".%v", typeset[tok])
			}
			continue loop

		case '}':
			brac--
			if brac != 0 {
				break
			}
			fcode.WriteRune(c)
			return

		case '/':
			nc := getrune(finput)
			if nc != '/' && nc != '*' {
				ungetrune(finput, nc)
				break
			}
			// a comment
			fcode.WriteRune(c)
			fcode.WriteRune(nc)
			c = getrune(finput)
			for c != EOF {
				switch {
				case c == '\n':
					lineno++
					if nc == '/' { // end of // comment
						break swt
					}
				case c == '*' && nc == '*': // end of /* comment?
					nnc := getrune(finput)
					if nnc == '/' {
						fcode.WriteRune('*')
						fcode.WriteRune('/')
						continue loop
					}
					ungetrune(finput, nnc)
				}
				fcode.WriteRune(c)
				c = getrune(finput)
			}
			errorf("EOF inside comment")

		case '\'', '"':
			// character string or constant
			match := c
			fcode.WriteRune(c)
			c = getrune(finput)
			for c != EOF {
				if c == '\\' {
					fcode.WriteRune(c)
					c = getrune(finput)
					if c == '\n' {
						lineno++
					}
				} else if c == match {
					break swt
				}
				if c == '\n' {
					errorf("newline in string or char const")
				}
				fcode.WriteRune(c)
				c = getrune(finput)
			}
			errorf("EOF in string or character constant")

		case EOF:
			lineno = lno
			errorf("action does not terminate")

		case '\n':
			fmt.Fprint(fcode, "\n\t")
			lineno++
			continue loop
		}

		fcode.WriteRune(c)
	}
}

func openup() {
	infile = flag.Arg(0)
	finput = open(infile)
	if finput == nil {
		errorf("cannot open %v", infile)
	}

	foutput = nil
	if vflag != "" {
		foutput = create(vflag)
		if foutput == nil {
			errorf("can't create file %v", vflag)
		}
	}

	ftable = nil
	if oflag == "" {
		oflag = "y.go"
	}
	ftable = create(oflag)
	if ftable == nil {
		errorf("can't create file %v", oflag)
	}

}

// return a pointer to the name of symbol i
func symnam(i int) string {
	var s string

	if i >= NTBASE {
		s = nontrst[i-NTBASE].name
	} else {
		s = tokset[i].name
	}
	return s
}

// set elements 0 through n-1 to c
func aryfil(v []int, n, c int) {
	for i := 0; i < n; i++ {
		v[i] = c
	}
}

// compute an array with the beginnings of productions yielding given nonterminals
// The array pres points to these lists
// the array pyield has the lists: the total size is only NPROD+1
func cpres() {
	pres = make([][][]int, nnonter+1)
	curres := make([][]int, nprod)

	if false {
		for j := 0; j <= nnonter; j++ {
			fmt.Printf("nnonter[%v] = %v\n", j, nontrst[j].name)
		}
		for j := 0; j < nprod; j++ {
			fmt.Printf("prdptr[%v][0] = %v+NTBASE\n", j, prdptr[j][0]-NTBASE)
		}
	}

	fatfl = 0 // make undefined symbols nonfatal
	for i := 0; i <= nnonter; i++ {
		n := 0
		c := i + NTBASE
		for j := 0; j < nprod; j++ {
			if prdptr[j][0] == c {
				curres[n] = prdptr[j][1:]
				n++
			}
		}
		if n == 0 {
			errorf("nonterminal %v not defined", nontrst[i].name)
			continue
		}
		pres[i] = make([][]int, n)
		copy(pres[i], curres)
	}
	fatfl = 1
	if nerrors != 0 {
		summary()
		exit(1)
	}
}

// mark nonterminals which derive the empty string
// also, look for nonterminals which don't derive any token strings
func cempty() {
	var i, p, np int
	var prd []int

	pempty = make([]int, nnonter+1)

	// first, use the array pempty to detect productions that can never be reduced
	// set pempty to WHONOWS
	aryfil(pempty, nnonter+1, WHOKNOWS)

	// now, look at productions, marking nonterminals which derive something
more:
	for {
		for i = 0; i < nprod; i++ {
			prd = prdptr[i]
			if pempty[prd[0]-NTBASE] != 0 {
				continue
			}
			np = len(prd) - 1
			for p = 1; p < np; p++ {
				if prd[p] >= NTBASE && pempty[prd[p]-NTBASE] == WHOKNOWS {
					break
				}
			}
			// production can be derived
			if p == np {
				pempty[prd[0]-NTBASE] = OK
				continue more
			}
		}
		break
	}

	// now, look at the nonterminals, to see if they are all OK
	for i = 0; i <= nnonter; i++ {
		// the added production rises or falls as the start symbol ...
		if i == 0 {
			continue
		}
		if pempty[i] != OK {
			fatfl = 0
			errorf("nonterminal %s never derives any token string", nontrst[i].name)
		}
	}

	if nerrors != 0 {
		summary()
		exit(1)
	}

	// now, compute the pempty array, to see which nonterminals derive the empty string
	// set pempty to WHOKNOWS
	aryfil(pempty, nnonter+1, WHOKNOWS)

	// loop as long as we keep finding empty nonterminals

again:
	for {
	next:
		for i = 1; i < nprod; i++ {
			// not known to be empty
			prd = prdptr[i]
			if pempty[prd[0]-NTBASE] != WHOKNOWS {
				continue
			}
			np = len(prd) - 1
			for p = 1; p < np; p++ {
				if prd[p] < NTBASE || pempty[prd[p]-NTBASE] != EMPTY {
					continue next
				}
			}

			// we have a nontrivially empty nonterminal
			pempty[prd[0]-NTBASE] = EMPTY

			// got one ... try for another
			continue again
		}
		return
	}
}

// compute an array with the first of nonterminals
func cpfir() {
	var s, n, p, np, ch, i int
	var curres [][]int
	var prd []int

	wsets = make([]Wset, nnonter+WSETINC)
	pfirst = make([]Lkset, nnonter+1)
	for i = 0; i <= nnonter; i++ {
		wsets[i].ws = mkset()
		pfirst[i] = mkset()
		curres = pres[i]
		n = len(curres)

		// initially fill the sets
		for s = 0; s < n; s++ {
			prd = curres[s]
			np = len(prd) - 1
			for p = 0; p < np; p++ {
				ch = prd[p]
				if ch < NTBASE {
					setbit(pfirst[i], ch)
					break
				}
				if pempty[ch-NTBASE] == 0 {
					break
				}
			}
		}
	}

	// now, reflect transitivity
	changes := 1
	for changes != 0 {
		changes = 0
		for i = 0; i <= nnonter; i++ {
			curres = pres[i]
			n = len(curres)
			for s = 0; s < n; s++ {
				prd = curres[s]
				np = len(prd) - 1
				for p = 0; p < np; p++ {
					ch = prd[p] - NTBASE
					if ch < 0 {
						break
					}
					changes |= setunion(pfirst[i], pfirst[ch])
					if pempty[ch] == 0 {
						break
					}
				}
			}
		}
	}

	if indebug == 0 {
		return
	}
	if foutput != nil {
		for i = 0; i <= nnonter; i++ {
			fmt.Fprintf(foutput, "\n%v: %v %v\n",
				nontrst[i].name, pfirst[i], pempty[i])
		}
	}
}

// generate the states
func stagen() {
	// initialize
	nstate = 0
	tstates = make([]int, ntokens+1)  // states generated by terminal gotos
	ntstates = make([]int, nnonter+1) // states generated by nonterminal gotos
	amem = make([]int, ACTSIZE)
	memp = 0

	clset = mkset()
	pstate[0] = 0
	pstate[1] = 0
	aryfil(clset, tbitset, 0)
	putitem(Pitem{prdptr[0], 0, 0, 0}, clset)
	tystate[0] = MUSTDO
	nstate = 1
	pstate[2] = pstate[1]

	//
	// now, the main state generation loop
	// first pass generates all of the states
	// later passes fix up lookahead
	// could be sped up a lot by remembering
	// results of the first pass rather than recomputing
	//
	first := 1
	for more := 1; more != 0; first = 0 {
		more = 0
		for i := 0; i < nstate; i++ {
			if tystate[i] != MUSTDO {
				continue
			}

			tystate[i] = DONE
			aryfil(temp1, nnonter+1, 0)

			// take state i, close it, and do gotos
			closure(i)

			// generate goto's
			for p := 0; p < cwp; p++ {
				pi := wsets[p]
				if pi.flag != 0 {
					continue
				}
				wsets[p].flag = 1
				c := pi.pitem.first
				if c <= 1 {
					if pstate[i+1]-pstate[i] <= p {
						tystate[i] = MUSTLOOKAHEAD
					}
					continue
				}

				// do a goto on c
				putitem(wsets[p].pitem, wsets[p].ws)
				for q := p + 1; q < cwp; q++ {
					// this item contributes to the goto
					if c == wsets[q].pitem.first {
						putitem(wsets[q].pitem, wsets[q].ws)
						wsets[q].flag = 1
					}
				}

				if c < NTBASE {
					state(c) // register new state
				} else {
					temp1[c-NTBASE] = state(c)
				}
			}

			if gsdebug != 0 && foutput != nil {
				fmt.Fprintf(foutput, "%v: ", i)
				for j := 0; j <= nnonter; j++ {
					if temp1[j] != 0 {
						fmt.Fprintf(foutput, "%v %v,", nontrst[j].name, temp1[j])
					}
				}
				fmt.Fprintf(foutput, "\n")
			}

			if first != 0 {
				indgo[i] = apack(temp1[1:], nnonter-1) - 1
			}

			more++
		}
	}
}

// generate the closure of state i
func closure(i int) {
	zzclose++

	// first, copy kernel of state i to wsets
	cwp = 0
	q := pstate[i+1]
	for p := pstate[i]; p < q; p++ {
		wsets[cwp].pitem = statemem[p].pitem
		wsets[cwp].flag = 1 // this item must get closed
		copy(wsets[cwp].ws, statemem[p].look)
		cwp++
	}

	// now, go through the loop, closing each item
	work := 1
	for work != 0 {
		work = 0
		for u := 0; u < cwp; u++ {
			if wsets[u].flag == 0 {
				continue
			}

			// dot is before c
			c := wsets[u].pitem.first
			if c < NTBASE {
				wsets[u].flag = 0
				// only interesting case is where . is before nonterminal
				continue
			}

			// compute the lookahead
			aryfil(clset, tbitset, 0)

			// find items involving c
			for v := u; v < cwp; v++ {
				if wsets[v].flag != 1 || wsets[v].pitem.first != c {
					continue
				}
				pi := wsets[v].pitem.prod
				ipi := wsets[v].pitem.off + 1

				wsets[v].flag = 0
				if nolook != 0 {
					continue
				}

				ch := pi[ipi]
				ipi++
				for ch > 0 {
					// terminal symbol
					if ch < NTBASE {
						setbit(clset, ch)
						break
					}

					// nonterminal symbol
					setunion(clset, pfirst[ch-NTBASE])
					if pempty[ch-NTBASE] == 0 {
						break
					}
					ch = pi[ipi]
					ipi++
				}
				if ch <= 0 {
					setunion(clset, wsets[v].ws)
				}
			}

			//
			// now loop over productions derived from c
			//
			curres := pres[c-NTBASE]
			n := len(curres)

		nexts:
			// initially fill the sets
			for s := 0; s < n; s++ {
				prd := curres[s]

				//
				// put these items into the closure
				// is the item there
				//
				for v := 0; v < cwp; v++ {
					// yes, it is there
					if wsets[v].pitem.off == 0 &&
						aryeq(wsets[v].pitem.prod, prd) != 0 {
						if nolook == 0 &&
							setunion(wsets[v].ws, clset) != 0 {
							wsets[v].flag = 1
							work = 1
						}
						continue nexts
					}
				}

				//  not there; make a new entry
				if cwp >= len(wsets) {
					awsets := make([]Wset, cwp+WSETINC)
					copy(awsets, wsets)
					wsets = awsets
				}
				wsets[cwp].pitem = Pitem{prd, 0, prd[0], -prd[len(prd)-1]}
				wsets[cwp].flag = 1
				wsets[cwp].ws = mkset()
				if nolook == 0 {
					work = 1
					copy(wsets[cwp].ws, clset)
				}
				cwp++
			}
		}
	}

	// have computed closure; flags are reset; return
	if cldebug != 0 && foutput != nil {
		fmt.Fprintf(foutput, "\nState %v, nolook = %v\n", i, nolook)
		for u := 0; u < cwp; u++ {
			if wsets[u].flag != 0 {
				fmt.Fprintf(foutput, "flag set\n")
			}
			wsets[u].flag = 0
			fmt.Fprintf(foutput, "\t%v", writem(wsets[u].pitem))
			prlook(wsets[u].ws)
			fmt.Fprintf(foutput, "\n")
		}
	}
}

// sorts last state,and sees if it equals earlier ones. returns state number
func state(c int) int {
	zzstate++
	p1 := pstate[nstate]
	p2 := pstate[nstate+1]
	if p1 == p2 {
		return 0 // null state
	}

	// sort the items
	var k, l int
	for k = p1 + 1; k < p2; k++ { // make k the biggest
		for l = k; l > p1; l-- {
			if statemem[l].pitem.prodno < statemem[l-1].pitem.prodno ||
				statemem[l].pitem.prodno == statemem[l-1].pitem.prodno &&
					statemem[l].pitem.off < statemem[l-1].pitem.off {
				s := statemem[l]
				statemem[l] = statemem[l-1]
				statemem[l-1] = s
			} else {
				break
			}
		}
	}

	size1 := p2 - p1 // size of state

	var i int
	if c >= NTBASE {
		i = ntstates[c-NTBASE]
	} else {
		i = tstates[c]
	}

look:
	for ; i != 0; i = mstates[i] {
		// get ith state
		q1 := pstate[i]
		q2 := pstate[i+1]
		size2 := q2 - q1
		if size1 != size2 {
			continue
		}
		k = p1
		for l = q1; l < q2; l++ {
			if aryeq(statemem[l].pitem.prod, statemem[k].pitem.prod) == 0 ||
				statemem[l].pitem.off != statemem[k].pitem.off {
				continue look
			}
			k++
		}

		// found it
		pstate[nstate+1] = pstate[nstate] // delete last state

		// fix up lookaheads
		if nolook != 0 {
			return i
		}
		k = p1
		for l = q1; l < q2; l++ {
			if setunion(statemem[l].look, statemem[k].look) != 0 {
				tystate[i] = MUSTDO
			}
			k++
		}
		return i
	}

	// state is new
	zznewstate++
	if nolook != 0 {
		errorf("yacc state/nolook error")
	}
	pstate[nstate+2] = p2
	if nstate+1 >= NSTATES {
		errorf("too many states")
	}
	if c >= NTBASE {
		mstates[nstate] = ntstates[c-NTBASE]
		ntstates[c-NTBASE] = nstate
	} else {
		mstates[nstate] = tstates[c]
		tstates[c] = nstate
	}
	tystate[nstate] = MUSTDO
	nstate++
	return nstate - 1
}

func putitem(p Pitem, set Lkset) {
	p.off++
	p.first = p.prod[p.off]

	if pidebug != 0 && foutput != nil {
		fmt.Fprintf(foutput, "putitem(%v), state %v\n", writem(p), nstate)
	}
	j := pstate[nstate+1]
	if j >= len(statemem) {
		asm := make([]Item, j+STATEINC)
		copy(asm, statemem)
		statemem = asm
	}
	statemem[j].pitem = p
	if nolook == 0 {
		s := mkset()
		copy(s, set)
		statemem[j].look = s
	}
	j++
	pstate[nstate+1] = j
}

// creates output string for item pointed to by pp
func writem(pp Pitem) string {
	var i int

	p := pp.prod
	q := chcopy(nontrst[prdptr[pp.prodno][0]-NTBASE].name) + ": "
	npi := pp.off

	pi := aryeq(p, prdptr[pp.prodno])

	for {
		c := ' '
		if pi == npi {
			c = '.'
		}
		q += string(c)

		i = p[pi]
		pi++
		if i <= 0 {
			break
		}
		q += chcopy(symnam(i))
	}

	// an item calling for a reduction
	i = p[npi]
	if i < 0 {
		q += fmt.Sprintf("    (%v)", -i)
	}

	return q
}

// pack state i from temp1 into amem
func apack(p []int, n int) int {
	//
	// we don't need to worry about checking because
	// we will only look at entries known to be there...
	// eliminate leading and trailing 0's
	//
	off := 0
	pp := 0
	for ; pp <= n && p[pp] == 0; pp++ {
		off--
	}

	// no actions
	if pp > n {
		return 0
	}
	for ; n > pp && p[n] == 0; n-- {
	}
	p = p[pp : n+1]

	// now, find a place for the elements from p to q, inclusive
	r := len(amem) - len(p)

nextk:
	for rr := 0; rr <= r; rr++ {
		qq := rr
		for pp = 0; pp < len(p); pp++ {
			if p[pp] != 0 {
				if p[pp] != amem[qq] && amem[qq] != 0 {
					continue nextk
				}
			}
			qq++
		}

		// we have found an acceptable k
		if pkdebug != 0 && foutput != nil {
			fmt.Fprintf(foutput, "off = %v, k = %v\n", off+rr, rr)
		}
		qq = rr
		for pp = 0; pp < len(p); pp++ {
			if p[pp] != 0 {
				if qq > memp {
					memp = qq
				}
				amem[qq] = p[pp]
			}
			qq++
		}
		if pkdebug != 0 && foutput != nil {
			for pp = 0; pp <= memp; pp += 10 {
				fmt.Fprintf(foutput, "\n")
				for qq = pp; qq <= pp+9; qq++ {
					fmt.Fprintf(foutput, "%v ", amem[qq])
				}
				fmt.Fprintf(foutput, "\n")
			}
		}
		return off + rr
	}
	errorf("no space in action table")
	return 0
}

// print the output for the states
func output() {
	var c, u, v int

	if !lflag {
		fmt.Fprintf(ftable, "\n//line yacctab:1")
	}
	var actions []int

	if len(errors) > 0 {
		stateTable = make([]Row, nstate)
	}

	noset := mkset()

	// output the stuff for state i
	for i := 0; i < nstate; i++ {
		nolook = 0
		if tystate[i] != MUSTLOOKAHEAD {
			nolook = 1
		}
		closure(i)

		// output actions
		nolook = 1
		aryfil(temp1, ntokens+nnonter+1, 0)
		for u = 0; u < cwp; u++ {
			c = wsets[u].pitem.first
			if c > 1 && c < NTBASE && temp1[c] == 0 {
				for v = u; v < cwp; v++ {
					if c == wsets[v].pitem.first {
						putitem(wsets[v].pitem, noset)
					}
				}
				temp1[c] = state(c)
			} else if c > NTBASE {
				c -= NTBASE
				if temp1[c+ntokens] == 0 {
					temp1[c+ntokens] = amem[indgo[i]+c]
				}
			}
		}
		if i == 1 {
			temp1[1] = ACCEPTCODE
		}

		// now, we have the shifts; look at the reductions
		lastred = 0
		for u = 0; u < cwp; u++ {
			c = wsets[u].pitem.first

			// reduction
			if c > 0 {
				continue
			}
			lastred = -c
			us := wsets[u].ws
			for k := 0; k <= ntokens; k++ {
				if bitset(us, k) == 0 {
					continue
				}
				if temp1[k] == 0 {
					temp1[k] = c
				} else if temp1[k] < 0 { // reduce/reduce conflict
					if foutput != nil {
						fmt.Fprintf(foutput,
							"\n %v: reduce/reduce conflict  (red'ns "+
								"%v and %v) on %v",
							i, -temp1[k], lastred, symnam(k))
					}
					if -temp1[k] > lastred {
						temp1[k] = -lastred
					}
					zzrrconf++
				} else {
					// potential shift/reduce conflict
					precftn(lastred, k, i)
				}
			}
		}
		actions = addActions(actions, i)
	}

	arrayOutColumns("Exca", actions, 2, false)
	fmt.Fprintf(ftable, "\n")
	ftable.WriteRune('\n')
	fmt.Fprintf(ftable, "const %sPrivate = %v\n", prefix, PRIVATE)
}

// decide a shift/reduce conflict by precedence.
// r is a rule number, t a token number
// the conflict is in state s
// temp1[t] is changed to reflect the action
func precftn(r, t, s int) {
	action := NOASC

	lp := levprd[r]
	lt := toklev[t]
	if PLEVEL(lt) == 0 || PLEVEL(lp) == 0 {
		// conflict
		if foutput != nil {
			fmt.Fprintf(foutput,
				"\n%v: shift/reduce conflict (shift %v(%v), red'n %v(%v)) on %v",
				s, temp1[t], PLEVEL(lt), r, PLEVEL(lp), symnam(t))
		}
		zzsrconf++
		return
	}
	if PLEVEL(lt) == PLEVEL(lp) {
		action = ASSOC(lt)
	} else if PLEVEL(lt) > PLEVEL(lp) {
		action = RASC // shift
	} else {
		action = LASC
	} // reduce
	switch action {
	case BASC: // error action
		temp1[t] = ERRCODE
	case LASC: // reduce
		temp1[t] = -r
	}
}

// output state i
// temp1 has the actions, lastred the default
func addActions(act []int, i int) []int {
	var p, p1 int

	// find the best choice for lastred
	lastred = 0
	ntimes := 0
	for j := 0; j <= ntokens; j++ {
		if temp1[j] >= 0 {
			continue
		}
		if temp1[j]+lastred == 0 {
			continue
		}
		// count the number of appearances of temp1[j]
		count := 0
		tred := -temp1[j]
		levprd[tred] |= REDFLAG
		for p = 0; p <= ntokens; p++ {
			if temp1[p]+tred == 0 {
				count++
			}
		}
		if count > ntimes {
			lastred = tred
			ntimes = count
		}
	}

	//
	// for error recovery, arrange that, if there is a shift on the
	// error recovery token, `error', that the default be the error action
	//
	if temp1[2] > 0 {
		lastred = 0
	}

	// clear out entries in temp1 which equal lastred
	// count entries in optst table
	n := 0
	for p = 0; p <= ntokens; p++ {
		p1 = temp1[p]
		if p1+lastred == 0 {
			temp1[p] = 0
			p1 = 0
		}
		if p1 > 0 && p1 != ACCEPTCODE && p1 != ERRCODE {
			n++
		}
	}

	wrstate(i)
	defact[i] = lastred
	flag := 0
	os := make([]int, n*2)
	n = 0
	for p = 0; p <= ntokens; p++ {
		p1 = temp1[p]
		if p1 != 0 {
			if p1 < 0 {
				p1 = -p1
			} else if p1 == ACCEPTCODE {
				p1 = -1
			} else if p1 == ERRCODE {
				p1 = 0
			} else {
				os[n] = p
				n++
				os[n] = p1
				n++
				zzacent++
				continue
			}
			if flag == 0 {
				act = append(act, -1, i)
			}
			flag++
			act = append(act, p, p1)
			zzexcp++
		}
	}
	if flag != 0 {
		defact[i] = -2
		act = append(act, -2, lastred)
	}
	optst[i] = os
	return act
}

// writes state i
func wrstate(i int) {
	var j0, j1, u int
	var pp, qq int

	if len(errors) > 0 {
		actions := append([]int(nil), temp1...)
		defaultAction := ERRCODE
		if lastred != 0 {
			defaultAction = -lastred
		}
		stateTable[i] = Row{actions, defaultAction}
	}

	if foutput == nil {
		return
	}
	fmt.Fprintf(foutput, "\nstate %v\n", i)
	qq = pstate[i+1]
	for pp = pstate[i]; pp < qq; pp++ {
		fmt.Fprintf(foutput, "\t%v\n", writem(statemem[pp].pitem))
	}
	if tystate[i] == MUSTLOOKAHEAD {
		// print out empty productions in closure
		for u = pstate[i+1] - pstate[i]; u < cwp; u++ {
			if wsets[u].pitem.first < 0 {
				fmt.Fprintf(foutput, "\t%v\n", writem(wsets[u].pitem))
			}
		}
	}

	// check for state equal to another
	for j0 = 0; j0 <= ntokens; j0++ {
		j1 = temp1[j0]
		if j1 != 0 {
			fmt.Fprintf(foutput, "\n\t%v  ", symnam(j0))

			// shift, error, or accept
			if j1 > 0 {
				if j1 == ACCEPTCODE {
					fmt.Fprintf(foutput, "accept")
				} else if j1 == ERRCODE {
					fmt.Fprintf(foutput, "error")
				} else {
					fmt.Fprintf(foutput, "shift %v", j1)
				}
			} else {
				fmt.Fprintf(foutput, "reduce %v (src line %v)", -j1, rlines[-j1])
			}
		}
	}

	// output the final production
	if lastred != 0 {
		fmt.Fprintf(foutput, "\n\t.  reduce %v (src line %v)\n\n",
			lastred, rlines[lastred])
	} else {
		fmt.Fprintf(foutput, "\n\t.  error\n\n")
	}

	// now, output nonterminal actions
	j1 = ntokens
	for j0 = 1; j0 <= nnonter; j0++ {
		j1++
		if temp1[j1] != 0 {
			fmt.Fprintf(foutput, "\t%v  goto %v\n", symnam(j0+NTBASE), temp1[j1])
		}
	}
}

// output the gotos for the nontermninals
func go2out() {
	for i := 1; i <= nnonter; i++ {
		go2gen(i)

		// find the best one to make default
		best := -1
		times := 0

		// is j the most frequent
		for j := 0; j < nstate; j++ {
			if tystate[j] == 0 {
				continue
			}
			if tystate[j] == best {
				continue
			}

			// is tystate[j] the most frequent
			count := 0
			cbest := tystate[j]
			for k := j; k < nstate; k++ {
				if tystate[k] == cbest {
					count++
				}
			}
			if count > times {
				best = cbest
				times = count
			}
		}

		// best is now the default entry
		zzgobest += times - 1
		n := 0
		for j := 0; j < nstate; j++ {
			if tystate[j] != 0 && tystate[j] != best {
				n++
			}
		}
		goent := make([]int, 2*n+1)
		n = 0
		for j := 0; j < nstate; j++ {
			if tystate[j] != 0 && tystate[j] != best {
				goent[n] = j
				n++
				goent[n] = tystate[j]
				n++
				zzgoent++
			}
		}

		// now, the default
		if best == -1 {
			best = 0
		}

		zzgoent++
		goent[n] = best
		yypgo[i] = goent
	}
}

// output the gotos for nonterminal c
func go2gen(c int) {
	var i, cc, p, q int

	// first, find nonterminals with gotos on c
	aryfil(temp1, nnonter+1, 0)
	temp1[c] = 1
	work := 1
	for work != 0 {
		work = 0
		for i = 0; i < nprod; i++ {
			// cc is a nonterminal with a goto on c
			cc = prdptr[i][1] - NTBASE
			if cc >= 0 && temp1[cc] != 0 {
				// thus, the left side of production i does too
				cc = prdptr[i][0] - NTBASE
				if temp1[cc] == 0 {
					work = 1
					temp1[cc] = 1
				}
			}
		}
	}

	// now, we have temp1[c] = 1 if a goto on c in closure of cc
	if g2debug != 0 && foutput != nil {
		fmt.Fprintf(foutput, "%v: gotos on ", nontrst[c].name)
		for i = 0; i <= nnonter; i++ {
			if temp1[i] != 0 {
				fmt.Fprintf(foutput, "%v ", nontrst[i].name)
			}
		}
		fmt.Fprintf(foutput, "\n")
	}

	// now, go through and put gotos into tystate
	aryfil(tystate, nstate, 0)
	for i = 0; i < nstate; i++ {
		q = pstate[i+1]
		for p = pstate[i]; p < q; p++ {
			cc = statemem[p].pitem.first
			if cc >= NTBASE {
				// goto on c is possible
				if temp1[cc-NTBASE] != 0 {
					tystate[i] = amem[indgo[i]+c]
					break
				}
			}
		}
	}
}

// in order to free up the mem and amem arrays for the optimizer,
// and still be able to output yyr1, etc., after the sizes of
// the action array is known, we hide the nonterminals
// derived by productions in levprd.
func hideprod() {
	nred := 0
	levprd[0] = 0
	for i := 1; i < nprod; i++ {
		if (levprd[i] & REDFLAG) == 0 {
			if foutput != nil {
				fmt.Fprintf(foutput, "Rule not reduced: %v\n",
					writem(Pitem{prdptr[i], 0, 0, i}))
			}
			fmt.Printf("rule %v never reduced\n", writem(Pitem{prdptr[i], 0, 0, i}))
			nred++
		}
		levprd[i] = prdptr[i][0] - NTBASE
	}
	if nred != 0 {
		fmt.Printf("%v rules never reduced\n", nred)
	}
}

func callopt() {
	var j, k, p, q, i int
	var v []int

	pgo = make([]int, nnonter+1)
	pgo[0] = 0
	maxoff = 0
	maxspr = 0
	for i = 0; i < nstate; i++ {
		k = 32000
		j = 0
		v = optst[i]
		q = len(v)
		for p = 0; p < q; p += 2 {
			if v[p] > j {
				j = v[p]
			}
			if v[p] < k {
				k = v[p]
			}
		}

		// nontrivial situation
		if k <= j {
			// j is now the range
			//			j -= k;			// call scj
			if k > maxoff {
				maxoff = k
			}
		}
		tystate[i] = q + 2*j
		if j > maxspr {
			maxspr = j
		}
	}

	// initialize ggreed table
	ggreed = make([]int, nnonter+1)
	for i = 1; i <= nnonter; i++ {
		ggreed[i] = 1
		j = 0

		// minimum entry index is always 0
		v = yypgo[i]
		q = len(v) - 1
		for p = 0; p < q; p += 2 {
			ggreed[i] += 2
			if v[p] > j {
				j = v[p]
			}
		}
		ggreed[i] = ggreed[i] + 2*j
		if j > maxoff {
			maxoff = j
		}
	}

	// now, prepare to put the shift actions into the amem array
	for i = 0; i < ACTSIZE; i++ {
		amem[i] = 0
	}
	maxa = 0
	for i = 0; i < nstate; i++ {
		if tystate[i] == 0 && adb > 1 {
			fmt.Fprintf(ftable, "State %v: null\n", i)
		}
		indgo[i] = yyFlag
	}

	i = nxti()
	for i != NOMORE {
		if i >= 0 {
			stin(i)
		} else {
			gin(-i)
		}
		i = nxti()
	}

	// print amem array
	if adb > 2 {
		for p = 0; p <= maxa; p += 10 {
			fmt.Fprintf(ftable, "%v  ", p)
			for i = 0; i < 10; i++ {
				fmt.Fprintf(ftable, "%v  ", amem[p+i])
			}
			ftable.WriteRune('\n')
		}
	}

	aoutput()
	osummary()
}

// finds the next i
func nxti() int {
	max := 0
	maxi := 0
	for i := 1; i <= nnonter; i++ {
		if ggreed[i] >= max {
			max = ggreed[i]
			maxi = -i
		}
	}
	for i := 0; i < nstate; i++ {
		if tystate[i] >= max {
			max = tystate[i]
			maxi = i
		}
	}
	if max == 0 {
		return NOMORE
	}
	return maxi
}

func gin(i int) {
	var s int

	// enter gotos on nonterminal i into array amem
	ggreed[i] = 0

	q := yypgo[i]
	nq := len(q) - 1

	// now, find amem place for it
nextgp:
	for p := 0; p < ACTSIZE; p++ {
		if amem[p] != 0 {
			continue
		}
		for r := 0; r < nq; r += 2 {
			s = p + q[r] + 1
			if s > maxa {
				maxa = s
				if maxa >= ACTSIZE {
					errorf("a array overflow")
				}
			}
			if amem[s] != 0 {
				continue nextgp
			}
		}

		// we have found amem spot
		amem[p] = q[nq]
		if p > maxa {
			maxa = p
		}
		for r := 0; r < nq; r += 2 {
			s = p + q[r] + 1
			amem[s] = q[r+1]
		}
		pgo[i] = p
		if adb > 1 {
			fmt.Fprintf(ftable, "Nonterminal %v, entry at %v\n", i, pgo[i])
		}
		return
	}
	errorf("cannot place goto %v\n", i)
}

func stin(i int) {
	var s int

	tystate[i] = 0

	// enter state i into the amem array
	q := optst[i]
	nq := len(q)

nextn:
	// find an acceptable place
	for n := -maxoff; n < ACTSIZE; n++ {
		flag := 0
		for r := 0; r < nq; r += 2 {
			s = q[r] + n
			if s < 0 || s > ACTSIZE {
				continue nextn
			}
			if amem[s] == 0 {
				flag++
			} else if amem[s] != q[r+1] {
				continue nextn
			}
		}

		// check the position equals another only if the states are identical
		for j := 0; j < nstate; j++ {
			if indgo[j] == n {

				// we have some disagreement
				if flag != 0 {
					continue nextn
				}
				if nq == len(optst[j]) {

					// states are equal
					indgo[i] = n
					if adb > 1 {
						fmt.Fprintf(ftable, "State %v: entry at"+
							"%v equals state %v\n",
							i, n, j)
					}
					return
				}

				// we have some disagreement
				continue nextn
			}
		}

		for r := 0; r < nq; r += 2 {
			s = q[r] + n
			if s > maxa {
				maxa = s
			}
			if amem[s] != 0 && amem[s] != q[r+1] {
				errorf("clobber of a array, pos'n %v, by %v", s, q[r+1])
			}
			amem[s] = q[r+1]
		}
		indgo[i] = n
		if adb > 1 {
			fmt.Fprintf(ftable, "State %v: entry at %v\n", i, indgo[i])
		}
		return
	}
	errorf("Error; failure to place state %v", i)
}

// this version is for limbo
// write out the optimized parser
func aoutput() {
	ftable.WriteRune('\n')
	fmt.Fprintf(ftable, "const %sLast = %v\n", prefix, maxa+1)
	arout("Act", amem, maxa+1)
	arout("Pact", indgo, nstate)
	arout("Pgo", pgo, nnonter+1)
}

// put out other arrays, copy the parsers
func others() {
	var i, j int

	arout("R1", levprd, nprod)
	aryfil(temp1, nprod, 0)

	//
	//yyr2 is the number of rules for each production
	//
	for i = 1; i < nprod; i++ {
		temp1[i] = len(prdptr[i]) - 2
	}
	arout("R2", temp1, nprod)

	aryfil(temp1, nstate, -1000)
	for i = 0; i <= ntokens; i++ {
		for j := tstates[i]; j != 0; j = mstates[j] {
			temp1[j] = i
		}
	}
	for i = 0; i <= nnonter; i++ {
		for j = ntstates[i]; j != 0; j = mstates[j] {
			temp1[j] = -i
		}
	}
	arout("Chk", temp1, nstate)
	arrayOutColumns("Def", defact[:nstate], 10, false)

	// put out token translation tables
	// table 1 has 0-256
	aryfil(temp1, 256, 0)
	c := 0
	for i = 1; i <= ntokens; i++ {
		j = tokset[i].value
		if j >= 0 && j < 256 {
			if temp1[j] != 0 {
				fmt.Print("yacc bug -- cannot have 2 different Ts with same value\n")
				fmt.Printf("	%s and %s\n", tokset[i].name, tokset[temp1[j]].name)
				nerrors++
			}
			temp1[j] = i
			if j > c {
				c = j
			}
		}
	}
	for i = 0; i <= c; i++ {
		if temp1[i] == 0 {
			temp1[i] = YYLEXUNK
		}
	}
	arout("Tok1", temp1, c+1)

	// table 2 has PRIVATE-PRIVATE+256
	aryfil(temp1, 256, 0)
	c = 0
	for i = 1; i <= ntokens; i++ {
		j = tokset[i].value - PRIVATE
		if j >= 0 && j < 256 {
			if temp1[j] != 0 {
				fmt.Print("yacc bug -- cannot have 2 different Ts with same value\n")
				fmt.Printf("	%s and %s\n", tokset[i].name, tokset[temp1[j]].name)
				nerrors++
			}
			temp1[j] = i
			if j > c {
				c = j
			}
		}
	}
	arout("Tok2", temp1, c+1)

	// table 3 has everything else
	ftable.WriteRune('\n')
	var v []int
	for i = 1; i <= ntokens; i++ {
		j = tokset[i].value
		if j >= 0 && j < 256 {
			continue
		}
		if j >= PRIVATE && j < 256+PRIVATE {
			continue
		}

		v = append(v, j, i)
	}
	v = append(v, 0)
	arout("Tok3", v, len(v))
	fmt.Fprintf(ftable, "\n")

	// Custom error messages.
	fmt.Fprintf(ftable, "\n")
	fmt.Fprintf(ftable, "var %sErrorMessages = [...]struct {\n", prefix)
	fmt.Fprintf(ftable, "\tstate int\n")
	fmt.Fprintf(ftable, "\ttoken int\n")
	fmt.Fprintf(ftable, "\tmsg   string\n")
	fmt.Fprintf(ftable, "}{\n")
	for _, error := range errors {
		lineno = error.lineno
		state, token := runMachine(error.tokens)
		fmt.Fprintf(ftable, "\t{%v, %v, %s},\n", state, token, error.msg)
	}
	fmt.Fprintf(ftable, "}\n")

	// copy parser text
	ch := getrune(finput)
	for ch != EOF {
		ftable.WriteRune(ch)
		ch = getrune(finput)
	}

	// copy yaccpar
	if !lflag {
		fmt.Fprintf(ftable, "\n//line yaccpar:1\n")
	}

	parts := strings.SplitN(yaccpar, prefix+"run()", 2)
	fmt.Fprintf(ftable, "%v", parts[0])
	ftable.Write(fcode.Bytes())
	fmt.Fprintf(ftable, "%v", parts[1])
}

func runMachine(tokens []string) (state, token int) {
	var stack []int
	i := 0
	token = -1

Loop:
	if token < 0 {
		token = chfind(2, tokens[i])
		i++
	}

	row := stateTable[state]

	c := token
	if token >= NTBASE {
		c = token - NTBASE + ntokens
	}
	action := row.actions[c]
	if action == 0 {
		action = row.defaultAction
	}

	switch {
	case action == ACCEPTCODE:
		errorf("tokens are accepted")
		return
	case action == ERRCODE:
		if token >= NTBASE {
			errorf("error at non-terminal token %s", symnam(token))
		}
		return
	case action > 0:
		// Shift to state action.
		stack = append(stack, state)
		state = action
		token = -1
		goto Loop
	default:
		// Reduce by production -action.
		prod := prdptr[-action]
		if rhsLen := len(prod) - 2; rhsLen > 0 {
			n := len(stack) - rhsLen
			state = stack[n]
			stack = stack[:n]
		}
		if token >= 0 {
			i--
		}
		token = prod[0]
		goto Loop
	}
}

func minMax(v []int) (min, max int) {
	if len(v) == 0 {
		return
	}
	min = v[0]
	max = v[0]
	for _, i := range v {
		if i < min {
			min = i
		}
		if i > max {
			max = i
		}
	}
	return
}

// return the smaller integral base type to store the values in v
func minType(v []int, allowUnsigned bool) (typ string) {
	typ = "int"
	typeLen := 8
	min, max := minMax(v)
	checkType := func(name string, size, minType, maxType int) {
		if min >= minType && max <= maxType && typeLen > size {
			typ = name
			typeLen = size
		}
	}
	checkType("int32", 4, math.MinInt32, math.MaxInt32)
	checkType("int16", 2, math.MinInt16, math.MaxInt16)
	checkType("int8", 1, math.MinInt8, math.MaxInt8)
	if allowUnsigned {
		// Do not check for uint32, not worth and won't compile on 32 bit systems
		checkType("uint16", 2, 0, math.MaxUint16)
		checkType("uint8", 1, 0, math.MaxUint8)
	}
	return
}

func arrayOutColumns(s string, v []int, columns int, allowUnsigned bool) {
	s = prefix + s
	ftable.WriteRune('\n')
	minType := minType(v, allowUnsigned)
	fmt.Fprintf(ftable, "var %v = [...]%s{", s, minType)
	for i, val := range v {
		if i%columns == 0 {
			fmt.Fprintf(ftable, "\n\t")
		} else {
			ftable.WriteRune(' ')
		}
		fmt.Fprintf(ftable, "%d,", val)
	}
	fmt.Fprintf(ftable, "\n}\n")
}

func arout(s string, v []int, n int) {
	arrayOutColumns(s, v[:n], 10, true)
}

// output the summary on y.output
func summary() {
	if foutput != nil {
		fmt.Fprintf(foutput, "\n%v terminals, %v nonterminals\n", ntokens, nnonter+1)
		fmt.Fprintf(foutput, "%v grammar rules, %v/%v states\n", nprod, nstate, NSTATES)
		fmt.Fprintf(foutput, "%v shift/reduce, %v reduce/reduce conflicts reported\n", zzsrconf, zzrrconf)
		fmt.Fprintf(foutput, "%v working sets used\n", len(wsets))
		fmt.Fprintf(foutput, "memory: parser %v/%v\n", memp, ACTSIZE)
		fmt.Fprintf(foutput, "%v extra closures\n", zzclose-2*nstate)
		fmt.Fprintf(foutput, "%v shift entries, %v exceptions\n", zzacent, zzexcp)
		fmt.Fprintf(foutput, "%v goto entries\n", zzgoent)
		fmt.Fprintf(foutput, "%v entries saved by goto default\n", zzgobest)
	}
	if zzsrconf != 0 || zzrrconf != 0 {
		fmt.Printf("\nconflicts: ")
		if zzsrconf != 0 {
			fmt.Printf("%v shift/reduce", zzsrconf)
		}
		if zzsrconf != 0 && zzrrconf != 0 {
			fmt.Printf(", ")
		}
		if zzrrconf != 0 {
			fmt.Printf("%v reduce/reduce", zzrrconf)
		}
		fmt.Printf("\n")
	}
}

// write optimizer summary
func osummary() {
	if foutput == nil {
		return
	}
	i := 0
	for p := maxa; p >= 0; p-- {
		if amem[p] == 0 {
			i++
		}
	}

	fmt.Fprintf(foutput, "Optimizer space used: output %v/%v\n", maxa+1, ACTSIZE)
	fmt.Fprintf(foutput, "%v table entries, %v zero\n", maxa+1, i)
	fmt.Fprintf(foutput, "maximum spread: %v, maximum offset: %v\n", maxspr, maxoff)
}

// copies and protects "'s in q
func chcopy(q string) string {
	s := ""
	i := 0
	j := 0
	for i = 0; i < len(q); i++ {
		if q[i] == '"' {
			s += q[j:i] + "\\"
			j = i
		}
	}
	return s + q[j:i]
}

func usage() {
	fmt.Fprintf(stderr, "usage: yacc [-o output] [-v parsetable] input\n")
	exit(1)
}

func bitset(set Lkset, bit int) int { return set[bit>>5] & (1 << uint(bit&31)) }

func setbit(set Lkset, bit int) { set[bit>>5] |= (1 << uint(bit&31)) }

func mkset() Lkset { return make([]int, tbitset) }

// set a to the union of a and b
// return 1 if b is not a subset of a, 0 otherwise
func setunion(a, b []int) int {
	sub := 0
	for i := 0; i < tbitset; i++ {
		x := a[i]
		y := x | b[i]
		a[i] = y
		if y != x {
			sub = 1
		}
	}
	return sub
}

func prlook(p Lkset) {
	if p == nil {
		fmt.Fprintf(foutput, "\tNULL")
		return
	}
	fmt.Fprintf(foutput, " { ")
	for j := 0; j <= ntokens; j++ {
		if bitset(p, j) != 0 {
			fmt.Fprintf(foutput, "%v ", symnam(j))
		}
	}
	fmt.Fprintf(foutput, "}")
}

// utility routines
var peekrune rune

func isdigit(c rune) bool { return c >= '0' && c <= '9' }

func isword(c rune) bool {
	return c >= 0xa0 || c == '_' || (c >= 'a' && c <= 'z') || (c >= 'A' && c <= 'Z')
}

// return 1 if 2 arrays are equal
// return 0 if not equal
func aryeq(a []int, b []int) int {
	n := len(a)
	if len(b) != n {
		return 0
	}
	for ll := 0; ll < n; ll++ {
		if a[ll] != b[ll] {
			return 0
		}
	}
	return 1
}

func getrune(f *bufio.Reader) rune {
	var r rune

	if peekrune != 0 {
		if peekrune == EOF {
			return EOF
		}
		r = peekrune
		peekrune = 0
		return r
	}

	c, n, err := f.ReadRune()
	if n == 0 {
		return EOF
	}
	if err != nil {
		errorf("read error: %v", err)
	}
	//fmt.Printf("rune = %v n=%v\n", string(c), n);
	return c
}

func ungetrune(f *bufio.Reader, c rune) {
	if f != finput {
		panic("ungetc - not finput")
	}
	if peekrune != 0 {
		panic("ungetc - 2nd unget")
	}
	peekrune = c
}

func open(s string) *bufio.Reader {
	fi, err := os.Open(s)
	if err != nil {
		errorf("error opening %v: %v", s, err)
	}
	//fmt.Printf("open %v\n", s);
	return bufio.NewReader(fi)
}

func create(s string) *bufio.Writer {
	fo, err := os.Create(s)
	if err != nil {
		errorf("error creating %v: %v", s, err)
	}
	//fmt.Printf("create %v mode %v\n", s);
	return bufio.NewWriter(fo)
}

// write out error comment
func lerrorf(lineno int, s string, v ...interface{}) {
	nerrors++
	fmt.Fprintf(stderr, s, v...)
	fmt.Fprintf(stderr, ": %v:%v\n", infile, lineno)
	if fatfl != 0 {
		summary()
		exit(1)
	}
}

func errorf(s string, v ...interface{}) {
	lerrorf(lineno, s, v...)
}

func exit(status int) {
	if ftable != nil {
		ftable.Flush()
		ftable = nil
		gofmt()
	}
	if foutput != nil {
		foutput.Flush()
		foutput = nil
	}
	if stderr != nil {
		stderr.Flush()
		stderr = nil
	}
	os.Exit(status)
}

func gofmt() {
	src, err := os.ReadFile(oflag)
	if err != nil {
		return
	}
	src, err = format.Source(src)
	if err != nil {
		return
	}
	os.WriteFile(oflag, src, 0666)
}

var yaccpar string // will be processed version of yaccpartext: s/$$/prefix/g
var yaccpartext = `
/*	parser for yacc output	*/

var (
	$$Debug        = 0
	$$ErrorVerbose = false
)

type $$Lexer interface {
	Lex(lval *$$SymType) int
	Error(s string)
}

type $$Parser interface {
	Parse($$Lexer) int
	Lookahead() int
}

type $$ParserImpl struct {
	lval  $$SymType
	stack [$$InitialStackSize]$$SymType
	char  int
}

func (p *$$ParserImpl) Lookahead() int {
	return p.char
}

func $$NewParser() $$Parser {
	return &$$ParserImpl{}
}

const $$Flag = -1000

func $$Tokname(c int) string {
	if c >= 1 && c-1 < len($$Toknames) {
		if $$Toknames[c-1] != "" {
			return $$Toknames[c-1]
		}
	}
	return __yyfmt__.Sprintf("tok-%v", c)
}

func $$Statname(s int) string {
	if s >= 0 && s < len($$Statenames) {
		if $$Statenames[s] != "" {
			return $$Statenames[s]
		}
	}
	return __yyfmt__.Sprintf("state-%v", s)
}

func $$ErrorMessage(state, lookAhead int) string {
	const TOKSTART = 4

	if !$$ErrorVerbose {
		return "syntax error"
	}

	for _, e := range $$ErrorMessages {
		if e.state == state && e.token == lookAhead {
			return "syntax error: " + e.msg
		}
	}

	res := "syntax error: unexpected " + $$Tokname(lookAhead)

	// To match Bison, suggest at most four expected tokens.
	expected := make([]int, 0, 4)

	// Look for shiftable tokens.
	base := int($$Pact[state])
	for tok := TOKSTART; tok-1 < len($$Toknames); tok++ {
		if n := base + tok; n >= 0 && n < $$Last && int($$Chk[int($$Act[n])]) == tok {
			if len(expected) == cap(expected) {
				return res
			}
			expected = append(expected, tok)
		}
	}

	if $$Def[state] == -2 {
		i := 0
		for $$Exca[i] != -1 || int($$Exca[i+1]) != state {
			i += 2
		}

		// Look for tokens that we accept or reduce.
		for i += 2; $$Exca[i] >= 0; i += 2 {
			tok := int($$Exca[i])
			if tok < TOKSTART || $$Exca[i+1] == 0 {
				continue
			}
			if len(expected) == cap(expected) {
				return res
			}
			expected = append(expected, tok)
		}

		// If the default action is to accept or reduce, give up.
		if $$Exca[i+1] != 0 {
			return res
		}
	}

	for i, tok := range expected {
		if i == 0 {
			res += ", expecting "
		} else {
			res += " or "
		}
		res += $$Tokname(tok)
	}
	return res
}

func $$lex1(lex $$Lexer, lval *$$SymType) (char, token int) {
	token = 0
	char = lex.Lex(lval)
	if char <= 0 {
		token = int($$Tok1[0])
		goto out
	}
	if char < len($$Tok1) {
		token = int($$Tok1[char])
		goto out
	}
	if char >= $$Private {
		if char < $$Private+len($$Tok2) {
			token = int($$Tok2[char-$$Private])
			goto out
		}
	}
	for i := 0; i < len($$Tok3); i += 2 {
		token = int($$Tok3[i+0])
		if token == char {
			token = int($$Tok3[i+1])
			goto out
		}
	}

out:
	if token == 0 {
		token = int($$Tok2[1]) /* unknown char */
	}
	if $$Debug >= 3 {
		__yyfmt__.Printf("lex %s(%d)\n", $$Tokname(token), uint(char))
	}
	return char, token
}

func $$Parse($$lex $$Lexer) int {
	return $$NewParser().Parse($$lex)
}

func ($$rcvr *$$ParserImpl) Parse($$lex $$Lexer) int {
	var $$n int
	var $$VAL $$SymType
	var $$Dollar []$$SymType
	_ = $$Dollar // silence set and not used
	$$S := $$rcvr.stack[:]

	Nerrs := 0   /* number of errors */
	Errflag := 0 /* error recovery flag */
	$$state := 0
	$$rcvr.char = -1
	$$token := -1 // $$rcvr.char translated into internal numbering
	defer func() {
		// Make sure we report no lookahead when not parsing.
		$$state = -1
		$$rcvr.char = -1
		$$token = -1
	}()
	$$p := -1
	goto $$stack

ret0:
	return 0

ret1:
	return 1

$$stack:
	/* put a state and value onto the stack */
	if $$Debug >= 4 {
		__yyfmt__.Printf("char %v in %v\n", $$Tokname($$token), $$Statname($$state))
	}

	$$p++
	if $$p >= len($$S) {
		nyys := make([]$$SymType, len($$S)*2)
		copy(nyys, $$S)
		$$S = nyys
	}
	$$S[$$p] = $$VAL
	$$S[$$p].yys = $$state

$$newstate:
	$$n = int($$Pact[$$state])
	if $$n <= $$Flag {
		goto $$default /* simple state */
	}
	if $$rcvr.char < 0 {
		$$rcvr.char, $$token = $$lex1($$lex, &$$rcvr.lval)
	}
	$$n += $$token
	if $$n < 0 || $$n >= $$Last {
		goto $$default
	}
	$$n = int($$Act[$$n])
	if int($$Chk[$$n]) == $$token { /* valid shift */
		$$rcvr.char = -1
		$$token = -1
		$$VAL = $$rcvr.lval
		$$state = $$n
		if Errflag > 0 {
			Errflag--
		}
		goto $$stack
	}

$$default:
	/* default state action */
	$$n = int($$Def[$$state])
	if $$n == -2 {
		if $$rcvr.char < 0 {
			$$rcvr.char, $$token = $$lex1($$lex, &$$rcvr.lval)
		}

		/* look through exception table */
		xi := 0
		for {
			if $$Exca[xi+0] == -1 && int($$Exca[xi+1]) == $$state {
				break
			}
			xi += 2
		}
		for xi += 2; ; xi += 2 {
			$$n = int($$Exca[xi+0])
			if $$n < 0 || $$n == $$token {
				break
			}
		}
		$$n = int($$Exca[xi+1])
		if $$n < 0 {
			goto ret0
		}
	}
	if $$n == 0 {
		/* error ... attempt to resume parsing */
		switch Errflag {
		case 0: /* brand new error */
			$$lex.Error($$ErrorMessage($$state, $$token))
			Nerrs++
			if $$Debug >= 1 {
				__yyfmt__.Printf("%s", $$Statname($$state))
				__yyfmt__.Printf(" saw %s\n", $$Tokname($$token))
			}
			fallthrough

		case 1, 2: /* incompletely recovered error ... try again */
			Errflag = 3

			/* find a state where "error" is a legal shift action */
			for $$p >= 0 {
				$$n = int($$Pact[$$S[$$p].yys]) + $$ErrCode
				if $$n >= 0 && $$n < $$Last {
					$$state = int($$Act[$$n]) /* simulate a shift of "error" */
					if int($$Chk[$$state]) == $$ErrCode {
						goto $$stack
					}
				}

				/* the current p has no shift on "error", pop stack */
				if $$Debug >= 2 {
					__yyfmt__.Printf("error recovery pops state %d\n", $$S[$$p].yys)
				}
				$$p--
			}
			/* there is no state on the stack with an error shift ... abort */
			goto ret1

		case 3: /* no shift yet; clobber input char */
			if $$Debug >= 2 {
				__yyfmt__.Printf("error recovery discards %s\n", $$Tokname($$token))
			}
			if $$token == $$EofCode {
				goto ret1
			}
			$$rcvr.char = -1
			$$token = -1
			goto $$newstate /* try again in the same state */
		}
	}

	/* reduction by production $$n */
	if $$Debug >= 2 {
		__yyfmt__.Printf("reduce %v in:\n\t%v\n", $$n, $$Statname($$state))
	}

	$$nt := $$n
	$$pt := $$p
	_ = $$pt // guard against "declared and not used"

	$$p -= int($$R2[$$n])
	// $$p is now the index of $0. Perform the default action. Iff the
	// reduced production is ε, $1 is possibly out of range.
	if $$p+1 >= len($$S) {
		nyys := make([]$$SymType, len($$S)*2)
		copy(nyys, $$S)
		$$S = nyys
	}
	$$VAL = $$S[$$p+1]

	/* consult goto table to find next state */
	$$n = int($$R1[$$n])
	$$g := int($$Pgo[$$n])
	$$j := $$g + $$S[$$p].yys + 1

	if $$j >= $$Last {
		$$state = int($$Act[$$g])
	} else {
		$$state = int($$Act[$$j])
		if int($$Chk[$$state]) != -$$n {
			$$state = int($$Act[$$g])
		}
	}
	// dummy call; replaced with literal code
	$$run()
	goto $$stack /* stack new state and value */
}
`
