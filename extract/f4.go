package main

// F4: pooled objects — the fields of each pooled struct and the fields assigned by each
// function on its reset path.  `*x = T{}` assigns every field.
// Emits Platypus/Generated/PoolFacts.lean.

import (
	"fmt"
	"go/ast"
	"path/filepath"
	"sort"
	"strings"
)

func init() { extractors = append(extractors, extractF4) }

func structFields(f *ast.File, name string) []string {
	var out []string
	for _, d := range f.Decls {
		gd, ok := d.(*ast.GenDecl)
		if !ok {
			continue
		}
		for _, sp := range gd.Specs {
			ts, ok := sp.(*ast.TypeSpec)
			if !ok || ts.Name.Name != name {
				continue
			}
			st, ok := ts.Type.(*ast.StructType)
			if !ok {
				continue
			}
			for _, fl := range st.Fields.List {
				for _, n := range fl.Names {
					out = append(out, n.Name)
				}
			}
		}
	}
	return out
}

// fields of `recv` assigned in function fd: x.F = …, x.F.G(...) is not an assignment; `*x = T{}` -> "*"
func assignedFields(fd *ast.FuncDecl, vars map[string]bool) []string {
	set := map[string]bool{}
	if fd == nil || fd.Body == nil {
		return nil
	}
	// only statements that run on every call count: the top-level statements of the body (and of plain
	// nested blocks), not what sits under an if, a loop or a switch - a reset that depends on a condition
	// is not a reset
	var visit func(n ast.Node) bool
	walk := func(list []ast.Stmt) {
		for _, st := range list {
			visit(st)
		}
	}
	visit = func(n ast.Node) bool {
		switch s := n.(type) {
		case *ast.BlockStmt:
			walk(s.List)
		case *ast.AssignStmt:
			for _, l := range s.Lhs {
				switch x := l.(type) {
				case *ast.SelectorExpr:
					if id, ok := x.X.(*ast.Ident); ok && vars[id.Name] {
						set[x.Sel.Name] = true
					}
				case *ast.StarExpr:
					if id, ok := x.X.(*ast.Ident); ok && vars[id.Name] {
						set["*"] = true
					}
				}
			}
		case *ast.ExprStmt:
			// x.F.Reset() counts as resetting F
			if c, ok := s.X.(*ast.CallExpr); ok {
				if se, ok := c.Fun.(*ast.SelectorExpr); ok && se.Sel.Name == "Reset" {
					if inner, ok := se.X.(*ast.SelectorExpr); ok {
						if id, ok := inner.X.(*ast.Ident); ok && vars[id.Name] {
							set[inner.Sel.Name] = true
						}
					}
				}
			}
		}
		return true
	}
	walk(fd.Body.List)
	out := []string{}
	for k := range set {
		out = append(out, k)
	}
	sort.Strings(out)
	return out
}

func extractF4(repo string, o *out) {
	b := o.f("PoolFacts.lean")
	fmt.Fprintf(b, "namespace Platypus.Generated\n\n")
	ok := true
	note := ""
	emit := func(name string, xs []string) {
		fmt.Fprintf(b, "def %s : List String := %s\n", name, leanStrList(xs))
	}
	type job struct {
		file, typ, tag string
		funcs          []string
		vars           []string
	}
	jobs := []job{
		{"pkg/engine/runtime/context.go", "Task", "task", []string{"GetContext", "InitCtx", "PutContext", "InitCtxForCheck"}, []string{"ctx"}},
		{"pkg/inimpl/guancecloud/input/point.go", "Point", "point", []string{"InitPt", "PutPoint"}, []string{"pt"}},
		{"pkg/inimpl/guancecloud/input/point.go", "TFMeta", "meta", []string{"GetMeta"}, []string{"meta"}},
		{"pkg/parser/parser.go", "parser", "parser", []string{"newParser"}, []string{"p"}},
		{"pkg/engine/runtime/reg.go", "PlReg", "plreg", []string{"Reset"}, []string{"reg"}},
	}
	for _, j := range jobs {
		f, _, err := parseFile(filepath.Join(repo, j.file))
		if err != nil {
			ok = false
			note = err.Error()
			continue
		}
		fields := structFields(f, j.typ)
		if len(fields) == 0 {
			ok = false
			note = "struct " + j.typ + " not found in " + j.file
		}
		emit(j.tag+"Fields", fields)
		vars := map[string]bool{}
		for _, v := range j.vars {
			vars[v] = true
		}
		for _, fn := range j.funcs {
			var fd *ast.FuncDecl
			for _, d := range f.Decls {
				if x, isF := d.(*ast.FuncDecl); isF && x.Name.Name == fn {
					fd = x
				}
			}
			if fd == nil {
				ok = false
				note = "function " + fn + " not found in " + j.file
			}
			emit(j.tag+"AssignedBy"+strings.Title(fn), assignedFields(fd, vars))
		}
		fmt.Fprintln(b)
	}
	// v2: a loaded script is plain data and every Run / Check works on a task made for it
	{
		f, _, err := parseFile(filepath.Join(repo, "pkg/engine/runtimev2/runtime.go"))
		if err != nil {
			ok = false
			note = err.Error()
		} else {
			emit("v2ScriptFields", structFields(f, "Script"))
			emit("v2TaskFields", structFields(f, "Task"))
			for _, fn := range []string{"Run", "Check"} {
				fresh := false
				found := false
				for _, d := range f.Decls {
					fd, isF := d.(*ast.FuncDecl)
					if !isF || fd.Name.Name != fn || fd.Recv == nil || fd.Body == nil {
						continue
					}
					found = true
					// the first statement of the body is `x := NewTask(...)`
					if len(fd.Body.List) > 0 {
						if as, isA := fd.Body.List[0].(*ast.AssignStmt); isA && len(as.Rhs) == 1 {
							if ce, isC := as.Rhs[0].(*ast.CallExpr); isC {
								if id, isI := ce.Fun.(*ast.Ident); isI && id.Name == "NewTask" {
									fresh = true
								}
							}
						}
					}
				}
				if !found {
					ok = false
					note = "runtimev2 (*Script)." + fn + " not found"
				}
				fmt.Fprintf(b, "def v2%sMakesTask : Bool := %v\n", fn, fresh)
			}
			// package-level variables of runtimev2/runtime.go (state that outlives a run)
			vars := []string{}
			for _, d := range f.Decls {
				if gd, isG := d.(*ast.GenDecl); isG && gd.Tok.String() == "var" {
					for _, sp := range gd.Specs {
						if vs, isV := sp.(*ast.ValueSpec); isV {
							for _, n := range vs.Names {
								vars = append(vars, n.Name)
							}
						}
					}
				}
			}
			emit("v2RuntimeVars", vars)
			fmt.Fprintln(b)
		}
	}
	fmt.Fprintf(b, "def extractOk_F4 : Bool := %v\n", ok)
	fmt.Fprintf(b, "def extractNote_F4 : String := %q\n", note)
	fmt.Fprintf(b, "\nend Platypus.Generated\n")
}
