package main

// F7: the command-line runner (internal/cmd/platypus/run/run.go, runScript): the order of the
// statements that initialise the point, run the script and read the point's by-value fields
// (Measurement, Time, Drop) and its maps for rendering.
// Emits Platypus/Generated/CliOrder.lean.

import (
	"fmt"
	"go/ast"
	"path/filepath"
	"strings"
)

func init() { extractors = append(extractors, extractF7) }

func extractF7(repo string, o *out) {
	b := o.f("CliOrder.lean")
	fmt.Fprintf(b, "namespace Platypus.Generated\n\n")
	ok := true
	note := ""
	steps := []string{}
	f, _, err := parseFile(filepath.Join(repo, "internal/cmd/platypus/run/run.go"))
	if err != nil {
		ok = false
		note = err.Error()
	} else if fd := findFunc(f, "runScript"); fd == nil {
		ok = false
		note = "runScript not found"
	} else {
		// top-level statements of runScript, in order
		for _, st := range fd.Body.List {
			switch s := st.(type) {
			case *ast.AssignStmt:
				for i, r := range s.Rhs {
					if c, isC := r.(*ast.CallExpr); isC {
						name := selName(c.Fun)
						if se, isS := c.Fun.(*ast.SelectorExpr); isS {
							if id, isI := se.X.(*ast.Ident); isI {
								name = id.Name + "." + se.Sel.Name
							}
						}
						if name == "script.Run" {
							steps = append(steps, "run")
						}
					}
					if se, isS := r.(*ast.SelectorExpr); isS {
						if id, isI := se.X.(*ast.Ident); isI && id.Name == "pt" && i < len(s.Lhs) {
							steps = append(steps, "read:"+se.Sel.Name)
						}
					}
				}
			case *ast.ExprStmt:
				if c, isC := s.X.(*ast.CallExpr); isC {
					if se, isS := c.Fun.(*ast.SelectorExpr); isS {
						if id, isI := se.X.(*ast.Ident); isI && id.Name == "input" && se.Sel.Name == "InitPt" {
							steps = append(steps, "init")
						}
					}
				}
			case *ast.SwitchStmt:
				if id, isI := s.Tag.(*ast.SelectorExpr); isI && id.Sel.Name == "OutputType" {
					steps = append(steps, "render")
				}
			}
		}
		joined := strings.Join(steps, ",")
		if !strings.Contains(joined, "run") || !strings.Contains(joined, "init") || !strings.Contains(joined, "render") {
			ok = false
			note = "unrecognised shape of runScript: " + joined
		}
	}
	fmt.Fprintf(b, "def cliSteps : List String := %s\n", leanStrList(steps))
	fmt.Fprintf(b, "def extractOk_F7 : Bool := %v\n", ok)
	fmt.Fprintf(b, "def extractNote_F7 : String := %q\n", note)
	fmt.Fprintf(b, "\nend Platypus.Generated\n")
}
