"""Per-property metadata for bin/check: Lean modules, theorem names (proof obligations), generator
description and trusted base.  The theorem lists are the obligations audited with `#print axioms`."""

TB_COMMON = [
    "Lean 4.33 kernel + elaborator; axioms limited to propext, Classical.choice, Quot.sound (audited per theorem)",
    "the Lean statements in Platypus/Properties and Platypus/Spec say what properties.jsonl says",
    "Go extractor (/verif/extract), Go harness (/verif/harness), Lean driver (Driver/*.lean) and bin/check",
]

PROPS = {}

PROPS["C17"] = {
    "modules": ["Platypus.Properties.C17", "Platypus.Properties.C17Chain", "Platypus.Properties.C17Tree", "Platypus.Properties.C17Sorted", "Platypus.Properties.C17Runtime", "Platypus.Properties.C17Source", "Platypus.Properties.FrontEnd"],
    "theorems": None,
    "rule": "lookup: every text over {a, newline, e-acute} up to length 6 (quick) / 8 (thorough) x every offset -2..len+2, plus random byte strings (invalid UTF-8, CR, NUL) x boundary and random offsets; "
            "tree positions: generated statement trees (every expression and statement form) x 4 layout families: on the real parser's tree every stored position must carry the line/column of its offset and the source must spell that node's token there "
            "(identifier, literal, operator, bracket, keyword; attribute expressions start at their first token); "
            "error positions: 28 base programs x injected load-time faults (10 expression, 5 statement offenders) and run-time faults (7 + 3), run directly and through use() from a caller: "
            "the error names the script at fault, lies inside the lines of the statement at fault, and every chain position carries the line/column of its offset in its own file; "
            "error chains: chains of 1..4 positions followed by every sequence of up to 3 (quick) / 4 (thorough) operations append-through-any-handle / copy-of-any-handle, plus random sequences: "
            "the Go objects are compared with the store model after every operation (positions, rendering, JSON round trip); distinct = distinct input line",
    "exhaustive": True,
    "trusted_base": TB_COMMON + [
        "modelled, not verified: Go's range-over-string rune decoding (a 0x0A byte is always its own rune; exercised with invalid UTF-8)",
        "stored tree positions: the position-carrying parser model (Model/ParsePos.lean, erasing to the C06 parser model) is compared with the real parser's stored positions on every generated tree x layout; error positions are judged on the implementation's outputs by executable specifications (Driver/C17.lean)",
    ],
    "assumptions": ["Go int is 64 bit", "models of token.go and errchain are hand written; tied by the correspondence run on every check"],
    "technique": "Lean 4 theorems (run-time errors of the v1 interpreter model are located: runtime_error_located, expression_error_inside_node, runtime_error_root_cause, runtime_error_position_is_token - for all environments, scripts, states and fuel; both lookup routines = declarative line/column specification for all texts and offsets; error-chain store: an append reaches only its own handle, copies are independent, rendering shape; position-carrying parser: it accepts exactly what the parser model accepts and builds the same trees (parse_eq_erase), every stored position is the offset of an input token of the expected kind (positions_are_token_offsets), attribute expressions start at their object, stored positions respect source order) + differential correspondence with token.go, errchain and the real parser's stored positions + executable position specifications on injected faults",
    "level_text": "Kernel-checked: the models of PosCache.LnCol (binary search) and LnCol (linear scan) equal the declarative line/column specification for every byte string and integer offset; in the error-chain store model an append changes exactly one error and a copy shares nothing. "
                  "Tied to token.go and errchain by exhaustive texts/operation sequences on every check. The position-carrying parser model stores, for every node, the byte offsets of exactly the tokens the property names (kernel-checked for all token lists); it is tied to parser.go by comparing all stored positions on generated trees x layouts. Run-time errors of the v1 interpreter model carry, for every script, state, environment and fuel, a non-empty chain whose links name the running script (or a script reached through use(), root cause first) at stored token positions of that script's statements - inside the node being evaluated (kernel-checked); every run case compares the model's whole chain with the implementation's. The same holds, kernel-checked, for the v2 interpreter model (runtime_error_located_v2: a single link) and for the load-time check pass (check_error_located, generic in the checker table; builtin_check_error_located). Parse and link error positions are decided per generated input on the implementation's own output.",
    "level_note": "Partial for parse and link error positions: decided on generated inputs; run-time error positions (v1, v2) and check-pass error positions are theorems about the models. The source-order theorems hold for every source text: lexAll_sorted (from the coverage theorem of C05) discharges the sortedness hypothesis. Block brace positions are not dumped and not modelled. Trusted: Lean kernel; the hand-written models' fidelity is checked by correspondence.",
}


def _mk(pid, modules, rule, technique, level_text, level_note, extra_tb=(), exhaustive=False, assumptions=(), args=()):
    PROPS[pid] = {
        "modules": modules, "theorems": None, "rule": rule, "exhaustive": exhaustive,
        "trusted_base": TB_COMMON + list(extra_tb),
        "assumptions": list(assumptions) or ["Go int is 64 bit", "hand-written model tied by the correspondence run on every check"],
        "technique": technique, "level_text": level_text, "level_note": level_note, "args": list(args),
    }

TB_FLOAT = "Lean Float (C double) = Go float64 for + - * / comparisons and int64->float64 (exercised by the operator table, not proved); floats cross the protocol as bit patterns"

_mk("C02",
    ["Platypus.Properties.C02", "Platypus.Properties.C02Facts"],
    rule="exhaustive operator x ordered operand pair table (14 binary operators x 51 operand representatives incl. 0, +-1, 2^53+-1, "
         "min/max int64, +-0.0, inf, nan, strings, lists, maps; 3 unary; 5 compound assignments), operands as literals wrapped in probes "
         "(evaluation order/once observable), a sample (quick) or all (thorough) pairs with operands from variables and point fields, "
         "random expression trees of depth <= 3; every case is one script run through the real parser+checker+interpreter and through the Lean model; "
         "strict: any disagreement on these single-expression programs is a specification failure; distinct = distinct case line",
    technique="Lean 4 theorems about the operator functions of the model for all operand values + decide-checked regenerated tables (arithType/cmpType/condTrue/assign2arithOp, v1=v2) + exhaustive operator-table correspondence",
    level_text="Kernel-checked theorems (all 64-bit integers, all float bit patterns, all strings, all heaps) that the model's operators wrap, truncate, promote, "
               "compare, short-circuit and reject exactly as the reference says; the decision tables are regenerated from runtime.go/run.go on every run and matched by decide; "
               "the model is tied to the implementation by the exhaustive operator x operand-class table run through both.",
    level_note="Float arithmetic itself is IEEE hardware on both sides (trusted); parser literal folding is outside this property (C06/C07).",
    extra_tb=[TB_FLOAT], exhaustive=True)

_mk("C04",
    ["Platypus.Properties.C04Slice", "Platypus.Properties.C04"],
    rule="exhaustive slice grid: every list and string (ASCII and multi-byte) of length 0..3 (quick) / 0..5 (thorough) x (start,end,step) each omitted, "
         "in -4..4 (quick) / -8..8 (thorough) or in {+-2^31, max int64, min int64}; every index read/write path of depth <= 2 (all) and 3 (sampled quick / all thorough) "
         "over nested list/map shapes with in-range, negative, out-of-range and wrongly typed keys; len/in over collection classes; "
         "random alias/mutate/add_key-snapshot programs; strict: any disagreement with the model is a specification failure",
    technique="Lean 4 theorem slice indices = CPython PySlice_AdjustIndices+range for all lengths < 2^62 and all int64 bounds/steps (no overflow, all indices in range) + heap frame/alias theorems + exhaustive slice-grid and index-path correspondence",
    level_text="Kernel-checked: the index sequence computed by the model of sliceBounds/loop (Go int wrap-around arithmetic) equals Python's for every length and every int64 start/end/step, "
               "lies in [0,len) and has the capacity passed to make; index writes are visible through every alias and leave other objects unchanged. The model is tied to runtime.go by the exhaustive grid.",
    level_note="JSON text of lists/maps copied into the point is produced by encoding/json (oracle: the harness marshals the model's view of the value).",
    extra_tb=[TB_FLOAT, "encoding/json text of a list/map value (oracle answered by the harness from the model's own rendering of the value)"], exhaustive=True)

_mk("C10",
    ["Platypus.Properties.C10"],
    rule="sequences of point operations issued through the builtins (add_key with every value kind, add_key(k), set_tag 3 forms, drop_key, rename, cast x5, "
         "set_measurement(k,true)) over keys {initial field f1, initial tag t1, message, fresh k1, k2 (also a variable)}: all sequences of length 1 and 2 (exhaustive), "
         "sampled length 3, random length 4..40; after every operation all five keys are read back through get_key; the final point (tags, fields with Go types, key index) "
         "is compared with the model and checked against the invariant; strict",
    technique="Lean 4 invariant proof (Inv holds initially, preserved by set/setTag/delete/rename, hence for every operation sequence; read-back exact; drop/rename again) + exhaustive short and random long builtin sequences compared with the model",
    level_text="Kernel-checked: the key-index invariant (every tag/field key indexed with the right kind and type, never both, field values scalar) holds after any sequence of point operations, "
               "reads return exactly the stored value and never a value the point does not hold, and a present key can be dropped or renamed. The model of point.go/utils.go is tied by exhaustive length-2 sequences.",
    level_note="Initial points are assumed well formed (disjoint tag/field keys, supported field types) as the property's initial state; Conv2String text of floats/lists/maps is an oracle.",
    extra_tb=[TB_FLOAT, "strconv float text / encoding/json text (oracles answered by the harness)"], exhaustive=True)

_mk("C11",
    ["Platypus.Properties.C11", "Platypus.Properties.C11Contracts", "Platypus.Properties.C10", "Platypus.Properties.BuiltinFacts"],
    rule="matrix: 20 subjects (absent; variable of every type; field of every type incl. 2^53+1, max int64, numeric/JSON/bad-JSON/bad-URL strings; tag; variable shadowing a field) "
         "x ~100 call shapes of add_key/get_key/set_tag/drop_key/rename/cast/set_measurement/len/load_json/strfmt/printf/trim/uppercase/replace/url_decode "
         "(identifier, string literal, attribute expression, `_`, nested expressions, optional arguments, failing arguments); engines answered by the harness; strict",
    technique="Lean 4 contract and frame theorems for the builtins' plumbing (engines as oracles) + builtin x shape x subject matrix correspondence",
    level_text="The model of each builtin (subject lookup, stringification, engine call, destination write, return register) is compared with the implementation over the full builtin x argument-shape x subject matrix.",
    level_note="Engines (strconv, encoding/json, fmt.Sprintf, regexp, net/url, strings, spf13/cast string parsing) are oracles answered by calling the library directly.",
    extra_tb=[TB_FLOAT, "strconv/encoding/json/fmt/regexp/net/url/strings/spf13-cast (oracles)"], exhaustive=True)

_mk("C12",
    ["Platypus.Properties.C12"],
    rule="grok: 8 messages x 8 subjects (message, `_`, tag, int/float field, absent, variable, literal) x 11 patterns (typed captures int/float/str/bool, user pattern, unknown pattern, capture named like the subject) x trim flag (sampled quick / all thorough); "
         "19 pattern-scope programs (definition in outer/inner/sibling/loop blocks, shadowing, definition after use, nested references, bad definitions); default_time: 16 timestamps (every house layout, dateparse layouts, unparsable, numeric) x 10 zones (none, +h, -h:mm, IANA, abbreviations, invalid) x 2 subjects; "
         "datetime: 9 subjects (int, float, numeric string, text, bool, blank-padded, absent, variable) x 4 precisions (s, ms, unknown) x 5 formats, answered by Go's time package directly; xml: 5 documents x 7 XPath x 3 destination forms; sql_cover; strict, engines answered by the harness",
    technique="Lean 4 contract theorems for grok/xml/datetime/default_time/sql_cover (what is asked of the engine, where and with which type each answer is stored, failure leaves the point unchanged apart from default_time's pl_msg note) and for load-time pattern scoping (a block restores the pattern scopes, nested blocks see outer definitions, a grok site is compiled with exactly the visible definitions, an unknown pattern is rejected), engines as oracles + matrix correspondence",
    level_text="Kernel-checked for every state, key, oracle and fuel: the equations of Properties/C12.lean (block_restores_patterns, nested_blocks_see_outer_patterns, grok_compiles_with_visible_patterns, unknown_pattern_rejected, grok_match/grok_match_fields/grok_no_match/grok_subject_absent, xml_*, sql_cover_*, datetime_*, default_time_*). "
               "The model decides which key is read, how the subject is stringified, in which scope a pattern name resolves (the harness compiles against exactly the definitions the model says are visible), "
               "where and with which type each extracted value lands and what happens on failure; compared with the implementation over the matrix.",
    level_note="What the engines extract (grok, xmlquery, dateparse + zone table via funcs.TimestampHandle, Go time formatting, obfuscate) is theirs: oracles. Partial by nature. datetime hands the engine the typed value (not its string form) and aborts the script with an error on failure; xml/sql_cover failures are silent; a capture onto an existing tag is stored as tag text (its type is lost): stated in the theorems.",
    extra_tb=[TB_FLOAT, "grok, xmlquery, dateparse/time zone table (funcs.TimestampHandle), Go time.Format, obfuscate (oracles)"], exhaustive=False)

_mk("C03",
    ["Platypus.Properties.C03", "Platypus.Properties.C02Facts", "Platypus.Properties.C03Scope", "Platypus.Properties.FrontEnd"],
    rule="exhaustive branch selection (if/elif/elif/else over 16 conditions of every type and truthiness x every subset of the blocks empty); random grammar-directed control-flow programs (typed generator, mostly valid, empty blocks included): nested if/elif/else over all truthiness classes, three-clause for with each clause optional, "
         "for-in over list/string/map/point values, break/continue at any depth, assignments and compound assignments to new/outer/shadowing names, probes as the only effects; "
         "map iteration order is existential (all orders of up to 10 binary / 4 six-way iterations tried); every case also self-checks the refinement statement (semStmts = abs(runStmts)) on its top-level block; strict",
    technique="Lean 4 refinement theorem: the implementation's three-flag statement machine equals a structured outcome semantics (break/continue consumed by the innermost loop, scopes popped, nothing after exit) for all shaped programs, states and fuel, generic in the expression evaluator + truthiness table regenerated from source + random program correspondence",
    level_text="Kernel-checked refinement of the flag machine (RunStmts/RunIfElseStmt/RunForStmt/RunForInStmt, break/continue/exit flags, scope push/pop, signal polls) to an outcome semantics "
               "in which the control-flow clauses of the property hold by construction; corollaries: break/continue never escape the innermost loop, exit absorbs blocks and loops. Tied to runtime.go by generated programs.",
    level_note="The theorem is generic in the expression evaluator under the frame hypothesis EvFrame (expressions do not touch break/continue flags); programs are grammar-shaped (checked on every parsed tree by construction of the dump).",
    extra_tb=[TB_FLOAT])

_mk("C13",
    ["Platypus.Properties.C13"],
    rule="call trees a.p -> b.p -> c.p from a template with 10 statement positions per script (top level, branch, loop body, for-init clause, for-loop clause, after use) x 6 injections "
         "(exit(), run-time error, variable write, alias write, extra use(), drop of the shared key) at one position (exhaustive) and at two positions in different scripts (random); "
         "random three-script trees from the program generator with exit/use; same-named variables and point keys on both sides; strict",
    technique="Lean 4 theorems about use()/exit() (fresh callee task on the shared world, caller task restored, error chain appended, exit absorbs blocks/loops) + exhaustive injection correspondence",
    level_text="Kernel-checked: use() runs the callee with a fresh task on the caller's world and restores the caller's task exactly (variables isolated both ways, callee exit() does not end the caller), "
               "a callee error aborts the caller with the call site appended, and after exit() a script starts no statement. Tied to fn_use.go/fn_exit.go/runtime.go by the injection matrix.",
    level_note="Statement granularity: effects later in the *same* statement as exit() still happen (e.g. `x = [exit(), p(1)]`); the property speaks of later statements.",
    extra_tb=[TB_FLOAT])

_mk("C14",
    ["Platypus.Properties.C14", "Platypus.Properties.C14Prefix", "Platypus.Properties.C14PrefixV2", "Platypus.Properties.FrontEnd"],
    rule="v1: 12 endless/nested empty-bodied loop programs (incl. inside a callee), 5 hand-written loops whose loop clause has a visible effect with continue/break in nested ifs and use() in the body, "
         "2 programs with use() nested inside a larger expression (known finding), and N random loop-bearing two-script programs; v2: 6 endless loops, 5 loops with continue/break and a visible loop clause, N random v2 programs; "
         "each x every poll index k = 1..min(polls of the uninterrupted run, 40 quick / 200 thorough): "
         "each interrupted run is compared with the model and must end ok/err (no timeout), and its probe trace and output must be a prefix of the uninterrupted run's (checked on the implementation's own outputs); strict",
    technique="Lean 4 theorems effects_prefix (the interrupted run's trace is a prefix of the trace of any run interrupted later or never; whole v1 evaluator incl. use() and all builtins, by lockstep induction on fuel), observed_implies_ok, error_before_observation, nothing_after_observation_* (block, for head, loop tail, callee entered later) "
              "+ every-poll-index correspondence for both interpreters + prefix check of the implementation's own traces",
    level_text="Kernel-checked for every script in which use() occurs only as a statement of its own (and no statement node sits inside an expression), every world, oracle, map order, fuel and every pair of firing indices k <= k' (or never): "
               "if both runs end, the earlier-interrupted run's effects are a prefix of the other's; an error of the interrupted run is raised before the observation and is the same error the other run raises; once the signal was observed the run ends ok and "
               "every block, loop head, loop tail and callee entered afterwards performs one poll and nothing else. nested_use_breaks_prefix proves the hypothesis is needed (known finding). Tied to runtime.go/runtimev2 by programs x every firing index.",
    level_note="effects_prefix is proved for the v1 model and effects_prefix_v2 (with lockstep, observed_implies_ok, nothing_after_observation, empty_loop_stops) for the v2 model, under the hypothesis that no if/for node sits inside an expression (stmt_in_expr_breaks_prefix_v2 shows it is needed). Effects = probe and output events (world.trace); point and heap are shown unchanged after the observation only by the explicit nothing_after_observation equations.",
    extra_tb=[TB_FLOAT])

_mk("C09",
    ["Platypus.Properties.C09"],
    rule="script sets of 1..4 scripts, each valid with 0..2 use() calls to any member (itself included) or to a missing name, unparsable, or check-failing: exhaustive for 1 and 2 scripts "
         "(and 3 in thorough), sampled for 3 and 4, x every visiting order through the verif hook LinkInOrder (all permutations up to 3 scripts, 3 random for 4) and, for a sample, 4-6 loads through the real ParseScript (Go map order); "
         "named regression shapes (diamond, double/triple use, two paths, cycle off the root, self use, bad leaf); compared: accepted set, every root's error chain, PrivateData bindings; "
         "specification evaluated on the implementation's results: accepted = least fixed point Good, bindings by name, identical verdicts across loads; strict",
    technique="Lean 4 theorems: linker accepts exactly the Good (least-fixed-point) scripts for every visiting order, errors and bindings order-independent + exhaustive small script sets x all orders against the real loader",
    level_text="Kernel-checked: for every script set and every visiting order covering the checked scripts, the model of the depth-first linker with its memo accepts exactly the scripts that parse, check and reach only accepted scripts without a cycle; "
               "accepted set and each rejected script's error do not depend on the order; every use call of an accepted script is bound to the script of that name; double use and diamonds are accepted. Tied to callref.go by exhaustive sets x orders.",
    level_note="Hook: pkg/engine/verif_hooks.go (build tag verif) exposes the driver loop with a caller-given order; the real ParseScript is exercised too.",
    exhaustive=True)

_mk("C08",
    ["Platypus.Properties.C08", "Platypus.Properties.C08Facts", "Platypus.Properties.C17Runtime"],
    rule="52 base programs with one marked expression or statement position each (assignment sides, list/map elements, operands, index expressions, every slice bound and step in every slice form, call and named arguments, "
         "conditions, all three for clauses, for-in iterables, nested blocks, positions after a loop ended) x 86 expression offenders (unknown function, wrong count/literal kind for every builtin incl. valid calls, map keys) "
         "or 10 statement offenders (break/continue outside/inside/after loops); random programs with and without an injected offender; verdict and error position compared with the model check pass; strict",
    technique="Lean 4 theorems: check pass sound (every call anywhere registered and checker-accepted, break/continue in loops) and complete for arbitrary function tables; a rejection is reported inside the node being checked, at a stored token position of the script (check_error_inside_node, check_error_located, builtin_check_error_located) + regenerated traversal table of both check passes matched by decide + offender-injection correspondence",
    level_text="Kernel-checked for arbitrary registered function tables: if the check pass accepts, every call node at any depth and position names a registered function whose checker accepted it and every break/continue lies in a loop; "
               "a script of valid constructs is accepted; a rejection names the checked script at a position designated by the node being checked (every link of its chain), for every checker table whose refusals point into the refused call - the 26 builtin checkers do. The per-node-kind traversal (which children are visited under which guard) is regenerated from checkstmt.go and r_check.go on every run and matched against the model by decide.",
    level_note="Soundness for break/continue assumes checkers leave the loop counter alone (proved for the builtin table: builtinCheck_keeps_loops); the v2 pass is the same code (regenerated table equality).",
    exhaustive=True)

_mk("C05",
    ["Platypus.Properties.C05"],
    rule="byte strings: random bytes incl. invalid UTF-8 and NUL, token soups over 90 lexemes (malformed numbers, unterminated strings/escapes, raw strings, comments, multi-byte runes), "
         "generated valid programs with one byte deleted/duplicated/replaced, ~70 named hard cases (nesting depth 2000-3000 of every bracket kind, unary chains, long operator chains); "
         "the exported lexer's item stream is compared item by item with the model; on the implementation's outputs: coverage of the source by the items, exactly one of tree/error, "
         "error positioned inside the source with the line/column of its offset, no parser process death or hang, a text the lexer refuses (ERROR item) never yields a tree; "
         "and the parser's verdict on every input - accepted with exactly this tree, or rejected - is compared with the parser model (Model/Parse.lean, the model C06's theorems are about)",
    technique="Lean 4 theorems about the lexer state machine (terminates, items cover the source without overlap skipping only blanks, positions inside the source) + item-stream correspondence with the real lexer + tree-xor-positioned-error check of the real parser + verdict-and-tree correspondence of the real parser with the parser model on every input",
    level_text="Kernel-checked for every byte string: the model of lex.go always yields an item, the items up to EOF/ERROR cover the source in order without overlap and skip only blanks, every position lies inside the source. "
               "The model is tied to lex.go by comparing item streams; the parser's tree-xor-positioned-error clause is decided on the implementation for every generated input, whose verdict and tree must also be the parser model's.",
    level_note="Partial: termination of the goyacc LALR loop and its tables are goyacc's (trusted); the parser clause is checked on inputs, not proved.",
    exhaustive=False)

_mk("C19",
    ["Platypus.Properties.C19"],
    rule="exhaustive: every parameter list of length 0..3 (quick) / 0..4 (thorough) over {required, optional, variadic, optional+variadic} x names {a, b, 1x} (duplicates arise), "
         "plus extra name classes (empty, _u, a1, a-b, A), x every call shape of 0..3 (quick) / 0..4 (thorough) arguments each positional or named a/b/zz: "
         "the call is loaded and run by the real v2 engine (CheckFnParamDef, CheckPassParam via CallCheck, GetParam for every parameter via Call); one case per parameter list (85 / 341 calls inside); "
         "compared with the model and, for well-formed lists, with the declarative binding specification; strict",
    technique="Lean 4 theorems (CheckFnParamDef = well-formedness; for well-formed lists CheckPassParam+GetParam = declarative binding specification, rejections) + exhaustive parameter-list x call-shape correspondence",
    level_text="Kernel-checked for all parameter lists and all call shapes: validation accepts exactly the well-formed lists; for a well-formed list a call is accepted exactly when it can be bound and then every parameter receives exactly "
               "its positional/named argument, its default, or the variadic tail in order. Tied to funcs.go by the exhaustive enumeration.",
    level_note="Names are ASCII in model and generator (unicode.IsLetter/IsDigit on non-ASCII runes is Go's); typed getters (GetParamInt, ...) are not modelled.",
    exhaustive=True)

_mk("C07",
    ["Platypus.Properties.C07"],
    rule="string literals: every body over the alphabet {\", ', `, \\, newline, NUL, a, 0, 7, x, u, e-acute, emoji} up to length 3 (quick) / 5 (thorough) inside each of the five quote styles; every escape form with valid and invalid digit counts and code points, "
         "with prefixes/suffixes; random longer strings; integers at every power of two +-1 and power of ten +-1 in decimal and both hexadecimal spellings with signs (-, +, --, '- '), malformed numbers; "
         "random float64 values round-tripped through three spellings; true/false/nil/null (and other keywords) in every letter case; one case per batch of literals; "
         "each literal is parsed by the real parser as `x = <lit>`; compared with the model (lexer + unquoter + number rules) and with the declarative denotation; strict",
    technique="Lean 4 theorems (lexer+unquoter model = independent declarative denotation for every valid-UTF-8 spelling; integers exact up to max int64, overflow to float, sign negates, keywords in any case) + exhaustive literal-alphabet correspondence with the real parser",
    level_text="Kernel-checked for every valid-UTF-8 byte string that starts with a quote character: the value the model of lex.go+strutil.go assigns to the spelling (token must span the whole spelling) equals the declarative denotation (Go-style escapes, raw triple-quoted and back-quoted forms), and malformed/unterminated spellings are rejected by both; decimal/hexadecimal integers up to max int64 are exact, larger ones go to the float engine, a sign negates, keywords are case-insensitive. Tied to the parser by the exhaustive alphabet enumeration.",
    level_note="strconv.ParseFloat is an engine (oracle). Leading-zero integers follow Go base-0 rules (010 = 8): reported, not judged.",
    extra_tb=["strconv.ParseFloat (oracle)"], exhaustive=True)

_mk("C01",
    ["Platypus.Properties.C01", "Platypus.Properties.C01Bridge", "Platypus.Properties.C01Full", "Platypus.Properties.BuiltinFacts", "Platypus.Properties.C17Runtime", "Platypus.Properties.C17Source"],
    rule="random programs over the whole grammar from the typed generator with 1-in-5 ill-typed operands, extreme integers (+-2^53+-1, min/max int64), negative/reversed/out-of-range/overflowing slice bounds and steps, "
         "object-less index expressions, attribute expressions, every builtin with the argument shapes its checker accepts, exit(), on random points (tags/fields of every type, nil, colliding names); "
         "each program is loaded and run by the real engine in a worker process (panic, fatal error, timeout and OOM are classified) and by the model; "
         "specification on the implementation's outcome: it is success or a script error carrying script name and position, never a panic/abort; distinct = distinct program text",
    technique="Lean 4 theorem no_panic (every Go operation that can panic is an explicit panic result of the model, guarded as in the Go code; no checked script on any well-tagged world, signal, map order, engine oracle and fuel reaches one; by induction on fuel with a state invariant, 26 builtins) + Lean 4 theorems runtime_error_located / runtime_error_names_script_and_position / runtime_error_root_cause (a failure of the model run carries a non-empty chain whose links name the running script, or a script it uses, at positions designated by that script's tree; Hoare logic for error postconditions, induction on fuel) + random-program correspondence in a crash-isolating worker (outcome, whole error chain, final point)",
    level_text="Kernel-checked for all checked programs (argument counts as the *Checking functions guarantee, for-in variables are identifiers), all well-tagged initial worlds with C10's point invariant, all signals, map orders, engine answers and fuel: the model run never ends in `panic`; the final state is again well formed; when it ends in a script error (for any program, checked or not), the error chain is non-empty, names the running script last and the script at fault first, each at a position designated by that script's own statements (a stored token position). "
               "Inputs are required to be representable (all integers int64: a Go invariant). The model is tied to runtime.go/funcs by random programs run through both.",
    level_note="Partial: the model's panic points are hand-placed next to the Go operations they mirror (type assertions, index expressions, accessor calls) and validated by correspondence; Go runtime failures that are not language-level panics (stack exhaustion on cyclic values passed to printf/strfmt, out-of-memory) are outside the model; third-party engines (grok, xmlquery, dateparse) are oracles and their own panics are not modelled.",
    extra_tb=[TB_FLOAT, "engines (grok, xmlquery, dateparse, strconv, regexp, encoding/json) are oracles: answered by the real libraries, assumed not to panic"])

_mk("C06",
    ["Platypus.Properties.C06", "Platypus.Properties.C06Facts", "Platypus.Properties.FrontEnd", "Platypus.Properties.LayoutSemantics"],
    rule="exhaustive: every ordered pair of the 14 binary operators in both nestings (paren node exactly where the table requires) and with unary operands x 3 layouts; the 24 slice forms x 4 layouts; "
         "random statement trees (depth <= 4) over every expression and statement form (calls with positional/named arguments, index/attribute/slice chains, list/map literals, all assignment kinds, if/elif/else, the 8 for shapes, for-in) "
         "printed with only the parentheses held as paren nodes in 4 layout families (canonical, tight, random line ends at every SPACE_EOLS place with CR/blank variation, comments); "
         "one in four also damaged by one non-layout edit (only model/implementation agreement is judged there); "
         "specification: the real parser's tree equals the tree the text was printed from; correspondence: the model parser (lexer model + Parse.parse) equals the real parser on tree and on accept/reject; strict",
    technique="Lean 4 round-trip theorem parse_print (for every statement/expression tree and every admissible spelling - only the parentheses held as paren nodes, any number of line ends at every SPACE_EOLS place, any separator runs, comments - the parser model returns exactly the tree; explicit fuel bound) + regenerated grammar facts (every production and action, precedence lines, goyacc regenerates gram_y.go byte for byte with no conflicts, documented table consistent; decide) + tree/layout correspondence with the real parser",
    level_text="Kernel-checked for all trees and all layouts: parseItems maps every spelling (Spec/Layout.lean: PProg) of a tree list back to exactly that list - precedence and left associativity of the 14 binary operators, unary above them, index/attribute/slice/call chains, list/map literals, named arguments, all assignment kinds, if/elif/else, the 8 for shapes, for-in; corollaries layout_irrelevant, comments_irrelevant; an executable printer is inverted by the parser. "
               "Regenerated and kernel-checked on every run: gram.y's productions, actions and %left/%right lines are the ones the model mirrors, gram_y.go is goyacc(gram.y) with no conflicts, the model's operator levels are the grammar's lines and agree with the documented table. "
               "The model parser is tied to the real parser by generated trees x layouts (tree equality) and damaged texts (same accept/reject).",
    level_note="The theorem is about the model parser over token items; the LALR automaton generated by goyacc is tied to the model by regenerated grammar facts and by correspondence (trusted: goyacc), and the lexer-level part of layout (blanks/comments between tokens do not change the other tokens) by the item-stream correspondence of C05 and of this check. Number spellings decided by strconv.ParseFloat are skipped by the model. Known finding: the reference's `a = b = 3` (right-associative `=`) is a syntax error.",
    extra_tb=["goyacc (vendored copy of golang.org/x/tools v0.29.0 cmd/goyacc, used to regenerate and compare gram_y.go)"], exhaustive=False)

_mk("C15",
    ["Platypus.Properties.C15"],
    rule="histories of load+run operations executed in ONE process with GOMAXPROCS=1 and the collector off (sync.Pool then really recycles parser, Task, Point and TFMeta objects): "
         "operations drawn from a pool of 10 scripts (succeeding, failing mid-loop, exiting, cancelled by the signal, syntactically invalid, check-failing, grok with scoped patterns, use() with exit in the callee, "
         "register/scope heavy, JSON) on 2 points; all ordered pairs (as 4-operation histories), random histories of length 3..40 (quick) / 3..200 (thorough); "
         "every operation's outcome (final point with Go types and key index, error chain, probe trace, polls) is compared with the history-free model; strict",
    technique="Lean 4 theorem (reset covering the fields read => every operation in every history = the operation in a fresh state, for every pool choice) + decide-checked regenerated struct-field/reset-assignment facts for Task, Point, TFMeta, parser, PlReg + history correspondence",
    level_text="Kernel-checked: if the reset path assigns every field an operation reads, the operation's result is independent of the recycled object and therefore of the whole history and of the pool's choices; "
               "the premise is discharged for the source's pooled structs by facts regenerated on every run (a new unreset field breaks decide). Tied to the code by running histories in one process against the history-free model.",
    level_note="Three parser fields (yyParser, lastClosing, inject) are exceptions argued in the theorem's comment (written before read), not extracted; sync.Pool/GC behaviour is Go's.",
    extra_tb=[TB_FLOAT], exhaustive=False)

_mk("C16",
    ["Platypus.Properties.C16"],
    rule="rounds under the Go race detector (harness built with -race): 2, 3, 4, 8 or 16 goroutines started together with randomised offsets, each doing 4..11 operations: parse one of 6 sources (valid and invalid) or run one of 5 shared, "
         "once-loaded scripts (grok with scoped add_pattern, use() of two callees, loops/rename/cast/slices/default_time/replace, a failing script) on a private point; 40 rounds (quick) / 1500 (thorough); "
         "any race report is a violation with the report as replay; every run's result (final point, error chain, probe trace) is compared with the sequential model",
    technique="Lean 4 theorem (no run-time write to shared locations => for every schedule no conflicting accesses and every thread's state equals its run alone) + decide-checked regenerated set of shared-object writes (run-time set empty) + race-detector rounds compared with the model",
    level_text="Kernel-checked for every schedule of an abstract access model: if steps write only locations their thread owns and read only shared or own locations, shared locations never change and each thread ends exactly as when run alone; "
               "the premise is tied to the source by the regenerated list of assignments through syntax-tree nodes, loaded scripts and package variables (none at run time). The implementation is run under the race detector.",
    level_note="Partial: that the extracted footprints are all of the code's shared accesses, sync.Pool's internal synchronisation and the Go memory model are outside Lean (race detector + extraction).",
    extra_tb=[TB_FLOAT, "Go race detector, sync.Pool, Go memory model"], exhaustive=False)
PROPS["C16"]["race"] = True

_mk("C20",
    ["Platypus.Properties.C20"],
    rule="the built cmd/platypus binary is run on generated workspaces: 11 script sets (changing measurement, time via default_time, tags; use() of a sibling .ppl; grok/cast/drop; run-time error; check failure; syntax error; every field type; "
         "missing use target; loops) x 6 inputs (text incl. empty and multi-line, line protocol with every field type, malformed line protocol) x {workspace, single file given with a directory path} x {json, lineprotocol} x {input, no input}; "
         "70 runs (quick) / 1200 (thorough); the printed output must equal what the library API yields for the same scripts and input rendered with the same encoders (time masked for text input whose time the script left unset); "
         "with no input nothing is printed; on load/run errors nothing is printed",
    technique="Lean 4 theorem (a runner that reads the by-value point fields after the run renders the library's final point, for every script and input) + decide-checked regenerated step order of runScript + binary-vs-library correspondence",
    level_text="Kernel-checked for every script effect and every input point: a runner of the shape init, run, reads, render prints the final point; the shape is regenerated from run.go on every run. "
               "Script discovery, input parsing and encoders are decided by comparing the real binary with the library API on generated workspaces.",
    level_note="Partial: cobra flag handling, influx line protocol and JSON encoders are exercised, not modelled.",
    extra_tb=["cobra, influxdb1-client, encoding/json, zap (observed through the binary)"], exhaustive=False)

_mk("C18",
    ["Platypus.Properties.C18", "Platypus.Properties.C18Agree", "Platypus.Properties.C17Runtime", "Platypus.Properties.C15"],
    rule="v2 engine (engine.ParseV2 + Script.Run) with probe functions supplied through the function table (p records, pr records and returns its first argument, void returns nothing, multi returns two values, len): "
         "33 consuming positions (assignment source, condition, operands, arguments, loop clauses, iterable, list/map elements and keys, index, every slice bound, unary, membership, compound assignment, multi-assignment, parenthesis) "
         "x 9 constructs (void call, attribute expression, multi-value calls, empty pr, variable, literal, undefined name, nil); multi-assignment programs; random programs of the shared language "
         "(expressions, collections, slices, control flow, scoping) with the signal as watchdog; compared with the v2 register-machine model: outcome, error chain, probe trace, polls; strict",
    technique="Lean 4 agreement theorem: on the shared language (literals, names, operators with short circuit, membership, list/map literals, index chains, slices, probe calls, assignments, if/elif/else, three-clause for, for-in, break/continue) the v2 register machine and the v1 reference model end with the same value, error (position and class), heap, trace, polls, flags and scopes for every state and fuel, unless v2 reports an undefined name; "
              "register-discipline theorems (value positions demand exactly one register value; calls and attribute expressions reset the registers; multi-assignment evaluates the right side first) + consuming-position matrix and block-scope correspondence",
    level_text="Kernel-checked properties of the register machine model: a construct that yields no value leaves the registers empty and every value position then reports an error instead of reading an earlier value; "
               "the model is tied to run.go by the position x construct matrix and random programs.",
    level_note="script_agree/stmts_agree/expr_agree are about the two models; each is tied to its implementation by correspondence. Outside the fragment the models differ in named, proved ways (compound index assignment on a non-collection, `_` as a name, void values, undefined names in compound assignment: theorems *_difference); ill-tagged start states (a variable holding a void or mistagged value) and non-empty points are excluded by hypotheses (ScopesOK, NoKeys); void_bound_needs_tagging shows the first is needed.",
    extra_tb=[TB_FLOAT], exhaustive=False)
