"""Per-property metadata for bin/check: Lean modules, theorem names (proof obligations), generator
description and trusted base.  The theorem lists are the obligations audited with `#print axioms`."""

TB_COMMON = [
    "Lean 4.33 kernel + elaborator; axioms limited to propext, Classical.choice, Quot.sound (audited per theorem)",
    "the Lean statements in Platypus/Properties and Platypus/Spec say what properties.jsonl says",
    "Go extractor (/verif/extract), Go harness (/verif/harness), Lean driver (Driver/*.lean) and bin/check",
]

PROPS = {}

PROPS["C17"] = {
    "modules": ["Platypus.Properties.C17"],
    "theorems": [
        "Platypus.LnCol.linear_correct",
        "Platypus.LnCol.cache_correct",
        "Platypus.LnCol.lookups_agree",
    ],
    "rule": "lookup: every text over {a, newline, e-acute} up to length 6 (quick) / 8 (thorough) x every offset -2..len+2, "
            "plus random byte strings (invalid UTF-8, CR, NUL) x boundary and random offsets; one case per text; "
            "a case is non-trivial unless marked triv by the generator; distinct = distinct input line",
    "exhaustive": True,
    "trusted_base": TB_COMMON + [
        "modelled, not verified: Go's range-over-string rune decoding (a 0x0A byte is always its own rune; exercised with invalid UTF-8)",
    ],
    "assumptions": ["Go int is 64 bit", "model of token.go is hand written; tied by the correspondence run on every check"],
    "technique": "Lean 4 theorems (both lookup routines = declarative spec, for all texts and offsets) + differential correspondence of the Lean model with token.go",
    "level_text": "Kernel-checked theorems that the model of PosCache.LnCol (binary search) and LnCol (linear scan) equal the declarative line/column specification for every byte string and every integer offset; the model is tied to token.go by running both on all texts up to a length bound and random byte strings on every check.",
    "level_note": "Trusted: Lean kernel; the hand-written model's fidelity is checked by correspondence, not proved; Go range-over-string decoding is modelled byte-wise.",
}


def _mk(pid, modules, rule, technique, level_text, level_note, extra_tb=(), exhaustive=False, assumptions=(), args=()):
    PROPS[pid] = {
        "modules": modules, "theorems": None, "rule": rule, "exhaustive": exhaustive,
        "trusted_base": TB_COMMON + list(extra_tb),
        "assumptions": list(assumptions) or ["Go int is 64 bit", "hand-written model tied by the correspondence run on every check"],
        "technique": technique, "level_text": level_text, "level_note": level_note, "args": list(args),
    }

TB_FLOAT = "Lean Float (C double) = Go float64 for + - * / comparisons and int64->float64 (exercised by the operator table, not proved); floats cross the protocol as bit patterns"

_mk("C02",
    ["Platypus.Properties.C02", "Platypus.Properties.C02Facts"],
    rule="exhaustive operator x ordered operand pair table (14 binary operators x 51 operand representatives incl. 0, +-1, 2^53+-1, "
         "min/max int64, +-0.0, inf, nan, strings, lists, maps; 3 unary; 5 compound assignments), operands as literals wrapped in probes "
         "(evaluation order/once observable), a sample (quick) or all (thorough) pairs with operands from variables and point fields, "
         "random expression trees of depth <= 3; every case is one script run through the real parser+checker+interpreter and through the Lean model; "
         "strict: any disagreement on these single-expression programs is a specification failure; distinct = distinct case line",
    technique="Lean 4 theorems about the operator functions of the model for all operand values + decide-checked regenerated tables (arithType/cmpType/condTrue/assign2arithOp, v1=v2) + exhaustive operator-table correspondence",
    level_text="Kernel-checked theorems (all 64-bit integers, all float bit patterns, all strings, all heaps) that the model's operators wrap, truncate, promote, "
               "compare, short-circuit and reject exactly as the reference says; the decision tables are regenerated from runtime.go/run.go on every run and matched by decide; "
               "the model is tied to the implementation by the exhaustive operator x operand-class table run through both.",
    level_note="Float arithmetic itself is IEEE hardware on both sides (trusted); parser literal folding is outside this property (C06/C07).",
    extra_tb=[TB_FLOAT], exhaustive=True)

_mk("C04",
    ["Platypus.Model.Eval"],
    rule="exhaustive slice grid: every list and string (ASCII and multi-byte) of length 0..3 (quick) / 0..5 (thorough) x (start,end,step) each omitted, "
         "in -4..4 (quick) / -8..8 (thorough) or in {+-2^31, max int64, min int64}; every index read/write path of depth <= 2 (all) and 3 (sampled quick / all thorough) "
         "over nested list/map shapes with in-range, negative, out-of-range and wrongly typed keys; len/in over collection classes; "
         "random alias/mutate/add_key-snapshot programs; strict: any disagreement with the model is a specification failure",
    technique="Lean 4 theorem slice indices = CPython PySlice_AdjustIndices+range for all lengths < 2^62 and all int64 bounds/steps (no overflow, all indices in range) + heap frame/alias theorems + exhaustive slice-grid and index-path correspondence",
    level_text="Kernel-checked: the index sequence computed by the model of sliceBounds/loop (Go int wrap-around arithmetic) equals Python's for every length and every int64 start/end/step, "
               "lies in [0,len) and has the capacity passed to make; index writes are visible through every alias and leave other objects unchanged. The model is tied to runtime.go by the exhaustive grid.",
    level_note="JSON text of lists/maps copied into the point is produced by encoding/json (oracle: the harness marshals the model's view of the value).",
    extra_tb=[TB_FLOAT, "encoding/json text of a list/map value (oracle answered by the harness from the model's own rendering of the value)"], exhaustive=True)
