"""Per-property metadata for bin/check: Lean modules, theorem names (proof obligations), generator
description and trusted base.  The theorem lists are the obligations audited with `#print axioms`."""

TB_COMMON = [
    "Lean 4.33 kernel + elaborator; axioms limited to propext, Classical.choice, Quot.sound (audited per theorem)",
    "the Lean statements in Platypus/Properties and Platypus/Spec say what properties.jsonl says",
    "Go extractor (/verif/extract), Go harness (/verif/harness), Lean driver (Driver/*.lean) and bin/check",
]

PROPS = {}

PROPS["C17"] = {
    "modules": ["Platypus.Properties.C17"],
    "theorems": [
        "Platypus.LnCol.linear_correct",
        "Platypus.LnCol.cache_correct",
        "Platypus.LnCol.lookups_agree",
    ],
    "rule": "lookup: every text over {a, newline, e-acute} up to length 6 (quick) / 8 (thorough) x every offset -2..len+2, "
            "plus random byte strings (invalid UTF-8, CR, NUL) x boundary and random offsets; one case per text; "
            "a case is non-trivial unless marked triv by the generator; distinct = distinct input line",
    "exhaustive": True,
    "trusted_base": TB_COMMON + [
        "modelled, not verified: Go's range-over-string rune decoding (a 0x0A byte is always its own rune; exercised with invalid UTF-8)",
    ],
    "assumptions": ["Go int is 64 bit", "model of token.go is hand written; tied by the correspondence run on every check"],
    "technique": "Lean 4 theorems (both lookup routines = declarative spec, for all texts and offsets) + differential correspondence of the Lean model with token.go",
    "level_text": "Kernel-checked theorems that the model of PosCache.LnCol (binary search) and LnCol (linear scan) equal the declarative line/column specification for every byte string and every integer offset; the model is tied to token.go by running both on all texts up to a length bound and random byte strings on every check.",
    "level_note": "Trusted: Lean kernel; the hand-written model's fidelity is checked by correspondence, not proved; Go range-over-string decoding is modelled byte-wise.",
}
