-- This module serves as the root of the `Platypus` library.
-- Import modules here that should be built as part of the library.
import Platypus.Basic
