/-!
CPython's slice semantics over unbounded integers (Objects/sliceobject.c):
`PySlice_AdjustIndices` + the index sequence of `range(start, stop, step)`.
This is the reference for C04.
-/
namespace Platypus.PySlice

/-- PySlice_AdjustIndices for one bound -/
def adjust (length : Int) (step : Int) (v : Int) : Int :=
  if v < 0 then
    let v' := v + length
    if v' < 0 then (if step < 0 then -1 else 0) else v'
  else if v ≥ length then (if step < 0 then length - 1 else length)
  else v

def defaults (length step : Int) : Int × Int :=
  if step < 0 then (length - 1, -1) else (0, length)

/-- number of selected elements -/
def count (start stop step : Int) : Nat :=
  if step > 0 then (if start < stop then ((stop - start - 1) / step + 1).toNat else 0)
  else if step < 0 then (if start > stop then ((start - stop - 1) / (-step) + 1).toNat else 0)
  else 0

/-- the indices selected by `seq[start:stop:step]` for a sequence of `length` elements (`step ≠ 0`) -/
def indices (length : Nat) (start stop : Option Int) (step : Option Int) : List Int :=
  let st := step.getD 1
  let d := defaults length st
  let s := match start with | some v => adjust length st v | none => d.1
  let e := match stop with | some v => adjust length st v | none => d.2
  (List.range (count s e st)).map (fun (k : Nat) => s + (Int.ofNat k) * st)

end Platypus.PySlice
