import Platypus.Model.Basic
/-!
What a string-literal spelling *denotes* (C07), written as a direct grammar of the documented
literal forms, independent of the lexer and of the unquoter:

* `"…"` / `'…'` on one line with Go-style escapes:
  `\a \b \f \n \r \t \v \\`, the literal's own quote `\"` resp. `\'`, `\ooo` (three octal digits,
  value ≤ 255: one byte), `\xHH` (one byte), `\uHHHH`, `\UHHHHHHHH` (a Unicode scalar value: ≤ 10FFFF,
  not a surrogate: its UTF-8 encoding); every other byte stands for itself; a raw newline or an
  unescaped quote of the literal's kind inside the body is malformed;
* `"""…"""` / `'''…'''` (delimiter `qqq`): the body is raw (no escapes), may span lines, and the
  first occurrence of `qqq` in the text after the opening delimiter is the closing delimiter at the
  very end: the body does not contain three consecutive `q` and does not end in `q`.  Quotes of the
  other kind (also three in a row, `"""a'''b"""`) and mixed runs (`"""a"'"b"""`) are ordinary text,
  and the body may begin with one or two `q` (`""""a"""` is `"a`), but `"""a""""` is not a literal;
* `` `…` ``: the body is raw and contains no back quote (a back-quoted identifier).
Source text is assumed to be valid UTF-8 (the property's domain).
-/
namespace Platypus.Denote

def isOct (c : UInt8) : Bool := 48 ≤ c && c ≤ 55
def hexDig (c : UInt8) : Option Nat :=
  if 48 ≤ c && c ≤ 57 then some (c.toNat - 48)
  else if 97 ≤ c && c ≤ 102 then some (c.toNat - 87)
  else if 65 ≤ c && c ≤ 70 then some (c.toNat - 55)
  else none

def hexNum : Bytes → Option Nat
  | [] => some 0
  | ds => ds.foldl (fun acc d => do let a ← acc; let x ← hexDig d; pure (a * 16 + x)) (some 0)

/-- UTF-8 encoding of a Unicode scalar value -/
def utf8 (r : Nat) : Option Bytes :=
  if r < 0x80 then some [r.toUInt8]
  else if r < 0x800 then some [(0xC0 + r / 64).toUInt8, (0x80 + r % 64).toUInt8]
  else if 0xD800 ≤ r && r < 0xE000 then none
  else if r < 0x10000 then some [(0xE0 + r / 4096).toUInt8, (0x80 + (r / 64) % 64).toUInt8, (0x80 + r % 64).toUInt8]
  else if r ≤ 0x10FFFF then some [(0xF0 + r / 262144).toUInt8, (0x80 + (r / 4096) % 64).toUInt8, (0x80 + (r / 64) % 64).toUInt8, (0x80 + r % 64).toUInt8]
  else none

/-- body of a one-line quoted literal with quote `q` -/
def body : Nat → UInt8 → Bytes → Option Bytes
  | 0, _, _ => none
  | _, _, [] => some []
  | f+1, q, c :: rest =>
    if c == 10 || c == q then none
    else if c != 92 then (body f q rest).map (c :: ·)
    else match rest with
      | [] => none
      | e :: r =>
        let simple (b : UInt8) := (body f q r).map (b :: ·)
        if e == 97 then simple 7 else if e == 98 then simple 8 else if e == 102 then simple 12
        else if e == 110 then simple 10 else if e == 114 then simple 13 else if e == 116 then simple 9
        else if e == 118 then simple 11 else if e == 92 then simple 92
        else if e == q then simple q
        else if isOct e then
          match r with
          | d1 :: d2 :: r' =>
            if isOct d1 && isOct d2 then
              let v := (e.toNat - 48) * 64 + (d1.toNat - 48) * 8 + (d2.toNat - 48)
              if v ≤ 255 then (body f q r').map (v.toUInt8 :: ·) else none
            else none
          | _ => none
        else if e == 120 then
          (match r with
           | h1 :: h2 :: r' => do
             let v ← hexNum [h1, h2]
             let t ← body f q r'
             pure (v.toUInt8 :: t)
           | _ => none)
        else if e == 117 || e == 85 then
          let n := if e == 117 then 4 else 8
          if r.length < n then none
          else do
            let v ← hexNum (r.take n)
            let enc ← utf8 v
            let t ← body f q (r.drop n)
            pure (enc ++ t)
        else none

def isQuote (c : UInt8) : Bool := c == 34 || c == 39

/-- `s` contains three consecutive bytes `q` -/
def hasTriple (q : UInt8) : Bytes → Bool
  | a :: b :: c :: r => (a == q && b == q && c == q) || hasTriple q (b :: c :: r)
  | _ => false

/-- the byte string a literal spelling denotes; none = not a well-formed string literal -/
def denote (s : Bytes) : Option Bytes :=
  let n := s.length
  match s with
  | 96 :: _ =>
    if n ≥ 2 && s.getLastD 0 == 96 then
      let b := (s.drop 1).take (n - 2)
      if b.contains 96 then none else some b
    else none
  | q :: _ =>
    if !isQuote q then none
    else if n ≥ 6 && s.take 3 == [q, q, q] then
      -- triple quoted
      if s.drop (n - 3) != [q, q, q] then none
      else
        let b := (s.drop 3).take (n - 6)
        -- the first `qqq` after the opening delimiter is the closing one (`C07.first_close_at_end`)
        if hasTriple q b then none
        else if b.getLast? == some q then none
        else some b
    else if n ≥ 2 && s.getLastD 0 == q then
      -- (`""` and `''` are the empty string; `"""` alone is not a literal)
      let b := (s.drop 1).take (n - 2)
      if n == 3 && b == [q] then none
      else body (b.length + 1) q b
    else none
  | [] => none

end Platypus.Denote
