import Platypus.Model.LnCol
/-! Declarative specification of a position lookup (C17). -/
namespace Platypus.LnCol

/-- number of bytes after the last newline of `q` (the whole of `q` if it has none). -/
def trail (q : Bytes) : Nat := (q.reverse.takeWhile (· ≠ NL)).length

/-- `ln = 1 + #newlines in q[0,pos)`, `col = 1 + #bytes after the last newline in q[0,pos)`,
    offsets outside `[0,|q|]` are invalid. -/
def spec (q : Bytes) (pos : Int) : Option LC :=
  if pos < 0 ∨ pos > q.length then none
  else some ⟨1 + (q.take pos.toNat).count NL, 1 + trail (q.take pos.toNat)⟩

end Platypus.LnCol
