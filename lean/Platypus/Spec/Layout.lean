import Platypus.Model.Parse
/-!
# Specification side of C06: the admissible spellings of a tree

`PProg ss ts` : the item list `ts` is one way of writing the statement trees `ss`
  * with exactly the parentheses the trees hold as `paren` nodes — an operand whose operator binds
    less tightly than its context requires (the table `lvl`, i.e. gram.y's `%left` lines) must be a
    `paren` node, so "only the parentheses the precedence table requires" are the trees where every
    `paren` node is needed and "redundant parentheses" are the others: both are covered;
  * with any number of line ends at every place the grammar has `SPACE_EOLS` (after binary and
    assignment operators, commas, opening brackets, `:`; before `)`; before `]` of an index and
    after list elements; before `}` of a map), any separator run between statements, an optional
    leading `;`-run and trailing separator run in a statement list, leading line ends in a program.
Positions and the text of punctuation/keyword items are arbitrary (universally quantified).
Comments never reach the parser (`parseItems` filters them: `parser.Lex` skips COMMENT).

Side conditions are the constructor functions' own rejections (division by a zero literal, slice
bounds of float/list/string literal type, for-in over a number/bool/nil literal, a sign directly on
a number literal is folded) and the grammar's shape rules (what may be indexed, sliced, called or
attributed).  The theorem `Platypus.C06.parse_print` is: `PProg ss ts → parseItems ts = some ss`.
-/
namespace Platypus.Parse
open Platypus.Lex (Tok Item)

/-- all items are line ends (`SPACE_EOLS`) -/
def Eols (l : List Item) : Prop := ∀ i ∈ l, i.typ = .EOL
/-- `sep`: a non-empty run of `;` and line ends -/
def IsSep (l : List Item) : Prop := l ≠ [] ∧ ∀ i ∈ l, i.typ = .SEMICOLON ∨ i.typ = .EOL
/-- `sem`: a run of `;` and line ends that starts with `;` -/
def IsSem (l : List Item) : Prop := ∃ i r, l = i :: r ∧ i.typ = .SEMICOLON ∧ ∀ j ∈ r, j.typ = .SEMICOLON ∨ j.typ = .EOL

/-- the precedence table: gram.y's `%left OR / AND / IN / comparisons / ADD SUB / MUL DIV MOD`,
    lowest first (all left-associative); unary `%right NOT UMINUS` is 7 -/
def lvl : BOp → Nat
  | .or => 1 | .and => 2 | .in_ => 3
  | .gte => 4 | .gt => 4 | .neq => 4 | .eqeq => 4 | .lte => 4 | .lt => 4
  | .add => 5 | .sub => 5 | .mul => 6 | .div => 6 | .mod => 6

def opTok : BOp → Tok
  | .or => .OR | .and => .AND | .in_ => .IN
  | .gte => .GTE | .gt => .GT | .neq => .NEQ | .eqeq => .EQEQ | .lte => .LTE | .lt => .LT
  | .add => .ADD | .sub => .SUB | .mul => .MUL | .div => .DIV | .mod => .MOD

def unTok : UnOp → Tok | .pos => .ADD | .neg => .SUB | .not => .NOT

def asgTok : AsgOp → Tok
  | .eq => .EQ | .addEq => .ADD_EQ | .subEq => .SUB_EQ | .mulEq => .MUL_EQ | .divEq => .DIV_EQ | .modEq => .MOD_EQ

/-- how tightly the outermost operator of an expression binds (8: primary, never needs parentheses) -/
def level : PT → Nat
  | .bin op _ _ => lvl op
  | .unary _ _ => 7
  | .num true _ => 7            -- written `- N`
  | _ => 8

def identTok (q : Bool) : Tok := if q then .QUOTED_STRING else .ID
/-- a back-quoted identifier must unquote -/
def identOK (q : Bool) (v : Bytes) : Prop := q = true → (Unq.unquote v).isSome = true

/-- `slice_expr_start` or identifier: what may be sliced -/
def sliceBase : PT → Prop
  | .ident _ _ => True | .num false _ => True | .str _ _ => True | .bool _ => True | .nil => True
  | .list _ => True | .call _ _ _ => True | .slice _ _ _ _ _ => True
  | _ => False
/-- left of a DOT: identifier, index expression or attribute expression -/
def attrObj : PT → Prop
  | .ident _ _ => True | .index _ _ => True | .attr _ _ => True | _ => False
/-- right of a DOT: identifier or index expression -/
def attrArg : PT → Prop
  | .ident _ _ => True | .index _ _ => True | _ => False
/-- a sign on a number literal is folded by `newUnaryExpr`: such a `unary` node never exists -/
def folds (op : UnOp) (e : PT) : Prop :=
  (op = .pos ∨ op = .neg) ∧ ∃ n v, e = .num n v

mutual

/-- spellings of an expression -/
inductive PE : PT → List Item → Prop
  | ident (q v p) : identOK q v → PE (.ident q v) [⟨identTok q, p, v⟩]
  | num (v p) : PE (.num false v) [⟨.NUMBER, p, v⟩]
  | numNeg (v p p' s) : PE (.num true v) [⟨.SUB, p, s⟩, ⟨.NUMBER, p', v⟩]
  | str (m v p) : strOK m v = true → PE (.str m v) [⟨if m then .MULTILINE_STRING else .STRING, p, v⟩]
  | boolT (p s) : PE (.bool true) [⟨.TRUE, p, s⟩]
  | boolF (p s) : PE (.bool false) [⟨.FALSE, p, s⟩]
  | nil (p s) : PE .nil [⟨.NIL, p, s⟩]
  | null (p s) : PE .nil [⟨.NULL, p, s⟩]
  | listNil (p s p' s' e) : Eols e → PE (.list []) ([⟨.LEFT_BRACKET, p, s⟩] ++ e ++ [⟨.RIGHT_BRACKET, p', s'⟩])
  | list (p s e xs ts) : Eols e → PL xs ts → PE (.list xs) ([⟨.LEFT_BRACKET, p, s⟩] ++ e ++ ts)
  | mapNil (p s p' s' e) : Eols e → PE (.map []) ([⟨.LEFT_BRACE, p, s⟩] ++ e ++ [⟨.RIGHT_BRACE, p', s'⟩])
  | map (p s e kvs ts) : Eols e → PM kvs ts → PE (.map kvs) ([⟨.LEFT_BRACE, p, s⟩] ++ e ++ ts)
  | paren (p s p' s' e1 e2 x ts) : Eols e1 → Eols e2 → PE x ts →
      PE (.paren x) ([⟨.LEFT_PAREN, p, s⟩] ++ e1 ++ ts ++ e2 ++ [⟨.RIGHT_PAREN, p', s'⟩])
  | attr (o y t1 t2 p s) : attrObj o → attrArg y → PE o t1 → PE y t2 →
      PE (.attr o y) (t1 ++ [⟨.DOT, p, s⟩] ++ t2)
  | index (q v p idx ts) : identOK q v → idx ≠ [] → PI idx ts →
      PE (.index (some (q, v)) idx) (⟨identTok q, p, v⟩ :: ts)
  | indexDot (p s idx ts) : idx ≠ [] → PI idx ts → PE (.index none idx) (⟨.DOT, p, s⟩ :: ts)
  | unary (op x ts p s) : 7 ≤ level x → ¬ folds op x → PE x ts →
      PE (.unary op x) (⟨unTok op, p, s⟩ :: ts)
  | bin (op l r t1 t2 e p s) : lvl op ≤ level l → lvl op < level r → mkBin op l r = some (.bin op l r) →
      Eols e → PE l t1 → PE r t2 →
      PE (.bin op l r) (t1 ++ [⟨opTok op, p, s⟩] ++ e ++ t2)
  | callNil (q v p p1 s1 p2 s2 e) : identOK q v → Eols e →
      PE (.call q v []) ([⟨identTok q, p, v⟩, ⟨.LEFT_PAREN, p1, s1⟩] ++ e ++ [⟨.RIGHT_PAREN, p2, s2⟩])
  | call (q v p p1 s1 e args ts) : identOK q v → Eols e → PA args ts →
      PE (.call q v args) ([⟨identTok q, p, v⟩, ⟨.LEFT_PAREN, p1, s1⟩] ++ e ++ ts)
  | slice2 (obj a b t0 ta tb e1 e2 p1 s1 p2 s2 p3 s3) : sliceBase obj →
      mkSlice obj a b none false = some (.slice obj a b none false) →
      Eols e1 → Eols e2 → PE obj t0 → PO a ta → PO b tb →
      PE (.slice obj a b none false)
        (t0 ++ [⟨.LEFT_BRACKET, p1, s1⟩] ++ e1 ++ ta ++ [⟨.COLON, p2, s2⟩] ++ e2 ++ tb ++ [⟨.RIGHT_BRACKET, p3, s3⟩])
  | slice3 (obj a b c t0 ta tb tc e1 e2 e3 p1 s1 p2 s2 p3 s3 p4 s4) : sliceBase obj →
      mkSlice obj a b c true = some (.slice obj a b c true) →
      Eols e1 → Eols e2 → Eols e3 → PE obj t0 → PO a ta → PO b tb → PO c tc →
      PE (.slice obj a b c true)
        (t0 ++ [⟨.LEFT_BRACKET, p1, s1⟩] ++ e1 ++ ta ++ [⟨.COLON, p2, s2⟩] ++ e2 ++ tb
          ++ [⟨.COLON, p3, s3⟩] ++ e3 ++ tc ++ [⟨.RIGHT_BRACKET, p4, s4⟩])

/-- an optional expression (slice bounds, for-clauses) -/
inductive PO : Option PT → List Item → Prop
  | none : PO none []
  | some (x ts) : PE x ts → PO (some x) ts

/-- an index chain `[i][j]…` -/
inductive PI : List PT → List Item → Prop
  | nil : PI [] []
  | cons (x rest t tr e1 e2 p s p' s') : Eols e1 → Eols e2 → PE x t → PI rest tr →
      PI (x :: rest) ([⟨.LEFT_BRACKET, p, s⟩] ++ e1 ++ t ++ e2 ++ [⟨.RIGHT_BRACKET, p', s'⟩] ++ tr)

/-- list elements and the closing bracket; line ends may follow every element -/
inductive PL : List PT → List Item → Prop
  | last (x t e p s) : Eols e → PE x t → PL [x] (t ++ e ++ [⟨.RIGHT_BRACKET, p, s⟩])
  | lastComma (x t e1 e2 p s p' s') : Eols e1 → Eols e2 → PE x t →
      PL [x] (t ++ e1 ++ [⟨.COMMA, p, s⟩] ++ e2 ++ [⟨.RIGHT_BRACKET, p', s'⟩])
  | cons (x rest t tr e1 e2 p s) : Eols e1 → Eols e2 → PE x t → PL rest tr →
      PL (x :: rest) (t ++ e1 ++ [⟨.COMMA, p, s⟩] ++ e2 ++ tr)

/-- map entries and the closing brace -/
inductive PM : List (PT × PT) → List Item → Prop
  | last (k v tk tv e1 e2 p s p' s') : Eols e1 → Eols e2 → PE k tk → PE v tv →
      PM [(k, v)] (tk ++ [⟨.COLON, p, s⟩] ++ e1 ++ tv ++ e2 ++ [⟨.RIGHT_BRACE, p', s'⟩])
  | lastComma (k v tk tv e1 e2 p s p' s' p2 s2) : Eols e1 → Eols e2 → PE k tk → PE v tv →
      PM [(k, v)] (tk ++ [⟨.COLON, p, s⟩] ++ e1 ++ tv ++ [⟨.COMMA, p2, s2⟩] ++ e2 ++ [⟨.RIGHT_BRACE, p', s'⟩])
  | cons (k v rest tk tv tr e1 e2 p s p2 s2) : Eols e1 → Eols e2 → PE k tk → PE v tv → PM rest tr →
      PM ((k, v) :: rest) (tk ++ [⟨.COLON, p, s⟩] ++ e1 ++ tv ++ [⟨.COMMA, p2, s2⟩] ++ e2 ++ tr)

/-- one call argument: positional, or `name = value` -/
inductive PArg : PT → List Item → Prop
  | pos (x t) : PE x t → PArg x t
  | named (q v p p' s e x t) : identOK q v → Eols e → PE x t →
      PArg (.assign .eq [.ident q v] [x]) ([⟨identTok q, p, v⟩, ⟨.EQ, p', s⟩] ++ e ++ t)

/-- call arguments and the closing parenthesis -/
inductive PA : List PT → List Item → Prop
  | last (a t e p s) : Eols e → PArg a t → PA [a] (t ++ e ++ [⟨.RIGHT_PAREN, p, s⟩])
  | lastComma (a t e p s p' s') : Eols e → PArg a t →
      PA [a] (t ++ [⟨.COMMA, p, s⟩] ++ e ++ [⟨.RIGHT_PAREN, p', s'⟩])
  | cons (a rest t tr e p s) : Eols e → PArg a t → PA rest tr →
      PA (a :: rest) (t ++ [⟨.COMMA, p, s⟩] ++ e ++ tr)

/-- `comma_params` -/
inductive PC : List PT → List Item → Prop
  | one (x t) : PE x t → PC [x] t
  | cons (x rest t tr e p s) : Eols e → PE x t → PC rest tr →
      PC (x :: rest) (t ++ [⟨.COMMA, p, s⟩] ++ e ++ tr)

/-- `value_stmt | assignment_stmt` -/
inductive PSimple : PT → List Item → Prop
  | expr (x t) : PE x t → PSimple x t
  | assign (lhs rhs tl tr e p s) : Eols e → PC lhs tl → PC rhs tr →
      PSimple (.assign .eq lhs rhs) (tl ++ [⟨.EQ, p, s⟩] ++ e ++ tr)
  | opAssign (op l r tl tr e p s) : op ≠ .eq → Eols e → PE l tl → PE r tr →
      PSimple (.assign op [l] [r]) (tl ++ [⟨asgTok op, p, s⟩] ++ e ++ tr)

/-- an optional for-clause -/
inductive POS : Option PT → List Item → Prop
  | none : POS none []
  | some (x ts) : PSimple x ts → POS (some x) ts

/-- `stmt_block` -/
inductive PB : List PT → List Item → Prop
  | empty (e p s p' s') : Eols e → PB [] ([⟨.LEFT_BRACE, p, s⟩] ++ e ++ [⟨.RIGHT_BRACE, p', s'⟩])
  | emptySem (e sm p s p' s') : Eols e → IsSem sm →
      PB [] ([⟨.LEFT_BRACE, p, s⟩] ++ e ++ sm ++ [⟨.RIGHT_BRACE, p', s'⟩])
  | stmts (ss e t p s p' s') : Eols e → PSS ss t →
      PB ss ([⟨.LEFT_BRACE, p, s⟩] ++ e ++ t ++ [⟨.RIGHT_BRACE, p', s'⟩])

/-- a non-empty statement list: optional leading `sem`, separators, optional trailing separator -/
inductive PSS : List PT → List Item → Prop
  | plain (ss t) : PSeq ss t → PSS ss t
  | sem (ss sm t) : IsSem sm → PSeq ss t → PSS ss (sm ++ t)

inductive PSeq : List PT → List Item → Prop
  | last (x t) : PS x t → PSeq [x] t
  | lastSep (x t sp) : IsSep sp → PS x t → PSeq [x] (t ++ sp)
  | cons (x rest t sp tr) : IsSep sp → PS x t → PSeq rest tr → PSeq (x :: rest) (t ++ sp ++ tr)

/-- `if … elif …`: the first element is written IF, the others ELIF -/
inductive PIfs : Bool → List (PT × List PT) → List Item → Prop
  | one (first c b tc tb p s) : PE c tc → PB b tb →
      PIfs first [(c, b)] (⟨if first then .IF else .ELIF, p, s⟩ :: (tc ++ tb))
  | cons (first c b rest tc tb tr p s) : PE c tc → PB b tb → PIfs false rest tr →
      PIfs first ((c, b) :: rest) (⟨if first then .IF else .ELIF, p, s⟩ :: (tc ++ tb ++ tr))

inductive PElse : Option (List PT) → List Item → Prop
  | none : PElse none []
  | some (b tb p s) : PB b tb → PElse (some b) (⟨.ELSE, p, s⟩ :: tb)

/-- spellings of a statement -/
inductive PS : PT → List Item → Prop
  | simple (x t) : PSimple x t → PS x t
  | brk (p s) : PS .brk [⟨.BREAK, p, s⟩]
  | cont (p s) : PS .cont [⟨.CONTINUE, p, s⟩]
  | ifelse (ifs els t te) : PIfs true ifs t → PElse els te → PS (.ifelse ifs els) (t ++ te)
  | forIn (q v it body ti tb e p s p1 p2 s2) : identOK q v → 3 < level it →
      mkForIn (.bin .in_ (.ident q v) it) body = some (.forIn (.ident q v) it body) →
      Eols e → PE it ti → PB body tb →
      PS (.forIn (.ident q v) it body)
        ([⟨.FOR, p, s⟩, ⟨identTok q, p1, v⟩, ⟨.IN, p2, s2⟩] ++ e ++ ti ++ tb)
  | forS (init cond loop body ti tc tl tb p s p1 s1 p2 s2) :
      POS init ti → PO cond tc → POS loop tl → PB body tb →
      PS (.forS init cond loop body)
        ([⟨.FOR, p, s⟩] ++ ti ++ [⟨.SEMICOLON, p1, s1⟩] ++ tc ++ [⟨.SEMICOLON, p2, s2⟩] ++ tl ++ tb)

end

/-- spellings of a program: leading line ends, the statement list, the EOF item -/
inductive PProg : List PT → List Item → Prop
  | empty (e p s) : e ≠ [] → Eols e → PProg [] (e ++ [⟨.EOF, p, s⟩])
  | emptySem (e sm p s) : Eols e → IsSem sm → PProg [] (e ++ sm ++ [⟨.EOF, p, s⟩])
  | stmts (ss e t p s) : Eols e → PSS ss t → PProg ss (e ++ t ++ [⟨.EOF, p, s⟩])

end Platypus.Parse
