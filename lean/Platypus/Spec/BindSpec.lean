import Platypus.Model.BindV2
/-!
Declarative specification of v2 parameter lists and argument binding (C19).
-/
namespace Platypus.Bind

def isReq (p : Param) : Bool := !p.hasDefault && !p.variadic
def isOpt (p : Param) : Bool := p.hasDefault && !p.variadic
def isVar (p : Param) : Bool := p.variadic && !p.hasDefault

/-- well-formed parameter list: valid, pairwise distinct names; required parameters first, then
    either optional parameters, or a single trailing variadic parameter (never both) -/
def wf (ps : List Param) : Bool :=
  ps.all (fun p => validName p.name) &&
  (ps.map (·.name)).Nodup &&
  (let rest := ps.dropWhile isReq
   rest.all isOpt || (match rest with | [p] => isVar p | _ => false))

def positionals : List Arg → List Nat
  | .pos e :: r => e :: positionals r
  | _ => []

def afterPositionals : List Arg → List Arg
  | .pos _ :: r => afterPositionals r
  | r => r

def namedOnly : List Arg → Option (List (Bytes × Nat))
  | [] => some []
  | .named n e :: r => (namedOnly r).map ((n, e) :: ·)
  | .pos _ :: _ => none

/-- the binding a call designates, or none when it cannot be bound.  For a well-formed list:
    * trailing variadic: only positional arguments, at least one per required parameter; the
      variadic parameter receives all remaining ones in order;
    * otherwise: positional arguments first (at most as many as parameters), then named ones with
      known, pairwise distinct names not already given by position; every required parameter must
      be given; an omitted optional parameter takes its default. -/
def bindSpec (ps : List Param) (args : List Arg) : Option (List Got) :=
  match ps.getLast? with
  | some last =>
    if last.variadic then
      let nreq := ps.length - 1
      if args.all (fun a => match a with | .pos _ => true | _ => false) && args.length ≥ nreq then
        let es := positionals args
        some ((es.take nreq).map Got.value ++ [Got.list (es.drop nreq)])
      else none
    else bindPlain ps args
  | none => bindPlain ps args
where
  bindPlain (ps : List Param) (args : List Arg) : Option (List Got) :=
    let posi := positionals args
    match namedOnly (afterPositionals args) with
    | none => none                                        -- positional after named
    | some nm =>
      let k := posi.length
      if args.length > ps.length then none                -- more arguments than parameters
      else if !(nm.map (·.1)).Nodup then none             -- duplicate name
      else if nm.any (fun (n, _) => match findParam ps n with
          | none => true                                  -- unknown name
          | some i => decide (i < k)) then none           -- already given by position
      else
        let got (i : Nat) (p : Param) : Option Got :=
          if i < k then (posi[i]?).map Got.value
          else match nm.find? (fun (n, _) => n == p.name) with
            | some (_, e) => some (.value e)
            | none => if p.hasDefault then some .default else none   -- missing required
        (List.range ps.length).mapM fun i => got i (ps.getD i default)

/-- what the implementation yields for a call: the `GetParam` result for every parameter, or none -/
def implBind (ps : List Param) (args : List Arg) : Option (List Got) :=
  (checkPass ps args).map fun norm => (List.range ps.length).map (getParam ps norm)

end Platypus.Bind
