import Platypus.Model.Machine
/-!
Reference semantics of statements with *structured outcomes* instead of the three flags.

A statement or block ends with an `Out`: `normal`, `brk`, `cont` (a pending break/continue looking
for its loop) or `exit` (the script is ending: `exit()` was called or the signal was observed).
Loops consume `brk`/`cont` by construction, blocks pop their scope by construction, and nothing
runs after `exit` by construction.  The `brk`/`cont` flags of the task are never written.
The poll points (`procExit`) are those of the implementation, so that the signal is observed at
the same moments.  `C03.flags_refine_outcomes` proves the flag machine equal to this semantics.
-/
namespace Platypus.Sem

inductive Out | normal | brk | cont | exit
  deriving DecidableEq, Repr, Inhabited

/-- outcome of an expression statement: only `exit()` (or an error) can end the script -/
def outOfExit (s : St) : Out := if s.task.exit then .exit else .normal

section
variable (env : Env) (ev : Node → EM TV)

/-- what a loop does after one body execution: consume break/continue, test exit (polling) -/
inductive After | stop | go

def afterBody (o : Out) : EM After := fun s =>
  match o with
  | .brk => .ok .stop s
  | .exit => .ok .stop s
  | _ =>  -- normal or continue: `if ctx.StmtRetrun() { break }`
    match procExit env s with
    | .ok true s' => .ok .stop s'
    | .ok false s' => .ok .go s'
    | .err e s' => .err e s'
    | .panic m => .panic m
    | .fuel => .fuel
    | .need q => .need q

/-- the expression evaluator, guarded by fuel exactly where the implementation's `RunStmt` is -/
def evF : Nat → Node → EM TV
  | 0, _ => outOfFuel
  | _+1, e => ev e

mutual
def semStmt : Nat → Node → EM (TV × Out)
  | 0, _ => outOfFuel
  | f+1, n => match n with
    | .ifelse ifs els _ => (do pushScope; semIfs f ifs els).finally popSt
    | .forS ini c l body _ => (do
        pushScope
        match ini with
        | some i => let _ ← evF ev f i
        | none => pure ()
        let o ← semFor f c l body
        pure (voidTV, o)).finally popSt
    | .forIn var iter body _ _ => (do
        pushScope
        let it ← evF ev f iter
        (do pushScope; semForIn f var it (Node.start iter) body).finally popSt).finally popSt
    | .brk _ => pure (voidTV, .brk)
    | .cont _ => pure (voidTV, .cont)
    | e => do
      let v ← ev e
      let s ← getS
      pure (v, outOfExit s)

/-- a block: poll before each statement; leave at the first non-normal outcome; an error ends the script -/
def semStmts : Nat → List Node → EM Out
  | 0, _ => outOfFuel
  | _, [] => fun s => .ok (outOfExit s) s
  | f+1, n :: rest => fun s =>
    match procExit env s with
    | .ok true s' => .ok .exit s'
    | .ok false s' =>
      (match semStmt f n s' with
       | .ok (_, .normal) s'' => semStmts f rest s''
       | .ok (_, .exit) s'' => .ok .exit s''
       | .ok (_, o) s'' =>
         -- a pending break/continue leaves the block; the implementation still polls the signal at
         -- the head of the next statement (if there is one) before it looks at the flag
         (match rest with
          | [] => .ok o s''
          | _ :: _ => match procExit env s'' with
            | .ok _ s3 => .ok o s3
            | .err e s3 => .err e s3
            | .panic m => .panic m
            | .fuel => .fuel
            | .need q => .need q)
       | .err e s'' => .err e { s'' with task := { s''.task with exit := true } }
       | .panic m => .panic m
       | .fuel => .fuel
       | .need q => .need q)
    | .err e s' => .err e s'
    | .panic m => .panic m
    | .fuel => .fuel
    | .need q => .need q

def semIfs : Nat → List (Node × Option (List Node) × Pos) → Option (List Node) → EM (TV × Out)
  | 0, _, _ => outOfFuel
  | f+1, [], els =>
    match els with
    | some b => do pushScope; let o ← semStmts f b; popScope; pure (voidTV, o)
    | none => fun s => .ok (voidTV, outOfExit s) s
  | f+1, (c, blk, _) :: rest, els => do
    let v ← evF ev f c
    let s ← getS
    if condTrue s.world.heap v then
      match blk with
      | some b => do pushScope; let o ← semStmts f b; popScope; pure (voidTV, o)
      | none => fun s => .ok (voidTV, outOfExit s) s
    else semIfs f rest els

/-- three-clause loop after the init clause: ends with `normal` or `exit`, never `brk`/`cont` -/
def semFor : Nat → Option Node → Option Node → Option (List Node) → EM Out
  | 0, _, _, _ => outOfFuel
  | f+1, c, l, body => do
    if (← procExit env) then return .exit
    let go ← (match c with
      | some cn => do
        let v ← evF ev f cn
        let s ← getS
        pure (condTrue s.world.heap v)
      | none => pure true)
    if !go then return outOfExit (← getS)
    let o ← (match body with
      | some b => do pushScope; let o ← semStmts f b; popScope; pure o
      | none => fun s => .ok (outOfExit s) s)
    match (← afterBody env o) with
    | .stop => return outOfExit (← getS)
    | .go =>
      match l with
      | some ln => let _ ← evF ev f ln
      | none => pure ()
      semFor f c l body

def semForIn : Nat → Node → TV → Pos → Option (List Node) → EM (TV × Out)
  | 0, _, _, _, _ => outOfFuel
  | f+1, var, it, iterPos, body => do
    match it.t with
    | .str =>
      match it.v with
      | .str s => semForInStr f var (Utf8.runesOf s) body
      | _ => runErr iterPos "inner-type"
    | .map =>
      let st ← getS
      match it.v with
      | .ref a =>
        match st.world.heap.get? a with
        | some (.map kvs) =>
          let keys := permute (kvs.length + 1) (akeys (sortKeys kvs)) (env.mapOrder st.world.mapIters)
          modWorld fun w => { w with mapIters := w.mapIters + 1 }
          semForInItems f var iterPos (keys.map fun k => (⟨.str k, .str⟩ : TV)) none body
        | _ => runErr iterPos "inner-type"
      | _ => runErr iterPos "inner-type"
    | .list =>
      let st ← getS
      match it.v with
      | .ref a =>
        match st.world.heap.get? a with
        | some (.list xs) => semForInItems f var iterPos [] (some (a, 0, xs.length)) body
        | _ => runErr iterPos "inner-type"
      | _ => runErr iterPos "inner-type"
    | _ => runErr iterPos "not-iterable"

def semForInStr : Nat → Node → List Bytes → Option (List Node) → EM (TV × Out)
  | 0, _, _, _ => outOfFuel
  | _, _, [], _ => fun s => .ok (voidTV, outOfExit s) s
  | f+1, var, r :: rest, body => do
    match var with
    | .ident name _ => setVarb name ⟨.str r, .str⟩
    | _ => return (⟨.nil, .invalid⟩, outOfExit (← getS))
    let o ← (match body with
      | some b => semStmts f b
      | none => fun s => .ok (outOfExit s) s)
    clearScope
    match (← afterBody env o) with
    | .stop => return (voidTV, outOfExit (← getS))
    | .go => semForInStr f var rest body

def semForInItems : Nat → Node → Pos → List TV → Option (Nat × Nat × Nat) → Option (List Node) → EM (TV × Out)
  | 0, _, _, _, _, _ => outOfFuel
  | f+1, var, iterPos, items, live, body => do
    let next : Option (TV × List TV × Option (Nat × Nat × Nat)) ← (match live with
      | some (a, i, n) =>
        if i < n then do
          let st ← getS
          let x := match st.world.heap.get? a with
            | some (.list xs) => xs.getD i .nil
            | _ => .nil
          pure (some (detect st.world.heap x, [], some (a, i + 1, n)))
        else pure none
      | none => match items with
        | [] => pure none
        | x :: r => pure (some (x, r, none)))
    match next with
    | none => return (voidTV, outOfExit (← getS))
    | some (x, items', live') =>
      clearScope
      if x.t = .invalid then
        runErr iterPos "inner-type"
      else
      match var with
      | .ident name _ => setVarb name x
      | _ => panicE "forin-var-not-identifier"
      let o ← (match body with
        | some b => semStmts f b
        | none => fun s => .ok (outOfExit s) s)
      match (← afterBody env o) with
      | .stop => return (voidTV, outOfExit (← getS))
      | .go => semForInItems f var iterPos items' live' body
end

end
end Platypus.Sem

namespace Platypus.Sem

/-- abstraction of a machine state: the pending flags read as an outcome … -/
def outOf (s : St) : Out :=
  if s.task.brk then .brk else if s.task.cont then .cont else if s.task.exit then .exit else .normal

/-- … and the state with the break/continue flags cleared -/
def clearBC (s : St) : St := { s with task := { s.task with brk := false, cont := false } }

/-- abstraction of a machine result -/
def absR {α} : Res α → Res (α × Out)
  | .ok a s => .ok (a, outOf s) (clearBC s)
  | .err e s => .err e (clearBC s)
  | .panic m => .panic m
  | .fuel => .fuel
  | .need q => .need q

def absU : Res Unit → Res Out
  | .ok _ s => .ok (outOf s) (clearBC s)
  | .err e s => .err e (clearBC s)
  | .panic m => .panic m
  | .fuel => .fuel
  | .need q => .need q

end Platypus.Sem
