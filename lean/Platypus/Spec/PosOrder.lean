import Platypus.Spec.PosFacts
/-!
# Specification side of C17 (tree part), continued: stored positions respect the source order

`PP.allPos t`: all positions stored in `t` (first components of `PP.posFacts`).
`PP.orderOk n`: the positions stored in the node `n` itself lie where the node's tokens stand
relative to the positions stored in its subtrees —
  * binary expression: everything in the left operand is before the operator, everything in the
    right operand after it;  unary: the operator is before its operand;
  * assignment / named argument: left-hand sides before the operator, right-hand sides after;
  * paren, list, map, call: everything inside is strictly between the opening and closing bracket;
  * slice: the sliced object is before `[`, the bounds are strictly between `[` and `]`;
  * attribute expression: the object is before the attribute;
  * for-in: the variable is before `in`, the iterated expression after it;
  * three-clause for: the clauses and the body are after `for`.
`PP.sourceOrdered t`: every node of `t` is `orderOk`.
-/
namespace Platypus.ParsePos
open Platypus.Lex (Tok Item)
open Platypus.Parse

/-- all positions stored in a tree -/
def PP.allPos (t : PP) : List Nat := t.posFacts.map (·.1)

def allPosL (xs : List PP) : List Nat := xs.flatMap PP.allPos
def allPosO (x : Option PP) : List Nat := x.toList.flatMap PP.allPos
def allPosKV (kvs : List (PP × PP)) : List Nat := kvs.flatMap fun kv => kv.1.allPos ++ kv.2.allPos

def PP.orderOk : PP → Prop
  | .bin _ l r p => (∀ q ∈ l.allPos, q < p) ∧ (∀ q ∈ r.allPos, p < q)
  | .unary _ e p => ∀ q ∈ e.allPos, p < q
  | .assign _ lhs rhs p => (∀ q ∈ allPosL lhs, q < p) ∧ (∀ q ∈ allPosL rhs, p < q)
  | .paren e lp rp => ∀ q ∈ e.allPos, lp < q ∧ q < rp
  | .list xs lb rb => ∀ q ∈ allPosL xs, lb < q ∧ q < rb
  | .map kvs lb rb => ∀ q ∈ allPosKV kvs, lb < q ∧ q < rb
  | .call _ _ args _ lp rp => ∀ q ∈ allPosL args, lp < q ∧ q < rp
  | .slice o a b c _ lb rb =>
    (∀ q ∈ o.allPos, q < lb) ∧ (∀ q ∈ allPosO a ++ allPosO b ++ allPosO c, lb < q ∧ q < rb)
  | .attr o a _ => ∀ q ∈ o.allPos, ∀ q' ∈ a.allPos, q < q'
  | .forIn v it _ _ ip => (∀ q ∈ v.allPos, q < ip) ∧ (∀ q ∈ it.allPos, ip < q)
  | .forS i c l b p => ∀ q ∈ allPosO i ++ allPosO c ++ allPosO l ++ allPosL b, p < q
  | _ => True

def PP.sourceOrdered (t : PP) : Prop := ∀ n ∈ t.nodes, n.orderOk

end Platypus.ParsePos
