import Platypus.Model.ParsePos
import Platypus.Spec.Layout
/-!
# Specification side of C17 (tree part): what the stored positions are required to be

"Each position stored in the syntax tree for a token — identifier, literal, operator, bracket,
keyword — equals that token's byte offset."

* `PP.nodes t`: `t` and all its subtrees (structural recursion; `PP.nodes_eq`:
  `t.nodes = t :: t.children.flatMap PP.nodes` with the non-recursive `PP.children`).
* `PP.ownFacts n`: the positions stored *in the node `n` itself*, each with the kind of token whose
  offset it must be (non-recursive).  `PP.posFacts t := t.nodes.flatMap PP.ownFacts` are all the
  (position, expected token kind) pairs of a tree.
* The start position of an attribute expression is not a token offset of its own but
  `ast.NodeStartPos` of its object: `PP.attrOk` (node) / `PP.attrStartOk` (tree).
* `PP.shapeOk`: the token-kind field of a number literal is NUMBER or a sign that can be folded
  (ADD, SUB), that of a nil literal NIL or NULL; an index expression has as many `[` and as many `]`
  as indices.
* `PP.bracketOk` (node) / `PP.bracketsOrdered` (tree): opening before closing bracket.
-/
namespace Platypus.ParsePos
open Platypus.Lex (Tok Item)
open Platypus.Parse

/-- the immediate subtrees -/
def PP.children : PP → List PP
  | .list xs _ _ => xs
  | .map kvs _ _ => kvs.flatMap fun kv => [kv.1, kv.2]
  | .paren e _ _ => [e]
  | .attr o a _ => [o, a]
  | .index _ idx _ _ => idx
  | .unary _ e _ => [e]
  | .bin _ l r _ => [l, r]
  | .assign _ l r _ => l ++ r
  | .call _ _ args _ _ _ => args
  | .slice o a b c _ _ _ => o :: (a.toList ++ b.toList ++ c.toList)
  | .ifelse ifs els =>
    ifs.flatMap (fun e => e.2.1 :: e.2.2) ++ (match els with | some e => e.2 | none => [])
  | .forS i c l b _ => i.toList ++ c.toList ++ l.toList ++ b
  | .forIn v it b _ _ => v :: it :: b
  | _ => []

mutual

/-- the tree and all its subtrees -/
def PP.nodes : PP → List PP
  | .ident q v p => [.ident q v p]
  | .num n v p k => [.num n v p k]
  | .str m v p => [.str m v p]
  | .bool b p => [.bool b p]
  | .nil p k => [.nil p k]
  | .list xs lb rb => .list xs lb rb :: nodesL xs
  | .map kvs lb rb => .map kvs lb rb :: nodesKV kvs
  | .paren e lp rp => .paren e lp rp :: e.nodes
  | .attr o a p => .attr o a p :: (o.nodes ++ a.nodes)
  | .index obj idx lbs rbs => .index obj idx lbs rbs :: nodesL idx
  | .unary op e p => .unary op e p :: e.nodes
  | .bin op l r p => .bin op l r p :: (l.nodes ++ r.nodes)
  | .assign op l r p => .assign op l r p :: (nodesL l ++ nodesL r)
  | .call q v args np lp rp => .call q v args np lp rp :: nodesL args
  | .slice o a b c c2 lb rb => .slice o a b c c2 lb rb :: (o.nodes ++ (nodesO a ++ nodesO b ++ nodesO c))
  | .ifelse ifs els => .ifelse ifs els :: (nodesIfs ifs ++ nodesEls els)
  | .forS i c l b p => .forS i c l b p :: (nodesO i ++ nodesO c ++ nodesO l ++ nodesL b)
  | .forIn v it b fp ip => .forIn v it b fp ip :: (v.nodes ++ (it.nodes ++ nodesL b))
  | .brk p => [.brk p]
  | .cont p => [.cont p]

def nodesL : List PP → List PP
  | [] => []
  | x :: r => x.nodes ++ nodesL r

def nodesO : Option PP → List PP
  | none => []
  | some x => x.nodes

def nodesKV : List (PP × PP) → List PP
  | [] => []
  | (k, v) :: r => k.nodes ++ v.nodes ++ nodesKV r

def nodesIfs : List (Nat × PP × List PP) → List PP
  | [] => []
  | (_, c, b) :: r => c.nodes ++ nodesL b ++ nodesIfs r

def nodesEls : Option (Nat × List PP) → List PP
  | none => []
  | some (_, b) => nodesL b

end

theorem nodesL_eq (xs : List PP) : nodesL xs = xs.flatMap PP.nodes := by
  induction xs with
  | nil => simp [nodesL]
  | cons x r ih => simp [nodesL, ih]

theorem nodesO_eq (x : Option PP) : nodesO x = x.toList.flatMap PP.nodes := by
  cases x <;> simp [nodesO]

theorem nodesKV_eq (xs : List (PP × PP)) :
    nodesKV xs = (xs.flatMap fun kv => [kv.1, kv.2]).flatMap PP.nodes := by
  induction xs with
  | nil => simp [nodesKV]
  | cons x r ih => obtain ⟨k, v⟩ := x; simp [nodesKV, ih]

theorem nodesIfs_eq (xs : List (Nat × PP × List PP)) :
    nodesIfs xs = (xs.flatMap fun e => e.2.1 :: e.2.2).flatMap PP.nodes := by
  induction xs with
  | nil => simp [nodesIfs]
  | cons x r ih => obtain ⟨p, c, b⟩ := x; simp [nodesIfs, ih, nodesL_eq]

theorem nodesEls_eq (x : Option (Nat × List PP)) :
    nodesEls x = (match x with | some e => e.2 | none => []).flatMap PP.nodes := by
  cases x with
  | none => simp [nodesEls]
  | some e => obtain ⟨p, b⟩ := e; simp [nodesEls, nodesL_eq]

/-- `nodes` is the tree followed by the nodes of its immediate subtrees -/
theorem PP.nodes_eq (t : PP) : t.nodes = t :: t.children.flatMap PP.nodes := by
  cases t <;>
    simp [PP.nodes, PP.children, nodesL_eq, nodesO_eq, nodesKV_eq, nodesIfs_eq, nodesEls_eq, List.flatMap_append]

/-- `(offset, token kind)` pairs of the `if`/`elif` keywords: the first element is written IF, the
    others ELIF -/
def ifsFacts : List (Nat × PP × List PP) → List (Nat × Tok)
  | [] => []
  | e :: r => (e.1, .IF) :: r.map fun e => (e.1, .ELIF)

/-- the positions stored in the node itself, with the kind of the token each must be the offset of -/
def PP.ownFacts : PP → List (Nat × Tok)
  | .ident q _ p => [(p, identTok q)]
  | .num _ _ p k => [(p, k)]
  | .str m _ p => [(p, if m then .MULTILINE_STRING else .STRING)]
  | .bool b p => [(p, if b then .TRUE else .FALSE)]
  | .nil p k => [(p, k)]
  | .list _ lb rb => [(lb, .LEFT_BRACKET), (rb, .RIGHT_BRACKET)]
  | .map _ lb rb => [(lb, .LEFT_BRACE), (rb, .RIGHT_BRACE)]
  | .paren _ lp rp => [(lp, .LEFT_PAREN), (rp, .RIGHT_PAREN)]
  | .attr _ _ _ => []                 -- see `attrOk`
  | .index obj _ lbs rbs =>
    (match obj with | some o => [(o.2.2, identTok o.1)] | none => [])
      ++ lbs.map (fun p => (p, .LEFT_BRACKET)) ++ rbs.map (fun p => (p, .RIGHT_BRACKET))
  | .unary op _ p => [(p, unTok op)]
  | .bin op _ _ p => [(p, opTok op)]
  | .assign op _ _ p => [(p, asgTok op)]
  | .call q _ _ np lp rp => [(np, identTok q), (lp, .LEFT_PAREN), (rp, .RIGHT_PAREN)]
  | .slice _ _ _ _ _ lb rb => [(lb, .LEFT_BRACKET), (rb, .RIGHT_BRACKET)]
  | .ifelse ifs els => ifsFacts ifs ++ (match els with | some e => [(e.1, .ELSE)] | none => [])
  | .forS _ _ _ _ p => [(p, .FOR)]
  | .forIn _ _ _ fp ip => [(fp, .FOR), (ip, .IN)]
  | .brk p => [(p, .BREAK)]
  | .cont p => [(p, .CONTINUE)]

/-- all stored `(position, expected token kind)` pairs of a tree -/
def PP.posFacts (t : PP) : List (Nat × Tok) := t.nodes.flatMap PP.ownFacts

theorem PP.posFacts_eq (t : PP) : t.posFacts = t.ownFacts ++ t.children.flatMap PP.posFacts := by
  have : PP.posFacts = fun t => t.nodes.flatMap PP.ownFacts := rfl
  rw [this]
  show List.flatMap PP.ownFacts t.nodes = _
  rw [PP.nodes_eq]
  simp [List.flatMap_assoc]

/-- `newAttrExpr`: the start of an attribute expression is the start of its object -/
def PP.attrOk : PP → Prop
  | .attr o _ p => p = o.start
  | _ => True

/-- every attribute expression in the tree starts where its object starts -/
def PP.attrStartOk (t : PP) : Prop := ∀ n ∈ t.nodes, n.attrOk

/-- token-kind fields and list lengths are consistent -/
def PP.shapeOk : PP → Prop
  | .num _ _ _ k => k = .NUMBER ∨ k = .ADD ∨ k = .SUB
  | .nil _ k => k = .NIL ∨ k = .NULL
  | .index _ idx lbs rbs => lbs.length = idx.length ∧ rbs.length = idx.length
  | _ => True

/-- the opening bracket of the node is before its closing bracket (and the name of a call before its
    parenthesis) -/
def PP.bracketOk : PP → Prop
  | .list _ lb rb => lb < rb
  | .map _ lb rb => lb < rb
  | .paren _ lp rp => lp < rp
  | .index _ _ lbs rbs => ∀ pr ∈ lbs.zip rbs, pr.1 < pr.2
  | .call _ _ _ np lp rp => np < lp ∧ lp < rp
  | .slice _ _ _ _ _ lb rb => lb < rb
  | _ => True

def PP.bracketsOrdered (t : PP) : Prop := ∀ n ∈ t.nodes, n.bracketOk

/-- the offsets of an item list are strictly increasing -/
def Sorted (ts : List Item) : Prop := ts.Pairwise fun a b => a.pos < b.pos

end Platypus.ParsePos
