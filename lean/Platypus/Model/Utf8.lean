import Platypus.Model.Basic
/-! Go's utf8.DecodeRuneInString / string(rune) as used by `for _, x := range s { string(x) }`. -/
namespace Platypus.Utf8

def runeError : Bytes := [0xEF, 0xBF, 0xBD]

def isCont (b : UInt8) : Bool := 0x80 ≤ b && b ≤ 0xBF

/-- decode one rune at the head: (re-encoded bytes of the rune as `string(x)` gives them, width) -/
def decode : Bytes → Option (Bytes × Nat)
  | [] => none
  | b0 :: rest =>
    if b0 < 0x80 then some ([b0], 1)
    else if b0 < 0xC2 then some (runeError, 1)
    else if b0 < 0xE0 then
      match rest with
      | b1 :: _ => if isCont b1 then some ([b0, b1], 2) else some (runeError, 1)
      | _ => some (runeError, 1)
    else if b0 < 0xF0 then
      match rest with
      | b1 :: b2 :: _ =>
        let lo : UInt8 := if b0 == 0xE0 then 0xA0 else 0x80
        let hi : UInt8 := if b0 == 0xED then 0x9F else 0xBF
        if lo ≤ b1 && b1 ≤ hi && isCont b2 then some ([b0, b1, b2], 3) else some (runeError, 1)
      | _ => some (runeError, 1)
    else if b0 < 0xF5 then
      match rest with
      | b1 :: b2 :: b3 :: _ =>
        let lo : UInt8 := if b0 == 0xF0 then 0x90 else 0x80
        let hi : UInt8 := if b0 == 0xF4 then 0x8F else 0xBF
        if lo ≤ b1 && b1 ≤ hi && isCont b2 && isCont b3 then some ([b0, b1, b2, b3], 4) else some (runeError, 1)
      | _ => some (runeError, 1)
    else some (runeError, 1)

/-- the strings `string(x)` for every rune x of `range s` -/
def runes : Nat → Bytes → List Bytes
  | 0, _ => []
  | f+1, s => match decode s with
    | none => []
    | some (r, w) => r :: runes f (s.drop w)

def runesOf (s : Bytes) : List Bytes := runes (s.length + 1) s

end Platypus.Utf8
