import Platypus.Model.ParsePos
/-!
# Executable rendering of the position-carrying trees (for the differential check of C17)

`PP.render` writes a tree as an S-expression that shows every stored position (byte offsets, in
decimal) next to the node it belongs to; `renderProg` does a statement list.  Token texts (identifier
names, number and string literals) are the *token text as lexed*, in lower-case hexadecimal; `q` / `m`
flags are `0`/`1`; an absent optional part is `-`.  The token-kind fields of `num` and `nil` (which
the real tree does not have) are not rendered.

    (id q HEX p)            (num neg HEX p)        (str m HEX p)      (bool true|false p)   (nil p)
    (list lb rb X…)         (map lb rb (K V)…)     (paren lp rp E)    (attr p OBJ ATTR)
    (index (obj q HEX p)|- (lbs N…) (rbs N…) X…)   (unary OP p E)     (bin OP p L R)
    (assign OP p (lhs L…) (rhs R…))                (call q HEX np lp rp A…)
    (slice lb rb c2 OBJ A|- B|- C|-)               (if (elem p C (block S…))… (else ep (block S…))|-)
    (for p I|- C|- L|- (block S…))                 (forin fp ip V IT (block S…))
    (break p)               (continue p)           (prog S…)

Total, by the same structural recursion as `PP.erase`; nothing in the proofs depends on this file.
-/
namespace Platypus.ParsePos
open Platypus.Parse

def hexDigit (n : Nat) : Char := if n < 10 then Char.ofNat (48 + n) else Char.ofNat (87 + n)

def hexOf (b : Bytes) : String :=
  if b.isEmpty then "\"\"" else
  String.ofList (b.flatMap fun c => [hexDigit (c.toNat / 16), hexDigit (c.toNat % 16)])

def bit (b : Bool) : String := if b then "1" else "0"

def bopName : BOp → String
  | .or => "or" | .and => "and" | .in_ => "in" | .gte => "ge" | .gt => "gt" | .neq => "ne" | .eqeq => "eq"
  | .lte => "le" | .lt => "lt" | .add => "add" | .sub => "sub" | .mul => "mul" | .div => "div" | .mod => "mod"
def unName : UnOp → String | .pos => "pos" | .neg => "neg" | .not => "not"
def asName : AsgOp → String
  | .eq => "eq" | .addEq => "addEq" | .subEq => "subEq" | .mulEq => "mulEq" | .divEq => "divEq" | .modEq => "modEq"

def natsStr (xs : List Nat) : String := xs.foldl (fun acc n => acc ++ " " ++ toString n) ""

mutual

def PP.render : PP → String
  | .ident q v p => "(id " ++ bit q ++ " " ++ hexOf v ++ " " ++ toString p ++ ")"
  | .num n v p _ => "(num " ++ bit n ++ " " ++ hexOf v ++ " " ++ toString p ++ ")"
  | .str m v p => "(str " ++ bit m ++ " " ++ hexOf v ++ " " ++ toString p ++ ")"
  | .bool b p => "(bool " ++ (if b then "true" else "false") ++ " " ++ toString p ++ ")"
  | .nil p _ => "(nil " ++ toString p ++ ")"
  | .list xs lb rb => "(list " ++ toString lb ++ " " ++ toString rb ++ renderL xs ++ ")"
  | .map kvs lb rb => "(map " ++ toString lb ++ " " ++ toString rb ++ renderKV kvs ++ ")"
  | .paren e lp rp => "(paren " ++ toString lp ++ " " ++ toString rp ++ " " ++ e.render ++ ")"
  | .attr o a p => "(attr " ++ toString p ++ " " ++ o.render ++ " " ++ a.render ++ ")"
  | .index obj idx lbs rbs =>
    "(index " ++ (match obj with
      | some o => "(obj " ++ bit o.1 ++ " " ++ hexOf o.2.1 ++ " " ++ toString o.2.2 ++ ")"
      | none => "-")
    ++ " (lbs" ++ natsStr lbs ++ ") (rbs" ++ natsStr rbs ++ ")" ++ renderL idx ++ ")"
  | .unary op e p => "(unary " ++ unName op ++ " " ++ toString p ++ " " ++ e.render ++ ")"
  | .bin op l r p => "(bin " ++ bopName op ++ " " ++ toString p ++ " " ++ l.render ++ " " ++ r.render ++ ")"
  | .assign op l r p =>
    "(assign " ++ asName op ++ " " ++ toString p ++ " (lhs" ++ renderL l ++ ") (rhs" ++ renderL r ++ "))"
  | .call q v args np lp rp =>
    "(call " ++ bit q ++ " " ++ hexOf v ++ " " ++ toString np ++ " " ++ toString lp ++ " " ++ toString rp
      ++ renderL args ++ ")"
  | .slice o a b c c2 lb rb =>
    "(slice " ++ toString lb ++ " " ++ toString rb ++ " " ++ bit c2 ++ " " ++ o.render ++ " " ++ renderO a
      ++ " " ++ renderO b ++ " " ++ renderO c ++ ")"
  | .ifelse ifs els => "(if" ++ renderIfs ifs ++ " " ++ renderEls els ++ ")"
  | .forS i c l b p =>
    "(for " ++ toString p ++ " " ++ renderO i ++ " " ++ renderO c ++ " " ++ renderO l ++ " (block" ++ renderL b ++ "))"
  | .forIn v it b fp ip =>
    "(forin " ++ toString fp ++ " " ++ toString ip ++ " " ++ v.render ++ " " ++ it.render ++ " (block" ++ renderL b ++ "))"
  | .brk p => "(break " ++ toString p ++ ")"
  | .cont p => "(continue " ++ toString p ++ ")"

/-- every element preceded by a space -/
def renderL : List PP → String
  | [] => ""
  | x :: r => " " ++ x.render ++ renderL r

def renderO : Option PP → String
  | none => "-"
  | some x => x.render

def renderKV : List (PP × PP) → String
  | [] => ""
  | (k, v) :: r => " (" ++ k.render ++ " " ++ v.render ++ ")" ++ renderKV r

def renderIfs : List (Nat × PP × List PP) → String
  | [] => ""
  | (p, c, b) :: r => " (elem " ++ toString p ++ " " ++ c.render ++ " (block" ++ renderL b ++ "))" ++ renderIfs r

def renderEls : Option (Nat × List PP) → String
  | none => "-"
  | some (p, b) => "(else " ++ toString p ++ " (block" ++ renderL b ++ "))"

end

/-- a statement list: `(prog S…)` -/
def renderProg (ss : List PP) : String := "(prog" ++ renderL ss ++ ")"

/-- the whole pipeline on a source text: `none` when the model parser rejects it -/
def renderSrc (src : Bytes) : Option String := (parsePos src).map renderProg

end Platypus.ParsePos
