import Platypus.Model.Basic
import Platypus.Model.Utf8
/-!
pkg/engine/runtimev2/funcs.go: CheckFnParamDef, CheckPassParam, GetParam (after the fixes).
Arguments are abstract: a positional argument or a named one, each carrying an expression id.
-/
namespace Platypus.Bind

structure Param where
  name : Bytes
  hasDefault : Bool      -- Val != nil
  variadic : Bool        -- Variable
  deriving DecidableEq, Repr, Inhabited

inductive Arg
  | pos (e : Nat)
  | named (name : Bytes) (e : Nat)
  deriving DecidableEq, Repr, Inhabited

def isLetter (c : UInt8) : Bool := (65 ≤ c && c ≤ 90) || (97 ≤ c && c ≤ 122)
def isDigit (c : UInt8) : Bool := 48 ≤ c && c ≤ 57

/-- what `unicode.IsLetter` / `unicode.IsDigit` answer for one rune, given by its UTF-8 encoding
    (0 = neither, 1 = letter, 2 = digit).  ASCII is computed; outside ASCII the Unicode tables are an
    engine, and the model knows the runes the generators use (`none`: a rune it does not know — the
    driver does not judge such a name).  An invalid byte decodes to U+FFFD, which is neither. -/
def runeClass : Bytes → Option Nat
  | [c] => some (if isLetter c then 1 else if isDigit c then 2 else 0)
  | [0xC3, 0xA9] => some 1          -- é
  | [0xE5, 0x90, 0x8D] => some 1    -- 名
  | [0xD0, 0x96] => some 1          -- Ж
  | [0xD9, 0xA1] => some 2          -- ١ (ARABIC-INDIC DIGIT ONE)
  | [0xCC, 0x81] => some 0          -- U+0301 (combining acute accent)
  | [0xC2, 0xA0] => some 0          -- U+00A0 (no-break space)
  | [0xC2, 0xB2] => some 0          -- ² (a number, not a decimal digit)
  | [0xEF, 0xBF, 0xBD] => some 0    -- U+FFFD
  | _ => none

def nameModelled (name : Bytes) : Bool := (Utf8.runesOf name).all fun r => (runeClass r).isSome

/-- isValidParamName: a letter or `_`, then letters, digits and `_` — rune by rune -/
def validName (name : Bytes) : Bool :=
  match Utf8.runesOf name with
  | [] => false
  | r0 :: rest =>
    (runeClass r0 == some 1 || r0 == [95]) &&
      rest.all (fun r => runeClass r == some 1 || runeClass r == some 2 || r == [95])

/-- the loop of CheckFnParamDef: state (optional seen, variadic seen, names seen) -/
def defLoop : List Param → Nat → Nat → Bool → Bool → List Bytes → Bool
  | [], _, _, _, _, _ => true
  | p :: rest, i, n, optional, varSeen, names =>
    if !validName p.name then false
    else if names.contains p.name then false
    else
      let optional' := optional || p.hasDefault
      if !p.hasDefault && optional then false
      else if p.variadic then
        if optional' then false
        else if varSeen then false
        else if i ≠ n - 1 then false
        else defLoop rest (i + 1) n optional' true (p.name :: names)
      else defLoop rest (i + 1) n optional' varSeen (p.name :: names)

/-- `CheckFnParamDef(params) == nil` -/
def checkDef (ps : List Param) : Bool := defLoop ps 0 ps.length false false []

def findParam (ps : List Param) (name : Bytes) : Option Nat := ps.findIdx? (·.name == name)

/-- the argument loop of CheckPassParam -/
def passLoop (ps : List Param) (varb : Bool) : List Arg → Nat → Bool → List (Option Nat) → Option (List (Option Nat))
  | [], _, _, acc => some acc
  | a :: rest, idx, namedSeen, acc =>
    match a with
    | .named name e =>
      if varb then none
      else match findParam ps name with
        | none => none
        | some pi =>
          if (acc.getD pi none).isSome then none
          else passLoop ps varb rest (idx + 1) true (acc.set pi (some e))
    | .pos e =>
      if namedSeen then none
      else passLoop ps varb rest (idx + 1) namedSeen (acc.set idx (some e))

/-- the "missing parameter" loop: stops at the first optional or variadic parameter -/
def requiredOk : List Param → List (Option Nat) → Bool
  | [], _ => true
  | p :: rest, acc =>
    if !p.hasDefault && !p.variadic then
      match acc with
      | some _ :: accRest => requiredOk rest accRest
      | _ => false
    else true

/-- `CheckPassParam`: none = rejected, some normalized = `expr.ParamNormalized` -/
def checkPass (ps : List Param) (args : List Arg) : Option (List (Option Nat)) :=
  let varb := match ps.getLast? with | some p => p.variadic | none => false
  if !varb && args.length > ps.length then none
  else
    let size := max args.length ps.length
    match passLoop ps varb args 0 false (List.replicate size none) with
    | none => none
    | some acc => if requiredOk ps acc then some acc else none

/-- what `GetParam(i)` yields -/
inductive Got
  | value (e : Nat)             -- the argument expression bound to the parameter
  | default                     -- the declared default
  | list (es : List Nat)        -- variadic: all remaining positional arguments in order
  | error
  deriving DecidableEq, Repr, Inhabited

def getParam (ps : List Param) (norm : List (Option Nat)) (i : Nat) : Got :=
  if i ≥ ps.length ∨ i ≥ norm.length then .error
  else
    let p := ps.getD i default
    if p.variadic then
      match norm.getD i none with
      | none => .list []
      | some _ =>
        let tail := norm.drop i
        if tail.all Option.isSome then .list (tail.filterMap id) else .error
    else
      match norm.getD i none with
      | some e => .value e
      | none => if p.hasDefault then .default else .error

end Platypus.Bind
