import Platypus.Model.Basic
/-!
pkg/engine/runtimev2/funcs.go: CheckFnParamDef, CheckPassParam, GetParam (after the fixes).
Arguments are abstract: a positional argument or a named one, each carrying an expression id.
-/
namespace Platypus.Bind

structure Param where
  name : Bytes
  hasDefault : Bool      -- Val != nil
  variadic : Bool        -- Variable
  deriving DecidableEq, Repr, Inhabited

inductive Arg
  | pos (e : Nat)
  | named (name : Bytes) (e : Nat)
  deriving DecidableEq, Repr, Inhabited

def isLetter (c : UInt8) : Bool := (65 ≤ c && c ≤ 90) || (97 ≤ c && c ≤ 122)
def isDigit (c : UInt8) : Bool := 48 ≤ c && c ≤ 57

/-- isValidParamName (ASCII names) -/
def validName : Bytes → Bool
  | [] => false
  | c :: r => (isLetter c || c == 95) && r.all (fun d => isLetter d || isDigit d || d == 95)

/-- the loop of CheckFnParamDef: state (optional seen, variadic seen, names seen) -/
def defLoop : List Param → Nat → Nat → Bool → Bool → List Bytes → Bool
  | [], _, _, _, _, _ => true
  | p :: rest, i, n, optional, varSeen, names =>
    if !validName p.name then false
    else if names.contains p.name then false
    else
      let optional' := optional || p.hasDefault
      if !p.hasDefault && optional then false
      else if p.variadic then
        if optional' then false
        else if varSeen then false
        else if i ≠ n - 1 then false
        else defLoop rest (i + 1) n optional' true (p.name :: names)
      else defLoop rest (i + 1) n optional' varSeen (p.name :: names)

/-- `CheckFnParamDef(params) == nil` -/
def checkDef (ps : List Param) : Bool := defLoop ps 0 ps.length false false []

def findParam (ps : List Param) (name : Bytes) : Option Nat := ps.findIdx? (·.name == name)

/-- the argument loop of CheckPassParam -/
def passLoop (ps : List Param) (varb : Bool) : List Arg → Nat → Bool → List (Option Nat) → Option (List (Option Nat))
  | [], _, _, acc => some acc
  | a :: rest, idx, namedSeen, acc =>
    match a with
    | .named name e =>
      if varb then none
      else match findParam ps name with
        | none => none
        | some pi =>
          if (acc.getD pi none).isSome then none
          else passLoop ps varb rest (idx + 1) true (acc.set pi (some e))
    | .pos e =>
      if namedSeen then none
      else passLoop ps varb rest (idx + 1) namedSeen (acc.set idx (some e))

/-- the "missing parameter" loop: stops at the first optional or variadic parameter -/
def requiredOk : List Param → List (Option Nat) → Bool
  | [], _ => true
  | p :: rest, acc =>
    if !p.hasDefault && !p.variadic then
      match acc with
      | some _ :: accRest => requiredOk rest accRest
      | _ => false
    else true

/-- `CheckPassParam`: none = rejected, some normalized = `expr.ParamNormalized` -/
def checkPass (ps : List Param) (args : List Arg) : Option (List (Option Nat)) :=
  let varb := match ps.getLast? with | some p => p.variadic | none => false
  if !varb && args.length > ps.length then none
  else
    let size := max args.length ps.length
    match passLoop ps varb args 0 false (List.replicate size none) with
    | none => none
    | some acc => if requiredOk ps acc then some acc else none

/-- what `GetParam(i)` yields -/
inductive Got
  | value (e : Nat)             -- the argument expression bound to the parameter
  | default                     -- the declared default
  | list (es : List Nat)        -- variadic: all remaining positional arguments in order
  | error
  deriving DecidableEq, Repr, Inhabited

def getParam (ps : List Param) (norm : List (Option Nat)) (i : Nat) : Got :=
  if i ≥ ps.length ∨ i ≥ norm.length then .error
  else
    let p := ps.getD i default
    if p.variadic then
      match norm.getD i none with
      | none => .list []
      | some _ =>
        let tail := norm.drop i
        if tail.all Option.isSome then .list (tail.filterMap id) else .error
    else
      match norm.getD i none with
      | some e => .value e
      | none => if p.hasDefault then .default else .error

end Platypus.Bind
