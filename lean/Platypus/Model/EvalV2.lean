import Platypus.Model.Eval
/-!
The v2 interpreter (pkg/engine/runtimev2/run.go + runtime.go, after the fixes): a register
machine.  Every expression leaves its value(s) in `task.regs` (`ReturnAppend` = reset + append);
consumers read them with `GetRet` (exactly one value) or `GetMultiRet`.  Names are variables only
(no point), an undefined name is an error, `a, b = x, y` evaluates the whole right side first.
Functions come from the host's table; the model knows the harness's probes:
`p(...)` records its arguments, `pr(x, ...)` records and returns `x`, `void()` returns nothing,
`multi(a, b)` returns two values.
-/
namespace Platypus.V2

open Platypus

/-- `Regs.ReturnAppend(v...)` -/
def retSet (vs : List TV) : EM Unit := modTask fun t => { t with regs := vs }

/-- `Regs.GetRet()`: exactly one value, else an error at `p` -/
def getRet (p : Pos) : EM TV := fun s =>
  match s.task.regs with
  | [v] => .ok v s
  | [] => .err (PlErr.new s.task.name p "no-return-value") s
  | _ => .err (PlErr.new s.task.name p "multiple-return-values") s

/-- v2 `GetKey`: variables only, no `_` alias -/
def getVar (s : St) (k : Bytes) : Option TV := scopeGet s.task.scopes k
def setVar (k : Bytes) (v : TV) : EM Unit := modTask fun t => { t with scopes := scopeSet t.scopes k v }

section
variable (env : Env)

mutual
/-- `RunExpr` -/
def runExpr : Nat → Node → EM Unit
  | 0, _ => outOfFuel
  | f+1, n => match n with
    | .paren e _ _ => runExpr f e
    | .intLit v _ => retSet [⟨.int v, .int⟩]
    | .floatLit b _ => retSet [⟨.float b, .float⟩]
    | .boolLit b _ => retSet [⟨.bool b, .bool⟩]
    | .strLit s _ => retSet [⟨.str s, .str⟩]
    | .nilLit _ => retSet [nilTV]
    | .attr _ _ _ => retSet []
    | .ident name p => do
      let s ← getS
      match getVar s name with
      | some v => retSet [v]
      | none => runErr p "name-not-defined"
    | .unary op e p => do
      let v ← valueOf f e
      let s ← getS
      match unop s.world.heap op v with
      | .ok r => retSet [r]
      | .error m => runErr p m
    | .arith op l r p => do
      let a ← valueOf f l
      let b ← valueOf f r
      match arith op a b with
      | .ok v => retSet [v]
      | .error m => runErr p m
    | .cond op l r p => do
      let a ← valueOf f l
      if a.t = .bool ∧ op = .or ∧ a.v.toBool then retSet [⟨.bool true, .bool⟩]
      else if a.t = .bool ∧ op = .and ∧ !a.v.toBool then retSet [⟨.bool false, .bool⟩]
      else do
        let b ← valueOf f r
        let s ← getS
        match condOp s.world.heap op a b with
        | .ok v => retSet [v]
        | .error m => runErr p m
    | .inE l r p => do
      let a ← valueOf f l
      -- (the Go code reports a missing right value at the LEFT operand's position)
      runExpr f r
      let b ← getRet (Node.start l)
      let s ← getS
      match inOp s.world.heap a b with
      | .ok v => retSet [v]
      | .error m => runErr p m
    | .list xs _ _ => do
      let vs ← valuesOf f xs
      let s ← getS
      let (h, a) := s.world.heap.alloc (.list (vs.map (·.v)))
      modWorld fun w => { w with heap := h }
      retSet [⟨.ref a, .list⟩]
    | .map kvs _ _ => do
      let m ← mapLit f kvs []
      let s ← getS
      let (h, a) := s.world.heap.alloc (.map m)
      modWorld fun w => { w with heap := h }
      retSet [⟨.ref a, .map⟩]
    | .index obj idx _ _ =>
      match obj with
      | none => runErr (Node.start n) "index-no-object"
      | some (name, p) => do
        let s ← getS
        match getVar s name with
        | none => runErr p "key-not-found"
        | some v =>
          match v.t, v.v with
          | .list, .ref a | .map, .ref a =>
            (match s.world.heap.get? a, v.t with
             | some (.list _), .list | some (.map _), .map => do
               let r ← searchLM2 f (.ref a) idx
               match r with
               | some x => retSet [x]
               | none => pure ()
             | _, _ => runErr p "unsupported-type")
          | .list, _ | .map, _ => runErr p "unsupported-type"
          | _, _ => runErr p "unindexable-type"
    | .slice obj st en sp _ _ _ => slice2 f obj st en sp
    | .assign op lhs rhs p => assign2 f op lhs rhs p
    | .call name args np _ _ _ => do
      retSet []
      if !env.fns.contains name then pure () else call2 f name args np
    | .ifelse ifs els _ => (do pushScope; ifs2 f ifs els).finally popSt
    | .forS ini c l body _ => (do
        pushScope
        match ini with
        | some i => runExpr f i
        | none => pure ()
        for2 f c l body).finally popSt
    | .forIn var iter body _ _ => (do
        pushScope
        let it ← valueOf f iter
        (do pushScope; forIn2 f var it (Node.start iter) body).finally popSt).finally popSt
    | .brk _ => modTask fun t => { t with brk := true }
    | .cont _ => modTask fun t => { t with cont := true }

/-- `RunExpr` then `GetRet` at the node's start position -/
def valueOf : Nat → Node → EM TV
  | 0, _ => outOfFuel
  | f+1, e => do runExpr f e; getRet (Node.start e)

def valuesOf : Nat → List Node → EM (List TV)
  | 0, _ => outOfFuel
  | _, [] => pure []
  | f+1, x :: r => do
    let v ← valueOf f x
    let vs ← valuesOf f r
    pure (v :: vs)

def mapLit : Nat → List (Node × Node) → List (Bytes × Val) → EM (List (Bytes × Val))
  | 0, _, _ => outOfFuel
  | _, [], acc => pure acc
  | f+1, (k, v) :: r, acc => do
    let kv ← valueOf f k
    match kv.v with
    | .str key =>
      let vv ← valueOf f v
      match vv.t with
      | .str | .bool | .float | .int | .nil | .list | .map => mapLit f r (aset key vv.v acc)
      | _ => runErr (Node.start v) "map-value-type"
    | _ => runErr (Node.start k) "map-key-type"

/-- searchListAndMap: `none` = the registers were already set (missing map key ⇒ nil) -/
def searchLM2 : Nat → Val → List Node → EM (Option TV)
  | 0, _, _ => outOfFuel
  | _, cur, [] => do
    let s ← getS
    pure (some (detect s.world.heap cur))
  | f+1, cur, i :: r => do
    let k ← valueOf f i
    let s ← getS
    match cur with
    | .ref a =>
      match s.world.heap.get? a with
      | some (.map kvs) =>
        if k.t ≠ .str then runErr (Node.start i) "key-not-string"
        else match k.v with
          | .str key => (match alookup key kvs with
            | some v => searchLM2 f v r
            | none => pure (some nilTV))
          | _ => panicE "key.(string)"
      | some (.list xs) =>
        if k.t ≠ .int then runErr (Node.start i) "key-not-int"
        else match listIndex xs.length k.v.toI64 with
          | some j => searchLM2 f (xs.getD j .nil) r
          | none => runErr (Node.start i) "index-out-of-range"
      | none => runErr (Node.start i) "not-found"
    | _ => runErr (Node.start i) "not-found"

def changeLM2 : Nat → Val → List Node → TV → EM Unit
  | 0, _, _, _ => outOfFuel
  | _, _, [], _ => pure ()
  | f+1, cur, i :: r, val => do
    let k ← valueOf f i
    let s ← getS
    match cur with
    | .ref a =>
      match s.world.heap.get? a with
      | some (.map kvs) =>
        if k.t ≠ .str then runErr (Node.start i) "key-not-string"
        else match k.v with
          | .str key =>
            if r.isEmpty then modWorld fun w => { w with heap := w.heap.set a (.map (aset key val.v kvs)) }
            else (match alookup key kvs with
              | some v => changeLM2 f v r val
              | none => runErr (Node.start i) "key-not-found")
          | _ => panicE "key.(string)"
      | some (.list xs) =>
        if k.t ≠ .int then runErr (Node.start i) "key-not-int"
        else match listIndex xs.length k.v.toI64 with
          | some j =>
            if r.isEmpty then modWorld fun w => { w with heap := w.heap.set a (.list (xs.set j val.v)) }
            else changeLM2 f (xs.getD j .nil) r val
          | none => runErr (Node.start i) "index-out-of-range"
      | none => runErr (Node.start i) "not-map-or-list"
    | _ => runErr (Node.start i) "not-map-or-list"

def slice2 : Nat → Node → Option Node → Option Node → Option Node → EM Unit
  | 0, _, _, _, _ => outOfFuel
  | f+1, obj, st, en, sp => do
    let o ← valueOf f obj
    let sv ← (match st with | some e => some <$> valueOf f e | none => pure none)
    let ev ← (match en with | some e => some <$> valueOf f e | none => pure none)
    let pv ← (match sp with | some e => some <$> valueOf f e | none => pure none)
    let s ← getS
    let h := s.world.heap
    let len? : Option (Option Nat) :=
      match o.t with
      | .str => (match o.v with | .str b => some (some b.length) | _ => some none)
      | .list => (match o.v with
          | .ref a => (match h.get? a with | some (.list xs) => some (some xs.length) | _ => some none)
          | _ => some none)
      | _ => none
    match len? with
    | none => runErr (Node.start obj) "slice-obj-type"
    | some none => panicE "slice obj type assertion"
    | some (some len) =>
      if (len : Int) ≥ 4611686018427387904 then outOfFuel else
      -- a present bound must be an integer; a nil-valued bound counts as omitted (as in v1)
      let bound (x : Option TV) (e : Option Node) (what : String) : EM (Option Int) :=
        match x with
        | none => pure none
        | some tv =>
          if tv.t = .invalid || tv.t = .nil then pure none
          else if tv.t ≠ .int then runErr ((e.map Node.start).getD Pos.invalid) (what ++ "-not-int")
          else pure (some tv.v.toI64)
      let stepI ← bound pv sp "step"
      if stepI = some 0 then runErr ((sp.map Node.start).getD Pos.invalid) "step-zero" else
      let startI ← bound sv st "start"
      let endI ← bound ev en "end"
      let idxs := Slice.indices len startI endI stepI
      match o.v with
      | .str b => retSet [⟨.str (idxs.map fun i => b.getD i.toNat 0), .str⟩]
      | .ref a =>
        match h.get? a with
        | some (.list xs) =>
          if idxs.any (fun i => i < 0 ∨ i ≥ xs.length) then panicE "slice index out of range" else
          let (h', a') := h.alloc (.list (idxs.map fun i => xs.getD i.toNat .nil))
          modWorld fun w => { w with heap := h' }
          retSet [⟨.ref a', .list⟩]
        | _ => panicE "slice obj"
      | _ => panicE "slice obj"

/-- the right side of an assignment: all values, in order -/
def rhsVals : Nat → List Node → Node → Nat → List TV → EM (List TV)
  | 0, _, _, _, _ => outOfFuel
  | _, [], _, _, acc => pure acc
  | f+1, e :: rest, first, lhsCount, acc => do
    runExpr f e
    let s ← getS
    match s.task.regs with
    | [v] => rhsVals f rest first lhsCount (acc ++ [v])
    | [] => runErr (Node.start first) "no-return-value"
    | vs => if lhsCount = 1 then runErr (Node.start e) "multiple-return-values" else rhsVals f rest first lhsCount (acc ++ vs)

def assignTo : Nat → Node → TV → EM Unit
  | 0, _, _ => outOfFuel
  | f+1, e, v =>
    match e with
    | .ident name _ => setVar name v
    | .index obj idx _ _ =>
      match obj with
      | none => runErr (Node.start e) "index-no-object"
      | some (name, p) => do
        let s ← getS
        match getVar s name with
        | none => runErr p "key-not-found"
        | some base => changeLM2 f base.v idx v
    | _ => runErr (Node.start e) "unsupported-lhs"

def assignAll : Nat → AsOp → List Node → List TV → Pos → EM Unit
  | 0, _, _, _, _ => outOfFuel
  | _, _, [], _, _ => pure ()
  | f+1, op, e :: rest, vals, p =>
    match vals with
    | [] => pure ()            -- unreachable: counts were compared
    | v :: vrest =>
      match op.arith with
      | none => do assignTo f e v; assignAll f op rest vrest p
      | some aop =>
        -- compound assignment: "can be only one right value"
        if vrest.length + 1 ≠ 1 ∨ !rest.isEmpty then runErr p "compound-needs-one-value" else do
          let lv ← valueOf f e
          match arith aop lv v with
          | .ok r => assignTo f e r
          | .error m => runErr p m

def assign2 : Nat → AsOp → List Node → List Node → Pos → EM Unit
  | 0, _, _, _, _ => outOfFuel
  | f+1, op, lhs, rhs, p =>
    match rhs with
    | [] => if lhs.isEmpty then pure () else runErr p "operand-count"
    | first :: _ => do
      let vals ← rhsVals f rhs first lhs.length []
      if lhs.length ≠ vals.length then runErr p "operand-count"
      else assignAll f op lhs vals p

/-- the probes supplied by the harness through the function table -/
def call2 : Nat → Bytes → List Node → Pos → EM Unit
  | 0, _, _, _ => outOfFuel
  | f+1, name, args, _ => do
    let vs ← valuesOf f args
    let s ← getS
    if name ≠ B "len" then
      modWorld fun w => { w with trace := Event.probe name (vs.map (renderTV s.world.heap)) :: w.trace }
    if name = B "pr" then retSet (vs.take 1)
    else if name = B "multi" then retSet (vs.take 2)
    else if name = B "len" then
      match vs with
      | v :: _ =>
        let h := s.world.heap
        let n : Nat := match v.t, v.v with
          | .str, .str b => b.length
          | .list, x => listLen h x
          | .map, x => (mapLen? h x).getD 0
          | _, _ => 0
        retSet [⟨.int n, .int⟩]
      | [] => retSet [⟨.int 0, .int⟩]
    else retSet []

def stmts2 : Nat → List Node → EM Unit
  | 0, _ => outOfFuel
  | _, [] => pure ()
  | f+1, n :: rest => fun s =>
    match stmtReturn env s with
    | .ok true s' => .ok () s'
    | .ok false s' =>
      (match runExpr f n s' with
       | .ok _ s'' => stmts2 f rest s''
       | .err e s'' => .err e { s'' with task := { s''.task with exit := true } }
       | .panic m => .panic m
       | .fuel => .fuel
       | .need q => .need q)
    | .err e s' => .err e s'
    | .panic m => .panic m
    | .fuel => .fuel
    | .need q => .need q

def ifs2 : Nat → List (Node × Option (List Node) × Pos) → Option (List Node) → EM Unit
  | 0, _, _ => outOfFuel
  | f+1, [], els =>
    match els with
    | some b => do pushScope; stmts2 f b; popScope
    | none => pure ()
  | f+1, (c, blk, _) :: rest, els => do
    let v ← valueOf f c
    let s ← getS
    if condTrue s.world.heap v then
      match blk with
      | some b => do pushScope; stmts2 f b; popScope
      | none => pure ()
    else ifs2 f rest els

def for2 : Nat → Option Node → Option Node → Option (List Node) → EM Unit
  | 0, _, _, _ => outOfFuel
  | f+1, c, l, body => do
    if (← procExit env) then return ()
    let go ← (match c with
      | some cn => do
        let v ← valueOf f cn
        let s ← getS
        pure (condTrue s.world.heap v)
      | none => pure true)
    if !go then return ()
    match body with
    | some b => do pushScope; stmts2 f b; popScope
    | none => pure ()
    let s ← getS
    if s.task.brk then
      modTask fun t => { t with brk := false }
      return ()
    if s.task.cont then modTask fun t => { t with cont := false }
    if (← stmtReturn env) then return ()
    match l with
    | some ln => runExpr f ln
    | none => pure ()
    for2 f c l body

def forIn2 : Nat → Node → TV → Pos → Option (List Node) → EM Unit
  | 0, _, _, _, _ => outOfFuel
  | f+1, var, it, iterPos, body => do
    match it.t with
    | .str =>
      match it.v with
      | .str s => forInStr2 f var (Utf8.runesOf s) body
      | _ => runErr iterPos "inner-type"
    | .map =>
      let st ← getS
      match it.v with
      | .ref a =>
        match st.world.heap.get? a with
        | some (.map kvs) =>
          let keys := permute (kvs.length + 1) (akeys (sortKeys kvs)) (env.mapOrder st.world.mapIters)
          modWorld fun w => { w with mapIters := w.mapIters + 1 }
          forInItems2 f var iterPos (keys.map fun k => (⟨.str k, .str⟩ : TV)) none body
        | _ => runErr iterPos "inner-type"
      | _ => runErr iterPos "inner-type"
    | .list =>
      let st ← getS
      match it.v with
      | .ref a =>
        match st.world.heap.get? a with
        | some (.list xs) => forInItems2 f var iterPos [] (some (a, 0, xs.length)) body
        | _ => runErr iterPos "inner-type"
      | _ => runErr iterPos "inner-type"
    | _ => runErr iterPos "not-iterable"

def forInStr2 : Nat → Node → List Bytes → Option (List Node) → EM Unit
  | 0, _, _, _ => outOfFuel
  | _, _, [], _ => pure ()
  | f+1, var, r :: rest, body => do
    match var with
    | .ident name _ => setVar name ⟨.str r, .str⟩
    | _ => return ()
    match body with
    | some b => stmts2 f b
    | none => pure ()
    clearScope
    let s ← getS
    if s.task.brk then
      modTask fun t => { t with brk := false }
      return ()
    if s.task.cont then modTask fun t => { t with cont := false }
    if (← stmtReturn env) then return ()
    forInStr2 f var rest body

def forInItems2 : Nat → Node → Pos → List TV → Option (Nat × Nat × Nat) → Option (List Node) → EM Unit
  | 0, _, _, _, _, _ => outOfFuel
  | f+1, var, iterPos, items, live, body => do
    let next : Option (TV × List TV × Option (Nat × Nat × Nat)) ← (match live with
      | some (a, i, n) =>
        if i < n then do
          let st ← getS
          let x := match st.world.heap.get? a with
            | some (.list xs) => xs.getD i .nil
            | _ => .nil
          pure (some (detect st.world.heap x, [], some (a, i + 1, n)))
        else pure none
      | none => match items with
        | [] => pure none
        | x :: r => pure (some (x, r, none)))
    match next with
    | none => pure ()
    | some (x, items', live') =>
      clearScope
      if x.t = .invalid then runErr iterPos "inner-type" else
      match var with
      | .ident name _ => setVar name x
      | _ => panicE "forin-var-not-identifier"
      match body with
      | some b => stmts2 f b
      | none => pure ()
      let s ← getS
      if s.task.brk then
        modTask fun t => { t with brk := false }
        return ()
      if s.task.cont then modTask fun t => { t with cont := false }
      if (← stmtReturn env) then return ()
      forInItems2 f var iterPos items' live' body
end

/-- `(*Script).Run` of v2: NewTask pushes one scope onto the header -/
def runScript2 (fuel : Nat) (name : Bytes) (stmts : List Node) (w : World) : Res Unit :=
  stmts2 env fuel stmts { task := { name := name, scopes := [[]] }, world := w }

end
end Platypus.V2
