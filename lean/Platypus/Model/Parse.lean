import Platypus.Model.Lexer
import Platypus.Model.Unquote
/-!
Model of the parser (pkg/parser/gram.y as compiled by goyacc, with the constructor functions of
parser.go): a precedence-climbing recursive-descent parser over the lexer model's items that makes
the decisions the LALR(1) automaton makes — which tokens may be followed by line ends
(`SPACE_EOLS`), what may be indexed, sliced, called or attributed, how statements are separated —
and builds position-free trees.  Fuel-indexed, mutually (structurally) recursive; running out of
fuel is `none` like a syntax error (`parse_print` shows the fuel of `parse` suffices for every
printed tree).

The binary operator table `binOf` and `unaryLevel` are the grammar's `%left`/`%right` lines; the
regenerated facts of `Generated/Grammar.lean` tie them (and every production this file mirrors) to
`gram.y`, and `gram_y.go` to `gram.y` through goyacc.
-/
namespace Platypus.Parse
open Platypus.Lex (Tok Item)

inductive BOp | or | and | in_ | gte | gt | neq | eqeq | lte | lt | add | sub | mul | div | mod
  deriving DecidableEq, Repr, Inhabited
inductive UnOp | pos | neg | not deriving DecidableEq, Repr, Inhabited
inductive AsgOp | eq | addEq | subEq | mulEq | divEq | modEq deriving DecidableEq, Repr, Inhabited

/-- position-free syntax trees; literals keep their token text -/
inductive PT
  | ident (quoted : Bool) (v : Bytes)
  | num (neg : Bool) (v : Bytes)            -- NUMBER token text with the folded sign
  | str (multi : Bool) (v : Bytes)          -- STRING / MULTILINE_STRING token text
  | bool (b : Bool)
  | nil
  | list (xs : List PT)
  | map (kvs : List (PT × PT))
  | paren (e : PT)
  | attr (obj attr : PT)
  | index (obj : Option (Bool × Bytes)) (idx : List PT)
  | unary (op : UnOp) (e : PT)
  | bin (op : BOp) (l r : PT)
  | assign (op : AsgOp) (lhs rhs : List PT)
  | call (quoted : Bool) (name : Bytes) (args : List PT)
  | slice (obj : PT) (a b c : Option PT) (colon2 : Bool)
  | ifelse (ifs : List (PT × List PT)) (els : Option (List PT))
  | forS (init cond loop : Option PT) (body : List PT)
  | forIn (v iter : PT) (body : List PT)
  | brk
  | cont
  deriving Repr, Inhabited

/-- precedence level and operator of a binary operator token: the `%left` lines of gram.y,
    lowest first (`OR`, `AND`, `IN`, comparisons, `ADD SUB`, `MUL DIV MOD`) -/
def binOf : Tok → Option (Nat × BOp)
  | .OR => some (1, .or)
  | .AND => some (2, .and)
  | .IN => some (3, .in_)
  | .GTE => some (4, .gte) | .GT => some (4, .gt) | .NEQ => some (4, .neq)
  | .EQEQ => some (4, .eqeq) | .LTE => some (4, .lte) | .LT => some (4, .lt)
  | .ADD => some (5, .add) | .SUB => some (5, .sub)
  | .MUL => some (6, .mul) | .DIV => some (6, .div) | .MOD => some (6, .mod)
  | _ => none

/-- `%right NOT UMINUS`: above every binary operator -/
def unaryLevel : Nat := 7

def unOf : Tok → Option UnOp
  | .ADD => some .pos | .SUB => some .neg | .NOT => some .not | _ => none

def asgOf : Tok → Option AsgOp
  | .ADD_EQ => some .addEq | .SUB_EQ => some .subEq | .MUL_EQ => some .mulEq
  | .DIV_EQ => some .divEq | .MOD_EQ => some .modEq | _ => none

def tk (ts : List Item) : Tok := match ts with | i :: _ => i.typ | [] => .EOF

/-- `SPACE_EOLS`: any number of line ends -/
def skipE : List Item → List Item
  | i :: r => if i.typ = .EOL then skipE r else i :: r
  | [] => []

def expect (t : Tok) (ts : List Item) : Option (List Item) :=
  match ts with
  | i :: r => if i.typ = t then some r else none
  | [] => none

/-! ### the constructor functions of parser.go (their rejections make the parse fail) -/

def digitsOnly (b : Bytes) : Bool := !b.isEmpty && b.all fun c => 48 ≤ c && c ≤ 57

/-- spellings of floats whose value the model needs no engine for: `d+.d*`, `.d+`, with an optional
    exponent, or digits that do not fit ParseInt (leading-zero non-octal, beyond int64) -/
def simpleFloat (v : Bytes) : Bool :=
  let (mant, ex) := (v.takeWhile (fun c => c != 101 && c != 69), v.dropWhile (fun c => c != 101 && c != 69))
  let ip := mant.takeWhile (· != 46)
  let fp := (mant.dropWhile (· != 46)).drop 1
  let mantOK := (ip ++ fp).all (fun c => 48 ≤ c && c ≤ 57) && !(ip ++ fp).isEmpty && (mant.filter (· == 46)).length ≤ 1
  let exOK := match ex with
    | [] => true
    | _ :: e =>
      let d := match e with | 43 :: r => r | 45 :: r => r | r => r
      digitsOnly d && d.length ≤ 2
  mantOK && exOK

/-- is the NUMBER spelling a float literal (`newNumberLiteral`: ParseInt failed)? -/
def isFloatNum (v : Bytes) : Bool := (Unq.parseInt0 v).isNone

/-- spellings the model decides (others need strconv.ParseFloat's verdict: the driver skips them) -/
def numModelled (v : Bytes) : Bool := (Unq.parseInt0 v).isSome || simpleFloat v

/-- the literal's value is zero (integer 0 in any base, or a float whose mantissa digits are all 0) -/
def zeroNum (v : Bytes) : Bool :=
  match Unq.parseInt0 v with
  | some n => n == 0
  | none => (v.takeWhile (fun c => c != 101 && c != 69)).all fun c => c == 48 || c == 46

/-- `newUnaryExpr`: a sign on a number literal is folded into it -/
def mkUnary (op : UnOp) (e : PT) : PT :=
  match op, e with
  | .neg, .num n v => .num (!n) v
  | .pos, .num n v => .num n v
  | _, _ => .unary op e

/-- `newArithmeticExpr`: division or modulo by a zero literal is rejected; the others build -/
def mkBin (op : BOp) (l r : PT) : Option PT :=
  match op, r with
  | .div, .num _ v => if zeroNum v then none else some (.bin op l r)
  | .mod, .num _ v => if zeroNum v then none else some (.bin op l r)
  | _, _ => some (.bin op l r)

/-- a slice bound may not be a float, list or string literal -/
def badBound : Option PT → Bool
  | some (.num _ v) => isFloatNum v
  | some (.list _) => true
  | some (.str _ _) => true
  | _ => false

def mkSlice (obj : PT) (a b c : Option PT) (c2 : Bool) : Option PT :=
  if badBound a || badBound b || badBound c then none else some (.slice obj a b c c2)

/-- `newForInStmt`: the variable is an identifier; number, bool and nil literals do not iterate -/
def mkForIn (e : PT) (body : List PT) : Option PT :=
  match e with
  | .bin .in_ (.ident q v) it =>
    match it with
    | .num _ _ => none | .bool _ => none | .nil => none
    | _ => some (.forIn (.ident q v) it body)
  | _ => none

def strOK (multi : Bool) (v : Bytes) : Bool :=
  if multi then (Unq.unquoteMultiline v).isSome else (Unq.unquote v).isSome

/-- the tokens that may follow a statement -/
def stmtEnd (t : Tok) : Bool := t = .SEMICOLON || t = .EOL || t = .RIGHT_BRACE || t = .EOF

/-- a separator run: `;` and line ends -/
def skipSep : List Item → List Item
  | i :: r => if i.typ = .SEMICOLON || i.typ = .EOL then skipSep r else i :: r
  | [] => []

mutual

/-- `expr` at precedence `minPrec` or above -/
def parseExpr : Nat → Nat → List Item → Option (PT × List Item)
  | 0, _, _ => none
  | f+1, minPrec, ts =>
    match parseUnary f ts with
    | some (l, r) => parseBinRest f minPrec l r
    | none => none

/-- `expr OP SPACE_EOLS expr` for the binary operators, left-associative by level -/
def parseBinRest : Nat → Nat → PT → List Item → Option (PT × List Item)
  | 0, _, _, _ => none
  | f+1, minPrec, l, ts =>
    match ts with
    | [] => some (l, ts)
    | i :: rest =>
      match binOf i.typ with
      | some (p, op) =>
        if p ≥ minPrec then
          match parseExpr f (p + 1) (skipE rest) with
          | some (rhs, r2) =>
            match mkBin op l rhs with
            | some e => parseBinRest f minPrec e r2
            | none => none
          | none => none
        else some (l, ts)
      | none => some (l, ts)

/-- `ADD expr %prec UMINUS | SUB expr %prec UMINUS | NOT expr` (no line end after the operator) -/
def parseUnary : Nat → List Item → Option (PT × List Item)
  | 0, _ => none
  | f+1, ts =>
    match ts with
    | [] => none
    | i :: rest =>
      match unOf i.typ with
      | some op =>
        match parseUnary f rest with
        | some (e, r) => some (mkUnary op e, r)
        | none => none
      | none => parsePrimary f ts

/-- literals, identifiers and what may follow them directly: call, index chain, slice chain,
    attribute chain -/
def parsePrimary : Nat → List Item → Option (PT × List Item)
  | 0, _ => none
  | f+1, ts =>
    match ts with
    | [] => none
    | i :: r =>
      match i.typ with
      | .ID => parseAfterIdent f false i.val r
      | .QUOTED_STRING => if (Unq.unquote i.val).isSome then parseAfterIdent f true i.val r else none
      | .DOT =>
        -- `.[i]…`: DOT LEFT_BRACKET SPACE_EOLS expr SPACE_EOLS RIGHT_BRACKET
        match expect .LEFT_BRACKET r with
        | some r1 =>
          match parseExpr f 1 (skipE r1) with
          | some (e, r2) =>
            match expect .RIGHT_BRACKET (skipE r2) with
            | some r3 =>
              match parseIndexChain f [e] r3 with
              | some (idx, r4) => parseAttrChain f (.index none idx) r4
              | none => none
            | none => none
          | none => none
        | none => none
      | .NUMBER => parseSliceChain f (.num false i.val) r
      | .TRUE => parseSliceChain f (.bool true) r
      | .FALSE => parseSliceChain f (.bool false) r
      | .NIL => parseSliceChain f .nil r
      | .NULL => parseSliceChain f .nil r
      | .STRING => if strOK false i.val then parseSliceChain f (.str false i.val) r else none
      | .MULTILINE_STRING => if strOK true i.val then parseSliceChain f (.str true i.val) r else none
      | .LEFT_BRACKET =>
        let r1 := skipE r
        if tk r1 = .RIGHT_BRACKET then parseSliceChain f (.list []) (r1.drop 1)
        else match parseListElems f [] r1 with
          | some (xs, r2) => parseSliceChain f (.list xs) r2
          | none => none
      | .LEFT_BRACE =>
        let r1 := skipE r
        if tk r1 = .RIGHT_BRACE then some (.map [], r1.drop 1)
        else match parseMapElems f [] r1 with
          | some (kvs, r2) => some (.map kvs, r2)
          | none => none
      | .LEFT_PAREN =>
        match parseExpr f 1 (skipE r) with
        | some (e, r2) =>
          match expect .RIGHT_PAREN (skipE r2) with
          | some r3 => some (.paren e, r3)
          | none => none
        | none => none
      | _ => none

/-- after `identifier`: `(` call, `[` index or slice, `.` attribute chain, or the identifier -/
def parseAfterIdent : Nat → Bool → Bytes → List Item → Option (PT × List Item)
  | 0, _, _, _ => none
  | f+1, q, v, r =>
    match tk r with
    | .LEFT_PAREN =>
      let r1 := skipE (r.drop 1)
      if tk r1 = .RIGHT_PAREN then parseSliceChain f (.call q v []) (r1.drop 1)
      else match parseArgs f [] r1 with
        | some (args, r2) => parseSliceChain f (.call q v args) r2
        | none => none
    | .LEFT_BRACKET =>
      let r1 := skipE (r.drop 1)
      if tk r1 = .COLON then
        match parseSliceBody f none r1 with
        | some (sl, r2) =>
          match mkSlice (.ident q v) sl.1 sl.2.1 sl.2.2.1 sl.2.2.2 with
          | some s => parseSliceChain f s r2
          | none => none
        | none => none
      else match parseExpr f 1 r1 with
        | some (e, r2) =>
          if tk r2 = .COLON then
            match parseSliceBody f (some e) r2 with
            | some (sl, r3) =>
              match mkSlice (.ident q v) sl.1 sl.2.1 sl.2.2.1 sl.2.2.2 with
              | some s => parseSliceChain f s r3
              | none => none
            | none => none
          else match expect .RIGHT_BRACKET (skipE r2) with
            | some r3 =>
              match parseIndexChain f [e] r3 with
              | some (idx, r4) => parseAttrChain f (.index (some (q, v)) idx) r4
              | none => none
            | none => none
        | none => none
    | .DOT => parseAttrChain f (.ident q v) r
    | _ => some (.ident q v, r)

/-- `index_expr LEFT_BRACKET SPACE_EOLS expr SPACE_EOLS RIGHT_BRACKET`, repeated -/
def parseIndexChain : Nat → List PT → List Item → Option (List PT × List Item)
  | 0, _, _ => none
  | f+1, acc, ts =>
    if tk ts = .LEFT_BRACKET then
      match parseExpr f 1 (skipE (ts.drop 1)) with
      | some (e, r2) =>
        match expect .RIGHT_BRACKET (skipE r2) with
        | some r3 => parseIndexChain f (acc ++ [e]) r3
        | none => none
      | none => none
    else some (acc, ts)

/-- `X DOT Y`, left-nested; `Y` is an identifier, an index expression on one, or `.[i]…` -/
def parseAttrChain : Nat → PT → List Item → Option (PT × List Item)
  | 0, _, _ => none
  | f+1, obj, ts =>
    if tk ts = .DOT then
      match parseAttrY f (ts.drop 1) with
      | some (y, r) => parseAttrChain f (.attr obj y) r
      | none => none
    else some (obj, ts)

def parseAttrY : Nat → List Item → Option (PT × List Item)
  | 0, _ => none
  | f+1, ts =>
    match ts with
    | [] => none
    | i :: r =>
      match i.typ with
      | .ID => parseAttrYIdx f (some (false, i.val)) r
      | .QUOTED_STRING => if (Unq.unquote i.val).isSome then parseAttrYIdx f (some (true, i.val)) r else none
      | .DOT => if tk r = .LEFT_BRACKET then parseAttrYIdx f none r else none
      | _ => none

def parseAttrYIdx : Nat → Option (Bool × Bytes) → List Item → Option (PT × List Item)
  | 0, _, _ => none
  | f+1, nm, r =>
    if tk r = .LEFT_BRACKET then
      match parseIndexChain f [] r with
      | some (idx, r2) => some (.index nm idx, r2)
      | none => none
    else match nm with
      | some (q, v) => some (.ident q v, r)
      | none => none

/-- `slice_expr_start LEFT_BRACKET …`, repeated: what follows a literal, a list, a call or a slice
    can only be a slice -/
def parseSliceChain : Nat → PT → List Item → Option (PT × List Item)
  | 0, _, _ => none
  | f+1, obj, ts =>
    if tk ts = .LEFT_BRACKET then
      let r1 := skipE (ts.drop 1)
      if tk r1 = .COLON then
        match parseSliceBody f none r1 with
        | some (sl, r2) =>
          match mkSlice obj sl.1 sl.2.1 sl.2.2.1 sl.2.2.2 with
          | some s => parseSliceChain f s r2
          | none => none
        | none => none
      else match parseExpr f 1 r1 with
        | some (e, r2) =>
          match parseSliceBody f (some e) r2 with
          | some (sl, r3) =>
            match mkSlice obj sl.1 sl.2.1 sl.2.2.1 sl.2.2.2 with
            | some s => parseSliceChain f s r3
            | none => none
          | none => none
        | none => none
    else some (obj, ts)

/-- from the first COLON of a slice to its RIGHT_BRACKET: `: SPACE_EOLS [expr] [: SPACE_EOLS [expr]] ]`
    (no line end before a COLON or the RIGHT_BRACKET) -/
def parseSliceBody : Nat → Option PT → List Item → Option ((Option PT × Option PT × Option PT × Bool) × List Item)
  | 0, _, _ => none
  | f+1, start, ts =>
    match expect .COLON ts with
    | none => none
    | some r0 =>
      let r1 := skipE r0
      let stopR : Option (Option PT × List Item) :=
        if tk r1 = .COLON || tk r1 = .RIGHT_BRACKET then some (none, r1)
        else match parseExpr f 1 r1 with
          | some (e, r) => some (some e, r)
          | none => none
      match stopR with
      | none => none
      | some (stop, r2) =>
        if tk r2 = .COLON then
          let r3 := skipE (r2.drop 1)
          if tk r3 = .RIGHT_BRACKET then some ((start, stop, none, true), r3.drop 1)
          else match parseExpr f 1 r3 with
            | some (e, r4) =>
              match expect .RIGHT_BRACKET r4 with
              | some r5 => some ((start, stop, some e, true), r5)
              | none => none
            | none => none
        else match expect .RIGHT_BRACKET r2 with
          | some r3 => some ((start, stop, none, false), r3)
          | none => none

/-- `function_args`, then `SPACE_EOLS )` or `, SPACE_EOLS )`; entered at the first token of an
    argument -/
def parseArgs : Nat → List PT → List Item → Option (List PT × List Item)
  | 0, _, _ => none
  | f+1, acc, ts =>
    match parseExpr f 1 ts with
    | none => none
    | some (e, r) =>
      let argR : Option (PT × List Item) :=
        match e with
        | .ident _ _ =>
          if tk r = .EQ then
            match parseExpr f 1 (skipE (r.drop 1)) with
            | some (v, r') => some (.assign .eq [e] [v], r')
            | none => none
          else some (e, r)
        | _ => some (e, r)
      match argR with
      | none => none
      | some (arg, r') =>
        if tk r' = .COMMA then
          let r2 := skipE (r'.drop 1)
          if tk r2 = .RIGHT_PAREN then some (acc ++ [arg], r2.drop 1)
          else parseArgs f (acc ++ [arg]) r2
        else match expect .RIGHT_PAREN (skipE r') with
          | some r3 => some (acc ++ [arg], r3)
          | none => none

/-- list elements up to and including `]`: line ends may follow every element -/
def parseListElems : Nat → List PT → List Item → Option (List PT × List Item)
  | 0, _, _ => none
  | f+1, acc, ts =>
    match parseExpr f 1 ts with
    | none => none
    | some (e, r) =>
      let r1 := skipE r
      if tk r1 = .RIGHT_BRACKET then some (acc ++ [e], r1.drop 1)
      else if tk r1 = .COMMA then
        let r2 := skipE (r1.drop 1)
        if tk r2 = .RIGHT_BRACKET then some (acc ++ [e], r2.drop 1)
        else parseListElems f (acc ++ [e]) r2
      else none

/-- map entries up to and including `}`: `expr : SPACE_EOLS expr`, then `,` or `SPACE_EOLS }` -/
def parseMapElems : Nat → List (PT × PT) → List Item → Option (List (PT × PT) × List Item)
  | 0, _, _ => none
  | f+1, acc, ts =>
    match parseExpr f 1 ts with
    | none => none
    | some (k, r) =>
      match expect .COLON r with
      | none => none
      | some r1 =>
        match parseExpr f 1 (skipE r1) with
        | none => none
        | some (v, r2) =>
          if tk r2 = .COMMA then
            let r3 := skipE (r2.drop 1)
            if tk r3 = .RIGHT_BRACE then some (acc ++ [(k, v)], r3.drop 1)
            else parseMapElems f (acc ++ [(k, v)]) r3
          else match expect .RIGHT_BRACE (skipE r2) with
            | some r3 => some (acc ++ [(k, v)], r3)
            | none => none

/-- `comma_params`: `expr (COMMA SPACE_EOLS expr)*` -/
def parseCommaParams : Nat → List PT → List Item → Option (List PT × List Item)
  | 0, _, _ => none
  | f+1, acc, ts =>
    match parseExpr f 1 ts with
    | none => none
    | some (e, r) =>
      if tk r = .COMMA then parseCommaParams f (acc ++ [e]) (skipE (r.drop 1))
      else some (acc ++ [e], r)

/-- `value_stmt | assignment_stmt` (also `for_stmt_elem`) -/
def parseSimple : Nat → List Item → Option (PT × List Item)
  | 0, _ => none
  | f+1, ts =>
    match parseCommaParams f [] ts with
    | none => none
    | some (es, r) =>
      if tk r = .EQ then
        match parseCommaParams f [] (skipE (r.drop 1)) with
        | some (rs, r2) => some (.assign .eq es rs, r2)
        | none => none
      else match asgOf (tk r), es with
        | some op, [e] =>
          match parseExpr f 1 (skipE (r.drop 1)) with
          | some (v, r2) => some (.assign op [e] [v], r2)
          | none => none
        | some _, _ => none
        | none, [e] => some (e, r)
        | none, _ => none

/-- `stmt_block`: `{ SPACE_EOLS }` or `{ SPACE_EOLS stmts }` -/
def parseBlock : Nat → List Item → Option (List PT × List Item)
  | 0, _ => none
  | f+1, ts =>
    match expect .LEFT_BRACE ts with
    | none => none
    | some r =>
      let r1 := skipE r
      if tk r1 = .RIGHT_BRACE then some ([], r1.drop 1)
      else match parseStmts f r1 with
        | some (ss, r2) =>
          match expect .RIGHT_BRACE r2 with
          | some r3 => some (ss, r3)
          | none => none
        | none => none

/-- `stmts`: an optional leading `sem` (`;` then `;`s and line ends), statements separated by
    non-empty runs of `;` and line ends, an optional trailing run.  Entered after the leading line
    ends; stops before `}` or EOF. -/
def parseStmts : Nat → List Item → Option (List PT × List Item)
  | 0, _ => none
  | f+1, ts =>
    if tk ts = .SEMICOLON then parseStmtsAfterSep f [] (skipSep ts)
    else match parseStmt f ts with
      | some (s, r) => parseStmtsTail f [s] r
      | none => none

/-- after a statement: a separator run and more, or the end -/
def parseStmtsTail : Nat → List PT → List Item → Option (List PT × List Item)
  | 0, _, _ => none
  | f+1, acc, ts =>
    if tk ts = .SEMICOLON || tk ts = .EOL then parseStmtsAfterSep f acc (skipSep ts)
    else some (acc, ts)

/-- after a separator run: the end (`}` or EOF) or a statement -/
def parseStmtsAfterSep : Nat → List PT → List Item → Option (List PT × List Item)
  | 0, _, _ => none
  | f+1, acc, ts =>
    if tk ts = .RIGHT_BRACE || tk ts = .EOF then some (acc, ts)
    else match parseStmt f ts with
      | some (s, r) => parseStmtsTail f (acc ++ [s]) r
      | none => none

def parseStmt : Nat → List Item → Option (PT × List Item)
  | 0, _ => none
  | f+1, ts =>
    match ts with
    | [] => none
    | i :: r =>
      match i.typ with
      | .IF =>
        match parseExpr f 1 r with
        | some (c, r1) =>
          match parseBlock f r1 with
          | some (b, r2) => parseElifs f [(c, b)] r2
          | none => none
        | none => none
      | .FOR => parseFor f r
      | .BREAK => some (.brk, r)
      | .CONTINUE => some (.cont, r)
      | _ => parseSimple f ts

/-- `elif_elem*` then an optional `ELSE stmt_block` (no line end in between) -/
def parseElifs : Nat → List (PT × List PT) → List Item → Option (PT × List Item)
  | 0, _, _ => none
  | f+1, acc, ts =>
    if tk ts = .ELIF then
      match parseExpr f 1 (ts.drop 1) with
      | some (c, r1) =>
        match parseBlock f r1 with
        | some (b, r2) => parseElifs f (acc ++ [(c, b)]) r2
        | none => none
      | none => none
    else if tk ts = .ELSE then
      match parseBlock f (ts.drop 1) with
      | some (b, r2) => some (.ifelse acc (some b), r2)
      | none => none
    else some (.ifelse acc none, ts)

/-- after FOR: `in_expr stmt_block`, or the eight `init ; cond ; loop { }` shapes -/
def parseFor : Nat → List Item → Option (PT × List Item)
  | 0, _ => none
  | f+1, ts =>
    if tk ts = .SEMICOLON then parseForRest f none (ts.drop 1)
    else match parseSimple f ts with
      | none => none
      | some (s, r) =>
        if tk r = .LEFT_BRACE then
          match parseBlock f r with
          | some (b, r2) =>
            match mkForIn s b with
            | some st => some (st, r2)
            | none => none
          | none => none
        else match expect .SEMICOLON r with
          | some r1 => parseForRest f (some s) r1
          | none => none

/-- after the first `;` of a for statement -/
def parseForRest : Nat → Option PT → List Item → Option (PT × List Item)
  | 0, _, _ => none
  | f+1, init, ts =>
    let condR : Option (Option PT × List Item) :=
      if tk ts = .SEMICOLON then some (none, ts)
      else match parseExpr f 1 ts with
        | some (c, r) => some (some c, r)
        | none => none
    match condR with
    | none => none
    | some (cond, r) =>
      match expect .SEMICOLON r with
      | none => none
      | some r1 =>
        -- `{` opens the body if what it opens is a block after which the statement can end;
        -- otherwise it was a map literal starting the loop clause
        let asBlock : Option (List PT × List Item) :=
          if tk r1 = .LEFT_BRACE then
            match parseBlock f r1 with
            | some (b, r2) => if stmtEnd (tk r2) then some (b, r2) else none
            | none => none
          else none
        match asBlock with
        | some (b, r2) => some (.forS init cond none b, r2)
        | none =>
          match parseSimple f r1 with
          | some (l, r2) =>
            match parseBlock f r2 with
            | some (b, r3) => some (.forS init cond (some l) b, r3)
            | none => none
          | none => none

end

/-- the parser on the lexer's items: a lexical error is a parse error, comments are skipped
    (`parser.Lex`), `START_STMTS stmts | START_STMTS EOLS | START_STMTS EOLS stmts` then EOF -/
def parseItems (its : List Item) : Option (List PT) :=
  if its.any (fun i => i.typ = .ERROR) then none
  else
    let ts := its.filter (fun i => i.typ ≠ .COMMENT)
    let r0 := skipE ts
    if tk r0 = .EOF then (if tk ts = .EOL then some [] else none)
    else match parseStmts (16 * ts.length + 64) r0 with
      | some (ss, r) => if tk r = .EOF then some ss else none
      | none => none

/-- `ParsePipeline` on the source text, positions dropped -/
def parse (src : Bytes) : Option (List PT) := parseItems (Lex.lexAll src)

end Platypus.Parse
