/-!
Abstract model of concurrent runs: a store of locations, threads that take steps, and an
ownership partition — *shared* locations (the loaded syntax trees with their load-time
annotations, function tables, global pattern tables, loggers) and locations *owned* by one thread
(its task, its private point, pooled objects between Get and Put).
-/
namespace Platypus.Interleave

abbrev Loc := Nat
abbrev Store := Loc → Nat
abbrev Tid := Nat

/-- `owner l = none`: shared; `some t`: owned by thread `t` -/
abbrev Owner := Loc → Option Tid

/-- a step of thread `t`: a store transformer that
    * writes only locations owned by `t` (never a shared location, never another thread's), and
    * computes what it writes from shared locations and `t`'s own locations only -/
structure StepOK (owner : Owner) (t : Tid) (step : Store → Store) : Prop where
  writesOwn : ∀ s l, owner l ≠ some t → step s l = s l
  readsOwnOrShared : ∀ s s', (∀ l, owner l = some t ∨ owner l = none → s l = s' l) →
      ∀ l, owner l = some t → step s l = step s' l

/-- a schedule: which thread steps next with which step -/
abbrev Schedule := List (Tid × (Store → Store))

def run : Schedule → Store → Store
  | [], s => s
  | (_, f) :: rest, s => run rest (f s)

/-- the steps of thread `t` alone, in their order -/
def project (t : Tid) : Schedule → Schedule
  | [] => []
  | (u, f) :: rest => if u = t then (u, f) :: project t rest else project t rest

end Platypus.Interleave
