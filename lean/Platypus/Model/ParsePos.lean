import Platypus.Model.Parse
/-!
# The parser model with the positions the real syntax tree stores (C17, tree part)

`Platypus/Model/Parse.lean` builds position-free trees `PT`.  The real parser (`parser.go`'s
constructor functions called from the actions of `gram.y`) also stores, in every node, the byte
offsets of some of the tokens the node was built from.  This file is a copy of `Parse.lean`,
function by function (same fuel discipline, same decisions, same order of the tests), in which every
function additionally records `Item.pos` of those tokens:

* `PP` mirrors `PT` constructor by constructor, with the position fields of `pkg/ast` (the fields
  `astdump.go` prints) as extra `Nat` fields;
* `PP.erase : PP → PT` forgets them;
* `parsePosItems : List Item → Option (List PP)` is the position-carrying `parseItems`.

Which token a position field holds (JSON keys of `astdump.go` in parentheses):
identifier, string/bool/nil literal (`p`): the token; number literal (`p`): the NUMBER token, or — a
sign folded into the literal by `newUnaryExpr` moves `Start` — the outermost folded sign token;
list/map (`lb`,`rb`), paren (`lp`,`rp`): the brackets; attribute expression (`p`):
`ast.NodeStartPos` of its object (`PP.start`); index expression: the object identifier's token and
all `[` / `]` of the chain in order (`lbs`,`rbs`); unary, binary, assignment and named argument
(`p`): the operator token; call (`np`,`lp`,`rp`): name token and parentheses; slice (`lb`,`rb`): its
`[` and `]`; if/elif element (`p`): the `if`/`elif` keyword, (`ep`): the `else` keyword; three-clause
for (`p`): `for`; for-in (`fp`,`ip`): `for` and `in`; break/continue (`p`): the keyword.

Two constructors carry, besides offsets, the *kind* of the token their start offset belongs to,
because the tree alone does not determine it: `num … k` (`NUMBER`, or `ADD`/`SUB` when a sign was
folded) and `nil … k` (`NIL` or `NULL`).  `erase` and the renderer drop it; it makes the statement
"the stored offset is the offset of a token of the expected kind" exact (`Spec/PosFacts.lean`).
-/
namespace Platypus.ParsePos
open Platypus.Lex (Tok Item)
open Platypus.Parse

/-- syntax trees with the stored positions (byte offsets) -/
inductive PP
  | ident (quoted : Bool) (v : Bytes) (p : Nat)
  | num (neg : Bool) (v : Bytes) (p : Nat) (k : Tok)   -- `k`: kind of the token at `p`
  | str (multi : Bool) (v : Bytes) (p : Nat)
  | bool (b : Bool) (p : Nat)
  | nil (p : Nat) (k : Tok)                             -- `k`: NIL or NULL
  | list (xs : List PP) (lb rb : Nat)
  | map (kvs : List (PP × PP)) (lb rb : Nat)
  | paren (e : PP) (lp rp : Nat)
  | attr (obj attr : PP) (p : Nat)
  | index (obj : Option (Bool × Bytes × Nat)) (idx : List PP) (lbs rbs : List Nat)
  | unary (op : UnOp) (e : PP) (p : Nat)
  | bin (op : BOp) (l r : PP) (p : Nat)
  | assign (op : AsgOp) (lhs rhs : List PP) (p : Nat)
  | call (quoted : Bool) (name : Bytes) (args : List PP) (np lp rp : Nat)
  | slice (obj : PP) (a b c : Option PP) (colon2 : Bool) (lb rb : Nat)
  | ifelse (ifs : List (Nat × PP × List PP)) (els : Option (Nat × List PP))
  | forS (init cond loop : Option PP) (body : List PP) (p : Nat)
  | forIn (v iter : PP) (body : List PP) (fp ip : Nat)
  | brk (p : Nat)
  | cont (p : Nat)
  deriving Repr, Inhabited

mutual

/-- forget the positions -/
def PP.erase : PP → PT
  | .ident q v _ => .ident q v
  | .num n v _ _ => .num n v
  | .str m v _ => .str m v
  | .bool b _ => .bool b
  | .nil _ _ => .nil
  | .list xs _ _ => .list (eraseL xs)
  | .map kvs _ _ => .map (eraseKV kvs)
  | .paren e _ _ => .paren e.erase
  | .attr o a _ => .attr o.erase a.erase
  | .index obj idx _ _ => .index (obj.map fun o => (o.1, o.2.1)) (eraseL idx)
  | .unary op e _ => .unary op e.erase
  | .bin op l r _ => .bin op l.erase r.erase
  | .assign op l r _ => .assign op (eraseL l) (eraseL r)
  | .call q v args _ _ _ => .call q v (eraseL args)
  | .slice o a b c c2 _ _ => .slice o.erase (eraseO a) (eraseO b) (eraseO c) c2
  | .ifelse ifs els => .ifelse (eraseIfs ifs) (eraseEls els)
  | .forS i c l b _ => .forS (eraseO i) (eraseO c) (eraseO l) (eraseL b)
  | .forIn v it b _ _ => .forIn v.erase it.erase (eraseL b)
  | .brk _ => .brk
  | .cont _ => .cont

def eraseL : List PP → List PT
  | [] => []
  | x :: r => x.erase :: eraseL r

def eraseO : Option PP → Option PT
  | none => none
  | some x => some x.erase

def eraseKV : List (PP × PP) → List (PT × PT)
  | [] => []
  | (k, v) :: r => (k.erase, v.erase) :: eraseKV r

def eraseIfs : List (Nat × PP × List PP) → List (PT × List PT)
  | [] => []
  | (_, c, b) :: r => (c.erase, eraseL b) :: eraseIfs r

def eraseEls : Option (Nat × List PP) → Option (List PT)
  | none => none
  | some (_, b) => some (eraseL b)

end

/-- `ast.NodeStartPos` on the node kinds whose start is a stored field (in particular on everything
    that can be the object of an attribute expression: identifier, index expression — the object
    identifier, or the first `[` of the object-less `.[i]` form — and attribute expression).
    `NodeStartPos` of a binary expression or an assignment recurses into the left operand and an
    in-expression has none; those are never attribute objects and get `0` here. -/
def PP.start : PP → Nat
  | .ident _ _ p => p
  | .num _ _ p _ => p
  | .str _ _ p => p
  | .bool _ p => p
  | .nil p _ => p
  | .list _ lb _ => lb
  | .map _ lb _ => lb
  | .paren _ lp _ => lp
  | .attr _ _ p => p
  | .index (some o) _ _ _ => o.2.2
  | .index none _ lbs _ => lbs.headD 0
  | .unary _ _ p => p
  | .bin _ _ _ _ => 0
  | .assign _ _ _ _ => 0
  | .call _ _ _ np _ _ => np
  | .slice _ _ _ _ _ lb _ => lb
  | .ifelse ifs _ => match ifs with | e :: _ => e.1 | [] => 0
  | .forS _ _ _ _ p => p
  | .forIn _ _ _ fp _ => fp
  | .brk p => p
  | .cont p => p

/-- offset of the next item (the token `tk` looks at) -/
def hp (ts : List Item) : Nat := match ts with | i :: _ => i.pos | [] => 0

/-! ### the constructor functions of parser.go, with positions -/

/-- `newUnaryExpr`: a sign on a number literal is folded into it and the literal's start moves to
    the sign token `i` -/
def mkUnaryP (op : UnOp) (i : Item) (e : PP) : PP :=
  match op, e with
  | .neg, .num n v _ _ => .num (!n) v i.pos i.typ
  | .pos, .num n v _ _ => .num n v i.pos i.typ
  | _, _ => .unary op e i.pos

/-- `newArithmeticExpr` / `newConditionalExpr` / `newInExpr`; `p`: the operator token -/
def mkBinP (op : BOp) (p : Nat) (l r : PP) : Option PP :=
  match op, r with
  | .div, .num _ v _ _ => if zeroNum v then none else some (.bin op l r p)
  | .mod, .num _ v _ _ => if zeroNum v then none else some (.bin op l r p)
  | _, _ => some (.bin op l r p)

def badBoundP : Option PP → Bool
  | some (.num _ v _ _) => isFloatNum v
  | some (.list _ _ _) => true
  | some (.str _ _ _) => true
  | _ => false

/-- `newSliceExpr` -/
def mkSliceP (obj : PP) (a b c : Option PP) (c2 : Bool) (lb rb : Nat) : Option PP :=
  if badBoundP a || badBoundP b || badBoundP c then none else some (.slice obj a b c c2 lb rb)

/-- `newForInStmt`: `ForPos` is the FOR token, `InPos` the in-expression's operator position -/
def mkForInP (fp : Nat) (e : PP) (body : List PP) : Option PP :=
  match e with
  | .bin .in_ (.ident q v p) it ip =>
    match it with
    | .num _ _ _ _ => none | .bool _ _ => none | .nil _ _ => none
    | _ => some (.forIn (.ident q v p) it body fp ip)
  | _ => none

mutual

def parsePosExpr : Nat → Nat → List Item → Option (PP × List Item)
  | 0, _, _ => none
  | f+1, minPrec, ts =>
    match parsePosUnary f ts with
    | some (l, r) => parsePosBinRest f minPrec l r
    | none => none

def parsePosBinRest : Nat → Nat → PP → List Item → Option (PP × List Item)
  | 0, _, _, _ => none
  | f+1, minPrec, l, ts =>
    match ts with
    | [] => some (l, ts)
    | i :: rest =>
      match binOf i.typ with
      | some (p, op) =>
        if p ≥ minPrec then
          match parsePosExpr f (p + 1) (skipE rest) with
          | some (rhs, r2) =>
            match mkBinP op i.pos l rhs with
            | some e => parsePosBinRest f minPrec e r2
            | none => none
          | none => none
        else some (l, ts)
      | none => some (l, ts)

def parsePosUnary : Nat → List Item → Option (PP × List Item)
  | 0, _ => none
  | f+1, ts =>
    match ts with
    | [] => none
    | i :: rest =>
      match unOf i.typ with
      | some op =>
        match parsePosUnary f rest with
        | some (e, r) => some (mkUnaryP op i e, r)
        | none => none
      | none => parsePosPrimary f ts

def parsePosPrimary : Nat → List Item → Option (PP × List Item)
  | 0, _ => none
  | f+1, ts =>
    match ts with
    | [] => none
    | i :: r =>
      match i.typ with
      | .ID => parsePosAfterIdent f false i.val i.pos r
      | .QUOTED_STRING =>
        if (Unq.unquote i.val).isSome then parsePosAfterIdent f true i.val i.pos r else none
      | .DOT =>
        match expect .LEFT_BRACKET r with
        | some r1 =>
          match parsePosExpr f 1 (skipE r1) with
          | some (e, r2) =>
            match expect .RIGHT_BRACKET (skipE r2) with
            | some r3 =>
              match parsePosIndexChain f [e] [hp r] [hp (skipE r2)] r3 with
              | some (ic, r4) => parsePosAttrChain f (.index none ic.1 ic.2.1 ic.2.2) r4
              | none => none
            | none => none
          | none => none
        | none => none
      | .NUMBER => parsePosSliceChain f (.num false i.val i.pos .NUMBER) r
      | .TRUE => parsePosSliceChain f (.bool true i.pos) r
      | .FALSE => parsePosSliceChain f (.bool false i.pos) r
      | .NIL => parsePosSliceChain f (.nil i.pos .NIL) r
      | .NULL => parsePosSliceChain f (.nil i.pos .NULL) r
      | .STRING => if strOK false i.val then parsePosSliceChain f (.str false i.val i.pos) r else none
      | .MULTILINE_STRING =>
        if strOK true i.val then parsePosSliceChain f (.str true i.val i.pos) r else none
      | .LEFT_BRACKET =>
        let r1 := skipE r
        if tk r1 = .RIGHT_BRACKET then parsePosSliceChain f (.list [] i.pos (hp r1)) (r1.drop 1)
        else match parsePosListElems f [] r1 with
          | some (xr, r2) => parsePosSliceChain f (.list xr.1 i.pos xr.2) r2
          | none => none
      | .LEFT_BRACE =>
        let r1 := skipE r
        if tk r1 = .RIGHT_BRACE then some (.map [] i.pos (hp r1), r1.drop 1)
        else match parsePosMapElems f [] r1 with
          | some (kr, r2) => some (.map kr.1 i.pos kr.2, r2)
          | none => none
      | .LEFT_PAREN =>
        match parsePosExpr f 1 (skipE r) with
        | some (e, r2) =>
          match expect .RIGHT_PAREN (skipE r2) with
          | some r3 => some (.paren e i.pos (hp (skipE r2)), r3)
          | none => none
        | none => none
      | _ => none

/-- after `identifier` (whose token is at `p`) -/
def parsePosAfterIdent : Nat → Bool → Bytes → Nat → List Item → Option (PP × List Item)
  | 0, _, _, _, _ => none
  | f+1, q, v, p, r =>
    match tk r with
    | .LEFT_PAREN =>
      let r1 := skipE (r.drop 1)
      if tk r1 = .RIGHT_PAREN then parsePosSliceChain f (.call q v [] p (hp r) (hp r1)) (r1.drop 1)
      else match parsePosArgs f [] r1 with
        | some (ar, r2) => parsePosSliceChain f (.call q v ar.1 p (hp r) ar.2) r2
        | none => none
    | .LEFT_BRACKET =>
      let r1 := skipE (r.drop 1)
      if tk r1 = .COLON then
        match parsePosSliceBody f none r1 with
        | some (sl, r2) =>
          match mkSliceP (.ident q v p) sl.1 sl.2.1 sl.2.2.1 sl.2.2.2.1 (hp r) sl.2.2.2.2 with
          | some s => parsePosSliceChain f s r2
          | none => none
        | none => none
      else match parsePosExpr f 1 r1 with
        | some (e, r2) =>
          if tk r2 = .COLON then
            match parsePosSliceBody f (some e) r2 with
            | some (sl, r3) =>
              match mkSliceP (.ident q v p) sl.1 sl.2.1 sl.2.2.1 sl.2.2.2.1 (hp r) sl.2.2.2.2 with
              | some s => parsePosSliceChain f s r3
              | none => none
            | none => none
          else match expect .RIGHT_BRACKET (skipE r2) with
            | some r3 =>
              match parsePosIndexChain f [e] [hp r] [hp (skipE r2)] r3 with
              | some (ic, r4) => parsePosAttrChain f (.index (some (q, v, p)) ic.1 ic.2.1 ic.2.2) r4
              | none => none
            | none => none
        | none => none
    | .DOT => parsePosAttrChain f (.ident q v p) r
    | _ => some (.ident q v p, r)

/-- the accumulators are the indices and the offsets of their `[` and `]` so far -/
def parsePosIndexChain : Nat → List PP → List Nat → List Nat → List Item →
    Option ((List PP × List Nat × List Nat) × List Item)
  | 0, _, _, _, _ => none
  | f+1, acc, lbs, rbs, ts =>
    if tk ts = .LEFT_BRACKET then
      match parsePosExpr f 1 (skipE (ts.drop 1)) with
      | some (e, r2) =>
        match expect .RIGHT_BRACKET (skipE r2) with
        | some r3 => parsePosIndexChain f (acc ++ [e]) (lbs ++ [hp ts]) (rbs ++ [hp (skipE r2)]) r3
        | none => none
      | none => none
    else some ((acc, lbs, rbs), ts)

/-- `newAttrExpr`: `Start` is `NodeStartPos` of the object -/
def parsePosAttrChain : Nat → PP → List Item → Option (PP × List Item)
  | 0, _, _ => none
  | f+1, obj, ts =>
    if tk ts = .DOT then
      match parsePosAttrY f (ts.drop 1) with
      | some (y, r) => parsePosAttrChain f (.attr obj y obj.start) r
      | none => none
    else some (obj, ts)

def parsePosAttrY : Nat → List Item → Option (PP × List Item)
  | 0, _ => none
  | f+1, ts =>
    match ts with
    | [] => none
    | i :: r =>
      match i.typ with
      | .ID => parsePosAttrYIdx f (some (false, i.val, i.pos)) r
      | .QUOTED_STRING =>
        if (Unq.unquote i.val).isSome then parsePosAttrYIdx f (some (true, i.val, i.pos)) r else none
      | .DOT => if tk r = .LEFT_BRACKET then parsePosAttrYIdx f none r else none
      | _ => none

def parsePosAttrYIdx : Nat → Option (Bool × Bytes × Nat) → List Item → Option (PP × List Item)
  | 0, _, _ => none
  | f+1, nm, r =>
    if tk r = .LEFT_BRACKET then
      match parsePosIndexChain f [] [] [] r with
      | some (ic, r2) => some (.index nm ic.1 ic.2.1 ic.2.2, r2)
      | none => none
    else match nm with
      | some (q, v, p) => some (.ident q v p, r)
      | none => none

def parsePosSliceChain : Nat → PP → List Item → Option (PP × List Item)
  | 0, _, _ => none
  | f+1, obj, ts =>
    if tk ts = .LEFT_BRACKET then
      let r1 := skipE (ts.drop 1)
      if tk r1 = .COLON then
        match parsePosSliceBody f none r1 with
        | some (sl, r2) =>
          match mkSliceP obj sl.1 sl.2.1 sl.2.2.1 sl.2.2.2.1 (hp ts) sl.2.2.2.2 with
          | some s => parsePosSliceChain f s r2
          | none => none
        | none => none
      else match parsePosExpr f 1 r1 with
        | some (e, r2) =>
          match parsePosSliceBody f (some e) r2 with
          | some (sl, r3) =>
            match mkSliceP obj sl.1 sl.2.1 sl.2.2.1 sl.2.2.2.1 (hp ts) sl.2.2.2.2 with
            | some s => parsePosSliceChain f s r3
            | none => none
          | none => none
        | none => none
    else some (obj, ts)

/-- the result also holds the offset of the closing `]` -/
def parsePosSliceBody : Nat → Option PP → List Item →
    Option ((Option PP × Option PP × Option PP × Bool × Nat) × List Item)
  | 0, _, _ => none
  | f+1, start, ts =>
    match expect .COLON ts with
    | none => none
    | some r0 =>
      let r1 := skipE r0
      let stopR : Option (Option PP × List Item) :=
        if tk r1 = .COLON || tk r1 = .RIGHT_BRACKET then some (none, r1)
        else match parsePosExpr f 1 r1 with
          | some (e, r) => some (some e, r)
          | none => none
      match stopR with
      | none => none
      | some (stop, r2) =>
        if tk r2 = .COLON then
          let r3 := skipE (r2.drop 1)
          if tk r3 = .RIGHT_BRACKET then some ((start, stop, none, true, hp r3), r3.drop 1)
          else match parsePosExpr f 1 r3 with
            | some (e, r4) =>
              match expect .RIGHT_BRACKET r4 with
              | some r5 => some ((start, stop, some e, true, hp r4), r5)
              | none => none
            | none => none
        else match expect .RIGHT_BRACKET r2 with
          | some r3 => some ((start, stop, none, false, hp r2), r3)
          | none => none

/-- the result also holds the offset of the closing `)` -/
def parsePosArgs : Nat → List PP → List Item → Option ((List PP × Nat) × List Item)
  | 0, _, _ => none
  | f+1, acc, ts =>
    match parsePosExpr f 1 ts with
    | none => none
    | some (e, r) =>
      let argR : Option (PP × List Item) :=
        match e with
        | .ident _ _ _ =>
          if tk r = .EQ then
            match parsePosExpr f 1 (skipE (r.drop 1)) with
            | some (v, r') => some (.assign .eq [e] [v] (hp r), r')
            | none => none
          else some (e, r)
        | _ => some (e, r)
      match argR with
      | none => none
      | some (arg, r') =>
        if tk r' = .COMMA then
          let r2 := skipE (r'.drop 1)
          if tk r2 = .RIGHT_PAREN then some ((acc ++ [arg], hp r2), r2.drop 1)
          else parsePosArgs f (acc ++ [arg]) r2
        else match expect .RIGHT_PAREN (skipE r') with
          | some r3 => some ((acc ++ [arg], hp (skipE r')), r3)
          | none => none

/-- the result also holds the offset of the closing `]` -/
def parsePosListElems : Nat → List PP → List Item → Option ((List PP × Nat) × List Item)
  | 0, _, _ => none
  | f+1, acc, ts =>
    match parsePosExpr f 1 ts with
    | none => none
    | some (e, r) =>
      let r1 := skipE r
      if tk r1 = .RIGHT_BRACKET then some ((acc ++ [e], hp r1), r1.drop 1)
      else if tk r1 = .COMMA then
        let r2 := skipE (r1.drop 1)
        if tk r2 = .RIGHT_BRACKET then some ((acc ++ [e], hp r2), r2.drop 1)
        else parsePosListElems f (acc ++ [e]) r2
      else none

/-- the result also holds the offset of the closing `}` -/
def parsePosMapElems : Nat → List (PP × PP) → List Item → Option ((List (PP × PP) × Nat) × List Item)
  | 0, _, _ => none
  | f+1, acc, ts =>
    match parsePosExpr f 1 ts with
    | none => none
    | some (k, r) =>
      match expect .COLON r with
      | none => none
      | some r1 =>
        match parsePosExpr f 1 (skipE r1) with
        | none => none
        | some (v, r2) =>
          if tk r2 = .COMMA then
            let r3 := skipE (r2.drop 1)
            if tk r3 = .RIGHT_BRACE then some ((acc ++ [(k, v)], hp r3), r3.drop 1)
            else parsePosMapElems f (acc ++ [(k, v)]) r3
          else match expect .RIGHT_BRACE (skipE r2) with
            | some r3 => some ((acc ++ [(k, v)], hp (skipE r2)), r3)
            | none => none

def parsePosCommaParams : Nat → List PP → List Item → Option (List PP × List Item)
  | 0, _, _ => none
  | f+1, acc, ts =>
    match parsePosExpr f 1 ts with
    | none => none
    | some (e, r) =>
      if tk r = .COMMA then parsePosCommaParams f (acc ++ [e]) (skipE (r.drop 1))
      else some (acc ++ [e], r)

def parsePosSimple : Nat → List Item → Option (PP × List Item)
  | 0, _ => none
  | f+1, ts =>
    match parsePosCommaParams f [] ts with
    | none => none
    | some (es, r) =>
      if tk r = .EQ then
        match parsePosCommaParams f [] (skipE (r.drop 1)) with
        | some (rs, r2) => some (.assign .eq es rs (hp r), r2)
        | none => none
      else match asgOf (tk r), es with
        | some op, [e] =>
          match parsePosExpr f 1 (skipE (r.drop 1)) with
          | some (v, r2) => some (.assign op [e] [v] (hp r), r2)
          | none => none
        | some _, _ => none
        | none, [e] => some (e, r)
        | none, _ => none

def parsePosBlock : Nat → List Item → Option (List PP × List Item)
  | 0, _ => none
  | f+1, ts =>
    match expect .LEFT_BRACE ts with
    | none => none
    | some r =>
      let r1 := skipE r
      if tk r1 = .RIGHT_BRACE then some ([], r1.drop 1)
      else match parsePosStmts f r1 with
        | some (ss, r2) =>
          match expect .RIGHT_BRACE r2 with
          | some r3 => some (ss, r3)
          | none => none
        | none => none

def parsePosStmts : Nat → List Item → Option (List PP × List Item)
  | 0, _ => none
  | f+1, ts =>
    if tk ts = .SEMICOLON then parsePosStmtsAfterSep f [] (skipSep ts)
    else match parsePosStmt f ts with
      | some (s, r) => parsePosStmtsTail f [s] r
      | none => none

def parsePosStmtsTail : Nat → List PP → List Item → Option (List PP × List Item)
  | 0, _, _ => none
  | f+1, acc, ts =>
    if tk ts = .SEMICOLON || tk ts = .EOL then parsePosStmtsAfterSep f acc (skipSep ts)
    else some (acc, ts)

def parsePosStmtsAfterSep : Nat → List PP → List Item → Option (List PP × List Item)
  | 0, _, _ => none
  | f+1, acc, ts =>
    if tk ts = .RIGHT_BRACE || tk ts = .EOF then some (acc, ts)
    else match parsePosStmt f ts with
      | some (s, r) => parsePosStmtsTail f (acc ++ [s]) r
      | none => none

def parsePosStmt : Nat → List Item → Option (PP × List Item)
  | 0, _ => none
  | f+1, ts =>
    match ts with
    | [] => none
    | i :: r =>
      match i.typ with
      | .IF =>
        match parsePosExpr f 1 r with
        | some (c, r1) =>
          match parsePosBlock f r1 with
          | some (b, r2) => parsePosElifs f [(i.pos, c, b)] r2
          | none => none
        | none => none
      | .FOR => parsePosFor f i.pos r
      | .BREAK => some (.brk i.pos, r)
      | .CONTINUE => some (.cont i.pos, r)
      | _ => parsePosSimple f ts

/-- every element with the offset of its `if`/`elif` keyword; the else block with that of `else` -/
def parsePosElifs : Nat → List (Nat × PP × List PP) → List Item → Option (PP × List Item)
  | 0, _, _ => none
  | f+1, acc, ts =>
    if tk ts = .ELIF then
      match parsePosExpr f 1 (ts.drop 1) with
      | some (c, r1) =>
        match parsePosBlock f r1 with
        | some (b, r2) => parsePosElifs f (acc ++ [(hp ts, c, b)]) r2
        | none => none
      | none => none
    else if tk ts = .ELSE then
      match parsePosBlock f (ts.drop 1) with
      | some (b, r2) => some (.ifelse acc (some (hp ts, b)), r2)
      | none => none
    else some (.ifelse acc none, ts)

/-- after FOR (whose token is at `fp`) -/
def parsePosFor : Nat → Nat → List Item → Option (PP × List Item)
  | 0, _, _ => none
  | f+1, fp, ts =>
    if tk ts = .SEMICOLON then parsePosForRest f fp none (ts.drop 1)
    else match parsePosSimple f ts with
      | none => none
      | some (s, r) =>
        if tk r = .LEFT_BRACE then
          match parsePosBlock f r with
          | some (b, r2) =>
            match mkForInP fp s b with
            | some st => some (st, r2)
            | none => none
          | none => none
        else match expect .SEMICOLON r with
          | some r1 => parsePosForRest f fp (some s) r1
          | none => none

def parsePosForRest : Nat → Nat → Option PP → List Item → Option (PP × List Item)
  | 0, _, _, _ => none
  | f+1, fp, init, ts =>
    let condR : Option (Option PP × List Item) :=
      if tk ts = .SEMICOLON then some (none, ts)
      else match parsePosExpr f 1 ts with
        | some (c, r) => some (some c, r)
        | none => none
    match condR with
    | none => none
    | some (cond, r) =>
      match expect .SEMICOLON r with
      | none => none
      | some r1 =>
        let asBlock : Option (List PP × List Item) :=
          if tk r1 = .LEFT_BRACE then
            match parsePosBlock f r1 with
            | some (b, r2) => if stmtEnd (tk r2) then some (b, r2) else none
            | none => none
          else none
        match asBlock with
        | some (b, r2) => some (.forS init cond none b fp, r2)
        | none =>
          match parsePosSimple f r1 with
          | some (l, r2) =>
            match parsePosBlock f r2 with
            | some (b, r3) => some (.forS init cond (some l) b fp, r3)
            | none => none
          | none => none

end

/-- `parseItems` with positions -/
def parsePosItems (its : List Item) : Option (List PP) :=
  if its.any (fun i => i.typ = .ERROR) then none
  else
    let ts := its.filter (fun i => i.typ ≠ .COMMENT)
    let r0 := skipE ts
    if tk r0 = .EOF then (if tk ts = .EOL then some [] else none)
    else match parsePosStmts (16 * ts.length + 64) r0 with
      | some (ss, r) => if tk r = .EOF then some ss else none
      | none => none

/-- `ParsePipeline` on the source text, with positions -/
def parsePos (src : Bytes) : Option (List PP) := parsePosItems (Lex.lexAll src)

end Platypus.ParsePos
