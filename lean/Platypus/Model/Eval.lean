import Platypus.Model.Machine
import Platypus.Model.Slice
/-!
The v1 expression evaluator (RunStmt's expression cases of runtime.go) and the builtin functions
of pkg/inimpl/guancecloud/funcs, on top of the generic statement machine.
Engines (float/JSON text, sprintf, regexp, url, grok, xml, time, sql) are oracle queries.
-/
namespace Platypus

def nilTV : TV := ⟨.nil, .nil⟩
def invTV : TV := ⟨.nil, .invalid⟩
def B (s : String) : Bytes := bytesOf s

/-! ### engines -/
def ask (env : Env) (q : Bytes) : EM Bytes := fun s =>
  match env.oracle q with
  | some a => .ok a s
  | none => .need q

/-- answers are `ok:<payload>` or `err:<text>` -/
def splitAnswer (a : Bytes) : Bool × Bytes :=
  match a with
  | 111 :: 107 :: 58 :: r => (true, r)      -- "ok:"
  | _ => (false, a.drop 4)

def unhexNib (c : UInt8) : UInt8 :=
  if 48 ≤ c && c ≤ 57 then c - 48 else if 97 ≤ c && c ≤ 102 then c - 87 else 0
def unhex : Bytes → Bytes
  | a :: b :: r => (unhexNib a * 16 + unhexNib b) :: unhex r
  | _ => []

/-- cast.ToString -/
def castToString (env : Env) : Val → EM Bytes
  | .str s => pure s
  | .int i => pure (decInt i)
  | .bool b => pure (if b then B "true" else B "false")
  | .nil => pure []
  | .float f => do
    let a ← ask env (B "fmtf:" ++ decNat f.toNat)
    pure (unhex (splitAnswer a).2)
  | .ref _ => pure []

/-- runtime.Conv2String: none = error -/
def conv2str (env : Env) (x : TV) : EM (Option Bytes) := do
  match x.t with
  | .int | .float | .bool | .str => some <$> castToString env x.v
  | .list | .map =>
    let s ← getS
    let a ← ask env (B "json:" ++ renderV s.world.heap x.v)
    let (ok, p) := splitAnswer a
    pure (if ok then some (unhex p) else none)
  | .nil => pure (some [])
  | _ => pure none

/-! ### key names (funcs.getKeyName) -/
mutual
/-- `(*Node).String()` for the node kinds that can occur in key positions; none = unmodelled -/
def nodeStr : Nat → Node → Option Bytes
  | 0, _ => none
  | _, .ident n _ => some n
  | _, .intLit v _ => some (decInt v)
  | _, .strLit v _ => some ([39] ++ v ++ [39])
  | _, .boolLit v _ => some (if v then B "true" else B "false")
  | _, .nilLit _ => some (B "nil")
  | f+1, .attr (some o) (some a) _ => do
    let so ← nodeStr f o
    let sa ← nodeStr f a
    pure (so ++ [46] ++ sa)
  | f+1, .attr none (some a) _ => nodeStr f a
  | f+1, .index obj idx _ _ => do
    let base := match obj with | some (n, _) => n | none => []
    let parts ← idxStr f idx
    pure (base ++ parts)
  | _, _ => none
def idxStr : Nat → List Node → Option Bytes
  | 0, _ => none
  | _, [] => some []
  | f+1, i :: r => do
    let si ← nodeStr f i
    let sr ← idxStr f r
    pure ([91] ++ si ++ [93] ++ sr)
end

inductive KeyName | ok (k : Bytes) | bad | unmodelled

def getKeyName (n : Node) : KeyName :=
  match n with
  | .ident name _ => .ok name
  | .strLit v _ => .ok v
  | .attr _ _ _ => match nodeStr 64 n with | some k => .ok k | none => .unmodelled
  | _ => .bad

/-! ### heap walks (searchListAndMap / changeListOrMapValue) -/
def listIndex (len : Nat) (k : Int) : Option Nat :=
  let k' := if k < 0 then (len : Int) + k else k
  if k' < 0 ∨ k' ≥ len then none else some k'.toNat

/-- the registered functions the model knows -/
inductive Fn
  | exit | addKey | getKey | setTag | dropKey | rename | setMeasurement | len | use | cast
  | trim | uppercase | urlDecode | replace | loadJson | strfmt | printf | p | pr | void
  | grok | addPattern | datetime | defaultTime | xml | sqlCover
  deriving DecidableEq, Repr, Inhabited

def Fn.ofName (name : Bytes) : Option Fn :=
  if name = B "exit" then some .exit else if name = B "add_key" then some .addKey
  else if name = B "get_key" then some .getKey else if name = B "set_tag" then some .setTag
  else if name = B "drop_key" then some .dropKey else if name = B "rename" then some .rename
  else if name = B "set_measurement" then some .setMeasurement else if name = B "len" then some .len
  else if name = B "use" then some .use else if name = B "cast" then some .cast
  else if name = B "trim" then some .trim else if name = B "uppercase" then some .uppercase
  else if name = B "url_decode" then some .urlDecode else if name = B "replace" then some .replace
  else if name = B "load_json" then some .loadJson else if name = B "strfmt" then some .strfmt
  else if name = B "printf" then some .printf else if name = B "p" then some .p
  else if name = B "pr" then some .pr else if name = B "void" then some .void
  else if name = B "grok" then some .grok else if name = B "add_pattern" then some .addPattern
  else if name = B "datetime" then some .datetime else if name = B "default_time" then some .defaultTime
  else if name = B "xml" then some .xml else if name = B "sql_cover" then some .sqlCover
  else none

section
variable (env : Env)

mutual
/-- `RunStmt` -/
def evalNode : Nat → Node → EM TV
  | 0, _ => outOfFuel
  | f+1, n => match n with
    | .paren e _ _ => evalNode f e
    | .intLit v _ => pure ⟨.int v, .int⟩
    | .floatLit b _ => pure ⟨.float b, .float⟩
    | .boolLit b _ => pure ⟨.bool b, .bool⟩
    | .strLit s _ => pure ⟨.str s, .str⟩
    | .nilLit _ => pure nilTV
    | .attr _ _ _ => pure voidTV
    | .ident name _ => do
      let s ← getS
      match getKey s name with
      | some v => pure v
      | none => pure nilTV
    | .unary op e p => do
      let v ← evalNode f e
      let s ← getS
      match unop s.world.heap op v with
      | .ok r => pure r
      | .error m => runErr p m
    | .arith op l r p => do
      let a ← evalNode f l
      let b ← evalNode f r
      match arith op a b with
      | .ok v => pure v
      | .error m => runErr p m
    | .cond op l r p => do
      let a ← evalNode f l
      if a.t = .bool ∧ op = .or ∧ a.v.toBool then return ⟨.bool true, .bool⟩
      if a.t = .bool ∧ op = .and ∧ !a.v.toBool then return ⟨.bool false, .bool⟩
      let b ← evalNode f r
      let s ← getS
      match condOp s.world.heap op a b with
      | .ok v => pure v
      | .error m => runErr p m
    | .inE l r p => do
      let a ← evalNode f l
      let b ← evalNode f r
      let s ← getS
      match inOp s.world.heap a b with
      | .ok v => pure v
      | .error m => runErr p m
    | .list xs _ _ => do
      let vs ← evalList f xs
      let s ← getS
      let (h, a) := s.world.heap.alloc (.list (vs.map (·.v)))
      modWorld fun w => { w with heap := h }
      pure ⟨.ref a, .list⟩
    | .map kvs _ _ => do
      let m ← evalMapLit f kvs []
      let s ← getS
      let (h, a) := s.world.heap.alloc (.map m)
      modWorld fun w => { w with heap := h }
      pure ⟨.ref a, .map⟩
    | .index obj idx _ _ =>
      match obj with
      | none => runErr (Node.start n) "index-no-object"
      | some (name, p) => do
        let s ← getS
        match getKey s name with
        | none => runErr p "key-not-found"
        | some v =>
          match v.t, v.v with
          | .list, .ref a | .map, .ref a =>
            (match s.world.heap.get? a, v.t with
             | some (.list _), .list | some (.map _), .map => searchLM f (.ref a) idx
             | _, _ => runErr p "unsupported-type")
          | .list, _ | .map, _ => runErr p "unsupported-type"
          | _, _ => runErr p "unindexable-type"
    | .slice obj st en sp _ _ _ => evalSlice f obj st en sp
    | .assign op lhs rhs p => evalAssign f op lhs rhs p
    | .call name args np _ _ site => evalCall f name args np site
    | .ifelse _ _ _ | .forS _ _ _ _ _ | .forIn _ _ _ _ _ | .brk _ | .cont _ =>
      runStmt env (evalNode f) f n

def evalList : Nat → List Node → EM (List TV)
  | 0, _ => outOfFuel
  | _, [] => pure []
  | f+1, x :: r => do
    let v ← evalNode f x
    let vs ← evalList f r
    pure (v :: vs)

/-- RunMapInitExpr -/
def evalMapLit : Nat → List (Node × Node) → List (Bytes × Val) → EM (List (Bytes × Val))
  | 0, _, _ => outOfFuel
  | _, [], acc => pure acc
  | f+1, (k, v) :: r, acc => do
    let kv ← evalNode f k
    match kv.v with
    | .str key =>
      let vv ← evalNode f v
      match vv.t with
      | .str | .bool | .float | .int | .nil | .list | .map => evalMapLit f r (aset key vv.v acc)
      | _ => runErr (Node.start v) "map-value-type"
    | _ => runErr (Node.start k) "map-key-type"

/-- searchListAndMap -/
def searchLM : Nat → Val → List Node → EM TV
  | 0, _, _ => outOfFuel
  | _, cur, [] => do
    let s ← getS
    pure (detect s.world.heap cur)
  | f+1, cur, i :: r => do
    let k ← evalNode f i
    let s ← getS
    match cur with
    | .ref a =>
      match s.world.heap.get? a with
      | some (.map kvs) =>
        if k.t ≠ .str then runErr (Node.start i) "key-not-string"
        else match k.v with
          | .str key => (match alookup key kvs with
            | some v => searchLM f v r
            | none => pure nilTV)
          | _ => panicE "key.(string)"
      | some (.list xs) =>
        if k.t ≠ .int then runErr (Node.start i) "key-not-int"
        else match listIndex xs.length k.v.toI64 with
          | some j => searchLM f (xs.getD j .nil) r
          | none => runErr (Node.start i) "index-out-of-range"
      | none => runErr (Node.start i) "not-found"
    | _ => runErr (Node.start i) "not-found"

/-- changeListOrMapValue -/
def changeLM : Nat → Val → List Node → TV → EM TV
  | 0, _, _, _ => outOfFuel
  | _, _, [], _ => pure nilTV
  | f+1, cur, i :: r, val => do
    let k ← evalNode f i
    let s ← getS
    match cur with
    | .ref a =>
      match s.world.heap.get? a with
      | some (.map kvs) =>
        if k.t ≠ .str then runErr (Node.start i) "key-not-string"
        else match k.v with
          | .str key =>
            if r.isEmpty then do
              modWorld fun w => { w with heap := w.heap.set a (.map (aset key val.v kvs)) }
              pure val
            else (match alookup key kvs with
              | some v => changeLM f v r val
              | none => runErr (Node.start i) "key-not-found")
          | _ => panicE "key.(string)"
      | some (.list xs) =>
        if k.t ≠ .int then runErr (Node.start i) "key-not-int"
        else match listIndex xs.length k.v.toI64 with
          | some j =>
            if r.isEmpty then do
              modWorld fun w => { w with heap := w.heap.set a (.list (xs.set j val.v)) }
              pure val
            else changeLM f (xs.getD j .nil) r val
          | none => runErr (Node.start i) "index-out-of-range"
      | none => runErr (Node.start i) "not-map-or-list"
    | _ => runErr (Node.start i) "not-map-or-list"

/-- RunSliceExpr -/
def evalSlice : Nat → Node → Option Node → Option Node → Option Node → EM TV
  | 0, _, _, _, _ => outOfFuel
  | f+1, obj, st, en, sp => do
    let o ← evalNode f obj
    let sv ← (match st with | some e => some <$> evalNode f e | none => pure none)
    let ev ← (match en with | some e => some <$> evalNode f e | none => pure none)
    let pv ← (match sp with | some e => some <$> evalNode f e | none => pure none)
    let s ← getS
    let h := s.world.heap
    -- length, with the unchecked assertions obj.(string) / obj.([]any)
    let len? : Option (Option Nat) :=
      match o.t with
      | .str => (match o.v with | .str b => some (some b.length) | _ => some none)
      | .list => (match o.v with
          | .ref a => (match h.get? a with | some (.list xs) => some (some xs.length) | _ => some none)
          | _ => some none)
      | _ => none
    match len? with
    | none => runErr (Node.start obj) "slice-obj-type"
    | some none => panicE "slice obj type assertion"
    | some (some len) =>
      -- a sequence of 2^62 or more elements cannot exist in memory: outside the model (like fuel)
      if (len : Int) ≥ 4611686018427387904 then outOfFuel else
      -- a bound whose *value* is nil counts as omitted (`if step != nil`)
      let bound (x : Option TV) (e : Option Node) (what : String) : EM (Option Int) :=
        match x with
        | none => pure none
        | some tv =>
          if tv.v = .nil then pure none
          else if tv.t ≠ .int then runErr ((e.map Node.start).getD Pos.invalid) (what ++ "-not-int")
          else pure (some tv.v.toI64)
      let stepI ← bound pv sp "step"
      if stepI = some 0 then runErr ((sp.map Node.start).getD Pos.invalid) "step-zero" else
      let startI ← bound sv st "start"
      let endI ← bound ev en "end"
      let idxs := Slice.indices len startI endI stepI
      match o.v with
      | .str b => pure ⟨.str (idxs.map fun i => b.getD i.toNat 0), .str⟩
      | .ref a =>
        match h.get? a with
        | some (.list xs) =>
          if idxs.any (fun i => i < 0 ∨ i ≥ xs.length) then panicE "slice index out of range" else
          let (h', a') := h.alloc (.list (idxs.map fun i => xs.getD i.toNat .nil))
          modWorld fun w => { w with heap := h' }
          pure ⟨.ref a', .list⟩
        | _ => panicE "slice obj"
      | _ => panicE "slice obj"

/-- RunAssignmentExpr -/
def evalAssign : Nat → AsOp → List Node → List Node → Pos → EM TV
  | 0, _, _, _, _ => outOfFuel
  | f+1, op, lhs, rhs, p =>
    match lhs, rhs with
    | [l], [r] => do
      let rv ← evalNode f r
      match l with
      | .ident name _ =>
        match op.arith with
        | none => do setVarb name rv; pure rv
        | some aop => do
          let s ← getS
          match getKey s name with
          | none => pure nilTV
          | some lv =>
            match arith aop lv rv with
            | .ok v => do setVarb name v; pure v
            | .error m => runErr p m
      | .index obj idx _ _ =>
        match obj with
        | none => runErr (Node.start l) "index-no-object"
        | some (name, op') => do
          let s ← getS
          match getKey s name with
          | none => runErr op' "key-not-found"
          | some base =>
            match op.arith with
            | none => changeLM f base.v idx rv
            | some aop => do
              let cur ← searchLM f base.v idx
              match arith aop cur rv with
              | .ok v => changeLM f base.v idx v
              | .error m => runErr p m
      | _ => pure voidTV
    | _, _ => runErr p "multi-assign"

/-- RunCallExpr: look the function up, run it, take R0, always reset the registers -/
def evalCall : Nat → Bytes → List Node → Pos → Nat → EM TV
  | 0, _, _, _, _ => outOfFuel
  | f+1, name, args, np, site => fun s =>
    let reset (s : St) : St := { s with task := { s.task with regs := [] } }
    if !env.fns.contains name then .ok voidTV (reset s)
    else
      match (match Fn.ofName name with
             | some fn => builtin f fn name args np site s
             | none => .need (B "unmodelled:fn:" ++ name)) with
      | .ok _ s' =>
        let r := match s'.task.regs with | x :: _ => x | [] => voidTV
        .ok r (reset s')
      | .err e s' => .err e (reset s')
      | .panic m => .panic m
      | .fuel => .fuel
      | .need q => .need q

/-- the registered functions -/
def builtin : Nat → Fn → Bytes → List Node → Pos → Nat → EM Unit
  | 0, _, _, _, _, _ => outOfFuel
  | f+1, fn, name, args, np, site =>
    let ret (x : TV) : EM Unit := modTask fun t => { t with regs := if t.regs.length < 6 then t.regs ++ [x] else t.regs }
    let keyOf (n : Node) : EM Bytes :=
      match getKeyName n with
      | .ok k => pure k
      | .bad => runErr (Node.start n) "key-name"
      | .unmodelled => needE (B "unmodelled:keyname")
    let setPt (key : Bytes) (x : TV) : EM Unit := do
      let cs ← (match x.t with
        | .list | .map => conv2str env x
        | _ => pure none)
      -- tags need the text for every type
      let s ← getS
      let key := normKey key
      let isTag := match alookup key s.world.pt.idx with | some (_, true) => true | _ => false
      let cs ← (if isTag then conv2str env x else pure cs)
      modWorld fun w => { w with pt := w.pt.set key x cs }
    let setPtTag (key : Bytes) (x : TV) : EM Unit := do
      let cs ← conv2str env x
      modWorld fun w => { w with pt := w.pt.setTag (normKey key) cs }
    match fn with
    | .exit => modTask fun t => { t with exit := true }
    | .addKey =>
      match args with
      | [k] => do
        let key ← keyOf k
        let s ← getS
        match getKey s key with
        | none => pure ()
        | some v => setPt key v
      | [k, e] => do
        let key ← keyOf k
        let v ← (fun s => match evalNode f e s with
          | .err er s' => .err (er.append s'.task.name np) s'
          | r => r)
        setPt key v
      | _ => runErr np "argc"
    | .getKey =>
      match args with
      | [k] => do
        let key ← keyOf k
        let s ← getS
        match s.world.pt.get (normKey key) with
        | some v => ret v
        | none => ret nilTV
      | _ => runErr np "argc"
    | .setTag =>
      match args with
      | [k] => do
        let key ← keyOf k
        let s ← getS
        match getKey s key with
        | none => setPtTag key ⟨.str [], .str⟩
        | some v => setPtTag key v
      | [k, e] => do
        let key ← keyOf k
        let v ← evalNode f e
        setPtTag key v
      | _ => runErr np "argc"
    | .dropKey =>
      match args with
      | [k] => do
        let key ← keyOf k
        modWorld fun w => { w with pt := w.pt.delete (normKey key) }
      | _ => runErr np "argc"
    | .rename =>
      match args with
      | [t, fr] => do
        let to ← keyOf t
        let frm ← keyOf fr
        modWorld fun w => { w with pt := w.pt.rename (normKey to) (normKey frm) }
      | _ => runErr np "argc"
    | .setMeasurement =>
      match args with
      | a0 :: rest =>
        if rest.length > 1 then runErr np "argc" else fun s =>
        match evalNode f a0 s with
        | .err _ s' => .ok () s'          -- `if err != nil { return nil }`
        | .ok v s' =>
          let s1 : St := match v.t, v.v with
            | .str, .str m => { s' with world := { s'.world with pt := { s'.world.pt with meas := m } } }
            | _, _ => s'
          let del : Option Bytes := match rest with
            | [.boolLit true _] => (match a0 with
              | .ident _ _ | .attr _ _ _ => (match getKeyName a0 with | .ok k => some k | _ => none)
              | _ => none)
            | _ => none
          (match del with
           | some k => .ok () { s1 with world := { s1.world with pt := s1.world.pt.delete (normKey k) } }
           | none => .ok () s1)
        | r => (match r with | .panic m => .panic m | .fuel => .fuel | .need q => .need q | _ => .fuel)
      | _ => runErr np "argc"
    | .len =>
      match args with
      | a0 :: _ => do
        let v ← evalNode f a0
        let s ← getS
        let h := s.world.heap
        match v.t with
        | .map => (match v.v with
          | .ref a => (match h.get? a with
            | some (.map kvs) => ret ⟨.int kvs.length, .int⟩
            | _ => panicE "len: val.(map[string]any)")
          | _ => panicE "len: val.(map[string]any)")
        | .list => (match v.v with
          | .ref a => (match h.get? a with
            | some (.list xs) => ret ⟨.int xs.length, .int⟩
            | _ => panicE "len: val.([]any)")
          | _ => panicE "len: val.([]any)")
        | .str => (match v.v with
          | .str b => ret ⟨.int b.length, .int⟩
          | _ => panicE "len: val.(string)")
        | _ => ret ⟨.int 0, .int⟩
      | [] => panicE "len: Param[0]"
    | .use =>
      match args with
      | [.strLit _ _] =>
        match env.bound site with
        | none => pure ()                 -- PrivateData == nil: "script not found", silently ignored
        | some (cname, stmts) => fun s =>
          -- RefRun: fresh task (own scopes and flags), same point, heap and signal
          let callee : Task := { name := cname, scopes := [[]] }
          match runStmts env (evalNode f) f stmts { task := callee, world := s.world } with
          | .ok _ s' => .ok () { task := s.task, world := s'.world }
          | .err e s' => .err (e.append s.task.name np) { task := s.task, world := s'.world }
          | .panic m => .panic m
          | .fuel => .fuel
          | .need q => .need q
      | [a0] => runErr (Node.start a0) "use-arg"
      | _ => runErr np "argc"
    | .cast =>
      match args with
      | [k, .strLit ty _] => do
        let key ← keyOf k
        let s ← getS
        match getKey s key with
        | none => pure ()
        | some v =>
          -- doCast(v.Value, castType)
          let lty := ty.map fun c => if 65 ≤ c && c ≤ 90 then c + 32 else c
          let kind : Option DType :=
            if lty = B "bool" then some .bool else if lty = B "int" then some .int
            else if lty = B "float" then some .float else if lty = B "str" ∨ lty = B "string" then some .str else none
          match kind with
          | none => setPt key nilTV
          | some t =>
            match t, v.v with
            | .int, .int i => setPt key ⟨.int i, .int⟩
            | _, _ => do
              let a ← ask env (B "cast:" ++ B t.name ++ [58] ++ renderV s.world.heap v.v)
              match unrender 8 [] (unhex (splitAnswer a).2) with
              | some (r, _, _) =>
                -- the conversion engine answers with a value of the requested type
                let typed := match t, r with
                  | .str, .str _ | .int, .int _ | .float, .float _ | .bool, .bool _ => true
                  | _, _ => false
                if typed then setPt key ⟨r, t⟩ else needE (B "unmodelled:cast-answer-type")
              | none => needE (B "unmodelled:cast-answer")
      | [_, a1] => runErr (Node.start a1) "cast-type-arg"
      | _ => runErr np "argc"
    | .trim | .uppercase | .urlDecode =>
      match args with
      | k :: rest => do
        let key ← keyOf k
        let s ← getS
        -- ctx.GetKeyConv2Str(key): missing key is a silent no-op
        match getKey s key with
        | none => pure ()
        | some v =>
          match (← conv2str env v) with
          | none => pure ()
          | some cont =>
            let q : Bytes :=
              if fn = .trim then
                let cut := match rest with | [.strLit c _] => c | _ => []
                B "trim:" ++ hexOf cut ++ [58] ++ hexOf cont
              else if fn = .uppercase then B "upper:" ++ hexOf cont
              else B "urldecode:" ++ hexOf cont
            let a ← ask env q
            let (ok, payload) := splitAnswer a
            if ok then setPt key ⟨.str (unhex payload), .str⟩
            else runErr np "engine-error"
      | [] => panicE "Param[0]"
    | .replace =>
      match args with
      | [k, .strLit pat _, .strLit rep _] => do
        let key ← keyOf k
        -- the pattern is compiled before the key is looked up
        let c ← ask env (B "regexcompile:" ++ hexOf pat)
        if !(splitAnswer c).1 then runErr (Node.start (args.getD 1 k)) "regex-compile" else
        let s ← getS
        match getKey s key with
        | none => pure ()
        | some v =>
          match (← conv2str env v) with
          | none => pure ()
          | some cont =>
            let a ← ask env (B "regexreplace:" ++ hexOf pat ++ [58] ++ hexOf rep ++ [58] ++ hexOf cont)
            setPt key ⟨.str (unhex (splitAnswer a).2), .str⟩
      | [_, a1, a2] =>
        (match a1 with
         | .strLit _ _ => runErr (Node.start a2) "replace-arg"
         | _ => runErr (Node.start a1) "replace-arg")
      | _ => runErr np "argc"
    | .loadJson =>
      match args with
      | a0 :: _ => do
        let v ← evalNode f a0
        if v.t ≠ .str then runErr (Node.start a0) "load_json-type" else
        match v.v with
        | .str txt =>
          let a ← ask env (B "jsonload:" ++ hexOf txt)
          let (ok, payload) := splitAnswer a
          if !ok then runErr (Node.start a0) "json-syntax" else
          let s ← getS
          match unrender 4000 s.world.heap (unhex payload) with
          | some (r, h', _) =>
            modWorld fun w => { w with heap := h' }
            ret (detect h' r)
          | none => needE (B "unmodelled:jsonload-answer")
        | _ => panicE "val.(string)"
      | [] => panicE "Param[0]"
    | .strfmt =>
      match args with
      | k :: (.strLit fmts _) :: rest => do
        let key ← keyOf k
        let vs ← evalList f rest
        let s ← getS
        -- a value that contains itself cannot be formatted: error at the first such argument
        match (rest.zip vs).find? (fun (nx : Node × TV) => containsItself s.world.heap nx.2.v) with
        | some nx => runErr (Node.start nx.1) "formats-a-value-that-contains-itself"
        | none =>
        let q := B "sprintf:" ++ hexOf fmts ++ [58] ++
          (vs.foldl (fun (acc : Bytes) (x : TV) => acc ++ renderV s.world.heap x.v ++ [59]) [])
        let a ← ask env q
        setPt key ⟨.str (unhex (splitAnswer a).2), .str⟩
      | _ :: a1 :: _ => runErr (Node.start a1) "strfmt-fmt-arg"
      | _ => runErr np "argc"
    | .printf =>
      match args with
      | a0 :: rest => fun s =>
        -- getArgStr: an evaluation error or a non-string format means "print nothing"
        match evalNode f a0 s with
        | .ok v s1 =>
          (match v.t, v.v with
           | .str, .str fmts =>
             if fmts.isEmpty then .ok () s1 else
             (do
               let vs ← evalList f rest
               let st ← getS
               match (rest.zip vs).find? (fun (nx : Node × TV) => containsItself st.world.heap nx.2.v) with
               | some nx => runErr (Node.start nx.1) "formats-a-value-that-contains-itself"
               | none =>
               let q := B "sprintf:" ++ hexOf fmts ++ [58] ++ (vs.foldl (fun (acc : Bytes) (x : TV) => acc ++ renderV st.world.heap x.v ++ [59]) [])
               let a ← ask env q
               modWorld fun w => { w with trace := Event.out (unhex (splitAnswer a).2) :: w.trace }) s1
           | _, _ => .ok () s1)
        | .err _ s1 => .ok () s1
        | .panic m => .panic m
        | .fuel => .fuel
        | .need q => .need q
      | [] => runErr np "argc"
    | .addPattern => pure ()
    | .grok =>
      let retB (b : Bool) : EM Unit := ret ⟨.bool b, .bool⟩
      match env.grok site with
      | none => do retB false; runErr np "no-grok-obj"
      | some q =>
        match args with
        | k :: _ :: rest =>
          match getKeyName k with
          | .bad => do retB false; runErr (Node.start k) "key-name"
          | .unmodelled => needE (B "unmodelled:keyname")
          | .ok key => do
            let s ← getS
            let cont ← (match getKey s key with
              | none => pure none
              | some v => conv2str env v)
            match cont with
            | none => retB false
            | some val =>
              let trim : Option Bool := match rest with
                | [] => some true
                | [.boolLit b _] => some b
                | _ => none
              match trim with
              | none => do retB false; runErr ((rest.head?.map Node.start).getD Pos.invalid) "expect-boollit"
              | some tr =>
                let a ← ask env (B "grokrun:" ++ q ++ [58] ++ (if tr then [116] else [102]) ++ [58] ++ hexOf val)
                let (ok, payload) := splitAnswer a
                if !ok then retB false else
                match unrender 4000 [] (unhex payload) with
                | some (.ref 0, [Obj.map kvs], _) =>
                  -- captures land in the point as fields with the engine's types
                  let rec put : List (Bytes × Val) → EM Unit
                    | [] => pure ()
                    | (ck, cv) :: r => do setPt ck (detect [] cv); put r
                  put (sortKeys kvs)
                  retB true
                | _ => needE (B "unmodelled:grok-answer")
        | _ => panicE "grok: Param[0]"
    | .datetime =>
      match args with
      | [k, .strLit prec _, .strLit fmts _] => do
        let key ← keyOf k
        let s ← getS
        match getKey s key with
        | none => pure ()
        | some v =>
          let a ← ask env (B "datefmt:" ++ renderV s.world.heap v.v ++ [58] ++ hexOf prec ++ [58] ++ hexOf fmts)
          let (ok, payload) := splitAnswer a
          if ok then setPt key ⟨.str (unhex payload), .str⟩ else runErr np "datefmt"
      | [_, a1, a2] =>
        (match a1 with
         | .strLit _ _ => runErr (Node.start a2) "expect-strlit"
         | _ => runErr (Node.start a1) "expect-strlit")
      | _ => runErr np "argc"
    | .defaultTime =>
      match args with
      | k :: rest => do
        let key ← keyOf k
        let s ← getS
        let cont ← (match getKey s key with
          | none => pure none
          | some v => conv2str env v)
        match cont with
        | none => pure ()
        | some c =>
          let tz : Option Bytes := match rest with
            | [] => some []
            | (.strLit z _) :: _ => some z
            | _ => none
          let fail (msg : Bytes) : EM Unit := setPt (B "pl_msg") ⟨.str (B "time convert failed: " ++ msg), .str⟩
          match tz with
          | none => needE (B "unmodelled:default_time-tz-arg")
          | some z =>
            let a ← ask env (B "timestamp:" ++ hexOf z ++ [58] ++ hexOf c)
            let (ok, payload) := splitAnswer a
            if ok then
              let nanos := (takeDec (unhex payload)).1
              modWorld fun w => { w with pt := { (w.pt.delete (normKey key)) with time := nanos } }
            else fail (unhex payload)
      | [] => runErr np "argc"
    | .xml =>
      match args with
      | [k, .strLit xp _, fnode] => do
        let key ← keyOf k
        let field ← keyOf fnode
        let s ← getS
        let cont ← (match getKey s key with
          | none => pure none
          | some v => conv2str env v)
        match cont with
        | none => pure ()
        | some c =>
          let a ← ask env (B "xml:" ++ hexOf xp ++ [58] ++ hexOf c)
          let (ok, payload) := splitAnswer a
          if ok then setPt field ⟨.str (unhex payload), .str⟩ else pure ()
      | [_, a1, _] => runErr (Node.start a1) "expect-strlit"
      | _ => runErr np "argc"
    | .sqlCover =>
      match args with
      | [k] => do
        let key ← keyOf k
        let s ← getS
        let cont ← (match getKey s key with
          | none => pure none
          | some v => conv2str env v)
        match cont with
        | none => pure ()
        | some c =>
          let a ← ask env (B "sql:" ++ hexOf c)
          let (ok, payload) := splitAnswer a
          if ok then setPt key ⟨.str (unhex payload), .str⟩ else pure ()
      | _ => runErr np "argc"
    | .p | .pr | .void => do
      -- probes supplied by the harness through the function table:
      -- p(...) records its evaluated arguments; pr(...) also returns the first one; void() does nothing
      let vs ← evalList f args
      let s ← getS
      modWorld fun w => { w with trace := Event.probe name (vs.map (renderTV s.world.heap)) :: w.trace }
      if fn = .pr then (match vs with | v :: _ => ret v | [] => pure ())
end

/-- `(*Script).Run` -/
def runScript (fuel : Nat) (name : Bytes) (stmts : List Node) (w : World) : Res Unit :=
  runStmts env (evalNode env fuel) fuel stmts { task := { name := name, scopes := [[]] }, world := w }

end
end Platypus
