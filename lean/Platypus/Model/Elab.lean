import Platypus.Model.ParsePos
import Platypus.Model.Ast
import Platypus.Model.LnCol
import Platypus.Model.Unquote
/-!
From the parser's tree to the tree the interpreters walk (`pkg/ast`): the constructor functions of
`pkg/parser/parser.go` as far as they compute *values* — a token offset becomes a
`token.LnColPos` through the position cache, a literal spelling becomes the value it denotes
(`strconv.ParseInt(_, 0, 64)`, else `strconv.ParseFloat`; `Unquote`/`UnquoteMultiline`), a
quoted identifier loses its back-quotes, the binary operators split into arithmetic, conditional
and `in` expressions — and the numbering of call expressions (the order in which the harness walks
the tree: a call before its arguments, children left to right).  `strconv.ParseFloat` is an
engine: it is a parameter (`pf`), answered by the oracle.

`elabSource pf src` is then the whole front end: text ↦ `List Node`, the value `ParsePipeline`
returns and `runScript` consumes (`site0`: calls are numbered from `site0 + 1`).
-/
namespace Platypus.Elab
open Platypus.ParsePos Platypus.Parse

structure Cfg where
  src : Bytes
  /-- bits of `strconv.ParseFloat(text, 64)`; `none`: an error (the parser then rejects the script) -/
  pf : Bytes → Option UInt64

/-- `p.posCache.LnCol(pos)` -/
def mkPos (src : Bytes) (p : Nat) : Pos :=
  match LnCol.cacheLnCol src p with
  | some lc => ⟨p, lc.ln, lc.col⟩
  | none => Pos.invalid

def uopOf : UnOp → UOp
  | .pos => .pos | .neg => .neg | .not => .not

def asopOf : AsgOp → AsOp
  | .eq => .eq | .addEq => .addEq | .subEq => .subEq | .mulEq => .mulEq | .divEq => .divEq | .modEq => .modEq

/-- `newArithmeticExpr` / `newConditionalExpr` / `newInExpr` -/
def mkBinNode (op : BOp) (l r : Node) (p : Pos) : Node :=
  match op with
  | .add => .arith .add l r p | .sub => .arith .sub l r p | .mul => .arith .mul l r p
  | .div => .arith .div l r p | .mod => .arith .mod l r p
  | .or => .cond .or l r p | .and => .cond .and l r p
  | .gte => .cond .ge l r p | .gt => .cond .gt l r p | .neq => .cond .ne l r p
  | .eqeq => .cond .eq l r p | .lte => .cond .le l r p | .lt => .cond .lt l r p
  | .in_ => .inE l r p

/-- name of an identifier token: a back-quoted one is unquoted -/
def identName (quoted : Bool) (v : Bytes) : Option Bytes :=
  if quoted then Unq.unquote v else some v

/-- `newNumberLiteral`, then the sign folded in by `newUnaryExpr` -/
def numNode (c : Cfg) (neg : Bool) (text : Bytes) (p : Pos) : Option Node :=
  match Unq.number text neg with
  | .int i => some (.intLit i p)
  | .floatOf t n =>
    match c.pf t with
    | some bits => some (.floatLit (if n then bits ^^^ 0x8000000000000000 else bits) p)
    | none => none
  | _ => none

mutual

/-- the second component threads the number of call expressions met so far -/
def toNode (c : Cfg) : PP → Nat → Option (Node × Nat)
  | .ident q v p, n => match identName q v with
    | some nm => some (.ident nm (mkPos c.src p), n)
    | none => none
  | .num neg v p _, n => match numNode c neg v (mkPos c.src p) with
    | some x => some (x, n)
    | none => none
  | .str multi v p, n =>
    match (if multi then Unq.unquoteMultiline v else Unq.unquote v) with
    | some b => some (.strLit b (mkPos c.src p), n)
    | none => none
  | .bool b p, n => some (.boolLit b (mkPos c.src p), n)
  | .nil p _, n => some (.nilLit (mkPos c.src p), n)
  | .list xs lb rb, n => match toNodes c xs n with
    | some (ys, n') => some (.list ys (mkPos c.src lb) (mkPos c.src rb), n')
    | none => none
  | .map kvs lb rb, n => match toNodeKV c kvs n with
    | some (ys, n') => some (.map ys (mkPos c.src lb) (mkPos c.src rb), n')
    | none => none
  | .paren e lp rp, n => match toNode c e n with
    | some (x, n') => some (.paren x (mkPos c.src lp) (mkPos c.src rp), n')
    | none => none
  | .attr o a p, n => match toNode c o n with
    | some (x, n1) => match toNode c a n1 with
      | some (y, n2) => some (.attr (some x) (some y) (mkPos c.src p), n2)
      | none => none
    | none => none
  | .index obj idx lbs rbs, n =>
    let objR : Option (Option (Bytes × Pos)) := match obj with
      | none => some none
      | some (q, v, p) => match identName q v with
        | some nm => some (some (nm, mkPos c.src p))
        | none => none
    match objR with
    | none => none
    | some o => match toNodes c idx n with
      | some (ys, n') => some (.index o ys (lbs.map (mkPos c.src)) (rbs.map (mkPos c.src)), n')
      | none => none
  | .unary op e p, n => match toNode c e n with
    | some (x, n') => some (.unary (uopOf op) x (mkPos c.src p), n')
    | none => none
  | .bin op l r p, n => match toNode c l n with
    | some (x, n1) => match toNode c r n1 with
      | some (y, n2) => some (mkBinNode op x y (mkPos c.src p), n2)
      | none => none
    | none => none
  | .assign op l r p, n => match toNodes c l n with
    | some (xs, n1) => match toNodes c r n1 with
      | some (ys, n2) => some (.assign (asopOf op) xs ys (mkPos c.src p), n2)
      | none => none
    | none => none
  | .call q v args np lp rp, n => match identName q v with
    | some nm => match toNodes c args (n + 1) with
      | some (ys, n') => some (.call nm ys (mkPos c.src np) (mkPos c.src lp) (mkPos c.src rp) (n + 1), n')
      | none => none
    | none => none
  | .slice o a b s c2 lb rb, n => match toNode c o n with
    | some (x, n1) => match toNodeO c a n1 with
      | some (a', n2) => match toNodeO c b n2 with
        | some (b', n3) => match toNodeO c s n3 with
          | some (s', n4) => some (.slice x a' b' s' c2 (mkPos c.src lb) (mkPos c.src rb), n4)
          | none => none
        | none => none
      | none => none
    | none => none
  | .ifelse ifs els, n => match toNodeIfs c ifs n with
    | some (is, n1) => match els with
      | none => some (.ifelse is none ⟨0, 0, 0⟩, n1)     -- `newIfElifStmt` leaves ElsePos zero
      | some (ep, b) => match toNodes c b n1 with
        | some (bs, n2) => some (.ifelse is (some bs) (mkPos c.src ep), n2)
        | none => none
    | none => none
  | .forS i cd l b p, n => match toNodeO c i n with
    | some (i', n1) => match toNodeO c cd n1 with
      | some (c', n2) => match toNodeO c l n2 with
        | some (l', n3) => match toNodes c b n3 with
          | some (b', n4) => some (.forS i' c' l' (some b') (mkPos c.src p), n4)
          | none => none
        | none => none
      | none => none
    | none => none
  | .forIn v it b fp ip, n => match toNode c v n with
    | some (v', n1) => match toNode c it n1 with
      | some (it', n2) => match toNodes c b n2 with
        | some (b', n3) => some (.forIn v' it' (some b') (mkPos c.src fp) (mkPos c.src ip), n3)
        | none => none
      | none => none
    | none => none
  | .brk p, n => some (.brk (mkPos c.src p), n)
  | .cont p, n => some (.cont (mkPos c.src p), n)

def toNodes (c : Cfg) : List PP → Nat → Option (List Node × Nat)
  | [], n => some ([], n)
  | x :: r, n => match toNode c x n with
    | some (y, n1) => match toNodes c r n1 with
      | some (ys, n2) => some (y :: ys, n2)
      | none => none
    | none => none

def toNodeO (c : Cfg) : Option PP → Nat → Option (Option Node × Nat)
  | none, n => some (none, n)
  | some x, n => match toNode c x n with
    | some (y, n1) => some (some y, n1)
    | none => none

def toNodeKV (c : Cfg) : List (PP × PP) → Nat → Option (List (Node × Node) × Nat)
  | [], n => some ([], n)
  | (k, v) :: r, n => match toNode c k n with
    | some (k', n1) => match toNode c v n1 with
      | some (v', n2) => match toNodeKV c r n2 with
        | some (ys, n3) => some ((k', v') :: ys, n3)
        | none => none
      | none => none
    | none => none

def toNodeIfs (c : Cfg) : List (Nat × PP × List PP) → Nat → Option (List (Node × Option (List Node) × Pos) × Nat)
  | [], n => some ([], n)
  | (p, cd, b) :: r, n => match toNode c cd n with
    | some (c', n1) => match toNodes c b n1 with
      | some (b', n2) => match toNodeIfs c r n2 with
        | some (ys, n3) => some ((c', some b', mkPos c.src p) :: ys, n3)
        | none => none
      | none => none
    | none => none

end

/-- the whole front end: `ParsePipeline(name, src)` as the tree the interpreters get.
    `none`: the script is rejected (lexical or syntax error, or a number `ParseFloat` refuses). -/
def elabSource (pf : Bytes → Option UInt64) (src : Bytes) (site0 : Nat := 0) : Option (List Node) :=
  match parsePos src with
  | none => none
  | some pps => (toNodes ⟨src, pf⟩ pps site0).map (·.1)

end Platypus.Elab
