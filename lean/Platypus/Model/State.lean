import Platypus.Model.Ast
/-! Run-time state: point, task, world, environment, results. -/
namespace Platypus

/-- input.Point with its key index `Meta` (dtype, isTag) -/
structure Point where
  meas : Bytes := []
  tags : List (Bytes × Bytes) := []
  fields : List (Bytes × Val) := []       -- values are never `ref`
  time : Int := 0                         -- unix nanoseconds
  drop : Bool := false
  idx : List (Bytes × (DType × Bool)) := []   -- (DType, PtFlag = tag?)
  deriving DecidableEq, Repr, Inhabited

/-- errchain.PlError: positions (file, pos) innermost first, and an error-class label -/
structure PlErr where
  chain : List (Bytes × Pos)
  msg : String
  deriving DecidableEq, Repr, Inhabited

def PlErr.new (file : Bytes) (p : Pos) (msg : String) : PlErr := ⟨[(file, p)], msg⟩
def PlErr.append (e : PlErr) (file : Bytes) (p : Pos) : PlErr := { e with chain := e.chain ++ [(file, p)] }

inductive Event
  | probe (name : Bytes) (args : List Bytes)    -- canonical renderings of the evaluated arguments
  | out (text : Bytes)                           -- printf
  deriving DecidableEq, Repr, Inhabited

/-- runtime.Task (per script activation) -/
structure Task where
  name : Bytes
  scopes : List (List (Bytes × TV))     -- innermost first; `stackCur` is the head
  brk : Bool := false
  cont : Bool := false
  exit : Bool := false
  regs : List TV := []
  deriving Repr, Inhabited

/-- state shared by a caller and the scripts it reaches through use() -/
structure World where
  heap : Heap := []
  pt : Point := {}
  polls : Nat := 0
  mapIters : Nat := 0            -- number of map iterations started (indexes the order oracle)
  trace : List Event := []       -- newest first
  deriving Repr, Inhabited

structure St where
  task : Task
  world : World
  deriving Repr, Inhabited

/-- read-only environment of a run -/
structure Env where
  /-- scripts bound to use() call sites at load time: site ↦ (name, statements) -/
  bound : Nat → Option (Bytes × List Node)
  /-- registered function names (FuncCall table) -/
  fns : List Bytes
  /-- the host's signal: reports true from poll number `k` on (none = never / nil signal) -/
  sigK : Option Nat
  hasSignal : Bool
  /-- order in which the i-th map iteration visits its keys: a permutation selector -/
  mapOrder : Nat → Nat
  /-- grok call sites compiled at load time: site ↦ (visible pattern definitions + pattern) -/
  grok : Nat → Option Bytes := fun _ => none
  /-- engine answers collected so far (query ↦ answer) -/
  oracle : Bytes → Option Bytes

inductive Res (α : Type)
  | ok (a : α) (s : St)
  | err (e : PlErr) (s : St)
  | panic (m : String)
  | fuel
  | need (q : Bytes)
  deriving Repr, Inhabited

abbrev EM (α : Type) := St → Res α

@[inline] def EM.pure {α} (a : α) : EM α := fun s => .ok a s
@[inline] def EM.bind {α β} (m : EM α) (f : α → EM β) : EM β := fun s =>
  match m s with
  | .ok a s' => f a s'
  | .err e s' => .err e s'
  | .panic m => .panic m
  | .fuel => .fuel
  | .need q => .need q

instance : Monad EM where
  pure := EM.pure
  bind := EM.bind

def throwE {α} (e : PlErr) : EM α := fun s => .err e s
def panicE {α} (m : String) : EM α := fun _ => .panic m
def outOfFuel {α} : EM α := fun _ => .fuel
def needE {α} (q : Bytes) : EM α := fun _ => .need q
def getS : EM St := fun s => .ok s s
def setS (s : St) : EM Unit := fun _ => .ok () s
def modifyS (f : St → St) : EM Unit := fun s => .ok () (f s)
def modTask (f : Task → Task) : EM Unit := modifyS fun s => { s with task := f s.task }
def modWorld (f : World → World) : EM Unit := modifyS fun s => { s with world := f s.world }

/-- NewRunError(ctx, msg, pos) -/
def runErr {α} (p : Pos) (msg : String) : EM α := fun s => .err (PlErr.new s.task.name p msg) s

end Platypus
