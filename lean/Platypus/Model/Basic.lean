/-!
Core data of the platypus model: byte strings, wrap-around int64, dynamic type tags, positions,
values, heap objects.  Core Lean only.
-/
namespace Platypus

abbrev Bytes := List UInt8

def bytesOf (s : String) : Bytes := s.toUTF8.toList

/-- Go's int64 arithmetic wraps around. -/
def wrap64 (x : Int) : Int := (BitVec.ofInt 64 x).toInt

def minI64 : Int := -9223372036854775808
def maxI64 : Int := 9223372036854775807
def inI64 (x : Int) : Prop := minI64 ≤ x ∧ x ≤ maxI64
instance (x : Int) : Decidable (inI64 x) := by unfold inI64; infer_instance

/-- ast.DType -/
inductive DType | invalid | void | nil | bool | int | float | str | list | map
  deriving DecidableEq, Repr, Inhabited

def DType.name : DType → String
  | .invalid => "invalid" | .void => "void" | .nil => "nil" | .bool => "bool" | .int => "int"
  | .float => "float" | .str => "str" | .list => "list" | .map => "map"

/-- token.LnColPos -/
structure Pos where
  pos : Int
  ln : Int
  col : Int
  deriving DecidableEq, Repr, Inhabited

def Pos.invalid : Pos := ⟨-1, -1, -1⟩

/-- A Go `any` as the interpreters see it.  Floats are IEEE-754 binary64 bit patterns (NaNs
    canonicalised by the driver); lists and maps are references into the heap. -/
inductive Val
  | nil
  | bool (b : Bool)
  | int (i : Int)
  | float (bits : UInt64)
  | str (s : Bytes)
  | ref (a : Nat)
  deriving DecidableEq, Repr, Inhabited

inductive Obj
  | list (xs : List Val)
  | map (kvs : List (Bytes × Val))     -- unique keys; order is not observable in Go
  deriving DecidableEq, Repr, Inhabited

abbrev Heap := List Obj

def Heap.get? (h : Heap) (a : Nat) : Option Obj := h[a]?
def Heap.alloc (h : Heap) (o : Obj) : Heap × Nat := (h ++ [o], h.length)
def Heap.set (h : Heap) (a : Nat) (o : Obj) : Heap := List.set h a o

/-- A value together with the tag the Go code carries beside it. -/
structure TV where
  v : Val
  t : DType
  deriving DecidableEq, Repr, Inhabited

/-- ast.DectDataType on a value that came out of a list/map/point. -/
def detect (h : Heap) : Val → TV
  | .nil => ⟨.nil, .nil⟩
  | .bool b => ⟨.bool b, .bool⟩
  | .int i => ⟨.int i, .int⟩
  | .float f => ⟨.float f, .float⟩
  | .str s => ⟨.str s, .str⟩
  | .ref a => match h.get? a with
    | some (.list _) => ⟨.ref a, .list⟩
    | some (.map _) => ⟨.ref a, .map⟩
    | none => ⟨.nil, .invalid⟩

/-- association-list helpers (Go maps) -/
def alookup {β} (k : Bytes) : List (Bytes × β) → Option β
  | [] => none
  | (k', v) :: r => if k' = k then some v else alookup k r

def aerase {β} (k : Bytes) : List (Bytes × β) → List (Bytes × β)
  | [] => []
  | (k', v) :: r => if k' = k then aerase k r else (k', v) :: aerase k r

/-- insert or overwrite in place (keeps a single binding per key) -/
def aset {β} (k : Bytes) (v : β) : List (Bytes × β) → List (Bytes × β)
  | [] => [(k, v)]
  | (k', v') :: r => if k' = k then (k, v) :: r else (k', v') :: aset k v r

def akeys {β} (m : List (Bytes × β)) : List Bytes := m.map (·.1)

end Platypus
