import Platypus.Model.Basic
/-!
Slice index computation of RunSliceExpr (v1 and v2, identical): `sliceBounds`, `sliceCount`
and the element loop.  Arithmetic is Go `int` (64-bit wrap-around); the model keeps the `wrap64`
at every operation that could overflow in Go, so that "no overflow happens" is a theorem.
-/
namespace Platypus.Slice

/-- the `norm` closure of sliceBounds -/
def norm (length lo hi v : Int) : Int :=
  if v < 0 then
    let v' := wrap64 (v + length)
    if v' < lo then lo else v'
  else if v > hi then hi else v

/-- `sliceBounds(length, start, end, step, hasStart, hasEnd)` -/
def sliceBounds (length start stop step : Int) (hasStart hasEnd : Bool) : Int × Int × Int :=
  let lo := if step < 0 then -1 else 0
  let hi := if step < 0 then wrap64 (length - 1) else length
  let step' := if step > wrap64 (length + 1) then wrap64 (length + 1)
               else if step < wrap64 (wrap64 (-length) - 1) then wrap64 (wrap64 (-length) - 1) else step
  if step' > 0 then
    (if hasStart then norm length lo hi start else lo,
     if hasEnd then norm length lo hi stop else hi, step')
  else
    (if hasStart then norm length lo hi start else hi,
     if hasEnd then norm length lo hi stop else lo, step')

/-- the two element loops `for i := start; i < end; i += step` / `for i := start; i > end; i += step`,
    with Go's wrapping `+=`; fuel bounds the number of iterations (the theorem shows `length + 1`
    always suffices and that `i` never wraps). -/
def loopIdx : Nat → Int → Int → Int → List Int
  | 0, _, _, _ => []
  | fuel+1, i, stop, step =>
    if step > 0 then
      if i < stop then i :: loopIdx fuel (wrap64 (i + step)) stop step else []
    else
      if i > stop then i :: loopIdx fuel (wrap64 (i + step)) stop step else []

/-- indices visited by the implementation for a sequence of `length` elements -/
def indices (length : Nat) (start stop : Option Int) (step : Option Int) : List Int :=
  let st := step.getD 1
  let (s, e, st') := sliceBounds length (start.getD 0) (stop.getD 0) st start.isSome stop.isSome
  loopIdx (length + 1) s e st'

/-- `sliceCount` (capacity passed to make; negative would panic) -/
def sliceCount (start stop step : Int) : Int :=
  if step > 0 ∧ start < stop then wrap64 (Int.tdiv (wrap64 (wrap64 (stop - start) - 1)) step + 1)
  else if step < 0 ∧ start > stop then wrap64 (Int.tdiv (wrap64 (wrap64 (start - stop) - 1)) (wrap64 (-step)) + 1)
  else 0

end Platypus.Slice
