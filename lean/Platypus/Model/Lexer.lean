import Platypus.Model.Utf8
/-!
Model of pkg/parser/lex.go: the lexer as a state machine over the byte string, with the Go
fields `pos`, `start`, `width`, the three depth counters, `stringOpen`, `backquoteOpen`.
Every state function of the Go code that loops over `next()` is modelled as a state whose step
consumes at most one rune, so `NextItem` is "step until an item has been scanned".
-/
namespace Platypus.Lex

open Platypus.Utf8

/-- item types (the yacc token names) -/
inductive Tok
  | EOF | ERROR | COMMENT | EOL | ID | NUMBER | STRING | QUOTED_STRING | MULTILINE_STRING
  | COMMA | COLON | SEMICOLON | DOT
  | LEFT_PAREN | RIGHT_PAREN | LEFT_BRACKET | RIGHT_BRACKET | LEFT_BRACE | RIGHT_BRACE
  | ADD | SUB | MUL | DIV | MOD | ADD_EQ | SUB_EQ | MUL_EQ | DIV_EQ | MOD_EQ | EQ | EQEQ | NEQ
  | LT | LTE | GT | GTE | NOT | AND | OR
  | IF | ELIF | ELSE | FALSE | IDENTIFIER | NIL | NULL | TRUE | FOR | IN | WHILE | BREAK | CONTINUE
  | RETURN | STR | BOOL | INT | FLOAT | LIST | MAP
  deriving DecidableEq, Repr, Inhabited

structure Item where
  typ : Tok
  pos : Nat
  val : Bytes          -- the source text of the token, or the error message class for ERROR
  deriving DecidableEq, Repr, Inhabited

/-- rune value and width of the rune at the head (utf8.DecodeRuneInString); invalid ⇒ (0xFFFD, 1) -/
def decodeRune (s : Bytes) : Nat × Nat :=
  match s with
  | [] => (0xFFFD, 0)
  | b0 :: rest =>
    let b0n := b0.toNat
    if b0n < 0x80 then (b0n, 1)
    else match decode s with
      | some (bytes, w) =>
        if w = 1 then (0xFFFD, 1)
        else match bytes, rest with
          | [_, b1], _ => ((b0n % 32) * 64 + b1.toNat % 64, 2)
          | [_, b1, b2], _ => ((b0n % 16) * 4096 + (b1.toNat % 64) * 64 + b2.toNat % 64, 3)
          | [_, b1, b2, b3], _ => ((b0n % 8) * 262144 + (b1.toNat % 64) * 4096 + (b2.toNat % 64) * 64 + b3.toNat % 64, 4)
          | _, _ => (0xFFFD, 1)
      | none => (0xFFFD, 0)

/-- a rune, or eof (-1) -/
abbrev Rune := Int
def eof : Rune := -1
def runeError : Rune := 0xFFFD

def isAlpha (r : Rune) : Bool := r == 95 || (97 ≤ r && r ≤ 122) || (65 ≤ r && r ≤ 90)
def isDigit (r : Rune) : Bool := 48 ≤ r && r ≤ 57
def isAlphaNumeric (r : Rune) : Bool := isAlpha r || isDigit r
/-- utf8.RuneLen(r) > 1 -/
def isUTF8 (r : Rune) : Bool := (0x80 ≤ r && r < 0xD800) || (0xE000 ≤ r && r ≤ 0x10FFFF)
def isSpaceNotEOL (r : Rune) : Bool := r == 32 || r == 9 || r == 13
def isEOL (r : Rune) : Bool := r == 13 || r == 10

inductive LState
  | statements | spaceNotEOL | number | rawString | lineComment | escape | multiline | str | word
  | done                                  -- nil state function
  | commentBody                           -- inside lexLineComment's loop
  | escDigits (n : Nat) (base max : Nat) (x : Nat) (ch : Rune)   -- inside lexEscape's digit loop
  deriving DecidableEq, Repr, Inhabited

structure L where
  input : Bytes
  state : LState := .statements
  pos : Nat := 0
  start : Nat := 0
  width : Nat := 0
  paren : Int := 0
  brace : Int := 0
  bracket : Int := 0
  stringOpen : Rune := 0
  backquoteOpen : Rune := 0
  item : Option Item := none             -- `*l.itemp` once `scannedItem`
  /-- `lexString` called `errorf("invalid UTF-8 rune")` and went on: `scannedItem` is set, the ERROR
      item is delivered if the state function returns (to `lexEscape`) before `emit` overwrites it -/
  pendErr : Bool := false
  deriving Repr, Inhabited

def slice (s : Bytes) (a b : Nat) : Bytes := (s.drop a).take (b - a)

/-- `l.next()` -/
def next (l : L) : Rune × L :=
  if l.pos ≥ l.input.length then (eof, { l with width := 0 })
  else
    let (r, w) := decodeRune (l.input.drop l.pos)
    (r, { l with width := w, pos := l.pos + w })

def backup (l : L) : L := { l with pos := l.pos - l.width }
def peek (l : L) : Rune := (next l).1
def emit (l : L) (t : Tok) : L := { l with item := some ⟨t, l.start, slice l.input l.start l.pos⟩, start := l.pos }
/-- `l.errorf(...)`: ERROR item at `start`; the caller decides which state follows -/
def errorf (l : L) (msg : String) : L := { l with item := some ⟨.ERROR, l.start, msg.toUTF8.toList⟩ }
def ignore (l : L) : L := { l with start := l.pos }

def lowerAscii (b : Bytes) : Bytes := b.map fun c => if 65 ≤ c && c ≤ 90 then c + 32 else c

/-- the keyword table of lex.go (after `init`: inf and nan lex as NUMBER); filled from the
    regenerated table in `Generated/LexTables.lean` by the theorem `keywords_match_source` -/
def keyword (w : Bytes) : Option Tok :=
  let s := String.ofList ((lowerAscii w).map fun c => Char.ofNat c.toNat)
  match s with
  | "if" => some .IF | "elif" => some .ELIF | "else" => some .ELSE | "false" => some .FALSE
  | "identifier" => some .IDENTIFIER | "nil" => some .NIL | "null" => some .NULL | "true" => some .TRUE
  | "for" => some .FOR | "in" => some .IN | "while" => some .WHILE | "break" => some .BREAK
  | "continue" => some .CONTINUE | "return" => some .RETURN | "str" => some .STR | "bool" => some .BOOL
  | "int" => some .INT | "float" => some .FLOAT | "list" => some .LIST | "map" => some .MAP
  | "inf" => some .NUMBER | "nan" => some .NUMBER
  | _ => none

/-- `l.accept(valid)` for a set given as predicate -/
def accept (l : L) (p : Rune → Bool) : Bool × L :=
  let (r, l') := next l
  if p r then (true, l') else (false, backup l')

def acceptRun : Nat → L → (Rune → Bool) → L
  | 0, l, _ => l
  | f+1, l, p =>
    let (r, l') := next l
    if p r then acceptRun f l' p else backup l'

def isHexDigitR (r : Rune) : Bool := isDigit r || (97 ≤ r && r ≤ 102) || (65 ≤ r && r ≤ 70)

/-- `l.scanNumber()` -/
def scanNumber (l : L) : Bool × L :=
  let n := l.input.length + 1
  let (z, l1) := accept l (· == 48)
  let (hex, l2) := if z then accept l1 (fun r => r == 120 || r == 88) else (false, l1)
  let digs : Rune → Bool := if hex then isHexDigitR else isDigit
  let l3 := acceptRun n l2 digs
  let (dot, l4) := accept l3 (· == 46)
  let l5 := if dot then acceptRun n l4 digs else l4
  let (ex, l6) := accept l5 (fun r => r == 101 || r == 69)
  let l7 := if ex then acceptRun n (accept l6 (fun r => r == 43 || r == 45)).2 isDigit else l6
  (!isAlphaNumeric (peek l7), l7)

def digitVal (ch : Rune) : Nat :=
  if 48 ≤ ch && ch ≤ 57 then (ch - 48).toNat
  else if 97 ≤ ch && ch ≤ 102 then (ch - 97 + 10).toNat
  else if 65 ≤ ch && ch ≤ 70 then (ch - 65 + 10).toNat
  else 16

def hasPrefixAt (s : Bytes) (pos : Nat) (c : UInt8) : Bool := s[pos]? == some c

/-- one step of the current state function -/
def step (l : L) : L :=
  match l.state with
  | .done => l
  | .statements =>
    if hasPrefixAt l.input l.pos 35 then { l with state := .lineComment }    -- '#'
    else
      let (r, l) := next l
      let two (c : Rune) (t2 t1 : Tok) : L :=
        if peek l == c then emit (next l).2 t2 else emit l t1
      if r == 44 then emit l .COMMA
      else if isSpaceNotEOL r then { l with state := .spaceNotEOL }
      else if r == 42 then two 61 .MUL_EQ .MUL
      else if r == 47 then two 61 .DIV_EQ .DIV
      else if r == 37 then two 61 .MOD_EQ .MOD
      else if r == 43 then two 61 .ADD_EQ .ADD
      else if r == 45 then two 61 .SUB_EQ .SUB
      else if r == 61 then two 61 .EQEQ .EQ
      else if r == 58 then emit l .COLON
      else if r == 59 then emit l .SEMICOLON
      else if r == 10 then emit l .EOL
      else if r == 46 then emit l .DOT
      else if r == 124 then
        if peek l == 124 then emit (next l).2 .OR else { errorf l "unexpected character after |" with state := .done }
      else if r == 38 then
        if peek l == 38 then emit (next l).2 .AND else { errorf l "unexpected character after &" with state := .done }
      else if r == 33 then two 61 .NEQ .NOT
      else if r == 60 then two 61 .LTE .LT
      else if r == 62 then two 61 .GTE .GT
      else if isDigit r then { backup l with state := .number }
      else if r == 34 || r == 39 then
        if peek l == r then
          let l1 := (next l).2
          if peek l1 == r then { (next l1).2 with stringOpen := r, state := .multiline }
          else emit l1 .STRING
        else { l with stringOpen := r, state := .str }
      else if r == 96 then { l with backquoteOpen := r, state := .rawString }
      else if isAlpha r || isUTF8 r then { backup l with state := .word }
      else if r == 40 then { emit l .LEFT_PAREN with paren := l.paren + 1 }
      else if r == 41 then
        let l' : L := { emit l .RIGHT_PAREN with paren := l.paren - 1 }
        if l'.paren < 0 then { errorf l' "unexpected right parenthesis" with state := .done } else l'
      else if r == 123 then { emit l .LEFT_BRACE with brace := l.brace + 1 }
      else if r == 125 then
        let l' : L := { emit l .RIGHT_BRACE with brace := l.brace - 1 }
        if l'.brace < 0 then { errorf l' "unexpected right brace" with state := .done } else l'
      else if r == 91 then { emit l .LEFT_BRACKET with bracket := l.bracket + 1 }
      else if r == 93 then { emit l .RIGHT_BRACKET with bracket := l.bracket - 1 }
      else if r == eof then
        if l.paren ≠ 0 then { errorf l "unclosed left parenthesis" with state := .done }
        else if l.bracket ≠ 0 then { errorf l "unclosed left bracket" with state := .done }
        else if l.brace ≠ 0 then { errorf l "unclosed left brace" with state := .done }
        else { emit l .EOF with state := .done }
      else { errorf l "unexpected character" with state := .done }
  | .word =>
    let (r, l') := next l
    if isAlphaNumeric r || isUTF8 r then l'
    else
      let l' := backup l'
      let w := slice l'.input l'.start l'.pos
      { emit l' ((keyword w).getD .ID) with state := .statements }
  | .spaceNotEOL =>
    if isSpaceNotEOL (peek l) then (next l).2
    else { ignore l with state := .statements }
  | .number =>
    let (ok, l') := scanNumber l
    if ok then { emit l' .NUMBER with state := .statements }
    else { errorf l' "bad duration" with state := .done }
  | .rawString =>
    let (r, l') := next l
    if r == runeError && l'.width == 1 then errorf l' "invalid UTF-8 rune"    -- an invalid byte; a correctly encoded U+FFFD (width 3) is an ordinary character
    else if r == eof then errorf l' "unterminated raw string"
    else if r == l.backquoteOpen then { emit l' .QUOTED_STRING with state := .statements }
    else l'
  | .lineComment =>
    -- l.pos += len("#"); r := l.next()
    let l1 := { l with pos := l.pos + 1 }
    let (r, l2) := next l1
    if !isEOL r && r != eof then { l2 with state := .commentBody }
    else { emit (backup l2) .COMMENT with state := .statements }
  | .commentBody =>
    let (r, l2) := next l
    if !isEOL r && r != eof then l2
    else { emit (backup l2) .COMMENT with state := .statements }
  | .str =>
    let (r, l') := next l
    if r == 92 then
      (if l.pendErr then { errorf l' "invalid UTF-8 rune" with state := .escape, pendErr := false }
       else { l' with state := .escape })
    else if r == runeError && l'.width == 1 then { l' with pendErr := true }   -- an invalid byte: errorf without return, delivered only if lexString returns before emit
    else if r == eof || r == 10 then { errorf l' "unterminated quoted string" with state := .done, pendErr := false }
    else if r == l.stringOpen then { emit l' .STRING with state := .statements, pendErr := false }
    else l'
  | .multiline =>
    let (c, l') := next l
    if c == eof then { errorf l' "unterminated multiline string" with state := .done }
    else if c == l.stringOpen then
      -- the string ends with three of the quotes it opened with; quotes of the other kind are text
      if peek l' == l.stringOpen then
        let l2 := (next l').2
        if peek l2 == l.stringOpen then { emit (next l2).2 .MULTILINE_STRING with state := .statements }
        else l2
      else l'
    else l'
  | .escape =>
    let (ch, l') := next l
    let simple := ch == 97 || ch == 98 || ch == 102 || ch == 110 || ch == 114 || ch == 116 || ch == 118 || ch == 92 ||
                  ch == l.stringOpen || ch == l.backquoteOpen
    if simple then { l' with state := .str }
    else if 48 ≤ ch && ch ≤ 55 then { l' with state := .escDigits 3 8 255 0 ch }
    else if ch == 120 || ch == 88 then let (c2, l2) := next l'; { l2 with state := .escDigits 2 16 255 0 c2 }
    else if ch == 117 then let (c2, l2) := next l'; { l2 with state := .escDigits 4 16 0x10FFFF 0 c2 }
    else if ch == 85 then let (c2, l2) := next l'; { l2 with state := .escDigits 8 16 0x10FFFF 0 c2 }
    else if ch == eof then { errorf l' "escape sequence not terminated" with state := .str }
    else { errorf l' "unknown escape sequence" with state := .str }
  | .escDigits n base max x ch =>
    match n with
    | 0 =>
      let l1 := if x > max || (0xD800 ≤ x && x < 0xE000) then errorf l "escape sequence is an invalid Unicode code point" else l
      let l2 := if ch != eof then backup l1 else l1
      { l2 with state := .str }
    | n+1 =>
      let d := digitVal ch
      if d ≥ base then
        { errorf l (if ch == eof then "escape sequence not terminated" else "illegal character in escape sequence") with state := .str }
      else
        let (c2, l2) := next l
        { l2 with state := .escDigits n base max (x * base + d) c2 }

/-- `NextItem`: run the state machine until an item has been scanned -/
def nextItemLoop : Nat → L → L
  | 0, l => l
  | f+1, l => if l.item.isSome then l else nextItemLoop f (step l)

def nextItem (l : L) : Item × L :=
  let l := { l with item := none }
  if l.state = .done then
    let l' := emit l .EOF
    (l'.item.getD default, l')
  else
    let l' := nextItemLoop (4 * (l.input.length - l.pos) + 16) (step l)
    (l'.item.getD ⟨.ERROR, l'.start, "fuel".toUTF8.toList⟩, l')

/-- the items up to and including the first EOF or ERROR -/
def items : Nat → L → List Item
  | 0, _ => []
  | f+1, l =>
    let (it, l') := nextItem l
    if it.typ = .EOF || it.typ = .ERROR then [it] else it :: items f l'

def lexAll (input : Bytes) : List Item := items (input.length + 2) { input := input }

end Platypus.Lex
