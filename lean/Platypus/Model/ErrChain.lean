import Platypus.Model.Basic
/-!
Model of pkg/errchain: an error is a message and a chain of positions (innermost first);
`ChainAppend` adds an outer call site, `Copy` makes an independent error, `Error()` renders
`file:ln:col: message` and one `file:ln:col:` line per outer call site.  Errors live in a store
addressed by handles so that operation sequences with aliases (copy, then append to either) can be
replayed against the Go objects.
-/
namespace Platypus.ErrChain

structure Position where
  file : Bytes
  ln : Int
  col : Int
  pos : Int
  deriving DecidableEq, Repr, Inhabited

structure PlE where
  chain : List Position
  err : Bytes
  deriving DecidableEq, Repr, Inhabited

def PlE.new (file : Bytes) (ln col pos : Int) (msg : Bytes) : PlE := ⟨[⟨file, ln, col, pos⟩], msg⟩
def PlE.append (e : PlE) (p : Position) : PlE := { e with chain := e.chain ++ [p] }

def decB (i : Int) : Bytes := (toString i).toUTF8.toList

def posPrefix (p : Position) : Bytes := p.file ++ [58] ++ decB p.ln ++ [58] ++ decB p.col ++ [58]

/-- `(*PlError).Error()` -/
def PlE.render (e : PlE) : Bytes :=
  match e.chain with
  | [] => []
  | p :: rest => posPrefix p ++ [32] ++ e.err ++ (rest.map fun q => [10] ++ posPrefix q).flatten

inductive Op
  | new (file : Bytes) (ln col pos : Int) (msg : Bytes)    -- NewErr: a fresh handle
  | append (h : Nat) (p : Position)                         -- ChainAppend on handle h
  | copy (h : Nat)                                          -- Copy: a fresh handle
  deriving Repr

abbrev Store := List PlE

def step (s : Store) : Op → Store
  | .new f l c p m => s ++ [PlE.new f l c p m]
  | .append h p => s.mapIdx fun i e => if i = h then e.append p else e
  | .copy h => match s[h]? with | some e => s ++ [e] | none => s

def run (ops : List Op) : Store := ops.foldl step []

end Platypus.ErrChain
