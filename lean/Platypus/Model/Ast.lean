import Platypus.Model.Ops
/-! The syntax tree (pkg/ast), one inductive type like `ast.Node`; `Option` where Go has nil. -/
namespace Platypus

inductive AsOp | eq | addEq | subEq | mulEq | divEq | modEq deriving DecidableEq, Repr, Inhabited

def AsOp.arith : AsOp → Option AOp
  | .addEq => some .add | .subEq => some .sub | .mulEq => some .mul
  | .divEq => some .div | .modEq => some .mod | .eq => none

inductive Node
  | ident (name : Bytes) (p : Pos)
  | strLit (v : Bytes) (p : Pos)
  | intLit (v : Int) (p : Pos)
  | floatLit (bits : UInt64) (p : Pos)
  | boolLit (v : Bool) (p : Pos)
  | nilLit (p : Pos)
  | list (xs : List Node) (lb rb : Pos)
  | map (kvs : List (Node × Node)) (lb rb : Pos)
  | paren (e : Node) (lp rp : Pos)
  | attr (obj attr : Option Node) (p : Pos)
  /-- IndexExpr: `obj` is the identifier (name, start) or none for `.[i]` -/
  | index (obj : Option (Bytes × Pos)) (idx : List Node) (lbs rbs : List Pos)
  | unary (op : UOp) (e : Node) (p : Pos)
  | arith (op : AOp) (l r : Node) (p : Pos)
  | cond (op : COp) (l r : Node) (p : Pos)
  | inE (l r : Node) (p : Pos)
  | assign (op : AsOp) (lhs rhs : List Node) (p : Pos)
  /-- CallExpr: `site` identifies the node (for load-time annotations: PrivateData binding of
      use(), compiled grok).  `Param` never has nil holes: reIndexFuncArgs has no caller. -/
  | call (name : Bytes) (args : List Node) (namePos lp rp : Pos) (site : Nat)
  | slice (obj : Node) (start stop step : Option Node) (colon2 : Bool) (lb rb : Pos)
  /-- IfelseStmt: list of (condition, block or nil, start), else block or nil -/
  | ifelse (ifs : List (Node × Option (List Node) × Pos)) (els : Option (List Node)) (elsePos : Pos)
  | forS (init cond loop : Option Node) (body : Option (List Node)) (p : Pos)
  | forIn (var iter : Node) (body : Option (List Node)) (forPos inPos : Pos)
  | brk (p : Pos)
  | cont (p : Pos)
  deriving Repr, Inhabited

/-- ast.NodeStartPos (after the fix for object-less index expressions); fuel for the
    left-operand descent (`l op r` starts where `l` starts). -/
def startPos : Nat → Node → Pos
  | 0, _ => Pos.invalid
  | f+1, n => match n with
    | .ident _ p | .strLit _ p | .intLit _ p | .floatLit _ p | .boolLit _ p | .nilLit p => p
    | .list _ lb _ => lb
    | .map _ lb _ => lb
    | .paren _ lp _ => lp
    | .attr _ _ p => p
    | .index (some (_, p)) _ _ _ => p
    | .index none _ lbs _ => lbs.headD Pos.invalid
    | .unary _ _ p => p
    | .arith _ l _ _ => startPos f l
    | .cond _ l _ _ => startPos f l
    | .inE l _ _ => startPos f l
    | .assign _ lhs _ _ => match lhs with | l :: _ => startPos f l | [] => Pos.invalid
    | .call _ _ np _ _ _ => np
    | .slice _ _ _ _ _ lb _ => lb
    | .ifelse ifs _ _ => match ifs with | (_, _, p) :: _ => p | [] => Pos.invalid
    | .forS _ _ _ _ p => p
    | .forIn _ _ _ fp _ => fp
    | .brk p => p
    | .cont p => p

def Node.start (n : Node) : Pos := startPos 10000 n

end Platypus
