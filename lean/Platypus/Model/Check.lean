import Platypus.Model.Eval
/-!
The load-time check pass (pkg/engine/runtime/checkstmt.go, identical in runtimev2/r_check.go) and
the per-function argument-shape checkers of pkg/inimpl/guancecloud/funcs (`*Checking`).

The pass is generic in the table of function checkers, so that theorems hold "for arbitrary
registered function tables".  The builtin table models add_pattern/grok pattern scoping: patterns
live in the block scope where `add_pattern` declares them and in nested blocks.
-/
namespace Platypus

/-- state of the check pass -/
structure CheckSt where
  /-- pattern scopes (stack.CheckPattern), innermost first; inside a scope newest first -/
  pats : List (List (Bytes × Bytes)) := [[]]
  /-- `len(ctxCheck.forstmt)` -/
  loops : Nat := 0
  /-- use() call sites in traversal order (Script.CallRef) -/
  callRef : List Nat := []
  /-- grok call sites: site ↦ query prefix "visible definitions + pattern" (the compiled CallExpr.Grok) -/
  grok : List (Nat × Bytes) := []
  deriving Repr, Inhabited

inductive CRes (α : Type)
  | ok (a : α) (s : CheckSt)
  | err (e : PlErr)
  | fuel
  | need (q : Bytes)
  deriving Repr, Inhabited

abbrev CM (α : Type) := CheckSt → CRes α

instance : Monad CM where
  pure a := fun s => .ok a s
  bind m f := fun s => match m s with
    | .ok a s' => f a s'
    | .err e => .err e
    | .fuel => .fuel
    | .need q => .need q

def cErr {α} (file : Bytes) (p : Pos) (m : String) : CM α := fun _ => .err (PlErr.new file p m)
def cGet : CM CheckSt := fun s => .ok s s
def cMod (f : CheckSt → CheckSt) : CM Unit := fun s => .ok () (f s)
def cFuel {α} : CM α := fun _ => .fuel
def cPush : CM Unit := cMod fun s => { s with pats := [] :: s.pats }
def cPop : CM Unit := cMod fun s => { s with pats := s.pats.tail }

/-- visible pattern definitions in definition order (outermost scope first) -/
def visiblePats (s : CheckSt) : List (Bytes × Bytes) := (s.pats.reverse.map List.reverse).flatten

def encodeDefs (ds : List (Bytes × Bytes)) : Bytes :=
  ds.foldl (fun acc (a, p) => acc ++ hexOf a ++ [61] ++ hexOf p ++ [44]) []

/-- a function checker: (file, call fields) → CM Unit; `oracle` answers engine questions -/
structure CallInfo where
  name : Bytes
  args : List Node
  np : Pos
  site : Nat

def keyNameOk (n : Node) : Bool :=
  match n with
  | .ident _ _ | .attr _ _ _ | .strLit _ _ => true
  | _ => false

def isStrLit : Node → Bool | .strLit _ _ => true | _ => false
def isBoolLit : Node → Bool | .boolLit _ _ => true | _ => false

/-- what a successful checker does to the state of the pass: nothing, declare a pattern in the
    current block scope, record a compiled grok site, or record a use() call site -/
inductive Delta
  | nop
  | addPat (alias pat : Bytes)
  | addGrok (site : Nat) (q : Bytes)
  | addRef (site : Nat)
  deriving Repr, Inhabited

def Delta.apply (s : CheckSt) : Delta → CheckSt
  | .nop => s
  | .addPat alias pat => { s with pats := match s.pats with | sc :: rest => ((alias, pat) :: sc) :: rest | [] => [[(alias, pat)]] }
  | .addGrok site q => { s with grok := (site, q) :: s.grok }
  | .addRef site => { s with callRef := s.callRef ++ [site] }

/-- result of a checker's decision (the state of the pass is only read) -/
inductive DRes (α : Type)
  | ok (a : α)
  | err (e : PlErr)
  | need (q : Bytes)
  deriving Repr, Inhabited

instance : Monad DRes where
  pure a := .ok a
  bind m f := match m with
    | .ok a => f a
    | .err e => .err e
    | .need q => .need q

/-- the decision of the `*Checking` functions of the registered builtins (and the harness's probes) -/
def builtinCheckD (oracle : Bytes → Option Bytes) (file : Bytes) (c : CallInfo) (s : CheckSt) : DRes Delta :=
  let cErr {α} (file : Bytes) (p : Pos) (m : String) : DRes α := .err (PlErr.new file p m)
  let nop : DRes Delta := .ok .nop
  let argc := c.args.length
  let a (i : Nat) : Node := c.args.getD i (.nilLit Pos.invalid)
  let key0 (pos : Pos) : DRes Delta := if keyNameOk (a 0) then nop else cErr file pos "key-name"
  let ask (q : Bytes) : DRes Bytes := match oracle q with | some r => .ok r | none => .need q
  match Fn.ofName c.name with
  | none => cErr file c.np "no-check-for-func"
  | some fn =>
    match fn with
    | .exit | .p | .pr | .void => nop
    | .addKey => if argc > 2 ∨ argc < 1 then cErr file c.np "argc" else key0 (Node.start (a 0))
    | .getKey | .dropKey | .uppercase | .urlDecode =>
      if argc ≠ 1 then cErr file c.np "argc" else key0 (Node.start (a 0))
    | .setTag =>
      if argc ≠ 2 ∧ argc ≠ 1 then cErr file c.np "argc" else
      if !keyNameOk (a 0) then cErr file (Node.start (a 0)) "key-name" else
      if argc = 2 ∧ !keyNameOk (a 1) then cErr file (Node.start (a 1)) "expect-strlit" else nop
    | .rename =>
      if argc ≠ 2 then cErr file c.np "argc" else
      if !keyNameOk (a 0) then cErr file (Node.start (a 0)) "key-name" else
      (match a 1 with
       | .attr _ _ _ | .ident _ _ => nop
       | _ => cErr file (Node.start (a 1)) "expect-ident")
    | .cast =>
      if argc ≠ 2 then cErr file c.np "argc" else
      if !keyNameOk (a 0) then cErr file (Node.start (a 1)) "key-name" else
      (match a 1 with
       | .strLit t _ =>
         if t = B "bool" ∨ t = B "int" ∨ t = B "float" ∨ t = B "str" ∨ t = B "string" then nop
         else cErr file (Node.start (a 1)) "cast-type"
       | _ => cErr file (Node.start (a 1)) "expect-strlit")
    | .setMeasurement =>
      if argc ≠ 2 ∧ argc ≠ 1 then cErr file c.np "argc" else
      if !keyNameOk (a 0) then cErr file (Node.start (a 0)) "key-name" else
      if argc = 2 ∧ !isBoolLit (a 1) then cErr file (Node.start (a 1)) "expect-boollit" else nop
    | .len | .loadJson => if argc ≠ 1 then cErr file c.np "argc" else nop
    | .use =>
      if argc ≠ 1 then cErr file c.np "argc" else
      if isStrLit (a 0) then pure (.addRef c.site)
      else cErr file (Node.start (a 0)) "expect-strlit"
    | .strfmt =>
      if argc < 2 then cErr file c.np "argc" else
      if !keyNameOk (a 0) then cErr file (Node.start (a 0)) "key-name" else
      if !isStrLit (a 1) then cErr file (Node.start (a 1)) "expect-strlit" else nop
    | .printf =>
      if argc < 1 then cErr file c.np "argc" else key0 (Node.start (a 0))
    | .trim =>
      if argc < 1 ∨ argc > 2 then cErr file c.np "argc" else
      if !keyNameOk (a 0) then cErr file (Node.start (a 0)) "key-name" else
      if argc = 2 ∧ !isStrLit (a 1) then cErr file (Node.start (a 1)) "expect-strlit" else nop
    | .replace =>
      if argc ≠ 3 then cErr file c.np "argc" else
      if !keyNameOk (a 0) then cErr file (Node.start (a 0)) "key-name" else
      if !isStrLit (a 1) then cErr file (Node.start (a 1)) "expect-strlit" else
      if !isStrLit (a 2) then cErr file (Node.start (a 2)) "expect-strlit" else nop
    | .addPattern =>
      if argc ≠ 2 then cErr file c.np "argc" else
      match a 0, a 1 with
      | .strLit alias _, .strLit pat _ => do
        let r ← ask (B "grokdenorm:" ++ encodeDefs (visiblePats s) ++ [58] ++ hexOf pat)
        if (splitAnswer r).1 then pure (.addPat alias pat)
        else cErr file c.np "pattern"
      | .strLit _ _, _ => cErr file (Node.start (a 1)) "expect-strlit"
      | _, _ => cErr file c.np "expect-strlit"
    | .grok =>
      if argc < 2 ∨ argc > 3 then cErr file c.np "argc" else
      if argc = 3 ∧ !isBoolLit (a 2) then cErr file (Node.start (a 2)) "expect-boollit" else
      if !keyNameOk (a 0) then cErr file (Node.start (a 0)) "key-name" else
      match a 1 with
      | .strLit pat _ => do
        let q := encodeDefs (visiblePats s) ++ [58] ++ hexOf pat
        let r ← ask (B "grokcompile:" ++ q)
        if (splitAnswer r).1 then pure (.addGrok c.site q)
        else cErr file c.np "pattern"
      | _ => cErr file (Node.start (a 1)) "expect-strlit"
    | .datetime =>
      if argc ≠ 3 then cErr file c.np "argc" else
      if !keyNameOk (a 0) then cErr file c.np "key-name" else
      if !isStrLit (a 1) then cErr file (Node.start (a 1)) "expect-strlit" else
      if !isStrLit (a 2) then cErr file (Node.start (a 2)) "expect-strlit" else nop
    | .defaultTime =>
      if argc < 1 then cErr file c.np "argc" else
      if !keyNameOk (a 0) then cErr file (Node.start (a 0)) "key-name" else
      if argc > 1 ∧ !isStrLit (a 1) then cErr file (Node.start (a 1)) "expect-strlit" else nop
    | .xml =>
      if argc ≠ 3 then cErr file c.np "argc" else
      if !keyNameOk (a 0) then cErr file (Node.start (a 0)) "key-name" else
      if !isStrLit (a 1) then cErr file (Node.start (a 1)) "expect-strlit" else
      if !keyNameOk (a 2) then cErr file (Node.start (a 2)) "expect-keyname" else nop
    | .sqlCover =>
      if argc ≠ 1 then cErr file c.np "argc" else key0 (Node.start (a 0))


/-- the `*Checking` functions as steps of the pass -/
def builtinCheck (oracle : Bytes → Option Bytes) (file : Bytes) (c : CallInfo) : CM Unit := fun s =>
  match builtinCheckD oracle file c s with
  | .ok d => .ok () (d.apply s)
  | .err e => .err e
  | .need q => .need q

section
-- `registered name` (FuncCall table); `fcheck`: the checker of a registered function, none = no checker
variable (file : Bytes) (registered : Bytes → Bool) (fcheck : CallInfo → Option (CM Unit))

def isMapKeyLit : Node → Bool
  | .floatLit _ _ | .intLit _ _ | .boolLit _ _ | .nilLit _ | .list _ _ _ | .map _ _ _ => true
  | _ => false

mutual
/-- `RunStmtCheck` -/
def checkNode : Nat → Node → CM Unit
  | 0, _ => cFuel
  | f+1, n => match n with
    | .ident _ _ | .strLit _ _ | .intLit _ _ | .floatLit _ _ | .boolLit _ _ | .nilLit _ => pure ()
    | .list xs lb _ => fun s =>
      match checkNodes f xs s with
      | .err e => .err (e.append file lb)
      | r => r
    | .map kvs _ _ => checkMap f kvs
    | .paren e _ _ => checkNode f e
    | .attr o a _ => do checkOpt f o; checkOpt f a
    | .index _ idx _ _ => checkNodes f idx
    | .inE l r _ => do checkNode f r; checkNode f l
    | .arith _ l r _ => do checkNode f l; checkNode f r
    | .cond _ l r _ => do checkNode f l; checkNode f r
    | .unary _ e _ => checkNode f e
    | .assign _ lhs rhs _ => do checkNodes f lhs; checkNodes f rhs
    | .call name args np _ _ site =>
      if !registered name then cErr file np "unsupported-func" else fun s =>
      match checkNodes f args s with
      | .err e => .err (e.append file np)
      | .ok _ s' =>
        (match fcheck ⟨name, args, np, site⟩ with
         | none => .err (PlErr.new file np "no-check-for-func")
         | some c => c s')
      | r => r
    | .slice obj st en sp _ _ _ => do
      checkNode f obj; checkOpt f st; checkOpt f en; checkOpt f sp
    | .ifelse ifs els _ => do
      cPush
      checkIfs f ifs
      cPush
      checkOptBlock f els
      cPop
      cPop
    | .forS ini c l body _ => do
      cPush
      checkOpt f ini
      checkOpt f c
      cMod fun s => { s with loops := s.loops + 1 }
      cPush
      checkOptBlock f body
      cPop
      checkOpt f l
      cMod fun s => { s with loops := s.loops - 1 }
      cPop
    | .forIn var iter body fp _ => do
      cPush
      match var with
      | .ident _ _ => pure ()
      | _ => cErr file fp "forin-var"
      checkNode f iter
      cMod fun s => { s with loops := s.loops + 1 }
      cPush
      checkOptBlock f body
      cPop
      cMod fun s => { s with loops := s.loops - 1 }
      cPop
    | .brk p => do
      let s ← cGet
      if s.loops = 0 then cErr file p "break-not-in-loop" else pure ()
    | .cont p => do
      let s ← cGet
      if s.loops = 0 then cErr file p "continue-not-in-loop" else pure ()

def checkNodes : Nat → List Node → CM Unit
  | 0, _ => cFuel
  | _, [] => pure ()
  | f+1, n :: r => do checkNode f n; checkNodes f r

def checkOpt : Nat → Option Node → CM Unit
  | 0, _ => cFuel
  | _, none => pure ()
  | f+1, some n => checkNode f n

def checkOptBlock : Nat → Option (List Node) → CM Unit
  | 0, _ => cFuel
  | _, none => pure ()
  | f+1, some b => checkNodes f b

def checkMap : Nat → List (Node × Node) → CM Unit
  | 0, _ => cFuel
  | _, [] => pure ()
  | f+1, (k, v) :: r => do
    if isMapKeyLit k then cErr file (Node.start k) "map-key-expect-string" else pure ()
    checkNode f k
    checkNode f v
    checkMap f r

def checkIfs : Nat → List (Node × Option (List Node) × Pos) → CM Unit
  | 0, _ => cFuel
  | _, [] => pure ()
  | f+1, (c, b, _) :: r => do
    checkNode f c
    cPush
    checkOptBlock f b
    cPop
    checkIfs f r
end

end

/-- `(*Script).Check` with the builtin table -/
def checkScript (fuel : Nat) (oracle : Bytes → Option Bytes) (fns : List Bytes) (file : Bytes) (stmts : List Node) : CRes Unit :=
  checkNodes file (fun n => fns.contains n) (fun c => some (builtinCheck oracle file c)) fuel stmts {}

end Platypus
