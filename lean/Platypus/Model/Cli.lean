/-!
The command-line runner (internal/cmd/platypus/run/run.go, runScript) as a sequence of steps over
an abstract point: the maps (tags, fields) are shared by reference with the point, while the
measurement, the time and the drop flag are copied by value when they are read.
-/
namespace Platypus.Cli

/-- what the runner renders -/
structure Out where
  meas : Nat
  time : Nat
  drop : Bool
  maps : Nat            -- tags and fields (read through the shared maps at rendering time)
  deriving DecidableEq, Repr

/-- the point as the library sees it -/
structure Pt where
  meas : Nat
  time : Nat
  drop : Bool
  maps : Nat
  deriving DecidableEq, Repr

inductive Step | init | run | readMeas | readTime | readDrop | readMaps | render
  deriving DecidableEq, Repr

structure St where
  pt : Pt
  meas : Nat := 0
  time : Nat := 0
  drop : Bool := false
  out : Option Out := none

/-- one step; `script` is the effect of the library's Run on the point -/
def step (script : Pt → Pt) (initial : Pt) (s : St) : Step → St
  | .init => { s with pt := initial, meas := initial.meas, time := initial.time, drop := false }
  | .run => { s with pt := script s.pt }
  | .readMeas => { s with meas := s.pt.meas }
  | .readTime => { s with time := s.pt.time }
  | .readDrop => { s with drop := s.pt.drop }
  | .readMaps => s                      -- the local map variables alias the point's maps
  | .render => { s with out := some ⟨s.meas, s.time, s.drop, s.pt.maps⟩ }

def runSteps (script : Pt → Pt) (initial : Pt) (steps : List Step) : St :=
  steps.foldl (step script initial) { pt := initial }

/-- what the library API yields for the same script and input -/
def libraryOut (script : Pt → Pt) (initial : Pt) : Out :=
  let p := script initial
  ⟨p.meas, p.time, p.drop, p.maps⟩

def parseStep : String → Option Step
  | "init" => some .init | "run" => some .run | "read:Measurement" => some .readMeas
  | "read:Time" => some .readTime | "read:Drop" => some .readDrop
  | "read:Fields" => some .readMaps | "read:Tags" => some .readMaps | "render" => some .render
  | _ => none

end Platypus.Cli
