import Platypus.Model.Render
/-!
pkg/inimpl/guancecloud/input/point.go and the point helpers of funcs/utils.go, as pure functions.
`cs` arguments are the (already computed) result of runtime.Conv2String: `some text` or `none`
for an error — the conversion itself lives in Eval because it may consult an engine.
-/
namespace Platypus

namespace Point

/-- `InitPt`: index from the host's maps (fields first, then tags) -/
def init (m : Bytes) (tags : List (Bytes × Bytes)) (fields : List (Bytes × Val)) (time : Int) : Point :=
  let fi : List (Bytes × (DType × Bool)) := fields.filterMap fun (k, v) =>
    match v with
    | .nil => some (k, (.nil, false))
    | .int _ => some (k, (.int, false))
    | .float _ => some (k, (.float, false))
    | .bool _ => some (k, (.bool, false))
    | .str _ => some (k, (.str, false))
    | .ref _ => none
  let idx := tags.foldl (fun acc (k, _) => aset k (DType.str, true) acc) fi
  { meas := m, tags := tags, fields := fields, time := time, drop := false, idx := idx }

/-- `(*Point).Get`: none = "not found" error -/
def get (pt : Point) (key : Bytes) : Option TV :=
  match alookup key pt.idx with
  | none => none
  | some (t, isTag) =>
    if t = .void ∨ t = .nil then some ⟨.nil, .nil⟩
    else if isTag then
      match alookup key pt.tags with
      | some s => some ⟨.str s, .str⟩
      | none => some ⟨.nil, .nil⟩
    else
      match alookup key pt.fields with
      | some v => some ⟨v, t⟩
      | none => some ⟨.nil, .nil⟩

/-- `(*Point).Delete` -/
def delete (pt : Point) (key : Bytes) : Point :=
  match alookup key pt.idx with
  | none => pt
  | some (_, isTag) =>
    if isTag then { pt with tags := aerase key pt.tags, idx := aerase key pt.idx }
    else { pt with fields := aerase key pt.fields, idx := aerase key pt.idx }

/-- `(*Point).Set(key, value, dtype)`; `cs` = Conv2String(value, dtype) -/
def set (pt : Point) (key : Bytes) (x : TV) (cs : Option Bytes) : Point :=
  let (pt, isTag) : Point × Bool :=
    match alookup key pt.idx with
    | some (_, isTag) => (pt, isTag)
    | none => ({ pt with idx := aset key (x.t, false) pt.idx }, false)
  if !isTag then
    match x.t with
    | .nil | .void | .invalid =>
      { pt with idx := aset key (.nil, false) pt.idx, fields := aset key .nil pt.fields }
    | .list | .map =>
      match cs with
      | some s => { pt with fields := aset key (.str s) pt.fields, idx := aset key (.str, false) pt.idx }
      | none => { pt with idx := aset key (.nil, false) pt.idx, fields := aset key .nil pt.fields }
    | _ => { pt with fields := aset key x.v pt.fields, idx := aset key (x.t, false) pt.idx }
  else
    if x.t = .void ∨ x.t = .invalid then { pt with tags := aerase key pt.tags }
    else match cs with
      | some s => { pt with tags := aset key s pt.tags }
      | none => pt

/-- `(*Point).SetTag(key, value, dtype)`; `cs` = Conv2String(value, dtype) -/
def setTag (pt : Point) (key : Bytes) (cs : Option Bytes) : Point :=
  let pt : Point :=
    match alookup key pt.idx with
    | none => { pt with idx := aset key (.str, true) pt.idx }
    | some (_, true) => pt
    | some (_, false) => { pt with fields := aerase key pt.fields, idx := aset key (.str, true) pt.idx }
  match cs with
  | some s => { pt with tags := aset key s pt.tags }
  | none => { pt with tags := aset key [] pt.tags }

/-- `renamePtKey(in, to, from)` after `_` ↦ message (the fixed version) -/
def rename (pt : Point) (to frm : Bytes) : Point :=
  if to = frm then pt
  else match alookup frm pt.idx with
    | none => pt
    | some (t, isTag) =>
      let pt := pt.delete to
      let pt :=
        if isTag then
          match alookup frm pt.tags with
          | some v => { pt with tags := aerase frm (aset to v pt.tags) }
          | none => { pt with tags := aerase frm pt.tags }
        else
          match alookup frm pt.fields with
          | some v => { pt with fields := aerase frm (aset to v pt.fields) }
          | none => { pt with fields := aerase frm pt.fields }
      { pt with idx := aerase frm (aset to (t, isTag) pt.idx) }

end Point

def originKey : Bytes := bytesOf "message"
/-- `_` stands for `message` -/
def normKey (k : Bytes) : Bytes := if k = [95] then originKey else k

end Platypus
