import Platypus.Model.Basic
/-!
Operators of pkg/engine/runtime/runtime.go (v1) — shared verbatim by runtimev2/run.go:
condTrue, unary, arithmetic, comparison/equality/logic (`condOp`), membership, reflect.DeepEqual,
and the spf13/cast conversions they rely on.  Operator results are `Except String TV`: the string
is an error-class label (the Go code wraps it in NewRunError at the operator position).
-/
namespace Platypus

/-! ## float primitives (IEEE binary64 through Lean's `Float`; values are bit patterns) -/
def fOf (b : UInt64) : Float := Float.ofBits b
def fBits (f : Float) : UInt64 := f.toBits
def fadd (a b : UInt64) : UInt64 := fBits (fOf a + fOf b)
def fsub (a b : UInt64) : UInt64 := fBits (fOf a - fOf b)
def fmul (a b : UInt64) : UInt64 := fBits (fOf a * fOf b)
def fdiv (a b : UInt64) : UInt64 := fBits (fOf a / fOf b)
def fneg (a : UInt64) : UInt64 := fBits (- fOf a)
def feq (a b : UInt64) : Bool := fOf a == fOf b
def flt (a b : UInt64) : Bool := fOf a < fOf b
def fle (a b : UInt64) : Bool := fOf a <= fOf b
def fIsZero (a : UInt64) : Bool := fOf a == 0.0
/-- Go `float64(int64)` -/
def i2f (i : Int) : UInt64 := fBits (Int64.ofInt i).toFloat
/-- Go `int64(float64)` on amd64 (CVTTSD2SQ): NaN and out-of-range give minInt64 -/
def f2i (b : UInt64) : Int :=
  let f := fOf b
  if f.isNaN then minI64
  else if f >= 9223372036854775808.0 then minI64
  else if f < -9223372036854775808.0 then minI64
  else f.toInt64.toInt

/-! ## cast.* conversions on the operand kinds that reach them -/
def Val.toI64 : Val → Int
  | .int i => i
  | .bool b => if b then 1 else 0
  | .float f => f2i f
  | _ => 0
def Val.toF64 : Val → UInt64
  | .int i => i2f i
  | .bool b => if b then i2f 1 else i2f 0
  | .float f => f
  | _ => i2f 0
def Val.toBool : Val → Bool
  | .bool b => b
  | .int i => i != 0
  | .float f => !fIsZero f
  | _ => false

/-! ## lengths / emptiness need the heap -/
def listLen (h : Heap) : Val → Nat
  | .ref a => match h.get? a with | some (.list xs) => xs.length | _ => 0
  | _ => 0
def mapLen? (h : Heap) : Val → Option Nat
  | .ref a => match h.get? a with | some (.map kvs) => some kvs.length | _ => none
  | _ => none

/-- `condTrue(val, dtype)` -/
def condTrue (h : Heap) (x : TV) : Bool :=
  match x.t with
  | .str => match x.v with | .str s => !s.isEmpty | _ => false   -- cast.ToString(non-string) = "" only for nil
  | .bool => x.v.toBool
  | .int => x.v.toI64 != 0
  | .float => !fIsZero x.v.toF64
  | .list => listLen h x.v != 0
  | .map => match mapLen? h x.v with | some n => n != 0 | none => false
  | _ => false

inductive UOp | neg | pos | not deriving DecidableEq, Repr, Inhabited
inductive AOp | add | sub | mul | div | mod deriving DecidableEq, Repr, Inhabited
inductive COp | eq | ne | lt | le | gt | ge | and | or deriving DecidableEq, Repr, Inhabited

/-- `RunUnaryExpr` after evaluating the operand -/
def unop (h : Heap) (op : UOp) (x : TV) : Except String TV :=
  match op with
  | .neg | .pos =>
    match x.t with
    | .bool =>
      let b := match x.v with | .bool b => b | _ => false
      .ok ⟨.int (if b then (if op = .neg then -1 else 1) else 0), .int⟩
    | .float =>
      let f := match x.v with | .float f => f | _ => i2f 0
      .ok ⟨.float (if op = .neg then fneg f else f), .float⟩
    | .int =>
      let i := match x.v with | .int i => i | _ => 0
      .ok ⟨.int (if op = .neg then wrap64 (-i) else i), .int⟩
    | _ => .error "unary-operand-type"
  | .not =>
    match x.v with
    | .nil => .ok ⟨.bool true, .bool⟩
    | .bool b => .ok ⟨.bool (!b), .bool⟩
    | .float f => .ok ⟨.bool (fIsZero f), .bool⟩
    | .int i => .ok ⟨.bool (i == 0), .bool⟩
    | .str s => .ok ⟨.bool s.isEmpty, .bool⟩
    | .ref a => match h.get? a with
      | some (.list xs) => .ok ⟨.bool xs.isEmpty, .bool⟩
      | some (.map kvs) => .ok ⟨.bool kvs.isEmpty, .bool⟩
      | none => .error "unary-operand-type"

def arithType : DType → Bool
  | .int | .float | .bool | .str => true
  | _ => false
def cmpType : DType → Bool
  | .int | .float | .bool => true
  | _ => false

/-- `arithOpInt` with Go's wrap-around and truncation -/
def arithOpInt (l r : Int) : AOp → Except String Int
  | .add => .ok (wrap64 (l + r))
  | .sub => .ok (wrap64 (l - r))
  | .mul => .ok (wrap64 (l * r))
  | .div => if r = 0 then .error "int-div-zero" else .ok (wrap64 (Int.tdiv l r))
  | .mod => if r = 0 then .error "int-mod-zero" else .ok (wrap64 (Int.tmod l r))

def arithOpFloat (l r : UInt64) : AOp → Except String UInt64
  | .add => .ok (fadd l r)
  | .sub => .ok (fsub l r)
  | .mul => .ok (fmul l r)
  | .div => if fIsZero r then .error "float-div-zero" else .ok (fdiv l r)
  | .mod => .error "float-mod"

/-- `RunArithmeticExpr` / `runAssignArith` after evaluating both operands -/
def arith (op : AOp) (l r : TV) : Except String TV :=
  if !arithType l.t then .error "arith-lhs-type"
  else if !arithType r.t then .error "arith-rhs-type"
  else if l.t = .str ∨ r.t = .str then
    if op ≠ .add then .error "arith-str-op"
    else if l.t = .str ∧ r.t = .str then
      match l.v, r.v with
      | .str a, .str b => .ok ⟨.str (a ++ b), .str⟩
      | _, _ => .error "arith-str-mistagged"
    else .error "arith-str-mixed"
  else if l.t = .float ∨ r.t = .float then
    match arithOpFloat l.v.toF64 r.v.toF64 op with
    | .ok f => .ok ⟨.float f, .float⟩
    | .error e => .error e
  else
    match arithOpInt l.v.toI64 r.v.toI64 op with
    | .ok i => .ok ⟨.int i, .int⟩
    | .error e => .error e

/-! ## reflect.DeepEqual on `any` values -/
def pairMem (p : Nat × Nat) (vis : List (Nat × Nat)) : Bool := vis.any (· == p)

mutual
/-- fuel-indexed; `vis` is DeepEqual's visited set (pairs of addresses, smaller first), shared by
    the whole traversal as in Go: `none` = not equal, `some vis'` = equal so far. -/
def deepEq (h : Heap) : Nat → List (Nat × Nat) → Val → Val → Option (List (Nat × Nat))
  | 0, vis, _, _ => some vis
  | fuel+1, vis, a, b =>
    match a, b with
    | .nil, .nil => some vis
    | .bool x, .bool y => if x == y then some vis else none
    | .int x, .int y => if x == y then some vis else none
    | .float x, .float y => if feq x y then some vis else none
    | .str x, .str y => if x == y then some vis else none
    | .ref x, .ref y =>
      let p := if x ≤ y then (x, y) else (y, x)
      match h.get? x, h.get? y with
      | some (.list xs), some (.list ys) =>
        if pairMem p vis then some vis
        else if xs.length != ys.length then none
        else if x == y then some (p :: vis)
        else deepEqList h fuel (p :: vis) xs ys
      | some (.map xs), some (.map ys) =>
        if pairMem p vis then some vis
        else if xs.length != ys.length then none
        else if x == y then some (p :: vis)
        else deepEqMap h fuel (p :: vis) xs ys
      | _, _ => none
    | _, _ => none
def deepEqList (h : Heap) : Nat → List (Nat × Nat) → List Val → List Val → Option (List (Nat × Nat))
  | 0, vis, _, _ => some vis
  | _, vis, [], [] => some vis
  | fuel+1, vis, x :: xs, y :: ys =>
    match deepEq h fuel vis x y with
    | some vis' => deepEqList h fuel vis' xs ys
    | none => none
  | _, _, _, _ => none
def deepEqMap (h : Heap) : Nat → List (Nat × Nat) → List (Bytes × Val) → List (Bytes × Val) → Option (List (Nat × Nat))
  | 0, vis, _, _ => some vis
  | _, vis, [], _ => some vis
  | fuel+1, vis, (k, v) :: r, ys =>
    match alookup k ys with
    | some w =>
      match deepEq h fuel vis v w with
      | some vis' => deepEqMap h fuel vis' r ys
      | none => none
    | none => none
end

def deepFuel (h : Heap) : Nat := 64 + 4 * h.length * (h.length + 1)

def deepEqual (h : Heap) (a b : Val) : Bool := (deepEq h (deepFuel h) [] a b).isSome

def isNum : DType → Bool
  | .int | .bool | .float => true
  | _ => false

/-- the `==` decision of `condOp` (after the fix: integer equality is exact) -/
def eqVal (h : Heap) (l r : TV) : Bool :=
  match l.t with
  | .int | .bool | .float =>
    if !isNum r.t then false
    else if l.t = .float ∨ r.t = .float then feq l.v.toF64 r.v.toF64
    else l.v.toI64 == r.v.toI64
  | .str =>
    if r.t ≠ .str then false
    else match l.v, r.v with
      | .str a, .str c => a == c
      | _, _ => false
  | .nil => r.t = .nil
  | _ => deepEqual h l.v r.v

/-- `condOp`.  For NEQ the Go code negates each branch of EQEQ separately (float `!=` is
    `!(==)` also for NaN), so `!=` is the negation of `==`. -/
def condOp (h : Heap) (op : COp) (l r : TV) : Except String TV :=
  let b (x : Bool) : Except String TV := .ok ⟨.bool x, .bool⟩
  match op with
  | .eq => b (eqVal h l r)
  | .ne => b (!eqVal h l r)
  | _ =>
    if !cmpType l.t then .error "not-comparable"
    else if !cmpType r.t then .error "not-comparable"
    else match op with
      | .and | .or =>
        if l.t ≠ .bool ∨ r.t ≠ .bool then .error "logic-operand-type"
        else if op = .and then b (l.v.toBool && r.v.toBool) else b (l.v.toBool || r.v.toBool)
      | .lt => if l.t = .float ∨ r.t = .float then b (flt l.v.toF64 r.v.toF64) else b (l.v.toI64 < r.v.toI64)
      | .le => if l.t = .float ∨ r.t = .float then b (fle l.v.toF64 r.v.toF64) else b (l.v.toI64 ≤ r.v.toI64)
      | .gt => if l.t = .float ∨ r.t = .float then b (flt r.v.toF64 l.v.toF64) else b (l.v.toI64 > r.v.toI64)
      | .ge => if l.t = .float ∨ r.t = .float then b (fle r.v.toF64 l.v.toF64) else b (l.v.toI64 ≥ r.v.toI64)
      | _ => .error "op-error"

/-- bytes.Contains -/
def isInfix (needle hay : Bytes) : Bool :=
  match hay with
  | [] => needle.isEmpty
  | _ :: t => needle.isPrefixOf hay || isInfix needle t

/-- `RunInExpr` after evaluating both operands -/
def inOp (h : Heap) (l r : TV) : Except String TV :=
  match r.t with
  | .str =>
    if l.t ≠ .str then .error "in-lhs-type"
    else match l.v, r.v with
      | .str s, .str v => .ok ⟨.bool (isInfix s v), .bool⟩
      | _, _ => .ok ⟨.bool false, .bool⟩
  | .map =>
    if l.t ≠ .str then .error "in-lhs-type"
    else match l.v, r.v with
      | .str s, .ref a => match h.get? a with
        | some (.map kvs) => .ok ⟨.bool ((alookup s kvs).isSome), .bool⟩
        | _ => .ok ⟨.bool false, .bool⟩
      | _, _ => .ok ⟨.bool false, .bool⟩
  | .list =>
    match r.v with
    | .ref a => match h.get? a with
      | some (.list xs) => .ok ⟨.bool (xs.any (fun e => deepEqual h l.v e)), .bool⟩
      | _ => .ok ⟨.bool false, .bool⟩
    | _ => .ok ⟨.bool false, .bool⟩
  | _ => .error "in-rhs-type"

end Platypus
