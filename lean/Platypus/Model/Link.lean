import Platypus.Model.State
/-!
The use() linker (pkg/engine/callref.go after the fixes): search path with its on-path set,
depth-first resolution with the memo of already linked scripts, error copying and chain
appending, and the driver loop over a visiting order (Go's map iteration order is an input).
-/
namespace Platypus.Link

/-- one use("callee") call of a script, in CallRef (traversal) order -/
structure Use where
  callee : Bytes
  pos : Pos          -- CallExpr.NamePos
  site : Nat
  deriving DecidableEq, Repr, Inhabited

/-- a script offered to the linker: parsed and checked (`ok uses`) or rejected earlier (`bad err`) -/
inductive Status
  | ok (uses : List Use)
  | bad (e : PlErr)
  deriving Repr, Inhabited

abbrev Scripts := List (Bytes × Status)

structure St where
  memo : List Bytes := []              -- retMap: scripts linked so far
  path : List Bytes := []              -- searchPath.path
  onPath : List Bytes := []            -- searchPath.nodeMap
  rootPos : Pos := Pos.invalid         -- param.namePos: the root's current call site
  bind : List (Nat × Bytes) := []      -- CallExpr.PrivateData assignments (site ↦ callee)
  deriving Repr, Inhabited

def pathStr (p : List Bytes) : Bytes :=
  match p with
  | [] => []
  | x :: r => r.foldl (fun acc y => acc ++ bytesOf " -> " ++ y) x

/-- `Pop`: drop the last path entry and take it out of the on-path set -/
def pop (s : St) : St :=
  match s.path.getLast? with
  | none => s
  | some last => { s with path := s.path.dropLast, onPath := s.onPath.erase last }

/-- the loop over one script's use() calls; `rec` resolves a callee known to be in allNg -/
def dfsUses (all : Scripts) (rec : Bytes → List Use → St → Except (PlErr × St) St) (name : Bytes) :
    List Use → St → Except (PlErr × St) St
  | [], s => .ok s
  | u :: rest, s =>
    let s := if s.path.length = 1 then { s with rootPos := u.pos } else s
    match alookup u.callee all with
    | none => .error (PlErr.new name u.pos "script-not-found", s)
    | some (.bad e) => .error (e.append name u.pos, s)
    | some (.ok cuses) =>
      let s := { s with bind := (u.site, u.callee) :: s.bind }
      match rec u.callee cuses s with
      | .error (e, s') => .error (e.append name u.pos, s')
      | .ok s' => dfsUses all rec name rest s'

/-- `dfs(name, procc, sPath, p)` for a script known to be in allNg with the given uses; fuel bounds
    the depth of the search path.  An error also carries the state, because `retMap` and the
    `PrivateData` bindings made so far persist. -/
def dfs : Nat → Scripts → Bytes → Bytes → List Use → St → Except (PlErr × St) St
  | 0, _, _, _, _, s => .error (⟨[], "fuel"⟩, s)
  | f+1, all, root, name, uses, s =>
    -- Push
    if s.onPath.contains name then
      .error (PlErr.new root s.rootPos "circular-dependency", s)
    else
      let s := { s with path := s.path ++ [name], onPath := name :: s.onPath }
      if s.memo.contains name then .ok (pop s)
      else
        match dfsUses all (fun c cu st => dfs f all root c cu st) name uses s with
        | .error e => .error e
        | .ok s' => .ok (pop { s' with memo := name :: s'.memo })

structure Result where
  accepted : List Bytes := []            -- retMap
  errors : List (Bytes × PlErr) := []    -- retErrMap (link errors of the visited roots)
  bind : List (Nat × Bytes) := []
  deriving Repr, Inhabited

/-- `EngineCallRefLinkAndCheck` visiting the checked scripts in `order` -/
def link (all : Scripts) (order : List Bytes) : Result :=
  let fuel := all.length + 2
  order.foldl (fun (res : Result) name =>
    match alookup name all with
    | some (.ok uses) =>
      (match dfs fuel all name name uses { memo := res.accepted, bind := res.bind } with
       | .ok s => { res with accepted := s.memo, bind := s.bind }
       | .error (e, s) => { accepted := s.memo, errors := (name, e) :: res.errors, bind := s.bind })
    | _ => res) {}

end Platypus.Link
