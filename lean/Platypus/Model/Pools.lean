/-!
Object pools (sync.Pool of parser, Task, Point, TFMeta): an object is a valuation of its fields; `Get`
returns an arbitrary previously `Put` object or a fresh one; the reset path assigns a set of fields
from the operation's own inputs.  What an operation then computes is a function of the object
after reset.
-/
namespace Platypus.Pools

/-- a pooled object: field name ↦ value (values are abstract codes) -/
abbrev Obj := String → Nat

/-- the reset path: the `assigned` fields take the values `init` determines from the operation's
    inputs; every other field keeps what the recycled object happened to hold -/
def reset (assigned : List String) (init : String → Nat) (o : Obj) : Obj :=
  fun f => if assigned.contains f then init f else o f

/-- an operation reads only the declared fields of the object -/
def ReadsOnly (fields : List String) (op : Obj → Nat) : Prop :=
  ∀ o o', (∀ f ∈ fields, o f = o' f) → op o = op o'

/-- a pool: the objects that have been `Put` so far -/
abbrev Pool := List Obj

/-- one operation of a history: take any object out of the pool (index `pick`, or a fresh one when
    the index is out of range), reset it, compute, put it back dirty (`dirty` is whatever the
    operation left in the fields) -/
structure Op where
  init : String → Nat
  compute : Obj → Nat
  dirty : Obj → Obj
  pick : Nat

def fresh : Obj := fun _ => 0

def stepOp (assigned : List String) (pool : Pool) (op : Op) : Nat × Pool :=
  let o := pool.getD op.pick fresh
  let r := reset assigned op.init o
  (op.compute r, (op.dirty r) :: pool.eraseIdx op.pick)

/-- results of a whole history -/
def runHistory (assigned : List String) : Pool → List Op → List Nat
  | _, [] => []
  | pool, op :: rest =>
    let (res, pool') := stepOp assigned pool op
    res :: runHistory assigned pool' rest

end Platypus.Pools
