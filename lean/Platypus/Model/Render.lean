import Platypus.Model.State
/-! Canonical text of a deep value (used for probes, oracle queries and final-state comparison). -/
namespace Platypus

def hexDigit (n : Nat) : UInt8 := if n < 10 then (48 + n).toUInt8 else (87 + n).toUInt8
def hexOf (bs : Bytes) : Bytes := bs.foldr (fun b acc => hexDigit (b.toNat / 16) :: hexDigit (b.toNat % 16) :: acc) []

def natDigits : Nat → Nat → Bytes → Bytes
  | 0, _, acc => acc
  | f+1, n, acc => if n < 10 then (48 + n).toUInt8 :: acc else natDigits f (n / 10) ((48 + n % 10).toUInt8 :: acc)
def decNat (n : Nat) : Bytes := natDigits 80 n []
/-- strconv.FormatInt(i, 10) -/
def decInt (i : Int) : Bytes := if i < 0 then 45 :: decNat i.natAbs else decNat i.toNat

/-- insertion sort of keys by byte order (Go's sort.Strings) -/
def bytesLe : Bytes → Bytes → Bool
  | [], _ => true
  | _ :: _, [] => false
  | a :: as, b :: bs => if a < b then true else if a > b then false else bytesLe as bs
def insertKey {β} (kv : Bytes × β) : List (Bytes × β) → List (Bytes × β)
  | [] => [kv]
  | x :: r => if bytesLe kv.1 x.1 then kv :: x :: r else x :: insertKey kv r
def sortKeys {β} (m : List (Bytes × β)) : List (Bytes × β) := m.foldr insertKey []

def idxOf (a : Nat) : List Nat → Nat → Option Nat
  | [], _ => none
  | x :: r, k => if x = a then some k else idxOf a r (k + 1)

mutual
/-- `path`: addresses of the containers being rendered, innermost first (cycle detection) -/
def render (h : Heap) : Nat → List Nat → Val → Bytes
  | _, _, .nil => [110]                       -- n
  | _, _, .bool b => if b then [116] else [102]   -- t / f
  | _, _, .int i => 105 :: decInt i           -- i<dec>
  | _, _, .float b => 100 :: decNat b.toNat   -- d<bits>
  | _, _, .str s => 115 :: hexOf s            -- s<hex>
  | 0, _, .ref _ => [63]                      -- ?
  | f+1, path, .ref a =>
    match idxOf a path 0 with
    | some k => 94 :: decNat k                -- ^k : cycle to the k-th enclosing container
    | none => match h.get? a with
      | some (.list xs) => 91 :: renderList h f (a :: path) xs ++ [93]
      | some (.map kvs) => 123 :: renderMap h f (a :: path) (sortKeys kvs) ++ [125]
      | none => [63]
def renderList (h : Heap) : Nat → List Nat → List Val → Bytes
  | _, _, [] => []
  | 0, _, _ => [63]
  | f+1, path, [x] => render h f path x
  | f+1, path, x :: r => render h f path x ++ 44 :: renderList h f path r
def renderMap (h : Heap) : Nat → List Nat → List (Bytes × Val) → Bytes
  | _, _, [] => []
  | 0, _, _ => [63]
  | f+1, path, [(k, v)] => hexOf k ++ 58 :: render h f path v
  | f+1, path, (k, v) :: r => hexOf k ++ 58 :: render h f path v ++ 44 :: renderMap h f path r
end

def renderFuel (h : Heap) : Nat := 1000 + 50 * h.length
def renderV (h : Heap) (v : Val) : Bytes := render h (renderFuel h) [] v
/-- value with its tag -/
def renderTV (h : Heap) (x : TV) : Bytes := bytesOf x.t.name ++ 61 :: renderV h x.v

end Platypus
