import Platypus.Model.State
/-! Canonical text of a deep value (used for probes, oracle queries and final-state comparison). -/
namespace Platypus

def hexDigit (n : Nat) : UInt8 := if n < 10 then (48 + n).toUInt8 else (87 + n).toUInt8
def hexOf (bs : Bytes) : Bytes := bs.foldr (fun b acc => hexDigit (b.toNat / 16) :: hexDigit (b.toNat % 16) :: acc) []

def natDigits : Nat → Nat → Bytes → Bytes
  | 0, _, acc => acc
  | f+1, n, acc => if n < 10 then (48 + n).toUInt8 :: acc else natDigits f (n / 10) ((48 + n % 10).toUInt8 :: acc)
def decNat (n : Nat) : Bytes := natDigits 80 n []
/-- strconv.FormatInt(i, 10) -/
def decInt (i : Int) : Bytes := if i < 0 then 45 :: decNat i.natAbs else decNat i.toNat

/-- insertion sort of keys by byte order (Go's sort.Strings) -/
def bytesLe : Bytes → Bytes → Bool
  | [], _ => true
  | _ :: _, [] => false
  | a :: as, b :: bs => if a < b then true else if a > b then false else bytesLe as bs
def insertKey {β} (kv : Bytes × β) : List (Bytes × β) → List (Bytes × β)
  | [] => [kv]
  | x :: r => if bytesLe kv.1 x.1 then kv :: x :: r else x :: insertKey kv r
def sortKeys {β} (m : List (Bytes × β)) : List (Bytes × β) := m.foldr insertKey []

def idxOf (a : Nat) : List Nat → Nat → Option Nat
  | [], _ => none
  | x :: r, k => if x = a then some k else idxOf a r (k + 1)

/-- rendering budget: at most this many values are written out per top-level value; the rest is
    `~` (both the model and the harness truncate identically, so huge shared structures compare) -/
def renderBudget : Nat := 3000

mutual
/-- `path`: addresses of the containers being rendered, innermost first (cycle detection);
    `b`: remaining budget; returns the text and the budget left -/
def render (h : Heap) : Nat → List Nat → Nat → Val → Bytes × Nat
  | _, _, 0, _ => ([126], 0)                         -- ~
  | _, _, b+1, .nil => ([110], b)                     -- n
  | _, _, b+1, .bool x => (if x then [116] else [102], b)   -- t / f
  | _, _, b+1, .int i => (105 :: decInt i, b)         -- i<dec>
  | _, _, b+1, .float x => (100 :: decNat x.toNat, b) -- d<bits>
  | _, _, b+1, .str s => (115 :: hexOf s, b)          -- s<hex>
  | 0, _, b+1, .ref _ => ([63], b)                    -- ?
  | f+1, path, b+1, .ref a =>
    match idxOf a path 0 with
    | some k => (94 :: decNat k, b)                   -- ^k : cycle to the k-th enclosing container
    | none => match h.get? a with
      | some (.list xs) => let (t, b') := renderList h f (a :: path) b xs; (91 :: t ++ [93], b')
      | some (.map kvs) => let (t, b') := renderMap h f (a :: path) b (sortKeys kvs); (123 :: t ++ [125], b')
      | none => ([63], b)
def renderList (h : Heap) : Nat → List Nat → Nat → List Val → Bytes × Nat
  | _, _, b, [] => ([], b)
  | 0, _, b, _ => ([63], b)
  | f+1, path, b, [x] => render h f path b x
  | f+1, path, b, x :: r =>
    let (t1, b1) := render h f path b x
    let (t2, b2) := renderList h f path b1 r
    (t1 ++ 44 :: t2, b2)
def renderMap (h : Heap) : Nat → List Nat → Nat → List (Bytes × Val) → Bytes × Nat
  | _, _, b, [] => ([], b)
  | 0, _, b, _ => ([63], b)
  | f+1, path, b, [(k, v)] => let (t, b') := render h f path b v; (hexOf k ++ 58 :: t, b')
  | f+1, path, b, (k, v) :: r =>
    let (t1, b1) := render h f path b v
    let (t2, b2) := renderMap h f path b1 r
    (hexOf k ++ 58 :: t1 ++ 44 :: t2, b2)
end

def renderFuel (_h : Heap) : Nat := 2 * renderBudget + 100
def renderV (h : Heap) (v : Val) : Bytes := (render h (renderFuel h) [] renderBudget v).1
/-- the value contains itself (`a[0] = a`): its rendering holds a back reference `^k` (strings are
    rendered in hexadecimal, so the byte `^` can only be such a marker) -/
def containsItself (h : Heap) (v : Val) : Bool := (renderV h v).contains 94
/-- value with its tag -/
def renderTV (h : Heap) (x : TV) : Bytes := bytesOf x.t.name ++ 61 :: renderV h x.v


/-! ### reading a canonical rendering back (engine answers that are values) -/
def unhexNib' (c : UInt8) : UInt8 :=
  if 48 ≤ c && c ≤ 57 then c - 48 else if 97 ≤ c && c ≤ 102 then c - 87 else 0
def isHexDigit (c : UInt8) : Bool := (48 ≤ c && c ≤ 57) || (97 ≤ c && c ≤ 102)
def isDecDigit (c : UInt8) : Bool := (48 ≤ c && c ≤ 57) || c == 45

def takeHex : Bytes → Bytes × Bytes
  | a :: b :: r => if isHexDigit a && isHexDigit b then
      let (x, rest) := takeHex r
      ((unhexNib' a * 16 + unhexNib' b) :: x, rest)
    else ([], a :: b :: r)
  | r => ([], r)

def takeDec (s : Bytes) : Int × Bytes :=
  let ds := s.takeWhile isDecDigit
  let rest := s.dropWhile isDecDigit
  let (neg, ds) := match ds with | 45 :: r => (true, r) | r => (false, r)
  let n : Nat := ds.foldl (fun (acc : Nat) d => acc * 10 + (d.toNat - 48)) 0
  ((if neg then -(Int.ofNat n) else Int.ofNat n), rest)

mutual
/-- parse one rendered value, allocating lists and maps in the heap (no cycles: engines return trees) -/
def unrender : Nat → Heap → Bytes → Option (Val × Heap × Bytes)
  | 0, _, _ => none
  | _, h, 110 :: r => some (.nil, h, r)
  | _, h, 116 :: r => some (.bool true, h, r)
  | _, h, 102 :: r => some (.bool false, h, r)
  | _, h, 105 :: r => let (i, rest) := takeDec r; some (.int i, h, rest)
  | _, h, 100 :: r => let (i, rest) := takeDec r; some (.float i.toNat.toUInt64, h, rest)
  | _, h, 115 :: r => let (b, rest) := takeHex r; some (.str b, h, rest)
  | f+1, h, 91 :: r =>
    match unrenderList f h r [] with
    | some (xs, h', rest) => let (h'', a) := h'.alloc (.list xs); some (.ref a, h'', rest)
    | none => none
  | f+1, h, 123 :: r =>
    match unrenderMap f h r [] with
    | some (kvs, h', rest) => let (h'', a) := h'.alloc (.map kvs); some (.ref a, h'', rest)
    | none => none
  | _, _, _ => none
def unrenderList : Nat → Heap → Bytes → List Val → Option (List Val × Heap × Bytes)
  | 0, _, _, _ => none
  | _, h, 93 :: r, acc => some (acc.reverse, h, r)
  | f+1, h, 44 :: r, acc => unrenderList f h r acc
  | f+1, h, s, acc =>
    match unrender f h s with
    | some (v, h', rest) => unrenderList f h' rest (v :: acc)
    | none => none
def unrenderMap : Nat → Heap → Bytes → List (Bytes × Val) → Option (List (Bytes × Val) × Heap × Bytes)
  | 0, _, _, _ => none
  | _, h, 125 :: r, acc => some (acc.reverse, h, r)
  | f+1, h, 44 :: r, acc => unrenderMap f h r acc
  | f+1, h, s, acc =>
    let (k, rest) := takeHex s
    match rest with
    | 58 :: rest' =>
      match unrender f h rest' with
      | some (v, h', rest'') => unrenderMap f h' rest'' (aset k v acc)
      | none => none
    | _ => none
end

end Platypus
