import Platypus.Model.PointOps
import Platypus.Model.Utf8
/-!
The statement machine of pkg/engine/runtime/runtime.go: RunStmts, RunStmt's dispatch of statement
nodes, RunIfElseStmt, RunForStmt, RunForInStmt, break/continue, the three flags
(loopBreak/loopContinue/procExit), scope push/pop and the signal poll.

It is *generic in the expression evaluator* `ev : Node → EM TV`, so that theorems about control
flow hold for every evaluator; `Eval.lean` ties the knot (`use()` runs the machine at lower fuel).
-/
namespace Platypus

def voidTV : TV := ⟨.nil, .void⟩

/-! ### scopes (stack.go) -/
def scopeGet : List (List (Bytes × TV)) → Bytes → Option TV
  | [], _ => none
  | sc :: rest, k => match alookup k sc with
    | some v => some v
    | none => scopeGet rest k

def scopeHas : List (List (Bytes × TV)) → Bytes → Bool
  | [], _ => false
  | sc :: rest, k => (alookup k sc).isSome || scopeHas rest k

/-- update the nearest enclosing binding -/
def scopeUpdate : List (List (Bytes × TV)) → Bytes → TV → List (List (Bytes × TV))
  | [], _, _ => []
  | sc :: rest, k, v => if (alookup k sc).isSome then aset k v sc :: rest else sc :: scopeUpdate rest k v

/-- `(*Stack).Set`: update the nearest enclosing variable of that name, else create it in the current scope -/
def scopeSet (scs : List (List (Bytes × TV))) (k : Bytes) (v : TV) : List (List (Bytes × TV)) :=
  if scopeHas scs k then scopeUpdate scs k v
  else match scs with
    | [] => []
    | sc :: rest => aset k v sc :: rest

def pushScope : EM Unit := modTask fun t => { t with scopes := [] :: t.scopes }
def popScope : EM Unit := modTask fun t => { t with scopes := t.scopes.tail }
def clearScope : EM Unit := modTask fun t => { t with scopes := match t.scopes with | [] => [] | _ :: r => [] :: r }

/-- `ctx.SetVarb` -/
def setVarb (k : Bytes) (v : TV) : EM Unit :=
  modTask fun t => { t with scopes := scopeSet t.scopes (normKey k) v }

/-- `ctx.GetKey`: variables, then the point -/
def getKey (s : St) (k : Bytes) : Option TV :=
  let k := normKey k
  match scopeGet s.task.scopes k with
  | some v => some v
  | none => s.world.pt.get k

/-- run `m`, then `fin` whether `m` succeeded or failed (Go `defer`) -/
def EM.finally {α} (m : EM α) (fin : St → St) : EM α := fun s =>
  match m s with
  | .ok a s' => .ok a (fin s')
  | .err e s' => .err e (fin s')
  | r => r

def popSt (s : St) : St := { s with task := { s.task with scopes := s.task.scopes.tail } }

section
variable (env : Env)

/-- `ctx.ProcExit()`: polls the signal only while procExit is false -/
def procExit : EM Bool := fun s =>
  if !s.task.exit && env.hasSignal then
    let n := s.world.polls + 1
    let fired := match env.sigK with | some k => decide (k ≤ n) | none => false
    .ok fired { task := { s.task with exit := fired }, world := { s.world with polls := n } }
  else .ok s.task.exit s

/-- `ctx.StmtRetrun()` -/
def stmtReturn : EM Bool := fun s =>
  match procExit env s with
  | .ok true s' => .ok true s'
  | .ok false s' => .ok (s'.task.brk || s'.task.cont) s'
  | r => r

/-- n-th permutation (Lehmer code) of a list -/
def removeNth {α} : List α → Nat → Option (α × List α)
  | [], _ => none
  | x :: r, 0 => some (x, r)
  | x :: r, n+1 => match removeNth r n with
    | some (y, r') => some (y, x :: r')
    | none => none
def permute {α} : Nat → List α → Nat → List α
  | 0, _, _ => []
  | f+1, xs, code =>
    if xs.isEmpty then [] else
    match removeNth xs (code % xs.length) with
    | some (y, r) => y :: permute f r (code / xs.length)
    | none => []

variable (ev : Node → EM TV)

mutual
/-- `RunStmt` for statement nodes; everything else is the expression evaluator's -/
def runStmt : Nat → Node → EM TV
  | 0, _ => outOfFuel
  | f+1, n => match n with
    | .ifelse ifs els _ => (do pushScope; runIfs f ifs els).finally popSt
    | .forS ini c l body _ => (do
        pushScope
        match ini with
        | some i => let _ ← runStmt f i
        | none => pure ()
        forLoop f c l body).finally popSt
    | .forIn var iter body _ _ => (do
        pushScope
        let it ← runStmt f iter
        (do pushScope; forIn f var it (Node.start iter) body).finally popSt).finally popSt
    | .brk _ => do modTask (fun t => { t with brk := true }); pure voidTV
    | .cont _ => do modTask (fun t => { t with cont := true }); pure voidTV
    | e => ev e

/-- `RunStmts`: before each statement test exit/signal/break/continue; an error sets procExit -/
def runStmts : Nat → List Node → EM Unit
  | 0, _ => outOfFuel
  | _, [] => pure ()
  | f+1, n :: rest => fun s =>
    match stmtReturn env s with
    | .ok true s' => .ok () s'
    | .ok false s' =>
      (match runStmt f n s' with
       | .ok _ s'' => runStmts f rest s''
       | .err e s'' => .err e { s'' with task := { s''.task with exit := true } }
       | .panic m => .panic m
       | .fuel => .fuel
       | .need q => .need q)
    | .err e s' => .err e s'
    | .panic m => .panic m
    | .fuel => .fuel
    | .need q => .need q

/-- the body of RunIfElseStmt after the outer scope push -/
def runIfs : Nat → List (Node × Option (List Node) × Pos) → Option (List Node) → EM TV
  | 0, _, _ => outOfFuel
  | f+1, [], els =>
    match els with
    | some b => do pushScope; runStmts f b; popScope; pure voidTV
    | none => pure voidTV
  | f+1, (c, blk, _) :: rest, els => do
    let v ← runStmt f c
    let s ← getS
    if condTrue s.world.heap v then
      match blk with
      | some b => do pushScope; runStmts f b; popScope; pure voidTV
      | none => pure voidTV
    else runIfs f rest els

/-- the `for { … }` of RunForStmt (after init), one iteration per unit of fuel -/
def forLoop : Nat → Option Node → Option Node → Option (List Node) → EM TV
  | 0, _, _, _ => outOfFuel
  | f+1, c, l, body => do
    if (← procExit env) then return voidTV
    let go ← (match c with
      | some cn => do
        let v ← runStmt f cn
        let s ← getS
        pure (condTrue s.world.heap v)
      | none => pure true)
    if !go then return voidTV
    match body with
    | some b => do pushScope; runStmts f b; popScope
    | none => pure ()
    let s ← getS
    if s.task.brk then
      modTask fun t => { t with brk := false }
      return voidTV
    if s.task.cont then modTask fun t => { t with cont := false }
    if (← stmtReturn env) then return voidTV
    match l with
    | some ln => let _ ← runStmt f ln
    | none => pure ()
    forLoop f c l body

/-- RunForInStmt after evaluating the iterable and pushing the second scope -/
def forIn : Nat → Node → TV → Pos → Option (List Node) → EM TV
  | 0, _, _, _, _ => outOfFuel
  | f+1, var, it, iterPos, body => do
    match it.t with
    | .str =>
      match it.v with
      | .str s => forInStr f var (Utf8.runesOf s) body
      | _ => runErr iterPos "inner-type"
    | .map =>
      let st ← getS
      match it.v with
      | .ref a =>
        match st.world.heap.get? a with
        | some (.map kvs) =>
          let keys := permute (kvs.length + 1) (akeys (sortKeys kvs)) (env.mapOrder st.world.mapIters)
          modWorld fun w => { w with mapIters := w.mapIters + 1 }
          forInItems f var iterPos (keys.map fun k => (⟨.str k, .str⟩ : TV)) none body
        | _ => runErr iterPos "inner-type"
      | _ => runErr iterPos "inner-type"
    | .list =>
      let st ← getS
      match it.v with
      | .ref a =>
        match st.world.heap.get? a with
        | some (.list xs) => forInItems f var iterPos [] (some (a, 0, xs.length)) body
        | _ => runErr iterPos "inner-type"
      | _ => runErr iterPos "inner-type"
    | _ => runErr iterPos "not-iterable"

/-- string iteration: assign, body, *then* clear the loop scope -/
def forInStr : Nat → Node → List Bytes → Option (List Node) → EM TV
  | 0, _, _, _ => outOfFuel
  | _, _, [], _ => pure voidTV
  | f+1, var, r :: rest, body => do
    match var with
    | .ident name _ => setVarb name ⟨.str r, .str⟩
    | _ => return ⟨.nil, .invalid⟩
    match body with
    | some b => runStmts f b
    | none => pure ()
    clearScope
    let s ← getS
    if s.task.brk then
      modTask fun t => { t with brk := false }
      return voidTV
    if s.task.cont then modTask fun t => { t with cont := false }
    if (← stmtReturn env) then return voidTV
    forInStr f var rest body

/-- map keys (precomputed items) or list elements (read live by index): clear, assign, body -/
def forInItems : Nat → Node → Pos → List TV → Option (Nat × Nat × Nat) → Option (List Node) → EM TV
  | 0, _, _, _, _, _ => outOfFuel
  | f+1, var, iterPos, items, live, body => do
    let next : Option (TV × List TV × Option (Nat × Nat × Nat)) ← (match live with
      | some (a, i, n) =>
        if i < n then do
          let st ← getS
          let x := match st.world.heap.get? a with
            | some (.list xs) => xs.getD i .nil
            | _ => .nil
          pure (some (detect st.world.heap x, [], some (a, i + 1, n)))
        else pure none
      | none => match items with
        | [] => pure none
        | x :: r => pure (some (x, r, none)))
    match next with
    | none => pure voidTV
    | some (x, items', live') =>
      clearScope
      if x.t = .invalid then
        -- DectDataType failed on a list element
        runErr iterPos "inner-type"
      else
      match var with
      | .ident name _ => setVarb name x
      | _ => panicE "forin-var-not-identifier"
      match body with
      | some b => runStmts f b
      | none => pure ()
      let s ← getS
      if s.task.brk then
        modTask fun t => { t with brk := false }
        return voidTV
      if s.task.cont then modTask fun t => { t with cont := false }
      if (← stmtReturn env) then return voidTV
      forInItems f var iterPos items' live' body
end

end
end Platypus
