/-
Model of pkg/token/token.go: NewPosCache, (*PosCache).LnCol (binary search), LnCol (linear scan).
Strings are byte lists; positions are Int (Go `token.Pos` is an int and may be negative or too large).
`none` models InvalidLnColPos / the error return.
-/
namespace Platypus.LnCol

abbrev Bytes := List UInt8

def NL : UInt8 := 10

/-- `lineStartPos` built by NewPosCache: 0, then i+1 for every newline byte at index i.
    (`for i, c := range query` iterates runes, but a 0x0A byte is never part of a multi-byte
    sequence, so the rune loop sees '\n' exactly at the byte offsets holding 0x0A; the
    correspondence check exercises invalid UTF-8 as well.) -/
def lineStartsFrom : Nat → Bytes → List Nat
  | _, [] => []
  | i, c :: cs => if c = NL then (i + 1) :: lineStartsFrom (i + 1) cs else lineStartsFrom (i + 1) cs

def lineStarts (q : Bytes) : List Nat := 0 :: lineStartsFrom 0 q

/-- The binary-search loop of `(*PosCache).LnCol`, with the same branch structure.
    Returns the 0-based line index or none (ln == -1). -/
def bsearch (ls : Array Nat) (pos : Nat) (start stop : Nat) : Option Nat :=
  if h : start < stop then
    let m := start + (stop - start) / 2
    if pos < ls[m]! then
      bsearch ls pos start m
    else if m = ls.size - 1 then some m
    else if pos < ls[m+1]! then some m
    else bsearch ls pos (m + 1) stop
  else none
termination_by stop - start
decreasing_by all_goals omega

structure LC where
  ln : Nat
  col : Nat
deriving DecidableEq, Repr

/-- `(*PosCache).LnCol`. -/
def cacheLnCol (q : Bytes) (pos : Int) : Option LC :=
  let ls := (lineStarts q).toArray
  if ls.size = 0 ∨ pos > q.length ∨ pos < 0 then none
  else
    let p := pos.toNat
    match bsearch ls p 0 ls.size with
    | none => none
    | some ln => some ⟨ln + 1, p - ls[ln]! + 1⟩

/-- loop of the linear `LnCol`: over `query[:pos]`, tracks lastLineBrk (+1, so Nat) and ln. -/
def scan : Nat → Bytes → (Nat × Nat) → (Nat × Nat)
  | _, [], acc => acc
  | i, c :: cs, (brk1, ln) => if c = NL then scan (i+1) cs (i + 1, ln + 1) else scan (i+1) cs (brk1, ln)

/-- package-level `LnCol(query, pos)`: ln, col = pos - lastLineBrk where lastLineBrk starts at -1.
    We keep `brk1 = lastLineBrk + 1`. -/
def linearLnCol (q : Bytes) (pos : Int) : Option LC :=
  if pos < 0 ∨ pos > q.length then none
  else
    let p := pos.toNat
    let (brk1, ln) := scan 0 (q.take p) (0, 1)
    some ⟨ln, p + 1 - brk1⟩

/-- Specification: line = 1 + number of newline bytes before pos; column = 1-based byte offset
    after the last newline before pos. -/
def lastNlEnd : Bytes → Nat   -- index just after the last newline, 0 if none
  | q => match (q.reverse.findIdx? (· = NL)) with
    | none => 0
    | some k => q.length - k

def specLnCol (q : Bytes) (pos : Int) : Option LC :=
  if pos < 0 ∨ pos > q.length then none
  else
    let pre := q.take pos.toNat
    some ⟨1 + pre.count NL, pos.toNat + 1 - lastNlEnd pre⟩

end Platypus.LnCol
