import Platypus.Model.Lexer
/-!
pkg/parser/strutil.go: Unquote, UnquoteMultiline, unquoteChar; and the number / keyword / sign
handling of pkg/parser/parser.go (`newNumberLiteral`, `newUnaryExpr`'s literal folding).
-/
namespace Platypus.Unq
open Platypus.Lex

/-- utf8.EncodeRune (surrogates and out-of-range values become U+FFFD) -/
def encodeRune (r : Nat) : Bytes :=
  if r < 0x80 then [r.toUInt8]
  else if r < 0x800 then [(0xC0 + r / 64).toUInt8, (0x80 + r % 64).toUInt8]
  else if (0xD800 ≤ r && r < 0xE000) || r > 0x10FFFF then [0xEF, 0xBF, 0xBD]
  else if r < 0x10000 then [(0xE0 + r / 4096).toUInt8, (0x80 + (r / 64) % 64).toUInt8, (0x80 + r % 64).toUInt8]
  else [(0xF0 + r / 262144).toUInt8, (0x80 + (r / 4096) % 64).toUInt8, (0x80 + (r / 64) % 64).toUInt8, (0x80 + r % 64).toUInt8]

def unhexB (b : UInt8) : Option Nat :=
  if 48 ≤ b && b ≤ 57 then some (b.toNat - 48)
  else if 97 ≤ b && b ≤ 102 then some (b.toNat - 97 + 10)
  else if 65 ≤ b && b ≤ 70 then some (b.toNat - 65 + 10)
  else none

def hexVal : List UInt8 → Option Nat
  | [] => some 0
  | ds => ds.foldl (fun acc d => match acc, unhexB d with | some a, some x => some (a * 16 + x) | _, _ => none) (some 0)

/-- `unquoteChar(s, quote, false)`: (bytes appended to the buffer, rest) or none = ErrSyntax -/
def unquoteChar (s : Bytes) (quote : UInt8) : Option (Bytes × Bytes) :=
  match s with
  | [] => none
  | c :: rest =>
    if c == quote && (quote == 39 || quote == 34) then none
    else if c ≥ 0x80 then
      let (r, w) := decodeRune s
      some (encodeRune r, s.drop w)
    else if c != 92 then some ([c], rest)
    else match rest with
      | [] => none
      | e :: s2 =>
        if e == 97 then some ([7], s2) else if e == 98 then some ([8], s2) else if e == 102 then some ([12], s2)
        else if e == 110 then some ([10], s2) else if e == 114 then some ([13], s2) else if e == 116 then some ([9], s2)
        else if e == 118 then some ([11], s2)
        else if e == 120 || e == 117 || e == 85 then
          let n := if e == 120 then 2 else if e == 117 then 4 else 8
          if s2.length < n then none
          else match hexVal (s2.take n) with
            | none => none
            | some v =>
              if e == 120 then some ([v.toUInt8], s2.drop n)
              else if v > 0x10FFFF then none
              else some (encodeRune v, s2.drop n)
        else if 48 ≤ e && e ≤ 55 then
          match s2 with
          | d1 :: d2 :: s3 =>
            if 48 ≤ d1 && d1 ≤ 55 && 48 ≤ d2 && d2 ≤ 55 then
              let v := (e.toNat - 48) * 64 + (d1.toNat - 48) * 8 + (d2.toNat - 48)
              if v > 255 then none else some ([v.toUInt8], s3)
            else none
          | _ => none
        else if e == 92 then some ([92], s2)
        else if e == 39 || e == 34 then (if e != quote then none else some ([e], s2))
        else none

def unquoteLoop : Nat → Bytes → UInt8 → Bytes → Option Bytes
  | 0, _, _, _ => none
  | _, [], _, acc => some acc
  | f+1, s, q, acc =>
    match unquoteChar s q with
    | none => none
    | some (b, rest) => unquoteLoop f rest q (acc ++ b)

/-- `Unquote(s)` -/
def unquote (s : Bytes) : Option Bytes :=
  let n := s.length
  if n < 2 then none
  else
    let quote := s.headD 0
    if quote != s.getLastD 0 then none
    else
      let body := (s.drop 1).take (n - 2)
      if quote == 96 then (if body.contains 96 then none else some body)
      else if quote != 34 && quote != 39 then none
      else if body.contains 10 then none
      else if !body.contains 92 && !body.contains quote then some body
      else unquoteLoop (body.length + 1) body quote []

/-- the multi-line loop: raw bytes, multi-byte runes decoded and re-encoded -/
def multilineLoop : Nat → Bytes → Bytes → Bytes
  | 0, _, acc => acc
  | _, [], acc => acc
  | f+1, c :: rest, acc =>
    if c ≥ 0x80 then
      let (r, w) := decodeRune (c :: rest)
      multilineLoop f ((c :: rest).drop w) (acc ++ encodeRune r)
    else multilineLoop f rest (acc ++ [c])

/-- `UnquoteMultiline(s)` -/
def unquoteMultiline (s : Bytes) : Option Bytes :=
  let n := s.length
  if n < 6 then none
  else if s.getD 0 0 != s.getD (n - 1) 0 || s.getD 1 0 != s.getD (n - 2) 0 || s.getD 2 0 != s.getD (n - 3) 0 then none
  else if n == 6 then some []
  else
    let quote := s.getD 0 0
    let body := (s.drop 3).take (n - 6)
    if quote != 34 && quote != 39 then none
    else if !body.contains 92 && !body.contains quote && !body.contains 10 then some body
    else some (multilineLoop (body.length + 1) body [])

/-- what a literal spelling denotes for the parser -/
inductive Lit
  | str (b : Bytes)          -- StringLiteral
  | ident (b : Bytes)        -- back-quoted identifier
  | int (i : Int)
  | floatOf (text : Bytes) (neg : Bool)   -- strconv.ParseFloat of the spelling (engine), then the sign
  | bool (b : Bool)
  | nil
  | name                     -- an ordinary identifier
  | rejected
  | multi                    -- more than one token: not a single literal
  deriving DecidableEq, Repr, Inhabited

def digitsVal (base : Nat) : Bytes → Option Nat
  | [] => none
  | ds => ds.foldl (fun acc d => match acc, unhexB d with
      | some a, some x => if x < base then some (a * base + x) else none
      | _, _ => none) (some 0)

/-- strconv.ParseInt(s, 0, 64) for the spellings the lexer produces (no sign, no underscore):
    "0x…" hexadecimal, leading "0" octal, else decimal; none = error (then ParseFloat is tried) -/
def parseInt0 (s : Bytes) : Option Int :=
  let v : Option Nat :=
    match s with
    | 48 :: x :: rest => if x == 120 || x == 88 then digitsVal 16 rest else digitsVal 8 (x :: rest)
    | _ => digitsVal 10 s
  match v with
  | some n => if n ≤ 9223372036854775807 then some n else none
  | none => none

/-- `newNumberLiteral` then an optional folded sign (`newUnaryExpr` on a literal) -/
def number (text : Bytes) (neg : Bool) : Lit :=
  match parseInt0 text with
  | some n => .int (if neg then -n else n)
  | none => .floatOf text neg

/-- classify the spelling `lit` as the parser does for `x = lit` -/
def classify (lit : Bytes) : Lit :=
  let its := lexAll lit
  if its.any (fun it => it.typ = .ERROR) then .rejected
  else match its.filter (fun it => it.typ ≠ .COMMENT) with
    | [t, e] =>
      if e.typ ≠ .EOF then .multi else
      match t.typ with
      | .STRING => (match unquote t.val with | some b => .str b | none => .rejected)
      | .MULTILINE_STRING => (match unquoteMultiline t.val with | some b => .str b | none => .rejected)
      | .QUOTED_STRING => (match unquote t.val with | some b => .ident b | none => .rejected)
      | .NUMBER => number t.val false
      | .TRUE => .bool true
      | .FALSE => .bool false
      | .NIL | .NULL => .nil
      | .ID => .name
      | _ => .multi
    | [s, t, e] =>
      if e.typ = .EOF ∧ t.typ = .NUMBER ∧ (s.typ = .SUB ∨ s.typ = .ADD) then number t.val (s.typ = .SUB)
      else .multi
    | _ => .multi

end Platypus.Unq
