def hello := "world"
