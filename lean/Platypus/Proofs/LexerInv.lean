import Platypus.Proofs.LexerBasic
import Platypus.Proofs.LexerNumber
/-!
The invariant of the lexer's state machine between two items, the shape of a scanned item, and a
measure that decreases on every step that does not scan an item.
-/
namespace Platypus.Lex

/-- what the pending lexeme `input[start, pos)` looks like in each state (while no item is scanned) -/
def StInv (l : L) : Prop :=
  match l.state with
  | .statements => l.start = l.pos
  | .spaceNotEOL => Blanks l.input l.start l.pos
  | .number => l.start = l.pos ∧ isDigit (runeAt l.input l.pos).1 = true
  | .word => l.start < l.pos ∨ (isAlpha (runeAt l.input l.pos).1 || isUTF8 (runeAt l.input l.pos).1) = true
  | .lineComment => l.start = l.pos ∧ l.pos < l.input.length
  | .done => False
  | .escDigits _ base _ _ ch => l.start + l.width < l.pos ∧ base ≤ 16 ∧ (ch ≠ eof → 1 ≤ l.width)
  | .rawString | .escape | .multiline | .str | .commentBody => l.start < l.pos

/-- a state inside `NextItem`, before the item has been scanned; `cur` is where the call started -/
structure Good (input : Bytes) (cur : Nat) (l : L) : Prop where
  input_eq : l.input = input
  item_none : l.item = none
  cur_le : cur ≤ l.start
  start_le : l.start ≤ l.pos
  pos_le : l.pos ≤ input.length
  blanks : Blanks input cur l.start
  st : StInv l

/-- the scanned item `it` of a state `l`, for a `NextItem` call that started at `cur` -/
def ResItem (input : Bytes) (cur : Nat) (l : L) (it : Item) : Prop :=
  (it.typ ≠ .EOF ∧ it.typ ≠ .ERROR ∧ cur ≤ it.pos ∧ Blanks input cur it.pos ∧ it.pos < l.pos ∧
    l.pos ≤ input.length ∧ it.val = slice input it.pos l.pos ∧ l.start = l.pos ∧ l.state = .statements) ∨
  (it.typ = .EOF ∧ it.pos = input.length ∧ cur ≤ it.pos ∧ Blanks input cur it.pos) ∨
  (it.typ = .ERROR ∧ cur ≤ it.pos ∧ it.pos ≤ input.length ∧ it.val.length ≠ 4)

def Res (input : Bytes) (cur : Nat) (l : L) : Prop :=
  l.input = input ∧ ∃ it, l.item = some it ∧ ResItem input cur l it

def stC : LState → Nat
  | .statements => 1
  | .spaceNotEOL => 2
  | .escape => 2
  | .escDigits .. => 1
  | _ => 0

def effPos (l : L) : Nat :=
  match l.state with
  | .escDigits .. => l.pos - l.width
  | _ => l.pos

/-- decreases on every step that does not scan an item -/
def mu (l : L) : Nat := 3 * (l.input.length - effPos l) + stC l.state

/-- the outcome of one step from a good state -/
def Next (input : Bytes) (cur : Nat) (l l' : L) : Prop :=
  (Good input cur l' ∧ mu l' < mu l) ∨ Res input cur l'

theorem res_emit {input : Bytes} {cur : Nat} (l' l1 : L) (t : Tok)
    (hin : l1.input = input) (hi : l'.input = l1.input)
    (hitem : l'.item = some ⟨t, l1.start, slice l1.input l1.start l1.pos⟩)
    (hpos : l'.pos = l1.pos) (hstart : l'.start = l1.pos) (hst : l'.state = .statements)
    (ht1 : t ≠ .EOF) (ht2 : t ≠ .ERROR) (hc : cur ≤ l1.start) (hb : Blanks input cur l1.start)
    (hlt : l1.start < l1.pos) (hle : l1.pos ≤ input.length) : Res input cur l' := by
  refine ⟨hi.trans hin, _, hitem, Or.inl ⟨ht1, ht2, hc, hb, ?_, ?_, ?_, ?_, hst⟩⟩
  · simp only [hpos]; exact hlt
  · simp only [hpos]; exact hle
  · simp only [hpos, hin]
  · rw [hstart, hpos]

theorem res_error {input : Bytes} {cur : Nat} (l' : L) (p : Nat) (m : String)
    (hi : l'.input = input) (hitem : l'.item = some ⟨.ERROR, p, m.toUTF8.toList⟩)
    (hc : cur ≤ p) (hle : p ≤ input.length) (hm : m.toUTF8.size ≠ 4) : Res input cur l' := by
  refine ⟨hi, _, hitem, Or.inr (Or.inr ⟨rfl, hc, hle, ?_⟩)⟩
  simp only [msg_len]; exact hm

/-- a non-scanning step that leaves `start` alone -/
theorem next_good {cur : Nat} {l l' : L} (hi : l'.input = l.input) (hitem : l'.item = none)
    (hstart : l'.start = l.start) (hcur : cur ≤ l.start) (hb : Blanks l.input cur l.start)
    (hsp : l'.start ≤ l'.pos) (hpl : l'.pos ≤ l.input.length) (hst : StInv l') (hmu : mu l' < mu l) :
    Next l.input cur l l' :=
  Or.inl ⟨⟨hi, hitem, hstart ▸ hcur, hsp, hpl, hstart ▸ hb, hst⟩, hmu⟩

theorem ne_eof_of {r : Rune} {p : Rune → Bool} (h : p r = true) (hp : p eof = false) : r ≠ eof := by
  intro he; rw [he, hp] at h; cases h

theorem step_word (input : Bytes) (cur : Nat) (l : L) (h : Good input cur l) (hs : l.state = .word) :
    Next input cur l (step l) := by
  obtain ⟨h1, h2, h3, h4, h5, h6, h7⟩ := h
  simp only [StInv, hs] at h7
  simp only [step, hs, next_eq']
  subst h1
  split
  · rename_i hr
    have hne : rAt l ≠ eof := by
      intro he; rw [he] at hr; revert hr; decide
    have hw := wAt_pos l hne
    have hle := wAt_le l h5
    left
    refine ⟨⟨rfl, by simpa using h2, by simpa using h3, by simp; omega, by simpa using hle, by simpa using h6, ?_⟩, ?_⟩
    · simp [StInv, hs]; omega
    · simp [mu, effPos, stC, hs] <;> omega
  · rename_i hr
    right
    have hlt : l.start < l.pos := by
      rcases h7 with h | h
      · exact h
      · exfalso; apply hr
        simp only [rAt, isAlphaNumeric, Bool.or_eq_true] at h ⊢
        rcases h with h | h
        · exact Or.inl (Or.inl h)
        · exact Or.inr h
    refine res_emit _ (backup (nx l)) _ rfl rfl rfl rfl rfl rfl (keyword_ne _).1 (keyword_ne _).2 ?_ ?_ ?_ ?_
    · simpa using h3
    · simpa using h6
    · simpa using hlt
    · simp; omega

theorem step_spaceNotEOL (input : Bytes) (cur : Nat) (l : L) (h : Good input cur l)
    (hs : l.state = .spaceNotEOL) : Next input cur l (step l) := by
  obtain ⟨h1, h2, h3, h4, h5, h6, h7⟩ := h
  simp only [StInv, hs] at h7
  simp only [step, hs, next_eq', peek_rAt]
  subst h1
  split
  · rename_i hr
    obtain ⟨hw, hbl⟩ := rAt_blank l hr
    have hne : rAt l ≠ eof := ne_eof_of hr (by decide)
    have hle := wAt_le l h5
    refine next_good rfl (by simpa using h2) rfl h3 h6 (by simp; omega) (by simpa using hle) ?_ ?_
    · simp only [StInv, nx_state, hs, nx_input, nx_start, nx_pos, hw]
      exact h7.trans hbl
    · simp [mu, effPos, stC, hs] <;> omega
  · left
    refine ⟨⟨rfl, by simpa using h2, by simp; omega, by simp, by simpa using h5, ?_, ?_⟩, ?_⟩
    · simp only [ignore_start]; exact h6.trans h7
    · simp [StInv]
    · simp [mu, effPos, stC, hs] <;> omega

theorem step_rawString (input : Bytes) (cur : Nat) (l : L) (h : Good input cur l)
    (hs : l.state = .rawString) : Next input cur l (step l) := by
  obtain ⟨h1, h2, h3, h4, h5, h6, h7⟩ := h
  simp only [StInv, hs] at h7
  simp only [step, hs, next_eq']
  subst h1
  have hle := wAt_le l h5
  split
  · exact Or.inr (res_error _ l.start _ rfl rfl h3 (by omega) (by decide))
  split
  · exact Or.inr (res_error _ l.start _ rfl rfl h3 (by omega) (by decide))
  rename_i _ hne
  have hne : rAt l ≠ eof := by simpa using hne
  have hw := wAt_pos l hne
  split
  · right
    refine res_emit _ (nx l) _ rfl rfl rfl rfl rfl rfl (by simp) (by simp) (by simpa using h3)
      (by simpa using h6) (by simp; omega) (by simpa using hle)
  · refine next_good rfl (by simpa using h2) rfl h3 h6 (by simp; omega) (by simpa using hle) ?_ ?_
    · simp [StInv, hs]; omega
    · simp [mu, effPos, stC, hs] <;> omega

theorem step_lineComment (input : Bytes) (cur : Nat) (l : L) (h : Good input cur l)
    (hs : l.state = .lineComment) : Next input cur l (step l) := by
  obtain ⟨h1, h2, h3, h4, h5, h6, h7⟩ := h
  simp only [StInv, hs] at h7
  simp only [step, hs, next_eq']
  subst h1
  generalize hl1 : ({ l with pos := l.pos + 1, state := LState.lineComment } : L) = l1
  have e1 : l1.input = l.input := by subst hl1; rfl
  have e2 : l1.pos = l.pos + 1 := by subst hl1; rfl
  have e3 : l1.start = l.start := by subst hl1; rfl
  have e4 : l1.item = l.item := by subst hl1; rfl
  have hle := wAt_le l1 (by rw [e1, e2]; omega)
  rw [e1, e2] at hle
  split
  · refine next_good (by simp [e1]) (by simp [e4, h2]) (by simp [e3]) h3 h6 (by simp [e2, e3]; omega)
      (by simp [e2]; omega) ?_ ?_
    · simp [StInv, e2, e3]; omega
    · simp [mu, effPos, stC, hs, e1, e2] <;> omega
  · right
    refine res_emit _ (backup (nx l1)) _ (by simp [e1]) rfl rfl rfl rfl rfl (by simp) (by simp)
      (by simpa [e3] using h3) (by simpa [e3] using h6) (by simp [e2, e3]; omega) (by simp [e2]; omega)

theorem step_commentBody (input : Bytes) (cur : Nat) (l : L) (h : Good input cur l)
    (hs : l.state = .commentBody) : Next input cur l (step l) := by
  obtain ⟨h1, h2, h3, h4, h5, h6, h7⟩ := h
  simp only [StInv, hs] at h7
  simp only [step, hs, next_eq']
  subst h1
  have hle := wAt_le l h5
  split
  · rename_i hr
    have hne : rAt l ≠ eof := by
      simp only [Bool.and_eq_true, bne_iff_ne] at hr; exact hr.2
    have hw := wAt_pos l hne
    refine next_good rfl (by simpa using h2) rfl h3 h6 (by simp; omega) (by simpa using hle) ?_ ?_
    · simp [StInv, hs]; omega
    · simp [mu, effPos, stC, hs] <;> omega
  · right
    refine res_emit _ (backup (nx l)) _ rfl rfl rfl rfl rfl rfl (by simp) (by simp)
      (by simpa using h3) (by simpa using h6) (by simpa using h7) (by simp; omega)

theorem step_str (input : Bytes) (cur : Nat) (l : L) (h : Good input cur l)
    (hs : l.state = .str) : Next input cur l (step l) := by
  obtain ⟨h1, h2, h3, h4, h5, h6, h7⟩ := h
  simp only [StInv, hs] at h7
  simp only [step, hs, next_eq']
  subst h1
  have hle := wAt_le l h5
  split
  · rename_i hr
    have hne : rAt l ≠ eof := ne_eof_of (p := fun r => r == 92) hr (by decide)
    have hw := wAt_pos l hne
    split
    · exact Or.inr (res_error _ l.start _ rfl rfl h3 (by omega) (by decide))
    · refine next_good rfl (by simpa using h2) rfl h3 h6 (by simp; omega) (by simpa using hle) ?_ ?_
      · simp [StInv]; omega
      · simp [mu, effPos, stC, hs] <;> omega
  split
  · rename_i hr
    have hne : rAt l ≠ eof :=
      ne_eof_of (p := fun r => r == runeError) (by simp only [Bool.and_eq_true] at hr; exact hr.1) (by decide)
    have hw := wAt_pos l hne
    refine next_good rfl (by simpa using h2) rfl h3 h6 (by simp; omega) (by simpa using hle) ?_ ?_
    · simp [StInv, hs]; omega
    · simp [mu, effPos, stC, hs] <;> omega
  split
  · exact Or.inr (res_error _ l.start _ rfl rfl h3 (by omega) (by decide))
  rename_i hne
  have hne : rAt l ≠ eof := by
    simp only [Bool.or_eq_true, beq_iff_eq, not_or] at hne; exact hne.1
  have hw := wAt_pos l hne
  split
  · right
    refine res_emit _ (nx l) _ rfl rfl rfl rfl rfl rfl (by simp) (by simp) (by simpa using h3)
      (by simpa using h6) (by simp; omega) (by simpa using hle)
  · refine next_good rfl (by simpa using h2) rfl h3 h6 (by simp; omega) (by simpa using hle) ?_ ?_
    · simp [StInv, hs]; omega
    · simp [mu, effPos, stC, hs] <;> omega

theorem step_multiline (input : Bytes) (cur : Nat) (l : L) (h : Good input cur l)
    (hs : l.state = .multiline) : Next input cur l (step l) := by
  obtain ⟨h1, h2, h3, h4, h5, h6, h7⟩ := h
  simp only [StInv, hs] at h7
  simp only [step, hs, next_eq', peek_rAt]
  subst h1
  have hle := wAt_le l h5
  have hle2 := wAt_le (nx l) (by simpa using hle)
  have hle3 := wAt_le (nx (nx l)) (by simpa using hle2)
  simp only [nx_pos, nx_input] at hle2 hle3
  split
  · exact Or.inr (res_error _ l.start _ rfl rfl h3 (by omega) (by decide))
  rename_i hne
  have hne : rAt l ≠ eof := by simpa using hne
  have hw := wAt_pos l hne
  have hgood : Next l.input cur l (nx l) := by
    refine next_good rfl (by simpa using h2) rfl h3 h6 (by simp; omega) (by simpa using hle) ?_ ?_
    · simp [StInv, hs]; omega
    · simp [mu, effPos, stC, hs] <;> omega
  split
  · split
    · split
      · right
        refine res_emit _ (nx (nx (nx l))) _ rfl rfl rfl rfl rfl rfl (by simp) (by simp)
          (by simpa using h3) (by simpa using h6) (by simp; omega) (by simp; omega)
      · refine next_good rfl (by simpa using h2) rfl h3 h6 (by simp; omega) (by simp; omega) ?_ ?_
        · simp [StInv, hs]; omega
        · simp [mu, effPos, stC, hs] <;> omega
    · exact hgood
  · exact hgood

theorem digitVal_eof : digitVal eof = 16 := by decide

theorem step_escape (input : Bytes) (cur : Nat) (l : L) (h : Good input cur l)
    (hs : l.state = .escape) : Next input cur l (step l) := by
  obtain ⟨h1, h2, h3, h4, h5, h6, h7⟩ := h
  simp only [StInv, hs] at h7
  simp only [step, hs, next_eq']
  subst h1
  have hle := wAt_le l h5
  have hle2 := wAt_le (nx l) (by simpa using hle)
  simp only [nx_pos, nx_input] at hle2
  have hdig : ∀ n b m, b ≤ 16 → Next l.input cur l { nx (nx l) with state := .escDigits n b m 0 (rAt (nx l)) } := by
    intro n b m hb
    refine next_good rfl (by simpa using h2) rfl h3 h6 (by simp; omega) (by simp; omega) ?_ ?_
    · simp only [StInv, nx_start, nx_width, nx_pos]
      exact ⟨by omega, hb, fun hne => wAt_pos _ hne⟩
    · simp [mu, effPos, stC, hs] <;> omega
  split
  · refine next_good rfl (by simpa using h2) rfl h3 h6 (by simp; omega) (by simpa using hle) ?_ ?_
    · simp [StInv]; omega
    · simp [mu, effPos, stC, hs] <;> omega
  split
  · refine next_good rfl (by simpa using h2) rfl h3 h6 (by simp; omega) (by simpa using hle) ?_ ?_
    · simp only [StInv, nx_start, nx_width, nx_pos]
      exact ⟨by omega, by omega, fun hne => wAt_pos _ hne⟩
    · simp [mu, effPos, stC, hs] <;> omega
  split
  · exact hdig _ _ _ (by omega)
  split
  · exact hdig _ _ _ (by omega)
  split
  · exact hdig _ _ _ (by omega)
  split
  · exact Or.inr (res_error _ l.start _ rfl rfl h3 (by omega) (by decide))
  · exact Or.inr (res_error _ l.start _ rfl rfl h3 (by omega) (by decide))

theorem step_escDigits (input : Bytes) (cur : Nat) (l : L) (h : Good input cur l)
    (n base max x : Nat) (ch : Rune)
    (hs : l.state = .escDigits n base max x ch) : Next input cur l (step l) := by
  obtain ⟨h1, h2, h3, h4, h5, h6, h7⟩ := h
  simp only [StInv, hs] at h7
  obtain ⟨h7a, h7b, h7c⟩ := h7
  simp only [step, hs, next_eq']
  subst h1
  have hle := wAt_le l h5
  cases n with
  | zero =>
    simp only
    by_cases hc : (decide (x > max) || (decide (0xD800 ≤ x) && decide (x < 0xE000))) = true
    · rw [if_pos hc]
      right
      split
      · exact res_error _ l.start _ rfl rfl h3 (by omega) (by decide)
      · exact res_error _ l.start _ rfl rfl h3 (by omega) (by decide)
    · rw [if_neg hc]
      split
      · refine next_good rfl (by simpa using h2) rfl h3 h6 (by simp; omega) (by simp; omega) ?_ ?_
        · simp [StInv]; omega
        · simp [mu, effPos, stC, hs] <;> omega
      · refine next_good rfl (by simpa using h2) rfl h3 h6 (by simp; omega) (by simpa using h5) ?_ ?_
        · simp [StInv]; omega
        · simp [mu, effPos, stC, hs] <;> omega
  | succ n =>
    simp only
    split
    · right
      split
      · exact res_error _ l.start _ rfl rfl h3 (by omega) (by decide)
      · exact res_error _ l.start _ rfl rfl h3 (by omega) (by decide)
    · rename_i hd
      have hne : ch ≠ eof := by
        intro he; rw [he, digitVal_eof] at hd; omega
      have hw := h7c hne
      refine next_good rfl (by simpa using h2) rfl h3 h6 (by simp; omega) (by simpa using hle) ?_ ?_
      · simp only [StInv, nx_start, nx_width, nx_pos]
        exact ⟨by omega, h7b, fun hne => wAt_pos _ hne⟩
      · simp [mu, effPos, stC, hs] <;> omega

theorem step_number (input : Bytes) (cur : Nat) (l : L) (h : Good input cur l)
    (hs : l.state = .number) : Next input cur l (step l) := by
  obtain ⟨h1, h2, h3, h4, h5, h6, h7⟩ := h
  simp only [StInv, hs] at h7
  simp only [step, hs]
  subst h1
  obtain ⟨ha, hstrict⟩ := scanNumber_spec l h5
  have hlt := hstrict h7.2
  generalize scanNumber l = sn at ha hlt ⊢
  obtain ⟨ok, l'⟩ := sn
  simp only at ha hlt ⊢
  right
  split
  · refine res_emit _ l' _ ha.input_eq rfl rfl rfl rfl rfl (by simp) (by simp) (by rw [ha.start_eq]; exact h3)
      (by rw [ha.start_eq]; exact h6) (by rw [ha.start_eq]; omega) ha.le_len
  · exact res_error _ l'.start _ ha.input_eq rfl (by rw [ha.start_eq]; exact h3)
      (by rw [ha.start_eq]; omega) (by decide)

theorem step_statements_eof (input : Bytes) (cur : Nat) (l : L) (h : Good input cur l)
    (hs : l.state = .statements) (he : rAt l = eof) : Next input cur l (step l) := by
  obtain ⟨h1, h2, h3, h4, h5, h6, h7⟩ := h
  simp only [StInv, hs] at h7
  subst h1
  have hlen := (rAt_eof_iff l).1 he
  have hpre : hasPrefixAt l.input l.pos 35 = false := by
    have : l.input[l.pos]? = none := List.getElem?_eq_none hlen
    simp [hasPrefixAt, this]
  have hw := wAt_eof l he
  simp only [step, hs, next_eq', peek_rAt, hpre, he]
  simp [eof, isSpaceNotEOL, isDigit, isAlpha, isUTF8]
  right
  have herr : ∀ (l' : L) (m : String), l'.input = l.input →
      l'.item = some ⟨.ERROR, l.start, m.toByteArray.toList⟩ → m.toByteArray.size ≠ 4 → Res l.input cur l' := by
    intro l' m hi hit hm
    exact res_error l' l.start m hi hit h3 (by omega) hm
  split
  · split
    · split
      · refine ⟨rfl, _, rfl, Or.inr (Or.inl ⟨rfl, ?_, ?_, ?_⟩)⟩
        · simp only; omega
        · simpa using h3
        · simpa using h6
      · exact herr _ _ rfl rfl (by decide)
    · exact herr _ _ rfl rfl (by decide)
  · exact herr _ _ rfl rfl (by decide)

set_option hygiene false in
local macro "emitN" l1:term : tactic =>
  `(tactic| (right
             refine res_emit _ $l1 _ rfl rfl rfl rfl rfl ?_ ?_ ?_ ?_ ?_ ?_ ?_
             simp [hs]
             simp
             simp
             simpa using h3
             simpa using h6
             (simp; omega)
             (simp; omega)))

set_option hygiene false in
local macro "errN" : tactic =>
  `(tactic| (right; refine res_error _ _ _ rfl rfl ?_ ?_ ?_; (simp; omega); (simp; omega); decide))

theorem ite_cases {α : Sort _} {P : α → Prop} {c : Prop} [Decidable c] {a b : α}
    (ha : c → P a) (hb : ¬c → P b) : P (if c then a else b) := by
  split
  · exact ha ‹_›
  · exact hb ‹_›

set_option hygiene false in
local macro "isplit" : tactic =>
  `(tactic| refine ite_cases (P := Next l.input cur l) (fun hr => ?_) (fun hr => ?_))

set_option hygiene false in
local macro "twoN" : tactic =>
  `(tactic| (isplit; emitN (nx (nx l)); emitN (nx l)))

theorem step_statements_ne (input : Bytes) (cur : Nat) (l : L) (h : Good input cur l)
    (hs : l.state = .statements) (he : rAt l ≠ eof) : Next input cur l (step l) := by
  obtain ⟨h1, h2, h3, h4, h5, h6, h7⟩ := h
  simp only [StInv, hs] at h7
  subst h1
  have hw := wAt_pos l he
  have hle := wAt_le l h5
  have hle2 := wAt_le (nx l) (by simpa using hle)
  have hle3 := wAt_le (nx (nx l)) (by simpa using hle2)
  simp only [nx_pos, nx_input] at hle2 hle3
  simp only [step, hs, next_eq', peek_rAt]
  isplit
  · have hp := hr
    have hlt : l.pos < l.input.length := by
      simp only [hasPrefixAt, beq_iff_eq] at hp
      exact (List.getElem?_eq_some_iff.1 hp).1
    refine next_good rfl h2 rfl h3 h6 h4 h5 ?_ ?_
    · simp only [StInv]; exact ⟨h7, hlt⟩
    · simp [mu, effPos, stC, hs]
  isplit
  · emitN (nx l)
  isplit
  · obtain ⟨hw1, hbl⟩ := rAt_blank l hr
    refine next_good rfl (by simpa using h2) rfl h3 h6 (by simp; omega) (by simpa using hle) ?_ ?_
    · simp only [StInv, nx_input, nx_start, nx_pos, hw1]
      rw [h7]; exact hbl
    · simp [mu, effPos, stC, hs] <;> omega
  isplit
  · twoN
  isplit
  · twoN
  isplit
  · twoN
  isplit
  · twoN
  isplit
  · twoN
  isplit
  · twoN
  isplit
  · emitN (nx l)
  isplit
  · emitN (nx l)
  isplit
  · emitN (nx l)
  isplit
  · emitN (nx l)
  isplit
  · isplit
    · emitN (nx (nx l))
    · errN
  isplit
  · isplit
    · emitN (nx (nx l))
    · errN
  isplit
  · twoN
  isplit
  · twoN
  isplit
  · twoN
  isplit
  · have hd := hr
    refine next_good rfl (by simpa using h2) rfl h3 h6 (by simp; omega) (by simp; omega) ?_ ?_
    · simp only [StInv, backup_start, nx_start, backup_pos, nx_pos, nx_width, backup_input, nx_input,
        Nat.add_sub_cancel]
      exact ⟨h7, hd⟩
    · simp [mu, effPos, stC, hs]
  isplit
  · isplit
    · isplit
      · refine next_good rfl (by simpa using h2) rfl h3 h6 (by simp; omega) (by simp; omega) ?_ ?_
        · simp [StInv]; omega
        · simp [mu, effPos, stC, hs] <;> omega
      · emitN (nx (nx l))
    · refine next_good rfl (by simpa using h2) rfl h3 h6 (by simp; omega) (by simp; omega) ?_ ?_
      · simp [StInv]; omega
      · simp [mu, effPos, stC, hs] <;> omega
  isplit
  · refine next_good rfl (by simpa using h2) rfl h3 h6 (by simp; omega) (by simp; omega) ?_ ?_
    · simp [StInv]; omega
    · simp [mu, effPos, stC, hs] <;> omega
  isplit
  · have hd := hr
    refine next_good rfl (by simpa using h2) rfl h3 h6 (by simp; omega) (by simp; omega) ?_ ?_
    · simp only [StInv, backup_start, nx_start, backup_pos, nx_pos, nx_width, backup_input, nx_input,
        Nat.add_sub_cancel]
      exact Or.inr hd
    · simp [mu, effPos, stC, hs]
  isplit
  · emitN (nx l)
  isplit
  · isplit
    · errN
    · emitN (nx l)
  isplit
  · emitN (nx l)
  isplit
  · isplit
    · errN
    · emitN (nx l)
  isplit
  · emitN (nx l)
  isplit
  · emitN (nx l)
  isplit
  · exact absurd (by simpa using hr) he
  · errN

theorem step_next (input : Bytes) (cur : Nat) (l : L) (h : Good input cur l) :
    Next input cur l (step l) := by
  cases hs : l.state with
  | statements =>
    by_cases he : rAt l = eof
    · exact step_statements_eof input cur l h hs he
    · exact step_statements_ne input cur l h hs he
  | spaceNotEOL => exact step_spaceNotEOL input cur l h hs
  | number => exact step_number input cur l h hs
  | rawString => exact step_rawString input cur l h hs
  | lineComment => exact step_lineComment input cur l h hs
  | escape => exact step_escape input cur l h hs
  | multiline => exact step_multiline input cur l h hs
  | str => exact step_str input cur l h hs
  | word => exact step_word input cur l h hs
  | done => have := h.st; simp [StInv, hs] at this
  | commentBody => exact step_commentBody input cur l h hs
  | escDigits n base max x ch => exact step_escDigits input cur l h n base max x ch hs

end Platypus.Lex
