import Platypus.Proofs.Refine
/-!
Helper lemmas for the loop part of `Properties/C03Scope.lean`: the Lehmer-code permutation
`permute` (the order oracle of map iteration) yields a permutation, `sortKeys` is a permutation,
and `Utf8.runesOf` unfolds rune by rune.
-/
namespace Platypus.ScopeProofs
open Platypus

/-! ### `permute` -/

theorem removeNth_perm {α} : ∀ (xs : List α) (n : Nat) (y : α) (r : List α),
    removeNth xs n = some (y, r) → (y :: r).Perm xs := by
  intro xs
  induction xs with
  | nil => intro n y r h; simp [removeNth] at h
  | cons x xs ih =>
    intro n y r h
    cases n with
    | zero =>
      simp only [removeNth, Option.some.injEq, Prod.mk.injEq] at h
      obtain ⟨rfl, rfl⟩ := h
      exact List.Perm.refl _
    | succ n =>
      simp only [removeNth] at h
      cases hr : removeNth xs n with
      | none => rw [hr] at h; simp at h
      | some yr =>
        obtain ⟨y', r'⟩ := yr
        rw [hr] at h
        simp only [Option.some.injEq, Prod.mk.injEq] at h
        obtain ⟨rfl, rfl⟩ := h
        exact (List.Perm.swap x y' r').trans ((ih n y' r' hr).cons x)

theorem removeNth_some {α} : ∀ (xs : List α) (n : Nat), n < xs.length → ∃ y r, removeNth xs n = some (y, r) := by
  intro xs
  induction xs with
  | nil => intro n h; simp at h
  | cons x xs ih =>
    intro n h
    cases n with
    | zero => exact ⟨x, xs, rfl⟩
    | succ n =>
      obtain ⟨y, r, e⟩ := ih n (by simpa using h)
      exact ⟨y, x :: r, by simp only [removeNth, e]⟩

/-- with enough fuel (one unit per element), `permute` yields a permutation of its argument,
    whatever the code -/
theorem permute_perm {α} : ∀ (f : Nat) (xs : List α) (code : Nat), xs.length ≤ f →
    (permute f xs code).Perm xs := by
  intro f
  induction f with
  | zero =>
    intro xs code h
    have : xs = [] := List.eq_nil_of_length_eq_zero (Nat.le_zero.1 h)
    subst this; exact List.Perm.refl _
  | succ f ih =>
    intro xs code h
    cases xs with
    | nil => simp [permute]
    | cons x xs =>
      have hlt : code % (x :: xs).length < (x :: xs).length := Nat.mod_lt _ (by simp)
      obtain ⟨y, r, e⟩ := removeNth_some (x :: xs) _ hlt
      have hp := removeNth_perm _ _ _ _ e
      have hl : r.length ≤ f := by
        have := hp.length_eq
        simp only [List.length_cons] at this h
        omega
      simp only [permute, List.isEmpty_cons, Bool.false_eq_true, if_false, e]
      exact ((ih r _ hl).cons y).trans hp

theorem insertKey_perm {β} (kv : Bytes × β) (l : List (Bytes × β)) : (insertKey kv l).Perm (kv :: l) := by
  induction l with
  | nil => exact List.Perm.refl _
  | cons x r ih =>
    simp only [insertKey]
    split
    · exact List.Perm.refl _
    · exact (ih.cons x).trans (List.Perm.swap kv x r)

theorem sortKeys_perm {β} (m : List (Bytes × β)) : (sortKeys m).Perm m := by
  induction m with
  | nil => exact List.Perm.refl _
  | cons x r ih =>
    have : sortKeys (x :: r) = insertKey x (sortKeys r) := rfl
    rw [this]
    exact (insertKey_perm x _).trans (ih.cons x)

/-! ### runes -/

theorem ite_some_width {c : Prop} [Decidable c] {a b : Bytes} {m n : Nat} {r : Bytes} {w : Nat}
    (hm : 1 ≤ m) (hn : 1 ≤ n) (h : (if c then some (a, m) else some (b, n)) = some (r, w)) : 1 ≤ w := by
  split at h <;> cases h <;> assumption

theorem decode_width_pos {s r : Bytes} {w : Nat} (h : Utf8.decode s = some (r, w)) : 1 ≤ w ∧ s ≠ [] := by
  cases s with
  | nil => simp [Utf8.decode] at h
  | cons b0 rest =>
    refine ⟨?_, by simp⟩
    unfold Utf8.decode at h
    repeat' split at h
    all_goals first | (cases h; done) | (cases h; decide) | (refine ite_some_width ?_ ?_ h <;> decide)

theorem runes_fuel : ∀ (n f : Nat) (s : Bytes), f ≤ n → s.length < f →
    Utf8.runes f s = Utf8.runes (s.length + 1) s := by
  intro n
  induction n with
  | zero => intro f s h1 h2; omega
  | succ n ih =>
    intro f s h1 h2
    cases f with
    | zero => omega
    | succ f =>
      simp only [Utf8.runes]
      cases hd : Utf8.decode s with
      | none => rfl
      | some rw =>
        obtain ⟨r, w⟩ := rw
        obtain ⟨hw, hne⟩ := decode_width_pos hd
        have hlen : (s.drop w).length < s.length := by
          have : 0 < s.length := List.length_pos_iff.2 hne
          simp only [List.length_drop]; omega
        simp only []
        rw [ih f (s.drop w) (by omega) (by omega), ih s.length (s.drop w) (by omega) hlen]

theorem runesOf_nil : Utf8.runesOf [] = [] := rfl

/-- the runes of a string: the first rune, then the runes of what follows it -/
theorem runesOf_cons {s r : Bytes} {w : Nat} (h : Utf8.decode s = some (r, w)) :
    Utf8.runesOf s = r :: Utf8.runesOf (s.drop w) := by
  obtain ⟨hw, hne⟩ := decode_width_pos h
  have hlen : (s.drop w).length < s.length := by
    have : 0 < s.length := List.length_pos_iff.2 hne
    simp only [List.length_drop]; omega
  unfold Utf8.runesOf
  have e1 : Utf8.runes (s.length + 1) s = r :: Utf8.runes s.length (s.drop w) := by
    simp only [Utf8.runes, h]
  rw [e1, runes_fuel s.length s.length (s.drop w) (Nat.le_refl _) hlen]

/-- an ASCII byte is one character -/
theorem decode_ascii (b : UInt8) (rest : Bytes) (h : b < 0x80) : Utf8.decode (b :: rest) = some ([b], 1) := by
  simp [Utf8.decode, h]

end Platypus.ScopeProofs
