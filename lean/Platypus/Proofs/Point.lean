import Platypus.Model.PointOps
import Platypus.Proofs.Assoc
/-!
Point-specific helper lemmas: what each point operation of Platypus/Model/PointOps.lean does to
the three association lists `tags`, `fields`, `idx`, stated without reference to any invariant.
-/
namespace Platypus
namespace Point

/-! ### init -/

/-- the index entry `Point.init` gives to a field value (`none` for a reference) -/
def fieldMeta : Val → Option (DType × Bool)
  | .nil => some (.nil, false)
  | .int _ => some (.int, false)
  | .float _ => some (.float, false)
  | .bool _ => some (.bool, false)
  | .str _ => some (.str, false)
  | .ref _ => none

@[simp] theorem init_tags (m : Bytes) (tags : List (Bytes × Bytes)) (fields : List (Bytes × Val)) (t : Int) :
    (init m tags fields t).tags = tags := rfl

@[simp] theorem init_fields (m : Bytes) (tags : List (Bytes × Bytes)) (fields : List (Bytes × Val)) (t : Int) :
    (init m tags fields t).fields = fields := rfl

/-- the index of `init` in the shape the `Assoc` lemmas understand -/
theorem init_idx (m : Bytes) (tags : List (Bytes × Bytes)) (fields : List (Bytes × Val)) (t : Int) :
    (init m tags fields t).idx =
      tags.foldl (fun acc p => aset p.1 (DType.str, true) acc)
        (fields.filterMap fun p => (fieldMeta p.2).map fun c => (p.1, c)) := by
  simp only [init]
  congr 2
  funext p; obtain ⟨a, v⟩ := p; cases v <;> rfl

theorem init_idx_lookup (m : Bytes) (tags : List (Bytes × Bytes)) {fields : List (Bytes × Val)} (t : Int)
    (hnf : (fields.map (·.1)).Nodup) (k : Bytes) :
    alookup k (init m tags fields t).idx =
      if k ∈ tags.map (·.1) then some (DType.str, true) else (alookup k fields).bind fieldMeta := by
  rw [init_idx, alookup_foldl_aset, alookup_filterMap _ _ hnf]

theorem init_idx_nodup (m : Bytes) (tags : List (Bytes × Bytes)) {fields : List (Bytes × Val)} (t : Int)
    (hnf : (fields.map (·.1)).Nodup) :
    ((init m tags fields t).idx.map (·.1)).Nodup := by
  rw [init_idx]
  exact nodup_foldl_aset _ _ _ (nodup_filterMap _ hnf)

/-! ### delete -/

/-- the three ways `delete` can go -/
theorem delete_cases (pt : Point) (key : Bytes) :
    (alookup key pt.idx = none ∧ pt.delete key = pt) ∨
    (∃ t, alookup key pt.idx = some (t, true) ∧
      pt.delete key = { pt with tags := aerase key pt.tags, idx := aerase key pt.idx }) ∨
    (∃ t, alookup key pt.idx = some (t, false) ∧
      pt.delete key = { pt with fields := aerase key pt.fields, idx := aerase key pt.idx }) := by
  cases h : alookup key pt.idx with
  | none => simp [delete, h]
  | some p =>
    obtain ⟨t, b⟩ := p
    cases b <;> simp [delete, h]

theorem delete_idx_lookup (pt : Point) (key k : Bytes) :
    alookup k (pt.delete key).idx = if key = k then none else alookup k pt.idx := by
  rcases delete_cases pt key with ⟨h, e⟩ | ⟨t, h, e⟩ | ⟨t, h, e⟩
  · rw [e]; split
    · subst_vars; exact h
    · rfl
  · rw [e]; simp [alookup_aerase]
  · rw [e]; simp [alookup_aerase]

theorem delete_tags_other (pt : Point) {key k : Bytes} (hne : key ≠ k) :
    alookup k (pt.delete key).tags = alookup k pt.tags := by
  rcases delete_cases pt key with ⟨_, e⟩ | ⟨t, _, e⟩ | ⟨t, _, e⟩ <;> rw [e] <;> simp [alookup_aerase, hne]

theorem delete_fields_other (pt : Point) {key k : Bytes} (hne : key ≠ k) :
    alookup k (pt.delete key).fields = alookup k pt.fields := by
  rcases delete_cases pt key with ⟨_, e⟩ | ⟨t, _, e⟩ | ⟨t, _, e⟩ <;> rw [e] <;> simp [alookup_aerase, hne]

/-! ### set -/

/-- `set` on a key the index knows as a tag only touches the tags -/
theorem set_tag_cases (pt : Point) (key : Bytes) (x : TV) (cs : Option Bytes) {t : DType}
    (h : alookup key pt.idx = some (t, true)) :
    pt.set key x cs = { pt with tags := aerase key pt.tags } ∨
    (∃ s, pt.set key x cs = { pt with tags := aset key s pt.tags }) ∨
    pt.set key x cs = pt := by
  by_cases hv : x.t = .void ∨ x.t = .invalid
  · left; simp [set, h, hv]
  · cases cs with
    | none => right; right; simp [set, h, hv]
    | some s => right; left; exact ⟨s, by simp [set, h, hv]⟩

/-- `set` on any other key writes one field and its index entry; the value written is `nil`, a
    string, or the given value when that is tagged bool/int/float/str -/
theorem set_field_cases (pt : Point) (key : Bytes) (x : TV) (cs : Option Bytes)
    (h : ∀ t, alookup key pt.idx ≠ some (t, true)) :
    ∃ v t, pt.set key x cs = { pt with fields := aset key v pt.fields, idx := aset key (t, false) pt.idx } ∧
      ((v = .nil ∧ t = .nil) ∨ (∃ s, v = .str s ∧ t = .str) ∨
       (v = x.v ∧ t = x.t ∧ (t = .bool ∨ t = .int ∨ t = .float ∨ t = .str))) := by
  obtain ⟨xv, xt⟩ := x
  cases hi : alookup key pt.idx with
  | none =>
    cases xt <;> cases cs <;> simp [set, hi] <;> exact ⟨_, _, ⟨rfl, rfl⟩, by simp⟩
  | some p =>
    obtain ⟨t0, b⟩ := p
    cases b with
    | true => exact absurd hi (h t0)
    | false => cases xt <;> cases cs <;> simp [set, hi] <;> exact ⟨_, _, ⟨rfl, rfl⟩, by simp⟩

/-! ### setTag -/

theorem setTag_cases (pt : Point) (key : Bytes) (cs : Option Bytes) :
    ∃ s,
      (alookup key pt.idx = none ∧
        pt.setTag key cs = { pt with idx := aset key (.str, true) pt.idx, tags := aset key s pt.tags }) ∨
      (∃ t, alookup key pt.idx = some (t, true) ∧
        pt.setTag key cs = { pt with tags := aset key s pt.tags }) ∨
      (∃ t, alookup key pt.idx = some (t, false) ∧
        pt.setTag key cs = { pt with fields := aerase key pt.fields, idx := aset key (.str, true) pt.idx,
                                     tags := aset key s pt.tags }) := by
  refine ⟨cs.getD [], ?_⟩
  cases hi : alookup key pt.idx with
  | none => cases cs <;> simp [setTag, hi]
  | some p =>
    obtain ⟨t0, b⟩ := p
    cases b <;> cases cs <;> simp [setTag, hi]

/-! ### rename -/

theorem rename_same (pt : Point) (k : Bytes) : pt.rename k k = pt := by simp [rename]

theorem rename_absent (pt : Point) {to frm : Bytes} (h : alookup frm pt.idx = none) :
    pt.rename to frm = pt := by
  simp [rename, h]

/-- a real rename, in terms of the point `p1` left by deleting the target key -/
theorem rename_cases (pt : Point) {to frm : Bytes} (hne : to ≠ frm) {t : DType} {b : Bool}
    (h : alookup frm pt.idx = some (t, b)) :
    let p1 := pt.delete to
    (b = true ∧ ∃ v, alookup frm p1.tags = some v ∧
      pt.rename to frm = { p1 with tags := aerase frm (aset to v p1.tags),
                                   idx := aerase frm (aset to (t, true) p1.idx) }) ∨
    (b = true ∧ alookup frm p1.tags = none ∧
      pt.rename to frm = { p1 with tags := aerase frm p1.tags,
                                   idx := aerase frm (aset to (t, true) p1.idx) }) ∨
    (b = false ∧ ∃ v, alookup frm p1.fields = some v ∧
      pt.rename to frm = { p1 with fields := aerase frm (aset to v p1.fields),
                                   idx := aerase frm (aset to (t, false) p1.idx) }) ∨
    (b = false ∧ alookup frm p1.fields = none ∧
      pt.rename to frm = { p1 with fields := aerase frm p1.fields,
                                   idx := aerase frm (aset to (t, false) p1.idx) }) := by
  intro p1
  cases b with
  | true =>
    cases hv : alookup frm p1.tags with
    | none => right; left; simp [rename, hne, h, p1, hv]
    | some v => left; refine ⟨rfl, v, rfl, ?_⟩; simp [rename, hne, h, p1, hv]
  | false =>
    cases hv : alookup frm p1.fields with
    | none => right; right; right; simp [rename, hne, h, p1, hv]
    | some v => right; right; left; refine ⟨rfl, v, rfl, ?_⟩; simp [rename, hne, h, p1, hv]

end Point
end Platypus
