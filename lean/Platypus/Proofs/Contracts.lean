import Platypus.Proofs.Extract
import Platypus.Proofs.PanicRender
import Platypus.Properties.C11
/-!
Helper definitions and lemmas for the positive contracts of C11 (`Properties/C11Contracts.lean`).

As in `Proofs/Extract.lean`, `builtin`'s local helpers are restated under a name (here `setPtTag`,
`argErr`, the engine questions `castQuery`, `strQuery`, …; `setPt`, `retSt`, `withPt`, `isTagKey`
come from `Extract.lean`) and `builtin` is unfolded once per function into an equation over these
names (`*_eq`).
-/
namespace Platypus.C11
open Platypus Platypus.C12

/-! ### vocabulary -/

/-- `builtin`'s local `setPtTag` (funcs.set_tag → `Point.SetTag`): the string form of the value is
    computed (possibly by an engine) and stored as a tag under the normalised key -/
def setPtTag (env : Env) (key : Bytes) (x : TV) : EM Unit := do
  let cs ← conv2str env x
  modWorld fun w => { w with pt := w.pt.setTag (normKey key) cs }

/-- run an argument expression; a run error gets the call position appended to its chain -/
def argErr (m : EM TV) (np : Pos) : EM TV := fun s =>
  match m s with
  | .err er s' => .err (er.append s'.task.name np) s'
  | r => r

/-- ASCII lower-casing of the type name given to `cast` -/
def lowerAscii (ty : Bytes) : Bytes := ty.map fun c => if 65 ≤ c && c ≤ 90 then c + 32 else c

/-- the target type named by `cast`'s second argument (case-insensitive); none = unknown name -/
def castKind (ty : Bytes) : Option DType :=
  let lty := lowerAscii ty
  if lty = B "bool" then some .bool else if lty = B "int" then some .int
  else if lty = B "float" then some .float else if lty = B "str" ∨ lty = B "string" then some .str else none

/-- the question `cast` puts to the conversion engine: target type and rendered subject value -/
def castQuery (t : DType) (h : Heap) (v : Val) : Bytes := B "cast:" ++ B t.name ++ [58] ++ renderV h v

/-- the conversion engine answered with a value of the requested type -/
def castTyped : DType → Val → Bool
  | .str, .str _ | .int, .int _ | .float, .float _ | .bool, .bool _ => true
  | _, _ => false

/-- the cut set of `trim`: the second argument if it is a string literal, else empty -/
def trimCut : List Node → Bytes
  | [.strLit c _] => c
  | _ => []

/-- the question trim / uppercase / url_decode put to the string engine -/
def strQuery (fn : Fn) (rest : List Node) (cont : Bytes) : Bytes :=
  if fn = .trim then B "trim:" ++ hexOf (trimCut rest) ++ [58] ++ hexOf cont
  else if fn = .uppercase then B "upper:" ++ hexOf cont
  else B "urldecode:" ++ hexOf cont

def regexCompileQuery (pat : Bytes) : Bytes := B "regexcompile:" ++ hexOf pat
def regexReplaceQuery (pat rep cont : Bytes) : Bytes :=
  B "regexreplace:" ++ hexOf pat ++ [58] ++ hexOf rep ++ [58] ++ hexOf cont
def jsonLoadQuery (txt : Bytes) : Bytes := B "jsonload:" ++ hexOf txt
/-- the question strfmt / printf put to the formatting engine: format and rendered arguments -/
def sprintfQuery (fmts : Bytes) (h : Heap) (vs : List TV) : Bytes :=
  B "sprintf:" ++ hexOf fmts ++ [58] ++ (vs.foldl (fun (acc : Bytes) (x : TV) => acc ++ renderV h x.v ++ [59]) [])
/-- the first argument of strfmt / printf whose value contains itself (`a[0] = a`), with its value:
    such a value cannot be formatted -/
def selfArg (h : Heap) (rest : List Node) (vs : List TV) : Option (Node × TV) :=
  (rest.zip vs).find? (fun (nx : Node × TV) => containsItself h nx.2.v)
/-- the question `Conv2String` puts to the JSON engine for a list or map value -/
def jsonQuery (h : Heap) (v : Val) : Bytes := B "json:" ++ renderV h v
/-- the question `cast.ToString` puts to the float-text engine -/
def fmtfQuery (bits : UInt64) : Bytes := B "fmtf:" ++ decNat bits.toNat

/-- set_measurement: a string value becomes the measurement, anything else changes nothing -/
def setMeas (v : TV) (s : St) : St :=
  match v.t, v.v with
  | .str, .str m => { s with world := { s.world with pt := { s.world.pt with meas := m } } }
  | _, _ => s

/-- set_measurement: the key to delete — only with a literal `true` second argument and an
    identifier / attribute first argument -/
def measDel (a0 : Node) (rest : List Node) : Option Bytes :=
  match rest with
  | [.boolLit true _] => (match a0 with
    | .ident _ _ | .attr _ _ _ => (match getKeyName a0 with | .ok k => some k | _ => none)
    | _ => none)
  | _ => none

def delKey (d : Option Bytes) (s : St) : St :=
  match d with
  | some k => { s with world := { s.world with pt := s.world.pt.delete (normKey k) } }
  | none => s

/-- the state with `Event.out text` put in front of the trace -/
def outSt (text : Bytes) (s : St) : St :=
  { s with world := { s.world with trace := Event.out text :: s.world.trace } }

/-- the state with the heap replaced -/
def withHeap (s : St) (h : Heap) : St := { s with world := { s.world with heap := h } }

variable (env : Env)

/-! ### `builtin`, unfolded once per function -/

theorem addKey1_eq (f : Nat) (name : Bytes) (kn : Node) (k : Bytes) (np : Pos) (site : Nat)
    (hk : getKeyName kn = .ok k) :
    builtin env (f+1) .addKey name [kn] np site = (do
        let s ← getS
        match getKey s k with
        | none => pure ()
        | some v => setPt env k v) := by
  simp only [builtin, hk]
  rfl

theorem addKey2_eq (f : Nat) (name : Bytes) (kn e : Node) (k : Bytes) (np : Pos) (site : Nat)
    (hk : getKeyName kn = .ok k) :
    builtin env (f+1) .addKey name [kn, e] np site = (do
        let v ← argErr (evalNode env f e) np
        setPt env k v) := by
  simp only [builtin, hk]
  rfl

theorem setTag1_eq (f : Nat) (name : Bytes) (kn : Node) (k : Bytes) (np : Pos) (site : Nat)
    (hk : getKeyName kn = .ok k) :
    builtin env (f+1) .setTag name [kn] np site = (do
        let s ← getS
        match getKey s k with
        | none => setPtTag env k ⟨.str [], .str⟩
        | some v => setPtTag env k v) := by
  simp only [builtin, hk]
  rfl

theorem setTag2_eq (f : Nat) (name : Bytes) (kn e : Node) (k : Bytes) (np : Pos) (site : Nat)
    (hk : getKeyName kn = .ok k) :
    builtin env (f+1) .setTag name [kn, e] np site = (do
        let v ← evalNode env f e
        setPtTag env k v) := by
  simp only [builtin, hk]
  rfl

theorem cast_eq (f : Nat) (name : Bytes) (kn : Node) (k ty : Bytes) (p2 np : Pos) (site : Nat)
    (hk : getKeyName kn = .ok k) :
    builtin env (f+1) .cast name [kn, .strLit ty p2] np site = (do
        let s ← getS
        match getKey s k with
        | none => pure ()
        | some v =>
          match castKind ty with
          | none => setPt env k nilTV
          | some t =>
            match t, v.v with
            | .int, .int i => setPt env k ⟨.int i, .int⟩
            | _, _ => do
              let a ← ask env (castQuery t s.world.heap v.v)
              match unrender 8 [] (unhex (splitAnswer a).2) with
              | some (r, _, _) =>
                if castTyped t r then setPt env k ⟨r, t⟩ else needE (B "unmodelled:cast-answer-type")
              | none => needE (B "unmodelled:cast-answer")) := by
  simp only [builtin, hk]
  rfl

theorem strfn_eq (f : Nat) (fn : Fn) (name : Bytes) (kn : Node) (rest : List Node) (k : Bytes) (np : Pos) (site : Nat)
    (hfn : fn = .trim ∨ fn = .uppercase ∨ fn = .urlDecode) (hk : getKeyName kn = .ok k) :
    builtin env (f+1) fn name (kn :: rest) np site = (do
        let s ← getS
        match getKey s k with
        | none => pure ()
        | some v =>
          match (← conv2str env v) with
          | none => pure ()
          | some cont =>
            let a ← ask env (strQuery fn rest cont)
            let (ok, payload) := splitAnswer a
            if ok then setPt env k ⟨.str (unhex payload), .str⟩
            else runErr np "engine-error") := by
  rcases hfn with rfl | rfl | rfl
  · simp only [builtin, hk]; rfl
  · simp only [builtin, hk]; rfl
  · simp only [builtin, hk]; rfl

theorem replace_eq (f : Nat) (name : Bytes) (kn : Node) (k pat rep : Bytes) (p2 p3 np : Pos) (site : Nat)
    (hk : getKeyName kn = .ok k) :
    builtin env (f+1) .replace name [kn, .strLit pat p2, .strLit rep p3] np site = (do
        let c ← ask env (regexCompileQuery pat)
        if !(splitAnswer c).1 then runErr p2 "regex-compile" else
        let s ← getS
        match getKey s k with
        | none => pure ()
        | some v =>
          match (← conv2str env v) with
          | none => pure ()
          | some cont =>
            let a ← ask env (regexReplaceQuery pat rep cont)
            setPt env k ⟨.str (unhex (splitAnswer a).2), .str⟩) := by
  simp only [builtin, hk]
  rfl

theorem strfmt_eq (f : Nat) (name : Bytes) (kn : Node) (rest : List Node) (k fmts : Bytes) (p2 np : Pos) (site : Nat)
    (hk : getKeyName kn = .ok k) :
    builtin env (f+1) .strfmt name (kn :: .strLit fmts p2 :: rest) np site = (do
        let vs ← evalList env f rest
        let s ← getS
        match selfArg s.world.heap rest vs with
        | some nx => runErr (Node.start nx.1) "formats-a-value-that-contains-itself"
        | none => do
          let a ← ask env (sprintfQuery fmts s.world.heap vs)
          setPt env k ⟨.str (unhex (splitAnswer a).2), .str⟩) := by
  simp only [builtin, hk]
  rfl

/-! ### strfmt / printf: the argument that contains itself -/

/-- `evalList` returns one value per argument -/
theorem evalList_length : ∀ (xs : List Node) (f : Nat) (s s1 : St) (vs : List TV),
    evalList env f xs s = .ok vs s1 → vs.length = xs.length := by
  intro xs
  induction xs with
  | nil =>
    intro f s s1 vs h
    cases f with
    | zero => simp [evalList, outOfFuel] at h
    | succ f => simp [evalList, pure, EM.pure] at h; simp [← h.1]
  | cons x r ih =>
    intro f s s1 vs h
    cases f with
    | zero => simp [evalList, outOfFuel] at h
    | succ f =>
      simp only [evalList, bind, EM.bind, pure, EM.pure] at h
      split at h <;> try (simp at h)
      split at h <;> try (simp at h)
      rename_i vs' s3 h3
      rw [← h.1, List.length_cons, ih f _ _ _ h3]
      rfl

/-- no argument value contains itself: nothing is selected -/
theorem selfArg_none_of_forall {h : Heap} {rest : List Node} {vs : List TV}
    (hall : ∀ x ∈ vs, containsItself h x.v = false) : selfArg h rest vs = none := by
  simp only [selfArg, List.find?_eq_none]
  intro nx hnx
  simp [hall nx.2 (List.of_mem_zip hnx).2]

/-- with one value per argument, `selfArg` is `none` exactly when no value contains itself -/
theorem selfArg_none_iff {h : Heap} {rest : List Node} {vs : List TV} (hl : vs.length = rest.length) :
    selfArg h rest vs = none ↔ ∀ x ∈ vs, containsItself h x.v = false := by
  refine ⟨fun hn => ?_, selfArg_none_of_forall⟩
  induction rest generalizing vs with
  | nil => cases vs with
    | nil => simp
    | cons _ _ => simp at hl
  | cons n r ih =>
    cases vs with
    | nil => simp
    | cons y ys =>
      simp only [selfArg, List.zip_cons_cons, List.find?_cons] at hn
      split at hn
      · simp at hn
      · rename_i hy
        intro x hx
        rcases List.mem_cons.1 hx with rfl | hx
        · simpa using hy
        · exact ih (by simpa using hl) hn x hx

/-- `selfArg` selects the *first* argument (position `i`) whose value contains itself -/
theorem selfArg_some_iff {h : Heap} {rest : List Node} {vs : List TV} {n : Node} {x : TV} :
    selfArg h rest vs = some (n, x) ↔
      ∃ i : Nat, rest[i]? = some n ∧ vs[i]? = some x ∧ containsItself h x.v = true ∧
        ∀ (j : Nat) (y : TV), j < i → vs[j]? = some y → containsItself h y.v = false := by
  induction rest generalizing vs with
  | nil => simp [selfArg]
  | cons m r ih =>
    cases vs with
    | nil => simp [selfArg]
    | cons y ys =>
      simp only [selfArg, List.zip_cons_cons, List.find?_cons]
      cases hy : containsItself h y.v
      · simp only []
        rw [show List.find? (fun (nx : Node × TV) => containsItself h nx.2.v) (r.zip ys) = selfArg h r ys from rfl, ih]
        constructor
        · rintro ⟨i, h1, h2, h3, h4⟩
          refine ⟨i+1, by simpa using h1, by simpa using h2, h3, ?_⟩
          intro j z hj hz
          cases j with
          | zero => simp at hz; subst hz; exact hy
          | succ j => exact h4 j z (by omega) (by simpa using hz)
        · rintro ⟨i, h1, h2, h3, h4⟩
          cases i with
          | zero => simp at h2; subst h2; rw [hy] at h3; cases h3
          | succ i =>
            refine ⟨i, by simpa using h1, by simpa using h2, h3, ?_⟩
            intro j z hj hz
            exact h4 (j+1) z (by omega) (by simpa using hz)
      · simp only []
        constructor
        · intro he
          simp only [Option.some.injEq, Prod.mk.injEq] at he
          obtain ⟨rfl, rfl⟩ := he
          exact ⟨0, by simp, by simp, hy, by intro j z hj; omega⟩
        · rintro ⟨i, h1, h2, h3, h4⟩
          cases i with
          | zero => simp at h1 h2; subst h1; subst h2; rfl
          | succ i =>
            have := h4 0 y (by omega) (by simp)
            rw [hy] at this; cases this

/-! ### the point stores -/

/-- the general form of the point store: with `cs` the string form of the value (`Conv2String`,
    which may consult the float-text or JSON engine and never changes the state), `setPt` is one
    `Point.set` under the normalised key.  (For a key that is not a tag and a value that is not a
    list or map the string form is not even computed — `setPt_field` — and `Point.set` ignores it.) -/
theorem setPt_conv {key : Bytes} {x : TV} {s : St} {cs : Option Bytes} (hc : conv2str env x s = .ok cs s) :
    setPt env key x s = .ok () (withPt s (s.world.pt.set (normKey key) x cs)) := by
  obtain ⟨v, t⟩ := x
  cases ht : isTagKey s.world.pt (normKey key)
  · cases t <;> simp [setPt, bind, EM.bind, getS, modWorld, modifyS, pure, EM.pure, ht, hc, withPt] <;>
      exact set_cs_irrelevant _ _ _ _ _ ht (by simp)
  · cases t <;> simp [setPt, bind, EM.bind, getS, modWorld, modifyS, pure, EM.pure, ht, hc, withPt]

theorem setPtTag_conv {key : Bytes} {x : TV} {s : St} {cs : Option Bytes} (hc : conv2str env x s = .ok cs s) :
    setPtTag env key x s = .ok () (withPt s (s.world.pt.setTag (normKey key) cs)) := by
  simp [setPtTag, bind, EM.bind, hc, modWorld, modifyS, withPt]

/-- `setPtTag` changes nothing but the point, and the point by one `Point.setTag` -/
theorem setPtTag_ok {key : Bytes} {x : TV} {s s' : St} (h : setPtTag env key x s = .ok () s') :
    ∃ cs, conv2str env x s = .ok cs s ∧ s' = withPt s (s.world.pt.setTag (normKey key) cs) := by
  simp only [setPtTag, bind, EM.bind, modWorld, modifyS] at h
  split at h <;> try (simp at h)
  rename_i cs s1 h1
  have e1 : s1 = s := conv2str_state env h1
  subst e1
  exact ⟨cs, h1, h.symm⟩

/-! ### what a key reads after a store -/

/-- what `Point.set` leaves under a key that is not a tag: values without a proper type
    (nil/void/invalid) are stored as nil; a list or map as its JSON text `cs` (nil when the JSON
    engine failed); bool/int/float/str values as they are, with their type -/
def storedAs (x : TV) (cs : Option Bytes) : TV :=
  match x.t with
  | .nil | .void | .invalid => nilTV
  | .list | .map => (match cs with | some s => ⟨.str s, .str⟩ | none => nilTV)
  | _ => x

theorem get_set_same_field (pt : Point) (key : Bytes) (x : TV) (cs : Option Bytes)
    (hk : isTagKey pt key = false) : (pt.set key x cs).get key = some (storedAs x cs) := by
  obtain ⟨v, t⟩ := x
  unfold isTagKey at hk
  unfold Point.set Point.get storedAs
  cases hi : alookup key pt.idx with
  | none => cases t <;> cases cs <;> simp [nilTV]
  | some p =>
    obtain ⟨t0, b⟩ := p
    cases b with
    | true => simp [hi] at hk
    | false => cases t <;> cases cs <;> simp [nilTV]

/-- `Point.set` on a key that is a tag: a void/invalid value removes the tag's text (it then reads
    nil); otherwise the text becomes the string form `cs`; when there is no string form the tag
    is left as it was -/
theorem get_set_same_tag (pt : Point) (key : Bytes) (x : TV) (cs : Option Bytes) (t : DType)
    (hk : alookup key pt.idx = some (t, true)) (ht : t ≠ .void ∧ t ≠ .nil) :
    (pt.set key x cs).get key =
      if x.t = .void ∨ x.t = .invalid then some nilTV
      else match cs with
        | some s => some ⟨.str s, .str⟩
        | none => pt.get key := by
  unfold Point.set Point.get
  by_cases hv : x.t = .void ∨ x.t = .invalid
  · simp [hk, hv, ht, nilTV]
  · cases cs <;> simp [hk, hv, ht]

/-- after `Point.setTag` the key reads as a string: the given text, or the empty string when there
    was none (conversion failure) -/
theorem get_setTag_same (pt : Point) (key : Bytes) (cs : Option Bytes)
    (ht : ∀ t, alookup key pt.idx = some (t, true) → t ≠ .void ∧ t ≠ .nil) :
    (pt.setTag key cs).get key = some ⟨.str (cs.getD []), .str⟩ := by
  unfold Point.setTag Point.get
  cases hi : alookup key pt.idx with
  | none => cases cs <;> simp
  | some p =>
    obtain ⟨t0, b⟩ := p
    cases b with
    | false => cases cs <;> simp
    | true =>
      have := ht t0 hi
      cases cs <;> simp [hi, this]

/-- `Point.setTag` keeps the drop flag (measurement and time: `key_ops_keep_meas_time`) -/
theorem setTag_keeps_drop (pt : Point) (k : Bytes) (cs : Option Bytes) : (pt.setTag k cs).drop = pt.drop := by
  unfold Point.setTag
  cases alookup k pt.idx with
  | none => cases cs <;> simp
  | some v => obtain ⟨t, b⟩ := v; cases b <;> cases cs <;> simp

theorem delete_keeps_drop (pt : Point) (k : Bytes) : (pt.delete k).drop = pt.drop := by
  unfold Point.delete
  cases alookup k pt.idx with
  | none => simp
  | some v => obtain ⟨t, b⟩ := v; cases b <;> simp

/-! ### frame -/

/-- `s'` differs from `s` at most in the point, and there at most under the key `k`: task
    (variables, flags, registers), heap, trace and counters are the same; every other key reads
    the same; measurement, time and drop flag are the same -/
structure PtWrite (k : Bytes) (s s' : St) : Prop where
  task : s'.task = s.task
  heap : s'.world.heap = s.world.heap
  trace : s'.world.trace = s.world.trace
  polls : s'.world.polls = s.world.polls
  mapIters : s'.world.mapIters = s.world.mapIters
  other : ∀ k', k' ≠ k → s'.world.pt.get k' = s.world.pt.get k'
  meas : s'.world.pt.meas = s.world.pt.meas
  time : s'.world.pt.time = s.world.pt.time
  drop : s'.world.pt.drop = s.world.pt.drop

theorem PtWrite.refl (k : Bytes) (s : St) : PtWrite k s s :=
  ⟨rfl, rfl, rfl, rfl, rfl, fun _ _ => rfl, rfl, rfl, rfl⟩

theorem PtWrite.of_set (k : Bytes) (s : St) (x : TV) (cs : Option Bytes) :
    PtWrite k s (withPt s (s.world.pt.set k x cs)) := by
  have h := (key_ops_keep_meas_time s.world.pt k [] x cs).1
  exact ⟨rfl, rfl, rfl, rfl, rfl, fun k' hk' => get_set_other _ k k' x cs hk', h.1, h.2.1, h.2.2⟩

theorem PtWrite.of_setTag (k : Bytes) (s : St) (cs : Option Bytes) :
    PtWrite k s (withPt s (s.world.pt.setTag k cs)) := by
  have h := (key_ops_keep_meas_time s.world.pt k [] nilTV cs).2.1
  exact ⟨rfl, rfl, rfl, rfl, rfl, fun k' hk' => get_setTag_other _ k k' cs hk', h.1, h.2, setTag_keeps_drop _ _ _⟩

theorem PtWrite.of_delete (k : Bytes) (s : St) :
    PtWrite k s (withPt s (s.world.pt.delete k)) := by
  have h := (key_ops_keep_meas_time s.world.pt k [] nilTV none).2.2.1
  exact ⟨rfl, rfl, rfl, rfl, rfl, fun k' hk' => get_delete_other _ k k' hk', h.1, h.2, delete_keeps_drop _ _⟩

/-- every successful run of `m` writes at most the point key `k` -/
def Writes (k : Bytes) (m : EM Unit) : Prop := ∀ s s', m s = .ok () s' → PtWrite k s s'

/-- `r` never changes the state -/
def ReadOnly {α} (r : EM α) : Prop := ∀ s a s', r s = .ok a s' → s' = s

theorem ReadOnly.getS : ReadOnly getS := by
  intro s a s' h; simp [Platypus.getS] at h; exact h.2.symm
theorem ReadOnly.ask (q : Bytes) : ReadOnly (ask env q) := fun _ _ _ h => ask_state env h
theorem ReadOnly.conv2str (x : TV) : ReadOnly (conv2str env x) := fun _ _ _ h => conv2str_state env h

theorem Writes.pure (k : Bytes) : Writes k (pure ()) := by
  intro s s' h; simp [Pure.pure, EM.pure] at h; rw [← h]; exact .refl k s
theorem Writes.runErr (k : Bytes) (p : Pos) (m : String) : Writes k (runErr p m) := by
  intro s s' h; simp [Platypus.runErr] at h
theorem Writes.needE (k q : Bytes) : Writes k (needE q) := by
  intro s s' h; simp [Platypus.needE] at h
theorem Writes.setPt (key : Bytes) (x : TV) : Writes (normKey key) (setPt env key x) := by
  intro s s' h
  obtain ⟨cs, e⟩ := setPt_ok env h
  rw [e]; exact .of_set _ s x cs
theorem Writes.setPtTag (key : Bytes) (x : TV) : Writes (normKey key) (setPtTag env key x) := by
  intro s s' h
  obtain ⟨cs, _, e⟩ := setPtTag_ok env h
  rw [e]; exact .of_setTag _ s cs
theorem Writes.bind {α} {k : Bytes} {r : EM α} {g : α → EM Unit} (hr : ReadOnly r) (hg : ∀ a, Writes k (g a)) :
    Writes k (r >>= g) := by
  intro s s' h
  simp only [Bind.bind, EM.bind] at h
  split at h <;> try (simp at h)
  rename_i a s1 h1
  have := hr _ _ _ h1
  subst this
  exact hg a _ _ h

/-! ### the type names of `cast` -/

theorem B_bool : B "bool" = [98, 111, 111, 108] := by
  show bytesOf "bool" = _
  rw [show "bool" = String.ofList ['b','o','o','l'] from rfl, PanicProofs.bytesOf_ofList]
  decide
theorem B_int : B "int" = [105, 110, 116] := by
  show bytesOf "int" = _
  rw [show "int" = String.ofList ['i','n','t'] from rfl, PanicProofs.bytesOf_ofList]
  decide
theorem B_float : B "float" = [102, 108, 111, 97, 116] := by
  show bytesOf "float" = _
  rw [show "float" = String.ofList ['f','l','o','a','t'] from rfl, PanicProofs.bytesOf_ofList]
  decide
theorem B_str : B "str" = [115, 116, 114] := by
  show bytesOf "str" = _
  rw [show "str" = String.ofList ['s','t','r'] from rfl, PanicProofs.bytesOf_ofList]
  decide
theorem B_string : B "string" = [115, 116, 114, 105, 110, 103] := by
  show bytesOf "string" = _
  rw [show "string" = String.ofList ['s','t','r','i','n','g'] from rfl, PanicProofs.bytesOf_ofList]
  decide

theorem castKind_eq (ty : Bytes) : castKind ty =
    (if lowerAscii ty = [98, 111, 111, 108] then some .bool else if lowerAscii ty = [105, 110, 116] then some .int
     else if lowerAscii ty = [102, 108, 111, 97, 116] then some .float
     else if lowerAscii ty = [115, 116, 114] ∨ lowerAscii ty = [115, 116, 114, 105, 110, 103] then some .str else none) := by
  simp only [castKind, B_bool, B_int, B_float, B_str, B_string]

end Platypus.C11
