import Platypus.Proofs.PanicPrim
import Platypus.Proofs.PanicSlice
/-!
C01 proof, part 3: operator results are good values.
-/
namespace Platypus.PanicProofs
open Platypus Platypus.C01

theorem wrap64_lo (x : Int) : minI64 ≤ wrap64 x := (wrap64_range x).1

theorem gv_unop {h : Heap} {op : UOp} {x r : TV} (hx : GV h x) (hr : unop h op x = .ok r) : GV h r := by
  obtain ⟨xv, xt⟩ := x
  cases op
  case not =>
    simp only [unop] at hr
    split at hr
    all_goals first
      | (cases hr; exact gv_bool h _)
      | (split at hr <;> first | (cases hr; exact gv_bool h _) | cases hr)
  all_goals
    cases xt <;> simp [unop] at hr
    case bool =>
      subst hr
      refine gv_int h _ ?_
      unfold minI64; repeat' split
      all_goals omega
    case float => subst hr; exact gv_float h _
    case int =>
      subst hr
      obtain ⟨i, hv, hi⟩ := hx.int_val rfl
      simp only at hv
      subst hv
      exact gv_int h _ (by first | exact wrap64_lo _ | exact hi)

theorem gv_arith {h : Heap} {op : AOp} {l r v : TV} (hv : arith op l r = .ok v) : GV h v := by
  unfold arith at hv
  split at hv
  · cases hv
  split at hv
  · cases hv
  split at hv
  · split at hv
    · cases hv
    split at hv
    · split at hv
      · cases hv; exact gv_str h _
      · cases hv
    · cases hv
  split at hv
  · split at hv
    · cases hv; exact gv_float h _
    · cases hv
  · split at hv
    · rename_i i hi
      cases hv
      refine gv_int h _ ?_
      unfold arithOpInt at hi
      split at hi
      · cases hi; exact wrap64_lo _
      · cases hi; exact wrap64_lo _
      · cases hi; exact wrap64_lo _
      · split at hi
        · cases hi
        · cases hi; exact wrap64_lo _
      · split at hi
        · cases hi
        · cases hi; exact wrap64_lo _
    · cases hv

theorem gv_condOp {h : Heap} {op : COp} {l r v : TV} (hv : condOp h op l r = .ok v) : GV h v := by
  unfold condOp at hv
  dsimp only at hv
  split at hv
  · cases hv; exact gv_bool h _
  · cases hv; exact gv_bool h _
  · split at hv
    · cases hv
    split at hv
    · cases hv
    split at hv
    all_goals (repeat' (split at hv))
    all_goals first | (cases hv; exact gv_bool h _) | cases hv

theorem gv_inOp {h : Heap} {l r v : TV} (hv : inOp h l r = .ok v) : GV h v := by
  unfold inOp at hv
  repeat' (split at hv)
  all_goals first | (cases hv; exact gv_bool h _) | cases hv

end Platypus.PanicProofs
