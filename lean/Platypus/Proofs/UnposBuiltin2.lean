import Platypus.Proofs.UnposBuiltin
/-!
# Layout independence, helper 5: `set_measurement`, `grok`, and the step of `builtin`
-/
set_option linter.unusedVariables false
set_option linter.unusedSimpArgs false
namespace Platypus.LayoutSemantics
open Platypus Platypus.FrontEnd Platypus.MachineProofs

section
variable {env : Env} {f : Nat}

theorem b_setMeasurement (ih : ESim env f) (name : Bytes) (args : List Node) (np np' : Pos) (site : Nat) :
    Sim (builtin env (f+1) .setMeasurement name args np site)
      (builtin (unposEnv env) (f+1) .setMeasurement name (unposL args) np' site) := by
  have h1 := ih.node
  rcases args with _ | ⟨a0, rest⟩
  · bsimp; sim_tac
  · have hlen1 : ∀ x : Node, ¬ ([x].length > 1) := fun _ => by simp
    have hlen0 : ¬ (([] : List Node).length > 1) := by simp
    rcases rest with _ | ⟨b, _ | ⟨c, r⟩⟩
    · bsimp
      simp only [if_neg hlen0]
      intro s
      sim_res h1 a0 s <;> exact ResSim.refl _
    · bsimp
      simp only [if_neg (hlen1 _)]
      cases b
      case boolLit v p =>
        cases v
        · bsimp
          intro s
          sim_res h1 a0 s <;> exact ResSim.refl _
        · have h1' := h1 a0
          cases a0 <;> simp only [unpos] at h1' <;> bsimp <;> intro s <;> sim_res h1' s <;> exact ResSim.refl _
      all_goals
        bsimp
        intro s
        sim_res h1 a0 s <;> exact ResSim.refl _
    · bsimp
      have h2 : (b :: c :: r).length > 1 := by simp
      have h3 : (unpos b :: unpos c :: unposL r).length > 1 := by simp
      simp only [if_pos h2, if_pos h3]
      sim_tac

theorem b_grok (name : Bytes) (args : List Node) (np np' : Pos) (site : Nat) :
    Sim (builtin env (f+1) .grok name args np site) (builtin (unposEnv env) (f+1) .grok name (unposL args) np' site) := by
  cases hg : env.grok site with
  | none => bsimp; simp only [hg]; sim_tac
  | some q =>
    rcases args with _ | ⟨k, _ | ⟨a1, rest⟩⟩
    · bsimp; simp only [hg]; sim_tac
    · bsimp; simp only [hg]; sim_tac
    · rcases rest with _ | ⟨b, _ | ⟨c, r⟩⟩
      · bsimp; simp only [hg]; sim_tac
      · cases b <;> bsimp <;> simp only [hg] <;> sim_tac
      · cases b <;> bsimp <;> simp only [hg] <;> sim_tac

theorem builtin_sim_step (ih : ESim env f) (fn : Fn) (name : Bytes) (args : List Node) (np np' : Pos) (site : Nat) :
    Sim (builtin env (f+1) fn name args np site) (builtin (unposEnv env) (f+1) fn name (unposL args) np' site) := by
  cases fn
  case exit => exact b_exit name args np np' site
  case addKey => exact b_addKey ih name args np np' site
  case getKey => exact b_getKey name args np np' site
  case setTag => exact b_setTag ih name args np np' site
  case dropKey => exact b_dropKey name args np np' site
  case rename => exact b_rename name args np np' site
  case setMeasurement => exact b_setMeasurement ih name args np np' site
  case len => exact b_len ih name args np np' site
  case use => exact b_use ih name args np np' site
  case cast => exact b_cast name args np np' site
  case trim => exact b_trim name args np np' site
  case uppercase => exact b_uppercase name args np np' site
  case urlDecode => exact b_urlDecode name args np np' site
  case replace => exact b_replace name args np np' site
  case loadJson => exact b_loadJson ih name args np np' site
  case strfmt => exact b_strfmt ih name args np np' site
  case printf => exact b_printf ih name args np np' site
  case p => exact b_p ih name args np np' site
  case pr => exact b_pr ih name args np np' site
  case void => exact b_void ih name args np np' site
  case grok => exact b_grok name args np np' site
  case addPattern => exact b_addPattern name args np np' site
  case datetime => exact b_datetime name args np np' site
  case defaultTime => exact b_defaultTime name args np np' site
  case xml => exact b_xml name args np np' site
  case sqlCover => exact b_sqlCover name args np np' site

theorem esim_succ (ih : ESim env f) : ESim env (f+1) :=
  ⟨evalNode_sim_step ih, evalList_sim_step ih, evalMapLit_sim_step ih, searchLM_sim_step ih,
    changeLM_sim_step ih, evalSlice_sim_step ih, evalAssign_sim_step ih, evalCall_sim_step ih,
    builtin_sim_step ih⟩

end

theorem esim_all (env : Env) : ∀ f, ESim env f
  | 0 => esim_zero env
  | f+1 => esim_succ (esim_all env f)

/-- the v1 evaluator on a tree and on the position-free tree (position-free environment) -/
theorem evalNode_unpos (env : Env) (f : Nat) (n : Node) :
    Sim (evalNode env f n) (evalNode (unposEnv env) f (unpos n)) := (esim_all env f).node n

/-- the v1 statement machine with the v1 evaluator, on statements and on the position-free statements -/
theorem runStmts_unpos (env : Env) (f g : Nat) (l : List Node) :
    Sim (runStmts env (evalNode env f) g l) (runStmts (unposEnv env) (evalNode (unposEnv env) f) g (unposL l)) :=
  (msim_all (env := env) (esim_all env f).node g).stmts l

/-- a v1 run and the run of the position-free script in the position-free environment -/
theorem runScript_unpos (env : Env) (fuel : Nat) (name : Bytes) (ns : List Node) (w : World) :
    ResSim (runScript env fuel name ns w) (runScript (unposEnv env) fuel name (ns.map unpos) w) := by
  rw [← unposL_eq_map]
  exact runStmts_unpos env fuel fuel ns _

/-- v1 runs of the same script up to positions, in the same environment up to positions -/
theorem runScript_sim (env env' : Env) (h : EnvSim env env') (fuel : Nat) (name : Bytes) (ns ns' : List Node)
    (hs : ns.map unpos = ns'.map unpos) (w : World) :
    ResSim (runScript env fuel name ns w) (runScript env' fuel name ns' w) := by
  refine (runScript_unpos env fuel name ns w).trans ?_
  rw [h.unposEnv_eq, hs]
  exact (runScript_unpos env' fuel name ns' w).symm

/-- v1 expression evaluation of the same tree up to positions -/
theorem evalNode_sim (env env' : Env) (h : EnvSim env env') (f : Nat) (n n' : Node) (hn : unpos n = unpos n') :
    Sim (evalNode env f n) (evalNode env' f n') := by
  refine (evalNode_unpos env f n).trans ?_
  rw [h.unposEnv_eq, hn]
  exact (evalNode_unpos env' f n').symm

end Platypus.LayoutSemantics
