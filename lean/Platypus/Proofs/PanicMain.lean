import Platypus.Proofs.PanicBuiltin
/-!
C01 proof, part 8: the induction on fuel and the run of a script.
-/
namespace Platypus.PanicProofs
open Platypus Platypus.MachineProofs Platypus.C01

theorem ih_zero (env : Env) : IH env 0 := by
  refine ⟨?_, ?_, ?_, ?_, ?_, ?_, ?_, ?_, ?_⟩ <;> intros
  · intro n s _ _; rw [evalNode]; exact Tr.fuel
  · rw [evalList]; exact Tr.fuel
  · rw [evalMapLit]; exact Tr.fuel
  · rw [searchLM]; exact Tr.fuel
  · rw [changeLM]; exact Tr.fuel
  · rw [evalSlice]; exact Tr.fuel
  · rw [evalAssign]; exact Tr.fuel
  · rw [evalCall]; exact Tr.fuel
  · rw [builtin]; exact Tr.fuel

theorem ih_succ {env : Env} {f : Nat} (hyp : Hyp env) (ih : IH env f) : IH env (f+1) :=
  ⟨evalNode_step ih, evalList_step ih, evalMapLit_step ih, searchLM_step ih, changeLM_step ih,
    evalSlice_step ih, evalAssign_step ih, evalCall_step ih, builtin_step hyp ih⟩

theorem ih_all {env : Env} (hyp : Hyp env) : ∀ f, IH env f
  | 0 => ih_zero env
  | f+1 => ih_succ hyp (ih_all hyp f)

/-- a checked script started in a good state never panics -/
theorem runScript_safe {env : Env} (hyp : Hyp env) (fuel : Nat) (name : Bytes) (stmts : List Node) (w : World)
    (hc : CkL stmts) (hs : GS { task := { name := name, scopes := [[]] }, world := w }) :
    Post { task := { name := name, scopes := [[]] }, world := w } QT (runScript env fuel name stmts w) :=
  (mih_all (env := env) (ih_all hyp fuel).node fuel).stmts stmts _ hc hs

end Platypus.PanicProofs
