import Platypus.Proofs.ErrPosEval
/-!
Where run-time errors point, part 4: the builtins, the expression cases of `evalNode`, and all fuel.
-/
namespace Platypus.ErrPos
open Platypus

section
variable {env : Env} {f : Nat}

@[simp] theorem start_strLit (v : Bytes) (p : Pos) : Node.start (.strLit v p) = p := rfl
@[simp] theorem start_ident (v : Bytes) (p : Pos) : Node.start (.ident v p) = p := rfl
@[simp] theorem start_boolLit (v : Bool) (p : Pos) : Node.start (.boolLit v p) = p := rfl

theorem start_of_find {rest : List Node} {vs : List TV} {pr : Node × TV → Bool} {nx : Node × TV}
    (h : (rest.zip vs).find? pr = some nx) : InL rest (Node.start nx.1) := by
  have hm := List.mem_of_find?_eq_some h
  obtain ⟨a, b⟩ := nx
  exact inL_of_mem (List.of_mem_zip hm).1 (start_in _)

theorem PostE.of_eok {α : Type} {K : EM α} {P : Pos → Prop} (hK : EOK env K P) {s1 : St} {nm : Bytes}
    (h : s1.task.name = nm) : PostE env nm P (K s1) := by
  have := hK s1
  unfold TrE at this
  rw [h] at this
  exact this

theorem eok_put {setPt : Bytes → TV → EM Unit} {P : Pos → Prop} (hs : ∀ k x, EOK env (setPt k x) P) :
    ∀ l : List (Bytes × Val), EOK env (builtin.put setPt l) P
  | [] => by unfold builtin.put; exact EOK.pure
  | (ck, cv) :: r => by
    unfold builtin.put
    exact EOK.bind (hs ck _) fun _ => eok_put hs r

theorem EOK.of_wrap {α : Type} {m m' : EM α} {P : Pos → Prop} {np : Pos} (hm : EOK env m P) (hp : P np)
    (h : ∀ s, m' s = match m s with
      | .err er s' => .err (er.append s'.task.name np) s'
      | r => r) : EOK env m' P := by
  intro s
  have := EOK.wrapErr hm hp s
  unfold TrE at this ⊢
  rw [h s]
  exact this

theorem grok_trim_pos {rest : List Node}
    (h : (match rest with | [] => some true | [.boolLit b _] => some b | _ => none) = none) :
    InL rest ((rest.head?.map Node.start).getD Pos.invalid) := by
  cases rest with
  | nil => simp at h
  | cons x r => simp [InL, posOfL]

macro "eok_b " ih:ident : tactic => `(tactic|
  repeat' (first
    | exact EOK.pure | exact EOK.fuel | exact EOK.panic | exact EOK.need | exact EOK.askE
    | exact EOK.modWorld | exact EOK.getS | exact EOK.setVarb | exact EOK.conv2str
    | (refine EOK.modTask ?_; intro _; rfl)
    | (exfalso; contradiction)
    | exact EOK.runErr (Or.inr (inL_cons_tail (start_of_find ‹_›)))
    | exact EOK.runErr (Or.inr (inL_cons_tail (inL_cons_tail (start_of_find ‹_›))))
    | exact EOK.runErr (by pos_mem)
    | exact EOK.of_wrap (m := evalNode _ _ _) ((IHE.node $ih _).mono (by pos_sub)) (by pos_mem) (fun _ => rfl)
    | exact (IHE.node $ih _).mono (by pos_sub)
    | exact (IHE.list $ih _).mono (by pos_sub)
    | refine EOK.bind ?_ (fun _ => ?_)
    | refine EOK.map ?_
    | split))

set_option maxHeartbeats 6400000 in
theorem builtin_stepE (ih : IHE env f) (fn : Fn) (name : Bytes) (args : List Node) (np : Pos) (site : Nat) :
    EOK env (builtin env (f+1) fn name args np site) (InCall args np) := by
  cases fn
  case exit => simp only [builtin]; eok_b ih
  case getKey => simp only [builtin]; eok_b ih
  case setTag => simp only [builtin]; eok_b ih
  case dropKey => simp only [builtin]; eok_b ih
  case rename => simp only [builtin]; eok_b ih
  case len => simp only [builtin]; eok_b ih
  case cast => simp only [builtin]; eok_b ih
  case trim => simp only [builtin]; eok_b ih
  case uppercase => simp only [builtin]; eok_b ih
  case urlDecode => simp only [builtin]; eok_b ih
  case replace => simp only [builtin]; eok_b ih
  case loadJson => simp only [builtin]; eok_b ih
  case strfmt => simp only [builtin]; eok_b ih
  case datetime => simp only [builtin]; eok_b ih
  case defaultTime => simp only [builtin]; eok_b ih
  case xml => simp only [builtin]; eok_b ih
  case sqlCover => simp only [builtin]; eok_b ih
  case addPattern => simp only [builtin]; eok_b ih
  case p => simp only [builtin]; eok_b ih
  case pr => simp only [builtin]; eok_b ih
  case void => simp only [builtin]; eok_b ih
  case addKey =>
    simp only [builtin]
    split
    · eok_b ih
    · rename_i k e
      refine EOK.bind ?_ fun key => ?_
      · eok_b ih
      refine EOK.bind ?_ fun v => ?_
      · exact EOK.of_wrap (m := evalNode env f e) (np := np) (P := InCall [k, e] np)
          ((ih.node e).mono (by pos_sub)) (Or.inl rfl) (fun s => by cases evalNode env f e s <;> rfl)
      · eok_b ih
    · eok_b ih
  case grok =>
    simp only [builtin]
    repeat' (first
      | exact EOK.pure | exact EOK.panic | exact EOK.need | exact EOK.askE
      | exact EOK.getS | exact EOK.conv2str | exact EOK.modWorld
      | (refine EOK.modTask ?_; intro _; rfl)
      | exact EOK.runErr (Or.inr (inL_cons_tail (inL_cons_tail (grok_trim_pos (by assumption)))))
      | exact EOK.runErr (by pos_mem)
      | (refine eok_put ?_ _; intro _ _)
      | refine EOK.bind ?_ (fun _ => ?_)
      | split)
  case use =>
    simp only [builtin]
    split
    · split
      · exact EOK.pure
      · rename_i cname stmts hb
        intro s
        unfold TrE
        dsimp only
        have hc := (mihe_all (env := env) (ev := evalNode env f) ih.node f).stmts stmts
          { task := { name := cname, scopes := [[]] }, world := s.world }
        unfold TrE at hc
        cases hr : runStmts env (evalNode env f) f stmts
            { task := { name := cname, scopes := [[]] }, world := s.world } with
        | ok a s' => exact (rfl : s.task.name = s.task.name)
        | err e s' =>
          rw [hr] at hc
          refine ⟨rfl, ?_⟩
          show Located env s.task.name _ (e.chain ++ [(s.task.name, np)])
          exact .used hb hc.2 (Or.inl rfl)
        | panic _ => trivial
        | fuel => trivial
        | need _ => trivial
    · exact EOK.runErr (by pos_mem)
    · exact EOK.runErr (by pos_mem)
  case setMeasurement =>
    simp only [builtin]
    split
    · rename_i a0 rest
      split
      · exact EOK.runErr (by pos_mem)
      · intro s
        unfold TrE
        have h := ih.node a0 s
        unfold TrE at h
        dsimp only
        cases hr : evalNode env f a0 s with
        | ok v s' =>
          rw [hr] at h
          dsimp only
          repeat' split
          all_goals first | exact h | trivial
        | err e s' => rw [hr] at h; exact h.1
        | panic _ => trivial
        | fuel => trivial
        | need _ => trivial
    · exact EOK.runErr (by pos_mem)
  case printf =>
    simp only [builtin]
    split
    · rename_i a0 rest
      intro s
      unfold TrE
      have h := ih.node a0 s
      unfold TrE at h
      dsimp only
      cases hr : evalNode env f a0 s with
      | ok v s1 =>
        rw [hr] at h
        dsimp only
        split
        · split
          · exact h
          · refine PostE.of_eok ?_ h
            eok_b ih
        · exact h
      | err e s1 => rw [hr] at h; exact h.1
      | panic _ => trivial
      | fuel => trivial
      | need _ => trivial
    · exact EOK.runErr (by pos_mem)


macro "eok_n " ih:ident : tactic => `(tactic|
  repeat' (first
    | exact EOK.pure | exact EOK.fuel | exact EOK.panic | exact EOK.need
    | exact EOK.modWorld | exact EOK.getS
    | exact EOK.runErr (by pos_mem)
    | exact (IHE.node $ih _).mono (by pos_sub)
    | exact (IHE.list $ih _).mono (by pos_sub)
    | exact (IHE.mapLit $ih _ _).mono (by pos_sub)
    | exact (IHE.search $ih _ _).mono (by pos_sub)
    | exact (IHE.slice $ih _ _ _ _).mono (by pos_sub)
    | exact (IHE.assign $ih _ _ _ _).mono (by pos_sub)
    | exact (IHE.call $ih _ _ _ _).mono (by pos_sub)
    | refine EOK.bind ?_ (fun _ => ?_)
    | split))

set_option maxHeartbeats 1600000 in
theorem evalNode_stepE (ih : IHE env f) (n : Node) : EOK env (evalNode env (f+1) n) (In n) := by
  have hm := mihe_all (env := env) (ev := evalNode env f) ih.node f
  cases n
  case ifelse ifs els p => simp only [evalNode]; exact hm.stmt _
  case forS a b c d p => simp only [evalNode]; exact hm.stmt _
  case forIn a b c d e => simp only [evalNode]; exact hm.stmt _
  case brk p => simp only [evalNode]; exact hm.stmt _
  case cont p => simp only [evalNode]; exact hm.stmt _
  case call name args np lp rp site =>
    simp only [evalNode]
    refine (ih.call name args np site).mono ?_
    intro q hq
    simp only [In, posOf, List.mem_cons]
    rcases hq with h | h
    · exact Or.inr (Or.inl h)
    · exact Or.inr (Or.inr (Or.inr (Or.inr h)))
  all_goals (simp only [evalNode]; eok_n ih)

theorem ihe_zero (env : Env) : IHE env 0 := by
  refine ⟨?_, ?_, ?_, ?_, ?_, ?_, ?_, ?_, ?_⟩ <;> intros
  · rw [evalNode]; exact EOK.fuel
  · rw [evalList]; exact EOK.fuel
  · rw [evalMapLit]; exact EOK.fuel
  · rw [searchLM]; exact EOK.fuel
  · rw [changeLM]; exact EOK.fuel
  · rw [evalSlice]; exact EOK.fuel
  · rw [evalAssign]; exact EOK.fuel
  · rw [evalCall]; exact EOK.fuel
  · rw [builtin]; exact EOK.fuel

theorem ihe_succ (ih : IHE env f) : IHE env (f+1) :=
  ⟨evalNode_stepE ih, evalList_stepE ih, evalMapLit_stepE ih, searchLM_stepE ih, changeLM_stepE ih,
    evalSlice_stepE ih, evalAssign_stepE ih, evalCall_stepE ih, builtin_stepE ih⟩

theorem ihe_all (env : Env) : ∀ f, IHE env f
  | 0 => ihe_zero env
  | f+1 => ihe_succ (ihe_all env f)

end
end Platypus.ErrPos
