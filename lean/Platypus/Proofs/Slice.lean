import Platypus.Model.Slice
import Platypus.Spec.PySlice
/-!
Helper lemmas for C04 (slice part): no `wrap64` in the slice index computation ever wraps, the
element loop visits `start, start+step, …` and the normalised bounds are CPython's.
-/
namespace Platypus.SliceProofs

open Platypus

/-- inside the int64 range, wrap-around is the identity -/
theorem wrap64_id {x : Int} (h1 : minI64 ≤ x) (h2 : x ≤ maxI64) : wrap64 x = x := by
  unfold minI64 at h1
  unfold maxI64 at h2
  unfold wrap64
  exact BitVec.toInt_ofInt_eq_self (by decide) (by simp; omega) (by simp; omega)

/-- convenient form: anything of magnitude ≤ 2^63 - 1 -/
theorem wrap64_id' {x : Int} (h1 : -9223372036854775808 ≤ x) (h2 : x ≤ 9223372036854775807) :
    wrap64 x = x := wrap64_id (by unfold minI64; exact h1) (by unfold maxI64; exact h2)

/-! ## The element loop -/

/-- the Python index list `[i, i+step, …]` of length `k` -/
def pyList (k : Nat) (i step : Int) : List Int :=
  (List.range k).map (fun (j : Nat) => i + (Int.ofNat j) * step)

theorem pyList_zero (i step : Int) : pyList 0 i step = [] := rfl

theorem pyList_succ (k : Nat) (i step : Int) :
    pyList (k + 1) i step = i :: pyList k (i + step) step := by
  unfold pyList
  rw [List.range_succ_eq_map, List.map_cons, List.map_map]
  congr 1
  · simp
  · apply List.map_congr_left
    intro j _
    simp only [Function.comp, Int.ofNat_eq_natCast, Nat.succ_eq_add_one, Int.natCast_add,
      Int.natCast_one, Int.add_mul, Int.one_mul]
    omega

/-- positive step: number of elements -/
theorem count_pos_step {i stop step : Int} (hstep : 0 < step) (hlt : i < stop) :
    PySlice.count i stop step = PySlice.count (i + step) stop step + 1 := by
  unfold PySlice.count
  have hs : step > 0 := hstep
  have hne : step ≠ 0 := by omega
  simp only [hs, if_true, hlt]
  by_cases h : i + step < stop
  · simp only [h, if_true]
    have e : stop - i - 1 = (stop - (i + step) - 1) + 1 * step := by omega
    rw [e, Int.add_mul_ediv_right _ _ hne]
    have : 0 ≤ (stop - (i + step) - 1) / step := Int.ediv_nonneg (by omega) (by omega)
    omega
  · simp only [h, if_false]
    rw [Int.ediv_eq_zero_of_lt (by omega) (by omega)]
    rfl

theorem count_neg_step {i stop step : Int} (hstep : step < 0) (hgt : i > stop) :
    PySlice.count i stop step = PySlice.count (i + step) stop step + 1 := by
  unfold PySlice.count
  have hs : ¬ step > 0 := by omega
  have hne : -step ≠ 0 := by omega
  simp only [hs, if_false, hstep, if_true, hgt]
  by_cases h : i + step > stop
  · simp only [h, if_true]
    have e : i - stop - 1 = (i + step - stop - 1) + 1 * (-step) := by omega
    rw [e, Int.add_mul_ediv_right _ _ hne]
    have : 0 ≤ (i + step - stop - 1) / (-step) := Int.ediv_nonneg (by omega) (by omega)
    omega
  · simp only [h, if_false]
    rw [Int.ediv_eq_zero_of_lt (by omega) (by omega)]
    rfl

theorem count_pos_nil {i stop step : Int} (hstep : 0 < step) (hge : ¬ i < stop) :
    PySlice.count i stop step = 0 := by
  unfold PySlice.count
  have hs : step > 0 := hstep
  simp [hs, hge]

theorem count_neg_nil {i stop step : Int} (hstep : step < 0) (hge : ¬ i > stop) :
    PySlice.count i stop step = 0 := by
  unfold PySlice.count
  have hs : ¬ step > 0 := by omega
  simp [hs, hge, hstep]

/-- bound used for all loop quantities: `2^62` -/
local notation "B" => (4611686018427387904 : Int)

/-- the loop with positive step: enough fuel, nothing wraps -/
theorem loopIdx_pos (fuel : Nat) (i stop step : Int) (hstep : 0 < step) (hstepB : step ≤ B)
    (hstop : stop ≤ B) (hi : -B ≤ i) (hfuel : PySlice.count i stop step ≤ fuel) :
    Slice.loopIdx fuel i stop step = pyList (PySlice.count i stop step) i step := by
  induction fuel generalizing i with
  | zero =>
    have : PySlice.count i stop step = 0 := by omega
    rw [this]; rfl
  | succ f ih =>
    unfold Slice.loopIdx
    have hs : step > 0 := hstep
    simp only [hs, if_true]
    by_cases hlt : i < stop
    · simp only [hlt, if_true]
      have hc := count_pos_step hstep hlt
      rw [hc, pyList_succ]
      have hw : wrap64 (i + step) = i + step := wrap64_id' (by omega) (by omega)
      rw [hw, ih (i + step) (by omega) (by omega)]
    · simp only [hlt, if_false]
      rw [count_pos_nil hstep hlt]; rfl

theorem loopIdx_neg (fuel : Nat) (i stop step : Int) (hstep : step < 0) (hstepB : -B ≤ step)
    (hstop : -B ≤ stop) (hi : i ≤ B) (hfuel : PySlice.count i stop step ≤ fuel) :
    Slice.loopIdx fuel i stop step = pyList (PySlice.count i stop step) i step := by
  induction fuel generalizing i with
  | zero =>
    have : PySlice.count i stop step = 0 := by omega
    rw [this]; rfl
  | succ f ih =>
    unfold Slice.loopIdx
    have hs : ¬ step > 0 := by omega
    simp only [hs, if_false]
    by_cases hgt : i > stop
    · simp only [hgt, if_true]
      have hc := count_neg_step hstep hgt
      rw [hc, pyList_succ]
      have hw : wrap64 (i + step) = i + step := wrap64_id' (by omega) (by omega)
      rw [hw, ih (i + step) (by omega) (by omega)]
    · simp only [hgt, if_false]
      rw [count_neg_nil hstep hgt]; rfl

/-- positive step: every visited index lies in `[i, stop)` -/
theorem loopIdx_pos_mem (fuel : Nat) (i stop step : Int) (hstep : 0 < step) (hstepB : step ≤ B)
    (hstop : stop ≤ B) (hi : -B ≤ i) :
    ∀ x ∈ Slice.loopIdx fuel i stop step, i ≤ x ∧ x < stop := by
  induction fuel generalizing i with
  | zero => intro x hx; simp [Slice.loopIdx] at hx
  | succ f ih =>
    unfold Slice.loopIdx
    have hs : step > 0 := hstep
    simp only [hs, if_true]
    by_cases hlt : i < stop
    · simp only [hlt, if_true]
      have hw : wrap64 (i + step) = i + step := wrap64_id' (by omega) (by omega)
      rw [hw]
      intro x hx
      rcases List.mem_cons.mp hx with h | h
      · omega
      · have := ih (i + step) (by omega) x h
        omega
    · simp only [hlt, if_false]
      intro x hx; simp at hx

/-- negative step: every visited index lies in `(stop, i]` -/
theorem loopIdx_neg_mem (fuel : Nat) (i stop step : Int) (hstep : step < 0) (hstepB : -B ≤ step)
    (hstop : -B ≤ stop) (hi : i ≤ B) :
    ∀ x ∈ Slice.loopIdx fuel i stop step, stop < x ∧ x ≤ i := by
  induction fuel generalizing i with
  | zero => intro x hx; simp [Slice.loopIdx] at hx
  | succ f ih =>
    unfold Slice.loopIdx
    have hs : ¬ step > 0 := by omega
    simp only [hs, if_false]
    by_cases hgt : i > stop
    · simp only [hgt, if_true]
      have hw : wrap64 (i + step) = i + step := wrap64_id' (by omega) (by omega)
      rw [hw]
      intro x hx
      rcases List.mem_cons.mp hx with h | h
      · omega
      · have := ih (i + step) (by omega) x h
        omega
    · simp only [hgt, if_false]
      intro x hx; simp at hx

/-! ## The bounds -/

/-- the step after clamping to `±(length+1)` -/
def clampStep (n step : Int) : Int :=
  if step > n + 1 then n + 1 else if step < -n - 1 then -n - 1 else step

/-- Python's normalised start -/
def pyStart (n step start : Int) (has : Bool) : Int :=
  if has then PySlice.adjust n step start else (PySlice.defaults n step).1

/-- Python's normalised stop -/
def pyStop (n step stop : Int) (has : Bool) : Int :=
  if has then PySlice.adjust n step stop else (PySlice.defaults n step).2

theorem norm_eq_adjust (n step v : Int) (hn0 : 0 ≤ n) (hn : n < B) (hv : inI64 v) :
    Slice.norm n (if step < 0 then -1 else 0) (if step < 0 then n - 1 else n) v
      = PySlice.adjust n step v := by
  unfold inI64 minI64 maxI64 at hv
  unfold Slice.norm PySlice.adjust
  by_cases hv0 : v < 0
  · have hw : wrap64 (v + n) = v + n := wrap64_id' (by omega) (by omega)
    simp only [hv0, if_true, hw]
    by_cases hst : step < 0
    · simp only [hst, if_true]
      split <;> split <;> omega
    · simp only [hst, if_false]
  · simp only [hv0, if_false]
    by_cases hst : step < 0
    · simp only [hst, if_true]
      split <;> split <;> omega
    · simp only [hst, if_false]
      split <;> split <;> omega

theorem sliceBounds_eq (n start stop step : Int) (hasS hasE : Bool) (hn0 : 0 ≤ n) (hn : n < B)
    (hs : inI64 start) (he : inI64 stop) (hst0 : step ≠ 0) :
    Slice.sliceBounds n start stop step hasS hasE
      = (pyStart n step start hasS, pyStop n step stop hasE, clampStep n step) := by
  unfold Slice.sliceBounds
  have w1 : wrap64 (n - 1) = n - 1 := wrap64_id' (by omega) (by omega)
  have w2 : wrap64 (n + 1) = n + 1 := wrap64_id' (by omega) (by omega)
  have w3 : wrap64 (-n) = -n := wrap64_id' (by omega) (by omega)
  have w4 : wrap64 (-n - 1) = -n - 1 := wrap64_id' (by omega) (by omega)
  simp only [w1, w2, w3, w4]
  rw [norm_eq_adjust n step start hn0 hn hs, norm_eq_adjust n step stop hn0 hn he]
  have hc : (if step > n + 1 then n + 1 else if step < -n - 1 then -n - 1 else step)
      = clampStep n step := rfl
  rw [hc]
  unfold pyStart pyStop PySlice.defaults
  by_cases hneg : step < 0
  · have hcl : ¬ clampStep n step > 0 := by unfold clampStep; split <;> (try split) <;> omega
    simp only [hcl, if_false, hneg, if_true]
  · have hcl : clampStep n step > 0 := by unfold clampStep; split <;> (try split) <;> omega
    simp only [hcl, if_true, hneg, if_false]

theorem adjust_range_pos (n step v : Int) (hn0 : 0 ≤ n) (hst : 0 < step) :
    0 ≤ PySlice.adjust n step v ∧ PySlice.adjust n step v ≤ n := by
  unfold PySlice.adjust
  have : ¬ step < 0 := by omega
  simp only [this, if_false]
  split <;> (try split) <;> omega

theorem adjust_range_neg (n step v : Int) (hn0 : 0 ≤ n) (hst : step < 0) :
    -1 ≤ PySlice.adjust n step v ∧ PySlice.adjust n step v ≤ n - 1 := by
  unfold PySlice.adjust
  simp only [hst, if_true]
  split <;> (try split) <;> omega

theorem pyStart_range_pos (n step v : Int) (has : Bool) (hn0 : 0 ≤ n) (hst : 0 < step) :
    0 ≤ pyStart n step v has ∧ pyStart n step v has ≤ n := by
  unfold pyStart PySlice.defaults
  have := adjust_range_pos n step v hn0 hst
  have h : ¬ step < 0 := by omega
  cases has <;> simp [h] <;> omega

theorem pyStop_range_pos (n step v : Int) (has : Bool) (hn0 : 0 ≤ n) (hst : 0 < step) :
    0 ≤ pyStop n step v has ∧ pyStop n step v has ≤ n := by
  unfold pyStop PySlice.defaults
  have := adjust_range_pos n step v hn0 hst
  have h : ¬ step < 0 := by omega
  cases has <;> simp [h] <;> omega

theorem pyStart_range_neg (n step v : Int) (has : Bool) (hn0 : 0 ≤ n) (hst : step < 0) :
    -1 ≤ pyStart n step v has ∧ pyStart n step v has ≤ n - 1 := by
  unfold pyStart PySlice.defaults
  have := adjust_range_neg n step v hn0 hst
  cases has <;> simp [hst] <;> omega

theorem pyStop_range_neg (n step v : Int) (has : Bool) (hn0 : 0 ≤ n) (hst : step < 0) :
    -1 ≤ pyStop n step v has ∧ pyStop n step v has ≤ n - 1 := by
  unfold pyStop PySlice.defaults
  have := adjust_range_neg n step v hn0 hst
  cases has <;> simp [hst] <;> omega

theorem count_pos_one {i stop step : Int} (hstep : 0 < step) (hlt : i < stop)
    (hle : stop - i ≤ step) : PySlice.count i stop step = 1 := by
  rw [count_pos_step hstep hlt, count_pos_nil hstep (by omega)]

theorem count_neg_one {i stop step : Int} (hstep : step < 0) (hgt : i > stop)
    (hle : i - stop ≤ -step) : PySlice.count i stop step = 1 := by
  rw [count_neg_step hstep hgt, count_neg_nil hstep (by omega)]

theorem pyList_one (i step : Int) : pyList 1 i step = [i] := by
  rw [pyList_succ, pyList_zero]

/-- clamping the step to `±(n+1)` does not change the selected indices -/
theorem pyList_clamp (n S E step : Int) (hn0 : 0 ≤ n)
    (hpos : 0 < step → 0 ≤ S ∧ E ≤ n) (hneg : step < 0 → S ≤ n - 1 ∧ -1 ≤ E) :
    pyList (PySlice.count S E (clampStep n step)) S (clampStep n step)
      = pyList (PySlice.count S E step) S step := by
  unfold clampStep
  split
  · next h =>
    have ⟨h1, h2⟩ := hpos (by omega)
    by_cases hlt : S < E
    · rw [count_pos_one (by omega) hlt (by omega), count_pos_one (by omega) hlt (by omega),
        pyList_one, pyList_one]
    · rw [count_pos_nil (by omega) hlt, count_pos_nil (by omega) hlt]; rfl
  · split
    · next h =>
      have ⟨h1, h2⟩ := hneg (by omega)
      by_cases hgt : S > E
      · rw [count_neg_one (by omega) hgt (by omega), count_neg_one (by omega) hgt (by omega),
          pyList_one, pyList_one]
      · rw [count_neg_nil (by omega) hgt, count_neg_nil (by omega) hgt]; rfl
    · rfl

theorem clampStep_pos (n step : Int) (hn0 : 0 ≤ n) (h : 0 < step) :
    0 < clampStep n step ∧ clampStep n step ≤ n + 1 := by
  unfold clampStep; split <;> (try split) <;> omega

theorem clampStep_neg (n step : Int) (hn0 : 0 ≤ n) (h : step < 0) :
    clampStep n step < 0 ∧ -n - 1 ≤ clampStep n step := by
  unfold clampStep; split <;> (try split) <;> omega

/-- count is at most the distance (positive step) -/
theorem count_pos_le (i stop step : Int) (hstep : 0 < step) :
    (PySlice.count i stop step : Int) ≤ max 0 (stop - i) := by
  unfold PySlice.count
  have hs : step > 0 := hstep
  simp only [hs, if_true]
  split
  · have h1 : (stop - i - 1) / step ≤ stop - i - 1 :=
      Int.ediv_le_self _ (by omega)
    have h2 : 0 ≤ (stop - i - 1) / step := Int.ediv_nonneg (by omega) (by omega)
    omega
  · omega

theorem count_neg_le (i stop step : Int) (hstep : step < 0) :
    (PySlice.count i stop step : Int) ≤ max 0 (i - stop) := by
  unfold PySlice.count
  have hs : ¬ step > 0 := by omega
  simp only [hs, if_false, hstep, if_true]
  split
  · have h1 : (i - stop - 1) / (-step) ≤ i - stop - 1 :=
      Int.ediv_le_self _ (by omega)
    have h2 : 0 ≤ (i - stop - 1) / (-step) := Int.ediv_nonneg (by omega) (by omega)
    omega
  · omega

/-- the capacity computation never wraps and is the element count -/
theorem sliceCount_eq (S E step : Int) (hS1 : -B < S) (hS2 : S < B) (hE1 : -B < E) (hE2 : E < B)
    (hst1 : -B ≤ step) (hst2 : step ≤ B) :
    Slice.sliceCount S E step = (PySlice.count S E step : Int) := by
  unfold Slice.sliceCount
  by_cases hpos : step > 0
  · by_cases hlt : S < E
    · have c : step > 0 ∧ S < E := ⟨hpos, hlt⟩
      rw [if_pos c]
      unfold PySlice.count
      rw [if_pos hpos, if_pos hlt]
      have w1 : wrap64 (E - S) = E - S := wrap64_id' (by omega) (by omega)
      have w2 : wrap64 (E - S - 1) = E - S - 1 := wrap64_id' (by omega) (by omega)
      rw [w1, w2, Int.tdiv_eq_ediv_of_nonneg (by omega)]
      have h1 : (E - S - 1) / step ≤ E - S - 1 := Int.ediv_le_self _ (by omega)
      have h2 : 0 ≤ (E - S - 1) / step := Int.ediv_nonneg (by omega) (by omega)
      rw [wrap64_id' (by omega) (by omega)]
      omega
    · have c : ¬ (step > 0 ∧ S < E) := fun h => hlt h.2
      have c' : ¬ (step < 0 ∧ S > E) := fun h => by omega
      rw [if_neg c, if_neg c']
      unfold PySlice.count
      rw [if_pos hpos, if_neg hlt]
      rfl
  · have c : ¬ (step > 0 ∧ S < E) := fun h => hpos h.1
    rw [if_neg c]
    by_cases hneg : step < 0
    · by_cases hgt : S > E
      · have c' : step < 0 ∧ S > E := ⟨hneg, hgt⟩
        rw [if_pos c']
        unfold PySlice.count
        rw [if_neg hpos, if_pos hneg, if_pos hgt]
        have w1 : wrap64 (S - E) = S - E := wrap64_id' (by omega) (by omega)
        have w2 : wrap64 (S - E - 1) = S - E - 1 := wrap64_id' (by omega) (by omega)
        have w3 : wrap64 (-step) = -step := wrap64_id' (by omega) (by omega)
        rw [w1, w2, w3, Int.tdiv_eq_ediv_of_nonneg (by omega)]
        have h1 : (S - E - 1) / (-step) ≤ S - E - 1 := Int.ediv_le_self _ (by omega)
        have h2 : 0 ≤ (S - E - 1) / (-step) := Int.ediv_nonneg (by omega) (by omega)
        rw [wrap64_id' (by omega) (by omega)]
        omega
      · have c' : ¬ (step < 0 ∧ S > E) := fun h => hgt h.2
        rw [if_neg c']
        unfold PySlice.count
        rw [if_neg hpos, if_pos hneg, if_neg hgt]
        rfl
    · have c' : ¬ (step < 0 ∧ S > E) := fun h => hneg h.1
      rw [if_neg c']
      unfold PySlice.count
      rw [if_neg hpos, if_neg hneg]
      rfl

theorem pyList_length (k : Nat) (i step : Int) : (pyList k i step).length = k := by
  simp [pyList]

/-! ## Putting the loop and the bounds together -/

/-- the loop run from the normalised bounds with the clamped step -/
theorem loop_eq_pyList (n : Nat) (hn : (n : Int) < B) (start stop step : Int) (hasS hasE : Bool)
    (hst0 : step ≠ 0) :
    Slice.loopIdx (n + 1) (pyStart n step start hasS) (pyStop n step stop hasE) (clampStep n step)
      = pyList (PySlice.count (pyStart n step start hasS) (pyStop n step stop hasE)
          (clampStep n step)) (pyStart n step start hasS) (clampStep n step) := by
  have hn0 : (0 : Int) ≤ n := Int.natCast_nonneg n
  by_cases hpos : 0 < step
  · have ⟨c1, c2⟩ := clampStep_pos n step hn0 hpos
    have ⟨s1, s2⟩ := pyStart_range_pos n step start hasS hn0 hpos
    have ⟨e1, e2⟩ := pyStop_range_pos n step stop hasE hn0 hpos
    have hc := count_pos_le (pyStart n step start hasS) (pyStop n step stop hasE)
      (clampStep n step) c1
    exact loopIdx_pos _ _ _ _ c1 (by omega) (by omega) (by omega) (by omega)
  · have hneg : step < 0 := by omega
    have ⟨c1, c2⟩ := clampStep_neg n step hn0 hneg
    have ⟨s1, s2⟩ := pyStart_range_neg n step start hasS hn0 hneg
    have ⟨e1, e2⟩ := pyStop_range_neg n step stop hasE hn0 hneg
    have hc := count_neg_le (pyStart n step start hasS) (pyStop n step stop hasE)
      (clampStep n step) c1
    exact loopIdx_neg _ _ _ _ c1 (by omega) (by omega) (by omega) (by omega)

/-- every index visited from the normalised bounds lies in `[0, n)` -/
theorem loop_mem_range (n : Nat) (hn : (n : Int) < B) (start stop step : Int) (hasS hasE : Bool)
    (hst0 : step ≠ 0) :
    ∀ x ∈ Slice.loopIdx (n + 1) (pyStart n step start hasS) (pyStop n step stop hasE)
        (clampStep n step), 0 ≤ x ∧ x < n := by
  have hn0 : (0 : Int) ≤ n := Int.natCast_nonneg n
  intro x hx
  by_cases hpos : 0 < step
  · have ⟨c1, c2⟩ := clampStep_pos n step hn0 hpos
    have ⟨s1, s2⟩ := pyStart_range_pos n step start hasS hn0 hpos
    have ⟨e1, e2⟩ := pyStop_range_pos n step stop hasE hn0 hpos
    have := loopIdx_pos_mem _ _ _ _ c1 (by omega) (by omega) (by omega) x hx
    omega
  · have hneg : step < 0 := by omega
    have ⟨c1, c2⟩ := clampStep_neg n step hn0 hneg
    have ⟨s1, s2⟩ := pyStart_range_neg n step start hasS hn0 hneg
    have ⟨e1, e2⟩ := pyStop_range_neg n step stop hasE hn0 hneg
    have := loopIdx_neg_mem _ _ _ _ c1 (by omega) (by omega) (by omega) x hx
    omega

/-- `Slice.indices` unfolded through `sliceBounds_eq` -/
theorem indices_eq_loop (n : Nat) (hn : (n : Int) < B) (s e st : Option Int)
    (hs : inI64 (s.getD 0)) (he : inI64 (e.getD 0)) (hst0 : st.getD 1 ≠ 0) :
    Slice.indices n s e st
      = Slice.loopIdx (n + 1) (pyStart n (st.getD 1) (s.getD 0) s.isSome)
          (pyStop n (st.getD 1) (e.getD 0) e.isSome) (clampStep n (st.getD 1)) := by
  unfold Slice.indices
  simp only [sliceBounds_eq n (s.getD 0) (e.getD 0) (st.getD 1) s.isSome e.isSome
    (Int.natCast_nonneg n) hn hs he hst0]

/-- `PySlice.indices` in `pyList` form -/
theorem pyIndices_eq (n : Nat) (s e st : Option Int) :
    PySlice.indices n s e st
      = pyList (PySlice.count (pyStart n (st.getD 1) (s.getD 0) s.isSome)
          (pyStop n (st.getD 1) (e.getD 0) e.isSome) (st.getD 1))
          (pyStart n (st.getD 1) (s.getD 0) s.isSome) (st.getD 1) := by
  cases s <;> cases e <;> rfl

/-- main equation, with the side conditions in `Int` form -/
theorem indices_eq (n : Nat) (hn : (n : Int) < B) (s e st : Option Int)
    (hs : inI64 (s.getD 0)) (he : inI64 (e.getD 0)) (hst0 : st.getD 1 ≠ 0) :
    Slice.indices n s e st = PySlice.indices n s e st := by
  have hn0 : (0 : Int) ≤ n := Int.natCast_nonneg n
  rw [indices_eq_loop n hn s e st hs he hst0, pyIndices_eq, loop_eq_pyList n hn _ _ _ _ _ hst0]
  apply pyList_clamp _ _ _ _ hn0
  · intro h
    exact ⟨(pyStart_range_pos _ _ _ _ hn0 h).1, (pyStop_range_pos _ _ _ _ hn0 h).2⟩
  · intro h
    exact ⟨(pyStart_range_neg _ _ _ _ hn0 h).2, (pyStop_range_neg _ _ _ _ hn0 h).1⟩

theorem indices_mem (n : Nat) (hn : (n : Int) < B) (s e st : Option Int)
    (hs : inI64 (s.getD 0)) (he : inI64 (e.getD 0)) (hst0 : st.getD 1 ≠ 0) :
    ∀ i ∈ Slice.indices n s e st, 0 ≤ i ∧ i < n := by
  rw [indices_eq_loop n hn s e st hs he hst0]
  exact loop_mem_range n hn _ _ _ _ _ hst0

theorem count_exact (n : Nat) (hn : (n : Int) < B) (s e st : Option Int)
    (hs : inI64 (s.getD 0)) (he : inI64 (e.getD 0)) (hst0 : st.getD 1 ≠ 0) :
    let b := Slice.sliceBounds n (s.getD 0) (e.getD 0) (st.getD 1) s.isSome e.isSome
    Slice.sliceCount b.1 b.2.1 b.2.2 = (Slice.indices n s e st).length := by
  have hn0 : (0 : Int) ≤ n := Int.natCast_nonneg n
  rw [indices_eq_loop n hn s e st hs he hst0, loop_eq_pyList n hn _ _ _ _ _ hst0, pyList_length]
  simp only [sliceBounds_eq n (s.getD 0) (e.getD 0) (st.getD 1) s.isSome e.isSome
    hn0 hn hs he hst0]
  by_cases hpos : 0 < st.getD 1
  · have ⟨c1, c2⟩ := clampStep_pos n _ hn0 hpos
    have ⟨s1, s2⟩ := pyStart_range_pos n (st.getD 1) (s.getD 0) s.isSome hn0 hpos
    have ⟨e1, e2⟩ := pyStop_range_pos n (st.getD 1) (e.getD 0) e.isSome hn0 hpos
    exact sliceCount_eq _ _ _ (by omega) (by omega) (by omega) (by omega) (by omega) (by omega)
  · have hneg : st.getD 1 < 0 := by omega
    have ⟨c1, c2⟩ := clampStep_neg n _ hn0 hneg
    have ⟨s1, s2⟩ := pyStart_range_neg n (st.getD 1) (s.getD 0) s.isSome hn0 hneg
    have ⟨e1, e2⟩ := pyStop_range_neg n (st.getD 1) (e.getD 0) e.isSome hn0 hneg
    exact sliceCount_eq _ _ _ (by omega) (by omega) (by omega) (by omega) (by omega) (by omega)

/-! ## side conditions from the `Option` form -/

theorem inI64_zero : inI64 0 := by unfold inI64 minI64 maxI64; omega

theorem getD_inI64 (b : Option Int) (h : ∀ v, b = some v → inI64 v) : inI64 (b.getD 0) := by
  cases b with
  | none => exact inI64_zero
  | some v => exact h v rfl

theorem getD_step_ne (b : Option Int) (h : ∀ v, b = some v → inI64 v ∧ v ≠ 0) :
    b.getD 1 ≠ 0 := by
  cases b with
  | none => simp
  | some v => exact (h v rfl).2

theorem two_pow_62 : (2 : Int) ^ 62 = B := by decide

end Platypus.SliceProofs
