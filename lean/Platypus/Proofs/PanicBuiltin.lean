import Platypus.Proofs.PanicEval
/-!
C01 proof, part 7: the builtin functions at fuel `f+1`.
-/
namespace Platypus.PanicProofs
open Platypus Platypus.MachineProofs Platypus.C01

section
variable {env : Env} {f : Nat}

theorem qt_mono {α} {s : St} {m : EM α} {Q : α → St → Prop} (h : Tr s m Q) : Tr s m QT :=
  h.mono fun _ _ _ _ _ => trivial

theorem bi_exit (name : Bytes) (args : List Node) (np : Pos) (site : Nat) (s : St) (hs : GS s) :
    Tr s (builtin env (f+1) .exit name args np site) QT := by
  simp only [builtin]
  exact Tr.modTask (hs.of_eq rfl rfl rfl rfl) trivial

theorem bi_addKey (ih : IH env f) (name : Bytes) (args : List Node) (np : Pos) (site : Nat) (s : St)
    (ha : CkL args) (hs : GS s) : Tr s (builtin env (f+1) .addKey name args np site) QT := by
  rw [builtin.eq_def]
  simp only []
  split
  · rename_i k
    refine Tr.bind (tr_keyOf k hs) fun key s1 hs1 _ h1 => ?_
    cases h1
    refine Tr.getS ?_
    split
    · exact Tr.pure hs trivial
    · rename_i v hv
      have hgv := hs.getKey hv
      exact qt_mono (tr_setPt env key hs hgv.wellTagged hgv.2 (by setpt_cs0))
  · rename_i k e
    refine Tr.bind (tr_keyOf k hs) fun key s1 hs1 _ h1 => ?_
    cases h1
    refine Tr.bind (Q := QV) ?_ fun v s2 hs2 _ hv => ?_
    · have h := ih.node e s ha.cons.2.cons.1 hs
      unfold Tr at h ⊢
      dsimp only
      cases hr : evalNode env f e s <;> rw [hr] at h <;> exact h
    · exact qt_mono (tr_setPt env key hs2 hv.wellTagged hv.2 (by setpt_cs0))
  · exact Tr.runErr hs _ _

theorem bi_getKey (name : Bytes) (args : List Node) (np : Pos) (site : Nat) (s : St)
    (hs : GS s) : Tr s (builtin env (f+1) .getKey name args np site) QT := by
  rw [builtin.eq_def]
  simp only []
  split
  · rename_i k
    refine Tr.bind (tr_keyOf k hs) fun key s1 hs1 _ h1 => ?_
    cases h1
    refine Tr.getS ?_
    split
    · rename_i v hv
      exact qt_mono (tr_ret hs (hs.get_point hv))
    · exact qt_mono (tr_ret hs (gv_nil _))
  · exact Tr.runErr hs _ _

theorem bi_setTag (ih : IH env f) (name : Bytes) (args : List Node) (np : Pos) (site : Nat) (s : St)
    (ha : CkL args) (hs : GS s) : Tr s (builtin env (f+1) .setTag name args np site) QT := by
  rw [builtin.eq_def]
  simp only []
  split
  · rename_i k
    refine Tr.bind (tr_keyOf k hs) fun key s1 hs1 _ h1 => ?_
    cases h1
    refine Tr.getS ?_
    split
    · exact qt_mono (tr_setPtTag env key _ hs)
    · exact qt_mono (tr_setPtTag env key _ hs)
  · rename_i k e
    refine Tr.bind (tr_keyOf k hs) fun key s1 hs1 _ h1 => ?_
    cases h1
    refine Tr.bind (ih.node e s ha.cons.2.cons.1 hs) fun v s2 hs2 _ hv => ?_
    exact qt_mono (tr_setPtTag env key _ hs2)
  · exact Tr.runErr hs _ _

theorem bi_dropKey (name : Bytes) (args : List Node) (np : Pos) (site : Nat) (s : St)
    (hs : GS s) : Tr s (builtin env (f+1) .dropKey name args np site) QT := by
  rw [builtin.eq_def]
  simp only []
  split
  · rename_i k
    refine Tr.bind (tr_keyOf k hs) fun key s1 hs1 _ h1 => ?_
    cases h1
    exact Tr.modWorld (hs.ptDelete _) (HeapLe.refl _) trivial
  · exact Tr.runErr hs _ _

theorem bi_rename (name : Bytes) (args : List Node) (np : Pos) (site : Nat) (s : St)
    (hs : GS s) : Tr s (builtin env (f+1) .rename name args np site) QT := by
  rw [builtin.eq_def]
  simp only []
  split
  · rename_i t fr
    refine Tr.bind (tr_keyOf t hs) fun to s1 hs1 _ h1 => ?_
    cases h1
    refine Tr.bind (tr_keyOf fr hs) fun frm s1 hs1 _ h1 => ?_
    cases h1
    exact Tr.modWorld (hs.ptRename _ _) (HeapLe.refl _) trivial
  · exact Tr.runErr hs _ _

theorem bi_setMeasurement (ih : IH env f) (name : Bytes) (args : List Node) (np : Pos) (site : Nat) (s : St)
    (ha : CkL args) (hs : GS s) : Tr s (builtin env (f+1) .setMeasurement name args np site) QT := by
  rw [builtin.eq_def]
  simp only []
  split
  · rename_i a0 rest
    split
    · exact Tr.runErr hs _ _
    · have h := ih.node a0 s ha.cons.1 hs
      unfold Tr at h ⊢
      dsimp only
      cases hr : evalNode env f a0 s with
      | ok v s' =>
        rw [hr] at h
        obtain ⟨vv, vt⟩ := v
        have hmeas : ∀ m, GS { s' with world := { s'.world with pt := { s'.world.pt with meas := m } } } :=
          fun m => h.1.ptMeta rfl rfl rfl
        cases vt
        case str =>
          cases vv
          case str b =>
            dsimp only
            split
            · rename_i k _
              refine ⟨?_, h.2.1, trivial⟩
              have := (hmeas b).ptDelete (normKey k)
              exact this
            · exact ⟨hmeas b, h.2.1, trivial⟩
          all_goals
            dsimp only
            split <;> first | exact ⟨h.1.ptDelete _, h.2.1, trivial⟩ | exact ⟨h.1, h.2.1, trivial⟩
        all_goals
          cases vv <;> dsimp only <;> split <;>
            first | exact ⟨h.1.ptDelete _, h.2.1, trivial⟩ | exact ⟨h.1, h.2.1, trivial⟩
      | err e s' => rw [hr] at h; exact ⟨h.1, h.2, trivial⟩
      | panic m => rw [hr] at h; exact h
      | fuel => trivial
      | need q => trivial
  · exact Tr.runErr hs _ _

theorem bi_len (ih : IH env f) (name : Bytes) (args : List Node) (np : Pos) (site : Nat) (s : St)
    (hc : argcOk .len args) (ha : CkL args) (hs : GS s) : Tr s (builtin env (f+1) .len name args np site) QT := by
  rw [builtin.eq_def]
  simp only []
  split
  · rename_i a0 rest
    refine Tr.bind (ih.node a0 s ha.cons.1 hs) fun v s1 hs1 _ hv => ?_
    refine Tr.getS ?_
    obtain ⟨vv, vt⟩ := v
    cases vt
    case map =>
      obtain ⟨a, xs, h1, hg⟩ := hv.map_val rfl
      simp only at h1
      subst h1
      simp only [hg]
      exact qt_mono (tr_ret hs1 (gv_nat _ _))
    case list =>
      obtain ⟨a, xs, h1, hg⟩ := hv.list_val rfl
      simp only at h1
      subst h1
      simp only [hg]
      exact qt_mono (tr_ret hs1 (gv_nat _ _))
    case str =>
      obtain ⟨b, hb⟩ := hv.str_val rfl
      simp only at hb
      subst hb
      simp only []
      exact qt_mono (tr_ret hs1 (gv_nat _ _))
    all_goals exact qt_mono (tr_ret hs1 (gv_int _ 0 (by unfold minI64; omega)))
  · simp [argcOk] at hc

theorem bi_use (hyp : Hyp env) (ih : IH env f) (name : Bytes) (args : List Node) (np : Pos) (site : Nat) (s : St)
    (hs : GS s) : Tr s (builtin env (f+1) .use name args np site) QT := by
  rw [builtin.eq_def]
  simp only []
  split
  · split
    · exact Tr.pure hs trivial
    · rename_i cname stmts hb
      have h := (mih_all (env := env) ih.node f).stmts stmts { task := { name := cname, scopes := [[]] }, world := s.world }
        (hyp.bound _ _ _ hb) (hs.fresh cname)
      unfold Tr at h ⊢
      dsimp only at h ⊢
      cases hr : runStmts env (evalNode env f) f stmts { task := { name := cname, scopes := [[]] }, world := s.world } with
      | ok u s' => rw [hr] at h; exact ⟨GS.back hs h.1 h.2.1, h.2.1, trivial⟩
      | err e s' => rw [hr] at h; exact ⟨GS.back hs h.1 h.2, h.2⟩
      | panic m => rw [hr] at h; exact h
      | fuel => trivial
      | need q => trivial
  · exact Tr.runErr hs _ _
  · exact Tr.runErr hs _ _

theorem wt_typed {t : DType} {r : Val}
    (h : (match t, r with
      | .str, .str _ | .int, .int _ | .float, .float _ | .bool, .bool _ => true
      | _, _ => false) = true) : C10.WellTagged ⟨r, t⟩ := by
  cases t <;> cases r <;> simp_all [C10.WellTagged, C10.scalarType]

theorem bi_cast (hyp : Hyp env) (name : Bytes) (args : List Node) (np : Pos) (site : Nat) (s : St)
    (hs : GS s) : Tr s (builtin env (f+1) .cast name args np site) QT := by
  rw [builtin.eq_def]
  simp only []
  split
  · rename_i k ty _
    refine Tr.bind (tr_keyOf k hs) fun key s1 hs1 _ h1 => ?_
    cases h1
    refine Tr.getS ?_
    split
    · exact Tr.pure hs trivial
    · rename_i v hv
      have hgv := hs.getKey hv
      split
      · exact qt_mono (tr_setPt env key hs (gv_nil s.world.heap).wellTagged trivial (by setpt_cs0))
      · split
        · rename_i i hvi _
          have hlo : valLo (Val.int i) := by rw [← hvi]; exact hgv.2
          exact qt_mono (tr_setPt env key hs (gv_int s.world.heap i hlo).wellTagged hlo (by setpt_cs0))
        · refine Tr.bind (tr_ask' env _ hs) fun a s2 hs2 _ h2 => ?_
          obtain ⟨rfl, ho⟩ := h2
          split
          · rename_i r h' rest hu
            have hlo := (hyp.oracle _ _ ho _ _ _ _ _ hu).1
            split
            all_goals simp only [↓reduceIte, Bool.false_eq_true]
            all_goals first
              | exact Tr.needE
              | exact qt_mono (tr_setPt env key hs2 (by simp [C10.WellTagged, C10.scalarType]) hlo (by setpt_cs0))
          · exact Tr.needE
  · exact Tr.runErr hs _ _
  · exact Tr.runErr hs _ _

/-- `key ← keyOf k; s ← getS; match getKey s key with | none => pure () | some v => …` followed by
    `conv2str`, `ask`, and a final `setPt` of a string or an error -/
local macro "str_engine" hs:ident : tactic =>
  `(tactic| (
    refine Tr.getS ?_
    split
    · exact Tr.pure $hs trivial
    · refine Tr.bind (tr_conv2str _ _ $hs) fun c s1 hs1 _ h1 => ?_
      cases h1
      split
      · exact Tr.pure $hs trivial
      · refine Tr.bind (tr_ask _ _ $hs) fun a s2 hs2 _ h2 => ?_
        cases h2
        repeat' split
        all_goals first
          | exact qt_mono (tr_setPt _ _ $hs (gv_str [] _).wellTagged trivial (by setpt_cs0))
          | exact Tr.runErr $hs _ _
          | exact Tr.pure $hs trivial))

theorem bi_trim (name : Bytes) (args : List Node) (np : Pos) (site : Nat) (s : St)
    (hc : argcOk .trim args) (hs : GS s) : Tr s (builtin env (f+1) .trim name args np site) QT := by
  rw [builtin.eq_def]
  simp only []
  split
  · rename_i k rest
    refine Tr.bind (tr_keyOf k hs) fun key s1 hs1 _ h1 => ?_
    cases h1
    str_engine hs
  · simp [argcOk] at hc

theorem bi_uppercase (name : Bytes) (args : List Node) (np : Pos) (site : Nat) (s : St)
    (hc : argcOk .uppercase args) (hs : GS s) : Tr s (builtin env (f+1) .uppercase name args np site) QT := by
  rw [builtin.eq_def]
  simp only []
  split
  · rename_i k rest
    refine Tr.bind (tr_keyOf k hs) fun key s1 hs1 _ h1 => ?_
    cases h1
    str_engine hs
  · simp [argcOk] at hc

theorem bi_urlDecode (name : Bytes) (args : List Node) (np : Pos) (site : Nat) (s : St)
    (hc : argcOk .urlDecode args) (hs : GS s) : Tr s (builtin env (f+1) .urlDecode name args np site) QT := by
  rw [builtin.eq_def]
  simp only []
  split
  · rename_i k rest
    refine Tr.bind (tr_keyOf k hs) fun key s1 hs1 _ h1 => ?_
    cases h1
    str_engine hs
  · simp [argcOk] at hc

theorem bi_sqlCover (name : Bytes) (args : List Node) (np : Pos) (site : Nat) (s : St)
    (hs : GS s) : Tr s (builtin env (f+1) .sqlCover name args np site) QT := by
  rw [builtin.eq_def]
  simp only []
  split
  · rename_i k
    refine Tr.bind (tr_keyOf k hs) fun key s1 hs1 _ h1 => ?_
    cases h1
    refine Tr.getS ?_
    refine Tr.bind (Q := Same s) ?_ fun cont s1 hs1 _ h1 => ?_
    · split
      · exact Tr.pure hs rfl
      · exact tr_conv2str _ _ hs
    cases h1
    split
    · exact Tr.pure hs trivial
    · refine Tr.bind (tr_ask _ _ hs) fun a s2 hs2 _ h2 => ?_
      cases h2
      repeat' split
      all_goals first
        | exact qt_mono (tr_setPt _ _ hs (gv_str [] _).wellTagged trivial (by setpt_cs0))
        | exact Tr.pure hs trivial
  · exact Tr.runErr hs _ _

theorem bi_xml (name : Bytes) (args : List Node) (np : Pos) (site : Nat) (s : St)
    (hs : GS s) : Tr s (builtin env (f+1) .xml name args np site) QT := by
  rw [builtin.eq_def]
  simp only []
  split
  · rename_i k xp _ fnode
    refine Tr.bind (tr_keyOf k hs) fun key s1 hs1 _ h1 => ?_
    cases h1
    refine Tr.bind (tr_keyOf fnode hs) fun field s1 hs1 _ h1 => ?_
    cases h1
    refine Tr.getS ?_
    refine Tr.bind (Q := Same s) ?_ fun cont s1 hs1 _ h1 => ?_
    · split
      · exact Tr.pure hs rfl
      · exact tr_conv2str _ _ hs
    cases h1
    split
    · exact Tr.pure hs trivial
    · refine Tr.bind (tr_ask _ _ hs) fun a s2 hs2 _ h2 => ?_
      cases h2
      repeat' split
      all_goals first
        | exact qt_mono (tr_setPt _ _ hs (gv_str [] _).wellTagged trivial (by setpt_cs0))
        | exact Tr.pure hs trivial
  · exact Tr.runErr hs _ _
  · exact Tr.runErr hs _ _

theorem bi_datetime (name : Bytes) (args : List Node) (np : Pos) (site : Nat) (s : St)
    (hs : GS s) : Tr s (builtin env (f+1) .datetime name args np site) QT := by
  rw [builtin.eq_def]
  simp only []
  split
  · rename_i k _ _ _ _
    refine Tr.bind (tr_keyOf k hs) fun key s1 hs1 _ h1 => ?_
    cases h1
    refine Tr.getS ?_
    split
    · exact Tr.pure hs trivial
    · refine Tr.bind (tr_ask _ _ hs) fun a s2 hs2 _ h2 => ?_
      cases h2
      repeat' split
      all_goals first
        | exact qt_mono (tr_setPt _ _ hs (gv_str [] _).wellTagged trivial (by setpt_cs0))
        | exact Tr.runErr hs _ _
  · split <;> exact Tr.runErr hs _ _
  · exact Tr.runErr hs _ _

theorem bi_replace (name : Bytes) (args : List Node) (np : Pos) (site : Nat) (s : St)
    (hs : GS s) : Tr s (builtin env (f+1) .replace name args np site) QT := by
  rw [builtin.eq_def]
  simp only []
  split
  · rename_i k _ _ _ _
    refine Tr.bind (tr_keyOf k hs) fun key s1 hs1 _ h1 => ?_
    cases h1
    refine Tr.bind (tr_ask _ _ hs) fun c s2 hs2 _ h2 => ?_
    cases h2
    split
    · exact Tr.runErr hs _ _
    refine Tr.getS ?_
    split
    · exact Tr.pure hs trivial
    · refine Tr.bind (tr_conv2str _ _ hs) fun c s1 hs1 _ h1 => ?_
      cases h1
      split
      · exact Tr.pure hs trivial
      · refine Tr.bind (tr_ask _ _ hs) fun a s2 hs2 _ h2 => ?_
        cases h2
        exact qt_mono (tr_setPt _ _ hs (gv_str [] _).wellTagged trivial (by setpt_cs0))
  · split <;> exact Tr.runErr hs _ _
  · exact Tr.runErr hs _ _

theorem bi_strfmt (ih : IH env f) (name : Bytes) (args : List Node) (np : Pos) (site : Nat) (s : St)
    (ha : CkL args) (hs : GS s) : Tr s (builtin env (f+1) .strfmt name args np site) QT := by
  rw [builtin.eq_def]
  simp only []
  split
  · rename_i k _ _ rest
    refine Tr.bind (tr_keyOf k hs) fun key s1 hs1 _ h1 => ?_
    cases h1
    refine Tr.bind (ih.list rest s ha.cons.2.cons.2 hs) fun vs s2 hs2 _ _ => ?_
    refine Tr.getS ?_
    split
    · exact Tr.runErr hs2 _ _
    refine Tr.bind (tr_ask _ _ hs2) fun a s3 hs3 _ h3 => ?_
    cases h3
    exact qt_mono (tr_setPt _ _ hs2 (gv_str [] _).wellTagged trivial (by setpt_cs0))
  · exact Tr.runErr hs _ _
  · exact Tr.runErr hs _ _

theorem bi_addPattern (name : Bytes) (args : List Node) (np : Pos) (site : Nat) (s : St)
    (hs : GS s) : Tr s (builtin env (f+1) .addPattern name args np site) QT := by
  simp only [builtin]
  exact Tr.pure hs trivial

theorem bi_loadJson (hyp : Hyp env) (ih : IH env f) (name : Bytes) (args : List Node) (np : Pos) (site : Nat)
    (s : St) (hc : argcOk .loadJson args) (ha : CkL args) (hs : GS s) :
    Tr s (builtin env (f+1) .loadJson name args np site) QT := by
  rw [builtin.eq_def]
  simp only []
  split
  · rename_i a0 rest
    refine Tr.bind (ih.node a0 s ha.cons.1 hs) fun v s1 hs1 _ hv => ?_
    split
    · exact Tr.runErr hs1 _ _
    rename_i ht
    obtain ⟨vv, vt⟩ := v
    obtain ⟨b, hb⟩ := hv.str_val (Classical.not_not.1 ht)
    simp only at hb
    subst hb
    simp only []
    refine Tr.bind (tr_ask' _ _ hs1) fun a s2 hs2 _ h2 => ?_
    obtain ⟨rfl, ho⟩ := h2
    split
    · exact Tr.runErr hs2 _ _
    refine Tr.getS ?_
    split
    · rename_i r h' rest hu
      obtain ⟨hlo, hheap⟩ := hyp.oracle _ _ ho _ _ _ _ _ hu
      have hle := unrender_heapLe hu
      refine Tr.modWorld_bind hle ?_
      exact qt_mono (tr_ret (hs2.heap_change hle (hheap hs2.heap)) (gv_detect h' r hlo))
    · exact Tr.needE
  · simp [argcOk] at hc

theorem bi_printf (ih : IH env f) (name : Bytes) (args : List Node) (np : Pos) (site : Nat)
    (s : St) (ha : CkL args) (hs : GS s) :
    Tr s (builtin env (f+1) .printf name args np site) QT := by
  rw [builtin.eq_def]
  simp only []
  split
  · rename_i a0 rest
    have h := ih.node a0 s ha.cons.1 hs
    unfold Tr at h ⊢
    dsimp only
    cases hr : evalNode env f a0 s with
    | ok v s1 =>
      rw [hr] at h
      dsimp only
      split
      · split
        · exact ⟨h.1, h.2.1, trivial⟩
        · refine Post.from (s := s1) ?_ h.2.1
          show Tr s1 _ QT
          refine Tr.bind (ih.list rest s1 ha.cons.2 h.1) fun vs s2 hs2 _ _ => ?_
          refine Tr.getS ?_
          split
          · exact Tr.runErr hs2 _ _
          refine Tr.bind (tr_ask _ _ hs2) fun a s3 hs3 _ h3 => ?_
          cases h3
          exact Tr.modWorld (hs2.of_eq rfl rfl rfl rfl) (HeapLe.refl _) trivial
      · exact ⟨h.1, h.2.1, trivial⟩
    | err e s1 => rw [hr] at h; exact ⟨h.1, h.2, trivial⟩
    | panic m => rw [hr] at h; exact h
    | fuel => trivial
    | need q => trivial
  · exact Tr.runErr hs _ _

theorem bi_probe (ih : IH env f) (fn : Fn) (hfn : fn = .p ∨ fn = .pr ∨ fn = .void) (name : Bytes)
    (args : List Node) (np : Pos) (site : Nat) (s : St) (ha : CkL args) (hs : GS s) :
    Tr s (builtin env (f+1) fn name args np site) QT := by
  rcases hfn with rfl | rfl | rfl
  all_goals
    rw [builtin.eq_def]
    simp only []
    refine Tr.bind (ih.list args s ha hs) fun vs s1 hs1 _ hvs => ?_
    refine Tr.getS ?_
    have hs2 : GS { s1 with world := { s1.world with
        trace := Event.probe name (vs.map (renderTV s1.world.heap)) :: s1.world.trace } } :=
      hs1.of_eq rfl rfl rfl rfl
    refine Tr.modWorld_bind (HeapLe.refl _) ?_
    repeat' split
    all_goals first
      | exact Tr.pure hs2 trivial
      | exact qt_mono (tr_ret hs2 (hvs _ List.mem_cons_self))

/-- `put` of `grok` -/
theorem tr_put {sp : Bytes → TV → EM Unit}
    (hsp : ∀ key x s, GS s → C10.WellTagged x → valLo x.v → Tr s (sp key x) QT) :
    ∀ (l : List (Bytes × Val)) (s : St), GS s → (∀ kv ∈ l, valLo kv.2) → Tr s (builtin.put sp l) QT := by
  intro l
  induction l with
  | nil => intro s hs _; simp only [builtin.put]; exact Tr.pure hs trivial
  | cons x r ih =>
    intro s hs hl
    obtain ⟨ck, cv⟩ := x
    simp only [builtin.put]
    have hcv : valLo cv := hl (ck, cv) List.mem_cons_self
    have hgv := gv_detect [] cv hcv
    refine Tr.bind (hsp ck _ s hs hgv.wellTagged hgv.2) fun _ s1 hs1 _ _ => ?_
    exact ih s1 hs1 (fun kv hkv => hl kv (List.mem_cons_of_mem _ hkv))

theorem bi_grok (hyp : Hyp env) (name : Bytes) (args : List Node) (np : Pos) (site : Nat)
    (s : St) (hc : argcOk .grok args) (hs : GS s) :
    Tr s (builtin env (f+1) .grok name args np site) QT := by
  rw [builtin.eq_def]
  simp only []
  have hretB : ∀ (b : Bool) s, GS s → Tr s (retM ⟨.bool b, .bool⟩) QT :=
    fun b s hs => qt_mono (tr_ret hs (gv_bool _ b))
  have hretErr : ∀ (b : Bool) (p : Pos) (m : String) s, GS s →
      Tr s (do retM ⟨.bool b, .bool⟩; (runErr p m : EM Unit)) QT :=
    fun b p m s hs => Tr.bind (hretB b s hs) fun _ s1 hs1 _ _ => Tr.runErr hs1 _ _
  split
  · exact hretErr _ _ _ s hs
  · rename_i q _
    split
    · rename_i k a1 rest
      split
      · exact hretErr _ _ _ s hs
      · exact Tr.needE
      · rename_i key _
        refine Tr.getS ?_
        refine Tr.bind (Q := Same s) ?_ fun cont s1 hs1 _ h1 => ?_
        · split
          · exact Tr.pure hs rfl
          · exact tr_conv2str _ _ hs
        cases h1
        split
        · exact hretB _ s hs
        · split
          · exact hretErr _ _ _ s hs
          · refine Tr.bind (tr_ask' _ _ hs) fun a s2 hs2 _ h2 => ?_
            obtain ⟨rfl, ho⟩ := h2
            split
            · exact hretB _ _ hs
            · split
              · rename_i kvs rest' hu
                have hlo : objLo (Obj.map kvs) :=
                  (hyp.oracle _ _ ho _ _ _ _ _ hu).2 (by intro o ho; cases ho) _ List.mem_cons_self
                refine Tr.bind (tr_put ?_ _ s2 hs (fun kv hkv => hlo kv (mem_sortKeys hkv)))
                  fun _ s3 hs3 _ _ => hretB _ s3 hs3
                intro key x s' hs' hx hxl
                exact qt_mono (tr_setPt _ _ hs' hx hxl (by setpt_cs0))
              · exact Tr.needE
    · exfalso
      rename_i hne
      rcases args with _ | ⟨a, _ | ⟨b, r⟩⟩
      · simp [argcOk] at hc
      · simp [argcOk] at hc
      · exact hne _ _ _ rfl

theorem bi_defaultTime (name : Bytes) (args : List Node) (np : Pos) (site : Nat) (s : St)
    (hs : GS s) : Tr s (builtin env (f+1) .defaultTime name args np site) QT := by
  rw [builtin.eq_def]
  simp only []
  split
  · rename_i k rest
    refine Tr.bind (tr_keyOf k hs) fun key s1 hs1 _ h1 => ?_
    cases h1
    refine Tr.getS ?_
    refine Tr.bind (Q := Same s) ?_ fun cont s1 hs1 _ h1 => ?_
    · split
      · exact Tr.pure hs rfl
      · exact tr_conv2str _ _ hs
    cases h1
    split
    · exact Tr.pure hs trivial
    · split
      · exact Tr.needE
      · refine Tr.bind (tr_ask _ _ hs) fun a s2 hs2 _ h2 => ?_
        cases h2
        split
        · refine Tr.modWorld ?_ (HeapLe.refl _) trivial
          have := (hs.ptDelete (normKey key)).ptMeta (pt' := { (s.world.pt.delete (normKey key)) with
            time := (takeDec (unhex (splitAnswer a).2)).1 }) rfl rfl rfl
          exact this
        · exact qt_mono (tr_setPt _ _ hs (gv_str [] _).wellTagged trivial (by setpt_cs0))
  · exact Tr.runErr hs _ _

theorem builtin_step (hyp : Hyp env) (ih : IH env f) (fn : Fn) (name : Bytes) (args : List Node) (np : Pos)
    (site : Nat) (s : St) (hc : argcOk fn args) (ha : CkL args) (hs : GS s) :
    Tr s (builtin env (f+1) fn name args np site) QT := by
  cases fn
  case exit => exact bi_exit name args np site s hs
  case addKey => exact bi_addKey ih name args np site s ha hs
  case getKey => exact bi_getKey name args np site s hs
  case setTag => exact bi_setTag ih name args np site s ha hs
  case dropKey => exact bi_dropKey name args np site s hs
  case rename => exact bi_rename name args np site s hs
  case setMeasurement => exact bi_setMeasurement ih name args np site s ha hs
  case len => exact bi_len ih name args np site s hc ha hs
  case use => exact bi_use hyp ih name args np site s hs
  case cast => exact bi_cast hyp name args np site s hs
  case trim => exact bi_trim name args np site s hc hs
  case uppercase => exact bi_uppercase name args np site s hc hs
  case urlDecode => exact bi_urlDecode name args np site s hc hs
  case replace => exact bi_replace name args np site s hs
  case loadJson => exact bi_loadJson hyp ih name args np site s hc ha hs
  case strfmt => exact bi_strfmt ih name args np site s ha hs
  case printf => exact bi_printf ih name args np site s ha hs
  case p => exact bi_probe ih _ (.inl rfl) name args np site s ha hs
  case pr => exact bi_probe ih _ (.inr (.inl rfl)) name args np site s ha hs
  case void => exact bi_probe ih _ (.inr (.inr rfl)) name args np site s ha hs
  case grok => exact bi_grok hyp name args np site s hc hs
  case addPattern => exact bi_addPattern name args np site s hs
  case datetime => exact bi_datetime name args np site s hs
  case defaultTime => exact bi_defaultTime name args np site s hs
  case xml => exact bi_xml name args np site s hs
  case sqlCover => exact bi_sqlCover name args np site s hs

end
end Platypus.PanicProofs
