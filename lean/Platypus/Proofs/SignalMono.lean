import Platypus.Proofs.SignalBase
/-!
C14, effects-prefix theorem, part 2: every computation of the statement machine and of the
expression evaluator (all builtins) only conses onto the trace.
-/
namespace Platypus.SignalProofs
open Platypus Platypus.MachineProofs

/-- trace-monotonicity of the machine functions at fuel `g` -/
structure MMono (env : Env) (ev : Node → EM TV) (g : Nat) : Prop where
  stmt : ∀ n, MonoM (runStmt env ev g n)
  stmts : ∀ l, MonoM (runStmts env ev g l)
  ifs : ∀ ifs els, MonoM (runIfs env ev g ifs els)
  loop : ∀ c l body, MonoM (forLoop env ev g c l body)
  forIn : ∀ var it pos body, MonoM (Platypus.forIn env ev g var it pos body)
  forStr : ∀ var rs body, MonoM (forInStr env ev g var rs body)
  forItems : ∀ var pos items live body, MonoM (forInItems env ev g var pos items live body)

theorem mmono_zero (env : Env) (ev : Node → EM TV) : MMono env ev 0 := by
  refine ⟨?_, ?_, ?_, ?_, ?_, ?_, ?_⟩ <;> intros
  · rw [runStmt]; exact MonoM.outOfFuel
  · rw [runStmts]; exact MonoM.outOfFuel
  · rw [runIfs]; exact MonoM.outOfFuel
  · rw [forLoop]; exact MonoM.outOfFuel
  · rw [Platypus.forIn]; exact MonoM.outOfFuel
  · rw [forInStr]; exact MonoM.outOfFuel
  · rw [forInItems]; exact MonoM.outOfFuel

section
variable {env : Env} {ev : Node → EM TV} {g : Nat}

theorem runStmts_mono_step (ih : MMono env ev g) (l : List Node) : MonoM (runStmts env ev (g+1) l) := by
  cases l with
  | nil => simp only [runStmts]; exact MonoM.pure _
  | cons n rest =>
    intro s
    simp only [runStmts, stmtReturn_apply]
    have h0 : (pollSt env s).world.trace = s.world.trace := by unfold pollSt; split <;> rfl
    cases (pollB env s || (s.task.brk || s.task.cont)) with
    | true => exact (List.suffix_refl _).trans (by rw [h0]; exact List.suffix_refl _)
    | false =>
      dsimp only
      have h2 := ih.stmt n (pollSt env s)
      cases hr : runStmt env ev g n (pollSt env s) with
      | ok v s2 =>
        rw [hr] at h2
        exact MonoR.of_trace_eq h0 (MonoR.trans h2 (ih.stmts rest s2))
      | err e s2 =>
        rw [hr] at h2
        exact MonoR.of_trace_eq (r := (.err e s2 : Res Unit)) h0 h2
      | panic m => trivial
      | fuel => trivial
      | need q => trivial

theorem runStmt_mono_step (ih8 : ∀ n, MonoM (ev n)) (ih : MMono env ev g) (n : Node) :
    MonoM (runStmt env ev (g+1) n) := by
  have ih1 := ih.stmt; have ih3 := ih.ifs; have ih4 := ih.loop; have ih5 := ih.forIn
  cases n <;> simp only [runStmt] <;> mono

theorem block_mono (ih : MMono env ev g) (b : List Node) {K : EM TV} (ih9 : MonoM K) :
    MonoM (do pushScope; runStmts env ev g b; popScope; K) := by
  have ih2 := ih.stmts
  mono

theorem runIfs_mono_step (ih : MMono env ev g) (ifs : List (Node × Option (List Node) × Pos))
    (els : Option (List Node)) : MonoM (runIfs env ev (g+1) ifs els) := by
  have ih1 := ih.stmt; have ih2 := ih.stmts; have ih3 := ih.ifs
  cases ifs with
  | nil => rw [runIfs.eq_def]; simp only []; mono
  | cons x rest =>
    obtain ⟨c, blk, p⟩ := x
    rw [runIfs.eq_def]; simp only []; mono

theorem forLoop_mono_step (ih : MMono env ev g) (c l : Option Node) (body : Option (List Node)) :
    MonoM (forLoop env ev (g+1) c l body) := by
  have ih1 := ih.stmt; have ih2 := ih.stmts; have ih4 := ih.loop
  rw [forLoop.eq_def]; simp only []
  mono

theorem mmono_succ (hev : ∀ n, MonoM (ev n)) (ih : MMono env ev g) : MMono env ev (g+1) := by
  have ih1 := ih.stmt; have ih2 := ih.stmts; have ih3 := ih.ifs; have ih4 := ih.loop
  have ih5 := ih.forIn; have ih6 := ih.forStr; have ih7 := ih.forItems
  refine ⟨runStmt_mono_step hev ih, runStmts_mono_step ih, runIfs_mono_step ih, forLoop_mono_step ih, ?_, ?_, ?_⟩
  · intro var it pos body
    rw [Platypus.forIn.eq_def]; simp only []; mono
  · intro var rs body
    cases rs with
    | nil => simp only [forInStr]; mono
    | cons r rest => rw [forInStr.eq_def]; simp only []; mono
  · intro var pos items live body
    rw [forInItems.eq_def]; simp only []; mono

theorem mmono_all (hev : ∀ n, MonoM (ev n)) : ∀ g, MMono env ev g
  | 0 => mmono_zero env ev
  | g+1 => mmono_succ hev (mmono_all hev g)

end

/-- trace-monotonicity of the evaluator functions at fuel `f` -/
structure EMono (env : Env) (f : Nat) : Prop where
  node : ∀ n, MonoM (evalNode env f n)
  list : ∀ l, MonoM (evalList env f l)
  mapLit : ∀ kvs acc, MonoM (evalMapLit env f kvs acc)
  search : ∀ cur idx, MonoM (searchLM env f cur idx)
  change : ∀ cur idx val, MonoM (changeLM env f cur idx val)
  slice : ∀ obj st en sp, MonoM (evalSlice env f obj st en sp)
  assign : ∀ op lhs rhs p, MonoM (evalAssign env f op lhs rhs p)
  call : ∀ name args np site, MonoM (evalCall env f name args np site)
  builtin : ∀ fn name args np site, MonoM (builtin env f fn name args np site)

theorem emono_zero (env : Env) : EMono env 0 := by
  refine ⟨?_, ?_, ?_, ?_, ?_, ?_, ?_, ?_, ?_⟩ <;> intros
  · rw [evalNode]; exact MonoM.outOfFuel
  · rw [evalList]; exact MonoM.outOfFuel
  · rw [evalMapLit]; exact MonoM.outOfFuel
  · rw [searchLM]; exact MonoM.outOfFuel
  · rw [changeLM]; exact MonoM.outOfFuel
  · rw [evalSlice]; exact MonoM.outOfFuel
  · rw [evalAssign]; exact MonoM.outOfFuel
  · rw [evalCall]; exact MonoM.outOfFuel
  · rw [builtin]; exact MonoM.outOfFuel

section
variable {env : Env} {f : Nat}

theorem evalNode_mono_step (ih : EMono env f) (n : Node) : MonoM (evalNode env (f+1) n) := by
  have ih1 := ih.node; have ih2 := ih.list; have ih3 := ih.mapLit; have ih4 := ih.search
  have ih5 := ih.slice; have ih6 := ih.assign; have ih7 := ih.call
  have ih8 := (mmono_all (env := env) ih.node f).stmt
  cases n <;> simp only [evalNode] <;> mono

theorem evalList_mono_step (ih : EMono env f) (l : List Node) : MonoM (evalList env (f+1) l) := by
  have ih1 := ih.node; have ih2 := ih.list
  cases l <;> simp only [evalList] <;> mono

theorem evalMapLit_mono_step (ih : EMono env f) (kvs : List (Node × Node)) (acc : List (Bytes × Val)) :
    MonoM (evalMapLit env (f+1) kvs acc) := by
  have ih1 := ih.node; have ih3 := ih.mapLit
  cases kvs with
  | nil => simp only [evalMapLit]; mono
  | cons kv r => obtain ⟨k, v⟩ := kv; simp only [evalMapLit]; mono

theorem searchLM_mono_step (ih : EMono env f) (cur : Val) (idx : List Node) :
    MonoM (searchLM env (f+1) cur idx) := by
  have ih1 := ih.node; have ih4 := ih.search
  cases idx <;> simp only [searchLM] <;> mono

theorem changeLM_mono_step (ih : EMono env f) (cur : Val) (idx : List Node) (val : TV) :
    MonoM (changeLM env (f+1) cur idx val) := by
  have ih1 := ih.node; have ih4 := ih.change
  cases idx <;> simp only [changeLM] <;> mono

theorem evalSlice_mono_step (ih : EMono env f) (obj : Node) (st en sp : Option Node) :
    MonoM (evalSlice env (f+1) obj st en sp) := by
  have ih1 := ih.node
  rw [evalSlice.eq_def]; simp only []
  mono

theorem evalAssign_mono_step (ih : EMono env f) (op : AsOp) (lhs rhs : List Node) (p : Pos) :
    MonoM (evalAssign env (f+1) op lhs rhs p) := by
  have ih1 := ih.node; have ih4 := ih.search; have ih5 := ih.change
  rw [evalAssign.eq_def]; simp only []
  mono

theorem MonoM.app {α} {m : EM α} (h : MonoM m) (s : St) : MonoR s (m s) := h s

theorem evalCall_mono_step (ih : EMono env f) (name : Bytes) (args : List Node) (np : Pos) (site : Nat) :
    MonoM (evalCall env (f+1) name args np site) := by
  intro s
  simp only [evalCall]
  split
  · exact List.suffix_refl _
  · cases hfn : Fn.ofName name with
    | none => trivial
    | some fn =>
      simp only []
      have h := ih.builtin fn name args np site s
      generalize builtin env f fn name args np site s = r at h ⊢
      cases r <;> first | exact h | trivial

theorem put_mono {sp : Bytes → TV → EM Unit} (h : ∀ k x, MonoM (sp k x)) :
    ∀ l : List (Bytes × Val), MonoM (builtin.put sp l) := by
  intro l
  induction l with
  | nil => simp only [builtin.put]; exact MonoM.pure _
  | cons kv r ih =>
    obtain ⟨ck, cv⟩ := kv
    simp only [builtin.put]
    exact MonoM.bind (h _ _) fun _ => ih

theorem builtin_mono_step (ih : EMono env f) (fn : Fn) (name : Bytes) (args : List Node) (np : Pos) (site : Nat) :
    MonoM (builtin env (f+1) fn name args np site) := by
  have ih1 := ih.node; have ih2 := ih.list
  have ih3 := fun x => MonoM.conv2str env x
  cases fn
  case addKey =>
    rw [builtin.eq_def]; simp only []; mono
    rename_i k e _
    intro s
    dsimp only
    have h := ih.node e s
    generalize evalNode env f e s = r at h ⊢
    cases r <;> first | exact h | trivial
  case setMeasurement =>
    rw [builtin.eq_def]; simp only []
    split
    · rename_i a0 rest
      split
      · mono
      · intro s
        dsimp only
        have h := ih.node a0 s
        generalize evalNode env f a0 s = r at h ⊢
        cases r <;> simp only []
        · repeat' split
          all_goals exact h
        · exact h
        all_goals trivial
    · mono
  case use =>
    rw [builtin.eq_def]; simp only []; mono
    rename_i cname stmts _
    intro s
    dsimp only
    have h := (mmono_all (env := env) ih.node f).stmts stmts { task := { name := cname, scopes := [[]] }, world := s.world }
    generalize runStmts env (evalNode env f) f stmts { task := { name := cname, scopes := [[]] }, world := s.world } = r at h ⊢
    cases r <;> first | exact h | trivial
  case printf =>
    rw [builtin.eq_def]; simp only []
    split
    · rename_i a0 rest
      intro s
      dsimp only
      have h := ih.node a0 s
      generalize evalNode env f a0 s = r at h ⊢
      cases r <;> simp only []
      · split
        · split
          · exact h
          · refine MonoR.trans h (MonoM.app ?_ _)
            mono
        · exact h
      · exact h
      all_goals trivial
    · mono
  case grok =>
    rw [builtin.eq_def]; simp only []; mono
    refine put_mono (fun k x => ?_) _
    mono
  all_goals (rw [builtin.eq_def]; simp only []; mono)

theorem emono_succ (ih : EMono env f) : EMono env (f+1) :=
  ⟨evalNode_mono_step ih, evalList_mono_step ih, evalMapLit_mono_step ih, searchLM_mono_step ih,
    changeLM_mono_step ih, evalSlice_mono_step ih, evalAssign_mono_step ih, evalCall_mono_step ih,
    builtin_mono_step ih⟩

end

theorem emono_all (env : Env) : ∀ f, EMono env f
  | 0 => emono_zero env
  | f+1 => emono_succ (emono_all env f)

/-- every machine function over the real evaluator is trace-monotone -/
theorem mmono_eval (env : Env) (f g : Nat) : MMono env (evalNode env f) g :=
  mmono_all (emono_all env f).node g

end Platypus.SignalProofs

