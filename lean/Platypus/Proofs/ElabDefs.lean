import Platypus.Model.Elab
/-!
# Front end, helper 1: the grammar shape of parser trees (`exprOk`, `stmtOk`)

`exprOk p`: the tree `p` contains no statement node (`ifelse`, `forS`, `forIn`, `brk`, `cont`)
anywhere.  `stmtOk p`: `p` is a statement whose expression slots are `exprOk` and whose blocks are
lists of `stmtOk` trees, or `break`/`continue`, or an `exprOk` tree.
-/
namespace Platypus.FrontEnd
open Platypus.ParsePos Platypus.Parse

mutual
/-- no statement node anywhere in the tree -/
def exprOk : PP → Bool
  | .ident _ _ _ => true
  | .num _ _ _ _ => true
  | .str _ _ _ => true
  | .bool _ _ => true
  | .nil _ _ => true
  | .list xs _ _ => exprOkL xs
  | .map kvs _ _ => exprOkKV kvs
  | .paren e _ _ => exprOk e
  | .attr o a _ => exprOk o && exprOk a
  | .index _ idx _ _ => exprOkL idx
  | .unary _ e _ => exprOk e
  | .bin _ l r _ => exprOk l && exprOk r
  | .assign _ l r _ => exprOkL l && exprOkL r
  | .call _ _ args _ _ _ => exprOkL args
  | .slice o a b c _ _ _ => exprOk o && exprOkO a && exprOkO b && exprOkO c
  | .ifelse _ _ => false
  | .forS _ _ _ _ _ => false
  | .forIn _ _ _ _ _ => false
  | .brk _ => false
  | .cont _ => false
def exprOkL : List PP → Bool
  | [] => true
  | x :: r => exprOk x && exprOkL r
def exprOkO : Option PP → Bool
  | none => true
  | some x => exprOk x
def exprOkKV : List (PP × PP) → Bool
  | [] => true
  | (k, v) :: r => exprOk k && exprOk v && exprOkKV r
end

mutual
/-- statement nodes only in statement position -/
def stmtOk : PP → Bool
  | .ifelse ifs els => ifsOk ifs && elsOk els
  | .forS i c l b _ => exprOkO i && exprOkO c && exprOkO l && stmtOkL b
  | .forIn v it b _ _ => exprOk v && exprOk it && stmtOkL b
  | .brk _ => true
  | .cont _ => true
  | .ident _ _ _ => true
  | .num _ _ _ _ => true
  | .str _ _ _ => true
  | .bool _ _ => true
  | .nil _ _ => true
  | .list xs lb rb => exprOk (.list xs lb rb)
  | .map kvs lb rb => exprOk (.map kvs lb rb)
  | .paren e lp rp => exprOk (.paren e lp rp)
  | .attr o a p => exprOk (.attr o a p)
  | .index o idx lbs rbs => exprOk (.index o idx lbs rbs)
  | .unary op e p => exprOk (.unary op e p)
  | .bin op l r p => exprOk (.bin op l r p)
  | .assign op l r p => exprOk (.assign op l r p)
  | .call q v args np lp rp => exprOk (.call q v args np lp rp)
  | .slice o a b c c2 lb rb => exprOk (.slice o a b c c2 lb rb)
def stmtOkL : List PP → Bool
  | [] => true
  | x :: r => stmtOk x && stmtOkL r
def ifsOk : List (Nat × PP × List PP) → Bool
  | [] => true
  | (_, c, b) :: r => exprOk c && stmtOkL b && ifsOk r
def elsOk : Option (Nat × List PP) → Bool
  | none => true
  | some (_, b) => stmtOkL b
end

/-- an expression tree is a statement -/
theorem stmtOk_of_exprOk {p : PP} (h : exprOk p = true) : stmtOk p = true := by
  cases p <;> first | rfl | (simpa only [stmtOk] using h) | (simp [exprOk] at h)

theorem exprOkL_iff {xs : List PP} : exprOkL xs = true ↔ ∀ x ∈ xs, exprOk x = true := by
  induction xs with
  | nil => simp [exprOkL]
  | cons x r ih => simp [exprOkL, ih]

theorem stmtOkL_iff {xs : List PP} : stmtOkL xs = true ↔ ∀ x ∈ xs, stmtOk x = true := by
  induction xs with
  | nil => simp [stmtOkL]
  | cons x r ih => simp [stmtOkL, ih]

theorem exprOkO_iff {x : Option PP} : exprOkO x = true ↔ ∀ y, x = some y → exprOk y = true := by
  cases x <;> simp [exprOkO]

theorem exprOkKV_iff {xs : List (PP × PP)} :
    exprOkKV xs = true ↔ ∀ kv ∈ xs, exprOk kv.1 = true ∧ exprOk kv.2 = true := by
  induction xs with
  | nil => simp [exprOkKV]
  | cons x r ih => obtain ⟨k, v⟩ := x; simp [exprOkKV, ih, and_assoc]

theorem ifsOk_iff {xs : List (Nat × PP × List PP)} :
    ifsOk xs = true ↔ ∀ e ∈ xs, exprOk e.2.1 = true ∧ stmtOkL e.2.2 = true := by
  induction xs with
  | nil => simp [ifsOk]
  | cons x r ih => obtain ⟨p, c, b⟩ := x; simp [ifsOk, ih, and_assoc]

end Platypus.FrontEnd
