import Platypus.Model.Unquote
/-! Numbers and keywords (C07): `Nat.toDigits` round trip through `digitsVal`/`parseInt0`, idempotence of `lowerAscii`. -/
open Platypus Platypus.Lex

namespace Platypus.Unq

def lowerB (c : UInt8) : UInt8 := if 65 ≤ c && c ≤ 90 then c + 32 else c

set_option maxRecDepth 100000 in
theorem lowerB_idem_nat : ∀ n, n < 256 → lowerB (lowerB (UInt8.ofNat n)) = lowerB (UInt8.ofNat n) := by
  decide

theorem lowerB_idem (c : UInt8) : lowerB (lowerB c) = lowerB c := by
  have := lowerB_idem_nat c.toNat c.toNat_lt
  simpa using this

theorem lowerAscii_idem (w : Bytes) : lowerAscii (lowerAscii w) = lowerAscii w := by
  show List.map lowerB (List.map lowerB w) = List.map lowerB w
  rw [List.map_map]
  apply List.map_congr_left
  intro c _
  exact lowerB_idem c

theorem keyword_lower (w : Bytes) : keyword w = keyword (lowerAscii w) := by
  unfold keyword
  rw [lowerAscii_idem]

def cv (c : Char) : UInt8 := c.toNat.toUInt8

theorem unhexB_digitChar : ∀ d, d < 16 → unhexB (cv (Nat.digitChar d)) = some d := by
  decide

def dstep (base : Nat) (acc : Option Nat) (d : UInt8) : Option Nat :=
  match acc, unhexB d with
  | some a, some x => if x < base then some (a * base + x) else none
  | _, _ => none

theorem digitsVal_eq (base : Nat) (ds : Bytes) (h : ds ≠ []) :
    digitsVal base ds = ds.foldl (dstep base) (some 0) := by
  cases ds with
  | nil => exact absurd rfl h
  | cons a as => rfl

theorem foldl_toDigits (b : Nat) (hb : 1 < b) (hb' : b ≤ 16) (n : Nat) :
    ((Nat.toDigits b n).map cv).foldl (dstep b) (some 0) = some n := by
  induction n using Nat.strongRecOn with
  | _ n ih =>
    rw [Nat.toDigits_eq_if hb]
    split
    · rename_i h
      simp only [List.map_cons, List.map_nil, List.foldl_cons, List.foldl_nil, dstep]
      rw [unhexB_digitChar n (by omega)]
      simp [h]
    · rename_i h
      have hlt : n / b < n := Nat.div_lt_self (by omega) hb
      simp only [List.map_append, List.foldl_append, List.map_cons, List.map_nil, List.foldl_cons,
        List.foldl_nil, ih (n / b) hlt, dstep]
      rw [unhexB_digitChar (n % b) (by have := Nat.mod_lt n (by omega : 0 < b); omega)]
      simp only [Nat.mod_lt n (by omega : 0 < b), if_true]
      rw [Nat.div_add_mod' n b]

theorem digitsVal_toDigits (b : Nat) (hb : 1 < b) (hb' : b ≤ 16) (n : Nat) :
    digitsVal b ((Nat.toDigits b n).map cv) = some n := by
  rw [digitsVal_eq _ _ (by simp)]
  exact foldl_toDigits b hb hb' n

theorem head_toDigits (b : Nat) (hb : 1 < b) (hb' : b ≤ 16) (n : Nat) (hn : 0 < n) :
    ∃ d r, 0 < d ∧ d < 16 ∧ Nat.toDigits b n = Nat.digitChar d :: r := by
  induction n using Nat.strongRecOn with
  | _ n ih =>
    rw [Nat.toDigits_eq_if hb]
    split
    · exact ⟨n, [], hn, by omega, rfl⟩
    · rename_i h
      have hlt : n / b < n := Nat.div_lt_self (by omega) hb
      obtain ⟨d, r, h1, h2, h3⟩ := ih (n / b) hlt (Nat.div_pos (by omega) (by omega))
      exact ⟨d, r ++ _, h1, h2, by rw [h3]; rfl⟩

theorem cv_digitChar_ne : ∀ d, d < 16 → 0 < d → cv (Nat.digitChar d) ≠ 48 := by decide

theorem parseInt0_of_not_zero (s : Bytes) (h : ∀ x rest, s ≠ 48 :: x :: rest) :
    parseInt0 s = match digitsVal 10 s with
      | some n => if n ≤ 9223372036854775807 then some (n : Int) else none
      | none => none := by
  unfold parseInt0
  split
  · exact absurd rfl (h _ _)
  · rfl

theorem decSpelling_shape (n : Nat) : ∀ x rest, (Nat.toDigits 10 n).map cv ≠ 48 :: x :: rest := by
  intro x rest
  by_cases hn : n = 0
  · subst hn; simp
  · obtain ⟨d, r, h1, h2, h3⟩ := head_toDigits 10 (by omega) (by omega) n (by omega)
    rw [h3]
    intro he
    simp only [List.map_cons, List.cons.injEq] at he
    exact cv_digitChar_ne d h2 h1 he.1

theorem parseInt0_dec (n : Nat) : parseInt0 ((Nat.toDigits 10 n).map cv) =
    if n ≤ 9223372036854775807 then some (n : Int) else none := by
  rw [parseInt0_of_not_zero _ (decSpelling_shape n)]
  rw [digitsVal_toDigits 10 (by omega) (by omega) n]

theorem parseInt0_hex (n : Nat) : parseInt0 ([48, 120] ++ (Nat.toDigits 16 n).map cv) =
    if n ≤ 9223372036854775807 then some (n : Int) else none := by
  have := digitsVal_toDigits 16 (by omega) (by omega) n
  unfold parseInt0
  simp only [List.cons_append, List.nil_append]
  simp [this]

end Platypus.Unq
