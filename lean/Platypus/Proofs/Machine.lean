import Platypus.Spec.OutcomeSem
/-!
Helper lemmas for C03: the `EM` monad pointwise, the poll (`procExit`) as a pair of pure functions,
the abstraction `absG` (common generalisation of `Sem.absR`/`Sem.absU`), and a small relational
logic (`Rel`, `RelP`) for proving that a flag-machine computation refines an outcome computation.
-/
namespace Platypus.MachineProofs
open Platypus Platypus.Sem

/-! ### the monad, pointwise -/

/-- `EM.bind` on a result -/
def rbind {α β} : Res α → (α → EM β) → Res β
  | .ok a s, k => k a s
  | .err e s, _ => .err e s
  | .panic m, _ => .panic m
  | .fuel, _ => .fuel
  | .need q, _ => .need q

@[simp] theorem rbind_ok {α β} (a : α) (s : St) (k : α → EM β) : rbind (.ok a s) k = k a s := rfl
@[simp] theorem rbind_err {α β} (e : PlErr) (s : St) (k : α → EM β) : rbind (.err e s) k = .err e s := rfl
@[simp] theorem rbind_panic {α β} (m : String) (k : α → EM β) : rbind (.panic m) k = .panic m := rfl
@[simp] theorem rbind_fuel {α β} (k : α → EM β) : rbind (.fuel) k = .fuel := rfl
@[simp] theorem rbind_need {α β} (q : Bytes) (k : α → EM β) : rbind (.need q) k = .need q := rfl

theorem bind_apply {α β} (m : EM α) (k : α → EM β) (s : St) : (m >>= k) s = rbind (m s) k := by
  show EM.bind m k s = _
  unfold EM.bind
  cases m s <;> rfl

theorem pure_apply {α} (a : α) (s : St) : (pure a : EM α) s = .ok a s := rfl

theorem ite_app {α} (c : Prop) [Decidable c] (A B : EM α) (s : St) :
    (if c then A else B) s = if c then A s else B s := by
  split <;> rfl

theorem em_bind_assoc {α β γ} (m : EM α) (k : α → EM β) (h : β → EM γ) :
    (m >>= k) >>= h = m >>= fun a => k a >>= h := by
  funext s
  simp only [bind_apply]
  cases m s <;> simp [bind_apply]

theorem em_pure_bind {α β} (a : α) (k : α → EM β) : (pure a >>= k) = k a := by
  funext s
  simp [bind_apply, pure_apply]

theorem getS_apply (s : St) : getS s = .ok s s := rfl
theorem modifyS_apply (t : St → St) (s : St) : modifyS t s = .ok () (t s) := rfl
theorem modTask_apply (g : Task → Task) (s : St) : modTask g s = .ok () { s with task := g s.task } := rfl
theorem modWorld_apply (g : World → World) (s : St) : modWorld g s = .ok () { s with world := g s.world } := rfl
theorem runErr_apply {α} (p : Pos) (m : String) (s : St) :
    (runErr p m : EM α) s = .err (PlErr.new s.task.name p m) s := rfl
theorem panicE_apply {α} (m : String) (s : St) : (panicE m : EM α) s = .panic m := rfl
theorem outOfFuel_apply {α} (s : St) : (outOfFuel : EM α) s = .fuel := rfl

theorem finally_apply {α} (m : EM α) (fin : St → St) (s : St) :
    m.finally fin s = match m s with
      | .ok a s' => .ok a (fin s')
      | .err e s' => .err e (fin s')
      | r => r := rfl

/-! ### the poll -/

/-- does the poll in state `s` report (or has the task already) exit? -/
def pollB (env : Env) (s : St) : Bool :=
  if !s.task.exit && env.hasSignal then
    (match env.sigK with | some k => decide (k ≤ s.world.polls + 1) | none => false)
  else s.task.exit

/-- the state after the poll -/
def pollSt (env : Env) (s : St) : St :=
  if !s.task.exit && env.hasSignal then
    { task := { s.task with exit := pollB env s }, world := { s.world with polls := s.world.polls + 1 } }
  else s

theorem procExit_apply (env : Env) (s : St) : procExit env s = .ok (pollB env s) (pollSt env s) := by
  unfold procExit pollSt
  split
  · simp_all [pollB]; rfl
  · simp_all [pollB]

theorem pollSt_brk (env : Env) (s : St) : (pollSt env s).task.brk = s.task.brk := by
  unfold pollSt; split <;> rfl
theorem pollSt_cont (env : Env) (s : St) : (pollSt env s).task.cont = s.task.cont := by
  unfold pollSt; split <;> rfl
theorem pollSt_exit (env : Env) (s : St) : (pollSt env s).task.exit = pollB env s := by
  unfold pollSt pollB; split <;> simp_all
theorem pollSt_scopes (env : Env) (s : St) : (pollSt env s).task.scopes = s.task.scopes := by
  unfold pollSt; split <;> rfl
theorem pollSt_of_exit (env : Env) (s : St) (h : s.task.exit = true) : pollSt env s = s := by
  unfold pollSt; simp [h]
theorem pollB_of_exit (env : Env) (s : St) (h : s.task.exit = true) : pollB env s = true := by
  unfold pollB; simp [h]

theorem stmtReturn_apply (env : Env) (s : St) :
    stmtReturn env s = .ok (pollB env s || (s.task.brk || s.task.cont)) (pollSt env s) := by
  unfold stmtReturn
  rw [procExit_apply]
  cases h : pollB env s <;> simp [pollSt_brk, pollSt_cont]

/-! ### flags -/

/-- no break/continue pending (the same proposition as `C03.Clear`) -/
def Clr (s : St) : Prop := s.task.brk = false ∧ s.task.cont = false
/-- not both pending -/
def NotBoth (s : St) : Prop := ¬ (s.task.brk = true ∧ s.task.cont = true)

theorem Clr.notBoth {s : St} (h : Clr s) : NotBoth s := by
  unfold NotBoth; rw [h.1]; simp

theorem clearBC_of_clr {s : St} (h : Clr s) : clearBC s = s := by
  obtain ⟨task, world⟩ := s
  obtain ⟨name, scopes, brk, cont, exit, regs⟩ := task
  simp_all [clearBC, Clr]

theorem outOf_of_clr {s : St} (h : Clr s) : outOf s = outOfExit s := by
  simp [outOf, outOfExit, h.1, h.2]

theorem clr_clearBC (s : St) : Clr (clearBC s) := ⟨rfl, rfl⟩
theorem outOfExit_clearBC (s : St) : outOfExit (clearBC s) = outOfExit s := rfl

theorem pollSt_clr {env : Env} {s : St} (h : Clr s) : Clr (pollSt env s) :=
  ⟨by rw [pollSt_brk]; exact h.1, by rw [pollSt_cont]; exact h.2⟩

theorem pollB_clearBC (env : Env) (s : St) : pollB env (clearBC s) = pollB env s := rfl
theorem pollSt_clearBC (env : Env) (s : St) : pollSt env (clearBC s) = clearBC (pollSt env s) := by
  by_cases h : (!s.task.exit && env.hasSignal) = true
  · have h' : (!(clearBC s).task.exit && env.hasSignal) = true := h
    unfold pollSt
    rw [if_pos h, if_pos h']
    rfl
  · have h' : ¬ (!(clearBC s).task.exit && env.hasSignal) = true := h
    unfold pollSt
    rw [if_neg h, if_neg h']

theorem outOf_pollSt_of_clr {env : Env} {s : St} (h : Clr s) :
    outOf (pollSt env s) = if pollB env s then .exit else .normal := by
  rw [outOf_of_clr (pollSt_clr h)]
  simp [outOfExit, pollSt_exit]

/-- result states keep the break/continue flags of `s` -/
def PresBC {α} (s : St) : Res α → Prop
  | .ok _ s' => s'.task.brk = s.task.brk ∧ s'.task.cont = s.task.cont
  | .err _ s' => s'.task.brk = s.task.brk ∧ s'.task.cont = s.task.cont
  | _ => True

/-- a computation that never touches the break/continue flags -/
def FrameM {α} (m : EM α) : Prop := ∀ s, PresBC s (m s)

/-- an evaluator that never touches the break/continue flags (the same proposition as `C03.EvFrame`) -/
def Frame (ev : Node → EM TV) : Prop := ∀ e, FrameM (ev e)

theorem FrameM.evF {ev : Node → EM TV} (h : Frame ev) (f : Nat) (e : Node) : FrameM (evF ev f e) := by
  cases f with
  | zero => intro s; exact True.intro
  | succ k => exact h e

theorem FrameM.ret {α} (a : α) : FrameM (pure a : EM α) := fun _ => ⟨rfl, rfl⟩
theorem FrameM.getS : FrameM getS := fun _ => ⟨rfl, rfl⟩
theorem FrameM.pushScope : FrameM pushScope := fun _ => ⟨rfl, rfl⟩
theorem FrameM.popScope : FrameM popScope := fun _ => ⟨rfl, rfl⟩
theorem FrameM.clearScope : FrameM clearScope := fun _ => ⟨rfl, rfl⟩
theorem FrameM.setVarb (k : Bytes) (v : TV) : FrameM (setVarb k v) := fun _ => ⟨rfl, rfl⟩
theorem FrameM.modWorld (g : World → World) : FrameM (modWorld g) := fun _ => ⟨rfl, rfl⟩
theorem FrameM.runErr {α} (p : Pos) (m : String) : FrameM (runErr p m : EM α) := fun _ => ⟨rfl, rfl⟩
theorem FrameM.panicE {α} (m : String) : FrameM (panicE m : EM α) := fun _ => True.intro
theorem FrameM.procExit (env : Env) : FrameM (procExit env) := by
  intro s; rw [procExit_apply]; exact ⟨pollSt_brk env s, pollSt_cont env s⟩

theorem FrameM.bind {α β} {m : EM α} {k : α → EM β} (hm : FrameM m) (hk : ∀ a, FrameM (k a)) :
    FrameM (m >>= k) := by
  intro s
  rw [bind_apply]
  have h1 := hm s
  cases h : m s with
  | ok a s' =>
    rw [h] at h1
    have h2 := hk a s'
    simp only [rbind_ok]
    cases h3 : k a s' <;> rw [h3] at h2 <;> simp_all [PresBC]
  | err e s' => rw [h] at h1; exact h1
  | panic m => exact True.intro
  | fuel => exact True.intro
  | need q => exact True.intro

theorem PresBC.ok_clr {α} {s s' : St} {a : α} (h : PresBC s (.ok a s')) (hs : Clr s) : Clr s' :=
  ⟨h.1.trans hs.1, h.2.trans hs.2⟩
theorem PresBC.err_clr {α} {s s' : St} {e : PlErr} (h : PresBC s (.err e s' : Res α)) (hs : Clr s) : Clr s' :=
  ⟨h.1.trans hs.1, h.2.trans hs.2⟩

/-! ### abstraction and the refinement relations -/

/-- the abstraction of a machine result, generic in how value and outcome are paired -/
def absG {α γ} (g : α → Out → γ) : Res α → Res γ
  | .ok a s => .ok (g a (outOf s)) (clearBC s)
  | .err e s => .err e (clearBC s)
  | .panic m => .panic m
  | .fuel => .fuel
  | .need q => .need q

theorem absR_eq {α} (r : Res α) : absR r = absG Prod.mk r := by cases r <;> rfl
theorem absU_eq (r : Res Unit) : absU r = absG (fun _ o => o) r := by cases r <;> rfl

/-- postcondition of a machine result: `P` on success; after an error the flags are clear -/
def Post {α} (P : α → St → Prop) : Res α → Prop
  | .ok a s => P a s
  | .err _ s => Clr s
  | _ => True

def PNB {α} : α → St → Prop := fun _ s => NotBoth s
def PClr {α} : α → St → Prop := fun _ s => Clr s
def PVoid : TV → St → Prop := fun a s => a = voidTV ∧ Clr s

/-- from every clear state, `A` is the abstraction of `B` -/
def Rel {α γ} (g : α → Out → γ) (P : α → St → Prop) (A : EM γ) (B : EM α) : Prop :=
  ∀ s, Clr s → A s = absG g (B s) ∧ Post P (B s)

/-- continuations after a block: the machine continues in a state with a possibly pending flag,
    the semantics continues with the outcome in hand and the flags cleared -/
def RelP {α γ} (g : α → Out → γ) (P : α → St → Prop) (A : Out → EM γ) (B : EM α) : Prop :=
  ∀ s, NotBoth s → A (outOf s) (clearBC s) = absG g (B s) ∧ Post P (B s)

theorem Rel.mono {α γ} {g : α → Out → γ} {P P' : α → St → Prop} {A : EM γ} {B : EM α}
    (h : Rel g P A B) (hP : ∀ a s, P a s → P' a s) : Rel g P' A B := by
  intro s hs
  obtain ⟨h1, h2⟩ := h s hs
  refine ⟨h1, ?_⟩
  cases hB : B s <;> rw [hB] at h2 <;> simp_all [Post]

theorem Rel.bind {α' γ' α γ} {g' : α' → Out → γ'} {P' : α' → St → Prop} {g : α → Out → γ}
    {P : α → St → Prop} {A : EM γ'} {B : EM α'} {KS : γ' → EM γ} {KM : α' → EM α}
    (h : Rel g' P' A B)
    (hk : ∀ a s, P' a s → KS (g' a (outOf s)) (clearBC s) = absG g (KM a s) ∧ Post P (KM a s)) :
    Rel g P (A >>= KS) (B >>= KM) := by
  intro s hs
  obtain ⟨h1, h2⟩ := h s hs
  simp only [bind_apply]
  rw [h1]
  cases hB : B s with
  | ok a s' => rw [hB] at h2; exact hk a s' h2
  | err e s' => rw [hB] at h2; exact ⟨rfl, h2⟩
  | panic m => exact ⟨rfl, True.intro⟩
  | fuel => exact ⟨rfl, True.intro⟩
  | need q => exact ⟨rfl, True.intro⟩

theorem Rel.bind_same {β α γ} {g : α → Out → γ} {P : α → St → Prop} {m : EM β}
    {KS : β → EM γ} {KM : β → EM α} (hm : FrameM m) (hk : ∀ b, Rel g P (KS b) (KM b)) :
    Rel g P (m >>= KS) (m >>= KM) := by
  intro s hs
  simp only [bind_apply]
  have h1 := hm s
  cases hB : m s with
  | ok a s' => rw [hB] at h1; exact hk a s' (h1.ok_clr hs)
  | err e s' =>
    rw [hB] at h1
    replace h1 := h1.err_clr hs
    simp only [rbind_err, absG, Post]
    rw [clearBC_of_clr h1]
    exact ⟨rfl, h1⟩
  | panic m => exact ⟨rfl, True.intro⟩
  | fuel => exact ⟨rfl, True.intro⟩
  | need q => exact ⟨rfl, True.intro⟩

theorem Rel.bind_congr {β α γ} {g : α → Out → γ} {P : α → St → Prop} {m m' : EM β}
    {KS : β → EM γ} {KM : β → EM α} (hm : FrameM m) (heq : m' = m)
    (hk : ∀ b, Rel g P (KS b) (KM b)) :
    Rel g P (m >>= KS) (m' >>= KM) := by
  subst heq
  exact Rel.bind_same hm hk

theorem Rel.ite {α γ} {g : α → Out → γ} {P : α → St → Prop} (c : Prop) [Decidable c]
    {A1 A2 : EM γ} {B1 B2 : EM α} (h1 : Rel g P A1 B1) (h2 : Rel g P A2 B2) :
    Rel g P (if c then A1 else A2) (if c then B1 else B2) := by
  split
  · exact h1
  · exact h2

/-- leaving with value `a` and no pending flag -/
theorem Rel.ret {α γ} {g : α → Out → γ} {P : α → St → Prop} (a : α) (hP : ∀ s, Clr s → P a s) :
    Rel g P (fun s => .ok (g a (outOfExit s)) s) (pure a) := by
  intro s hs
  simp only [pure_apply, absG, Post]
  rw [clearBC_of_clr hs, outOf_of_clr hs]
  exact ⟨rfl, hP s hs⟩

theorem Rel.ret' {α γ} {g : α → Out → γ} {P : α → St → Prop} (a : α) (hP : ∀ s, Clr s → P a s) :
    Rel g P (getS >>= fun s => pure (g a (outOfExit s))) (pure a) :=
  Rel.ret a hP

theorem Rel.finally {α γ} {g : α → Out → γ} {P : α → St → Prop} {A : EM γ} {B : EM α}
    (hP : ∀ a s, P a s → P a (popSt s)) (h : Rel g P A B) :
    Rel g P (A.finally popSt) (B.finally popSt) := by
  intro s hs
  obtain ⟨h1, h2⟩ := h s hs
  simp only [finally_apply]
  rw [h1]
  cases hB : B s with
  | ok a s' => rw [hB] at h2; exact ⟨rfl, hP a s' h2⟩
  | err e s' => rw [hB] at h2; exact ⟨rfl, h2⟩
  | panic m => exact ⟨rfl, True.intro⟩
  | fuel => exact ⟨rfl, True.intro⟩
  | need q => exact ⟨rfl, True.intro⟩

/-- out of fuel on both sides -/
theorem Rel.fuel {α γ} {g : α → Out → γ} {P : α → St → Prop} : Rel g P outOfFuel outOfFuel :=
  fun _ _ => ⟨rfl, True.intro⟩

theorem Rel.same {α γ} {g : α → Out → γ} {P : α → St → Prop} {m : EM α} (hm : FrameM m)
    (hP : ∀ a s, Clr s → P a s) :
    Rel g P (m >>= fun a => getS >>= fun s => pure (g a (outOfExit s))) m := by
  intro s hs
  simp only [bind_apply]
  have h1 := hm s
  cases hB : m s with
  | ok a s' =>
    rw [hB] at h1
    replace h1 := h1.ok_clr hs
    simp only [rbind_ok, absG, Post]
    rw [clearBC_of_clr h1, outOf_of_clr h1]
    exact ⟨rfl, hP a s' h1⟩
  | err e s' =>
    rw [hB] at h1
    replace h1 := h1.err_clr hs
    simp only [rbind_err, absG, Post]
    rw [clearBC_of_clr h1]
    exact ⟨rfl, h1⟩
  | panic m => exact ⟨rfl, True.intro⟩
  | fuel => exact ⟨rfl, True.intro⟩
  | need q => exact ⟨rfl, True.intro⟩

/-- a loop result (outcome only) paired with the void value -/
theorem Rel.withVoid {P : TV → St → Prop} {A : EM Out} {B : EM TV}
    (h : Rel (fun _ o => o) PVoid A B) (hP : ∀ a s, Clr s → P a s) :
    Rel Prod.mk P (A >>= fun o => pure (voidTV, o)) B := by
  intro s hs
  obtain ⟨h1, h2⟩ := h s hs
  simp only [bind_apply]
  rw [h1]
  cases hB : B s with
  | ok a s' =>
    rw [hB] at h2
    obtain ⟨rfl, h3⟩ := h2
    exact ⟨rfl, hP _ _ h3⟩
  | err e s' => rw [hB] at h2; exact ⟨rfl, h2⟩
  | panic m => exact ⟨rfl, True.intro⟩
  | fuel => exact ⟨rfl, True.intro⟩
  | need q => exact ⟨rfl, True.intro⟩

/-- a pending-flag continuation, started without a block (clear state) -/
theorem RelP.toRel {α γ} {g : α → Out → γ} {P : α → St → Prop} {KS : Out → EM γ} {KM : EM α}
    (h : RelP g P KS KM) : Rel g P ((fun s => Res.ok (outOfExit s) s) >>= KS) KM := by
  intro s hs
  simp only [bind_apply, rbind_ok]
  have := h s hs.notBoth
  rwa [clearBC_of_clr hs, outOf_of_clr hs] at this

/-- state transformers that commute with the abstraction -/
def NeutralT (t : St → St) : Prop :=
  ∀ s, outOf (t s) = outOf s ∧ t (clearBC s) = clearBC (t s) ∧
    (t s).task.brk = s.task.brk ∧ (t s).task.cont = s.task.cont

theorem RelP.mod {α γ} {g : α → Out → γ} {P : α → St → Prop} {KS : Out → EM γ} {KM : EM α}
    {t : St → St} (ht : NeutralT t) (h : RelP g P KS KM) :
    RelP g P (fun o => modifyS t >>= fun _ => KS o) (modifyS t >>= fun _ => KM) := by
  intro s hs
  simp only [bind_apply, modifyS_apply, rbind_ok]
  obtain ⟨h1, h2, h3, h4⟩ := ht s
  have := h (t s) (by unfold NotBoth; rw [h3, h4]; exact hs)
  rwa [h1, ← h2] at this

theorem neutral_popSt : NeutralT popSt := fun _ => ⟨rfl, rfl, rfl, rfl⟩

theorem RelP.popScope {α γ} {g : α → Out → γ} {P : α → St → Prop} {KS : Out → EM γ} {KM : EM α}
    (h : RelP g P KS KM) :
    RelP g P (fun o => popScope >>= fun _ => KS o) (popScope >>= fun _ => KM) :=
  RelP.mod (t := popSt) neutral_popSt h

theorem RelP.clearScope {α γ} {g : α → Out → γ} {P : α → St → Prop} {KS : Out → EM γ} {KM : EM α}
    (h : RelP g P KS KM) :
    RelP g P (fun o => clearScope >>= fun _ => KS o) (clearScope >>= fun _ => KM) :=
  RelP.mod (t := fun s => { s with task := { s.task with scopes := match s.task.scopes with | [] => [] | _ :: r => [] :: r } })
    (fun _ => ⟨rfl, rfl, rfl, rfl⟩) h

theorem RelP.ret {α γ} {g : α → Out → γ} {P : α → St → Prop} (a : α) (hP : ∀ s, NotBoth s → P a s) :
    RelP g P (fun o => pure (g a o)) (pure a) :=
  fun s hs => ⟨rfl, hP s hs⟩

end Platypus.MachineProofs
