import Platypus.Proofs.ErrPosMachine
import Platypus.Proofs.Machine
/-!
Where run-time errors point, part 3: the expression evaluator and the builtins at fuel `f+1`,
given the contracts at fuel `f`; then all fuel by induction.
-/
namespace Platypus.ErrPos
open Platypus

@[simp] theorem start_mem (n : Node) : Node.start n ∈ posOf n := start_in n

def InKV (kvs : List (Node × Node)) : Pos → Prop := fun p => p ∈ posOfKV kvs
def InSl (obj : Node) (a b c : Option Node) : Pos → Prop := fun p => In obj p ∨ InO a p ∨ InO b p ∨ InO c p
def InAs (lhs rhs : List Node) (p : Pos) : Pos → Prop := fun q => q = p ∨ InL lhs q ∨ InL rhs q
def InCall (args : List Node) (np : Pos) : Pos → Prop := fun q => q = np ∨ InL args q

structure IHE (env : Env) (f : Nat) : Prop where
  node : ∀ n, EOK env (evalNode env f n) (In n)
  list : ∀ l, EOK env (evalList env f l) (InL l)
  mapLit : ∀ kvs acc, EOK env (evalMapLit env f kvs acc) (InKV kvs)
  search : ∀ cur idx, EOK env (searchLM env f cur idx) (InL idx)
  change : ∀ cur idx val, EOK env (changeLM env f cur idx val) (InL idx)
  slice : ∀ obj st en sp, EOK env (evalSlice env f obj st en sp) (InSl obj st en sp)
  assign : ∀ op lhs rhs p, EOK env (evalAssign env f op lhs rhs p) (InAs lhs rhs p)
  call : ∀ name args np site, EOK env (evalCall env f name args np site) (InCall args np)
  builtin : ∀ fn name args np site, EOK env (builtin env f fn name args np site) (InCall args np)

/-- close a goal `∀ p, A p → B p` between position sets -/
macro "pos_sub" : tactic => `(tactic| first |
  (intro p hp
   simp only [In, InL, InO, InOB, InKV, InSl, InAs, InCall, posOf, posOfL, posOfO, posOfKV, posOfOB,
     List.mem_cons, List.mem_append, List.not_mem_nil, or_false, false_or] at hp ⊢
   simp [hp]
   done))

/-- close a goal `P p` for a position set -/
macro "pos_mem" : tactic => `(tactic| first |
  (simp [In, InL, InO, InOB, InKV, InSl, InAs, InCall, posOf, posOfL, posOfO, posOfKV, posOfOB]; done))

section
variable {env : Env} {f : Nat}

theorem evalList_stepE (ih : IHE env f) (l : List Node) : EOK env (evalList env (f+1) l) (InL l) := by
  cases l with
  | nil => simp only [evalList]; exact EOK.pure
  | cons x r =>
    simp only [evalList]
    refine EOK.bind ((ih.node x).mono (by pos_sub)) fun v => ?_
    refine EOK.bind ((ih.list r).mono (by pos_sub)) fun vs => ?_
    exact EOK.pure

theorem evalMapLit_stepE (ih : IHE env f) (kvs : List (Node × Node)) (acc : List (Bytes × Val)) :
    EOK env (evalMapLit env (f+1) kvs acc) (InKV kvs) := by
  cases kvs with
  | nil => simp only [evalMapLit]; exact EOK.pure
  | cons kv r =>
    obtain ⟨k, v⟩ := kv
    simp only [evalMapLit]
    refine EOK.bind ((ih.node k).mono (by pos_sub)) fun kv => ?_
    split
    · refine EOK.bind ((ih.node v).mono (by pos_sub)) fun vv => ?_
      split
      all_goals first
        | exact (ih.mapLit r _).mono (by pos_sub)
        | exact EOK.runErr (by pos_mem)
    · exact EOK.runErr (by pos_mem)

theorem searchLM_stepE (ih : IHE env f) (cur : Val) (idx : List Node) :
    EOK env (searchLM env (f+1) cur idx) (InL idx) := by
  cases idx with
  | nil => simp only [searchLM]; exact EOK.bind EOK.getS fun _ => EOK.pure
  | cons i r =>
    simp only [searchLM]
    refine EOK.bind ((ih.node i).mono (by pos_sub)) fun k => ?_
    refine EOK.bind EOK.getS fun s => ?_
    repeat' split
    all_goals first
      | exact EOK.runErr (by pos_mem)
      | exact (ih.search _ r).mono (by pos_sub)
      | exact EOK.pure
      | exact EOK.panic

theorem changeLM_stepE (ih : IHE env f) (cur : Val) (idx : List Node) (val : TV) :
    EOK env (changeLM env (f+1) cur idx val) (InL idx) := by
  cases idx with
  | nil => simp only [changeLM]; exact EOK.pure
  | cons i r =>
    simp only [changeLM]
    refine EOK.bind ((ih.node i).mono (by pos_sub)) fun k => ?_
    refine EOK.bind EOK.getS fun s => ?_
    repeat' split
    all_goals first
      | exact EOK.runErr (by pos_mem)
      | exact (ih.change _ r _).mono (by pos_sub)
      | exact EOK.bind EOK.modWorld fun _ => EOK.pure
      | exact EOK.pure
      | exact EOK.panic


/-- try to finish an `EOK` goal completely: structural rules, the induction hypotheses `ih`, case splits -/
macro "eok_auto " ih:ident : tactic => `(tactic|
  repeat' (first
    | exact EOK.pure | exact EOK.fuel | exact EOK.panic | exact EOK.need | exact EOK.askE
    | exact EOK.modWorld | exact EOK.getS | exact EOK.setVarb
    | (refine EOK.modTask ?_; intro _; rfl)
    | (exfalso; contradiction)
    | exact EOK.runErr (by pos_mem)
    | exact (IHE.node $ih _).mono (by pos_sub)
    | exact (IHE.list $ih _).mono (by pos_sub)
    | exact (IHE.mapLit $ih _ _).mono (by pos_sub)
    | exact (IHE.search $ih _ _).mono (by pos_sub)
    | exact (IHE.change $ih _ _ _).mono (by pos_sub)
    | exact (IHE.slice $ih _ _ _ _).mono (by pos_sub)
    | exact (IHE.assign $ih _ _ _ _).mono (by pos_sub)
    | exact (IHE.call $ih _ _ _ _).mono (by pos_sub)
    | refine EOK.bind ?_ (fun _ => ?_)
    | refine EOK.map ?_
    | split))

set_option maxHeartbeats 3200000 in
theorem evalSlice_stepE (ih : IHE env f) (obj : Node) (st en sp : Option Node) :
    EOK env (evalSlice env (f+1) obj st en sp) (InSl obj st en sp) := by
  cases st <;> cases en <;> cases sp <;>
    (simp only [evalSlice, Platypus.MachineProofs.em_pure_bind]; eok_auto ih)

theorem evalAssign_stepE (ih : IHE env f) (op : AsOp) (lhs rhs : List Node) (p : Pos) :
    EOK env (evalAssign env (f+1) op lhs rhs p) (InAs lhs rhs p) := by
  simp only [evalAssign]
  eok_auto ih


/-- the rules that need no induction hypothesis -/
macro "eok_basic" : tactic => `(tactic|
  repeat' (first
    | exact EOK.pure | exact EOK.fuel | exact EOK.panic | exact EOK.need | exact EOK.askE
    | exact EOK.modWorld | exact EOK.getS | exact EOK.setVarb
    | (refine EOK.modTask ?_; intro _; rfl)
    | refine EOK.bind ?_ (fun _ => ?_)
    | refine EOK.map ?_
    | split))

theorem EOK.castToString {v : Val} {P : Pos → Prop} : EOK env (castToString env v) P := by
  cases v <;> simp only [Platypus.castToString] <;> eok_basic

theorem EOK.conv2str {x : TV} {P : Pos → Prop} : EOK env (conv2str env x) P := by
  unfold Platypus.conv2str
  repeat' (first
    | exact EOK.castToString | exact EOK.pure | exact EOK.askE | exact EOK.getS
    | refine EOK.bind ?_ (fun _ => ?_) | refine EOK.map ?_ | split)

/-- `m`, with the call site appended to the chain of a failure (add_key's second argument) -/
theorem EOK.wrapErr {α : Type} {m : EM α} {P : Pos → Prop} {np : Pos} (hm : EOK env m P) (hp : P np) :
    EOK env (fun s => match m s with
      | .err er s' => .err (er.append s'.task.name np) s'
      | r => r) P := by
  intro s
  have h := hm s
  unfold TrE at h ⊢
  dsimp only
  cases hr : m s with
  | ok a s' => rw [hr] at h; exact h
  | err e s' =>
    rw [hr] at h
    refine ⟨h.1, ?_⟩
    show Located env s.task.name P (e.chain ++ [(s'.task.name, np)])
    rw [h.1]
    exact .wrap h.2 hp
  | panic _ => trivial
  | fuel => trivial
  | need _ => trivial

theorem evalCall_stepE (ih : IHE env f) (name : Bytes) (args : List Node) (np : Pos) (site : Nat) :
    EOK env (evalCall env (f+1) name args np site) (InCall args np) := by
  intro s
  simp only [evalCall]
  unfold TrE
  split
  · exact (rfl : s.task.name = s.task.name)
  · cases hfn : Fn.ofName name with
    | none => trivial
    | some fn =>
      dsimp only
      have h := ih.builtin fn name args np site s
      unfold TrE at h
      cases hr : builtin env f fn name args np site s with
      | ok a s' => rw [hr] at h; exact h
      | err e s' => rw [hr] at h; exact h
      | panic _ => trivial
      | fuel => trivial
      | need _ => trivial

end
end Platypus.ErrPos
