import Platypus.Proofs.Machine
/-!
Step lemmas for C03: each function of the flag machine at fuel `f+1` refines its counterpart of the
outcome semantics, given the refinement of the functions it calls at fuel `f`.
-/
namespace Platypus.MachineProofs
open Platypus Platypus.Sem

/-- the end of every loop iteration of the machine: consume break / continue, test exit -/
def loopTail (env : Env) (K : EM TV) : EM TV := do
  let s ← getS
  if s.task.brk then
    modTask fun t => { t with brk := false }
    return voidTV
  if s.task.cont then modTask fun t => { t with cont := false }
  if (← stmtReturn env) then return voidTV
  K

theorem afterBody_brk (env : Env) (s : St) : afterBody env .brk s = .ok .stop s := rfl
theorem afterBody_exit (env : Env) (s : St) : afterBody env .exit s = .ok .stop s := rfl
theorem afterBody_normal (env : Env) (s : St) :
    afterBody env .normal s = .ok (if pollB env s then .stop else .go) (pollSt env s) := by
  unfold afterBody
  simp only [procExit_apply]
  cases pollB env s <;> rfl
theorem afterBody_cont (env : Env) (s : St) :
    afterBody env .cont s = .ok (if pollB env s then .stop else .go) (pollSt env s) := by
  unfold afterBody
  simp only [procExit_apply]
  cases pollB env s <;> rfl

theorem clearBC_of_brk_false {s : St} (h : s.task.brk = false) :
    ({ s with task := { s.task with cont := false } } : St) = clearBC s := by
  obtain ⟨task, world⟩ := s
  obtain ⟨name, scopes, brk, cont, exit, regs⟩ := task
  simp_all [clearBC]

def clrBrk (s : St) : St := { s with task := { s.task with brk := false } }

theorem loopTail_brk (env : Env) (K : EM TV) {s : St} (h : s.task.brk = true) :
    loopTail env K s = .ok voidTV (clrBrk s) := by
  unfold loopTail
  simp only [bind_apply, getS_apply, rbind_ok, ite_app, modTask_apply, pure_apply]
  rw [if_pos h]
  rfl

theorem loopTail_cont (env : Env) (K : EM TV) {s : St} (hb : s.task.brk = false) (hc : s.task.cont = true) :
    loopTail env K s =
      if pollB env (clearBC s) = true then .ok voidTV (pollSt env (clearBC s)) else K (pollSt env (clearBC s)) := by
  unfold loopTail
  simp only [bind_apply, getS_apply, rbind_ok, ite_app, modTask_apply, pure_apply, stmtReturn_apply]
  rw [if_neg (by simp [hb]), if_pos hc, clearBC_of_brk_false hb]
  simp only [hb, Bool.or_false, Bool.or_self]

theorem loopTail_clr (env : Env) (K : EM TV) {s : St} (h : Clr s) :
    loopTail env K s = if pollB env s = true then .ok voidTV (pollSt env s) else K (pollSt env s) := by
  unfold loopTail
  simp only [bind_apply, getS_apply, rbind_ok, ite_app, modTask_apply, pure_apply, stmtReturn_apply]
  rw [if_neg (by simp [h.1]), if_neg (by simp [h.2])]
  simp [h.1, h.2]

theorem RelP.tail {γ} {g : TV → Out → γ} {P : TV → St → Prop} (env : Env) {KS : EM γ} {KM : EM TV}
    (hP : ∀ s, Clr s → P voidTV s) (hK : Rel g P KS KM) :
    RelP g P (fun o => afterBody env o >>= fun x =>
        match x with
        | .stop => getS >>= fun s => pure (g voidTV (outOfExit s))
        | .go => KS) (loopTail env KM) := by
  -- what happens from a clear state `s'` reached by the poll
  have hpoll : ∀ s', Clr s' →
      (rbind (Res.ok (if pollB env s' = true then After.stop else After.go) (pollSt env s')) fun x =>
        match x with
        | .stop => getS >>= fun s => pure (g voidTV (outOfExit s))
        | .go => KS) =
      absG g (if pollB env s' = true then .ok voidTV (pollSt env s') else KM (pollSt env s')) ∧
      Post P (if pollB env s' = true then .ok voidTV (pollSt env s') else KM (pollSt env s')) := by
    intro s' hs'
    have h2 : Clr (pollSt env s') := pollSt_clr hs'
    cases hp : pollB env s'
    · simpa using hK (pollSt env s') h2
    · simp only [if_true, rbind_ok, bind_apply, getS_apply, pure_apply, absG, Post]
      rw [clearBC_of_clr h2, outOf_of_clr h2]
      exact ⟨rfl, hP _ h2⟩
  intro s hs
  by_cases hb : s.task.brk = true
  · have hc : s.task.cont = false := by
      cases h : s.task.cont
      · rfl
      · exact absurd ⟨hb, h⟩ hs
    have ho : outOf s = .brk := by simp [outOf, hb]
    rw [loopTail_brk env KM hb]
    simp only [ho, afterBody_brk, rbind_ok, bind_apply, getS_apply, pure_apply, absG, Post]
    refine ⟨?_, hP _ ⟨rfl, hc⟩⟩
    have h1 : outOf (clrBrk s) = outOfExit (clearBC s) := by
      show (if false = true then Out.brk else if s.task.cont = true then Out.cont
        else if s.task.exit = true then Out.exit else Out.normal) =
        (if s.task.exit = true then Out.exit else Out.normal)
      rw [hc]
      rfl
    rw [h1]
    rfl
  · have hb' : s.task.brk = false := by simpa using hb
    by_cases hc : s.task.cont = true
    · have ho : outOf s = .cont := by simp [outOf, hb', hc]
      rw [loopTail_cont env KM hb' hc]
      simp only [ho, bind_apply, afterBody_cont]
      exact hpoll _ (clr_clearBC s)
    · have hc' : s.task.cont = false := by simpa using hc
      have hclr : Clr s := ⟨hb', hc'⟩
      rw [loopTail_clr env KM hclr, clearBC_of_clr hclr]
      cases he : s.task.exit
      · have ho : outOf s = .normal := by simp [outOf, hb', hc', he]
        simp only [ho, bind_apply, afterBody_normal]
        exact hpoll _ hclr
      · have ho : outOf s = .exit := by simp [outOf, hb', hc', he]
        simp only [ho, afterBody_exit, rbind_ok, pollB_of_exit env s he, pollSt_of_exit env s he,
          if_true, bind_apply, getS_apply, rbind_ok, pure_apply, absG, Post]
        have h3 : outOfExit s = .exit := by simp [outOfExit, he]
        rw [h3, clearBC_of_clr hclr]
        exact ⟨rfl, hP _ hclr⟩

/-- the poll at a loop head -/
theorem Rel.poll {α γ} {g : α → Out → γ} {P : α → St → Prop} (env : Env) (a : α)
    {KS : EM γ} {KM : EM α} (hP : ∀ s, Clr s → P a s) (hK : Rel g P KS KM) :
    Rel g P (procExit env >>= fun x => if x = true then pure (g a .exit) else KS)
      (procExit env >>= fun x => if x = true then pure a else KM) := by
  intro s hs
  have h2 : Clr (pollSt env s) := pollSt_clr hs
  simp only [bind_apply, procExit_apply, rbind_ok]
  cases hp : pollB env s
  · simpa using hK _ h2
  · simp only [if_true, pure_apply, absG, Post]
    rw [clearBC_of_clr h2, outOf_pollSt_of_clr hs, hp]
    exact ⟨rfl, hP _ h2⟩

theorem Rel.err {α γ} {g : α → Out → γ} {P : α → St → Prop} (p : Pos) (m : String) :
    Rel g P (runErr p m) (runErr p m) := by
  intro s hs
  simp only [runErr_apply, absG, Post]
  rw [clearBC_of_clr hs]
  exact ⟨rfl, hs⟩

theorem Rel.panic_bind {β α γ} {g : α → Out → γ} {P : α → St → Prop} (m : String)
    (KS : β → EM γ) (KM : β → EM α) : Rel g P (panicE m >>= KS) (panicE m >>= KM) :=
  fun _ _ => ⟨rfl, True.intro⟩

section
variable (env : Env) (ev : Node → EM TV)

/-- an optional block in its own scope (if / elif / else arm) -/
theorem ifBlock (f : Nat) (blk : Option (List Node))
    (hb : ∀ b, blk = some b → Rel (fun _ o => o) PNB (semStmts env ev f b) (runStmts env ev f b)) :
    Rel Prod.mk PNB
      (match (generalizing := false) blk with
        | some b => do pushScope; let o ← semStmts env ev f b; popScope; pure (voidTV, o)
        | none => fun s => .ok (voidTV, outOfExit s) s)
      (match (generalizing := false) blk with
        | some b => do pushScope; runStmts env ev f b; popScope; pure voidTV
        | none => pure voidTV) := by
  cases blk with
  | none => exact Rel.ret voidTV (fun s hs => hs.notBoth)
  | some b =>
    exact Rel.bind_same FrameM.pushScope fun _ => Rel.bind (hb b rfl)
      (fun a s hs => RelP.popScope (RelP.ret voidTV (fun s hs => hs)) s hs)

theorem runIfs_nil (f : Nat) (els : Option (List Node))
    (hb : ∀ b, els = some b → Rel (fun _ o => o) PNB (semStmts env ev f b) (runStmts env ev f b)) :
    Rel Prod.mk PNB (semIfs env ev (f+1) [] els) (runIfs env ev (f+1) [] els) := by
  simp only [runIfs, semIfs]
  exact ifBlock env ev f els hb

theorem runIfs_cons (hev : Frame ev) (f : Nat) (c : Node) (blk : Option (List Node)) (p : Pos)
    (rest : List (Node × Option (List Node) × Pos)) (els : Option (List Node))
    (hc : runStmt env ev f c = evF ev f c)
    (hb : ∀ b, blk = some b → Rel (fun _ o => o) PNB (semStmts env ev f b) (runStmts env ev f b))
    (ih : Rel Prod.mk PNB (semIfs env ev f rest els) (runIfs env ev f rest els)) :
    Rel Prod.mk PNB (semIfs env ev (f+1) ((c, blk, p) :: rest) els)
      (runIfs env ev (f+1) ((c, blk, p) :: rest) els) := by
  simp only [runIfs, semIfs, hc]
  exact Rel.bind_same (FrameM.evF hev f c) fun v => Rel.bind_same FrameM.getS fun s =>
    Rel.ite _ (ifBlock env ev f blk hb) ih

theorem runStmt_ifelse (f : Nat) (ifs : List (Node × Option (List Node) × Pos)) (els : Option (List Node))
    (p : Pos) (h : Rel Prod.mk PNB (semIfs env ev f ifs els) (runIfs env ev f ifs els)) :
    Rel Prod.mk PNB (semStmt env ev (f+1) (.ifelse ifs els p)) (runStmt env ev (f+1) (.ifelse ifs els p)) := by
  simp only [runStmt, semStmt]
  exact Rel.finally (fun _ _ h => h) (Rel.bind_same FrameM.pushScope fun _ => h)

theorem runStmt_forS (hev : Frame ev) (f : Nat) (ini c l : Option Node) (body : Option (List Node)) (p : Pos)
    (hi : ∀ i, ini = some i → runStmt env ev f i = evF ev f i)
    (h : Rel (fun _ o => o) PVoid (semFor env ev f c l body) (forLoop env ev f c l body)) :
    Rel Prod.mk PNB (semStmt env ev (f+1) (.forS ini c l body p))
      (runStmt env ev (f+1) (.forS ini c l body p)) := by
  simp only [runStmt, semStmt]
  refine Rel.finally (fun _ _ h => h) (Rel.bind_same FrameM.pushScope fun _ => ?_)
  cases ini with
  | none =>
    exact Rel.withVoid h (fun _ _ hs => hs.notBoth)
  | some i =>
    simp only [hi i rfl]
    exact Rel.bind_same (FrameM.evF hev f i) fun _ => Rel.withVoid h (fun _ _ hs => hs.notBoth)

theorem runStmt_forIn (hev : Frame ev) (f : Nat) (var iter : Node) (body : Option (List Node)) (p1 p2 : Pos)
    (hi : runStmt env ev f iter = evF ev f iter)
    (h : ∀ it, Rel Prod.mk PClr (semForIn env ev f var it (Node.start iter) body)
      (forIn env ev f var it (Node.start iter) body)) :
    Rel Prod.mk PNB (semStmt env ev (f+1) (.forIn var iter body p1 p2))
      (runStmt env ev (f+1) (.forIn var iter body p1 p2)) := by
  simp only [runStmt, semStmt, hi]
  exact Rel.finally (fun _ _ h => h) (Rel.bind_same FrameM.pushScope fun _ =>
    Rel.bind_same (FrameM.evF hev f iter) fun it =>
      Rel.finally (fun _ _ h => h) (Rel.bind_same FrameM.pushScope fun _ =>
        (h it).mono (fun _ _ hs => hs.notBoth)))

theorem runStmt_brk (f : Nat) (p : Pos) :
    Rel Prod.mk PNB (semStmt env ev (f+1) (.brk p)) (runStmt env ev (f+1) (.brk p)) := by
  intro s hs
  simp only [runStmt, semStmt, bind_apply, modTask_apply, rbind_ok, pure_apply, absG, Post]
  refine ⟨?_, ?_⟩
  · have h1 : clearBC ({ s with task := { s.task with brk := true } } : St) = s := by
      rw [← clearBC_of_clr hs]; rfl
    rw [h1]
    rfl
  · intro h
    have := h.2
    rw [show ({ s with task := { s.task with brk := true } } : St).task.cont = s.task.cont from rfl, hs.2] at this
    exact Bool.noConfusion this

theorem runStmt_cont (f : Nat) (p : Pos) :
    Rel Prod.mk PNB (semStmt env ev (f+1) (.cont p)) (runStmt env ev (f+1) (.cont p)) := by
  intro s hs
  simp only [runStmt, semStmt, bind_apply, modTask_apply, rbind_ok, pure_apply, absG, Post]
  refine ⟨?_, ?_⟩
  · have h1 : clearBC ({ s with task := { s.task with cont := true } } : St) = s := by
      rw [← clearBC_of_clr hs]; rfl
    have h2 : outOf ({ s with task := { s.task with cont := true } } : St) = .cont := by
      show (if s.task.brk = true then Out.brk else if true = true then Out.cont
        else if s.task.exit = true then Out.exit else Out.normal) = Out.cont
      rw [hs.1]; rfl
    rw [h1, h2]
  · intro h
    have := h.1
    rw [show ({ s with task := { s.task with cont := true } } : St).task.brk = s.task.brk from rfl, hs.1] at this
    exact Bool.noConfusion this

theorem runStmt_expr (hev : Frame ev) (f : Nat) (e : Node)
    (h1 : runStmt env ev (f+1) e = ev e)
    (h2 : semStmt env ev (f+1) e = (do let v ← ev e; let s ← getS; pure (v, outOfExit s))) :
    Rel Prod.mk PNB (semStmt env ev (f+1) e) (runStmt env ev (f+1) e) := by
  rw [h1, h2]
  exact Rel.same (hev e) (fun _ _ hs => hs.notBoth)

theorem forLoop_step (hev : Frame ev) (f : Nat) (c l : Option Node) (body : Option (List Node))
    (hc : ∀ cn, c = some cn → runStmt env ev f cn = evF ev f cn)
    (hl : ∀ ln, l = some ln → runStmt env ev f ln = evF ev f ln)
    (hb : ∀ b, body = some b → Rel (fun _ o => o) PNB (semStmts env ev f b) (runStmts env ev f b))
    (ih : Rel (fun _ o => o) PVoid (semFor env ev f c l body) (forLoop env ev f c l body)) :
    Rel (fun _ o => o) PVoid (semFor env ev (f+1) c l body) (forLoop env ev (f+1) c l body) := by
  have hK : Rel (fun _ o => o) PVoid
      (match (generalizing := false) l with
        | some ln => do let _ ← evF ev f ln; semFor env ev f c l body
        | none => semFor env ev f c l body)
      (match (generalizing := false) l with
        | some ln => do let _ ← runStmt env ev f ln; forLoop env ev f c l body
        | none => forLoop env ev f c l body) := by
    cases l with
    | none => exact ih
    | some ln =>
      simp only [hl ln rfl]
      exact Rel.bind_same (FrameM.evF hev f ln) (fun _ => ih)
  have hT := RelP.tail env (g := fun (_ : TV) o => o) (P := PVoid) (fun s hs => ⟨rfl, hs⟩) hK
  simp only [forLoop, semFor]
  refine Rel.poll env voidTV (fun s hs => ⟨rfl, hs⟩) ?_
  refine Rel.bind_congr ?_ ?_ (fun go => Rel.ite _ (Rel.ret' voidTV (fun s hs => ⟨rfl, hs⟩)) ?_)
  · cases c with
    | none => exact FrameM.ret true
    | some cn => exact FrameM.bind (FrameM.evF hev f cn) fun v => FrameM.bind FrameM.getS fun s => FrameM.ret _
  · cases c with
    | none => rfl
    | some cn => simp only [hc cn rfl]
  cases body with
  | none =>
    exact RelP.toRel hT
  | some b =>
    simp only [em_bind_assoc, em_pure_bind]
    refine Rel.bind_same FrameM.pushScope fun _ => Rel.bind (hb b rfl) ?_
    intro a s hs
    exact RelP.popScope hT s hs

theorem runStmts_nil (f : Nat) :
    Rel (fun _ o => o) PNB (semStmts env ev (f+1) []) (runStmts env ev (f+1) []) := by
  simp only [runStmts, semStmts]
  exact Rel.ret () (fun s hs => hs.notBoth)

/-- with a flag pending (or exit set) a block does not start another statement -/
theorem runStmts_pending (k : Nat) (rest : List Node) (s : St)
    (h : s.task.brk = true ∨ s.task.cont = true ∨ s.task.exit = true) :
    runStmts env ev (k+1) rest s = match rest with
      | [] => .ok () s
      | _ :: _ => .ok () (pollSt env s) := by
  cases rest with
  | nil => simp only [runStmts, pure_apply]
  | cons y r =>
    have hb : (pollB env s || (s.task.brk || s.task.cont)) = true := by
      rcases h with h | h | h
      · simp [h]
      · simp [h]
      · simp [pollB_of_exit env s h]
    simp only [runStmts, stmtReturn_apply, hb]

theorem notBoth_pollSt {s : St} (h : NotBoth s) : NotBoth (pollSt env s) := by
  unfold NotBoth
  rw [pollSt_brk, pollSt_cont]
  exact h

theorem runStmts_cons (f : Nat) (n : Node) (rest : List Node)
    (hn : Rel Prod.mk PNB (semStmt env ev f n) (runStmt env ev f n))
    (hr : Rel (fun _ o => o) PNB (semStmts env ev f rest) (runStmts env ev f rest)) :
    Rel (fun _ o => o) PNB (semStmts env ev (f+1) (n :: rest)) (runStmts env ev (f+1) (n :: rest)) := by
  intro s hs
  have h1 : Clr (pollSt env s) := pollSt_clr hs
  simp only [semStmts, runStmts, procExit_apply, stmtReturn_apply, hs.1, hs.2, Bool.or_false]
  cases hp : pollB env s
  · simp only []
    obtain ⟨e1, e2⟩ := hn _ h1
    rw [e1]
    cases hB : runStmt env ev f n (pollSt env s) with
    | ok v s2 =>
      rw [hB] at e2
      have e2' : NotBoth s2 := e2
      cases f with
      | zero => simp [runStmt, outOfFuel] at hB
      | succ k =>
      rw [show absG Prod.mk (Res.ok v s2) = Res.ok (v, outOf s2) (clearBC s2) from rfl]
      simp only []
      by_cases hb : s2.task.brk = true
      · have ho : outOf s2 = .brk := by simp [outOf, hb]
        have ho' : outOf (pollSt env s2) = .brk := by simp [outOf, pollSt_brk, hb]
        rw [ho, runStmts_pending env ev k rest s2 (Or.inl hb)]
        cases rest with
        | nil => simp only [absG, Post, ho]; exact ⟨trivial, e2'⟩
        | cons y r =>
          simp only [absG, Post, ho', pollSt_clearBC]
          exact ⟨trivial, notBoth_pollSt env e2'⟩
      · have hb' : s2.task.brk = false := by simpa using hb
        by_cases hc : s2.task.cont = true
        · have ho : outOf s2 = .cont := by simp [outOf, hb', hc]
          have ho' : outOf (pollSt env s2) = .cont := by simp [outOf, pollSt_brk, pollSt_cont, hb', hc]
          rw [ho, runStmts_pending env ev k rest s2 (Or.inr (Or.inl hc))]
          cases rest with
          | nil => simp only [absG, Post, ho]; exact ⟨trivial, e2'⟩
          | cons y r =>
            simp only [absG, Post, ho', pollSt_clearBC]
            exact ⟨trivial, notBoth_pollSt env e2'⟩
        · have hc' : s2.task.cont = false := by simpa using hc
          have hclr : Clr s2 := ⟨hb', hc'⟩
          rw [clearBC_of_clr hclr]
          cases he : s2.task.exit
          · have ho : outOf s2 = .normal := by simp [outOf, hb', hc', he]
            rw [ho]
            exact hr s2 hclr
          · have ho : outOf s2 = .exit := by simp [outOf, hb', hc', he]
            rw [ho, runStmts_pending env ev k rest s2 (Or.inr (Or.inr he))]
            cases rest with
            | nil => simp only [absG, Post, ho, clearBC_of_clr hclr]; exact ⟨trivial, e2'⟩
            | cons y r =>
              simp only [absG, Post, pollSt_of_exit env s2 he, ho, clearBC_of_clr hclr]
              exact ⟨trivial, e2'⟩
    | err e s2 =>
      rw [hB] at e2
      have e2' : Clr s2 := e2
      simp only [absG, Post]
      exact ⟨rfl, e2'⟩
    | panic m => exact ⟨rfl, True.intro⟩
    | fuel => exact ⟨rfl, True.intro⟩
    | need q => exact ⟨rfl, True.intro⟩
  · simp only [absG, Post]
    rw [clearBC_of_clr h1, outOf_pollSt_of_clr hs, hp]
    exact ⟨rfl, h1.notBoth⟩

theorem forInStr_nil (f : Nat) (var : Node) (body : Option (List Node)) :
    Rel Prod.mk PClr (semForInStr env ev (f+1) var [] body) (forInStr env ev (f+1) var [] body) := by
  simp only [forInStr, semForInStr]
  exact Rel.ret voidTV (fun s hs => hs)

theorem forInStr_cons (f : Nat) (var : Node) (r : Bytes) (rest : List Bytes) (body : Option (List Node))
    (hb : ∀ b, body = some b → Rel (fun _ o => o) PNB (semStmts env ev f b) (runStmts env ev f b))
    (ih : Rel Prod.mk PClr (semForInStr env ev f var rest body) (forInStr env ev f var rest body)) :
    Rel Prod.mk PClr (semForInStr env ev (f+1) var (r :: rest) body)
      (forInStr env ev (f+1) var (r :: rest) body) := by
  have hT := RelP.tail env (g := Prod.mk) (P := PClr) (fun s hs => hs) ih
  cases var
  case ident name p =>
    simp only [forInStr, semForInStr]
    cases body with
    | none =>
      exact Rel.bind_same (FrameM.setVarb _ _) fun _ => RelP.toRel (RelP.clearScope hT)
    | some b =>
      exact Rel.bind_same (FrameM.setVarb _ _) fun _ => Rel.bind (hb b rfl)
        (fun a s hs => RelP.clearScope hT s hs)
  all_goals
    simp only [forInStr, semForInStr]
    exact Rel.ret' _ (fun s hs => hs)

theorem forInItems_step (f : Nat) (var : Node) (pos : Pos) (body : Option (List Node))
    (hb : ∀ b, body = some b → Rel (fun _ o => o) PNB (semStmts env ev f b) (runStmts env ev f b))
    (ih : ∀ items live, Rel Prod.mk PClr (semForInItems env ev f var pos items live body)
      (forInItems env ev f var pos items live body))
    (items : List TV) (live : Option (Nat × Nat × Nat)) :
    Rel Prod.mk PClr (semForInItems env ev (f+1) var pos items live body)
      (forInItems env ev (f+1) var pos items live body) := by
  cases var
  case ident name p =>
    simp only [forInItems, semForInItems]
    refine Rel.bind_same ?_ (fun next => ?_)
    · cases live with
      | none =>
        cases items with
        | nil => exact FrameM.ret _
        | cons x r => exact FrameM.ret _
      | some t =>
        obtain ⟨a, i, n⟩ := t
        simp only []
        split
        · exact FrameM.bind FrameM.getS fun st => FrameM.ret _
        · exact FrameM.ret _
    · cases next with
      | none => exact Rel.ret' voidTV (fun s hs => hs)
      | some t =>
        obtain ⟨x, items', live'⟩ := t
        have hT := RelP.tail env (g := Prod.mk) (P := PClr) (fun s hs => hs) (ih items' live')
        refine Rel.bind_same FrameM.clearScope fun _ => Rel.ite _ (Rel.err _ _) ?_
        cases body with
        | none => exact Rel.bind_same (FrameM.setVarb _ _) fun _ => RelP.toRel hT
        | some b =>
          exact Rel.bind_same (FrameM.setVarb _ _) fun _ => Rel.bind (hb b rfl) (fun a s hs => hT s hs)
  all_goals
    simp only [forInItems, semForInItems]
    refine Rel.bind_same ?_ (fun next => ?_)
    · cases live with
      | none =>
        cases items with
        | nil => exact FrameM.ret _
        | cons x r => exact FrameM.ret _
      | some t =>
        obtain ⟨a, i, n⟩ := t
        simp only []
        split
        · exact FrameM.bind FrameM.getS fun st => FrameM.ret _
        · exact FrameM.ret _
    · cases next with
      | none => exact Rel.ret' voidTV (fun s hs => hs)
      | some t =>
        obtain ⟨x, items', live'⟩ := t
        exact Rel.bind_same FrameM.clearScope fun _ => Rel.ite _ (Rel.err _ _) (Rel.panic_bind _ _ _)

theorem forIn_step (f : Nat) (var : Node) (it : TV) (pos : Pos) (body : Option (List Node))
    (hS : ∀ rs, Rel Prod.mk PClr (semForInStr env ev f var rs body) (forInStr env ev f var rs body))
    (hI : ∀ items live, Rel Prod.mk PClr (semForInItems env ev f var pos items live body)
      (forInItems env ev f var pos items live body)) :
    Rel Prod.mk PClr (semForIn env ev (f+1) var it pos body) (Platypus.forIn env ev (f+1) var it pos body) := by
  obtain ⟨v, t⟩ := it
  cases t <;> simp only [Platypus.forIn, semForIn] <;> try exact Rel.err _ _
  · -- str
    cases v <;> simp only [] <;> first | exact Rel.err _ _ | exact hS _
  · -- list
    refine Rel.bind_same FrameM.getS fun st => ?_
    cases v <;> simp only [] <;> try exact Rel.err _ _
    rename_i a
    cases h : st.world.heap.get? a with
    | none => exact Rel.err _ _
    | some o => cases o <;> simp only [] <;> first | exact Rel.err _ _ | exact hI _ _
  · -- map
    refine Rel.bind_same FrameM.getS fun st => ?_
    cases v <;> simp only [] <;> try exact Rel.err _ _
    rename_i a
    cases h : st.world.heap.get? a with
    | none => exact Rel.err _ _
    | some o =>
      cases o <;> simp only [] <;>
        first | exact Rel.err _ _ | exact Rel.bind_same (FrameM.modWorld _) fun _ => hI _ _
end

end Platypus.MachineProofs
