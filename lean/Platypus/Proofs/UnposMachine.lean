import Platypus.Proofs.UnposSim
/-!
# Layout independence, helper 2: the statement machine

For any two expression evaluators `ev`, `ev'` with `Sim (ev n) (ev' (unpos n))` for every node, the
machine functions (`runStmt`, `runStmts`, `runIfs`, `forLoop`, `forIn`, `forInStr`, `forInItems`) on a
tree and on the position-free tree are similar.  Positions only reach `runErr` (`iterPos`).
-/
set_option linter.unusedVariables false
namespace Platypus.LayoutSemantics
open Platypus Platypus.FrontEnd Platypus.MachineProofs

/-- similarity of the machine functions at fuel `g` -/
structure MSim (env : Env) (ev ev' : Node → EM TV) (g : Nat) : Prop where
  stmt : ∀ n, Sim (runStmt env ev g n) (runStmt (unposEnv env) ev' g (unpos n))
  stmts : ∀ l, Sim (runStmts env ev g l) (runStmts (unposEnv env) ev' g (unposL l))
  ifs : ∀ ifs els, Sim (runIfs env ev g ifs els) (runIfs (unposEnv env) ev' g (unposIfs ifs) (unposOB els))
  loop : ∀ c l body, Sim (forLoop env ev g c l body)
    (forLoop (unposEnv env) ev' g (unposO c) (unposO l) (unposOB body))
  forIn : ∀ var it pos pos' body, Sim (Platypus.forIn env ev g var it pos body)
    (Platypus.forIn (unposEnv env) ev' g (unpos var) it pos' (unposOB body))
  forStr : ∀ var rs body, Sim (forInStr env ev g var rs body)
    (forInStr (unposEnv env) ev' g (unpos var) rs (unposOB body))
  forItems : ∀ var pos pos' items live body, Sim (forInItems env ev g var pos items live body)
    (forInItems (unposEnv env) ev' g (unpos var) pos' items live (unposOB body))

theorem pollB_unposEnv (env : Env) : pollB (unposEnv env) = pollB env := rfl
theorem pollSt_unposEnv (env : Env) : pollSt (unposEnv env) = pollSt env := rfl

section
variable {env : Env} {ev ev' : Node → EM TV}

theorem msim_zero : MSim env ev ev' 0 := by
  refine ⟨?_, ?_, ?_, ?_, ?_, ?_, ?_⟩ <;> intros <;> intro s
  · rw [runStmt, runStmt]; exact True.intro
  · rw [runStmts, runStmts]; exact True.intro
  · rw [runIfs, runIfs]; exact True.intro
  · rw [forLoop, forLoop]; exact True.intro
  · rw [Platypus.forIn, Platypus.forIn]; exact True.intro
  · rw [forInStr, forInStr]; exact True.intro
  · rw [forInItems, forInItems]; exact True.intro

variable (hev : ∀ n, Sim (ev n) (ev' (unpos n)))
include hev

theorem runStmt_sim_step {g : Nat} (ih : MSim env ev ev' g) (n : Node) :
    Sim (runStmt env ev (g+1) n) (runStmt (unposEnv env) ev' (g+1) (unpos n)) := by
  have h1 := ih.stmt
  have h2 := ih.ifs
  have h3 := ih.loop
  have h4 := ih.forIn
  cases n
  case ifelse ifs els p => simp only [runStmt, unpos]; sim_tac
  case forS i c l b p => cases i <;> simp only [runStmt, unpos, unposO] <;> sim_tac
  case forIn v it b fp ip => simp only [runStmt, unpos]; sim_tac
  case brk p => simp only [runStmt, unpos]; sim_tac
  case cont p => simp only [runStmt, unpos]; sim_tac
  all_goals
    simp only [runStmt]
    exact hev _

omit hev in
theorem runStmts_sim_step {g : Nat} (ih : MSim env ev ev' g) (l : List Node) :
    Sim (runStmts env ev (g+1) l) (runStmts (unposEnv env) ev' (g+1) (unposL l)) := by
  cases l with
  | nil => simp only [runStmts, unposL]; exact Sim.refl _
  | cons n rest =>
    intro s
    simp only [runStmts, unposL, stmtReturn_apply, pollB_unposEnv, pollSt_unposEnv]
    cases (pollB env s || (s.task.brk || s.task.cont)) with
    | true => exact ResSim.refl _
    | false =>
      simp only []
      rcases (ih.stmt n (pollSt env s)).cases with ⟨a, s', h1, h2⟩ | ⟨e, e', s', h1, h2, he⟩ | ⟨h1, h2, h3⟩
      · rw [h1, h2]; exact ih.stmts rest s'
      · rw [h1, h2]; exact ⟨he, rfl⟩
      · rw [← h1]
        cases h : runStmt env ev g n (pollSt env s) with
        | ok a s' => exact absurd h (h2 a s')
        | err e s' => exact absurd h (h3 e s')
        | panic m => exact rfl
        | fuel => exact True.intro
        | need q => exact rfl

omit hev in
theorem runIfs_sim_step {g : Nat} (ih : MSim env ev ev' g)
    (ifs : List (Node × Option (List Node) × Pos)) (els : Option (List Node)) :
    Sim (runIfs env ev (g+1) ifs els) (runIfs (unposEnv env) ev' (g+1) (unposIfs ifs) (unposOB els)) := by
  have h1 := ih.stmt
  have h2 := ih.stmts
  cases ifs with
  | nil => cases els <;> simp only [runIfs, unposIfs, unposOB] <;> sim_tac
  | cons x rest =>
    obtain ⟨c, blk, p⟩ := x
    have h3 := ih.ifs rest els
    cases blk <;> simp only [runIfs, unposIfs, unposOB] <;> sim_tac

omit hev in
theorem forLoop_sim_step {g : Nat} (ih : MSim env ev ev' g) (c l : Option Node) (body : Option (List Node)) :
    Sim (forLoop env ev (g+1) c l body)
      (forLoop (unposEnv env) ev' (g+1) (unposO c) (unposO l) (unposOB body)) := by
  have h1 := ih.stmt
  have h2 := ih.stmts
  have h3 := ih.loop c l body
  cases c <;> cases l <;> cases body <;>
    simp only [forLoop, unposO, unposOB, procExit_unposEnv, stmtReturn_unposEnv] <;> sim_tac

omit hev in
theorem forIn_sim_step {g : Nat} (ih : MSim env ev ev' g) (var : Node) (it : TV) (pos pos' : Pos)
    (body : Option (List Node)) :
    Sim (Platypus.forIn env ev (g+1) var it pos body)
      (Platypus.forIn (unposEnv env) ev' (g+1) (unpos var) it pos' (unposOB body)) := by
  have h1 := ih.forStr
  have h2 := ih.forItems
  simp only [Platypus.forIn, unposEnv_mapOrder]
  sim_tac

omit hev in
theorem forInStr_sim_step {g : Nat} (ih : MSim env ev ev' g) (var : Node) (rs : List Bytes)
    (body : Option (List Node)) :
    Sim (forInStr env ev (g+1) var rs body) (forInStr (unposEnv env) ev' (g+1) (unpos var) rs (unposOB body)) := by
  have h1 := ih.stmts
  cases rs with
  | nil => simp only [forInStr]; exact Sim.refl _
  | cons r rest =>
    have h2 := ih.forStr var rest body
    cases var <;> cases body <;> simp only [forInStr, unpos, unposOB, stmtReturn_unposEnv] at h2 ⊢ <;> sim_tac

set_option maxHeartbeats 800000 in
omit hev in
theorem forInItems_sim_step {g : Nat} (ih : MSim env ev ev' g) (var : Node) (pos pos' : Pos) (items : List TV)
    (live : Option (Nat × Nat × Nat)) (body : Option (List Node)) :
    Sim (forInItems env ev (g+1) var pos items live body)
      (forInItems (unposEnv env) ev' (g+1) (unpos var) pos' items live (unposOB body)) := by
  have h1 := ih.stmts
  have h2 := fun items live => ih.forItems var pos pos' items live body
  cases var <;> cases body <;> simp only [forInItems, unpos, unposOB, stmtReturn_unposEnv] at h2 ⊢ <;> sim_tac

theorem msim_succ {g : Nat} (ih : MSim env ev ev' g) : MSim env ev ev' (g+1) :=
  ⟨runStmt_sim_step hev ih, runStmts_sim_step ih, runIfs_sim_step ih, forLoop_sim_step ih,
    forIn_sim_step ih, forInStr_sim_step ih, forInItems_sim_step ih⟩

theorem msim_all : ∀ g, MSim env ev ev' g
  | 0 => msim_zero
  | g+1 => msim_succ hev (msim_all g)

end
end Platypus.LayoutSemantics
