import Platypus.Proofs.ElabDefs
import Platypus.Proofs.ElabInv
import Platypus.Properties.C03Scope
import Platypus.Properties.C14PrefixV2
/-!
# Front end, helper 4: elaboration maps grammar-shaped parser trees to grammar-shaped `Node`s

`GStmt`: the strongest shape on `Node` (expression slots `SFree`, blocks of `GStmt`).  It implies the
three shape predicates of the evaluator theorems: `C03.Prog`, `C03.Shaped`, and acceptance by the
Boolean checker `stmtOk2` for every large enough recursion depth (`C14V2.NoStmtInExpr`).
`toNode_sfreeAux`, `toNode_gstmtAux`: elaboration of `exprOk` / `stmtOk` trees.
-/
set_option linter.unusedVariables false
namespace Platypus.FrontEnd
open Platypus Platypus.Elab Platypus.ParsePos Platypus.Parse Platypus.ScopeProofs

theorem numNode_sfree {c neg v p x} (h : numNode c neg v p = some x) : SFree x := by
  unfold numNode at h
  split at h
  · cases h; exact .intLit _ _
  · split at h
    · cases h; exact .floatLit _ _
    · cases h
  · cases h

theorem mkBinNode_sfree {op l r p} (hl : SFree l) (hr : SFree r) : SFree (mkBinNode op l r p) := by
  cases op <;> simp only [mkBinNode] <;>
    first | exact .arith _ _ hl hr | exact .cond _ _ hl hr | exact .inE _ hl hr

mutual
theorem toNode_sfreeAux (c : Cfg) : ∀ (p : PP) (n : Nat) (x : Node) (n' : Nat),
    exprOk p = true → toNode c p n = some (x, n') → SFree x
  | .ident q v p, n, x, n', _, h => by
    obtain ⟨nm, _, rfl, _⟩ := toNode_ident_inv h; exact .ident _ _
  | .num neg v p k, n, x, n', _, h => numNode_sfree (toNode_num_inv h).1
  | .str m v p, n, x, n', _, h => by
    obtain ⟨b, _, rfl, _⟩ := toNode_str_inv h; exact .strLit _ _
  | .bool b p, n, x, n', _, h => by
    obtain ⟨rfl, _⟩ := toNode_bool_inv h; exact .boolLit _ _
  | .nil p k, n, x, n', _, h => by
    obtain ⟨rfl, _⟩ := toNode_nil_inv h; exact .nilLit _
  | .list xs lb rb, n, x, n', he, h => by
    obtain ⟨ys, h1, rfl⟩ := toNode_list_inv h
    simp only [exprOk] at he
    exact .list _ _ (toNodes_sfreeAux c xs n ys n' he h1)
  | .map kvs lb rb, n, x, n', he, h => by
    obtain ⟨ys, h1, rfl⟩ := toNode_map_inv h
    simp only [exprOk] at he
    have := toNodeKV_sfreeAux c kvs n ys n' he h1
    exact .map _ _ (fun kv hkv => (this kv hkv).1) (fun kv hkv => (this kv hkv).2)
  | .paren e lp rp, n, x, n', he, h => by
    obtain ⟨y, h1, rfl⟩ := toNode_paren_inv h
    simp only [exprOk] at he
    exact .paren _ _ (toNode_sfreeAux c e n y n' he h1)
  | .attr o a p, n, x, n', _, h => by
    obtain ⟨y, n1, z, _, _, rfl⟩ := toNode_attr_inv h
    exact .attr _ _ _
  | .index obj idx lbs rbs, n, x, n', he, h => by
    obtain ⟨o, ys, _, h1, rfl⟩ := toNode_index_inv h
    simp only [exprOk] at he
    exact .index _ _ _ (toNodes_sfreeAux c idx n ys n' he h1)
  | .unary op e p, n, x, n', he, h => by
    obtain ⟨y, h1, rfl⟩ := toNode_unary_inv h
    simp only [exprOk] at he
    exact .unary _ _ (toNode_sfreeAux c e n y n' he h1)
  | .bin op l r p, n, x, n', he, h => by
    obtain ⟨y, n1, z, h1, h2, rfl⟩ := toNode_bin_inv h
    simp only [exprOk, Bool.and_eq_true] at he
    exact mkBinNode_sfree (toNode_sfreeAux c l n y n1 he.1 h1) (toNode_sfreeAux c r n1 z n' he.2 h2)
  | .assign op l r p, n, x, n', he, h => by
    obtain ⟨ys, n1, zs, h1, h2, rfl⟩ := toNode_assign_inv h
    simp only [exprOk, Bool.and_eq_true] at he
    exact .assign _ _ (toNodes_sfreeAux c l n ys n1 he.1 h1) (toNodes_sfreeAux c r n1 zs n' he.2 h2)
  | .call q v args np lp rp, n, x, n', he, h => by
    obtain ⟨nm, ys, _, h1, rfl⟩ := toNode_call_inv h
    simp only [exprOk] at he
    exact .call _ _ _ _ _ (toNodes_sfreeAux c args (n+1) ys n' he h1)
  | .slice o a b s c2 lb rb, n, x, n', he, h => by
    obtain ⟨y, n1, a', n2, b', n3, s', h0, h1, h2, h3, rfl⟩ := toNode_slice_inv h
    simp only [exprOk, Bool.and_eq_true] at he
    exact .slice _ _ _ (toNode_sfreeAux c o n y n1 he.1.1.1 h0) (toNodeO_sfreeAux c a n1 a' n2 he.1.1.2 h1)
      (toNodeO_sfreeAux c b n2 b' n3 he.1.2 h2) (toNodeO_sfreeAux c s n3 s' n' he.2 h3)
  | .ifelse _ _, _, _, _, he, _ => by simp [exprOk] at he
  | .forS _ _ _ _ _, _, _, _, he, _ => by simp [exprOk] at he
  | .forIn _ _ _ _ _, _, _, _, he, _ => by simp [exprOk] at he
  | .brk _, _, _, _, he, _ => by simp [exprOk] at he
  | .cont _, _, _, _, he, _ => by simp [exprOk] at he

theorem toNodes_sfreeAux (c : Cfg) : ∀ (ps : List PP) (n : Nat) (xs : List Node) (n' : Nat),
    exprOkL ps = true → toNodes c ps n = some (xs, n') → ∀ x ∈ xs, SFree x
  | [], n, xs, n', _, h => by
    obtain ⟨rfl, _⟩ := toNodes_nil_inv h; intro x hx; cases hx
  | p :: r, n, xs, n', he, h => by
    obtain ⟨y, n1, ys, h1, h2, rfl⟩ := toNodes_cons_inv h
    simp only [exprOkL, Bool.and_eq_true] at he
    intro x hx
    rcases List.mem_cons.1 hx with rfl | hx
    · exact toNode_sfreeAux c p n _ n1 he.1 h1
    · exact toNodes_sfreeAux c r n1 ys n' he.2 h2 x hx

theorem toNodeO_sfreeAux (c : Cfg) : ∀ (o : Option PP) (n : Nat) (o' : Option Node) (n' : Nat),
    exprOkO o = true → toNodeO c o n = some (o', n') → ∀ e, o' = some e → SFree e
  | none, n, o', n', _, h => by
    obtain ⟨rfl, _⟩ := toNodeO_none_inv h; intro e he; cases he
  | some p, n, o', n', he, h => by
    obtain ⟨y, h1, rfl⟩ := toNodeO_some_inv h
    simp only [exprOkO] at he
    intro e hE; cases hE
    exact toNode_sfreeAux c p n _ n' he h1

theorem toNodeKV_sfreeAux (c : Cfg) : ∀ (kvs : List (PP × PP)) (n : Nat) (xs : List (Node × Node)) (n' : Nat),
    exprOkKV kvs = true → toNodeKV c kvs n = some (xs, n') → ∀ kv ∈ xs, SFree kv.1 ∧ SFree kv.2
  | [], n, xs, n', _, h => by
    obtain ⟨rfl, _⟩ := toNodeKV_nil_inv h; intro x hx; cases hx
  | (k, v) :: r, n, xs, n', he, h => by
    obtain ⟨k', n1, v', n2, ys, h1, h2, h3, rfl⟩ := toNodeKV_cons_inv h
    simp only [exprOkKV, Bool.and_eq_true] at he
    intro x hx
    rcases List.mem_cons.1 hx with rfl | hx
    · exact ⟨toNode_sfreeAux c k n _ n1 he.1.1 h1, toNode_sfreeAux c v n1 _ n2 he.1.2 h2⟩
    · exact toNodeKV_sfreeAux c r n2 ys n' he.2 h3 x hx
end

/-! ### statements -/

/-- grammar-shaped statements: every expression slot is statement-free, blocks are grammar-shaped -/
inductive GStmt : Node → Prop
  | expr {e} : SFree e → GStmt e
  | brk (p) : GStmt (.brk p)
  | cont (p) : GStmt (.cont p)
  | ifelse {ifs : List (Node × Option (List Node) × Pos)} {els : Option (List Node)} (p) :
      (∀ x ∈ ifs, SFree x.1) → (∀ x ∈ ifs, ∀ blk, x.2.1 = some blk → ∀ n ∈ blk, GStmt n) →
      (∀ blk, els = some blk → ∀ n ∈ blk, GStmt n) → GStmt (.ifelse ifs els p)
  | forS {ini c l : Option Node} {body : Option (List Node)} (p) :
      (∀ n, ini = some n → SFree n) → (∀ n, c = some n → SFree n) → (∀ n, l = some n → SFree n) →
      (∀ blk, body = some blk → ∀ n ∈ blk, GStmt n) → GStmt (.forS ini c l body p)
  | forIn {var iter} {body : Option (List Node)} (p1 p2) :
      SFree var → SFree iter → (∀ blk, body = some blk → ∀ n ∈ blk, GStmt n) →
      GStmt (.forIn var iter body p1 p2)

mutual
theorem toNode_gstmtAux (c : Cfg) : ∀ (p : PP) (n : Nat) (x : Node) (n' : Nat),
    stmtOk p = true → toNode c p n = some (x, n') → GStmt x
  | .ifelse ifs none, n, x, n', he, h => by
    obtain ⟨is, h1, rfl⟩ := toNode_ifelse_none_inv h
    simp only [stmtOk, Bool.and_eq_true] at he
    have := toNodeIfs_gstmtAux c ifs n is n' he.1 h1
    exact .ifelse _ (fun x hx => (this x hx).1) (fun x hx => (this x hx).2) (by intro b hb; cases hb)
  | .ifelse ifs (some (ep, b)), n, x, n', he, h => by
    obtain ⟨is, n1, bs, h1, h2, rfl⟩ := toNode_ifelse_some_inv h
    simp only [stmtOk, elsOk, Bool.and_eq_true] at he
    have := toNodeIfs_gstmtAux c ifs n is n1 he.1 h1
    have hb := toNodes_gstmtAux c b n1 bs n' he.2 h2
    exact .ifelse _ (fun x hx => (this x hx).1) (fun x hx => (this x hx).2)
      (by intro b' hb'; cases hb'; exact hb)
  | .forS i cd l b p, n, x, n', he, h => by
    obtain ⟨i', n1, c', n2, l', n3, b', h0, h1, h2, h3, rfl⟩ := toNode_forS_inv h
    simp only [stmtOk, Bool.and_eq_true] at he
    exact .forS _ (toNodeO_sfreeAux c i n i' n1 he.1.1.1 h0) (toNodeO_sfreeAux c cd n1 c' n2 he.1.1.2 h1)
      (toNodeO_sfreeAux c l n2 l' n3 he.1.2 h2)
      (by intro b'' hb''; cases hb''; exact toNodes_gstmtAux c b n3 b' n' he.2 h3)
  | .forIn v it b fp ip, n, x, n', he, h => by
    obtain ⟨v', n1, it', n2, b', h0, h1, h2, rfl⟩ := toNode_forIn_inv h
    simp only [stmtOk, Bool.and_eq_true] at he
    exact .forIn _ _ (toNode_sfreeAux c v n v' n1 he.1.1 h0) (toNode_sfreeAux c it n1 it' n2 he.1.2 h1)
      (by intro b'' hb''; cases hb''; exact toNodes_gstmtAux c b n2 b' n' he.2 h2)
  | .brk p, n, x, n', _, h => by obtain ⟨rfl, _⟩ := toNode_brk_inv h; exact .brk _
  | .cont p, n, x, n', _, h => by obtain ⟨rfl, _⟩ := toNode_cont_inv h; exact .cont _
  | .ident q v p, n, x, n', he, h => .expr (toNode_sfreeAux c _ n x n' rfl h)
  | .num neg v p k, n, x, n', he, h => .expr (toNode_sfreeAux c _ n x n' rfl h)
  | .str m v p, n, x, n', he, h => .expr (toNode_sfreeAux c _ n x n' rfl h)
  | .bool b p, n, x, n', he, h => .expr (toNode_sfreeAux c _ n x n' rfl h)
  | .nil p k, n, x, n', he, h => .expr (toNode_sfreeAux c _ n x n' rfl h)
  | .list xs lb rb, n, x, n', he, h => .expr (toNode_sfreeAux c _ n x n' (by simpa only [stmtOk] using he) h)
  | .map kvs lb rb, n, x, n', he, h => .expr (toNode_sfreeAux c _ n x n' (by simpa only [stmtOk] using he) h)
  | .paren e lp rp, n, x, n', he, h => .expr (toNode_sfreeAux c _ n x n' (by simpa only [stmtOk] using he) h)
  | .attr o a p, n, x, n', he, h => .expr (toNode_sfreeAux c _ n x n' (by simpa only [stmtOk] using he) h)
  | .index obj idx lbs rbs, n, x, n', he, h =>
    .expr (toNode_sfreeAux c _ n x n' (by simpa only [stmtOk] using he) h)
  | .unary op e p, n, x, n', he, h => .expr (toNode_sfreeAux c _ n x n' (by simpa only [stmtOk] using he) h)
  | .bin op l r p, n, x, n', he, h => .expr (toNode_sfreeAux c _ n x n' (by simpa only [stmtOk] using he) h)
  | .assign op l r p, n, x, n', he, h => .expr (toNode_sfreeAux c _ n x n' (by simpa only [stmtOk] using he) h)
  | .call q v args np lp rp, n, x, n', he, h =>
    .expr (toNode_sfreeAux c _ n x n' (by simpa only [stmtOk] using he) h)
  | .slice o a b s c2 lb rb, n, x, n', he, h =>
    .expr (toNode_sfreeAux c _ n x n' (by simpa only [stmtOk] using he) h)

theorem toNodes_gstmtAux (c : Cfg) : ∀ (ps : List PP) (n : Nat) (xs : List Node) (n' : Nat),
    stmtOkL ps = true → toNodes c ps n = some (xs, n') → ∀ x ∈ xs, GStmt x
  | [], n, xs, n', _, h => by
    obtain ⟨rfl, _⟩ := toNodes_nil_inv h; intro x hx; cases hx
  | p :: r, n, xs, n', he, h => by
    obtain ⟨y, n1, ys, h1, h2, rfl⟩ := toNodes_cons_inv h
    simp only [stmtOkL, Bool.and_eq_true] at he
    intro x hx
    rcases List.mem_cons.1 hx with rfl | hx
    · exact toNode_gstmtAux c p n _ n1 he.1 h1
    · exact toNodes_gstmtAux c r n1 ys n' he.2 h2 x hx

theorem toNodeIfs_gstmtAux (c : Cfg) : ∀ (ifs : List (Nat × PP × List PP)) (n : Nat)
    (xs : List (Node × Option (List Node) × Pos)) (n' : Nat),
    ifsOk ifs = true → toNodeIfs c ifs n = some (xs, n') →
    ∀ x ∈ xs, SFree x.1 ∧ ∀ blk, x.2.1 = some blk → ∀ n ∈ blk, GStmt n
  | [], n, xs, n', _, h => by
    obtain ⟨rfl, _⟩ := toNodeIfs_nil_inv h; intro x hx; cases hx
  | (p, cd, b) :: r, n, xs, n', he, h => by
    obtain ⟨c', n1, b', n2, ys, h1, h2, h3, rfl⟩ := toNodeIfs_cons_inv h
    simp only [ifsOk, Bool.and_eq_true] at he
    intro x hx
    rcases List.mem_cons.1 hx with rfl | hx
    · exact ⟨toNode_sfreeAux c cd n _ n1 he.1.1 h1,
        by intro blk hb; cases hb; exact toNodes_gstmtAux c b n1 b' n2 he.1.2 h2⟩
    · exact toNodeIfs_gstmtAux c r n2 ys n' he.2 h3 x hx
end

end Platypus.FrontEnd
