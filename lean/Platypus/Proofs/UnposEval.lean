import Platypus.Proofs.UnposMachine
/-!
# Layout independence, helper 3: the v1 expression evaluator (all functions but `builtin`)

`ESim env f`: every evaluator function at fuel `f`, on a tree and on the position-free tree (under
the position-free environment), gives similar computations.
-/
set_option linter.unusedVariables false
namespace Platypus.LayoutSemantics
open Platypus Platypus.FrontEnd Platypus.MachineProofs

/-- similarity of the v1 evaluator functions at fuel `f` -/
structure ESim (env : Env) (f : Nat) : Prop where
  node : ∀ n, Sim (evalNode env f n) (evalNode (unposEnv env) f (unpos n))
  list : ∀ l, Sim (evalList env f l) (evalList (unposEnv env) f (unposL l))
  mapLit : ∀ kvs acc, Sim (evalMapLit env f kvs acc) (evalMapLit (unposEnv env) f (unposKV kvs) acc)
  search : ∀ cur idx, Sim (searchLM env f cur idx) (searchLM (unposEnv env) f cur (unposL idx))
  change : ∀ cur idx val, Sim (changeLM env f cur idx val) (changeLM (unposEnv env) f cur (unposL idx) val)
  slice : ∀ obj st en sp, Sim (evalSlice env f obj st en sp)
    (evalSlice (unposEnv env) f (unpos obj) (unposO st) (unposO en) (unposO sp))
  assign : ∀ op lhs rhs p p', Sim (evalAssign env f op lhs rhs p)
    (evalAssign (unposEnv env) f op (unposL lhs) (unposL rhs) p')
  call : ∀ name args np np' site, Sim (evalCall env f name args np site)
    (evalCall (unposEnv env) f name (unposL args) np' site)
  builtin : ∀ fn name args np np' site, Sim (builtin env f fn name args np site)
    (builtin (unposEnv env) f fn name (unposL args) np' site)

theorem esim_zero (env : Env) : ESim env 0 := by
  refine ⟨?_, ?_, ?_, ?_, ?_, ?_, ?_, ?_, ?_⟩ <;> intros <;> intro s
  · simp only [evalNode]; exact True.intro
  · simp only [evalList]; exact True.intro
  · simp only [evalMapLit]; exact True.intro
  · simp only [searchLM]; exact True.intro
  · simp only [changeLM]; exact True.intro
  · simp only [evalSlice]; exact True.intro
  · simp only [evalAssign]; exact True.intro
  · simp only [evalCall]; exact True.intro
  · simp only [Platypus.builtin]; exact True.intro

section
variable {env : Env} {f : Nat}

theorem evalNode_sim_step (ih : ESim env f) (n : Node) :
    Sim (evalNode env (f+1) n) (evalNode (unposEnv env) (f+1) (unpos n)) := by
  have h1 := ih.node
  have h2 := ih.list
  have h3 := ih.mapLit
  have h4 := ih.search
  have h5 := ih.slice
  have h6 := ih.assign
  have h7 := ih.call
  cases n
  case index obj idx lbs rbs =>
    cases obj <;> simp only [evalNode, unpos, Option.map] <;> sim_tac
  case ifelse ifs els p =>
    simp only [evalNode]
    exact (msim_all (env := env) ih.node f).stmt _
  case forS i c l b p =>
    simp only [evalNode]
    exact (msim_all (env := env) ih.node f).stmt _
  case forIn v it b fp ip =>
    simp only [evalNode]
    exact (msim_all (env := env) ih.node f).stmt _
  case brk p =>
    simp only [evalNode]
    exact (msim_all (env := env) ih.node f).stmt _
  case cont p =>
    simp only [evalNode]
    exact (msim_all (env := env) ih.node f).stmt _
  all_goals
    simp only [evalNode, unpos]
    sim_tac

theorem evalList_sim_step (ih : ESim env f) (l : List Node) :
    Sim (evalList env (f+1) l) (evalList (unposEnv env) (f+1) (unposL l)) := by
  have h1 := ih.node
  have h2 := ih.list
  cases l <;> simp only [evalList, unposL] <;> sim_tac

theorem evalMapLit_sim_step (ih : ESim env f) (kvs : List (Node × Node)) (acc : List (Bytes × Val)) :
    Sim (evalMapLit env (f+1) kvs acc) (evalMapLit (unposEnv env) (f+1) (unposKV kvs) acc) := by
  have h1 := ih.node
  have h2 := ih.mapLit
  cases kvs with
  | nil => simp only [evalMapLit, unposKV]; sim_tac
  | cons kv r =>
    obtain ⟨k, v⟩ := kv
    simp only [evalMapLit, unposKV]
    sim_tac

theorem searchLM_sim_step (ih : ESim env f) (cur : Val) (idx : List Node) :
    Sim (searchLM env (f+1) cur idx) (searchLM (unposEnv env) (f+1) cur (unposL idx)) := by
  have h1 := ih.node
  have h2 := ih.search
  cases idx <;> simp only [searchLM, unposL] <;> sim_tac

theorem changeLM_sim_step (ih : ESim env f) (cur : Val) (idx : List Node) (val : TV) :
    Sim (changeLM env (f+1) cur idx val) (changeLM (unposEnv env) (f+1) cur (unposL idx) val) := by
  have h1 := ih.node
  have h2 := ih.change
  cases idx <;> simp only [changeLM, unposL, unposL_isEmpty] <;> sim_tac

theorem evalSlice_sim_step (ih : ESim env f) (obj : Node) (st en sp : Option Node) :
    Sim (evalSlice env (f+1) obj st en sp)
      (evalSlice (unposEnv env) (f+1) (unpos obj) (unposO st) (unposO en) (unposO sp)) := by
  have h1 := ih.node
  cases st <;> cases en <;> cases sp <;> simp only [evalSlice, unposO, Option.map] <;> sim_tac

theorem evalAssign_sim_step (ih : ESim env f) (op : AsOp) (lhs rhs : List Node) (p p' : Pos) :
    Sim (evalAssign env (f+1) op lhs rhs p) (evalAssign (unposEnv env) (f+1) op (unposL lhs) (unposL rhs) p') := by
  have h1 := ih.node
  have h2 := ih.search
  have h3 := ih.change
  rcases lhs with _ | ⟨l, _ | ⟨l2, lr⟩⟩ <;> rcases rhs with _ | ⟨r, _ | ⟨r2, rr⟩⟩
  case cons.nil.cons.nil =>
    cases l
    case index obj idx lbs rbs =>
      cases obj <;> simp only [evalAssign, unposL, unpos, Option.map] <;> sim_tac
    all_goals
      simp only [evalAssign, unposL, unpos]
      sim_tac
  all_goals
    simp only [evalAssign, unposL]
    sim_tac

theorem evalCall_sim_step (ih : ESim env f) (name : Bytes) (args : List Node) (np np' : Pos) (site : Nat) :
    Sim (evalCall env (f+1) name args np site) (evalCall (unposEnv env) (f+1) name (unposL args) np' site) := by
  intro s
  simp only [evalCall]
  rw [show (unposEnv env).fns = env.fns from rfl]
  by_cases hc : (!env.fns.contains name) = true
  · simp only [if_pos hc]; exact ResSim.refl _
  · simp only [if_neg hc]
    cases hfn : Fn.ofName name with
    | none => exact ResSim.refl _
    | some fn =>
      simp only []
      rcases (ih.builtin fn name args np np' site s).cases with ⟨a, s', h1, h2⟩ | ⟨e, e', s', h1, h2, he⟩ | ⟨h1, h2, h3⟩
      · rw [h1, h2]; exact ResSim.refl _
      · rw [h1, h2]; exact ⟨he, rfl⟩
      · rw [← h1]
        exact ResSim.refl _

end
end Platypus.LayoutSemantics
