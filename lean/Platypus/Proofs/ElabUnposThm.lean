import Platypus.Proofs.ElabUnpos
/-!
# Front end, helper 8: `toNode`, positions forgotten, is `ofPT` of the erased tree
-/
set_option linter.unusedVariables false
namespace Platypus.FrontEnd
open Platypus Platypus.Elab Platypus.ParsePos Platypus.Parse

/-- result of an elaboration function with the positions forgotten -/
abbrev U1 (r : Node × Nat) : Node × Nat := (unpos r.1, r.2)
abbrev UL (r : List Node × Nat) : List Node × Nat := (unposL r.1, r.2)
abbrev UO (r : Option Node × Nat) : Option Node × Nat := (unposO r.1, r.2)
abbrev UKV (r : List (Node × Node) × Nat) : List (Node × Node) × Nat := (unposKV r.1, r.2)
abbrev UIfs (r : List (Node × Option (List Node) × Pos) × Nat) :
    List (Node × Option (List Node) × Pos) × Nat := (unposIfs r.1, r.2)

mutual
theorem toNode_unposAux (c : Cfg) : ∀ (p : PP) (n : Nat), ShapeAll p →
    (toNode c p n).map U1 = ofPT c.pf p.erase n
  | .ident q v p, n, _ => by
    rw [toNode_ident_eq]; simp only [PP.erase, ofPT]
    cases identName q v <;> rfl
  | .num neg v p k, n, _ => by
    rw [toNode_num_eq]; simp only [PP.erase, ofPT]
    rw [← numNode_unpos c neg v (mkPos c.src p)]
    cases numNode c neg v (mkPos c.src p) <;> rfl
  | .str m v p, n, _ => by
    rw [toNode_str_eq]; simp only [PP.erase, ofPT]
    cases (if m = true then Unq.unquoteMultiline v else Unq.unquote v) <;> rfl
  | .bool b p, n, _ => rfl
  | .nil p k, n, _ => rfl
  | .list xs lb rb, n, hs => by
    have ih := toNodes_unposAux c xs n (fun x hx => hs.child hx)
    rw [toNode_list_eq]; simp only [PP.erase, ofPT]; rw [← ih]
    cases toNodes c xs n <;> rfl
  | .map kvs lb rb, n, hs => by
    have ih := toNodeKV_unposAux c kvs n (fun kv hkv =>
      ⟨hs.child (by simp only [PP.children, List.mem_flatMap]; exact ⟨kv, hkv, by simp⟩),
       hs.child (by simp only [PP.children, List.mem_flatMap]; exact ⟨kv, hkv, by simp⟩)⟩)
    rw [toNode_map_eq]; simp only [PP.erase, ofPT]; rw [← ih]
    cases toNodeKV c kvs n <;> rfl
  | .paren e lp rp, n, hs => by
    have ih := toNode_unposAux c e n (hs.child (by simp [PP.children]))
    rw [toNode_paren_eq]; simp only [PP.erase, ofPT]; rw [← ih]
    cases toNode c e n <;> rfl
  | .attr o a p, n, hs => by
    have ih1 := toNode_unposAux c o n (hs.child (by simp [PP.children]))
    rw [toNode_attr_eq]; simp only [PP.erase, ofPT]; rw [← ih1]
    rcases toNode c o n with _ | ⟨x, n1⟩
    · rfl
    · have ih2 := toNode_unposAux c a n1 (hs.child (by simp [PP.children]))
      simp only [Option.map_some, U1]; rw [← ih2]
      cases toNode c a n1 <;> rfl
  | .index obj idx lbs rbs, n, hs => by
    have ih := toNodes_unposAux c idx n (fun x hx => hs.child hx)
    have hl : lbs.length = idx.length ∧ rbs.length = idx.length := (shapeAll_iff.1 hs).1
    rw [toNode_index_eq]; simp only [PP.erase, ofPT]
    rw [← idxObj_unpos c obj, ← ih, eraseL_length]
    rcases idxObj c obj with _ | o
    · rfl
    · rcases toNodes c idx n with _ | ⟨ys, n1⟩
      · rfl
      · simp only [Option.map_some, UL, U1, unpos, List.map_map]
        rw [show ((fun (_ : Pos) => Pos.invalid) ∘ mkPos c.src) = (fun _ => Pos.invalid) from rfl,
          map_const_inv lbs idx.length hl.1, map_const_inv rbs idx.length hl.2]
  | .unary op e p, n, hs => by
    have ih := toNode_unposAux c e n (hs.child (by simp [PP.children]))
    rw [toNode_unary_eq]; simp only [PP.erase, ofPT]; rw [← ih]
    cases toNode c e n <;> rfl
  | .bin op l r p, n, hs => by
    have ih1 := toNode_unposAux c l n (hs.child (by simp [PP.children]))
    rw [toNode_bin_eq]; simp only [PP.erase, ofPT]; rw [← ih1]
    rcases toNode c l n with _ | ⟨x, n1⟩
    · rfl
    · have ih2 := toNode_unposAux c r n1 (hs.child (by simp [PP.children]))
      simp only [Option.map_some, U1]; rw [← ih2]
      rcases toNode c r n1 with _ | ⟨y, n2⟩
      · rfl
      · simp only [Option.map_some, U1, unpos_mkBinNode]
  | .assign op l r p, n, hs => by
    have ih1 := toNodes_unposAux c l n (fun x hx => hs.child (by simp [PP.children, hx]))
    rw [toNode_assign_eq]; simp only [PP.erase, ofPT]; rw [← ih1]
    rcases toNodes c l n with _ | ⟨x, n1⟩
    · rfl
    · have ih2 := toNodes_unposAux c r n1 (fun x hx => hs.child (by simp [PP.children, hx]))
      simp only [Option.map_some, UL]; rw [← ih2]
      cases toNodes c r n1 <;> rfl
  | .call q v args np lp rp, n, hs => by
    have ih := toNodes_unposAux c args (n + 1) (fun x hx => hs.child hx)
    rw [toNode_call_eq]; simp only [PP.erase, ofPT]; rw [← ih]
    cases identName q v with
    | none => rfl
    | some nm => cases toNodes c args (n + 1) <;> rfl
  | .slice o a b s c2 lb rb, n, hs => by
    have ih0 := toNode_unposAux c o n (hs.child (by simp [PP.children]))
    rw [toNode_slice_eq]; simp only [PP.erase, ofPT]; rw [← ih0]
    rcases toNode c o n with _ | ⟨x, n1⟩
    · rfl
    · have ih1 := toNodeO_unposAux c a n1 (fun y hy => hs.child (by subst hy; simp [PP.children]))
      simp only [Option.map_some, U1]; rw [← ih1]
      rcases toNodeO c a n1 with _ | ⟨a', n2⟩
      · rfl
      · have ih2 := toNodeO_unposAux c b n2 (fun y hy => hs.child (by subst hy; simp [PP.children]))
        simp only [Option.map_some, UO]; rw [← ih2]
        rcases toNodeO c b n2 with _ | ⟨b', n3⟩
        · rfl
        · have ih3 := toNodeO_unposAux c s n3 (fun y hy => hs.child (by subst hy; simp [PP.children]))
          simp only [Option.map_some, UO]; rw [← ih3]
          cases toNodeO c s n3 <;> rfl
  | .ifelse ifs none, n, hs => by
    have ih := toNodeIfs_unposAux c ifs n (fun e he =>
      ⟨hs.child (by simp only [PP.children, List.mem_append, List.mem_flatMap]
                    exact Or.inl ⟨e, he, by simp⟩),
       fun x hx => hs.child (by simp only [PP.children, List.mem_append, List.mem_flatMap]
                                exact Or.inl ⟨e, he, by simp [hx]⟩)⟩)
    rw [toNode_ifelse_none_eq]; simp only [PP.erase, eraseEls, ofPT, ofPTEls]; rw [← ih]
    cases toNodeIfs c ifs n <;> rfl
  | .ifelse ifs (some (ep, b)), n, hs => by
    have ih := toNodeIfs_unposAux c ifs n (fun e he =>
      ⟨hs.child (by simp only [PP.children, List.mem_append, List.mem_flatMap]
                    exact Or.inl ⟨e, he, by simp⟩),
       fun x hx => hs.child (by simp only [PP.children, List.mem_append, List.mem_flatMap]
                                exact Or.inl ⟨e, he, by simp [hx]⟩)⟩)
    rw [toNode_ifelse_some_eq]; simp only [PP.erase, eraseEls, ofPT, ofPTEls]; rw [← ih]
    rcases toNodeIfs c ifs n with _ | ⟨is, n1⟩
    · rfl
    · have ih2 := toNodes_unposAux c b n1 (fun x hx => hs.child (by
        simp only [PP.children, List.mem_append]; exact Or.inr hx))
      simp only [Option.map_some, UIfs]; rw [← ih2]
      cases toNodes c b n1 <;> rfl
  | .forS i cd l b p, n, hs => by
    have ih0 := toNodeO_unposAux c i n (fun y hy => hs.child (by subst hy; simp [PP.children]))
    rw [toNode_forS_eq]; simp only [PP.erase, ofPT]; rw [← ih0]
    rcases toNodeO c i n with _ | ⟨x, n1⟩
    · rfl
    · have ih1 := toNodeO_unposAux c cd n1 (fun y hy => hs.child (by subst hy; simp [PP.children]))
      simp only [Option.map_some, UO]; rw [← ih1]
      rcases toNodeO c cd n1 with _ | ⟨a', n2⟩
      · rfl
      · have ih2 := toNodeO_unposAux c l n2 (fun y hy => hs.child (by subst hy; simp [PP.children]))
        simp only [Option.map_some, UO]; rw [← ih2]
        rcases toNodeO c l n2 with _ | ⟨b', n3⟩
        · rfl
        · have ih3 := toNodes_unposAux c b n3 (fun x hx => hs.child (by simp [PP.children, hx]))
          simp only [Option.map_some, UO]; rw [← ih3]
          cases toNodes c b n3 <;> rfl
  | .forIn v it b fp ip, n, hs => by
    have ih0 := toNode_unposAux c v n (hs.child (by simp [PP.children]))
    rw [toNode_forIn_eq]; simp only [PP.erase, ofPT]; rw [← ih0]
    rcases toNode c v n with _ | ⟨x, n1⟩
    · rfl
    · have ih1 := toNode_unposAux c it n1 (hs.child (by simp [PP.children]))
      simp only [Option.map_some, U1]; rw [← ih1]
      rcases toNode c it n1 with _ | ⟨y, n2⟩
      · rfl
      · have ih2 := toNodes_unposAux c b n2 (fun x hx => hs.child (by simp [PP.children, hx]))
        simp only [Option.map_some, U1]; rw [← ih2]
        cases toNodes c b n2 <;> rfl
  | .brk p, n, _ => rfl
  | .cont p, n, _ => rfl

theorem toNodes_unposAux (c : Cfg) : ∀ (ps : List PP) (n : Nat), ShapeAllL ps →
    (toNodes c ps n).map UL = ofPTs c.pf (eraseL ps) n
  | [], n, _ => rfl
  | p :: r, n, hs => by
    have ih1 := toNode_unposAux c p n (hs p (by simp))
    rw [toNodes_cons_eq]; simp only [eraseL, ofPTs]; rw [← ih1]
    rcases toNode c p n with _ | ⟨x, n1⟩
    · rfl
    · have ih2 := toNodes_unposAux c r n1 (fun x hx => hs x (by simp [hx]))
      simp only [Option.map_some, U1]; rw [← ih2]
      cases toNodes c r n1 <;> rfl

theorem toNodeO_unposAux (c : Cfg) : ∀ (o : Option PP) (n : Nat), ShapeAllO o →
    (toNodeO c o n).map UO = ofPTO c.pf (eraseO o) n
  | none, n, _ => rfl
  | some p, n, hs => by
    have ih1 := toNode_unposAux c p n (hs p rfl)
    rw [toNodeO_some_eq]; simp only [eraseO, ofPTO]; rw [← ih1]
    cases toNode c p n <;> rfl

theorem toNodeKV_unposAux (c : Cfg) : ∀ (kvs : List (PP × PP)) (n : Nat), ShapeAllKV kvs →
    (toNodeKV c kvs n).map UKV = ofPTKV c.pf (eraseKV kvs) n
  | [], n, _ => rfl
  | (k, v) :: r, n, hs => by
    have ih1 := toNode_unposAux c k n (hs (k, v) (by simp)).1
    rw [toNodeKV_cons_eq]; simp only [eraseKV, ofPTKV]; rw [← ih1]
    rcases toNode c k n with _ | ⟨x, n1⟩
    · rfl
    · have ih2 := toNode_unposAux c v n1 (hs (k, v) (by simp)).2
      simp only [Option.map_some, U1]; rw [← ih2]
      rcases toNode c v n1 with _ | ⟨y, n2⟩
      · rfl
      · have ih3 := toNodeKV_unposAux c r n2 (fun x hx => hs x (by simp [hx]))
        simp only [Option.map_some, U1]; rw [← ih3]
        cases toNodeKV c r n2 <;> rfl

theorem toNodeIfs_unposAux (c : Cfg) : ∀ (ifs : List (Nat × PP × List PP)) (n : Nat), ShapeAllIfs ifs →
    (toNodeIfs c ifs n).map UIfs = ofPTIfs c.pf (eraseIfs ifs) n
  | [], n, _ => rfl
  | (p, cd, b) :: r, n, hs => by
    have ih1 := toNode_unposAux c cd n (hs (p, cd, b) (by simp)).1
    rw [toNodeIfs_cons_eq]; simp only [eraseIfs, ofPTIfs]; rw [← ih1]
    rcases toNode c cd n with _ | ⟨x, n1⟩
    · rfl
    · have ih2 := toNodes_unposAux c b n1 (hs (p, cd, b) (by simp)).2
      simp only [Option.map_some, U1]; rw [← ih2]
      rcases toNodes c b n1 with _ | ⟨y, n2⟩
      · rfl
      · have ih3 := toNodeIfs_unposAux c r n2 (fun x hx => hs x (by simp [hx]))
        simp only [Option.map_some, UL]; rw [← ih3]
        cases toNodeIfs c r n2 <;> rfl
end

end Platypus.FrontEnd
