import Platypus.Proofs.ParsePosOrderBase
/-!
# C17 (tree part) helper, part 6: every function of the position-carrying parser builds trees whose
positions respect the source order

`Ord f`: at fuel `f`, for every function, under strictly increasing offsets: the leftover is a suffix of
the input and the returned trees are `Good` for the leftover (all their positions are before it, and
every node has its own positions where its tokens stand relative to its subtrees), provided the tree
arguments are `Good` for the input.  That the positions of a subtree are *after* a token that precedes
it comes from `Inv` (`AllOk` with respect to the subtree's own input: `aft_of_allOk`).
-/
set_option linter.unusedSimpArgs false
set_option linter.unusedVariables false
namespace Platypus.ParsePos
open Platypus.Lex (Tok Item)
open Platypus.Parse

theorem bef_lt {ts : List Item} {t : PP} {p : Nat} {k : Tok} (h : Good ts t) (hin : In ts p k) :
    ∀ q ∈ t.allPos, q < p := fun q hq => lt_of_in (h.1 q hq) hin
theorem befL_lt {ts : List Item} {xs : List PP} {p : Nat} {k : Tok} (h : GoodL ts xs) (hin : In ts p k) :
    ∀ q ∈ allPosL xs, q < p := by
  intro q hq
  obtain ⟨x, hx, hq'⟩ := mem_allPosL.1 hq
  exact bef_lt (h x hx) hin q hq'
theorem befO_lt {ts : List Item} {x : Option PP} {p : Nat} {k : Tok} (h : GoodO ts x) (hin : In ts p k) :
    ∀ q ∈ allPosO x, q < p := by
  intro q hq
  obtain ⟨y, hy, hq'⟩ := mem_allPosO.1 hq
  exact bef_lt (h y hy) hin q hq'
theorem befKV_lt {ts : List Item} {xs : List (PP × PP)} {p : Nat} {k : Tok} (h : GoodKV ts xs)
    (hin : In ts p k) : ∀ q ∈ allPosKV xs, q < p := by
  intro q hq
  obtain ⟨kv, hkv, hq' | hq'⟩ := mem_allPosKV.1 hq
  · exact bef_lt (h kv hkv).1 hin q hq'
  · exact bef_lt (h kv hkv).2 hin q hq'

theorem hp_lt_aftL {ts0 ts r : List Item} {xs : List PP} (h0 : Sorted ts0) (hs : ts <:+ ts0)
    (hr : r <:+ ts.drop 1) (ha : AllOkL r xs) : ∀ q ∈ allPosL xs, hp ts < q := by
  intro q hq
  obtain ⟨x, hx, hq'⟩ := mem_allPosL.1 hq
  exact hp_lt_aft h0 hs hr (aft_of_allOk (ha x hx)) q hq'
theorem hp_lt_aftO {ts0 ts r : List Item} {x : Option PP} (h0 : Sorted ts0) (hs : ts <:+ ts0)
    (hr : r <:+ ts.drop 1) (ha : AllOkO r x) : ∀ q ∈ allPosO x, hp ts < q := by
  intro q hq
  obtain ⟨y, hy, hq'⟩ := mem_allPosO.1 hq
  exact hp_lt_aft h0 hs hr (aft_of_allOk (ha y hy)) q hq'
theorem hp_lt_aftKV {ts0 ts r : List Item} {xs : List (PP × PP)} (h0 : Sorted ts0) (hs : ts <:+ ts0)
    (hr : r <:+ ts.drop 1) (ha : AllOkKV r xs) : ∀ q ∈ allPosKV xs, hp ts < q := by
  intro q hq
  obtain ⟨kv, hkv, hq' | hq'⟩ := mem_allPosKV.1 hq
  · exact hp_lt_aft h0 hs hr (aft_of_allOk (ha kv hkv).1) q hq'
  · exact hp_lt_aft h0 hs hr (aft_of_allOk (ha kv hkv).2) q hq'

theorem AllOk.mono {ts ts' : List Item} {t : PP} (h : AllOk ts t) (hs : ts <:+ ts') : AllOk ts' t :=
  fun n hn => (h n hn).mono hs.sublist

structure Ord (f : Nat) : Prop where
  expr : ∀ ts0 mp ts t r, Sorted ts0 → ts <:+ ts0 → parsePosExpr f mp ts = some (t, r) →
    r <:+ ts ∧ Good r t
  binRest : ∀ ts0 mp l ts t r, Sorted ts0 → ts <:+ ts0 → Good ts l →
    parsePosBinRest f mp l ts = some (t, r) → r <:+ ts ∧ Good r t
  unary : ∀ ts0 ts t r, Sorted ts0 → ts <:+ ts0 → parsePosUnary f ts = some (t, r) → r <:+ ts ∧ Good r t
  primary : ∀ ts0 ts t r, Sorted ts0 → ts <:+ ts0 → parsePosPrimary f ts = some (t, r) →
    r <:+ ts ∧ Good r t
  afterIdent : ∀ ts0 q v p r t r', Sorted ts0 → r <:+ ts0 → Lt p r →
    parsePosAfterIdent f q v p r = some (t, r') → r' <:+ r ∧ Good r' t
  indexChain : ∀ ts0 acc lbs rbs ts res r, Sorted ts0 → ts <:+ ts0 → GoodL ts acc →
    (∀ p ∈ lbs, Lt p ts) → (∀ p ∈ rbs, Lt p ts) →
    parsePosIndexChain f acc lbs rbs ts = some (res, r) →
    r <:+ ts ∧ GoodL r res.1 ∧ (∀ p ∈ res.2.1, Lt p r) ∧ (∀ p ∈ res.2.2, Lt p r)
  attrChain : ∀ ts0 obj ts t r, Sorted ts0 → ts <:+ ts0 → Good ts obj →
    parsePosAttrChain f obj ts = some (t, r) → r <:+ ts ∧ Good r t
  attrY : ∀ ts0 ts t r, Sorted ts0 → ts <:+ ts0 → parsePosAttrY f ts = some (t, r) → r <:+ ts ∧ Good r t
  attrYIdx : ∀ ts0 nm r t r', Sorted ts0 → r <:+ ts0 → (∀ o, nm = some o → Lt o.2.2 r) →
    parsePosAttrYIdx f nm r = some (t, r') → r' <:+ r ∧ Good r' t
  sliceChain : ∀ ts0 obj ts t r, Sorted ts0 → ts <:+ ts0 → Good ts obj →
    parsePosSliceChain f obj ts = some (t, r) → r <:+ ts ∧ Good r t
  sliceBody : ∀ ts0 st ts res r, Sorted ts0 → ts <:+ ts0 → GoodO ts st →
    parsePosSliceBody f st ts = some (res, r) →
    r <:+ ts ∧ GoodO r res.1 ∧ GoodO r res.2.1 ∧ GoodO r res.2.2.1 ∧ Lt res.2.2.2.2 r ∧
      ∀ q ∈ allPosO res.1 ++ allPosO res.2.1 ++ allPosO res.2.2.1, q < res.2.2.2.2
  args : ∀ ts0 acc ts res r, Sorted ts0 → ts <:+ ts0 → GoodL ts acc →
    parsePosArgs f acc ts = some (res, r) →
    r <:+ ts ∧ GoodL r res.1 ∧ Lt res.2 r ∧ ∀ q ∈ allPosL res.1, q < res.2
  listElems : ∀ ts0 acc ts res r, Sorted ts0 → ts <:+ ts0 → GoodL ts acc →
    parsePosListElems f acc ts = some (res, r) →
    r <:+ ts ∧ GoodL r res.1 ∧ Lt res.2 r ∧ ∀ q ∈ allPosL res.1, q < res.2
  mapElems : ∀ ts0 acc ts res r, Sorted ts0 → ts <:+ ts0 → GoodKV ts acc →
    parsePosMapElems f acc ts = some (res, r) →
    r <:+ ts ∧ GoodKV r res.1 ∧ Lt res.2 r ∧ ∀ q ∈ allPosKV res.1, q < res.2
  commaParams : ∀ ts0 acc ts res r, Sorted ts0 → ts <:+ ts0 → GoodL ts acc →
    parsePosCommaParams f acc ts = some (res, r) → r <:+ ts ∧ GoodL r res
  simple : ∀ ts0 ts t r, Sorted ts0 → ts <:+ ts0 → parsePosSimple f ts = some (t, r) → r <:+ ts ∧ Good r t
  block : ∀ ts0 ts b r, Sorted ts0 → ts <:+ ts0 → parsePosBlock f ts = some (b, r) → r <:+ ts ∧ GoodL r b
  stmts : ∀ ts0 ts b r, Sorted ts0 → ts <:+ ts0 → parsePosStmts f ts = some (b, r) → r <:+ ts ∧ GoodL r b
  stmtsTail : ∀ ts0 acc ts b r, Sorted ts0 → ts <:+ ts0 → GoodL ts acc →
    parsePosStmtsTail f acc ts = some (b, r) → r <:+ ts ∧ GoodL r b
  stmtsAfterSep : ∀ ts0 acc ts b r, Sorted ts0 → ts <:+ ts0 → GoodL ts acc →
    parsePosStmtsAfterSep f acc ts = some (b, r) → r <:+ ts ∧ GoodL r b
  stmt : ∀ ts0 ts t r, Sorted ts0 → ts <:+ ts0 → parsePosStmt f ts = some (t, r) → r <:+ ts ∧ Good r t
  elifs : ∀ ts0 acc ts t r, Sorted ts0 → ts <:+ ts0 → GoodIfs ts acc →
    parsePosElifs f acc ts = some (t, r) → r <:+ ts ∧ Good r t
  for_ : ∀ ts0 fp ts t r, Sorted ts0 → ts <:+ ts0 → Lt fp ts → parsePosFor f fp ts = some (t, r) →
    r <:+ ts ∧ Good r t
  forRest : ∀ ts0 fp init ts t r, Sorted ts0 → ts <:+ ts0 → Lt fp ts → GoodO ts init →
    (∀ q ∈ allPosO init, fp < q) →
    parsePosForRest f fp init ts = some (t, r) → r <:+ ts ∧ Good r t

theorem ord_zero : Ord 0 := by
  constructor <;> intros <;> simp_all [parsePosExpr, parsePosBinRest, parsePosUnary, parsePosPrimary,
    parsePosAfterIdent, parsePosIndexChain, parsePosAttrChain, parsePosAttrY, parsePosAttrYIdx, parsePosSliceChain,
    parsePosSliceBody, parsePosArgs, parsePosListElems, parsePosMapElems, parsePosCommaParams, parsePosSimple,
    parsePosBlock, parsePosStmts, parsePosStmtsTail, parsePosStmtsAfterSep, parsePosStmt, parsePosElifs,
    parsePosFor, parsePosForRest]

theorem ord_expr {f} (ih : Ord f) : ∀ ts0 mp ts t r, Sorted ts0 → ts <:+ ts0 →
    parsePosExpr (f+1) mp ts = some (t, r) → r <:+ ts ∧ Good r t := by
  intro ts0 mp ts t r h0 hs h
  simp only [parsePosExpr] at h
  rcases hu : parsePosUnary f ts with _ | ⟨l, r1⟩ <;> simp only [hu, reduceCtorEq] at h
  obtain ⟨s1, g1⟩ := ih.unary ts0 ts l r1 h0 hs hu
  obtain ⟨s2, g2⟩ := ih.binRest ts0 mp l r1 t r h0 (by suff) g1 h
  exact ⟨by suff, g2⟩

theorem ord_binRest {f} (ih : Ord f) : ∀ ts0 mp l ts t r, Sorted ts0 → ts <:+ ts0 → Good ts l →
    parsePosBinRest (f+1) mp l ts = some (t, r) → r <:+ ts ∧ Good r t := by
  intro ts0 mp l ts t r h0 hs hl h
  simp only [parsePosBinRest] at h
  cases ts with
  | nil => cases h; exact ⟨List.suffix_refl _, hl⟩
  | cons i rest =>
    dsimp only at h
    rcases hb : binOf i.typ with _ | ⟨p, op⟩ <;> simp only [hb] at h
    · cases h; exact ⟨List.suffix_refl _, hl⟩
    · split at h
      · rcases he : parsePosExpr f (p + 1) (skipE rest) with _ | ⟨rhs, r2⟩ <;> simp only [he, reduceCtorEq] at h
        obtain ⟨_, a1⟩ := (inv f).expr (skipE rest) (p+1) (skipE rest) rhs r2 (List.suffix_refl _) he
        obtain ⟨s1, g1⟩ := ih.expr ts0 (p+1) (skipE rest) rhs r2 h0 (by suff) he
        rcases hm : mkBinP op i.pos l rhs with _ | e <;> simp only [hm, reduceCtorEq] at h
        have ge : Good r2 e := good_mkBinP hm (hl.mono (by suff)) g1 (hp_lt_all h0 hs (by suff))
          (fun q hq => hl.1 q hq i List.mem_cons_self)
          (hp_lt_aft h0 hs (by suff) (aft_of_allOk a1))
        obtain ⟨s2, g2⟩ := ih.binRest ts0 mp e r2 t r h0 (by suff) ge h
        exact ⟨by suff, g2⟩
      · cases h; exact ⟨List.suffix_refl _, hl⟩

theorem ord_unary {f} (ih : Ord f) : ∀ ts0 ts t r, Sorted ts0 → ts <:+ ts0 →
    parsePosUnary (f+1) ts = some (t, r) → r <:+ ts ∧ Good r t := by
  intro ts0 ts t r h0 hs h
  simp only [parsePosUnary] at h
  cases ts with
  | nil => cases h
  | cons i rest =>
    dsimp only at h
    rcases hb : unOf i.typ with _ | op <;> simp only [hb] at h
    · exact ih.primary ts0 _ t r h0 hs h
    · rcases he : parsePosUnary f rest with _ | ⟨e, r1⟩ <;> simp only [he, reduceCtorEq] at h
      obtain ⟨_, a1⟩ := (inv f).unary rest rest e r1 (List.suffix_refl _) he
      obtain ⟨s1, g1⟩ := ih.unary ts0 rest e r1 h0 (by suff) he
      cases h
      exact ⟨by suff, good_mkUnaryP (hp_lt_all h0 hs (by suff)) g1
        (hp_lt_aft h0 hs (List.suffix_refl _) (aft_of_allOk a1))⟩

theorem ord_primary {f} (ih : Ord f) : ∀ ts0 ts t r, Sorted ts0 → ts <:+ ts0 →
    parsePosPrimary (f+1) ts = some (t, r) → r <:+ ts ∧ Good r t := by
  intro ts0 ts t r h0 hs h
  cases ts with
  | nil => simp [parsePosPrimary] at h
  | cons i rest =>
    simp only [parsePosPrimary] at h
    have hi : Lt i.pos rest := hp_lt_all h0 hs (List.suffix_refl _)
    cases ht : i.typ <;> simp only [ht, reduceCtorEq] at h
    case ID =>
      obtain ⟨s, g⟩ := ih.afterIdent ts0 false i.val i.pos rest t r h0 (by suff) hi h
      exact ⟨by suff, g⟩
    case QUOTED_STRING =>
      split at h
      · obtain ⟨s, g⟩ := ih.afterIdent ts0 true i.val i.pos rest t r h0 (by suff) hi h
        exact ⟨by suff, g⟩
      · cases h
    case DOT =>
      rcases h1 : expect .LEFT_BRACKET rest with _ | r1 <;> simp only [h1, reduceCtorEq] at h
      rcases h2 : parsePosExpr f 1 (skipE r1) with _ | ⟨e, r2⟩ <;> simp only [h2, reduceCtorEq] at h
      rcases h3 : expect .RIGHT_BRACKET (skipE r2) with _ | r3 <;> simp only [h3, reduceCtorEq] at h
      rcases h4 : parsePosIndexChain f [e] [hp rest] [hp (skipE r2)] r3 with _ | ⟨ic, r4⟩ <;>
        simp only [h4, reduceCtorEq] at h
      have e1 := expect_suffix h1
      obtain ⟨s2, g2⟩ := ih.expr ts0 1 (skipE r1) e r2 h0 (by suff) h2
      have e3 := expect_suffix h3
      obtain ⟨s4, g4, l4, rr4⟩ := ih.indexChain ts0 [e] [hp rest] [hp (skipE r2)] r3 ic r4 h0 (by suff)
        (GoodL.single (g2.mono (by suff)))
        (by intro p' hq; simp at hq; subst hq; exact hp_lt_all h0 (by suff) (by suff))
        (by intro p' hq; simp at hq; subst hq; exact hp_lt_all h0 (by suff) e3) h4
      obtain ⟨s5, g5⟩ := ih.attrChain ts0 _ r4 t r h0 (by suff)
        (good_index g4 (by intro o ho; cases ho) l4 rr4) h
      exact ⟨by suff, g5⟩
    case NUMBER =>
      obtain ⟨s, g⟩ := ih.sliceChain ts0 _ rest t r h0 (by suff) (good_num hi) h
      exact ⟨by suff, g⟩
    case TRUE =>
      obtain ⟨s, g⟩ := ih.sliceChain ts0 _ rest t r h0 (by suff) (good_bool hi) h
      exact ⟨by suff, g⟩
    case FALSE =>
      obtain ⟨s, g⟩ := ih.sliceChain ts0 _ rest t r h0 (by suff) (good_bool hi) h
      exact ⟨by suff, g⟩
    case NIL =>
      obtain ⟨s, g⟩ := ih.sliceChain ts0 _ rest t r h0 (by suff) (good_nil hi) h
      exact ⟨by suff, g⟩
    case NULL =>
      obtain ⟨s, g⟩ := ih.sliceChain ts0 _ rest t r h0 (by suff) (good_nil hi) h
      exact ⟨by suff, g⟩
    case STRING =>
      split at h
      · obtain ⟨s, g⟩ := ih.sliceChain ts0 _ rest t r h0 (by suff) (good_str hi) h
        exact ⟨by suff, g⟩
      · cases h
    case MULTILINE_STRING =>
      split at h
      · obtain ⟨s, g⟩ := ih.sliceChain ts0 _ rest t r h0 (by suff) (good_str hi) h
        exact ⟨by suff, g⟩
      · cases h
    case LEFT_BRACKET =>
      split at h
      · obtain ⟨s, g⟩ := ih.sliceChain ts0 _ _ t r h0 (by suff)
          (good_list GoodL.nil (hp_lt_all h0 hs (by suff)) (hp_lt_all h0 (by suff) (List.suffix_refl _))
            (by intro q hq; simp [allPosL] at hq)) h
        exact ⟨by suff, g⟩
      · rcases h1 : parsePosListElems f [] (skipE rest) with _ | ⟨xr, r2⟩ <;> simp only [h1, reduceCtorEq] at h
        obtain ⟨_, a1, _⟩ := (inv f).listElems (skipE rest) [] (skipE rest) xr r2 (List.suffix_refl _)
          AllOkL.nil h1
        obtain ⟨s1, g1, hrbL, hub⟩ := ih.listElems ts0 [] (skipE rest) xr r2 h0 (by suff) GoodL.nil h1
        obtain ⟨s, g⟩ := ih.sliceChain ts0 _ r2 t r h0 (by suff)
          (good_list g1 (hp_lt_all h0 hs (by suff)) hrbL
            (fun q hq => ⟨hp_lt_aftL h0 hs (by suff) a1 q hq, hub q hq⟩)) h
        exact ⟨by suff, g⟩
    case LEFT_BRACE =>
      split at h
      · cases h
        exact ⟨by suff, good_map GoodKV.nil (hp_lt_all h0 hs (by suff))
          (hp_lt_all h0 (by suff) (List.suffix_refl _)) (by intro q hq; simp [allPosKV] at hq)⟩
      · rcases h1 : parsePosMapElems f [] (skipE rest) with _ | ⟨kr, r2⟩ <;> simp only [h1, reduceCtorEq] at h
        obtain ⟨_, a1, _⟩ := (inv f).mapElems (skipE rest) [] (skipE rest) kr r2 (List.suffix_refl _)
          AllOkKV.nil h1
        obtain ⟨s1, g1, hrbL, hub⟩ := ih.mapElems ts0 [] (skipE rest) kr r2 h0 (by suff) GoodKV.nil h1
        cases h
        exact ⟨by suff, good_map g1 (hp_lt_all h0 hs (by suff)) hrbL
          (fun q hq => ⟨hp_lt_aftKV h0 hs (by suff) a1 q hq, hub q hq⟩)⟩
    case LEFT_PAREN =>
      rcases h2 : parsePosExpr f 1 (skipE rest) with _ | ⟨e, r2⟩ <;> simp only [h2, reduceCtorEq] at h
      rcases h3 : expect .RIGHT_PAREN (skipE r2) with _ | r3 <;> simp only [h3, reduceCtorEq] at h
      obtain ⟨_, a2⟩ := (inv f).expr (skipE rest) 1 (skipE rest) e r2 (List.suffix_refl _) h2
      obtain ⟨s2, g2⟩ := ih.expr ts0 1 (skipE rest) e r2 h0 (by suff) h2
      have e3 := expect_suffix h3
      cases h
      exact ⟨by suff, good_paren (g2.mono (by suff)) (hp_lt_all h0 hs (by suff))
        (hp_lt_all h0 (by suff) e3)
        (fun q hq => ⟨hp_lt_aft h0 hs (by suff) (aft_of_allOk a2) q hq,
          bef_lt (g2.mono (skipE_suffix _)) (in_of_expect h3) q hq⟩)⟩

theorem ub3 {x : List Item} {a b c : Option PP} {p : Nat} {k : Tok} (ha : GoodO x a) (hb : GoodO x b)
    (hc : GoodO x c) (hin : In x p k) : ∀ q ∈ allPosO a ++ allPosO b ++ allPosO c, q < p := by
  intro q hq
  rcases List.mem_append.1 hq with h | h
  · rcases List.mem_append.1 h with h | h
    · exact befO_lt ha hin q h
    · exact befO_lt hb hin q h
  · exact befO_lt hc hin q h

/-- a slice node built from a `parsePosSliceBody` result: `ts` starts with its `[` -/
theorem slice_good {f} (ih : Ord f) {ts0 ts tb : List Item} {obj : PP} {st : Option PP}
    {sl : Option PP × Option PP × Option PP × Bool × Nat} {r2 : List Item} {s : PP}
    (h0 : Sorted ts0) (hs : ts <:+ ts0) (hb : tb <:+ ts.drop 1) (hlb : In ts (hp ts) .LEFT_BRACKET)
    (ho : Good ts obj) (hst : GoodO tb st) (ast : AllOkO (ts.drop 1) st)
    (h1 : parsePosSliceBody f st tb = some (sl, r2))
    (h2 : mkSliceP obj sl.1 sl.2.1 sl.2.2.1 sl.2.2.2.1 (hp ts) sl.2.2.2.2 = some s) :
    r2 <:+ tb ∧ Good r2 s := by
  obtain ⟨s1, ga, gb, gc, hrbL, hub⟩ := ih.sliceBody ts0 st tb sl r2 h0 (by suff) hst h1
  obtain ⟨_, aa, ab, ac, _⟩ := (inv f).sliceBody (ts.drop 1) st tb sl r2 hb ast h1
  refine ⟨s1, good_mkSliceP h2 (ho.mono (by suff)) ga gb gc (hp_lt_all h0 hs (by suff)) hrbL
    (bef_lt ho hlb) (fun q hq => ⟨?_, hub q hq⟩)⟩
  rcases List.mem_append.1 hq with h | h
  · rcases List.mem_append.1 h with h | h
    · exact hp_lt_aftO h0 hs (List.suffix_refl _) aa q h
    · exact hp_lt_aftO h0 hs (List.suffix_refl _) ab q h
  · exact hp_lt_aftO h0 hs (List.suffix_refl _) ac q h

theorem ord_afterIdent {f} (ih : Ord f) : ∀ ts0 q v p r t r', Sorted ts0 → r <:+ ts0 → Lt p r →
    parsePosAfterIdent (f+1) q v p r = some (t, r') → r' <:+ r ∧ Good r' t := by
  intro ts0 q v p r t r' h0 hs hp0 h
  simp only [parsePosAfterIdent] at h
  cases ht : tk r <;> simp only [ht] at h
  case LEFT_PAREN =>
    split at h
    · obtain ⟨s, g⟩ := ih.sliceChain ts0 _ _ t r' h0 (by suff)
        (good_call GoodL.nil (hp0.mono (by suff)) (hp_lt_all h0 hs (by suff))
          (hp_lt_all h0 (by suff) (List.suffix_refl _)) (by intro q hq; simp [allPosL] at hq)) h
      exact ⟨by suff, g⟩
    · rcases h1 : parsePosArgs f [] (skipE (r.drop 1)) with _ | ⟨ar, r2⟩ <;> simp only [h1, reduceCtorEq] at h
      obtain ⟨_, a1, _⟩ := (inv f).args (skipE (r.drop 1)) [] _ ar r2 (List.suffix_refl _) AllOkL.nil h1
      obtain ⟨s1, g1, hrpL, hub⟩ := ih.args ts0 [] _ ar r2 h0 (by suff) GoodL.nil h1
      obtain ⟨s, g⟩ := ih.sliceChain ts0 _ r2 t r' h0 (by suff)
        (good_call g1 (hp0.mono (by suff)) (hp_lt_all h0 hs (by suff)) hrpL
          (fun q hq => ⟨hp_lt_aftL h0 hs (by suff) a1 q hq, hub q hq⟩)) h
      exact ⟨by suff, g⟩
  case LEFT_BRACKET =>
    have hlb := in_of_tk ht (by decide)
    split at h
    · rcases h1 : parsePosSliceBody f none (skipE (r.drop 1)) with _ | ⟨sl, r2⟩ <;>
        simp only [h1, reduceCtorEq] at h
      rcases h2 : mkSliceP (.ident q v p) sl.1 sl.2.1 sl.2.2.1 sl.2.2.2.1 (hp r) sl.2.2.2.2 with _ | s <;>
        simp only [h2, reduceCtorEq] at h
      obtain ⟨s1, gs⟩ := slice_good ih h0 hs (by suff) hlb (good_ident hp0) GoodO.none AllOkO.none h1 h2
      obtain ⟨s3, g3⟩ := ih.sliceChain ts0 s r2 t r' h0 (by suff) gs h
      exact ⟨by suff, g3⟩
    · rcases hx : parsePosExpr f 1 (skipE (r.drop 1)) with _ | ⟨e, r2⟩ <;> simp only [hx, reduceCtorEq] at h
      obtain ⟨_, ax⟩ := (inv f).expr (skipE (r.drop 1)) 1 _ e r2 (List.suffix_refl _) hx
      obtain ⟨sx, gx⟩ := ih.expr ts0 1 _ e r2 h0 (by suff) hx
      split at h
      · rcases h1 : parsePosSliceBody f (some e) r2 with _ | ⟨sl, r3⟩ <;> simp only [h1, reduceCtorEq] at h
        rcases h2 : mkSliceP (.ident q v p) sl.1 sl.2.1 sl.2.2.1 sl.2.2.2.1 (hp r) sl.2.2.2.2 with _ | s <;>
          simp only [h2, reduceCtorEq] at h
        obtain ⟨s1, gs⟩ := slice_good ih h0 hs (by suff) hlb (good_ident hp0) (GoodO.some gx)
          (AllOkO.some (ax.mono (skipE_suffix _))) h1 h2
        obtain ⟨s3, g3⟩ := ih.sliceChain ts0 s r3 t r' h0 (by suff) gs h
        exact ⟨by suff, g3⟩
      · rcases h3 : expect .RIGHT_BRACKET (skipE r2) with _ | r3 <;> simp only [h3, reduceCtorEq] at h
        rcases h4 : parsePosIndexChain f [e] [hp r] [hp (skipE r2)] r3 with _ | ⟨ic, r4⟩ <;>
          simp only [h4, reduceCtorEq] at h
        have e3 := expect_suffix h3
        obtain ⟨s4, g4, l4, rr4⟩ := ih.indexChain ts0 [e] [hp r] [hp (skipE r2)] r3 ic r4 h0 (by suff)
          (GoodL.single (gx.mono (by suff)))
          (by intro p' hq; simp at hq; subst hq; exact hp_lt_all h0 hs (by suff))
          (by intro p' hq; simp at hq; subst hq; exact hp_lt_all h0 (by suff) e3) h4
        obtain ⟨s5, g5⟩ := ih.attrChain ts0 _ r4 t r' h0 (by suff)
          (good_index g4 (by intro o ho; cases ho; exact hp0.mono (by suff)) l4 rr4) h
        exact ⟨by suff, g5⟩
  case DOT => exact ih.attrChain ts0 _ r t r' h0 hs (good_ident hp0) h
  all_goals (cases h; exact ⟨List.suffix_refl _, good_ident hp0⟩)

theorem ord_indexChain {f} (ih : Ord f) : ∀ ts0 acc lbs rbs ts res r, Sorted ts0 → ts <:+ ts0 →
    GoodL ts acc → (∀ p ∈ lbs, Lt p ts) → (∀ p ∈ rbs, Lt p ts) →
    parsePosIndexChain (f+1) acc lbs rbs ts = some (res, r) →
    r <:+ ts ∧ GoodL r res.1 ∧ (∀ p ∈ res.2.1, Lt p r) ∧ (∀ p ∈ res.2.2, Lt p r) := by
  intro ts0 acc lbs rbs ts res r h0 hs ha hl hr h
  simp only [parsePosIndexChain] at h
  split at h
  · rcases h2 : parsePosExpr f 1 (skipE (ts.drop 1)) with _ | ⟨e, r2⟩ <;> simp only [h2, reduceCtorEq] at h
    rcases h3 : expect .RIGHT_BRACKET (skipE r2) with _ | r3 <;> simp only [h3, reduceCtorEq] at h
    obtain ⟨s2, g2⟩ := ih.expr ts0 1 _ e r2 h0 (by suff) h2
    have e3 := expect_suffix h3
    obtain ⟨s4, g4, l4, r4⟩ := ih.indexChain ts0 _ _ _ r3 res r h0 (by suff)
      ((ha.mono (by suff)).snoc (g2.mono (by suff)))
      (by
        intro p hq; rcases List.mem_append.1 hq with h' | h'
        · exact (hl p h').mono (by suff)
        · simp at h'; subst h'; exact hp_lt_all h0 hs (by suff))
      (by
        intro p hq; rcases List.mem_append.1 hq with h' | h'
        · exact (hr p h').mono (by suff)
        · simp at h'; subst h'; exact hp_lt_all h0 (by suff) e3) h
    exact ⟨by suff, g4, l4, r4⟩
  · cases h; exact ⟨List.suffix_refl _, ha, hl, hr⟩

theorem ord_attrChain {f} (ih : Ord f) : ∀ ts0 obj ts t r, Sorted ts0 → ts <:+ ts0 → Good ts obj →
    parsePosAttrChain (f+1) obj ts = some (t, r) → r <:+ ts ∧ Good r t := by
  intro ts0 obj ts t r h0 hs ho h
  simp only [parsePosAttrChain] at h
  split at h
  · rcases h2 : parsePosAttrY f (ts.drop 1) with _ | ⟨y, r1⟩ <;> simp only [h2, reduceCtorEq] at h
    obtain ⟨_, a2⟩ := (inv f).attrY (ts.drop 1) (ts.drop 1) y r1 (List.suffix_refl _) h2
    obtain ⟨s2, g2⟩ := ih.attrY ts0 _ y r1 h0 (by suff) h2
    have hord : ∀ q ∈ obj.allPos, ∀ q' ∈ y.allPos, q < q' := by
      intro q hq q' hq'
      obtain ⟨j, hj, rfl⟩ := aft_of_allOk a2 q' hq'
      exact ho.1 q hq j ((List.drop_suffix 1 ts).subset hj)
    obtain ⟨s3, g3⟩ := ih.attrChain ts0 _ r1 t r h0 (by suff) (good_attr (ho.mono (by suff)) g2 hord) h
    exact ⟨by suff, g3⟩
  · cases h; exact ⟨List.suffix_refl _, ho⟩

theorem ord_attrY {f} (ih : Ord f) : ∀ ts0 ts t r, Sorted ts0 → ts <:+ ts0 →
    parsePosAttrY (f+1) ts = some (t, r) → r <:+ ts ∧ Good r t := by
  intro ts0 ts t r h0 hs h
  cases ts with
  | nil => simp [parsePosAttrY] at h
  | cons i rest =>
    simp only [parsePosAttrY] at h
    have hi : Lt i.pos rest := hp_lt_all h0 hs (List.suffix_refl _)
    cases ht : i.typ <;> simp only [ht, reduceCtorEq] at h
    case ID =>
      obtain ⟨s, g⟩ := ih.attrYIdx ts0 (some (false, i.val, i.pos)) rest t r h0 (by suff)
        (by intro o ho; cases ho; exact hi) h
      exact ⟨by suff, g⟩
    case QUOTED_STRING =>
      split at h
      · obtain ⟨s, g⟩ := ih.attrYIdx ts0 (some (true, i.val, i.pos)) rest t r h0 (by suff)
          (by intro o ho; cases ho; exact hi) h
        exact ⟨by suff, g⟩
      · cases h
    case DOT =>
      split at h
      · obtain ⟨s, g⟩ := ih.attrYIdx ts0 none rest t r h0 (by suff) (by intro o ho; cases ho) h
        exact ⟨by suff, g⟩
      · cases h

theorem ord_attrYIdx {f} (ih : Ord f) : ∀ ts0 nm r t r', Sorted ts0 → r <:+ ts0 →
    (∀ o, nm = some o → Lt o.2.2 r) →
    parsePosAttrYIdx (f+1) nm r = some (t, r') → r' <:+ r ∧ Good r' t := by
  intro ts0 nm r t r' h0 hs hn h
  simp only [parsePosAttrYIdx] at h
  split at h
  · rcases h4 : parsePosIndexChain f [] [] [] r with _ | ⟨ic, r2⟩ <;> simp only [h4, reduceCtorEq] at h
    obtain ⟨s4, g4, l4, r4⟩ := ih.indexChain ts0 [] [] [] r ic r2 h0 hs GoodL.nil (by simp) (by simp) h4
    cases h
    exact ⟨s4, good_index g4 (fun o ho => (hn o ho).mono s4) l4 r4⟩
  · rcases nm with _ | ⟨q, v, p⟩ <;> simp only [reduceCtorEq] at h
    cases h
    exact ⟨List.suffix_refl _, good_ident (hn _ rfl)⟩

theorem ord_sliceChain {f} (ih : Ord f) : ∀ ts0 obj ts t r, Sorted ts0 → ts <:+ ts0 → Good ts obj →
    parsePosSliceChain (f+1) obj ts = some (t, r) → r <:+ ts ∧ Good r t := by
  intro ts0 obj ts t r h0 hs ho h
  simp only [parsePosSliceChain] at h
  split at h
  · rename_i hlb0
    have hlb := in_of_tk hlb0 (by decide)
    split at h
    · rcases h1 : parsePosSliceBody f none (skipE (ts.drop 1)) with _ | ⟨sl, r2⟩ <;>
        simp only [h1, reduceCtorEq] at h
      rcases h2 : mkSliceP obj sl.1 sl.2.1 sl.2.2.1 sl.2.2.2.1 (hp ts) sl.2.2.2.2 with _ | s <;>
        simp only [h2, reduceCtorEq] at h
      obtain ⟨s1, gs⟩ := slice_good ih h0 hs (by suff) hlb ho GoodO.none AllOkO.none h1 h2
      obtain ⟨s3, g3⟩ := ih.sliceChain ts0 s r2 t r h0 (by suff) gs h
      exact ⟨by suff, g3⟩
    · rcases hx : parsePosExpr f 1 (skipE (ts.drop 1)) with _ | ⟨e, r2⟩ <;> simp only [hx, reduceCtorEq] at h
      obtain ⟨_, ax⟩ := (inv f).expr (skipE (ts.drop 1)) 1 _ e r2 (List.suffix_refl _) hx
      obtain ⟨sx, gx⟩ := ih.expr ts0 1 _ e r2 h0 (by suff) hx
      rcases h1 : parsePosSliceBody f (some e) r2 with _ | ⟨sl, r3⟩ <;> simp only [h1, reduceCtorEq] at h
      rcases h2 : mkSliceP obj sl.1 sl.2.1 sl.2.2.1 sl.2.2.2.1 (hp ts) sl.2.2.2.2 with _ | s <;>
        simp only [h2, reduceCtorEq] at h
      obtain ⟨s1, gs⟩ := slice_good ih h0 hs (by suff) hlb ho (GoodO.some gx)
        (AllOkO.some (ax.mono (skipE_suffix _))) h1 h2
      obtain ⟨s3, g3⟩ := ih.sliceChain ts0 s r3 t r h0 (by suff) gs h
      exact ⟨by suff, g3⟩
  · cases h; exact ⟨List.suffix_refl _, ho⟩

theorem ord_sliceBody {f} (ih : Ord f) : ∀ ts0 st ts res r, Sorted ts0 → ts <:+ ts0 → GoodO ts st →
    parsePosSliceBody (f+1) st ts = some (res, r) →
    r <:+ ts ∧ GoodO r res.1 ∧ GoodO r res.2.1 ∧ GoodO r res.2.2.1 ∧ Lt res.2.2.2.2 r ∧
      ∀ q ∈ allPosO res.1 ++ allPosO res.2.1 ++ allPosO res.2.2.1, q < res.2.2.2.2 := by
  intro ts0 st ts res r h0 hs hst h
  simp only [parsePosSliceBody] at h
  rcases hc0 : expect .COLON ts with _ | r0 <;> simp only [hc0, reduceCtorEq] at h
  have e0 := expect_suffix hc0
  have tail : ∀ (stop : Option PP) (r2 : List Item), r2 <:+ ts → GoodO r2 stop →
      (if tk r2 = Tok.COLON then
        if tk (skipE (List.drop 1 r2)) = Tok.RIGHT_BRACKET then
          some ((st, stop, none, true, hp (skipE (List.drop 1 r2))), List.drop 1 (skipE (List.drop 1 r2)))
        else
          match parsePosExpr f 1 (skipE (List.drop 1 r2)) with
          | some (e, r4) =>
            match expect Tok.RIGHT_BRACKET r4 with
            | some r5 => some ((st, stop, some e, true, hp r4), r5)
            | none => none
          | none => none
      else
        match expect Tok.RIGHT_BRACKET r2 with
        | some r3 => some ((st, stop, none, false, hp r2), r3)
        | none => none) = some (res, r) →
      r <:+ ts ∧ GoodO r res.1 ∧ GoodO r res.2.1 ∧ GoodO r res.2.2.1 ∧ Lt res.2.2.2.2 r ∧
        ∀ q ∈ allPosO res.1 ++ allPosO res.2.1 ++ allPosO res.2.2.1, q < res.2.2.2.2 := by
    intro stop r2 s2 ostop h
    split at h
    · split at h
      · rename_i hrb
        cases h
        exact ⟨by suff, hst.mono (by suff), ostop.mono (by suff), GoodO.none,
          hp_lt_all h0 (by suff) (List.suffix_refl _),
          ub3 (hst.mono (by suff)) (ostop.mono (by suff)) GoodO.none (in_of_tk hrb (by decide))⟩
      · rcases h3 : parsePosExpr f 1 (skipE (r2.drop 1)) with _ | ⟨e', r4⟩ <;> simp only [h3, reduceCtorEq] at h
        rcases h5 : expect .RIGHT_BRACKET r4 with _ | r5 <;> simp only [h5, reduceCtorEq] at h
        obtain ⟨s3, g3⟩ := ih.expr ts0 1 _ e' r4 h0 (by suff) h3
        have e5 := expect_suffix h5
        cases h
        exact ⟨by suff, hst.mono (by suff), ostop.mono (by suff), GoodO.some (g3.mono (by suff)),
          hp_lt_all h0 (by suff) e5,
          ub3 (hst.mono (by suff)) (ostop.mono (by suff)) (GoodO.some g3) (in_of_expect h5)⟩
    · rcases h5 : expect .RIGHT_BRACKET r2 with _ | r3 <;> simp only [h5, reduceCtorEq] at h
      have e5 := expect_suffix h5
      cases h
      exact ⟨by suff, hst.mono (by suff), ostop.mono (by suff), GoodO.none,
        hp_lt_all h0 (by suff) e5,
        ub3 (hst.mono s2) ostop GoodO.none (in_of_expect h5)⟩
  by_cases hc : (decide (tk (skipE r0) = Tok.COLON) || decide (tk (skipE r0) = Tok.RIGHT_BRACKET)) = true
  · simp only [hc, ↓reduceIte] at h
    exact tail none (skipE r0) (by suff) GoodO.none h
  · simp only [hc, Bool.false_eq_true, ↓reduceIte] at h
    rcases h2 : parsePosExpr f 1 (skipE r0) with _ | ⟨e, r2⟩ <;> simp only [h2, reduceCtorEq] at h
    obtain ⟨s2, g2⟩ := ih.expr ts0 1 _ e r2 h0 (by suff) h2
    exact tail (some e) r2 (by suff) (GoodO.some g2) h

theorem ord_args {f} (ih : Ord f) : ∀ ts0 acc ts res r, Sorted ts0 → ts <:+ ts0 → GoodL ts acc →
    parsePosArgs (f+1) acc ts = some (res, r) →
    r <:+ ts ∧ GoodL r res.1 ∧ Lt res.2 r ∧ ∀ q ∈ allPosL res.1, q < res.2 := by
  intro ts0 acc ts res r h0 hs ha h
  simp only [parsePosArgs] at h
  rcases h1 : parsePosExpr f 1 ts with _ | ⟨e, r1⟩ <;> simp only [h1, reduceCtorEq] at h
  obtain ⟨s1, g1⟩ := ih.expr ts0 1 ts e r1 h0 hs h1
  have tail : ∀ (arg : PP) (r' : List Item), r' <:+ ts → Good r' arg →
      (if tk r' = Tok.COMMA then
        if tk (skipE (List.drop 1 r')) = Tok.RIGHT_PAREN then
          some ((acc ++ [arg], hp (skipE (List.drop 1 r'))), List.drop 1 (skipE (List.drop 1 r')))
        else parsePosArgs f (acc ++ [arg]) (skipE (List.drop 1 r'))
      else
        match expect Tok.RIGHT_PAREN (skipE r') with
        | some r3 => some ((acc ++ [arg], hp (skipE r')), r3)
        | none => none) = some (res, r) →
      r <:+ ts ∧ GoodL r res.1 ∧ Lt res.2 r ∧ ∀ q ∈ allPosL res.1, q < res.2 := by
    intro arg r' s' oa h
    split at h
    · split at h
      · rename_i hrp
        cases h
        have gl : GoodL (skipE (List.drop 1 r')) (acc ++ [arg]) := (ha.mono (by suff)).snoc (oa.mono (by suff))
        exact ⟨by suff, gl.mono (by suff), hp_lt_all h0 (by suff) (List.suffix_refl _),
          befL_lt gl (in_of_tk hrp (by decide))⟩
      · obtain ⟨s2, g2, l2, u2⟩ := ih.args ts0 _ _ res r h0 (by suff)
          ((ha.mono (by suff)).snoc (oa.mono (by suff))) h
        exact ⟨by suff, g2, l2, u2⟩
    · rcases h5 : expect .RIGHT_PAREN (skipE r') with _ | r3 <;> simp only [h5, reduceCtorEq] at h
      have e5 := expect_suffix h5
      cases h
      have gl : GoodL (skipE r') (acc ++ [arg]) := (ha.mono (by suff)).snoc (oa.mono (by suff))
      exact ⟨by suff, gl.mono (by suff), hp_lt_all h0 (by suff) e5, befL_lt gl (in_of_expect h5)⟩
  cases e
  case ident q v p =>
    simp only at h
    by_cases hq : tk r1 = Tok.EQ
    · simp only [hq, ↓reduceIte] at h
      rcases h2 : parsePosExpr f 1 (skipE (r1.drop 1)) with _ | ⟨v', r2⟩ <;> simp only [h2, reduceCtorEq] at h
      obtain ⟨_, a2⟩ := (inv f).expr (skipE (r1.drop 1)) 1 _ v' r2 (List.suffix_refl _) h2
      obtain ⟨s2, g2⟩ := ih.expr ts0 1 _ v' r2 h0 (by suff) h2
      exact tail _ r2 (by suff)
        (good_assign (GoodL.single (g1.mono (by suff))) (GoodL.single g2)
          (hp_lt_all h0 (by suff) (by suff))
          (befL_lt (GoodL.single g1) (in_of_tk hq (by decide)))
          (hp_lt_aftL h0 (by suff : r1 <:+ ts0) (skipE_suffix _) (AllOkL.single a2))) h
    · simp only [hq, ↓reduceIte] at h
      exact tail _ r1 s1 g1 h
  all_goals (simp only at h; exact tail _ r1 s1 g1 h)

theorem ord_listElems {f} (ih : Ord f) : ∀ ts0 acc ts res r, Sorted ts0 → ts <:+ ts0 → GoodL ts acc →
    parsePosListElems (f+1) acc ts = some (res, r) →
    r <:+ ts ∧ GoodL r res.1 ∧ Lt res.2 r ∧ ∀ q ∈ allPosL res.1, q < res.2 := by
  intro ts0 acc ts res r h0 hs ha h
  simp only [parsePosListElems] at h
  rcases h1 : parsePosExpr f 1 ts with _ | ⟨e, r1⟩ <;> simp only [h1, reduceCtorEq] at h
  obtain ⟨s1, g1⟩ := ih.expr ts0 1 ts e r1 h0 hs h1
  split at h
  · rename_i hrb
    cases h
    have gl : GoodL (skipE r1) (acc ++ [e]) := (ha.mono (by suff)).snoc (g1.mono (by suff))
    exact ⟨by suff, gl.mono (by suff), hp_lt_all h0 (by suff) (List.suffix_refl _),
      befL_lt gl (in_of_tk hrb (by decide))⟩
  · split at h
    · split at h
      · rename_i hrb
        cases h
        have gl : GoodL (skipE (List.drop 1 (skipE r1))) (acc ++ [e]) :=
          (ha.mono (by suff)).snoc (g1.mono (by suff))
        exact ⟨by suff, gl.mono (by suff), hp_lt_all h0 (by suff) (List.suffix_refl _),
          befL_lt gl (in_of_tk hrb (by decide))⟩
      · obtain ⟨s2, g2, l2, u2⟩ := ih.listElems ts0 _ _ res r h0 (by suff)
          ((ha.mono (by suff)).snoc (g1.mono (by suff))) h
        exact ⟨by suff, g2, l2, u2⟩
    · cases h

theorem ord_mapElems {f} (ih : Ord f) : ∀ ts0 acc ts res r, Sorted ts0 → ts <:+ ts0 → GoodKV ts acc →
    parsePosMapElems (f+1) acc ts = some (res, r) →
    r <:+ ts ∧ GoodKV r res.1 ∧ Lt res.2 r ∧ ∀ q ∈ allPosKV res.1, q < res.2 := by
  intro ts0 acc ts res r h0 hs ha h
  simp only [parsePosMapElems] at h
  rcases h1 : parsePosExpr f 1 ts with _ | ⟨k, r1⟩ <;> simp only [h1, reduceCtorEq] at h
  obtain ⟨s1, g1⟩ := ih.expr ts0 1 ts k r1 h0 hs h1
  rcases h2 : expect .COLON r1 with _ | r2 <;> simp only [h2, reduceCtorEq] at h
  have e2 := expect_suffix h2
  rcases h3 : parsePosExpr f 1 (skipE r2) with _ | ⟨v, r3⟩ <;> simp only [h3, reduceCtorEq] at h
  obtain ⟨s3, g3⟩ := ih.expr ts0 1 _ v r3 h0 (by suff) h3
  split at h
  · split at h
    · rename_i hrb
      cases h
      have gl : GoodKV (skipE (List.drop 1 r3)) (acc ++ [(k, v)]) :=
        (ha.mono (by suff)).snoc (g1.mono (by suff)) (g3.mono (by suff))
      exact ⟨by suff, gl.mono (by suff), hp_lt_all h0 (by suff) (List.suffix_refl _),
        befKV_lt gl (in_of_tk hrb (by decide))⟩
    · obtain ⟨s4, g4, l4, u4⟩ := ih.mapElems ts0 _ _ res r h0 (by suff)
        ((ha.mono (by suff)).snoc (g1.mono (by suff)) (g3.mono (by suff))) h
      exact ⟨by suff, g4, l4, u4⟩
  · rcases h5 : expect .RIGHT_BRACE (skipE r3) with _ | r4 <;> simp only [h5, reduceCtorEq] at h
    have e5 := expect_suffix h5
    cases h
    have gl : GoodKV (skipE r3) (acc ++ [(k, v)]) :=
      (ha.mono (by suff)).snoc (g1.mono (by suff)) (g3.mono (by suff))
    exact ⟨by suff, gl.mono (by suff), hp_lt_all h0 (by suff) e5, befKV_lt gl (in_of_expect h5)⟩

theorem ord_commaParams {f} (ih : Ord f) : ∀ ts0 acc ts res r, Sorted ts0 → ts <:+ ts0 → GoodL ts acc →
    parsePosCommaParams (f+1) acc ts = some (res, r) → r <:+ ts ∧ GoodL r res := by
  intro ts0 acc ts res r h0 hs ha h
  simp only [parsePosCommaParams] at h
  rcases h1 : parsePosExpr f 1 ts with _ | ⟨e, r1⟩ <;> simp only [h1, reduceCtorEq] at h
  obtain ⟨s1, g1⟩ := ih.expr ts0 1 ts e r1 h0 hs h1
  split at h
  · obtain ⟨s2, g2⟩ := ih.commaParams ts0 _ _ res r h0 (by suff)
      ((ha.mono (by suff)).snoc (g1.mono (by suff))) h
    exact ⟨by suff, g2⟩
  · cases h; exact ⟨s1, (ha.mono s1).snoc g1⟩

theorem ord_simple {f} (ih : Ord f) : ∀ ts0 ts t r, Sorted ts0 → ts <:+ ts0 →
    parsePosSimple (f+1) ts = some (t, r) → r <:+ ts ∧ Good r t := by
  intro ts0 ts t r h0 hs h
  simp only [parsePosSimple] at h
  rcases h1 : parsePosCommaParams f [] ts with _ | ⟨es, r1⟩ <;> simp only [h1, reduceCtorEq] at h
  obtain ⟨s1, g1⟩ := ih.commaParams ts0 [] ts es r1 h0 hs GoodL.nil h1
  split at h
  · rename_i heq
    rcases h2 : parsePosCommaParams f [] (skipE (r1.drop 1)) with _ | ⟨rs, r2⟩ <;>
      simp only [h2, reduceCtorEq] at h
    obtain ⟨_, a2⟩ := (inv f).commaParams (skipE (r1.drop 1)) [] _ rs r2 (List.suffix_refl _) AllOkL.nil h2
    obtain ⟨s2, g2⟩ := ih.commaParams ts0 [] _ rs r2 h0 (by suff) GoodL.nil h2
    cases h
    exact ⟨by suff, good_assign (g1.mono (by suff)) g2 (hp_lt_all h0 (by suff) (by suff))
      (befL_lt g1 (in_of_tk heq (by decide)))
      (hp_lt_aftL h0 (by suff : r1 <:+ ts0) (skipE_suffix _) a2)⟩
  · rcases ha : asgOf (tk r1) with _ | op <;> simp only [ha] at h
    · rcases es with _ | ⟨e, _ | ⟨e2, es⟩⟩ <;> simp only [reduceCtorEq] at h
      cases h
      exact ⟨s1, g1 _ (by simp)⟩
    · rcases es with _ | ⟨e, _ | ⟨e2, es⟩⟩ <;> simp only [reduceCtorEq] at h
      rcases h3 : parsePosExpr f 1 (skipE (r1.drop 1)) with _ | ⟨v, r2⟩ <;> simp only [h3, reduceCtorEq] at h
      obtain ⟨_, a3⟩ := (inv f).expr (skipE (r1.drop 1)) 1 _ v r2 (List.suffix_refl _) h3
      obtain ⟨s3, g3⟩ := ih.expr ts0 1 _ v r2 h0 (by suff) h3
      cases h
      have hk := asgTok_of_asgOf ha
      have hin : In r1 (hp r1) (asgTok op) := in_of_tk hk.symm (hk ▸ asgOf_ne_eof ha)
      exact ⟨by suff, good_assign (g1.mono (by suff)) (GoodL.single g3) (hp_lt_all h0 (by suff) (by suff))
        (befL_lt g1 hin)
        (hp_lt_aftL h0 (by suff : r1 <:+ ts0) (skipE_suffix _) (AllOkL.single a3))⟩

theorem ord_block {f} (ih : Ord f) : ∀ ts0 ts b r, Sorted ts0 → ts <:+ ts0 →
    parsePosBlock (f+1) ts = some (b, r) → r <:+ ts ∧ GoodL r b := by
  intro ts0 ts b r h0 hs h
  simp only [parsePosBlock] at h
  rcases hb : expect .LEFT_BRACE ts with _ | r0 <;> simp only [hb, reduceCtorEq] at h
  have e0 := expect_suffix hb
  split at h
  · cases h; exact ⟨by suff, GoodL.nil⟩
  · rcases h1 : parsePosStmts f (skipE r0) with _ | ⟨ss, r2⟩ <;> simp only [h1, reduceCtorEq] at h
    rcases h2 : expect .RIGHT_BRACE r2 with _ | r3 <;> simp only [h2, reduceCtorEq] at h
    have e2 := expect_suffix h2
    obtain ⟨s1, g1⟩ := ih.stmts ts0 _ ss r2 h0 (by suff) h1
    cases h; exact ⟨by suff, g1.mono (by suff)⟩

theorem ord_stmts {f} (ih : Ord f) : ∀ ts0 ts b r, Sorted ts0 → ts <:+ ts0 →
    parsePosStmts (f+1) ts = some (b, r) → r <:+ ts ∧ GoodL r b := by
  intro ts0 ts b r h0 hs h
  simp only [parsePosStmts] at h
  split at h
  · obtain ⟨s, g⟩ := ih.stmtsAfterSep ts0 [] _ b r h0 (by suff) GoodL.nil h
    exact ⟨by suff, g⟩
  · rcases h1 : parsePosStmt f ts with _ | ⟨s, r1⟩ <;> simp only [h1, reduceCtorEq] at h
    obtain ⟨s1, g1⟩ := ih.stmt ts0 ts s r1 h0 hs h1
    obtain ⟨s2, g2⟩ := ih.stmtsTail ts0 [s] r1 b r h0 (by suff) (GoodL.single g1) h
    exact ⟨by suff, g2⟩

theorem ord_stmtsTail {f} (ih : Ord f) : ∀ ts0 acc ts b r, Sorted ts0 → ts <:+ ts0 → GoodL ts acc →
    parsePosStmtsTail (f+1) acc ts = some (b, r) → r <:+ ts ∧ GoodL r b := by
  intro ts0 acc ts b r h0 hs ha h
  simp only [parsePosStmtsTail] at h
  split at h
  · obtain ⟨s, g⟩ := ih.stmtsAfterSep ts0 acc _ b r h0 (by suff) (ha.mono (by suff)) h
    exact ⟨by suff, g⟩
  · cases h; exact ⟨List.suffix_refl _, ha⟩

theorem ord_stmtsAfterSep {f} (ih : Ord f) : ∀ ts0 acc ts b r, Sorted ts0 → ts <:+ ts0 → GoodL ts acc →
    parsePosStmtsAfterSep (f+1) acc ts = some (b, r) → r <:+ ts ∧ GoodL r b := by
  intro ts0 acc ts b r h0 hs ha h
  simp only [parsePosStmtsAfterSep] at h
  split at h
  · cases h; exact ⟨List.suffix_refl _, ha⟩
  · rcases h1 : parsePosStmt f ts with _ | ⟨s, r1⟩ <;> simp only [h1, reduceCtorEq] at h
    obtain ⟨s1, g1⟩ := ih.stmt ts0 ts s r1 h0 hs h1
    obtain ⟨s2, g2⟩ := ih.stmtsTail ts0 _ r1 b r h0 (by suff) ((ha.mono s1).snoc g1) h
    exact ⟨by suff, g2⟩

theorem ord_stmt {f} (ih : Ord f) : ∀ ts0 ts t r, Sorted ts0 → ts <:+ ts0 →
    parsePosStmt (f+1) ts = some (t, r) → r <:+ ts ∧ Good r t := by
  intro ts0 ts t r h0 hs h
  cases ts with
  | nil => simp [parsePosStmt] at h
  | cons i rest =>
    simp only [parsePosStmt] at h
    have hi : Lt i.pos rest := hp_lt_all h0 hs (List.suffix_refl _)
    cases ht : i.typ <;> simp only [ht] at h
    case IF =>
      rcases h1 : parsePosExpr f 1 rest with _ | ⟨c, r1⟩ <;> simp only [h1, reduceCtorEq] at h
      rcases h2 : parsePosBlock f r1 with _ | ⟨b, r2⟩ <;> simp only [h2, reduceCtorEq] at h
      obtain ⟨s1, g1⟩ := ih.expr ts0 1 rest c r1 h0 (by suff) h1
      obtain ⟨s2, g2⟩ := ih.block ts0 r1 b r2 h0 (by suff) h2
      obtain ⟨s3, g3⟩ := ih.elifs ts0 _ r2 t r h0 (by suff)
        (GoodIfs.single (hi.mono (by suff)) (g1.mono (by suff)) g2) h
      exact ⟨by suff, g3⟩
    case FOR =>
      obtain ⟨s, g⟩ := ih.for_ ts0 i.pos rest t r h0 (by suff) hi h
      exact ⟨by suff, g⟩
    case BREAK => cases h; exact ⟨by suff, good_brk hi⟩
    case CONTINUE => cases h; exact ⟨by suff, good_cont hi⟩
    all_goals exact ih.simple ts0 _ t r h0 hs h

theorem ord_elifs {f} (ih : Ord f) : ∀ ts0 acc ts t r, Sorted ts0 → ts <:+ ts0 → GoodIfs ts acc →
    parsePosElifs (f+1) acc ts = some (t, r) → r <:+ ts ∧ Good r t := by
  intro ts0 acc ts t r h0 hs ha h
  simp only [parsePosElifs] at h
  split at h
  · rcases h1 : parsePosExpr f 1 (ts.drop 1) with _ | ⟨c, r1⟩ <;> simp only [h1, reduceCtorEq] at h
    rcases h2 : parsePosBlock f r1 with _ | ⟨b, r2⟩ <;> simp only [h2, reduceCtorEq] at h
    obtain ⟨s1, g1⟩ := ih.expr ts0 1 _ c r1 h0 (by suff) h1
    obtain ⟨s2, g2⟩ := ih.block ts0 r1 b r2 h0 (by suff) h2
    obtain ⟨s3, g3⟩ := ih.elifs ts0 _ r2 t r h0 (by suff)
      ((ha.mono (by suff)).snoc (hp_lt_all h0 hs (by suff)) (g1.mono (by suff)) g2) h
    exact ⟨by suff, g3⟩
  · split at h
    · rcases h2 : parsePosBlock f (ts.drop 1) with _ | ⟨b, r2⟩ <;> simp only [h2, reduceCtorEq] at h
      obtain ⟨s2, g2⟩ := ih.block ts0 _ b r2 h0 (by suff) h2
      cases h
      exact ⟨by suff, good_ifelse (ha.mono (by suff)) (by
        intro e he; cases he; exact ⟨hp_lt_all h0 hs (by suff), g2⟩)⟩
    · cases h; exact ⟨List.suffix_refl _, good_ifelse ha (by intro e he; cases he)⟩

theorem ord_for {f} (ih : Ord f) : ∀ ts0 fp ts t r, Sorted ts0 → ts <:+ ts0 → Lt fp ts →
    parsePosFor (f+1) fp ts = some (t, r) → r <:+ ts ∧ Good r t := by
  intro ts0 fp ts t r h0 hs hf h
  simp only [parsePosFor] at h
  split at h
  · obtain ⟨s, g⟩ := ih.forRest ts0 fp none _ t r h0 (by suff) (hf.mono (by suff)) GoodO.none
      (by intro q hq; simp [allPosO] at hq) h
    exact ⟨by suff, g⟩
  · rcases h1 : parsePosSimple f ts with _ | ⟨s, r1⟩ <;> simp only [h1, reduceCtorEq] at h
    obtain ⟨_, a1⟩ := (inv f).simple ts ts s r1 (List.suffix_refl _) h1
    obtain ⟨s1, g1⟩ := ih.simple ts0 ts s r1 h0 hs h1
    split at h
    · rcases h2 : parsePosBlock f r1 with _ | ⟨b, r2⟩ <;> simp only [h2, reduceCtorEq] at h
      obtain ⟨s2, g2⟩ := ih.block ts0 r1 b r2 h0 (by suff) h2
      rcases h3 : mkForInP fp s b with _ | st <;> simp only [h3, reduceCtorEq] at h
      cases h
      exact ⟨by suff, good_mkForInP h3 (g1.mono (by suff)) g2 (hf.mono (by suff))⟩
    · rcases h2 : expect .SEMICOLON r1 with _ | r2 <;> simp only [h2, reduceCtorEq] at h
      have e2 := expect_suffix h2
      obtain ⟨s3, g3⟩ := ih.forRest ts0 fp (some s) r2 t r h0 (by suff) (hf.mono (by suff))
        (GoodO.some (g1.mono (by suff)))
        (by
          intro q hq
          obtain ⟨y, hy, hq'⟩ := mem_allPosO.1 hq
          cases hy
          obtain ⟨j, hj, rfl⟩ := aft_of_allOk a1 q hq'
          exact hf j hj) h
      exact ⟨by suff, g3⟩

theorem lt_aft {fp : Nat} {ts x : List Item} {y : PP} (hf : Lt fp ts) (hx : x <:+ ts) (hy : AllOk x y) :
    ∀ q ∈ y.allPos, fp < q := by
  intro q hq
  obtain ⟨j, hj, rfl⟩ := aft_of_allOk hy q hq
  exact hf j (hx.subset hj)
theorem lt_aftL {fp : Nat} {ts x : List Item} {b : List PP} (hf : Lt fp ts) (hx : x <:+ ts)
    (hb : AllOkL x b) : ∀ q ∈ allPosL b, fp < q := by
  intro q hq
  obtain ⟨y, hy, hq'⟩ := mem_allPosL.1 hq
  exact lt_aft hf hx (hb y hy) q hq'
theorem forS_ord {fp : Nat} {i c l : Option PP} {b : List PP} (hi : ∀ q ∈ allPosO i, fp < q)
    (hc : ∀ q ∈ allPosO c, fp < q) (hl : ∀ q ∈ allPosO l, fp < q) (hb : ∀ q ∈ allPosL b, fp < q) :
    ∀ q ∈ allPosO i ++ allPosO c ++ allPosO l ++ allPosL b, fp < q := by
  intro q hq
  rcases List.mem_append.1 hq with h | h
  · rcases List.mem_append.1 h with h | h
    · rcases List.mem_append.1 h with h | h
      · exact hi q h
      · exact hc q h
    · exact hl q h
  · exact hb q h

theorem ord_forRest {f} (ih : Ord f) : ∀ ts0 fp init ts t r, Sorted ts0 → ts <:+ ts0 → Lt fp ts →
    GoodO ts init → (∀ q ∈ allPosO init, fp < q) →
    parsePosForRest (f+1) fp init ts = some (t, r) → r <:+ ts ∧ Good r t := by
  intro ts0 fp init ts t r h0 hs hf hi hinit h
  simp only [parsePosForRest] at h
  have tail : ∀ (cond : Option PP) (r0 : List Item), r0 <:+ ts → GoodO r0 cond →
      (∀ q ∈ allPosO cond, fp < q) →
      (match expect Tok.SEMICOLON r0 with
        | none => none
        | some r1 =>
          match
            if tk r1 = Tok.LEFT_BRACE then
              match parsePosBlock f r1 with
              | some (b, r2) => if stmtEnd (tk r2) = true then some (b, r2) else none
              | none => none
            else none with
          | some (b, r2) => some (PP.forS init cond none b fp, r2)
          | none =>
            match parsePosSimple f r1 with
            | some (l, r2) =>
              match parsePosBlock f r2 with
              | some (b, r3) => some (PP.forS init cond (some l) b fp, r3)
              | none => none
            | none => none) = some (t, r) → r <:+ ts ∧ Good r t := by
    intro cond r0 s0 oc hcond h
    rcases h1 : expect .SEMICOLON r0 with _ | r1 <;> simp only [h1, reduceCtorEq] at h
    have e1 := expect_suffix h1
    have rest : (match parsePosSimple f r1 with
          | some (l, r2) =>
            match parsePosBlock f r2 with
            | some (b, r3) => some (PP.forS init cond (some l) b fp, r3)
            | none => none
          | none => none) = some (t, r) → r <:+ ts ∧ Good r t := by
      intro h
      rcases h2 : parsePosSimple f r1 with _ | ⟨l, r2⟩ <;> simp only [h2, reduceCtorEq] at h
      rcases h3 : parsePosBlock f r2 with _ | ⟨b, r3⟩ <;> simp only [h3, reduceCtorEq] at h
      obtain ⟨_, a2⟩ := (inv f).simple r1 r1 l r2 (List.suffix_refl _) h2
      obtain ⟨s2, g2⟩ := ih.simple ts0 r1 l r2 h0 (by suff) h2
      obtain ⟨_, a3⟩ := (inv f).block r2 r2 b r3 (List.suffix_refl _) h3
      obtain ⟨s3, g3⟩ := ih.block ts0 r2 b r3 h0 (by suff) h3
      cases h
      exact ⟨by suff, good_forS (hi.mono (by suff)) (oc.mono (by suff)) (GoodO.some (g2.mono (by suff))) g3
        (hf.mono (by suff))
        (forS_ord hinit hcond
          (by
            intro q hq
            obtain ⟨y, hy, hq'⟩ := mem_allPosO.1 hq
            cases hy
            exact lt_aft hf (by suff : r1 <:+ ts) a2 q hq')
          (lt_aftL hf (by suff : r2 <:+ ts) a3))⟩
    by_cases hb : tk r1 = Tok.LEFT_BRACE
    · simp only [hb, ↓reduceIte] at h
      rcases h2 : parsePosBlock f r1 with _ | ⟨b, r2⟩ <;> simp only [h2] at h
      · exact rest h
      · by_cases he : stmtEnd (tk r2) = true
        · simp only [he, ↓reduceIte] at h
          obtain ⟨_, a2⟩ := (inv f).block r1 r1 b r2 (List.suffix_refl _) h2
          obtain ⟨s2, g2⟩ := ih.block ts0 r1 b r2 h0 (by suff) h2
          cases h
          exact ⟨by suff, good_forS (hi.mono (by suff)) (oc.mono (by suff)) GoodO.none g2 (hf.mono (by suff))
            (forS_ord hinit hcond (by intro q hq; simp [allPosO] at hq)
              (lt_aftL hf (by suff : r1 <:+ ts) a2))⟩
        · simp only [he, Bool.false_eq_true, ↓reduceIte] at h
          exact rest h
    · simp only [hb, ↓reduceIte] at h
      exact rest h
  by_cases hsc : tk ts = Tok.SEMICOLON
  · simp only [hsc, ↓reduceIte] at h
    exact tail none ts (List.suffix_refl _) GoodO.none (by intro q hq; simp [allPosO] at hq) h
  · simp only [hsc, ↓reduceIte] at h
    rcases h1 : parsePosExpr f 1 ts with _ | ⟨c, r1⟩ <;> simp only [h1, reduceCtorEq] at h
    obtain ⟨_, a1⟩ := (inv f).expr ts 1 ts c r1 (List.suffix_refl _) h1
    obtain ⟨s1, g1⟩ := ih.expr ts0 1 ts c r1 h0 hs h1
    exact tail (some c) r1 s1 (GoodO.some g1)
      (by
        intro q hq
        obtain ⟨y, hy, hq'⟩ := mem_allPosO.1 hq
        cases hy
        exact lt_aft hf (List.suffix_refl _) a1 q hq') h

theorem ord : ∀ f, Ord f
  | 0 => ord_zero
  | f+1 =>
    have ih := ord f
    { expr := ord_expr ih, binRest := ord_binRest ih, unary := ord_unary ih, primary := ord_primary ih
      afterIdent := ord_afterIdent ih, indexChain := ord_indexChain ih, attrChain := ord_attrChain ih
      attrY := ord_attrY ih, attrYIdx := ord_attrYIdx ih, sliceChain := ord_sliceChain ih
      sliceBody := ord_sliceBody ih, args := ord_args ih, listElems := ord_listElems ih
      mapElems := ord_mapElems ih, commaParams := ord_commaParams ih, simple := ord_simple ih
      block := ord_block ih, stmts := ord_stmts ih, stmtsTail := ord_stmtsTail ih
      stmtsAfterSep := ord_stmtsAfterSep ih, stmt := ord_stmt ih, elifs := ord_elifs ih
      for_ := ord_for ih, forRest := ord_forRest ih }

/-- every tree `parsePosItems` returns on items with increasing offsets is `sourceOrdered` -/
theorem parsePosItems_ordered {its : List Item} {tps : List PP} (h0 : Sorted its)
    (h : parsePosItems its = some tps) : ∀ tp ∈ tps, tp.sourceOrdered := by
  simp only [parsePosItems] at h
  split at h
  · cases h
  · split at h
    · split at h
      · cases h; intro tp htp; cases htp
      · cases h
    · rcases h1 : parsePosStmts (16 * (its.filter fun i => decide (i.typ ≠ .COMMENT)).length + 64)
          (skipE (its.filter fun i => decide (i.typ ≠ .COMMENT))) with _ | ⟨ss, r⟩ <;>
        simp only [h1, reduceCtorEq] at h
      split at h
      · cases h
        have hsort : Sorted (its.filter fun i => decide (i.typ ≠ .COMMENT)) :=
          List.Pairwise.sublist List.filter_sublist h0
        obtain ⟨_, g⟩ := (ord _).stmts (its.filter fun i => decide (i.typ ≠ .COMMENT)) _ _ r hsort
          (skipE_suffix _) h1
        exact fun tp htp => (g tp htp).2
      · cases h

end Platypus.ParsePos
