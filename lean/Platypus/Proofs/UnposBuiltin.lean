import Platypus.Proofs.UnposEval
/-!
# Layout independence, helper 4: the registered functions of the v1 interpreter

One lemma per registered function: the function on its argument list and on the position-free
argument list (positions of the call free as well) gives similar computations.  Arguments are
inspected only for their constructor (string/bool literal, identifier, attribute) and their key
name; positions reach `runErr` and the call-site entry appended to an error chain only.
-/
set_option linter.unusedVariables false
set_option linter.unusedSimpArgs false
namespace Platypus.LayoutSemantics
open Platypus Platypus.FrontEnd Platypus.MachineProofs

/-- unfold a builtin on both sides and normalise the position-free side -/
macro "bsimp" : tactic => `(tactic|
  simp only [Platypus.builtin, unposL, unpos, getKeyName_unpos, conv2str_unposEnv, ask_unposEnv, unposEnv_grok,
    unposL_length, reduceCtorEq, if_false, if_true])

/-- the first argument whose *value* satisfies a predicate: the same index in an argument list and in
    the position-free list, so the selected nodes are the same tree -/
theorem find_zip_unposL (P : TV → Bool) : ∀ (r : List Node) (vs : List TV),
    ((unposL r).zip vs).find? (fun nx => P nx.2) =
      ((r.zip vs).find? (fun nx => P nx.2)).map (fun nx => (unpos nx.1, nx.2))
  | [], vs => rfl
  | x :: r, [] => rfl
  | x :: r, v :: vs => by
    simp only [unposL, List.zip_cons_cons, List.find?_cons]
    cases P v
    · exact find_zip_unposL P r vs
    · rfl

/-- close the goals in which the two searches disagree -/
macro "find_mismatch" : tactic => `(tactic|
  first
  | (rename_i h1 _ h2
     rw [find_zip_unposL (fun v => containsItself _ v.v), h1] at h2
     cases h2)
  | (rename_i h1 _ _ h2
     rw [find_zip_unposL (fun v => containsItself _ v.v), h1] at h2
     cases h2))

section
variable {env : Env} {f : Nat}

theorem b_exit (name : Bytes) (args : List Node) (np np' : Pos) (site : Nat) :
    Sim (builtin env (f+1) .exit name args np site) (builtin (unposEnv env) (f+1) .exit name (unposL args) np' site) := by
  bsimp; sim_tac

theorem b_addPattern (name : Bytes) (args : List Node) (np np' : Pos) (site : Nat) :
    Sim (builtin env (f+1) .addPattern name args np site)
      (builtin (unposEnv env) (f+1) .addPattern name (unposL args) np' site) := by
  bsimp; sim_tac

theorem b_addKey (ih : ESim env f) (name : Bytes) (args : List Node) (np np' : Pos) (site : Nat) :
    Sim (builtin env (f+1) .addKey name args np site) (builtin (unposEnv env) (f+1) .addKey name (unposL args) np' site) := by
  have h1 := ih.node
  rcases args with _ | ⟨k, _ | ⟨e, _ | ⟨x, r⟩⟩⟩ <;> bsimp <;> sim_tac
  intro s
  sim_res h1 e s
  · exact ResSim.refl _
  · exact ⟨he.append _ _ _, rfl⟩

theorem b_getKey (name : Bytes) (args : List Node) (np np' : Pos) (site : Nat) :
    Sim (builtin env (f+1) .getKey name args np site) (builtin (unposEnv env) (f+1) .getKey name (unposL args) np' site) := by
  rcases args with _ | ⟨k, _ | ⟨e, r⟩⟩ <;> bsimp <;> sim_tac

theorem b_setTag (ih : ESim env f) (name : Bytes) (args : List Node) (np np' : Pos) (site : Nat) :
    Sim (builtin env (f+1) .setTag name args np site) (builtin (unposEnv env) (f+1) .setTag name (unposL args) np' site) := by
  have h1 := ih.node
  rcases args with _ | ⟨k, _ | ⟨e, _ | ⟨x, r⟩⟩⟩ <;> bsimp <;> sim_tac

theorem b_dropKey (name : Bytes) (args : List Node) (np np' : Pos) (site : Nat) :
    Sim (builtin env (f+1) .dropKey name args np site) (builtin (unposEnv env) (f+1) .dropKey name (unposL args) np' site) := by
  rcases args with _ | ⟨k, _ | ⟨e, r⟩⟩ <;> bsimp <;> sim_tac

theorem b_rename (name : Bytes) (args : List Node) (np np' : Pos) (site : Nat) :
    Sim (builtin env (f+1) .rename name args np site) (builtin (unposEnv env) (f+1) .rename name (unposL args) np' site) := by
  rcases args with _ | ⟨k, _ | ⟨e, _ | ⟨x, r⟩⟩⟩ <;> bsimp <;> sim_tac

theorem b_sqlCover (name : Bytes) (args : List Node) (np np' : Pos) (site : Nat) :
    Sim (builtin env (f+1) .sqlCover name args np site) (builtin (unposEnv env) (f+1) .sqlCover name (unposL args) np' site) := by
  rcases args with _ | ⟨k, _ | ⟨e, r⟩⟩ <;> bsimp <;> sim_tac

theorem b_len (ih : ESim env f) (name : Bytes) (args : List Node) (np np' : Pos) (site : Nat) :
    Sim (builtin env (f+1) .len name args np site) (builtin (unposEnv env) (f+1) .len name (unposL args) np' site) := by
  have h1 := ih.node
  rcases args with _ | ⟨k, r⟩ <;> bsimp <;> sim_tac

theorem b_loadJson (ih : ESim env f) (name : Bytes) (args : List Node) (np np' : Pos) (site : Nat) :
    Sim (builtin env (f+1) .loadJson name args np site) (builtin (unposEnv env) (f+1) .loadJson name (unposL args) np' site) := by
  have h1 := ih.node
  rcases args with _ | ⟨k, r⟩ <;> bsimp <;> sim_tac

theorem b_p (ih : ESim env f) (name : Bytes) (args : List Node) (np np' : Pos) (site : Nat) :
    Sim (builtin env (f+1) .p name args np site) (builtin (unposEnv env) (f+1) .p name (unposL args) np' site) := by
  have h1 := ih.list
  bsimp; sim_tac

theorem b_pr (ih : ESim env f) (name : Bytes) (args : List Node) (np np' : Pos) (site : Nat) :
    Sim (builtin env (f+1) .pr name args np site) (builtin (unposEnv env) (f+1) .pr name (unposL args) np' site) := by
  have h1 := ih.list
  bsimp; sim_tac

theorem b_void (ih : ESim env f) (name : Bytes) (args : List Node) (np np' : Pos) (site : Nat) :
    Sim (builtin env (f+1) .void name args np site) (builtin (unposEnv env) (f+1) .void name (unposL args) np' site) := by
  have h1 := ih.list
  bsimp; sim_tac

theorem b_use (ih : ESim env f) (name : Bytes) (args : List Node) (np np' : Pos) (site : Nat) :
    Sim (builtin env (f+1) .use name args np site) (builtin (unposEnv env) (f+1) .use name (unposL args) np' site) := by
  rcases args with _ | ⟨a0, _ | ⟨a1, r⟩⟩
  · bsimp; sim_tac
  · cases a0
    case strLit v p =>
      bsimp
      simp only [unposEnv_bound]
      cases hb : env.bound site with
      | none => simp only [Option.map]; sim_tac
      | some b =>
        obtain ⟨cname, stmts⟩ := b
        simp only [Option.map]
        intro s
        sim_res (msim_all (env := env) ih.node f).stmts stmts { task := { name := cname, scopes := [[]] }, world := s.world }
        · exact ResSim.refl _
        · exact ⟨he.append _ _ _, rfl⟩
    all_goals
      bsimp
      sim_tac
  · cases a0 <;> bsimp <;> sim_tac

theorem b_cast (name : Bytes) (args : List Node) (np np' : Pos) (site : Nat) :
    Sim (builtin env (f+1) .cast name args np site) (builtin (unposEnv env) (f+1) .cast name (unposL args) np' site) := by
  rcases args with _ | ⟨k, _ | ⟨a1, _ | ⟨x, r⟩⟩⟩
  · bsimp; sim_tac
  · bsimp; sim_tac
  · cases a1 <;> bsimp <;> sim_tac
  · cases a1 <;> bsimp <;> sim_tac

theorem b_trim (name : Bytes) (args : List Node) (np np' : Pos) (site : Nat) :
    Sim (builtin env (f+1) .trim name args np site) (builtin (unposEnv env) (f+1) .trim name (unposL args) np' site) := by
  rcases args with _ | ⟨k, _ | ⟨a1, _ | ⟨x, r⟩⟩⟩
  · bsimp; sim_tac
  · bsimp; sim_tac
  · cases a1 <;> bsimp <;> sim_tac
  · cases a1 <;> bsimp <;> sim_tac

theorem b_uppercase (name : Bytes) (args : List Node) (np np' : Pos) (site : Nat) :
    Sim (builtin env (f+1) .uppercase name args np site)
      (builtin (unposEnv env) (f+1) .uppercase name (unposL args) np' site) := by
  rcases args with _ | ⟨k, r⟩ <;> bsimp <;> sim_tac

theorem b_urlDecode (name : Bytes) (args : List Node) (np np' : Pos) (site : Nat) :
    Sim (builtin env (f+1) .urlDecode name args np site)
      (builtin (unposEnv env) (f+1) .urlDecode name (unposL args) np' site) := by
  rcases args with _ | ⟨k, r⟩ <;> bsimp <;> sim_tac

theorem b_strfmt (ih : ESim env f) (name : Bytes) (args : List Node) (np np' : Pos) (site : Nat) :
    Sim (builtin env (f+1) .strfmt name args np site) (builtin (unposEnv env) (f+1) .strfmt name (unposL args) np' site) := by
  have h1 := ih.list
  rcases args with _ | ⟨k, _ | ⟨a1, r⟩⟩
  · bsimp; sim_tac
  · bsimp; sim_tac
  · cases a1 <;> bsimp <;> sim_tac <;> find_mismatch

theorem b_defaultTime (name : Bytes) (args : List Node) (np np' : Pos) (site : Nat) :
    Sim (builtin env (f+1) .defaultTime name args np site)
      (builtin (unposEnv env) (f+1) .defaultTime name (unposL args) np' site) := by
  rcases args with _ | ⟨k, _ | ⟨a1, r⟩⟩
  · bsimp; sim_tac
  · bsimp; sim_tac
  · cases a1 <;> bsimp <;> sim_tac

theorem b_xml (name : Bytes) (args : List Node) (np np' : Pos) (site : Nat) :
    Sim (builtin env (f+1) .xml name args np site) (builtin (unposEnv env) (f+1) .xml name (unposL args) np' site) := by
  rcases args with _ | ⟨k, _ | ⟨a1, r⟩⟩
  · bsimp; sim_tac
  · bsimp; sim_tac
  · cases a1 <;> rcases r with _ | ⟨a2, _ | ⟨x, r⟩⟩ <;> bsimp <;> sim_tac

theorem b_replace (name : Bytes) (args : List Node) (np np' : Pos) (site : Nat) :
    Sim (builtin env (f+1) .replace name args np site) (builtin (unposEnv env) (f+1) .replace name (unposL args) np' site) := by
  rcases args with _ | ⟨k, _ | ⟨a1, _ | ⟨a2, _ | ⟨x, r⟩⟩⟩⟩
  · bsimp; sim_tac
  · bsimp; sim_tac
  · cases a1 <;> bsimp <;> sim_tac
  · cases a1
    case strLit v p => cases a2 <;> bsimp <;> sim_tac
    all_goals (bsimp; sim_tac)
  · cases a1
    case strLit v p => cases a2 <;> bsimp <;> sim_tac
    all_goals (bsimp; sim_tac)

theorem b_datetime (name : Bytes) (args : List Node) (np np' : Pos) (site : Nat) :
    Sim (builtin env (f+1) .datetime name args np site) (builtin (unposEnv env) (f+1) .datetime name (unposL args) np' site) := by
  rcases args with _ | ⟨k, _ | ⟨a1, _ | ⟨a2, _ | ⟨x, r⟩⟩⟩⟩
  · bsimp; sim_tac
  · bsimp; sim_tac
  · cases a1 <;> bsimp <;> sim_tac
  · cases a1
    case strLit v p => cases a2 <;> bsimp <;> sim_tac
    all_goals (bsimp; sim_tac)
  · cases a1
    case strLit v p => cases a2 <;> bsimp <;> sim_tac
    all_goals (bsimp; sim_tac)

theorem b_printf (ih : ESim env f) (name : Bytes) (args : List Node) (np np' : Pos) (site : Nat) :
    Sim (builtin env (f+1) .printf name args np site) (builtin (unposEnv env) (f+1) .printf name (unposL args) np' site) := by
  have h1 := ih.node
  have h2 := ih.list
  rcases args with _ | ⟨a0, rest⟩
  · bsimp; sim_tac
  · bsimp
    intro s
    sim_res h1 a0 s
    · split
      · split
        · exact ResSim.refl _
        · exact (show Sim _ _ by sim_tac <;> find_mismatch) s'
      · exact ResSim.refl _
    · exact ResSim.refl _

end
end Platypus.LayoutSemantics
