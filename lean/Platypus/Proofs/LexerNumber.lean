import Platypus.Proofs.LexerBasic
/-!
`scanNumber` only moves `pos` forward inside the input, and strictly so when it starts at a digit.
-/
namespace Platypus.Lex

/-- `l'` is `l` with `pos` advanced inside the input (and other fields, except `input`/`start`, arbitrary) -/
structure Adv (l l' : L) : Prop where
  input_eq : l'.input = l.input
  start_eq : l'.start = l.start
  pos_le : l.pos ≤ l'.pos
  le_len : l'.pos ≤ l.input.length

theorem Adv.refl (l : L) (h : l.pos ≤ l.input.length) : Adv l l := ⟨rfl, rfl, Nat.le_refl _, h⟩

theorem Adv.trans {a b c : L} (h1 : Adv a b) (h2 : Adv b c) : Adv a c :=
  ⟨h2.input_eq.trans h1.input_eq, h2.start_eq.trans h1.start_eq, Nat.le_trans h1.pos_le h2.pos_le,
    by have := h2.le_len; rw [h1.input_eq] at this; exact this⟩

theorem adv_nx (l : L) (h : l.pos ≤ l.input.length) : Adv l (nx l) :=
  ⟨rfl, rfl, by simp, by simpa using wAt_le l h⟩

theorem adv_backup_nx (l : L) (h : l.pos ≤ l.input.length) : Adv l (backup (nx l)) :=
  ⟨rfl, rfl, by simp, by simpa using h⟩

theorem backup_nx_pos (l : L) : (backup (nx l)).pos = l.pos := by simp

theorem accept_eq (l : L) (p : Rune → Bool) :
    accept l p = (p (rAt l), if p (rAt l) then nx l else backup (nx l)) := by
  simp only [accept, next_eq']
  split <;> simp_all

theorem adv_accept (l : L) (p : Rune → Bool) (h : l.pos ≤ l.input.length) : Adv l (accept l p).2 := by
  rw [accept_eq]
  simp only
  split
  · exact adv_nx l h
  · exact adv_backup_nx l h

theorem accept_true_strict (l : L) (p : Rune → Bool) (hp : (accept l p).1 = true) (he : p eof = false) :
    l.pos < (accept l p).2.pos := by
  rw [accept_eq] at hp ⊢
  simp only at hp ⊢
  rw [if_pos hp]
  have hne : rAt l ≠ eof := by intro h; rw [h, he] at hp; cases hp
  have := wAt_pos l hne
  simp; omega

theorem accept_false_pos (l : L) (p : Rune → Bool) (hp : (accept l p).1 = false) :
    (accept l p).2.pos = l.pos ∧ (accept l p).2.input = l.input := by
  rw [accept_eq] at hp ⊢
  simp only at hp ⊢
  rw [if_neg (by simp [hp])]
  simp

theorem adv_acceptRun (p : Rune → Bool) : ∀ (f : Nat) (l : L), l.pos ≤ l.input.length → Adv l (acceptRun f l p)
  | 0, l, h => Adv.refl l h
  | f+1, l, h => by
    simp only [acceptRun, next_eq']
    split
    · have h1 := adv_nx l h
      exact h1.trans (adv_acceptRun p f (nx l) (by have := h1.le_len; simpa using this))
    · exact adv_backup_nx l h

theorem acceptRun_strict (p : Rune → Bool) (f : Nat) (l : L) (h : l.pos ≤ l.input.length)
    (hp : p (rAt l) = true) (he : p eof = false) : l.pos < (acceptRun (f+1) l p).pos := by
  simp only [acceptRun, next_eq']
  rw [if_pos hp]
  have hne : rAt l ≠ eof := by intro h; rw [h, he] at hp; cases hp
  have hw := wAt_pos l hne
  have h1 := adv_nx l h
  have h2 := adv_acceptRun p f (nx l) (by have := h1.le_len; simpa using this)
  have := h2.pos_le
  simp at this
  omega

theorem scanNumber_spec (l : L) (h : l.pos ≤ l.input.length) :
    Adv l (scanNumber l).2 ∧ (isDigit (rAt l) = true → l.pos < (scanNumber l).2.pos) := by
  unfold scanNumber
  simp only []
  rcases h1 : accept l (fun x => x == 48) with ⟨z, l1⟩
  have a1 : Adv l l1 := by have := adv_accept l (fun x => x == 48) h; rw [h1] at this; exact this
  have s1 : z = true → l.pos < l1.pos := by
    intro hz
    have := accept_true_strict l (fun x => x == 48) (by rw [h1]; exact hz) (by decide)
    rw [h1] at this; exact this
  have s1' : z = false → l1.pos = l.pos ∧ l1.input = l.input := by
    intro hz
    have := accept_false_pos l (fun x => x == 48) (by rw [h1]; exact hz)
    rw [h1] at this; exact this
  simp only []
  have b1 : l1.pos ≤ l1.input.length := by rw [a1.input_eq]; exact a1.le_len
  rcases h2 : (if z = true then accept l1 (fun r => r == 120 || r == 88) else (false, l1)) with ⟨hex, l2⟩
  have a2 : Adv l1 l2 := by
    split at h2
    · have := adv_accept l1 (fun r => r == 120 || r == 88) b1; rw [h2] at this; exact this
    · injection h2 with _ h2; subst h2; exact Adv.refl _ b1
  have s2 : z = false → hex = false ∧ l2 = l1 := by
    intro hz; subst hz
    simp at h2
    exact ⟨h2.1, h2.2.symm⟩
  simp only []
  have b2 : l2.pos ≤ l2.input.length := by rw [a2.input_eq]; exact a2.le_len
  generalize hl3 : acceptRun (l.input.length + 1) l2 (if hex = true then isHexDigitR else isDigit) = l3
  have a3 : Adv l2 l3 := by rw [← hl3]; exact adv_acceptRun _ _ _ b2
  have b3 : l3.pos ≤ l3.input.length := by rw [a3.input_eq]; exact a3.le_len
  rcases h4 : accept l3 (fun x => x == 46) with ⟨dot, l4⟩
  have a4 : Adv l3 l4 := by have := adv_accept l3 (fun x => x == 46) b3; rw [h4] at this; exact this
  have b4 : l4.pos ≤ l4.input.length := by rw [a4.input_eq]; exact a4.le_len
  simp only []
  generalize hl5 : (if dot = true then acceptRun (l.input.length + 1) l4 (if hex = true then isHexDigitR else isDigit) else l4) = l5
  have a5 : Adv l4 l5 := by
    rw [← hl5]; split
    · exact adv_acceptRun _ _ _ b4
    · exact Adv.refl _ b4
  have b5 : l5.pos ≤ l5.input.length := by rw [a5.input_eq]; exact a5.le_len
  rcases h6 : accept l5 (fun r => r == 101 || r == 69) with ⟨ex, l6⟩
  have a6 : Adv l5 l6 := by have := adv_accept l5 (fun r => r == 101 || r == 69) b5; rw [h6] at this; exact this
  have b6 : l6.pos ≤ l6.input.length := by rw [a6.input_eq]; exact a6.le_len
  simp only []
  have a7 : Adv l6 (if ex = true then acceptRun (l.input.length + 1) (accept l6 (fun r => r == 43 || r == 45)).2 isDigit else l6) := by
    split
    · have c := adv_accept l6 (fun r => r == 43 || r == 45) b6
      exact c.trans (adv_acceptRun _ _ _ (by rw [c.input_eq]; exact c.le_len))
    · exact Adv.refl _ b6
  have a37 := ((a4.trans a5).trans a6).trans a7
  refine ⟨((a1.trans a2).trans a3).trans a37, ?_⟩
  intro hd
  have h37 := a37.pos_le
  cases z with
  | true =>
    have := s1 rfl
    have := a2.pos_le
    have := a3.pos_le
    omega
  | false =>
    obtain ⟨e1, e2⟩ := s1' rfl
    obtain ⟨e3, e4⟩ := s2 rfl
    subst e3 e4
    have hd' : isDigit (rAt l2) = true := by rw [rAt_congr l l2 e2 e1]; exact hd
    have := acceptRun_strict isDigit l.input.length l2 b2 hd' (by decide)
    simp only [Bool.false_eq_true, if_false] at hl3
    rw [hl3] at this
    omega

end Platypus.Lex
