import Platypus.Model.ParsePos
/-!
# C17 (tree part) helper lemmas, part 1: erasure of lists and of the constructor functions

`eraseL`, `eraseO`, … (the auxiliary functions of the structural recursion `PP.erase`) are the maps
one expects; the position-carrying constructor functions `mkUnaryP`, `mkBinP`, `mkSliceP`, `mkForInP`
behave like `mkUnary`, `mkBin`, `mkSlice`, `mkForIn` on the erased trees.
-/
namespace Platypus.ParsePos
open Platypus.Lex (Tok Item)
open Platypus.Parse

theorem eraseL_eq (xs : List PP) : eraseL xs = xs.map PP.erase := by
  induction xs with
  | nil => simp [eraseL]
  | cons x r ih => simp [eraseL, ih]

theorem eraseO_eq (x : Option PP) : eraseO x = x.map PP.erase := by
  cases x <;> simp [eraseO]

theorem eraseKV_eq (xs : List (PP × PP)) : eraseKV xs = xs.map fun kv => (kv.1.erase, kv.2.erase) := by
  induction xs with
  | nil => simp [eraseKV]
  | cons x r ih => obtain ⟨k, v⟩ := x; simp [eraseKV, ih]

theorem eraseIfs_eq (xs : List (Nat × PP × List PP)) :
    eraseIfs xs = xs.map fun e => (e.2.1.erase, e.2.2.map PP.erase) := by
  induction xs with
  | nil => simp [eraseIfs]
  | cons x r ih => obtain ⟨p, c, b⟩ := x; simp [eraseIfs, ih, eraseL_eq]

theorem eraseEls_eq (x : Option (Nat × List PP)) : eraseEls x = x.map fun e => e.2.map PP.erase := by
  cases x with
  | none => simp [eraseEls]
  | some e => obtain ⟨p, b⟩ := e; simp [eraseEls, eraseL_eq]

@[simp] theorem eraseL_nil : eraseL [] = [] := rfl
@[simp] theorem eraseKV_nil : eraseKV [] = [] := rfl
@[simp] theorem eraseO_none : eraseO none = none := rfl
@[simp] theorem eraseO_some (x : PP) : eraseO (some x) = some x.erase := rfl
@[simp] theorem eraseL_append (a b : List PP) : eraseL (a ++ b) = eraseL a ++ eraseL b := by
  simp [eraseL_eq]
@[simp] theorem eraseL_single (x : PP) : eraseL [x] = [x.erase] := rfl
@[simp] theorem eraseKV_append (a b : List (PP × PP)) : eraseKV (a ++ b) = eraseKV a ++ eraseKV b := by
  simp [eraseKV_eq]
@[simp] theorem eraseKV_single (k v : PP) : eraseKV [(k, v)] = [(k.erase, v.erase)] := rfl
@[simp] theorem eraseIfs_append (a b : List (Nat × PP × List PP)) :
    eraseIfs (a ++ b) = eraseIfs a ++ eraseIfs b := by
  simp [eraseIfs_eq]
@[simp] theorem eraseIfs_single (p : Nat) (c : PP) (b : List PP) :
    eraseIfs [(p, c, b)] = [(c.erase, eraseL b)] := rfl

/-! ### the constructor functions -/

theorem mkUnaryP_erase (op : UnOp) (i : Item) (e : PP) : (mkUnaryP op i e).erase = mkUnary op e.erase := by
  cases op <;> cases e <;> simp [mkUnaryP, mkUnary, PP.erase]

theorem mkBinP_erase (op : BOp) (p : Nat) (l r : PP) :
    mkBin op l.erase r.erase = (mkBinP op p l r).map PP.erase := by
  cases op <;> cases r <;> simp [mkBinP, mkBin, PP.erase] <;> split <;> simp [PP.erase]

theorem badBoundP_erase (a : Option PP) : badBound (eraseO a) = badBoundP a := by
  cases a with
  | none => rfl
  | some x => cases x <;> simp [badBound, badBoundP, PP.erase]

theorem mkSliceP_erase (obj : PP) (a b c : Option PP) (c2 : Bool) (lb rb : Nat) :
    mkSlice obj.erase (eraseO a) (eraseO b) (eraseO c) c2 = (mkSliceP obj a b c c2 lb rb).map PP.erase := by
  simp only [mkSlice, mkSliceP, badBoundP_erase]
  split <;> simp [PP.erase]

theorem mkForInP_erase (fp : Nat) (e : PP) (body : List PP) :
    mkForIn e.erase (eraseL body) = (mkForInP fp e body).map PP.erase := by
  cases e with
  | bin op l r p =>
    cases op <;> try (simp [mkForInP, mkForIn, PP.erase]; done)
    cases l <;> try (simp [mkForInP, mkForIn, PP.erase]; done)
    cases r <;> simp [mkForInP, mkForIn, PP.erase]
  | _ => simp [mkForInP, mkForIn, PP.erase]

end Platypus.ParsePos
