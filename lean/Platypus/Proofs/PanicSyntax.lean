import Platypus.Properties.C08
import Platypus.Properties.C01Defs
import Platypus.Proofs.PanicCheck
/-!
C01 proof, part 4: what the load-time check guarantees, per position of the tree
(`CkN` for a node, `CkL` for a list of nodes, …), and the inversion lemmas: the facts about a node
give the facts about its children.
-/
namespace Platypus.PanicProofs
open Platypus Platypus.C08 Platypus.C01

/-- at every enumeration depth: calls have the argument counts, the structure is valid at some loop
    depth, integer literals are not below int64 -/
def ck (calls : Nat → List CallInfo) (sok : Nat → Nat → Bool) (lits : Nat → List Int) : Prop :=
  ∀ k, (∀ c ∈ calls k, argsOk c = true) ∧ (∃ d, sok k d = true) ∧ (∀ v ∈ lits k, minI64 ≤ v)

def CkN (n : Node) : Prop := ck (allCalls · n) (structOk · · n) (allIntLits · n)
def CkL (n : List Node) : Prop := ck (allCallsL · n) (structOkL · · n) (allIntLitsL · n)
def CkO (n : Option Node) : Prop := ck (allCallsO · n) (structOkO · · n) (allIntLitsO · n)
def CkOB (n : Option (List Node)) : Prop := ck (allCallsOB · n) (structOkOB · · n) (allIntLitsOB · n)
def CkKV (n : List (Node × Node)) : Prop := ck (allCallsKV · n) (structOkKV · · n) (allIntLitsKV · n)
def CkIfs (n : List (Node × Option (List Node) × Pos)) : Prop :=
  ck (allCallsIfs · n) (structOkIfs · · n) (allIntLitsIfs · n)

/-- from the facts `h` of the parent to the facts of a child -/
local macro "ck_child" h:ident : tactic =>
  `(tactic| (
    intro k
    have hk := $h (k+1)
    simp only [CkN, CkL, CkO, CkOB, CkKV, CkIfs, ck] at hk ⊢
    simp only [allCalls, allCallsL, allCallsO, allCallsOB, allCallsKV, allCallsIfs,
      structOk, structOkL, structOkO, structOkOB, structOkKV, structOkIfs,
      allIntLits, allIntLitsL, allIntLitsO, allIntLitsOB, allIntLitsKV, allIntLitsIfs,
      List.mem_append, List.mem_cons, Bool.and_eq_true] at hk
    obtain ⟨h1, ⟨d, h2⟩, h3⟩ := hk
    refine ⟨fun c hc => h1 c (by simp only [hc, true_or, or_true]), ?_,
      fun v hv => h3 v (by simp only [hv, true_or, or_true])⟩
    first
      | exact ⟨d, by simp only [h2]⟩
      | exact ⟨d + 1, by simp only [h2]⟩))

theorem CkN.paren {e : Node} {a b : Pos} (h : CkN (.paren e a b)) : CkN e := by ck_child h
theorem CkN.unary {op : UOp} {e : Node} {p : Pos} (h : CkN (.unary op e p)) : CkN e := by ck_child h
theorem CkN.arith {op : AOp} {l r : Node} {p : Pos} (h : CkN (.arith op l r p)) : CkN l ∧ CkN r :=
  ⟨by ck_child h, by ck_child h⟩
theorem CkN.cond {op : COp} {l r : Node} {p : Pos} (h : CkN (.cond op l r p)) : CkN l ∧ CkN r :=
  ⟨by ck_child h, by ck_child h⟩
theorem CkN.inE {l r : Node} {p : Pos} (h : CkN (.inE l r p)) : CkN l ∧ CkN r :=
  ⟨by ck_child h, by ck_child h⟩
theorem CkN.list {xs : List Node} {a b : Pos} (h : CkN (.list xs a b)) : CkL xs := by ck_child h
theorem CkN.map {xs : List (Node × Node)} {a b : Pos} (h : CkN (.map xs a b)) : CkKV xs := by ck_child h
theorem CkN.index {obj : Option (Bytes × Pos)} {idx : List Node} {a b : List Pos}
    (h : CkN (.index obj idx a b)) : CkL idx := by ck_child h
theorem CkN.slice {o : Node} {a b c : Option Node} {d : Bool} {p q : Pos}
    (h : CkN (.slice o a b c d p q)) : CkN o ∧ CkO a ∧ CkO b ∧ CkO c :=
  ⟨by ck_child h, by ck_child h, by ck_child h, by ck_child h⟩
theorem CkN.assign {op : AsOp} {l r : List Node} {p : Pos} (h : CkN (.assign op l r p)) : CkL l ∧ CkL r :=
  ⟨by ck_child h, by ck_child h⟩
theorem CkN.call {name : Bytes} {args : List Node} {np lp rp : Pos} {site : Nat}
    (h : CkN (.call name args np lp rp site)) : argsOk ⟨name, args, np, site⟩ = true ∧ CkL args := by
  refine ⟨?_, by ck_child h⟩
  have := (h 1).1
  simp only [allCalls, List.mem_cons] at this
  exact this _ (.inl rfl)
theorem CkN.ifelse {ifs : List (Node × Option (List Node) × Pos)} {els : Option (List Node)} {p : Pos}
    (h : CkN (.ifelse ifs els p)) : CkIfs ifs ∧ CkOB els := ⟨by ck_child h, by ck_child h⟩
theorem CkN.forS {a b c : Option Node} {body : Option (List Node)} {p : Pos}
    (h : CkN (.forS a b c body p)) : CkO a ∧ CkO b ∧ CkO c ∧ CkOB body :=
  ⟨by ck_child h, by ck_child h, by ck_child h, by ck_child h⟩
theorem CkN.forIn {v it : Node} {body : Option (List Node)} {p q : Pos}
    (h : CkN (.forIn v it body p q)) : (∃ nm pp, v = .ident nm pp) ∧ CkN it ∧ CkOB body := by
  refine ⟨?_, by ck_child h, by ck_child h⟩
  obtain ⟨d, hd⟩ := (h 1).2.1
  simp only [structOk, Bool.and_eq_true] at hd
  cases v <;> simp at hd
  exact ⟨_, _, rfl⟩
theorem CkN.intLit {v : Int} {p : Pos} (h : CkN (.intLit v p)) : minI64 ≤ v := by
  have := (h 1).2.2
  simp only [allIntLits] at this
  exact this v (by simp)

theorem CkL.cons {x : Node} {r : List Node} (h : CkL (x :: r)) : CkN x ∧ CkL r :=
  ⟨by ck_child h, by ck_child h⟩
theorem CkO.some {n : Node} (h : CkO (some n)) : CkN n := by ck_child h
theorem CkOB.some {b : List Node} (h : CkOB (some b)) : CkL b := by ck_child h
theorem CkKV.cons {k v : Node} {r : List (Node × Node)} (h : CkKV ((k, v) :: r)) : CkN k ∧ CkN v ∧ CkKV r :=
  ⟨by ck_child h, by ck_child h, by ck_child h⟩
theorem CkIfs.cons {c : Node} {b : Option (List Node)} {p : Pos} {r : List (Node × Option (List Node) × Pos)}
    (h : CkIfs ((c, b, p) :: r)) : CkN c ∧ CkOB b ∧ CkIfs r :=
  ⟨by ck_child h, by ck_child h, by ck_child h⟩

end Platypus.PanicProofs
