import Platypus.Proofs.ParseStmt
/-!
# C06 helper, part 4: an executable printer whose output is a spelling

`prProg fuel ss` prints the statement trees `ss` in the most compact layout (no line ends inside
statements, one `;` between statements) and returns `none` when a tree is not well-formed (a side
condition of the spelling relations fails: an operand that needs parentheses has none, a sign on a
number literal is not folded, something that cannot be sliced is sliced, …) or when the fuel is
smaller than the depth of the trees.  `prProg_spec`: whatever it prints is a spelling (`PProg`), so by
`parse_print` it is parsed back to the trees.  The well-formedness predicate is
`(prProg fuel ss).isSome`, decidable by evaluation.
-/
namespace Platypus.Parse
open Platypus.Lex (Tok Item)

/-- an item of type `t` -/
def it (t : Tok) : Item := ⟨t, 0, []⟩

def identOKb (q : Bool) (v : Bytes) : Bool := !q || (Unq.unquote v).isSome
def foldsB (op : UnOp) (x : PT) : Bool :=
  match op, x with
  | .pos, .num _ _ => true
  | .neg, .num _ _ => true
  | _, _ => false
def sliceBaseB : PT → Bool
  | .ident _ _ => true | .num false _ => true | .str _ _ => true | .bool _ => true | .nil => true
  | .list _ => true | .call _ _ _ => true | .slice _ _ _ _ _ => true
  | _ => false
def attrObjB : PT → Bool
  | .ident _ _ => true | .index _ _ => true | .attr _ _ => true | _ => false
def attrArgB : PT → Bool
  | .ident _ _ => true | .index _ _ => true | _ => false

theorem identOK_of_b {q v} (h : identOKb q v = true) : identOK q v := by
  intro hq; subst hq; simpa [identOKb] using h
theorem not_folds_of_b {op x} (h : foldsB op x = false) : ¬ folds op x := by
  rintro ⟨ho, n, v, rfl⟩
  rcases ho with rfl | rfl <;> simp [foldsB] at h
theorem sliceBase_of_b {t} (h : sliceBaseB t = true) : sliceBase t := by
  cases t <;> simp_all [sliceBaseB, sliceBase]
  next n v => cases n <;> simp_all
theorem attrObj_of_b {t} (h : attrObjB t = true) : attrObj t := by
  cases t <;> simp_all [attrObjB, attrObj]
theorem attrArg_of_b {t} (h : attrArgB t = true) : attrArg t := by
  cases t <;> simp_all [attrArgB, attrArg]

theorem mkBin_of_isSome {op l r} (h : (mkBin op l r).isSome = true) : mkBin op l r = some (.bin op l r) := by
  unfold mkBin at h ⊢
  split <;> (try split) <;> simp_all
theorem mkSlice_of_isSome {obj a b c c2} (h : (mkSlice obj a b c c2).isSome = true) :
    mkSlice obj a b c c2 = some (.slice obj a b c c2) := by
  unfold mkSlice at h ⊢
  split <;> simp_all
theorem mkForIn_of_isSome {q v itr body} (h : (mkForIn (.bin .in_ (.ident q v) itr) body).isSome = true) :
    mkForIn (.bin .in_ (.ident q v) itr) body = some (.forIn (.ident q v) itr body) := by
  simp only [mkForIn] at h ⊢
  split <;> simp_all

mutual

def prE : Nat → PT → Option (List Item)
  | 0, _ => none
  | f+1, t =>
    match t with
    | .ident q v => if identOKb q v then some [⟨identTok q, 0, v⟩] else none
    | .num false v => some [⟨.NUMBER, 0, v⟩]
    | .num true v => some [it .SUB, ⟨.NUMBER, 0, v⟩]
    | .str m v => if strOK m v then some [⟨if m then .MULTILINE_STRING else .STRING, 0, v⟩] else none
    | .bool true => some [it .TRUE]
    | .bool false => some [it .FALSE]
    | .nil => some [it .NIL]
    | .list [] => some ([it .LEFT_BRACKET] ++ [] ++ [it .RIGHT_BRACKET])
    | .list (x :: xs) => do
      let ts ← prL f (x :: xs)
      pure ([it .LEFT_BRACKET] ++ [] ++ ts)
    | .map [] => some ([it .LEFT_BRACE] ++ [] ++ [it .RIGHT_BRACE])
    | .map (kv :: kvs) => do
      let ts ← prM f (kv :: kvs)
      pure ([it .LEFT_BRACE] ++ [] ++ ts)
    | .paren x => do
      let ts ← prE f x
      pure ([it .LEFT_PAREN] ++ [] ++ ts ++ [] ++ [it .RIGHT_PAREN])
    | .attr o y =>
      if attrObjB o && attrArgB y then do
        let t1 ← prE f o
        let t2 ← prE f y
        pure (t1 ++ [it .DOT] ++ t2)
      else none
    | .index (some (q, v)) idx =>
      if identOKb q v && !idx.isEmpty then do
        let ts ← prI f idx
        pure (⟨identTok q, 0, v⟩ :: ts)
      else none
    | .index none idx =>
      if !idx.isEmpty then do
        let ts ← prI f idx
        pure (it .DOT :: ts)
      else none
    | .unary op x =>
      if decide (7 ≤ level x) && !foldsB op x then do
        let ts ← prE f x
        pure (⟨unTok op, 0, []⟩ :: ts)
      else none
    | .bin op l r =>
      if decide (lvl op ≤ level l) && decide (lvl op < level r) && (mkBin op l r).isSome then do
        let t1 ← prE f l
        let t2 ← prE f r
        pure (t1 ++ [⟨opTok op, 0, []⟩] ++ [] ++ t2)
      else none
    | .call q v [] =>
      if identOKb q v then some ([⟨identTok q, 0, v⟩, it .LEFT_PAREN] ++ [] ++ [it .RIGHT_PAREN]) else none
    | .call q v (a :: args) =>
      if identOKb q v then do
        let ts ← prA f (a :: args)
        pure ([⟨identTok q, 0, v⟩, it .LEFT_PAREN] ++ [] ++ ts)
      else none
    | .slice obj a b none false =>
      if sliceBaseB obj && (mkSlice obj a b none false).isSome then do
        let t0 ← prE f obj
        let ta ← prO f a
        let tb ← prO f b
        pure (t0 ++ [it .LEFT_BRACKET] ++ [] ++ ta ++ [it .COLON] ++ [] ++ tb ++ [it .RIGHT_BRACKET])
      else none
    | .slice obj a b c true =>
      if sliceBaseB obj && (mkSlice obj a b c true).isSome then do
        let t0 ← prE f obj
        let ta ← prO f a
        let tb ← prO f b
        let tc ← prO f c
        pure (t0 ++ [it .LEFT_BRACKET] ++ [] ++ ta ++ [it .COLON] ++ [] ++ tb ++ [it .COLON] ++ [] ++ tc
          ++ [it .RIGHT_BRACKET])
      else none
    | _ => none

def prO : Nat → Option PT → Option (List Item)
  | 0, _ => none
  | _+1, none => some []
  | f+1, some x => prE f x

def prI : Nat → List PT → Option (List Item)
  | 0, _ => none
  | _+1, [] => some []
  | f+1, x :: r => do
    let t ← prE f x
    let tr ← prI f r
    pure ([it .LEFT_BRACKET] ++ [] ++ t ++ [] ++ [it .RIGHT_BRACKET] ++ tr)

def prL : Nat → List PT → Option (List Item)
  | 0, _ => none
  | _+1, [] => none
  | f+1, [x] => do
    let t ← prE f x
    pure (t ++ [] ++ [it .RIGHT_BRACKET])
  | f+1, x :: y :: r => do
    let t ← prE f x
    let tr ← prL f (y :: r)
    pure (t ++ [] ++ [it .COMMA] ++ [] ++ tr)

def prM : Nat → List (PT × PT) → Option (List Item)
  | 0, _ => none
  | _+1, [] => none
  | f+1, [(k, v)] => do
    let tk ← prE f k
    let tv ← prE f v
    pure (tk ++ [it .COLON] ++ [] ++ tv ++ [] ++ [it .RIGHT_BRACE])
  | f+1, (k, v) :: y :: r => do
    let tk ← prE f k
    let tv ← prE f v
    let tr ← prM f (y :: r)
    pure (tk ++ [it .COLON] ++ [] ++ tv ++ [it .COMMA] ++ [] ++ tr)

def prArg : Nat → PT → Option (List Item)
  | 0, _ => none
  | f+1, a =>
    match a with
    | .assign .eq [.ident q v] [x] =>
      if identOKb q v then do
        let t ← prE f x
        pure ([⟨identTok q, 0, v⟩, it .EQ] ++ [] ++ t)
      else none
    | x => prE f x

def prA : Nat → List PT → Option (List Item)
  | 0, _ => none
  | _+1, [] => none
  | f+1, [a] => do
    let t ← prArg f a
    pure (t ++ [] ++ [it .RIGHT_PAREN])
  | f+1, a :: b :: r => do
    let t ← prArg f a
    let tr ← prA f (b :: r)
    pure (t ++ [it .COMMA] ++ [] ++ tr)

end

/-- `comma_params` -/
def prC : Nat → List PT → Option (List Item)
  | 0, _ => none
  | _+1, [] => none
  | f+1, [x] => prE f x
  | f+1, x :: y :: r => do
    let t ← prE f x
    let tr ← prC f (y :: r)
    pure (t ++ [it .COMMA] ++ [] ++ tr)

def prSimple (f : Nat) (t : PT) : Option (List Item) :=
  match t with
  | .assign op lhs rhs =>
    if op = .eq then do
      let tl ← prC f lhs
      let tr ← prC f rhs
      pure (tl ++ [it .EQ] ++ [] ++ tr)
    else
      match lhs, rhs with
      | [l], [r] => do
        let tl ← prE f l
        let tr ← prE f r
        pure (tl ++ [⟨asgTok op, 0, []⟩] ++ [] ++ tr)
      | _, _ => none
  | x => prE f x

def prOS (f : Nat) : Option PT → Option (List Item)
  | none => some []
  | some x => prSimple f x

mutual

def prB : Nat → List PT → Option (List Item)
  | 0, _ => none
  | _+1, [] => some ([it .LEFT_BRACE] ++ [] ++ [it .RIGHT_BRACE])
  | f+1, x :: r => do
    let t ← prSeq f (x :: r)
    pure ([it .LEFT_BRACE] ++ [] ++ t ++ [it .RIGHT_BRACE])

def prSeq : Nat → List PT → Option (List Item)
  | 0, _ => none
  | _+1, [] => none
  | f+1, [x] => prS f x
  | f+1, x :: y :: r => do
    let t ← prS f x
    let tr ← prSeq f (y :: r)
    pure (t ++ [it .SEMICOLON] ++ tr)

def prIfs : Nat → Bool → List (PT × List PT) → Option (List Item)
  | 0, _, _ => none
  | _+1, _, [] => none
  | f+1, first, [(c, b)] => do
    let tc ← prE f c
    let tb ← prB f b
    pure (⟨if first then .IF else .ELIF, 0, []⟩ :: (tc ++ tb))
  | f+1, first, (c, b) :: y :: r => do
    let tc ← prE f c
    let tb ← prB f b
    let tr ← prIfs f false (y :: r)
    pure (⟨if first then .IF else .ELIF, 0, []⟩ :: (tc ++ tb ++ tr))

def prElse : Nat → Option (List PT) → Option (List Item)
  | 0, _ => none
  | _+1, none => some []
  | f+1, some b => do
    let tb ← prB f b
    pure (it .ELSE :: tb)

def prS : Nat → PT → Option (List Item)
  | 0, _ => none
  | f+1, t =>
    match t with
    | .brk => some [it .BREAK]
    | .cont => some [it .CONTINUE]
    | .ifelse ifs els => do
      let t ← prIfs f true ifs
      let te ← prElse f els
      pure (t ++ te)
    | .forIn (.ident q v) itr body =>
      if identOKb q v && decide (3 < level itr) && (mkForIn (.bin .in_ (.ident q v) itr) body).isSome then do
        let ti ← prE f itr
        let tb ← prB f body
        pure ([it .FOR, ⟨identTok q, 0, v⟩, it .IN] ++ [] ++ ti ++ tb)
      else none
    | .forS init cond loop body => do
      let ti ← prOS f init
      let tc ← prO f cond
      let tl ← prOS f loop
      let tb ← prB f body
      pure ([it .FOR] ++ ti ++ [it .SEMICOLON] ++ tc ++ [it .SEMICOLON] ++ tl ++ tb)
    | x => prSimple f x

end

/-- the printer for programs -/
def prProg (f : Nat) : List PT → Option (List Item)
  | [] => some ([it .EOL] ++ [it .EOF])
  | x :: r => do
    let t ← prSeq f (x :: r)
    pure ([] ++ t ++ [it .EOF])

/-! ### what the printer prints is a spelling -/

theorem eols_nil : Eols [] := fun _ hi => by cases hi

/-- the expression-level printers at fuel `f` print spellings -/
structure PrOkE (f : Nat) : Prop where
  e : ∀ t ts, prE f t = some ts → PE t ts
  o : ∀ o ts, prO f o = some ts → PO o ts
  i : ∀ idx ts, prI f idx = some ts → PI idx ts
  l : ∀ xs ts, prL f xs = some ts → PL xs ts
  m : ∀ kvs ts, prM f kvs = some ts → PM kvs ts
  arg : ∀ a ts, prArg f a = some ts → PArg a ts
  a : ∀ args ts, prA f args = some ts → PA args ts

macro "inv_pr" h:ident : tactic =>
  `(tactic| simp only [Option.bind_eq_bind, Option.bind_eq_some_iff, Option.pure_def, Option.some.injEq,
      Option.ite_none_right_eq_some, Bool.and_eq_true, decide_eq_true_eq, Bool.not_eq_true',
      List.isEmpty_eq_false_iff] at $h:ident)

theorem prE_step {f : Nat} (ih : PrOkE f) : ∀ t ts, prE (f + 1) t = some ts → PE t ts := by
  intro t ts h
  cases t with
  | ident q v =>
    simp only [prE] at h; inv_pr h
    obtain ⟨hq, rfl⟩ := h
    exact PE.ident q v 0 (identOK_of_b hq)
  | num n v =>
    cases n <;> (simp only [prE] at h; inv_pr h; subst h)
    · exact PE.num v 0
    · exact PE.numNeg v 0 0 []
  | str m v =>
    simp only [prE] at h; inv_pr h
    obtain ⟨hq, rfl⟩ := h
    exact PE.str m v 0 hq
  | bool b =>
    cases b <;> (simp only [prE] at h; inv_pr h; subst h)
    · exact PE.boolF 0 []
    · exact PE.boolT 0 []
  | nil =>
    simp only [prE] at h; inv_pr h; subst h
    exact PE.nil 0 []
  | list xs =>
    cases xs with
    | nil =>
      simp only [prE] at h; inv_pr h; subst h
      exact PE.listNil 0 [] 0 [] [] eols_nil
    | cons x xs =>
      simp only [prE] at h; inv_pr h
      obtain ⟨t1, h1, rfl⟩ := h
      exact PE.list 0 [] [] _ t1 eols_nil (ih.l _ _ h1)
  | map kvs =>
    cases kvs with
    | nil =>
      simp only [prE] at h; inv_pr h; subst h
      exact PE.mapNil 0 [] 0 [] [] eols_nil
    | cons x xs =>
      simp only [prE] at h; inv_pr h
      obtain ⟨t1, h1, rfl⟩ := h
      exact PE.map 0 [] [] _ t1 eols_nil (ih.m _ _ h1)
  | paren x =>
    simp only [prE] at h; inv_pr h
    obtain ⟨t1, h1, rfl⟩ := h
    exact PE.paren 0 [] 0 [] [] [] x t1 eols_nil eols_nil (ih.e _ _ h1)
  | attr o y =>
    simp only [prE] at h; inv_pr h
    obtain ⟨⟨ho, hy⟩, t1, h1, t2, h2, rfl⟩ := h
    exact PE.attr o y t1 t2 0 [] (attrObj_of_b ho) (attrArg_of_b hy) (ih.e _ _ h1) (ih.e _ _ h2)
  | index nm idx =>
    cases nm with
    | none =>
      simp only [prE] at h; inv_pr h
      obtain ⟨hne, t1, h1, rfl⟩ := h
      exact PE.indexDot 0 [] idx t1 hne (ih.i _ _ h1)
    | some qv =>
      obtain ⟨q, v⟩ := qv
      simp only [prE] at h; inv_pr h
      obtain ⟨⟨hq, hne⟩, t1, h1, rfl⟩ := h
      exact PE.index q v 0 idx t1 (identOK_of_b hq) hne (ih.i _ _ h1)
  | unary op x =>
    simp only [prE] at h; inv_pr h
    obtain ⟨⟨hl, hf⟩, t1, h1, rfl⟩ := h
    exact PE.unary op x t1 0 [] hl (not_folds_of_b hf) (ih.e _ _ h1)
  | bin op l r =>
    simp only [prE] at h; inv_pr h
    obtain ⟨⟨⟨hl, hr⟩, hmk⟩, t1, h1, t2, h2, rfl⟩ := h
    exact PE.bin op l r t1 t2 [] 0 [] hl hr (mkBin_of_isSome hmk) eols_nil (ih.e _ _ h1) (ih.e _ _ h2)
  | call q v args =>
    cases args with
    | nil =>
      simp only [prE] at h; inv_pr h
      obtain ⟨hq, rfl⟩ := h
      exact PE.callNil q v 0 0 [] 0 [] [] (identOK_of_b hq) eols_nil
    | cons a args =>
      simp only [prE] at h; inv_pr h
      obtain ⟨hq, t1, h1, rfl⟩ := h
      exact PE.call q v 0 0 [] [] _ t1 (identOK_of_b hq) eols_nil (ih.a _ _ h1)
  | slice obj a b c c2 =>
    cases c2 with
    | true =>
      simp only [prE] at h; inv_pr h
      obtain ⟨⟨hsb, hmk⟩, t0, h0, ta, ha, tb, hb, tc, hc, rfl⟩ := h
      exact PE.slice3 obj a b c t0 ta tb tc [] [] [] 0 [] 0 [] 0 [] 0 [] (sliceBase_of_b hsb) (mkSlice_of_isSome hmk)
        eols_nil eols_nil eols_nil (ih.e _ _ h0) (ih.o _ _ ha) (ih.o _ _ hb) (ih.o _ _ hc)
    | false =>
      cases c with
      | some c => simp [prE] at h
      | none =>
        simp only [prE] at h; inv_pr h
        obtain ⟨⟨hsb, hmk⟩, t0, h0, ta, ha, tb, hb, rfl⟩ := h
        exact PE.slice2 obj a b t0 ta tb [] [] 0 [] 0 [] 0 [] (sliceBase_of_b hsb) (mkSlice_of_isSome hmk)
          eols_nil eols_nil (ih.e _ _ h0) (ih.o _ _ ha) (ih.o _ _ hb)
  | assign op lhs rhs => simp [prE] at h
  | ifelse ifs els => simp [prE] at h
  | forS a b c d => simp [prE] at h
  | forIn a b c => simp [prE] at h
  | brk => simp [prE] at h
  | cont => simp [prE] at h

theorem prOkE_zero : PrOkE 0 where
  e t ts h := by simp [prE] at h
  o t ts h := by simp [prO] at h
  i t ts h := by simp [prI] at h
  l t ts h := by simp [prL] at h
  m t ts h := by simp [prM] at h
  arg t ts h := by simp [prArg] at h
  a t ts h := by simp [prA] at h

theorem prOkE_succ {f : Nat} (ih : PrOkE f) : PrOkE (f + 1) where
  e := prE_step ih
  o o ts h := by
    cases o with
    | none => simp only [prO, Option.some.injEq] at h; subst h; exact PO.none
    | some x => exact PO.some _ _ (ih.e _ _ (by simpa [prO] using h))
  i idx ts h := by
    cases idx with
    | nil => simp only [prI, Option.some.injEq] at h; subst h; exact PI.nil
    | cons x r =>
      simp only [prI] at h; inv_pr h
      obtain ⟨t, h1, tr, h2, rfl⟩ := h
      exact PI.cons x r t tr [] [] 0 [] 0 [] eols_nil eols_nil (ih.e _ _ h1) (ih.i _ _ h2)
  l xs ts h := by
    match xs, h with
    | [], h => simp [prL] at h
    | [x], h =>
      simp only [prL] at h; inv_pr h
      obtain ⟨t, h1, rfl⟩ := h
      exact PL.last x t [] 0 [] eols_nil (ih.e _ _ h1)
    | x :: y :: r, h =>
      simp only [prL] at h; inv_pr h
      obtain ⟨t, h1, tr, h2, rfl⟩ := h
      exact PL.cons x (y :: r) t tr [] [] 0 [] eols_nil eols_nil (ih.e _ _ h1) (ih.l _ _ h2)
  m kvs ts h := by
    match kvs, h with
    | [], h => simp [prM] at h
    | [(k, v)], h =>
      simp only [prM] at h; inv_pr h
      obtain ⟨t, h1, tv, h2, rfl⟩ := h
      exact PM.last k v t tv [] [] 0 [] 0 [] eols_nil eols_nil (ih.e _ _ h1) (ih.e _ _ h2)
    | (k, v) :: y :: r, h =>
      simp only [prM] at h; inv_pr h
      obtain ⟨t, h1, tv, h2, tr, h3, rfl⟩ := h
      exact PM.cons k v (y :: r) t tv tr [] [] 0 [] 0 [] eols_nil eols_nil (ih.e _ _ h1) (ih.e _ _ h2) (ih.m _ _ h3)
  arg a ts h := by
    simp only [prArg] at h
    split at h
    · inv_pr h
      obtain ⟨hq, t, h1, rfl⟩ := h
      exact PArg.named _ _ 0 0 [] [] _ t (identOK_of_b hq) eols_nil (ih.e _ _ h1)
    · exact PArg.pos _ _ (ih.e _ _ h)
  a args ts h := by
    match args, h with
    | [], h => simp [prA] at h
    | [a], h =>
      simp only [prA] at h; inv_pr h
      obtain ⟨t, h1, rfl⟩ := h
      exact PA.last a t [] 0 [] eols_nil (ih.arg _ _ h1)
    | a :: b :: r, h =>
      simp only [prA] at h; inv_pr h
      obtain ⟨t, h1, tr, h2, rfl⟩ := h
      exact PA.cons a (b :: r) t tr [] 0 [] eols_nil (ih.arg _ _ h1) (ih.a _ _ h2)

theorem prOkE_all : ∀ f, PrOkE f
  | 0 => prOkE_zero
  | f + 1 => prOkE_succ (prOkE_all f)

theorem prE_spec {f t ts} (h : prE f t = some ts) : PE t ts := (prOkE_all f).e t ts h
theorem prO_spec {f t ts} (h : prO f t = some ts) : PO t ts := (prOkE_all f).o t ts h

theorem prC_spec : ∀ {f xs ts}, prC f xs = some ts → PC xs ts
  | 0, _, _, h => by simp [prC] at h
  | f + 1, [], _, h => by simp [prC] at h
  | f + 1, [x], _, h => PC.one _ _ (prE_spec (by simpa [prC] using h))
  | f + 1, x :: y :: r, ts, h => by
    simp only [prC] at h; inv_pr h
    obtain ⟨t, h1, tr, h2, rfl⟩ := h
    exact PC.cons x (y :: r) t tr [] 0 [] eols_nil (prE_spec h1) (prC_spec h2)

theorem prSimple_spec {f t ts} (h : prSimple f t = some ts) : PSimple t ts := by
  unfold prSimple at h
  split at h
  · rename_i op lhs rhs
    split at h
    · rename_i hop
      subst hop
      inv_pr h
      obtain ⟨tl, h1, tr, h2, rfl⟩ := h
      exact PSimple.assign lhs rhs tl tr [] 0 [] eols_nil (prC_spec h1) (prC_spec h2)
    · rename_i hop
      split at h
      · inv_pr h
        obtain ⟨tl, h1, tr, h2, rfl⟩ := h
        exact PSimple.opAssign op _ _ tl tr [] 0 [] hop eols_nil (prE_spec h1) (prE_spec h2)
      · cases h
  · exact PSimple.expr _ _ (prE_spec h)

theorem prOS_spec {f o ts} (h : prOS f o = some ts) : POS o ts := by
  cases o with
  | none => simp only [prOS, Option.some.injEq] at h; subst h; exact POS.none
  | some x => exact POS.some _ _ (prSimple_spec h)

/-- the statement-level printers at fuel `f` print spellings -/
structure PrOkS (f : Nat) : Prop where
  b : ∀ ss ts, prB f ss = some ts → PB ss ts
  seq : ∀ ss ts, prSeq f ss = some ts → PSeq ss ts
  ifs : ∀ first ifs ts, prIfs f first ifs = some ts → PIfs first ifs ts
  els : ∀ els ts, prElse f els = some ts → PElse els ts
  s : ∀ x ts, prS f x = some ts → PS x ts

theorem sep_semi : IsSep [it .SEMICOLON] :=
  ⟨by simp, by intro i hi; simp at hi; subst hi; exact Or.inl rfl⟩

theorem prOkS_zero : PrOkS 0 where
  b t ts h := by simp [prB] at h
  seq t ts h := by simp [prSeq] at h
  ifs a t ts h := by simp [prIfs] at h
  els t ts h := by simp [prElse] at h
  s t ts h := by simp [prS] at h

theorem prOkS_succ {f : Nat} (ih : PrOkS f) : PrOkS (f + 1) where
  b ss ts h := by
    cases ss with
    | nil => simp only [prB, Option.some.injEq] at h; subst h; exact PB.empty [] 0 [] 0 [] eols_nil
    | cons x r =>
      simp only [prB] at h; inv_pr h
      obtain ⟨t, h1, rfl⟩ := h
      exact PB.stmts _ [] t 0 [] 0 [] eols_nil (PSS.plain _ _ (ih.seq _ _ h1))
  seq ss ts h := by
    match ss, h with
    | [], h => simp [prSeq] at h
    | [x], h => exact PSeq.last _ _ (ih.s _ _ (by simpa [prSeq] using h))
    | x :: y :: r, h =>
      simp only [prSeq] at h; inv_pr h
      obtain ⟨t, h1, tr, h2, rfl⟩ := h
      exact PSeq.cons x (y :: r) t [it .SEMICOLON] tr sep_semi (ih.s _ _ h1) (ih.seq _ _ h2)
  ifs first ifs ts h := by
    match ifs, h with
    | [], h => simp [prIfs] at h
    | [(c, b)], h =>
      simp only [prIfs] at h; inv_pr h
      obtain ⟨tc, h1, tb, h2, rfl⟩ := h
      exact PIfs.one first c b tc tb 0 [] (prE_spec h1) (ih.b _ _ h2)
    | (c, b) :: y :: r, h =>
      simp only [prIfs] at h; inv_pr h
      obtain ⟨tc, h1, tb, h2, tr, h3, rfl⟩ := h
      exact PIfs.cons first c b (y :: r) tc tb tr 0 [] (prE_spec h1) (ih.b _ _ h2) (ih.ifs _ _ _ h3)
  els els ts h := by
    cases els with
    | none => simp only [prElse, Option.some.injEq] at h; subst h; exact PElse.none
    | some b =>
      simp only [prElse] at h; inv_pr h
      obtain ⟨tb, h1, rfl⟩ := h
      exact PElse.some b tb 0 [] (ih.b _ _ h1)
  s x ts h := by
    simp only [prS] at h
    split at h
    · inv_pr h; subst h; exact PS.brk 0 []
    · inv_pr h; subst h; exact PS.cont 0 []
    · inv_pr h
      obtain ⟨t, h1, te, h2, rfl⟩ := h
      exact PS.ifelse _ _ t te (ih.ifs _ _ _ h1) (ih.els _ _ h2)
    · inv_pr h
      obtain ⟨⟨⟨hq, hl⟩, hmk⟩, ti, h1, tb, h2, rfl⟩ := h
      exact PS.forIn _ _ _ _ ti tb [] 0 [] 0 0 [] (identOK_of_b hq) hl (mkForIn_of_isSome hmk) eols_nil
        (prE_spec h1) (ih.b _ _ h2)
    · inv_pr h
      obtain ⟨ti, h1, tc, h2, tl, h3, tb, h4, rfl⟩ := h
      exact PS.forS _ _ _ _ ti tc tl tb 0 [] 0 [] 0 [] (prOS_spec h1) (prO_spec h2) (prOS_spec h3) (ih.b _ _ h4)
    · exact PS.simple _ _ (prSimple_spec h)

theorem prOkS_all : ∀ f, PrOkS f
  | 0 => prOkS_zero
  | f + 1 => prOkS_succ (prOkS_all f)

/-- whatever the printer prints is a spelling of the trees -/
theorem prProg_spec {f : Nat} {ss : List PT} {ts : List Item} (h : prProg f ss = some ts) : PProg ss ts := by
  cases ss with
  | nil =>
    simp only [prProg, Option.some.injEq] at h; subst h
    exact PProg.empty [it .EOL] 0 [] (by simp) (by intro i hi; simp at hi; subst hi; rfl)
  | cons x r =>
    simp only [prProg] at h; inv_pr h
    obtain ⟨t, h1, rfl⟩ := h
    exact PProg.stmts _ [] t 0 [] eols_nil (PSS.plain _ _ ((prOkS_all f).seq _ _ h1))

end Platypus.Parse
