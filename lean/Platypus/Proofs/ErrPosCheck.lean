import Platypus.Proofs.ErrPosEval
import Platypus.Model.Check
/-!
Where load-time check errors point: every link of the error of the check pass names the checked
script at a position designated by the node being checked.
-/
namespace Platypus.ErrPos
open Platypus

/-- a check error: a non-empty chain, every link names `file` at a position `P` allows -/
def LocC (file : Bytes) (P : Pos → Prop) (c : List (Bytes × Pos)) : Prop :=
  c ≠ [] ∧ ∀ l ∈ c, l.1 = file ∧ P l.2

theorem LocC.mono {file : Bytes} {P Q : Pos → Prop} {c : List (Bytes × Pos)} (h : LocC file P c)
    (hpq : ∀ p, P p → Q p) : LocC file Q c :=
  ⟨h.1, fun l hl => ⟨(h.2 l hl).1, hpq _ (h.2 l hl).2⟩⟩

theorem LocC.new {file : Bytes} {P : Pos → Prop} {p : Pos} (hp : P p) : LocC file P [(file, p)] :=
  ⟨by simp, fun l hl => by rw [List.mem_singleton.1 hl]; exact ⟨rfl, hp⟩⟩

theorem LocC.append {file : Bytes} {P : Pos → Prop} {c : List (Bytes × Pos)} {p : Pos} (h : LocC file P c)
    (hp : P p) : LocC file P (c ++ [(file, p)]) :=
  ⟨by simp, fun l hl => by
    rcases List.mem_append.1 hl with hl | hl
    · exact h.2 l hl
    · rw [List.mem_singleton.1 hl]; exact ⟨rfl, hp⟩⟩

def COK {α : Type} (m : CM α) (file : Bytes) (P : Pos → Prop) : Prop :=
  ∀ s, match m s with
    | .err e => LocC file P e.chain
    | _ => True

variable {file : Bytes}

theorem COK.mono {α : Type} {m : CM α} {P Q : Pos → Prop} (h : COK m file P) (hpq : ∀ p, P p → Q p) :
    COK m file Q := by
  intro s
  have := h s
  cases hr : m s with
  | ok a s' => trivial
  | err e => rw [hr] at this; exact this.mono hpq
  | fuel => trivial
  | need q => trivial

theorem COK.bind {α β : Type} {m : CM α} {k : α → CM β} {P : Pos → Prop}
    (hm : COK m file P) (hk : ∀ a, COK (k a) file P) : COK (m >>= k) file P := by
  intro s
  have h1 := hm s
  show match (match m s with | .ok a s' => k a s' | .err e => .err e | .fuel => .fuel | .need q => .need q) with
    | .err e => LocC file P e.chain | _ => True
  cases hr : m s with
  | ok a s' => exact hk a s'
  | err e => rw [hr] at h1; exact h1
  | fuel => trivial
  | need q => trivial

theorem COK.pure {α : Type} {a : α} {P : Pos → Prop} : COK (Pure.pure a : CM α) file P := fun _ => trivial
theorem COK.cErr {α : Type} {P : Pos → Prop} {p : Pos} {msg : String} (hp : P p) :
    COK (cErr file p msg : CM α) file P := fun _ => LocC.new hp
theorem COK.cFuel {α : Type} {P : Pos → Prop} : COK (cFuel : CM α) file P := fun _ => trivial
theorem COK.cGet {P : Pos → Prop} : COK cGet file P := fun _ => trivial
theorem COK.cMod {g : CheckSt → CheckSt} {P : Pos → Prop} : COK (cMod g) file P := fun _ => trivial
theorem COK.cPush {P : Pos → Prop} : COK cPush file P := fun _ => trivial
theorem COK.cPop {P : Pos → Prop} : COK cPop file P := fun _ => trivial

/-- contract of a table of function checkers: a refusal points into the call -/
def FcheckOK (file : Bytes) (fcheck : CallInfo → Option (CM Unit)) : Prop :=
  ∀ c m, fcheck c = some m → COK m file (InCall c.args c.np)

def InIfsC (ifs : List (Node × Option (List Node) × Pos)) : Pos → Prop := fun p => p ∈ posOfIfs ifs

structure CIH (file : Bytes) (registered : Bytes → Bool) (fcheck : CallInfo → Option (CM Unit)) (f : Nat) : Prop where
  node : ∀ n, COK (checkNode file registered fcheck f n) file (In n)
  nodes : ∀ l, COK (checkNodes file registered fcheck f l) file (InL l)
  opt : ∀ o, COK (checkOpt file registered fcheck f o) file (InO o)
  optBlock : ∀ o, COK (checkOptBlock file registered fcheck f o) file (InOB o)
  map : ∀ kvs, COK (checkMap file registered fcheck f kvs) file (InKV kvs)
  ifs : ∀ l, COK (checkIfs file registered fcheck f l) file (InIfsC l)

macro "cok_auto " ih:ident : tactic => `(tactic|
  repeat' (first
    | exact COK.pure | exact COK.cFuel | exact COK.cGet | exact COK.cMod | exact COK.cPush | exact COK.cPop
    | exact COK.cErr (by pos_mem)
    | exact (CIH.node $ih _).mono (by pos_sub)
    | exact (CIH.nodes $ih _).mono (by pos_sub)
    | exact (CIH.opt $ih _).mono (by pos_sub)
    | exact (CIH.optBlock $ih _).mono (by pos_sub)
    | exact (CIH.map $ih _).mono (by pos_sub)
    | exact (CIH.ifs $ih _).mono (by first | pos_sub | (intro p hp; simp only [InIfsC] at hp; simp [In, posOf, hp]))
    | refine COK.bind ?_ (fun _ => ?_)
    | split))

section
variable {registered : Bytes → Bool} {fcheck : CallInfo → Option (CM Unit)} {f : Nat}

theorem checkNode_stepC (hf : FcheckOK file fcheck) (ih : CIH file registered fcheck f) (n : Node) :
    COK (checkNode file registered fcheck (f+1) n) file (In n) := by
  cases n
  case list xs lb rb =>
    simp only [checkNode]
    intro s
    have h := ih.nodes xs s
    dsimp only
    cases hr : checkNodes file registered fcheck f xs s with
    | ok a s' => trivial
    | err e =>
      rw [hr] at h
      exact (h.mono (Q := In (.list xs lb rb)) (by pos_sub)).append (by pos_mem)
    | fuel => trivial
    | need q => trivial
  case call name args np lp rp site =>
    simp only [checkNode]
    split
    · exact COK.cErr (by pos_mem)
    · intro s
      have h := ih.nodes args s
      dsimp only
      cases hr : checkNodes file registered fcheck f args s with
      | ok a s' =>
        dsimp only
        cases hc : fcheck ⟨name, args, np, site⟩ with
        | none => exact LocC.new (by pos_mem)
        | some c =>
          dsimp only
          have h2 := hf _ c hc s'
          cases hr2 : c s' with
          | ok a s'' => trivial
          | err e =>
            rw [hr2] at h2
            refine h2.mono ?_
            intro q hq
            simp only [In, posOf, List.mem_cons]
            rcases hq with h | h
            · exact Or.inr (Or.inl h)
            · exact Or.inr (Or.inr (Or.inr (Or.inr h)))
          | fuel => trivial
          | need q => trivial
      | err e =>
        rw [hr] at h
        exact (h.mono (Q := In (.call name args np lp rp site)) (by pos_sub)).append (by pos_mem)
      | fuel => trivial
      | need q => trivial
  all_goals (simp only [checkNode]; cok_auto ih)


theorem cih_zero (file : Bytes) (registered : Bytes → Bool) (fcheck : CallInfo → Option (CM Unit)) :
    CIH file registered fcheck 0 := by
  refine ⟨?_, ?_, ?_, ?_, ?_, ?_⟩ <;> intros
  · rw [checkNode]; exact COK.cFuel
  · rw [checkNodes]; exact COK.cFuel
  · rw [checkOpt]; exact COK.cFuel
  · rw [checkOptBlock]; exact COK.cFuel
  · rw [checkMap]; exact COK.cFuel
  · rw [checkIfs]; exact COK.cFuel

theorem cih_succ (hf : FcheckOK file fcheck) (ih : CIH file registered fcheck f) :
    CIH file registered fcheck (f+1) := by
  refine ⟨checkNode_stepC hf ih, ?_, ?_, ?_, ?_, ?_⟩
  · intro l; cases l <;> (simp only [checkNodes]; cok_auto ih)
  · intro o; cases o <;> (simp only [checkOpt]; cok_auto ih)
  · intro o; cases o <;> (simp only [checkOptBlock]; cok_auto ih)
  · intro kvs
    cases kvs with
    | nil => simp only [checkMap]; exact COK.pure
    | cons kv r => obtain ⟨k, v⟩ := kv; simp only [checkMap]; cok_auto ih
  · intro l
    cases l with
    | nil => simp only [checkIfs]; exact COK.pure
    | cons x r =>
      obtain ⟨c, b, p⟩ := x
      simp only [checkIfs]
      refine COK.bind ((ih.node c).mono ?_) fun _ => ?_
      · intro q hq; simp only [InIfsC, posOfIfs, List.mem_cons, List.mem_append]; exact Or.inr (Or.inl hq)
      refine COK.bind COK.cPush fun _ => ?_
      refine COK.bind ((ih.optBlock b).mono ?_) fun _ => ?_
      · intro q hq; simp only [InIfsC, posOfIfs, List.mem_cons, List.mem_append]; exact Or.inr (Or.inr (Or.inl hq))
      refine COK.bind COK.cPop fun _ => ?_
      refine (ih.ifs r).mono ?_
      intro q hq; simp only [InIfsC, posOfIfs, List.mem_cons, List.mem_append]; exact Or.inr (Or.inr (Or.inr hq))

theorem cih_all (hf : FcheckOK file fcheck) : ∀ f, CIH file registered fcheck f
  | 0 => cih_zero file registered fcheck
  | f+1 => cih_succ hf (cih_all hf f)

end

/-! ### the builtin checkers point into the call -/

theorem getD_start_in {args : List Node} {i : Nat} (h : i < args.length) (d : Node) :
    InL args (Node.start (args.getD i d)) := by
  have : args.getD i d ∈ args := by
    rw [List.getD_eq_getElem?_getD, List.getElem?_eq_getElem h]
    exact List.getElem_mem h
  exact inL_of_mem this (start_in _)

theorem builtinCheckD_located (oracle : Bytes → Option Bytes) (file : Bytes) (c : CallInfo) (s : CheckSt)
    (e : PlErr) (h : builtinCheckD oracle file c s = .err e) : LocC file (InCall c.args c.np) e.chain := by
  unfold builtinCheckD at h
  simp only [bind, pure] at h
  repeat' split at h
  all_goals try first
    | (cases h; done)
    | (cases h; exact LocC.new (Or.inl rfl))
    | (cases h; have hl : 0 < c.args.length := by omega
       exact LocC.new (Or.inr (getD_start_in (i := 0) hl _)))
    | (cases h; have hl : 1 < c.args.length := by omega
       exact LocC.new (Or.inr (getD_start_in (i := 1) hl _)))
    | (cases h; have hl : 2 < c.args.length := by omega
       exact LocC.new (Or.inr (getD_start_in (i := 2) hl _)))
  all_goals (rename_i x a heq; split at heq <;> cases heq)

/-- the builtin table satisfies the checker contract -/
theorem builtin_fcheckOK (oracle : Bytes → Option Bytes) (file : Bytes) :
    FcheckOK file (fun c => some (builtinCheck oracle file c)) := by
  intro c m hm s
  cases hm
  unfold builtinCheck
  cases hr : builtinCheckD oracle file c s with
  | ok d => trivial
  | err e => exact builtinCheckD_located oracle file c s e hr
  | need q => trivial

end Platypus.ErrPos
