import Platypus.Proofs.PanicMachine
import Platypus.Proofs.PanicRender
/-!
C01 proof, part 6: the expression evaluator at fuel `f+1`, given the contracts of all the mutually
recursive functions at fuel `f`.
-/
namespace Platypus.PanicProofs
open Platypus Platypus.MachineProofs Platypus.C01

/-- hypotheses on the environment: bound scripts are checked, engine answers carry no integer
    below int64 -/
structure Hyp (env : Env) : Prop where
  bound : ∀ site cname cstmts, env.bound site = some (cname, cstmts) → CkL cstmts
  oracle : ∀ q a, env.oracle q = some a → AnsLo a

/-- the argument counts `builtin` relies on -/
def argcOk (fn : Fn) (args : List Node) : Prop :=
  match fn with
  | .len | .loadJson | .trim | .uppercase | .urlDecode => args.length ≥ 1
  | .grok => args.length ≥ 2
  | _ => True

theorem argcOk_of_argsOk {name : Bytes} {args : List Node} {np : Pos} {site : Nat} {fn : Fn}
    (h : argsOk ⟨name, args, np, site⟩ = true) (hf : Fn.ofName name = some fn) : argcOk fn args := by
  unfold argsOk at h
  simp only [hf] at h
  cases fn <;> simp_all [argcOk]

def QL : List TV → St → Prop := fun vs s' => ∀ v ∈ vs, GV s'.world.heap v
def QM : List (Bytes × Val) → St → Prop := fun m _ => ∀ kv ∈ m, valLo kv.2

/-- the contracts of the evaluator functions at fuel `f` -/
structure IH (env : Env) (f : Nat) : Prop where
  node : EvOK (evalNode env f)
  list : ∀ l s, CkL l → GS s → Tr s (evalList env f l) QL
  mapLit : ∀ kvs acc s, CkKV kvs → GS s → (∀ kv ∈ acc, valLo kv.2) → Tr s (evalMapLit env f kvs acc) QM
  search : ∀ cur idx s, CkL idx → GS s → valLo cur → Tr s (searchLM env f cur idx) QV
  change : ∀ cur idx val s, CkL idx → GS s → GV s.world.heap val → Tr s (changeLM env f cur idx val) QV
  slice : ∀ obj st en sp s, CkN obj → CkO st → CkO en → CkO sp → GS s →
    Tr s (evalSlice env f obj st en sp) QV
  assign : ∀ op lhs rhs p s, CkL lhs → CkL rhs → GS s → Tr s (evalAssign env f op lhs rhs p) QV
  call : ∀ name args np site s, argsOk ⟨name, args, np, site⟩ = true → CkL args → GS s →
    Tr s (evalCall env f name args np site) QV
  builtin : ∀ fn name args np site s, argcOk fn args → CkL args → GS s →
    Tr s (builtin env f fn name args np site) QT

section
variable {env : Env} {f : Nat}

theorem evalNode_step (ih : IH env f) : EvOK (evalNode env (f+1)) := by
  intro n s hn hs
  cases n
  case paren e _ _ => simp only [evalNode]; exact ih.node e s hn.paren hs
  case intLit v _ => simp only [evalNode]; exact Tr.pure hs (gv_int _ v hn.intLit)
  case floatLit b _ => simp only [evalNode]; exact Tr.pure hs (gv_float _ b)
  case boolLit b _ => simp only [evalNode]; exact Tr.pure hs (gv_bool _ b)
  case strLit b _ => simp only [evalNode]; exact Tr.pure hs (gv_str _ b)
  case nilLit _ => simp only [evalNode]; exact Tr.pure hs (gv_nil _)
  case attr _ _ _ => simp only [evalNode]; exact Tr.pure hs (gv_void _)
  case ident name _ =>
    simp only [evalNode]
    refine Tr.getS ?_
    split
    · rename_i v hv; exact Tr.pure hs (hs.getKey hv)
    · exact Tr.pure hs (gv_nil _)
  case unary op e p =>
    simp only [evalNode]
    refine Tr.bind (ih.node e s hn.unary hs) fun v s1 hs1 _ hv => ?_
    refine Tr.getS ?_
    split
    · rename_i r hr; exact Tr.pure hs1 (gv_unop hv hr)
    · exact Tr.runErr hs1 _ _
  case arith op l r p =>
    simp only [evalNode]
    refine Tr.bind (ih.node l s hn.arith.1 hs) fun a s1 hs1 _ _ => ?_
    refine Tr.bind (ih.node r s1 hn.arith.2 hs1) fun b s2 hs2 _ _ => ?_
    split
    · rename_i v hv; exact Tr.pure hs2 (gv_arith hv)
    · exact Tr.runErr hs2 _ _
  case cond op l r p =>
    simp only [evalNode]
    refine Tr.bind (ih.node l s hn.cond.1 hs) fun a s1 hs1 _ _ => ?_
    split
    · exact Tr.pure hs1 (gv_bool _ _)
    split
    · exact Tr.pure hs1 (gv_bool _ _)
    refine Tr.bind (ih.node r s1 hn.cond.2 hs1) fun b s2 hs2 _ _ => ?_
    refine Tr.getS ?_
    split
    · rename_i v hv; exact Tr.pure hs2 (gv_condOp hv)
    · exact Tr.runErr hs2 _ _
  case inE l r p =>
    simp only [evalNode]
    refine Tr.bind (ih.node l s hn.inE.1 hs) fun a s1 hs1 _ _ => ?_
    refine Tr.bind (ih.node r s1 hn.inE.2 hs1) fun b s2 hs2 _ _ => ?_
    refine Tr.getS ?_
    split
    · rename_i v hv; exact Tr.pure hs2 (gv_inOp hv)
    · exact Tr.runErr hs2 _ _
  case list xs _ _ =>
    simp only [evalNode]
    refine Tr.bind (ih.list xs s hn.list hs) fun vs s1 hs1 _ hvs => ?_
    refine Tr.getS ?_
    have hlo : objLo (.list (vs.map (·.v))) := by
      intro x hx
      obtain ⟨v, hv, rfl⟩ := List.mem_map.1 hx
      exact (hvs v hv).2
    refine Tr.modWorld_bind (heapLe_alloc _ _) ?_
    exact Tr.pure (hs1.heap_change (heapLe_alloc _ _) (heapLo_alloc hs1.heap hlo)) (gv_ref_list (get_alloc _ _))
  case map kvs _ _ =>
    simp only [evalNode]
    refine Tr.bind (ih.mapLit kvs [] s hn.map hs (by simp)) fun m s1 hs1 _ hm => ?_
    refine Tr.getS ?_
    refine Tr.modWorld_bind (heapLe_alloc _ _) ?_
    exact Tr.pure (hs1.heap_change (heapLe_alloc _ _) (heapLo_alloc hs1.heap hm)) (gv_ref_map (get_alloc _ _))
  case index obj idx _ _ =>
    simp only [evalNode]
    cases obj with
    | none => exact Tr.runErr hs _ _
    | some np =>
      obtain ⟨name, p⟩ := np
      dsimp only
      refine Tr.getS ?_
      repeat' split
      all_goals first
        | exact Tr.runErr hs _ _
        | exact ih.search _ idx s hn.index hs trivial
  case slice obj st en sp _ _ _ =>
    simp only [evalNode]
    obtain ⟨h1, h2, h3, h4⟩ := hn.slice
    exact ih.slice obj st en sp s h1 h2 h3 h4 hs
  case assign op lhs rhs p =>
    simp only [evalNode]
    exact ih.assign op lhs rhs p s hn.assign.1 hn.assign.2 hs
  case call name args np _ _ site =>
    simp only [evalNode]
    exact ih.call name args np site s hn.call.1 hn.call.2 hs
  all_goals
    simp only [evalNode]
    exact (mih_all ih.node f).stmt _ s hn hs

theorem evalList_step (ih : IH env f) (l : List Node) (s : St) (hl : CkL l) (hs : GS s) :
    Tr s (evalList env (f+1) l) QL := by
  cases l with
  | nil => simp only [evalList]; exact Tr.pure hs (by intro v hv; cases hv)
  | cons x r =>
    simp only [evalList]
    refine Tr.bind (ih.node x s hl.cons.1 hs) fun v s1 hs1 _ hv => ?_
    refine Tr.bind (ih.list r s1 hl.cons.2 hs1) fun vs s2 hs2 l2 hvs => ?_
    refine Tr.pure hs2 ?_
    intro w hw
    rcases List.mem_cons.1 hw with rfl | hw
    · exact hv.mono l2
    · exact hvs w hw

theorem evalMapLit_step (ih : IH env f) (kvs : List (Node × Node)) (acc : List (Bytes × Val)) (s : St)
    (hk : CkKV kvs) (hs : GS s) (hacc : ∀ kv ∈ acc, valLo kv.2) :
    Tr s (evalMapLit env (f+1) kvs acc) QM := by
  cases kvs with
  | nil => simp only [evalMapLit]; exact Tr.pure hs hacc
  | cons x r =>
    obtain ⟨k, v⟩ := x
    rw [evalMapLit.eq_def]
    simp only []
    obtain ⟨h1, h2, h3⟩ := hk.cons
    refine Tr.bind (ih.node k s h1 hs) fun kv s1 hs1 _ _ => ?_
    split
    · refine Tr.bind (ih.node v s1 h2 hs1) fun vv s2 hs2 _ hvv => ?_
      split
      all_goals first
        | exact ih.mapLit r _ s2 h3 hs2 (all_aset hacc hvv.2)
        | exact Tr.runErr hs2 _ _
    · exact Tr.runErr hs1 _ _

theorem searchLM_step (ih : IH env f) (cur : Val) (idx : List Node) (s : St)
    (hi : CkL idx) (hs : GS s) (hc : valLo cur) : Tr s (searchLM env (f+1) cur idx) QV := by
  cases idx with
  | nil =>
    simp only [searchLM]
    exact Tr.getS (Tr.pure hs (gv_detect _ _ hc))
  | cons i r =>
    rw [searchLM.eq_def]
    simp only []
    refine Tr.bind (ih.node i s hi.cons.1 hs) fun k s1 hs1 _ hk => ?_
    refine Tr.getS ?_
    split
    · split
      · rename_i a kvs hg
        split
        · exact Tr.runErr hs1 _ _
        · rename_i ht
          obtain ⟨b, hb⟩ := hk.str_val (Classical.not_not.1 ht)
          rw [hb]
          dsimp only
          split
          · rename_i v hv
            exact ih.search v r s1 hi.cons.2 hs1 (heapLo_get hs1.heap hg _ (mem_of_alookup hv))
          · exact Tr.pure hs1 (gv_nil _)
      · rename_i a xs hg
        split
        · exact Tr.runErr hs1 _ _
        · split
          · exact ih.search _ r s1 hi.cons.2 hs1 (valLo_getD (heapLo_get hs1.heap hg) _)
          · exact Tr.runErr hs1 _ _
      · exact Tr.runErr hs1 _ _
    · exact Tr.runErr hs1 _ _

theorem changeLM_step (ih : IH env f) (cur : Val) (idx : List Node) (val : TV) (s : St)
    (hi : CkL idx) (hs : GS s) (hv : GV s.world.heap val) : Tr s (changeLM env (f+1) cur idx val) QV := by
  cases idx with
  | nil =>
    simp only [changeLM]
    exact Tr.pure hs (gv_nil _)
  | cons i r =>
    rw [changeLM.eq_def]
    simp only []
    refine Tr.bind (ih.node i s hi.cons.1 hs) fun k s1 hs1 l1 hk => ?_
    have hv1 := hv.mono l1
    refine Tr.getS ?_
    split
    · split
      · rename_i a kvs hg
        split
        · exact Tr.runErr hs1 _ _
        · rename_i ht
          obtain ⟨b, hb⟩ := hk.str_val (Classical.not_not.1 ht)
          rw [hb]
          dsimp only
          split
          · have hle := heapLe_set (o' := .map (aset b val.v kvs)) hg rfl
            refine Tr.modWorld_bind hle ?_
            refine Tr.pure (hs1.heap_change hle (heapLo_set hs1.heap ?_)) (hv1.mono hle)
            exact all_aset (heapLo_get hs1.heap hg) hv1.2
          · split
            · exact ih.change _ r val s1 hi.cons.2 hs1 hv1
            · exact Tr.runErr hs1 _ _
      · rename_i a xs hg
        split
        · exact Tr.runErr hs1 _ _
        · split
          · split
            · rename_i j _ _
              have hle := heapLe_set (o' := .list (xs.set j val.v)) hg rfl
              refine Tr.modWorld_bind hle ?_
              refine Tr.pure (hs1.heap_change hle (heapLo_set hs1.heap ?_)) (hv1.mono hle)
              intro x hx
              rcases List.mem_or_eq_of_mem_set hx with hx | rfl
              · exact heapLo_get hs1.heap hg x hx
              · exact hv1.2
            · exact ih.change _ r val s1 hi.cons.2 hs1 hv1
          · exact Tr.runErr hs1 _ _
      · exact Tr.runErr hs1 _ _
    · exact Tr.runErr hs1 _ _

/-- a slice bound: nil counts as omitted, otherwise it must be an int -/
theorem tr_bound {s : St} (hs : GS s) (x : Option TV) (pos : Pos) (msg : String) {h : Heap}
    (hx : ∀ tv, x = some tv → GV h tv) :
    Tr s (match x with
      | none => (pure none : EM (Option Int))
      | some tv =>
        if tv.v = Val.nil then pure none
        else if tv.t ≠ DType.int then runErr pos msg
        else pure (some tv.v.toI64))
      (fun r s' => s' = s ∧ ∀ v, r = some v → minI64 ≤ v) := by
  split
  · exact Tr.pure hs ⟨rfl, by intro v h; cases h⟩
  · rename_i tv
    split
    · exact Tr.pure hs ⟨rfl, by intro v h; cases h⟩
    · split
      · exact Tr.runErr hs _ _
      · rename_i ht
        obtain ⟨i, hv, hi⟩ := (hx tv rfl).int_val (Classical.not_not.1 ht)
        refine Tr.pure hs ⟨rfl, ?_⟩
        intro v h
        rw [hv] at h
        cases h
        exact hi

theorem tr_optNode (ih : IH env f) (e : Option Node) (s : St) (he : CkO e) (hs : GS s) :
    Tr s (match e with
      | some e => some <$> evalNode env f e
      | none => (pure none : EM (Option TV)))
      (fun r s' => ∀ tv, r = some tv → GV s'.world.heap tv) := by
  split
  · refine Tr.map (ih.node _ s he.some hs) ?_
    intro a s' _ _ ha tv h
    cases h
    exact ha
  · exact Tr.pure hs (by intro tv h; cases h)

theorem two62 : (4611686018427387904 : Int) = 2 ^ 62 := by decide

theorem evalSlice_step (ih : IH env f) (obj : Node) (st en sp : Option Node) (s : St)
    (h1 : CkN obj) (h2 : CkO st) (h3 : CkO en) (h4 : CkO sp) (hs : GS s) :
    Tr s (evalSlice env (f+1) obj st en sp) QV := by
  rw [evalSlice.eq_def]
  simp only []
  refine Tr.bind (ih.node obj s h1 hs) fun o s1 hs1 _ ho => ?_
  refine Tr.bind (tr_optNode ih st s1 h2 hs1) fun sv s2 hs2 l2 hsv => ?_
  refine Tr.bind (tr_optNode ih en s2 h3 hs2) fun ev s3 hs3 l3 hev => ?_
  refine Tr.bind (tr_optNode ih sp s3 h4 hs3) fun pv s4 hs4 l4 hpv => ?_
  refine Tr.getS ?_
  have ho4 : GV s4.world.heap o := ho.mono (l2.trans (l3.trans l4))
  obtain ⟨ov, ot⟩ := o
  cases ot
  case str =>
    obtain ⟨b, hb⟩ := ho4.str_val rfl
    simp only at hb
    subst hb
    simp only []
    split
    · exact Tr.fuel
    refine Tr.bind (tr_bound hs4 pv _ _ hpv) fun stepI s5 hs5 _ h5 => ?_
    obtain ⟨rfl, _⟩ := h5
    split
    · exact Tr.runErr hs5 _ _
    refine Tr.bind (tr_bound hs5 sv _ _ hsv) fun startI s6 hs6 _ h6 => ?_
    obtain ⟨rfl, _⟩ := h6
    refine Tr.bind (tr_bound hs6 ev _ _ hev) fun endI s7 hs7 _ h7 => ?_
    obtain ⟨rfl, _⟩ := h7
    exact Tr.pure hs7 (gv_str _ _)
  case list =>
    obtain ⟨a, xs, ha, hg⟩ := ho4.list_val rfl
    simp only at ha
    subst ha
    simp only [hg]
    split
    · exact Tr.fuel
    rename_i hlen
    refine Tr.bind (tr_bound hs4 pv _ _ hpv) fun stepI s5 hs5 _ h5 => ?_
    obtain ⟨rfl, hst⟩ := h5
    split
    · exact Tr.runErr hs5 _ _
    rename_i hnz
    refine Tr.bind (tr_bound hs5 sv _ _ hsv) fun startI s6 hs6 _ h6 => ?_
    obtain ⟨rfl, hsa⟩ := h6
    refine Tr.bind (tr_bound hs6 ev _ _ hev) fun endI s7 hs7 _ h7 => ?_
    obtain ⟨rfl, hen⟩ := h7
    have hrange := slice_indices_in_range_lo xs.length (by rw [← two62]; omega) startI endI stepI hsa hen
      (fun v hv => ⟨hst v hv, fun h0 => hnz (by rw [hv, h0])⟩)
    split
    · rename_i hany
      exfalso
      obtain ⟨i, hi, hbad⟩ := List.any_eq_true.1 hany
      have := hrange i hi
      simp only [decide_eq_true_eq] at hbad
      omega
    · have hlo : objLo (.list ((Slice.indices xs.length startI endI stepI).map fun i => xs.getD i.toNat .nil)) := by
        intro x hx
        obtain ⟨i, _, rfl⟩ := List.mem_map.1 hx
        exact valLo_getD (heapLo_get hs7.heap hg) _
      refine Tr.modWorld_bind (heapLe_alloc _ _) ?_
      exact Tr.pure (hs7.heap_change (heapLe_alloc _ _) (heapLo_alloc hs7.heap hlo)) (gv_ref_list (get_alloc _ _))
  all_goals exact Tr.runErr hs4 _ _

theorem evalAssign_step (ih : IH env f) (op : AsOp) (lhs rhs : List Node) (p : Pos) (s : St)
    (hl : CkL lhs) (hr : CkL rhs) (hs : GS s) : Tr s (evalAssign env (f+1) op lhs rhs p) QV := by
  rw [evalAssign.eq_def]
  simp only []
  split
  · rename_i l r
    refine Tr.bind (ih.node r s hr.cons.1 hs) fun rv s1 hs1 _ hrv => ?_
    split
    · rename_i name _
      split
      · refine Tr.bind (tr_setVarb hs1 name hrv) fun _ s2 hs2 l2 _ => ?_
        exact Tr.pure hs2 (hrv.mono l2)
      · refine Tr.getS ?_
        split
        · exact Tr.pure hs1 (gv_nil _)
        · split
          · rename_i v hv
            refine Tr.bind (tr_setVarb hs1 name (gv_arith hv)) fun _ s2 hs2 _ _ => ?_
            exact Tr.pure hs2 (gv_arith hv)
          · exact Tr.runErr hs1 _ _
    · rename_i obj idx _ _
      have hidx : CkL idx := hl.cons.1.index
      split
      · exact Tr.runErr hs1 _ _
      · refine Tr.getS ?_
        split
        · exact Tr.runErr hs1 _ _
        · rename_i base hbase
          have hb := hs1.getKey hbase
          split
          · exact ih.change _ idx rv s1 hidx hs1 hrv
          · refine Tr.bind (ih.search _ idx s1 hidx hs1 hb.2) fun cur s2 hs2 _ _ => ?_
            split
            · rename_i v hv
              exact ih.change _ idx v s2 hidx hs2 (gv_arith hv)
            · exact Tr.runErr hs2 _ _
    · exact Tr.pure hs1 (gv_void _)
  · exact Tr.runErr hs _ _

theorem evalCall_step (ih : IH env f) (name : Bytes) (args : List Node) (np : Pos) (site : Nat) (s : St)
    (ha : argsOk ⟨name, args, np, site⟩ = true) (hargs : CkL args) (hs : GS s) :
    Tr s (evalCall env (f+1) name args np site) QV := by
  simp only [evalCall]
  unfold Tr
  dsimp only
  split
  · exact ⟨hs.regs_change (by simp), HeapLe.refl _, gv_void _⟩
  · cases hf : Fn.ofName name with
    | none => trivial
    | some fn =>
      dsimp only
      have hb := ih.builtin fn name args np site s (argcOk_of_argsOk ha hf) hargs hs
      unfold Tr at hb
      cases hr : builtin env f fn name args np site s with
      | ok u s' =>
        rw [hr] at hb
        refine ⟨hb.1.regs_change (by simp), hb.2.1, ?_⟩
        show GV s'.world.heap _
        split
        · rename_i x _ hx
          exact hb.1.regs x (by rw [hx]; exact List.mem_cons_self)
        · exact gv_void _
      | err e s' =>
        rw [hr] at hb
        exact ⟨hb.1.regs_change (by simp), hb.2⟩
      | panic m => rw [hr] at hb; exact hb
      | fuel => trivial
      | need q => trivial

end
end Platypus.PanicProofs
