import Platypus.Proofs.SignalBase
import Platypus.Proofs.PanicBytes
/-!
C14, effects-prefix theorem, part 3: the evaluation of a signal-free expression (`SF`) does not
depend on the signal: only `procExit` reads it, and without `use(…)` and without nested
statements no `procExit` is reached.
-/
namespace Platypus.SignalProofs
open Platypus Platypus.MachineProofs

theorem ask_withSig (env : Env) (hs : Bool) (o : Option Nat) : ask (withSigH env hs o) = ask env := rfl
theorem castToString_withSig (env : Env) (hs : Bool) (o : Option Nat) : castToString (withSigH env hs o) = castToString env := by
  funext v; cases v <;> rfl
theorem conv2str_withSig (env : Env) (hs : Bool) (o : Option Nat) : conv2str (withSigH env hs o) = conv2str env := by
  funext x; unfold conv2str; simp only [castToString_withSig, ask_withSig]

/-- signal-independence of the evaluator functions at fuel `f`, on signal-free arguments -/
structure EInd (env : Env) (sa sb : Bool) (a b : Option Nat) (f : Nat) : Prop where
  node : ∀ n, SF n → evalNode (withSigH env sa a) f n = evalNode (withSigH env sb b) f n
  list : ∀ l, (∀ x ∈ l, SF x) → evalList (withSigH env sa a) f l = evalList (withSigH env sb b) f l
  mapLit : ∀ kvs acc, (∀ kv ∈ kvs, SF kv.1) → (∀ kv ∈ kvs, SF kv.2) →
    evalMapLit (withSigH env sa a) f kvs acc = evalMapLit (withSigH env sb b) f kvs acc
  search : ∀ cur idx, (∀ x ∈ idx, SF x) → searchLM (withSigH env sa a) f cur idx = searchLM (withSigH env sb b) f cur idx
  change : ∀ cur idx val, (∀ x ∈ idx, SF x) →
    changeLM (withSigH env sa a) f cur idx val = changeLM (withSigH env sb b) f cur idx val
  slice : ∀ obj st en sp, SF obj → (∀ x, st = some x → SF x) → (∀ x, en = some x → SF x) →
    (∀ x, sp = some x → SF x) →
    evalSlice (withSigH env sa a) f obj st en sp = evalSlice (withSigH env sb b) f obj st en sp
  assign : ∀ op lhs rhs p, (∀ x ∈ lhs, SF x) → (∀ x ∈ rhs, SF x) →
    evalAssign (withSigH env sa a) f op lhs rhs p = evalAssign (withSigH env sb b) f op lhs rhs p
  call : ∀ name args np site, name ≠ B "use" → (∀ x ∈ args, SF x) →
    evalCall (withSigH env sa a) f name args np site = evalCall (withSigH env sb b) f name args np site
  builtin : ∀ fn name args np site, fn ≠ .use → (∀ x ∈ args, SF x) →
    builtin (withSigH env sa a) f fn name args np site = builtin (withSigH env sb b) f fn name args np site

theorem eind_zero (env : Env) (sa sb : Bool) (a b : Option Nat) : EInd env sa sb a b 0 := by
  refine ⟨?_, ?_, ?_, ?_, ?_, ?_, ?_, ?_, ?_⟩ <;> intros
  · simp only [evalNode]
  · simp only [evalList]
  · simp only [evalMapLit]
  · simp only [searchLM]
  · simp only [changeLM]
  · simp only [evalSlice]
  · simp only [evalAssign]
  · simp only [evalCall]
  · simp only [builtin]

theorem ite_ne' {α} {c : Prop} [Decidable c] {x y z : α} (hx : x ≠ z) (hy : y ≠ z) :
    (if c then x else y) ≠ z := by
  split <;> assumption

/-- only the name `use` denotes the builtin `use` -/
theorem ofName_ne_use {name : Bytes} (hn : name ≠ B "use") : Fn.ofName name ≠ some .use := by
  rw [PanicProofs.ofName_eq]
  rw [PanicProofs.B_use] at hn
  unfold PanicProofs.ofNameB
  simp only [if_neg hn]
  repeat (refine ite_ne' (by decide) ?_)
  decide

theorem ofName_use : Fn.ofName (B "use") = some .use := by
  rw [PanicProofs.ofName_eq, PanicProofs.B_use]; decide

section
variable {env : Env} {sa sb : Bool} {a b : Option Nat} {f : Nat}

theorem evalNode_ind_step (ih : EInd env sa sb a b f) (n : Node) (hn : SF n) :
    evalNode (withSigH env sa a) (f+1) n = evalNode (withSigH env sb b) (f+1) n := by
  cases hn
  case ident => simp only [evalNode]
  case strLit => simp only [evalNode]
  case intLit => simp only [evalNode]
  case floatLit => simp only [evalNode]
  case boolLit => simp only [evalNode]
  case nilLit => simp only [evalNode]
  case attr => simp only [evalNode]
  case brk => simp only [evalNode]; cases f <;> simp only [runStmt]
  case cont => simp only [evalNode]; cases f <;> simp only [runStmt]
  case list xs _ _ h => simp only [evalNode, ih.list xs h]
  case map kvs _ _ h1 h2 => simp only [evalNode, ih.mapLit kvs [] h1 h2]
  case paren e _ _ h => simp only [evalNode, ih.node e h]
  case index obj idx _ _ h => simp only [evalNode, fun cur => ih.search cur idx h]
  case unary op e p h => simp only [evalNode, ih.node e h]
  case arith op l r p h1 h2 => simp only [evalNode, ih.node l h1, ih.node r h2]
  case cond op l r p h1 h2 => simp only [evalNode, ih.node l h1, ih.node r h2]
  case inE l r p h1 h2 => simp only [evalNode, ih.node l h1, ih.node r h2]
  case assign op lhs rhs p h1 h2 => simp only [evalNode, ih.assign op lhs rhs p h1 h2]
  case call name args np lp rp site h1 h2 => simp only [evalNode, ih.call name args np site h1 h2]
  case slice o sa sb sc c2 lb rb h0 h1 h2 h3 => simp only [evalNode, ih.slice o sa sb sc h0 h1 h2 h3]

theorem evalList_ind_step (ih : EInd env sa sb a b f) (l : List Node) (hl : ∀ x ∈ l, SF x) :
    evalList (withSigH env sa a) (f+1) l = evalList (withSigH env sb b) (f+1) l := by
  cases l with
  | nil => simp only [evalList]
  | cons x r =>
    simp only [evalList, ih.node x (hl x (by simp)), ih.list r (fun y hy => hl y (by simp [hy]))]

theorem evalMapLit_ind_step (ih : EInd env sa sb a b f) (kvs : List (Node × Node)) (acc : List (Bytes × Val))
    (h1 : ∀ kv ∈ kvs, SF kv.1) (h2 : ∀ kv ∈ kvs, SF kv.2) :
    evalMapLit (withSigH env sa a) (f+1) kvs acc = evalMapLit (withSigH env sb b) (f+1) kvs acc := by
  cases kvs with
  | nil => simp only [evalMapLit]
  | cons kv r =>
    obtain ⟨k, v⟩ := kv
    simp only [evalMapLit, ih.node k (h1 (k, v) (by simp)), ih.node v (h2 (k, v) (by simp)),
      fun acc => ih.mapLit r acc (fun y hy => h1 y (by simp [hy])) (fun y hy => h2 y (by simp [hy]))]

theorem searchLM_ind_step (ih : EInd env sa sb a b f) (cur : Val) (idx : List Node) (h : ∀ x ∈ idx, SF x) :
    searchLM (withSigH env sa a) (f+1) cur idx = searchLM (withSigH env sb b) (f+1) cur idx := by
  cases idx with
  | nil => simp only [searchLM]
  | cons i r =>
    simp only [searchLM, ih.node i (h i (by simp)),
      fun cur => ih.search cur r (fun y hy => h y (by simp [hy]))]

theorem changeLM_ind_step (ih : EInd env sa sb a b f) (cur : Val) (idx : List Node) (val : TV) (h : ∀ x ∈ idx, SF x) :
    changeLM (withSigH env sa a) (f+1) cur idx val = changeLM (withSigH env sb b) (f+1) cur idx val := by
  cases idx with
  | nil => simp only [changeLM]
  | cons i r =>
    simp only [changeLM, ih.node i (h i (by simp)),
      fun cur val => ih.change cur r val (fun y hy => h y (by simp [hy]))]

theorem evalSlice_ind_step (ih : EInd env sa sb a b f) (obj : Node) (st en sp : Option Node) (h0 : SF obj)
    (h1 : ∀ x, st = some x → SF x) (h2 : ∀ x, en = some x → SF x) (h3 : ∀ x, sp = some x → SF x) :
    evalSlice (withSigH env sa a) (f+1) obj st en sp = evalSlice (withSigH env sb b) (f+1) obj st en sp := by
  cases st with
  | none =>
    cases en with
    | none =>
      cases sp with
      | none => simp only [evalSlice, ih.node obj h0]
      | some z => simp only [evalSlice, ih.node obj h0, ih.node z (h3 z rfl)]
    | some y =>
      cases sp with
      | none => simp only [evalSlice, ih.node obj h0, ih.node y (h2 y rfl)]
      | some z => simp only [evalSlice, ih.node obj h0, ih.node y (h2 y rfl), ih.node z (h3 z rfl)]
  | some x =>
    cases en with
    | none =>
      cases sp with
      | none => simp only [evalSlice, ih.node obj h0, ih.node x (h1 x rfl)]
      | some z => simp only [evalSlice, ih.node obj h0, ih.node x (h1 x rfl), ih.node z (h3 z rfl)]
    | some y =>
      cases sp with
      | none => simp only [evalSlice, ih.node obj h0, ih.node x (h1 x rfl), ih.node y (h2 y rfl)]
      | some z =>
        simp only [evalSlice, ih.node obj h0, ih.node x (h1 x rfl), ih.node y (h2 y rfl), ih.node z (h3 z rfl)]

theorem evalAssign_ind_step (ih : EInd env sa sb a b f) (op : AsOp) (lhs rhs : List Node) (p : Pos)
    (h1 : ∀ x ∈ lhs, SF x) (h2 : ∀ x ∈ rhs, SF x) :
    evalAssign (withSigH env sa a) (f+1) op lhs rhs p = evalAssign (withSigH env sb b) (f+1) op lhs rhs p := by
  rw [evalAssign.eq_def, evalAssign.eq_def]
  simp only []
  split
  · rename_i l r
    have hr : SF r := h2 r (by simp)
    have hl : SF l := h1 l (by simp)
    rw [ih.node r hr]
    cases hl <;> simp only []
    case index obj idx _ _ hidx =>
      simp only [fun cur val => ih.change cur idx val hidx, fun cur => ih.search cur idx hidx]
  · rfl

theorem evalCall_ind_step (ih : EInd env sa sb a b f) (name : Bytes) (args : List Node) (np : Pos) (site : Nat)
    (hn : name ≠ B "use") (ha : ∀ x ∈ args, SF x) :
    evalCall (withSigH env sa a) (f+1) name args np site = evalCall (withSigH env sb b) (f+1) name args np site := by
  funext s
  simp only [evalCall, withSigH_fns]
  cases hfn : Fn.ofName name with
  | none => rfl
  | some fn =>
    have hne : fn ≠ .use := fun h => ofName_ne_use hn (h ▸ hfn)
    simp only []
    rw [ih.builtin fn name args np site hne ha]
    rfl

theorem builtin_ind_step (ih : EInd env sa sb a b f) (fn : Fn) (name : Bytes) (args : List Node) (np : Pos) (site : Nat)
    (hfn : fn ≠ .use) (ha : ∀ x ∈ args, SF x) :
    builtin (withSigH env sa a) (f+1) fn name args np site = builtin (withSigH env sb b) (f+1) fn name args np site := by
  cases fn
  case use => exact absurd rfl hfn
  all_goals
    rw [builtin.eq_def]
    try rw [builtin.eq_def]
    try simp only [conv2str_withSig, ask_withSig, withSigH_grok]
  all_goals try rfl
  case addKey =>
    split
    · rfl
    · rename_i k e
      simp only [ih.node e (ha e (by simp))]
    · rfl
  case setTag =>
    split
    · rfl
    · rename_i k e
      simp only [ih.node e (ha e (by simp))]
    · rfl
  case setMeasurement =>
    split
    · rename_i a0 rest
      simp only [ih.node a0 (ha a0 (by simp))]
    · rfl
  case len =>
    split
    · rename_i a0 rest
      simp only [ih.node a0 (ha a0 (by simp))]
    · rfl
  case loadJson =>
    split
    · rename_i a0 rest
      simp only [ih.node a0 (ha a0 (by simp))]
    · rfl
  case strfmt =>
    split
    · rename_i k fmts p rest
      simp only [ih.list rest (fun x hx => ha x (by simp [hx]))]
    · rfl
    · rfl
  case printf =>
    split
    · rename_i a0 rest
      simp only [ih.node a0 (ha a0 (by simp)), ih.list rest (fun x hx => ha x (by simp [hx]))]
    · rfl
  case p => simp only [ih.list args ha]
  case pr => simp only [ih.list args ha]
  case void => simp only [ih.list args ha]

theorem eind_succ (ih : EInd env sa sb a b f) : EInd env sa sb a b (f+1) :=
  ⟨evalNode_ind_step ih, evalList_ind_step ih, evalMapLit_ind_step ih, searchLM_ind_step ih,
    changeLM_ind_step ih, evalSlice_ind_step ih, evalAssign_ind_step ih, evalCall_ind_step ih,
    builtin_ind_step ih⟩

end

theorem eind_all (env : Env) (sa sb : Bool) (a b : Option Nat) : ∀ f, EInd env sa sb a b f
  | 0 => eind_zero env sa sb a b
  | f+1 => eind_succ (eind_all env sa sb a b f)

/-- the value and the effects of a signal-free expression do not depend on the signal -/
theorem evalNode_sigFree (env : Env) (a b : Option Nat) (f : Nat) (n : Node) (h : SF n) :
    evalNode (withSig env a) f n = evalNode (withSig env b) f n :=
  (eind_all env true true a b f).node n h

/-- …nor on whether there is a signal at all -/
theorem evalNode_sigFree_noSignal (env : Env) (a : Option Nat) (f : Nat) (n : Node) (h : SF n) :
    evalNode (withSig env a) f n = evalNode (withSigH env false none) f n :=
  (eind_all env true false a none f).node n h

end Platypus.SignalProofs
