import Platypus.Proofs.ParsePosFactsBase
/-!
# Front end, helper 9: the start position of every attribute expression is the offset of an item

`PP.posFacts` (C17, tree part) leaves out the position stored in an attribute expression, because it
is not a token of the node itself but `ast.NodeStartPos` of its object.  Here: in every tree the
position-carrying parser returns, that position too is the offset of an item of the input
(`parsePosItems_attr`).  The parser only builds attribute expressions on identifiers, index
expressions and attribute expressions, whose start is a stored token offset.

Same induction as `ParsePosFacts.lean` (fuel, one step lemma per function, the leftover is a suffix
of the input), with the invariant `AOk ts0 t`: every attribute node of `t` has its position among
the offsets of `ts0`; `parsePosAttrChain` is only called on objects whose start is such an offset.
-/
set_option linter.unusedSimpArgs false
set_option linter.unusedVariables false
namespace Platypus.FrontEnd
open Platypus.Lex (Tok Item)
open Platypus.Parse Platypus.ParsePos

/-- `p` is the offset of an item of `ts` -/
def PIn (ts : List Item) (p : Nat) : Prop := ∃ i ∈ ts, i.pos = p

theorem PIn.of_In {ts : List Item} {p k} (h : In ts p k) : PIn ts p := by
  obtain ⟨i, hi, h1, _⟩ := h; exact ⟨i, hi, h1⟩
theorem PIn.mono {r ts : List Item} {p} (h : PIn r p) (hs : r <:+ ts) : PIn ts p := by
  obtain ⟨i, hi, h1⟩ := h; exact ⟨i, hs.subset hi, h1⟩
theorem PIn.head {ts0 : List Item} {i : Item} {rest : List Item} (hs : (i :: rest) <:+ ts0) :
    PIn ts0 i.pos := ⟨i, hs.subset List.mem_cons_self, rfl⟩

/-- the position of an attribute node is an item offset -/
def attrIn (ts0 : List Item) : PP → Prop
  | .attr _ _ p => PIn ts0 p
  | _ => True

def AOk (ts0 : List Item) (t : PP) : Prop := ∀ n ∈ t.nodes, attrIn ts0 n
def AOkL (ts0 : List Item) (xs : List PP) : Prop := ∀ x ∈ xs, AOk ts0 x
def AOkO (ts0 : List Item) (x : Option PP) : Prop := ∀ y, x = some y → AOk ts0 y
def AOkKV (ts0 : List Item) (xs : List (PP × PP)) : Prop := ∀ kv ∈ xs, AOk ts0 kv.1 ∧ AOk ts0 kv.2
def AIfs (ts0 : List Item) (ifs : List (Nat × PP × List PP)) : Prop :=
  ∀ e ∈ ifs, AOk ts0 e.2.1 ∧ AOkL ts0 e.2.2
def IdxA (ts0 : List Item) (lbs : List Nat) : Prop := ∀ p ∈ lbs, PIn ts0 p

theorem aOk_iff {ts0 : List Item} {t : PP} : AOk ts0 t ↔ attrIn ts0 t ∧ ∀ c ∈ t.children, AOk ts0 c := by
  unfold AOk
  rw [PP.nodes_eq]
  simp only [List.mem_cons, List.mem_flatMap]
  constructor
  · intro h
    exact ⟨h t (Or.inl rfl), fun c hc n hn => h n (Or.inr ⟨c, hc, hn⟩)⟩
  · rintro ⟨h1, h2⟩ n (rfl | ⟨c, hc, hn⟩)
    · exact h1
    · exact h2 c hc n hn

theorem AOkL.nil {ts0} : AOkL ts0 [] := by intro x hx; cases hx
theorem AOkL.append {ts0 a b} (ha : AOkL ts0 a) (hb : AOkL ts0 b) : AOkL ts0 (a ++ b) := by
  intro x hx; rcases List.mem_append.1 hx with h | h
  · exact ha x h
  · exact hb x h
theorem AOkL.single {ts0 x} (h : AOk ts0 x) : AOkL ts0 [x] := by
  intro y hy; simp at hy; subst hy; exact h
theorem AOkL.snoc {ts0 a x} (ha : AOkL ts0 a) (h : AOk ts0 x) : AOkL ts0 (a ++ [x]) :=
  ha.append (AOkL.single h)
theorem AOkO.none {ts0} : AOkO ts0 none := by intro y hy; cases hy
theorem AOkO.some {ts0 x} (h : AOk ts0 x) : AOkO ts0 (some x) := by
  intro y hy; cases hy; exact h
theorem AOkO.toList {ts0 x} (h : AOkO ts0 x) : AOkL ts0 x.toList := by
  intro y hy; cases x with
  | none => simp at hy
  | some z => simp at hy; subst hy; exact h _ rfl
theorem AOkKV.nil {ts0} : AOkKV ts0 [] := by intro x hx; cases hx
theorem AOkKV.snoc {ts0 a k v} (ha : AOkKV ts0 a) (hk : AOk ts0 k) (hv : AOk ts0 v) :
    AOkKV ts0 (a ++ [(k, v)]) := by
  intro x hx; rcases List.mem_append.1 hx with h | h
  · exact ha x h
  · simp at h; subst h; exact ⟨hk, hv⟩
theorem AIfs.single {ts0 p c b} (hc : AOk ts0 c) (hb : AOkL ts0 b) : AIfs ts0 [(p, c, b)] := by
  intro e he; simp at he; subst he; exact ⟨hc, hb⟩
theorem AIfs.snoc {ts0 ifs p c b} (h : AIfs ts0 ifs) (hc : AOk ts0 c) (hb : AOkL ts0 b) :
    AIfs ts0 (ifs ++ [(p, c, b)]) := by
  intro e he; rcases List.mem_append.1 he with h' | h'
  · exact h e h'
  · simp at h'; subst h'; exact ⟨hc, hb⟩
theorem IdxA.nil {ts0} : IdxA ts0 [] := by intro p hp; cases hp
theorem IdxA.snoc {ts0 lbs p} (h : IdxA ts0 lbs) (hp : PIn ts0 p) : IdxA ts0 (lbs ++ [p]) := by
  intro q hq; rcases List.mem_append.1 hq with h' | h'
  · exact h q h'
  · simp at h'; subst h'; exact hp
theorem IdxA.headD {ts0 lbs} (h : IdxA ts0 lbs) (hne : lbs ≠ []) : PIn ts0 (lbs.headD 0) := by
  cases lbs with
  | nil => exact absurd rfl hne
  | cons a r => exact h a (by simp)

/-! ### one constructor lemma per node kind -/

theorem a_ident {ts0 q v p} : AOk ts0 (.ident q v p) := aOk_iff.2 ⟨trivial, by simp [PP.children]⟩
theorem a_num {ts0 n v p k} : AOk ts0 (.num n v p k) := aOk_iff.2 ⟨trivial, by simp [PP.children]⟩
theorem a_str {ts0 m v p} : AOk ts0 (.str m v p) := aOk_iff.2 ⟨trivial, by simp [PP.children]⟩
theorem a_bool {ts0 b p} : AOk ts0 (.bool b p) := aOk_iff.2 ⟨trivial, by simp [PP.children]⟩
theorem a_nil {ts0 p k} : AOk ts0 (.nil p k) := aOk_iff.2 ⟨trivial, by simp [PP.children]⟩
theorem a_brk {ts0 p} : AOk ts0 (.brk p) := aOk_iff.2 ⟨trivial, by simp [PP.children]⟩
theorem a_cont {ts0 p} : AOk ts0 (.cont p) := aOk_iff.2 ⟨trivial, by simp [PP.children]⟩
theorem a_list {ts0 xs lb rb} (hx : AOkL ts0 xs) : AOk ts0 (.list xs lb rb) :=
  aOk_iff.2 ⟨trivial, by simp only [PP.children]; exact hx⟩
theorem a_map {ts0 kvs lb rb} (hx : AOkKV ts0 kvs) : AOk ts0 (.map kvs lb rb) :=
  aOk_iff.2 ⟨trivial, by
    intro c hc
    simp only [PP.children, List.mem_flatMap, List.mem_cons, List.not_mem_nil, or_false] at hc
    obtain ⟨kv, hkv, rfl | rfl⟩ := hc
    · exact (hx kv hkv).1
    · exact (hx kv hkv).2⟩
theorem a_paren {ts0 e lp rp} (hx : AOk ts0 e) : AOk ts0 (.paren e lp rp) :=
  aOk_iff.2 ⟨trivial, AOkL.single hx⟩
theorem a_attr {ts0 o a} (ho : AOk ts0 o) (ha : AOk ts0 a) (hs : PIn ts0 o.start) : AOk ts0 (.attr o a o.start) :=
  aOk_iff.2 ⟨hs, by simpa [PP.children] using ⟨ho, ha⟩⟩
theorem a_index {ts0 obj idx lbs rbs} (hx : AOkL ts0 idx) : AOk ts0 (.index obj idx lbs rbs) :=
  aOk_iff.2 ⟨trivial, by simp only [PP.children]; exact hx⟩
theorem a_unary {ts0 op e p} (hx : AOk ts0 e) : AOk ts0 (.unary op e p) :=
  aOk_iff.2 ⟨trivial, AOkL.single hx⟩
theorem a_bin {ts0 op l r p} (hl : AOk ts0 l) (hr : AOk ts0 r) : AOk ts0 (.bin op l r p) :=
  aOk_iff.2 ⟨trivial, by simpa [PP.children] using ⟨hl, hr⟩⟩
theorem a_assign {ts0 op l r p} (hl : AOkL ts0 l) (hr : AOkL ts0 r) : AOk ts0 (.assign op l r p) :=
  aOk_iff.2 ⟨trivial, hl.append hr⟩
theorem a_call {ts0 q v args np lp rp} (hx : AOkL ts0 args) : AOk ts0 (.call q v args np lp rp) :=
  aOk_iff.2 ⟨trivial, by simp only [PP.children]; exact hx⟩
theorem a_slice {ts0 o a b c c2 lb rb} (ho : AOk ts0 o) (ha : AOkO ts0 a) (hb : AOkO ts0 b)
    (hc : AOkO ts0 c) : AOk ts0 (.slice o a b c c2 lb rb) :=
  aOk_iff.2 ⟨trivial, (AOkL.single ho).append ((ha.toList.append hb.toList).append hc.toList)⟩
theorem a_ifelse {ts0 ifs els} (hi : AIfs ts0 ifs) (he : ∀ e, els = some e → AOkL ts0 e.2) :
    AOk ts0 (.ifelse ifs els) := by
  refine aOk_iff.2 ⟨trivial, ?_⟩
  intro c hc
  simp only [PP.children, List.mem_append, List.mem_flatMap, List.mem_cons] at hc
  rcases hc with ⟨e, hE, rfl | h⟩ | h
  · exact (hi e hE).1
  · exact (hi e hE).2 c h
  · cases els with
    | none => simp at h
    | some e => exact he e rfl c h
theorem a_forS {ts0 i c l b p} (hi : AOkO ts0 i) (hc : AOkO ts0 c) (hl : AOkO ts0 l)
    (hb : AOkL ts0 b) : AOk ts0 (.forS i c l b p) :=
  aOk_iff.2 ⟨trivial, ((hi.toList.append hc.toList).append hl.toList).append hb⟩
theorem a_forIn {ts0 v it b fp ip} (hv : AOk ts0 v) (hit : AOk ts0 it) (hb : AOkL ts0 b) :
    AOk ts0 (.forIn v it b fp ip) :=
  aOk_iff.2 ⟨trivial, by
    intro c hc
    simp only [PP.children, List.mem_cons] at hc
    rcases hc with rfl | rfl | h
    · exact hv
    · exact hit
    · exact hb c h⟩

theorem a_mkUnaryP {ts0 op} {i : Item} {e} (he : AOk ts0 e) : AOk ts0 (mkUnaryP op i e) := by
  cases op <;> cases e <;> simp only [mkUnaryP] <;> first | exact a_unary he | exact a_num

theorem a_mkBinP {ts0 op p l r e} (h : mkBinP op p l r = some e) (hl : AOk ts0 l) (hr : AOk ts0 r) :
    AOk ts0 e := by
  have : e = .bin op l r p := by
    unfold mkBinP at h
    split at h <;> (try split at h) <;> simp_all
  subst this
  exact a_bin hl hr

theorem a_mkSliceP {ts0 o a b c c2 lb rb s} (h : mkSliceP o a b c c2 lb rb = some s) (ho : AOk ts0 o)
    (ha : AOkO ts0 a) (hb : AOkO ts0 b) (hc : AOkO ts0 c) : AOk ts0 s := by
  unfold mkSliceP at h
  split at h
  · cases h
  · cases h; exact a_slice ho ha hb hc

theorem a_mkForInP {ts0 fp e body st} (h : mkForInP fp e body = some st) (he : AOk ts0 e)
    (hb : AOkL ts0 body) : AOk ts0 st := by
  unfold mkForInP at h
  split at h
  · rename_i q v p it ip
    have hn := (aOk_iff.1 he)
    have hit : AOk ts0 it := hn.2 _ (by simp [PP.children])
    split at h <;> first | (cases h; done) | (cases h; exact a_forIn a_ident hit hb)
  · cases h

/-! ### the invariant -/

structure AInv (f : Nat) : Prop where
  expr : ∀ ts0 mp ts t r, ts <:+ ts0 → parsePosExpr f mp ts = some (t, r) → r <:+ ts ∧ AOk ts0 t
  binRest : ∀ ts0 mp l ts t r, ts <:+ ts0 → AOk ts0 l → parsePosBinRest f mp l ts = some (t, r) →
    r <:+ ts ∧ AOk ts0 t
  unary : ∀ ts0 ts t r, ts <:+ ts0 → parsePosUnary f ts = some (t, r) → r <:+ ts ∧ AOk ts0 t
  primary : ∀ ts0 ts t r, ts <:+ ts0 → parsePosPrimary f ts = some (t, r) → r <:+ ts ∧ AOk ts0 t
  afterIdent : ∀ ts0 q v p r t r', r <:+ ts0 → PIn ts0 p →
    parsePosAfterIdent f q v p r = some (t, r') → r' <:+ r ∧ AOk ts0 t
  indexChain : ∀ ts0 acc lbs rbs ts res r, ts <:+ ts0 → AOkL ts0 acc → IdxA ts0 lbs →
    parsePosIndexChain f acc lbs rbs ts = some (res, r) →
    r <:+ ts ∧ AOkL ts0 res.1 ∧ IdxA ts0 res.2.1 ∧ (lbs ≠ [] → res.2.1 ≠ [])
  attrChain : ∀ ts0 obj ts t r, ts <:+ ts0 → AOk ts0 obj → PIn ts0 obj.start →
    parsePosAttrChain f obj ts = some (t, r) → r <:+ ts ∧ AOk ts0 t
  attrY : ∀ ts0 ts t r, ts <:+ ts0 → parsePosAttrY f ts = some (t, r) → r <:+ ts ∧ AOk ts0 t
  attrYIdx : ∀ ts0 nm r t r', r <:+ ts0 → parsePosAttrYIdx f nm r = some (t, r') → r' <:+ r ∧ AOk ts0 t
  sliceChain : ∀ ts0 obj ts t r, ts <:+ ts0 → AOk ts0 obj → parsePosSliceChain f obj ts = some (t, r) →
    r <:+ ts ∧ AOk ts0 t
  sliceBody : ∀ ts0 st ts res r, ts <:+ ts0 → AOkO ts0 st → parsePosSliceBody f st ts = some (res, r) →
    r <:+ ts ∧ AOkO ts0 res.1 ∧ AOkO ts0 res.2.1 ∧ AOkO ts0 res.2.2.1
  args : ∀ ts0 acc ts res r, ts <:+ ts0 → AOkL ts0 acc → parsePosArgs f acc ts = some (res, r) →
    r <:+ ts ∧ AOkL ts0 res.1
  listElems : ∀ ts0 acc ts res r, ts <:+ ts0 → AOkL ts0 acc → parsePosListElems f acc ts = some (res, r) →
    r <:+ ts ∧ AOkL ts0 res.1
  mapElems : ∀ ts0 acc ts res r, ts <:+ ts0 → AOkKV ts0 acc → parsePosMapElems f acc ts = some (res, r) →
    r <:+ ts ∧ AOkKV ts0 res.1
  commaParams : ∀ ts0 acc ts res r, ts <:+ ts0 → AOkL ts0 acc →
    parsePosCommaParams f acc ts = some (res, r) → r <:+ ts ∧ AOkL ts0 res
  simple : ∀ ts0 ts t r, ts <:+ ts0 → parsePosSimple f ts = some (t, r) → r <:+ ts ∧ AOk ts0 t
  block : ∀ ts0 ts b r, ts <:+ ts0 → parsePosBlock f ts = some (b, r) → r <:+ ts ∧ AOkL ts0 b
  stmts : ∀ ts0 ts b r, ts <:+ ts0 → parsePosStmts f ts = some (b, r) → r <:+ ts ∧ AOkL ts0 b
  stmtsTail : ∀ ts0 acc ts b r, ts <:+ ts0 → AOkL ts0 acc → parsePosStmtsTail f acc ts = some (b, r) →
    r <:+ ts ∧ AOkL ts0 b
  stmtsAfterSep : ∀ ts0 acc ts b r, ts <:+ ts0 → AOkL ts0 acc →
    parsePosStmtsAfterSep f acc ts = some (b, r) → r <:+ ts ∧ AOkL ts0 b
  stmt : ∀ ts0 ts t r, ts <:+ ts0 → parsePosStmt f ts = some (t, r) → r <:+ ts ∧ AOk ts0 t
  elifs : ∀ ts0 acc ts t r, ts <:+ ts0 → AIfs ts0 acc → parsePosElifs f acc ts = some (t, r) →
    r <:+ ts ∧ AOk ts0 t
  for_ : ∀ ts0 fp ts t r, ts <:+ ts0 → parsePosFor f fp ts = some (t, r) → r <:+ ts ∧ AOk ts0 t
  forRest : ∀ ts0 fp init ts t r, ts <:+ ts0 → AOkO ts0 init →
    parsePosForRest f fp init ts = some (t, r) → r <:+ ts ∧ AOk ts0 t

theorem aInv_zero : AInv 0 := by
  constructor <;> intros <;> simp_all [parsePosExpr, parsePosBinRest, parsePosUnary, parsePosPrimary,
    parsePosAfterIdent, parsePosIndexChain, parsePosAttrChain, parsePosAttrY, parsePosAttrYIdx, parsePosSliceChain,
    parsePosSliceBody, parsePosArgs, parsePosListElems, parsePosMapElems, parsePosCommaParams, parsePosSimple,
    parsePosBlock, parsePosStmts, parsePosStmtsTail, parsePosStmtsAfterSep, parsePosStmt, parsePosElifs,
    parsePosFor, parsePosForRest]

theorem ai_expr {f} (ih : AInv f) : ∀ ts0 mp ts t r, ts <:+ ts0 → parsePosExpr (f+1) mp ts = some (t, r) →
    r <:+ ts ∧ AOk ts0 t := by
  intro ts0 mp ts t r hs h
  simp only [parsePosExpr] at h
  rcases hu : parsePosUnary f ts with _ | ⟨l, r1⟩ <;> simp only [hu, reduceCtorEq] at h
  obtain ⟨s1, o1⟩ := ih.unary ts0 ts l r1 hs hu
  obtain ⟨s2, o2⟩ := ih.binRest ts0 mp l r1 t r (by suff) o1 h
  exact ⟨by suff, o2⟩

theorem ai_binRest {f} (ih : AInv f) : ∀ ts0 mp l ts t r, ts <:+ ts0 → AOk ts0 l →
    parsePosBinRest (f+1) mp l ts = some (t, r) → r <:+ ts ∧ AOk ts0 t := by
  intro ts0 mp l ts t r hs hl h
  simp only [parsePosBinRest] at h
  cases ts with
  | nil => cases h; exact ⟨List.suffix_refl _, hl⟩
  | cons i rest =>
    dsimp only at h
    rcases hb : binOf i.typ with _ | ⟨p, op⟩ <;> simp only [hb] at h
    · cases h; exact ⟨List.suffix_refl _, hl⟩
    · split at h
      · rcases he : parsePosExpr f (p + 1) (skipE rest) with _ | ⟨rhs, r2⟩ <;> simp only [he, reduceCtorEq] at h
        obtain ⟨s1, o1⟩ := ih.expr ts0 (p+1) (skipE rest) rhs r2 (by suff) he
        rcases hm : mkBinP op i.pos l rhs with _ | e <;> simp only [hm, reduceCtorEq] at h
        have oe := a_mkBinP hm hl o1
        obtain ⟨s2, o2⟩ := ih.binRest ts0 mp e r2 t r (by suff) oe h
        exact ⟨by suff, o2⟩
      · cases h; exact ⟨List.suffix_refl _, hl⟩

theorem ai_unary {f} (ih : AInv f) : ∀ ts0 ts t r, ts <:+ ts0 → parsePosUnary (f+1) ts = some (t, r) →
    r <:+ ts ∧ AOk ts0 t := by
  intro ts0 ts t r hs h
  simp only [parsePosUnary] at h
  cases ts with
  | nil => cases h
  | cons i rest =>
    dsimp only at h
    rcases hb : unOf i.typ with _ | op <;> simp only [hb] at h
    · exact ih.primary ts0 _ t r hs h
    · rcases he : parsePosUnary f rest with _ | ⟨e, r1⟩ <;> simp only [he, reduceCtorEq] at h
      obtain ⟨s1, o1⟩ := ih.unary ts0 rest e r1 (by suff) he
      cases h
      exact ⟨by suff, a_mkUnaryP o1⟩

theorem ai_primary {f} (ih : AInv f) : ∀ ts0 ts t r, ts <:+ ts0 → parsePosPrimary (f+1) ts = some (t, r) →
    r <:+ ts ∧ AOk ts0 t := by
  intro ts0 ts t r hs h
  cases ts with
  | nil => simp [parsePosPrimary] at h
  | cons i rest =>
    simp only [parsePosPrimary] at h
    cases ht : i.typ <;> simp only [ht, reduceCtorEq] at h
    case ID =>
      obtain ⟨s, o⟩ := ih.afterIdent ts0 false i.val i.pos rest t r (by suff) (PIn.head hs) h
      exact ⟨by suff, o⟩
    case QUOTED_STRING =>
      split at h
      · obtain ⟨s, o⟩ := ih.afterIdent ts0 true i.val i.pos rest t r (by suff) (PIn.head hs) h
        exact ⟨by suff, o⟩
      · cases h
    case DOT =>
      rcases h1 : expect .LEFT_BRACKET rest with _ | r1 <;> simp only [h1, reduceCtorEq] at h
      rcases h2 : parsePosExpr f 1 (skipE r1) with _ | ⟨e, r2⟩ <;> simp only [h2, reduceCtorEq] at h
      rcases h3 : expect .RIGHT_BRACKET (skipE r2) with _ | r3 <;> simp only [h3, reduceCtorEq] at h
      rcases h4 : parsePosIndexChain f [e] [hp rest] [hp (skipE r2)] r3 with _ | ⟨ic, r4⟩ <;>
        simp only [h4, reduceCtorEq] at h
      have e1 := expect_suffix h1
      obtain ⟨s2, o2⟩ := ih.expr ts0 1 (skipE r1) e r2 (by suff) h2
      have e3 := expect_suffix h3
      have hlb : PIn ts0 (hp rest) := (PIn.of_In (in_of_expect h1)).mono (by suff)
      obtain ⟨s4, o4, i4, n4⟩ := ih.indexChain ts0 [e] [hp rest] [hp (skipE r2)] r3 ic r4 (by suff)
        (AOkL.single o2) (IdxA.nil.snoc hlb) h4
      obtain ⟨s5, o5⟩ := ih.attrChain ts0 (.index none ic.1 ic.2.1 ic.2.2) r4 t r (by suff) (a_index o4)
        (i4.headD (n4 (by simp))) h
      exact ⟨by suff, o5⟩
    case NUMBER =>
      obtain ⟨s, o⟩ := ih.sliceChain ts0 _ rest t r (by suff) a_num h
      exact ⟨by suff, o⟩
    case TRUE =>
      obtain ⟨s, o⟩ := ih.sliceChain ts0 _ rest t r (by suff) a_bool h
      exact ⟨by suff, o⟩
    case FALSE =>
      obtain ⟨s, o⟩ := ih.sliceChain ts0 _ rest t r (by suff) a_bool h
      exact ⟨by suff, o⟩
    case NIL =>
      obtain ⟨s, o⟩ := ih.sliceChain ts0 _ rest t r (by suff) a_nil h
      exact ⟨by suff, o⟩
    case NULL =>
      obtain ⟨s, o⟩ := ih.sliceChain ts0 _ rest t r (by suff) a_nil h
      exact ⟨by suff, o⟩
    case STRING =>
      split at h
      · obtain ⟨s, o⟩ := ih.sliceChain ts0 _ rest t r (by suff) a_str h
        exact ⟨by suff, o⟩
      · cases h
    case MULTILINE_STRING =>
      split at h
      · obtain ⟨s, o⟩ := ih.sliceChain ts0 _ rest t r (by suff) a_str h
        exact ⟨by suff, o⟩
      · cases h
    case LEFT_BRACKET =>
      split at h
      · obtain ⟨s, o⟩ := ih.sliceChain ts0 _ _ t r (by suff) (a_list AOkL.nil) h
        exact ⟨by suff, o⟩
      · rcases h1 : parsePosListElems f [] (skipE rest) with _ | ⟨xr, r2⟩ <;> simp only [h1, reduceCtorEq] at h
        obtain ⟨s1, o1⟩ := ih.listElems ts0 [] (skipE rest) xr r2 (by suff) AOkL.nil h1
        obtain ⟨s, o⟩ := ih.sliceChain ts0 _ r2 t r (by suff) (a_list o1) h
        exact ⟨by suff, o⟩
    case LEFT_BRACE =>
      split at h
      · cases h
        exact ⟨by suff, a_map AOkKV.nil⟩
      · rcases h1 : parsePosMapElems f [] (skipE rest) with _ | ⟨kr, r2⟩ <;> simp only [h1, reduceCtorEq] at h
        obtain ⟨s1, o1⟩ := ih.mapElems ts0 [] (skipE rest) kr r2 (by suff) AOkKV.nil h1
        cases h
        exact ⟨by suff, a_map o1⟩
    case LEFT_PAREN =>
      rcases h2 : parsePosExpr f 1 (skipE rest) with _ | ⟨e, r2⟩ <;> simp only [h2, reduceCtorEq] at h
      rcases h3 : expect .RIGHT_PAREN (skipE r2) with _ | r3 <;> simp only [h3, reduceCtorEq] at h
      obtain ⟨s2, o2⟩ := ih.expr ts0 1 (skipE rest) e r2 (by suff) h2
      have e3 := expect_suffix h3
      cases h
      exact ⟨by suff, a_paren o2⟩

theorem ai_slice {f} (ih : AInv f) {ts0 tb : List Item} {obj : PP} {st : Option PP}
    {sl : Option PP × Option PP × Option PP × Bool × Nat} {r2 : List Item} {s : PP} {lb : Nat}
    (hb : tb <:+ ts0) (ho : AOk ts0 obj)
    (hst : AOkO ts0 st) (h1 : parsePosSliceBody f st tb = some (sl, r2))
    (h2 : mkSliceP obj sl.1 sl.2.1 sl.2.2.1 sl.2.2.2.1 lb sl.2.2.2.2 = some s) :
    r2 <:+ tb ∧ AOk ts0 s := by
  obtain ⟨s1, oa, ob, oc⟩ := ih.sliceBody ts0 st tb sl r2 hb hst h1
  exact ⟨s1, a_mkSliceP h2 ho oa ob oc⟩

theorem ai_afterIdent {f} (ih : AInv f) : ∀ ts0 q v p r t r', r <:+ ts0 → PIn ts0 p →
    parsePosAfterIdent (f+1) q v p r = some (t, r') → r' <:+ r ∧ AOk ts0 t := by
  intro ts0 q v p r t r' hs hp0 h
  simp only [parsePosAfterIdent] at h
  cases ht : tk r <;> simp only [ht] at h
  case LEFT_PAREN =>
    split at h
    · obtain ⟨s, o⟩ := ih.sliceChain ts0 _ _ t r' (by suff) (a_call AOkL.nil) h
      exact ⟨by suff, o⟩
    · rcases h1 : parsePosArgs f [] (skipE (r.drop 1)) with _ | ⟨ar, r2⟩ <;> simp only [h1, reduceCtorEq] at h
      obtain ⟨s1, o1⟩ := ih.args ts0 [] _ ar r2 (by suff) AOkL.nil h1
      obtain ⟨s, o⟩ := ih.sliceChain ts0 _ r2 t r' (by suff) (a_call o1) h
      exact ⟨by suff, o⟩
  case LEFT_BRACKET =>
    split at h
    · rcases h1 : parsePosSliceBody f none (skipE (r.drop 1)) with _ | ⟨sl, r2⟩ <;>
        simp only [h1, reduceCtorEq] at h
      rcases h2 : mkSliceP (.ident q v p) sl.1 sl.2.1 sl.2.2.1 sl.2.2.2.1 (hp r) sl.2.2.2.2 with _ | s <;>
        simp only [h2, reduceCtorEq] at h
      obtain ⟨s1, os⟩ := ai_slice ih (by suff : skipE (r.drop 1) <:+ ts0) a_ident AOkO.none h1 h2
      obtain ⟨s3, o3⟩ := ih.sliceChain ts0 s r2 t r' (by suff) os h
      exact ⟨by suff, o3⟩
    · rcases hx : parsePosExpr f 1 (skipE (r.drop 1)) with _ | ⟨e, r2⟩ <;> simp only [hx, reduceCtorEq] at h
      obtain ⟨sx, ox⟩ := ih.expr ts0 1 _ e r2 (by suff) hx
      split at h
      · rcases h1 : parsePosSliceBody f (some e) r2 with _ | ⟨sl, r3⟩ <;> simp only [h1, reduceCtorEq] at h
        rcases h2 : mkSliceP (.ident q v p) sl.1 sl.2.1 sl.2.2.1 sl.2.2.2.1 (hp r) sl.2.2.2.2 with _ | s <;>
          simp only [h2, reduceCtorEq] at h
        obtain ⟨s1, os⟩ := ai_slice ih (by suff : r2 <:+ ts0) a_ident (AOkO.some ox) h1 h2
        obtain ⟨s3, o3⟩ := ih.sliceChain ts0 s r3 t r' (by suff) os h
        exact ⟨by suff, o3⟩
      · rcases h3 : expect .RIGHT_BRACKET (skipE r2) with _ | r3 <;> simp only [h3, reduceCtorEq] at h
        rcases h4 : parsePosIndexChain f [e] [hp r] [hp (skipE r2)] r3 with _ | ⟨ic, r4⟩ <;>
          simp only [h4, reduceCtorEq] at h
        have e3 := expect_suffix h3
        obtain ⟨s4, o4, i4, n4⟩ := ih.indexChain ts0 [e] [hp r] [hp (skipE r2)] r3 ic r4 (by suff) (AOkL.single ox)
          (IdxA.nil.snoc ((PIn.of_In (in_of_tk ht (by decide))).mono hs)) h4
        obtain ⟨s5, o5⟩ := ih.attrChain ts0 (.index (some (q, v, p)) ic.1 ic.2.1 ic.2.2) r4 t r' (by suff)
          (a_index o4) hp0 h
        exact ⟨by suff, o5⟩
  case DOT => exact ih.attrChain ts0 _ r t r' hs a_ident hp0 h
  all_goals (cases h; exact ⟨List.suffix_refl _, a_ident⟩)

theorem ai_indexChain {f} (ih : AInv f) : ∀ ts0 acc lbs rbs ts res r, ts <:+ ts0 → AOkL ts0 acc →
    IdxA ts0 lbs → parsePosIndexChain (f+1) acc lbs rbs ts = some (res, r) →
    r <:+ ts ∧ AOkL ts0 res.1 ∧ IdxA ts0 res.2.1 ∧ (lbs ≠ [] → res.2.1 ≠ []) := by
  intro ts0 acc lbs rbs ts res r hs ha hi h
  simp only [parsePosIndexChain] at h
  split at h
  · rename_i hlb0
    have hlb := in_of_tk hlb0 (by decide)
    rcases h2 : parsePosExpr f 1 (skipE (ts.drop 1)) with _ | ⟨e, r2⟩ <;> simp only [h2, reduceCtorEq] at h
    rcases h3 : expect .RIGHT_BRACKET (skipE r2) with _ | r3 <;> simp only [h3, reduceCtorEq] at h
    obtain ⟨s2, o2⟩ := ih.expr ts0 1 _ e r2 (by suff) h2
    have e3 := expect_suffix h3
    obtain ⟨s4, o4, i4, n4⟩ := ih.indexChain ts0 _ _ _ r3 res r (by suff) (ha.snoc o2)
      (hi.snoc ((PIn.of_In hlb).mono hs)) h
    exact ⟨by suff, o4, i4, fun _ => n4 (by simp)⟩
  · cases h; exact ⟨List.suffix_refl _, ha, hi, fun h => h⟩

theorem ai_attrChain {f} (ih : AInv f) : ∀ ts0 obj ts t r, ts <:+ ts0 → AOk ts0 obj → PIn ts0 obj.start →
    parsePosAttrChain (f+1) obj ts = some (t, r) → r <:+ ts ∧ AOk ts0 t := by
  intro ts0 obj ts t r hs ho hst h
  simp only [parsePosAttrChain] at h
  split at h
  · rcases h2 : parsePosAttrY f (ts.drop 1) with _ | ⟨y, r1⟩ <;> simp only [h2, reduceCtorEq] at h
    obtain ⟨s2, o2⟩ := ih.attrY ts0 _ y r1 (by suff) h2
    obtain ⟨s3, o3⟩ := ih.attrChain ts0 _ r1 t r (by suff) (a_attr ho o2 hst) hst h
    exact ⟨by suff, o3⟩
  · cases h; exact ⟨List.suffix_refl _, ho⟩

theorem ai_attrY {f} (ih : AInv f) : ∀ ts0 ts t r, ts <:+ ts0 → parsePosAttrY (f+1) ts = some (t, r) →
    r <:+ ts ∧ AOk ts0 t := by
  intro ts0 ts t r hs h
  cases ts with
  | nil => simp [parsePosAttrY] at h
  | cons i rest =>
    simp only [parsePosAttrY] at h
    cases ht : i.typ <;> simp only [ht, reduceCtorEq] at h
    case ID =>
      obtain ⟨s, o⟩ := ih.attrYIdx ts0 (some (false, i.val, i.pos)) rest t r (by suff) h
      exact ⟨by suff, o⟩
    case QUOTED_STRING =>
      split at h
      · obtain ⟨s, o⟩ := ih.attrYIdx ts0 (some (true, i.val, i.pos)) rest t r (by suff) h
        exact ⟨by suff, o⟩
      · cases h
    case DOT =>
      split at h
      · obtain ⟨s, o⟩ := ih.attrYIdx ts0 none rest t r (by suff) h
        exact ⟨by suff, o⟩
      · cases h

theorem ai_attrYIdx {f} (ih : AInv f) : ∀ ts0 nm r t r', r <:+ ts0 →
    parsePosAttrYIdx (f+1) nm r = some (t, r') → r' <:+ r ∧ AOk ts0 t := by
  intro ts0 nm r t r' hs h
  simp only [parsePosAttrYIdx] at h
  split at h
  · rcases h4 : parsePosIndexChain f [] [] [] r with _ | ⟨ic, r2⟩ <;> simp only [h4, reduceCtorEq] at h
    obtain ⟨s4, o4, i4, _⟩ := ih.indexChain ts0 [] [] [] r ic r2 hs AOkL.nil IdxA.nil h4
    cases h
    exact ⟨s4, a_index o4⟩
  · rcases nm with _ | ⟨q, v, p⟩ <;> simp only [reduceCtorEq] at h
    cases h
    exact ⟨List.suffix_refl _, a_ident⟩

theorem ai_sliceChain {f} (ih : AInv f) : ∀ ts0 obj ts t r, ts <:+ ts0 → AOk ts0 obj →
    parsePosSliceChain (f+1) obj ts = some (t, r) → r <:+ ts ∧ AOk ts0 t := by
  intro ts0 obj ts t r hs ho h
  simp only [parsePosSliceChain] at h
  split at h
  · split at h
    · rcases h1 : parsePosSliceBody f none (skipE (ts.drop 1)) with _ | ⟨sl, r2⟩ <;>
        simp only [h1, reduceCtorEq] at h
      rcases h2 : mkSliceP obj sl.1 sl.2.1 sl.2.2.1 sl.2.2.2.1 (hp ts) sl.2.2.2.2 with _ | s <;>
        simp only [h2, reduceCtorEq] at h
      obtain ⟨s1, os⟩ := ai_slice ih (by suff : skipE (ts.drop 1) <:+ ts0) ho AOkO.none h1 h2
      obtain ⟨s3, o3⟩ := ih.sliceChain ts0 s r2 t r (by suff) os h
      exact ⟨by suff, o3⟩
    · rcases hx : parsePosExpr f 1 (skipE (ts.drop 1)) with _ | ⟨e, r2⟩ <;> simp only [hx, reduceCtorEq] at h
      obtain ⟨sx, ox⟩ := ih.expr ts0 1 _ e r2 (by suff) hx
      rcases h1 : parsePosSliceBody f (some e) r2 with _ | ⟨sl, r3⟩ <;> simp only [h1, reduceCtorEq] at h
      rcases h2 : mkSliceP obj sl.1 sl.2.1 sl.2.2.1 sl.2.2.2.1 (hp ts) sl.2.2.2.2 with _ | s <;>
        simp only [h2, reduceCtorEq] at h
      obtain ⟨s1, os⟩ := ai_slice ih (by suff : r2 <:+ ts0) ho (AOkO.some ox) h1 h2
      obtain ⟨s3, o3⟩ := ih.sliceChain ts0 s r3 t r (by suff) os h
      exact ⟨by suff, o3⟩
  · cases h; exact ⟨List.suffix_refl _, ho⟩

theorem ai_sliceBody {f} (ih : AInv f) : ∀ ts0 st ts res r, ts <:+ ts0 → AOkO ts0 st →
    parsePosSliceBody (f+1) st ts = some (res, r) →
    r <:+ ts ∧ AOkO ts0 res.1 ∧ AOkO ts0 res.2.1 ∧ AOkO ts0 res.2.2.1 := by
  intro ts0 st ts res r hs hst h
  simp only [parsePosSliceBody] at h
  rcases h0 : expect .COLON ts with _ | r0 <;> simp only [h0, reduceCtorEq] at h
  have e0 := expect_suffix h0
  have tail : ∀ (stop : Option PP) (r2 : List Item), r2 <:+ ts → AOkO ts0 stop →
      (if tk r2 = Tok.COLON then
        if tk (skipE (List.drop 1 r2)) = Tok.RIGHT_BRACKET then
          some ((st, stop, none, true, hp (skipE (List.drop 1 r2))), List.drop 1 (skipE (List.drop 1 r2)))
        else
          match parsePosExpr f 1 (skipE (List.drop 1 r2)) with
          | some (e, r4) =>
            match expect Tok.RIGHT_BRACKET r4 with
            | some r5 => some ((st, stop, some e, true, hp r4), r5)
            | none => none
          | none => none
      else
        match expect Tok.RIGHT_BRACKET r2 with
        | some r3 => some ((st, stop, none, false, hp r2), r3)
        | none => none) = some (res, r) →
      r <:+ ts ∧ AOkO ts0 res.1 ∧ AOkO ts0 res.2.1 ∧ AOkO ts0 res.2.2.1 := by
    intro stop r2 s2 ostop h
    split at h
    · split at h
      · cases h
        exact ⟨by suff, hst, ostop, AOkO.none⟩
      · rcases h3 : parsePosExpr f 1 (skipE (r2.drop 1)) with _ | ⟨e', r4⟩ <;> simp only [h3, reduceCtorEq] at h
        rcases h5 : expect .RIGHT_BRACKET r4 with _ | r5 <;> simp only [h5, reduceCtorEq] at h
        obtain ⟨s3, o3⟩ := ih.expr ts0 1 _ e' r4 (by suff) h3
        have e5 := expect_suffix h5
        cases h
        exact ⟨by suff, hst, ostop, AOkO.some o3⟩
    · rcases h5 : expect .RIGHT_BRACKET r2 with _ | r3 <;> simp only [h5, reduceCtorEq] at h
      have e5 := expect_suffix h5
      cases h
      exact ⟨by suff, hst, ostop, AOkO.none⟩
  by_cases hc : (decide (tk (skipE r0) = Tok.COLON) || decide (tk (skipE r0) = Tok.RIGHT_BRACKET)) = true
  · simp only [hc, ↓reduceIte] at h
    exact tail none (skipE r0) (by suff) AOkO.none h
  · simp only [hc, Bool.false_eq_true, ↓reduceIte] at h
    rcases h2 : parsePosExpr f 1 (skipE r0) with _ | ⟨e, r2⟩ <;> simp only [h2, reduceCtorEq] at h
    obtain ⟨s2, o2⟩ := ih.expr ts0 1 _ e r2 (by suff) h2
    exact tail (some e) r2 (by suff) (AOkO.some o2) h

theorem ai_args {f} (ih : AInv f) : ∀ ts0 acc ts res r, ts <:+ ts0 → AOkL ts0 acc →
    parsePosArgs (f+1) acc ts = some (res, r) → r <:+ ts ∧ AOkL ts0 res.1 := by
  intro ts0 acc ts res r hs ha h
  simp only [parsePosArgs] at h
  rcases h1 : parsePosExpr f 1 ts with _ | ⟨e, r1⟩ <;> simp only [h1, reduceCtorEq] at h
  obtain ⟨s1, o1⟩ := ih.expr ts0 1 ts e r1 hs h1
  have tail : ∀ (arg : PP) (r' : List Item), r' <:+ ts → AOk ts0 arg →
      (if tk r' = Tok.COMMA then
        if tk (skipE (List.drop 1 r')) = Tok.RIGHT_PAREN then
          some ((acc ++ [arg], hp (skipE (List.drop 1 r'))), List.drop 1 (skipE (List.drop 1 r')))
        else parsePosArgs f (acc ++ [arg]) (skipE (List.drop 1 r'))
      else
        match expect Tok.RIGHT_PAREN (skipE r') with
        | some r3 => some ((acc ++ [arg], hp (skipE r')), r3)
        | none => none) = some (res, r) →
      r <:+ ts ∧ AOkL ts0 res.1 := by
    intro arg r' s' oa h
    split at h
    · split at h
      · cases h
        exact ⟨by suff, ha.snoc oa⟩
      · obtain ⟨s2, o2⟩ := ih.args ts0 _ _ res r (by suff) (ha.snoc oa) h
        exact ⟨by suff, o2⟩
    · rcases h5 : expect .RIGHT_PAREN (skipE r') with _ | r3 <;> simp only [h5, reduceCtorEq] at h
      have e5 := expect_suffix h5
      cases h
      exact ⟨by suff, ha.snoc oa⟩
  cases e
  case ident q v p =>
    simp only at h
    by_cases hq : tk r1 = Tok.EQ
    · simp only [hq, ↓reduceIte] at h
      rcases h2 : parsePosExpr f 1 (skipE (r1.drop 1)) with _ | ⟨v', r2⟩ <;> simp only [h2, reduceCtorEq] at h
      obtain ⟨s2, o2⟩ := ih.expr ts0 1 _ v' r2 (by suff) h2
      exact tail _ r2 (by suff) (a_assign (AOkL.single o1) (AOkL.single o2)) h
    · simp only [hq, ↓reduceIte] at h
      exact tail _ r1 s1 o1 h
  all_goals (simp only at h; exact tail _ r1 s1 o1 h)

theorem ai_listElems {f} (ih : AInv f) : ∀ ts0 acc ts res r, ts <:+ ts0 → AOkL ts0 acc →
    parsePosListElems (f+1) acc ts = some (res, r) → r <:+ ts ∧ AOkL ts0 res.1 := by
  intro ts0 acc ts res r hs ha h
  simp only [parsePosListElems] at h
  rcases h1 : parsePosExpr f 1 ts with _ | ⟨e, r1⟩ <;> simp only [h1, reduceCtorEq] at h
  obtain ⟨s1, o1⟩ := ih.expr ts0 1 ts e r1 hs h1
  split at h
  · cases h
    exact ⟨by suff, ha.snoc o1⟩
  · split at h
    · split at h
      · cases h
        exact ⟨by suff, ha.snoc o1⟩
      · obtain ⟨s2, o2⟩ := ih.listElems ts0 _ _ res r (by suff) (ha.snoc o1) h
        exact ⟨by suff, o2⟩
    · cases h

theorem ai_mapElems {f} (ih : AInv f) : ∀ ts0 acc ts res r, ts <:+ ts0 → AOkKV ts0 acc →
    parsePosMapElems (f+1) acc ts = some (res, r) → r <:+ ts ∧ AOkKV ts0 res.1 := by
  intro ts0 acc ts res r hs ha h
  simp only [parsePosMapElems] at h
  rcases h1 : parsePosExpr f 1 ts with _ | ⟨k, r1⟩ <;> simp only [h1, reduceCtorEq] at h
  obtain ⟨s1, o1⟩ := ih.expr ts0 1 ts k r1 hs h1
  rcases h2 : expect .COLON r1 with _ | r2 <;> simp only [h2, reduceCtorEq] at h
  have e2 := expect_suffix h2
  rcases h3 : parsePosExpr f 1 (skipE r2) with _ | ⟨v, r3⟩ <;> simp only [h3, reduceCtorEq] at h
  obtain ⟨s3, o3⟩ := ih.expr ts0 1 _ v r3 (by suff) h3
  split at h
  · split at h
    · cases h
      exact ⟨by suff, ha.snoc o1 o3⟩
    · obtain ⟨s4, o4⟩ := ih.mapElems ts0 _ _ res r (by suff) (ha.snoc o1 o3) h
      exact ⟨by suff, o4⟩
  · rcases h5 : expect .RIGHT_BRACE (skipE r3) with _ | r4 <;> simp only [h5, reduceCtorEq] at h
    have e5 := expect_suffix h5
    cases h
    exact ⟨by suff, ha.snoc o1 o3⟩

theorem ai_commaParams {f} (ih : AInv f) : ∀ ts0 acc ts res r, ts <:+ ts0 → AOkL ts0 acc →
    parsePosCommaParams (f+1) acc ts = some (res, r) → r <:+ ts ∧ AOkL ts0 res := by
  intro ts0 acc ts res r hs ha h
  simp only [parsePosCommaParams] at h
  rcases h1 : parsePosExpr f 1 ts with _ | ⟨e, r1⟩ <;> simp only [h1, reduceCtorEq] at h
  obtain ⟨s1, o1⟩ := ih.expr ts0 1 ts e r1 hs h1
  split at h
  · obtain ⟨s2, o2⟩ := ih.commaParams ts0 _ _ res r (by suff) (ha.snoc o1) h
    exact ⟨by suff, o2⟩
  · cases h; exact ⟨s1, ha.snoc o1⟩

theorem ai_simple {f} (ih : AInv f) : ∀ ts0 ts t r, ts <:+ ts0 → parsePosSimple (f+1) ts = some (t, r) →
    r <:+ ts ∧ AOk ts0 t := by
  intro ts0 ts t r hs h
  simp only [parsePosSimple] at h
  rcases h1 : parsePosCommaParams f [] ts with _ | ⟨es, r1⟩ <;> simp only [h1, reduceCtorEq] at h
  obtain ⟨s1, o1⟩ := ih.commaParams ts0 [] ts es r1 hs AOkL.nil h1
  split at h
  · rcases h2 : parsePosCommaParams f [] (skipE (r1.drop 1)) with _ | ⟨rs, r2⟩ <;>
      simp only [h2, reduceCtorEq] at h
    obtain ⟨s2, o2⟩ := ih.commaParams ts0 [] _ rs r2 (by suff) AOkL.nil h2
    cases h
    exact ⟨by suff, a_assign o1 o2⟩
  · rcases ha : asgOf (tk r1) with _ | op <;> simp only [ha] at h
    · rcases es with _ | ⟨e, _ | ⟨e2, es⟩⟩ <;> simp only [reduceCtorEq] at h
      cases h
      exact ⟨s1, o1 _ (by simp)⟩
    · rcases es with _ | ⟨e, _ | ⟨e2, es⟩⟩ <;> simp only [reduceCtorEq] at h
      rcases h3 : parsePosExpr f 1 (skipE (r1.drop 1)) with _ | ⟨v, r2⟩ <;> simp only [h3, reduceCtorEq] at h
      obtain ⟨s3, o3⟩ := ih.expr ts0 1 _ v r2 (by suff) h3
      cases h
      exact ⟨by suff, a_assign (AOkL.single (o1 e (by simp))) (AOkL.single o3)⟩

theorem ai_block {f} (ih : AInv f) : ∀ ts0 ts b r, ts <:+ ts0 → parsePosBlock (f+1) ts = some (b, r) →
    r <:+ ts ∧ AOkL ts0 b := by
  intro ts0 ts b r hs h
  simp only [parsePosBlock] at h
  rcases h0 : expect .LEFT_BRACE ts with _ | r0 <;> simp only [h0, reduceCtorEq] at h
  have e0 := expect_suffix h0
  split at h
  · cases h; exact ⟨by suff, AOkL.nil⟩
  · rcases h1 : parsePosStmts f (skipE r0) with _ | ⟨ss, r2⟩ <;> simp only [h1, reduceCtorEq] at h
    rcases h2 : expect .RIGHT_BRACE r2 with _ | r3 <;> simp only [h2, reduceCtorEq] at h
    have e2 := expect_suffix h2
    obtain ⟨s1, o1⟩ := ih.stmts ts0 _ ss r2 (by suff) h1
    cases h; exact ⟨by suff, o1⟩

theorem ai_stmts {f} (ih : AInv f) : ∀ ts0 ts b r, ts <:+ ts0 → parsePosStmts (f+1) ts = some (b, r) →
    r <:+ ts ∧ AOkL ts0 b := by
  intro ts0 ts b r hs h
  simp only [parsePosStmts] at h
  split at h
  · obtain ⟨s, o⟩ := ih.stmtsAfterSep ts0 [] _ b r (by suff) AOkL.nil h
    exact ⟨by suff, o⟩
  · rcases h1 : parsePosStmt f ts with _ | ⟨s, r1⟩ <;> simp only [h1, reduceCtorEq] at h
    obtain ⟨s1, o1⟩ := ih.stmt ts0 ts s r1 hs h1
    obtain ⟨s2, o2⟩ := ih.stmtsTail ts0 [s] r1 b r (by suff) (AOkL.single o1) h
    exact ⟨by suff, o2⟩

theorem ai_stmtsTail {f} (ih : AInv f) : ∀ ts0 acc ts b r, ts <:+ ts0 → AOkL ts0 acc →
    parsePosStmtsTail (f+1) acc ts = some (b, r) → r <:+ ts ∧ AOkL ts0 b := by
  intro ts0 acc ts b r hs ha h
  simp only [parsePosStmtsTail] at h
  split at h
  · obtain ⟨s, o⟩ := ih.stmtsAfterSep ts0 acc _ b r (by suff) ha h
    exact ⟨by suff, o⟩
  · cases h; exact ⟨List.suffix_refl _, ha⟩

theorem ai_stmtsAfterSep {f} (ih : AInv f) : ∀ ts0 acc ts b r, ts <:+ ts0 → AOkL ts0 acc →
    parsePosStmtsAfterSep (f+1) acc ts = some (b, r) → r <:+ ts ∧ AOkL ts0 b := by
  intro ts0 acc ts b r hs ha h
  simp only [parsePosStmtsAfterSep] at h
  split at h
  · cases h; exact ⟨List.suffix_refl _, ha⟩
  · rcases h1 : parsePosStmt f ts with _ | ⟨s, r1⟩ <;> simp only [h1, reduceCtorEq] at h
    obtain ⟨s1, o1⟩ := ih.stmt ts0 ts s r1 hs h1
    obtain ⟨s2, o2⟩ := ih.stmtsTail ts0 _ r1 b r (by suff) (ha.snoc o1) h
    exact ⟨by suff, o2⟩

theorem ai_stmt {f} (ih : AInv f) : ∀ ts0 ts t r, ts <:+ ts0 → parsePosStmt (f+1) ts = some (t, r) →
    r <:+ ts ∧ AOk ts0 t := by
  intro ts0 ts t r hs h
  cases ts with
  | nil => simp [parsePosStmt] at h
  | cons i rest =>
    simp only [parsePosStmt] at h
    cases ht : i.typ <;> simp only [ht] at h
    case IF =>
      rcases h1 : parsePosExpr f 1 rest with _ | ⟨c, r1⟩ <;> simp only [h1, reduceCtorEq] at h
      rcases h2 : parsePosBlock f r1 with _ | ⟨b, r2⟩ <;> simp only [h2, reduceCtorEq] at h
      obtain ⟨s1, o1⟩ := ih.expr ts0 1 rest c r1 (by suff) h1
      obtain ⟨s2, o2⟩ := ih.block ts0 r1 b r2 (by suff) h2
      obtain ⟨s3, o3⟩ := ih.elifs ts0 _ r2 t r (by suff) (AIfs.single o1 o2) h
      exact ⟨by suff, o3⟩
    case FOR =>
      obtain ⟨s, o⟩ := ih.for_ ts0 i.pos rest t r (by suff) h
      exact ⟨by suff, o⟩
    case BREAK => cases h; exact ⟨by suff, a_brk⟩
    case CONTINUE => cases h; exact ⟨by suff, a_cont⟩
    all_goals exact ih.simple ts0 _ t r hs h

theorem ai_elifs {f} (ih : AInv f) : ∀ ts0 acc ts t r, ts <:+ ts0 → AIfs ts0 acc →
    parsePosElifs (f+1) acc ts = some (t, r) → r <:+ ts ∧ AOk ts0 t := by
  intro ts0 acc ts t r hs ha h
  simp only [parsePosElifs] at h
  split at h
  · rcases h1 : parsePosExpr f 1 (ts.drop 1) with _ | ⟨c, r1⟩ <;> simp only [h1, reduceCtorEq] at h
    rcases h2 : parsePosBlock f r1 with _ | ⟨b, r2⟩ <;> simp only [h2, reduceCtorEq] at h
    obtain ⟨s1, o1⟩ := ih.expr ts0 1 _ c r1 (by suff) h1
    obtain ⟨s2, o2⟩ := ih.block ts0 r1 b r2 (by suff) h2
    obtain ⟨s3, o3⟩ := ih.elifs ts0 _ r2 t r (by suff) (ha.snoc o1 o2) h
    exact ⟨by suff, o3⟩
  · split at h
    · rcases h2 : parsePosBlock f (ts.drop 1) with _ | ⟨b, r2⟩ <;> simp only [h2, reduceCtorEq] at h
      obtain ⟨s2, o2⟩ := ih.block ts0 _ b r2 (by suff) h2
      cases h
      exact ⟨by suff, a_ifelse ha (by intro e he; cases he; exact o2)⟩
    · cases h; exact ⟨List.suffix_refl _, a_ifelse ha (by intro e he; cases he)⟩

theorem ai_for {f} (ih : AInv f) : ∀ ts0 fp ts t r, ts <:+ ts0 →
    parsePosFor (f+1) fp ts = some (t, r) → r <:+ ts ∧ AOk ts0 t := by
  intro ts0 fp ts t r hs h
  simp only [parsePosFor] at h
  split at h
  · obtain ⟨s, o⟩ := ih.forRest ts0 fp none _ t r (by suff) AOkO.none h
    exact ⟨by suff, o⟩
  · rcases h1 : parsePosSimple f ts with _ | ⟨s, r1⟩ <;> simp only [h1, reduceCtorEq] at h
    obtain ⟨s1, o1⟩ := ih.simple ts0 ts s r1 hs h1
    split at h
    · rcases h2 : parsePosBlock f r1 with _ | ⟨b, r2⟩ <;> simp only [h2, reduceCtorEq] at h
      obtain ⟨s2, o2⟩ := ih.block ts0 r1 b r2 (by suff) h2
      rcases h3 : mkForInP fp s b with _ | st <;> simp only [h3, reduceCtorEq] at h
      cases h
      exact ⟨by suff, a_mkForInP h3 o1 o2⟩
    · rcases h2 : expect .SEMICOLON r1 with _ | r2 <;> simp only [h2, reduceCtorEq] at h
      have e2 := expect_suffix h2
      obtain ⟨s3, o3⟩ := ih.forRest ts0 fp (some s) r2 t r (by suff) (AOkO.some o1) h
      exact ⟨by suff, o3⟩

theorem ai_forRest {f} (ih : AInv f) : ∀ ts0 fp init ts t r, ts <:+ ts0 → AOkO ts0 init →
    parsePosForRest (f+1) fp init ts = some (t, r) → r <:+ ts ∧ AOk ts0 t := by
  intro ts0 fp init ts t r hs hi h
  simp only [parsePosForRest] at h
  have tail : ∀ (cond : Option PP) (r0 : List Item), r0 <:+ ts → AOkO ts0 cond →
      (match expect Tok.SEMICOLON r0 with
        | none => none
        | some r1 =>
          match
            if tk r1 = Tok.LEFT_BRACE then
              match parsePosBlock f r1 with
              | some (b, r2) => if stmtEnd (tk r2) = true then some (b, r2) else none
              | none => none
            else none with
          | some (b, r2) => some (PP.forS init cond none b fp, r2)
          | none =>
            match parsePosSimple f r1 with
            | some (l, r2) =>
              match parsePosBlock f r2 with
              | some (b, r3) => some (PP.forS init cond (some l) b fp, r3)
              | none => none
            | none => none) = some (t, r) → r <:+ ts ∧ AOk ts0 t := by
    intro cond r0 s0 oc h
    rcases h1 : expect .SEMICOLON r0 with _ | r1 <;> simp only [h1, reduceCtorEq] at h
    have e1 := expect_suffix h1
    have rest : (match parsePosSimple f r1 with
          | some (l, r2) =>
            match parsePosBlock f r2 with
            | some (b, r3) => some (PP.forS init cond (some l) b fp, r3)
            | none => none
          | none => none) = some (t, r) → r <:+ ts ∧ AOk ts0 t := by
      intro h
      rcases h2 : parsePosSimple f r1 with _ | ⟨l, r2⟩ <;> simp only [h2, reduceCtorEq] at h
      rcases h3 : parsePosBlock f r2 with _ | ⟨b, r3⟩ <;> simp only [h3, reduceCtorEq] at h
      obtain ⟨s2, o2⟩ := ih.simple ts0 r1 l r2 (by suff) h2
      obtain ⟨s3, o3⟩ := ih.block ts0 r2 b r3 (by suff) h3
      cases h
      exact ⟨by suff, a_forS hi oc (AOkO.some o2) o3⟩
    by_cases hb : tk r1 = Tok.LEFT_BRACE
    · simp only [hb, ↓reduceIte] at h
      rcases h2 : parsePosBlock f r1 with _ | ⟨b, r2⟩ <;> simp only [h2] at h
      · exact rest h
      · by_cases he : stmtEnd (tk r2) = true
        · simp only [he, ↓reduceIte] at h
          obtain ⟨s2, o2⟩ := ih.block ts0 r1 b r2 (by suff) h2
          cases h
          exact ⟨by suff, a_forS hi oc AOkO.none o2⟩
        · simp only [he, Bool.false_eq_true, ↓reduceIte] at h
          exact rest h
    · simp only [hb, ↓reduceIte] at h
      exact rest h
  by_cases hsc : tk ts = Tok.SEMICOLON
  · simp only [hsc, ↓reduceIte] at h
    exact tail none ts (List.suffix_refl _) AOkO.none h
  · simp only [hsc, ↓reduceIte] at h
    rcases h1 : parsePosExpr f 1 ts with _ | ⟨c, r1⟩ <;> simp only [h1, reduceCtorEq] at h
    obtain ⟨s1, o1⟩ := ih.expr ts0 1 ts c r1 hs h1
    exact tail (some c) r1 s1 (AOkO.some o1) h

theorem aInv : ∀ f, AInv f
  | 0 => aInv_zero
  | f+1 =>
    have ih := aInv f
    { expr := ai_expr ih, binRest := ai_binRest ih, unary := ai_unary ih, primary := ai_primary ih
      afterIdent := ai_afterIdent ih, indexChain := ai_indexChain ih, attrChain := ai_attrChain ih
      attrY := ai_attrY ih, attrYIdx := ai_attrYIdx ih, sliceChain := ai_sliceChain ih
      sliceBody := ai_sliceBody ih, args := ai_args ih, listElems := ai_listElems ih
      mapElems := ai_mapElems ih, commaParams := ai_commaParams ih, simple := ai_simple ih
      block := ai_block ih, stmts := ai_stmts ih, stmtsTail := ai_stmtsTail ih
      stmtsAfterSep := ai_stmtsAfterSep ih, stmt := ai_stmt ih, elifs := ai_elifs ih
      for_ := ai_for ih, forRest := ai_forRest ih }

/-- in every tree `parsePosItems` returns, the position of every attribute expression is the offset
    of an item of the input -/
theorem parsePosItems_attr {its : List Item} {tps : List PP} (h : parsePosItems its = some tps) :
    ∀ tp ∈ tps, AOk its tp := by
  simp only [parsePosItems] at h
  split at h
  · cases h
  · split at h
    · split at h
      · cases h; intro tp htp; cases htp
      · cases h
    · rcases h1 : parsePosStmts (16 * (its.filter fun i => decide (i.typ ≠ .COMMENT)).length + 64)
          (skipE (its.filter fun i => decide (i.typ ≠ .COMMENT))) with _ | ⟨ss, r⟩ <;>
        simp only [h1, reduceCtorEq] at h
      split at h
      · cases h
        obtain ⟨_, o⟩ := (aInv _).stmts (its.filter fun i => decide (i.typ ≠ .COMMENT)) _ _ r (skipE_suffix _) h1
        intro tp htp n hn
        have := o tp htp n hn
        cases n <;> first | trivial | (obtain ⟨i, hi, hp⟩ := this; exact ⟨i, List.filter_sublist.subset hi, hp⟩)
      · cases h

end Platypus.FrontEnd
