import Platypus.Proofs.Refine
import Platypus.Proofs.Assoc
import Platypus.Model.Eval
/-!
Helper lemmas for the scoping part of C03 (`Platypus/Properties/C03Scope.lean`).

* the algebra of the scope stack: `scopeGet`, `scopeHas`, `scopeUpdate`, `scopeSet`;
* the two relations between scope stacks that the machine maintains — `KeysEq` (same depth, every
  scope binds the same names) and `OuterEq` (the same, except that the innermost scope is free);
* `MOuter`: every function of the statement machine (generic in the expression evaluator) relates
  the scope stack before and after a successful run by `OuterEq`, and whole blocks / `if` / `for` /
  `for-in` statements by `KeysEq`, for every class of nodes `C` that is closed under the machine's
  descent and whose expression nodes are scope-safe for the evaluator (`Closed`).
-/
namespace Platypus.ScopeProofs
open Platypus Platypus.MachineProofs

abbrev Scopes := List (List (Bytes × TV))

/-! ### lookup -/

theorem scopeGet_cons_some {sc : List (Bytes × TV)} {r : Scopes} {k : Bytes} {v : TV}
    (h : alookup k sc = some v) : scopeGet (sc :: r) k = some v := by
  simp only [scopeGet, h]

theorem scopeGet_cons_none {sc : List (Bytes × TV)} {r : Scopes} {k : Bytes}
    (h : alookup k sc = none) : scopeGet (sc :: r) k = scopeGet r k := by
  simp only [scopeGet, h]

theorem scopeHas_eq (scs : Scopes) (k : Bytes) : scopeHas scs k = (scopeGet scs k).isSome := by
  induction scs with
  | nil => rfl
  | cons sc r ih =>
    simp only [scopeHas, scopeGet, ih]
    cases alookup k sc <;> simp

theorem scopeGet_eq_none_iff (scs : Scopes) (k : Bytes) :
    scopeGet scs k = none ↔ ∀ sc ∈ scs, alookup k sc = none := by
  induction scs with
  | nil => simp [scopeGet]
  | cons sc r ih =>
    cases h : alookup k sc with
    | none => rw [scopeGet_cons_none h, ih]; simp [h]
    | some v => rw [scopeGet_cons_some h]; simp [h]

/-- lookup returns the innermost binding -/
theorem scopeGet_append (pre : Scopes) (sc : List (Bytes × TV)) (post : Scopes) (k : Bytes) (v : TV)
    (hpre : ∀ p ∈ pre, alookup k p = none) (h : alookup k sc = some v) :
    scopeGet (pre ++ sc :: post) k = some v := by
  induction pre with
  | nil => exact scopeGet_cons_some h
  | cons p r ih =>
    rw [List.cons_append, scopeGet_cons_none (hpre p (by simp))]
    exact ih (fun q hq => hpre q (by simp [hq]))

/-- a bound name is bound in some innermost scope -/
theorem scopeGet_split {scs : Scopes} {k : Bytes} {v : TV} (h : scopeGet scs k = some v) :
    ∃ pre sc post, scs = pre ++ sc :: post ∧ (∀ p ∈ pre, alookup k p = none) ∧ alookup k sc = some v := by
  induction scs with
  | nil => simp [scopeGet] at h
  | cons sc r ih =>
    cases hk : alookup k sc with
    | some w =>
      rw [scopeGet_cons_some hk] at h
      cases h
      exact ⟨[], sc, r, rfl, by simp, hk⟩
    | none =>
      rw [scopeGet_cons_none hk] at h
      obtain ⟨pre, sc', post, e, h1, h2⟩ := ih h
      refine ⟨sc :: pre, sc', post, by rw [e]; rfl, ?_, h2⟩
      intro p hp
      rcases List.mem_cons.1 hp with e | hp
      · subst e; exact hk
      · exact h1 p hp

/-! ### `aset` on a bound / an unbound key -/

theorem aset_unbound {β} {k : Bytes} (v : β) {m : List (Bytes × β)} (h : alookup k m = none) :
    aset k v m = m ++ [(k, v)] := by
  induction m with
  | nil => rfl
  | cons p r ih =>
    obtain ⟨a, b⟩ := p
    rw [alookup_cons] at h
    by_cases e : a = k
    · simp [e] at h
    · simp only [e, if_false] at h
      simp only [aset_cons, if_neg e, ih h, List.cons_append]

theorem akeys_aset_bound {β} {k : Bytes} (v : β) {m : List (Bytes × β)} (h : (alookup k m).isSome) :
    akeys (aset k v m) = akeys m := by
  have := (alookup_isSome_iff k m).1 h
  unfold akeys
  rw [keys_aset, if_pos this]

/-! ### update -/

theorem scopeUpdate_length (scs : Scopes) (k : Bytes) (v : TV) :
    (scopeUpdate scs k v).length = scs.length := by
  induction scs with
  | nil => rfl
  | cons sc r ih =>
    simp only [scopeUpdate]
    split <;> simp [ih]

theorem scopeUpdate_keys (scs : Scopes) (k : Bytes) (v : TV) :
    (scopeUpdate scs k v).map akeys = scs.map akeys := by
  induction scs with
  | nil => rfl
  | cons sc r ih =>
    simp only [scopeUpdate]
    split
    · rename_i h
      simp only [List.map_cons, akeys_aset_bound v h]
    · simp only [List.map_cons, ih]

theorem scopeUpdate_split (pre : Scopes) (sc : List (Bytes × TV)) (post : Scopes) (k : Bytes) (v : TV)
    (hpre : ∀ p ∈ pre, alookup k p = none) (h : (alookup k sc).isSome) :
    scopeUpdate (pre ++ sc :: post) k v = pre ++ aset k v sc :: post := by
  induction pre with
  | nil => simp only [List.nil_append, scopeUpdate, h, if_true]
  | cons p r ih =>
    have hp : alookup k p = none := hpre p (by simp)
    simp only [List.cons_append, scopeUpdate, hp, Option.isSome_none, Bool.false_eq_true, if_false]
    rw [ih (fun q hq => hpre q (by simp [hq]))]

theorem scopeGet_scopeUpdate_same {scs : Scopes} {k : Bytes} (v : TV) (h : scopeHas scs k = true) :
    scopeGet (scopeUpdate scs k v) k = some v := by
  induction scs with
  | nil => simp [scopeHas] at h
  | cons sc r ih =>
    simp only [scopeUpdate]
    cases hk : alookup k sc with
    | some w =>
      simp only [Option.isSome_some, if_true]
      exact scopeGet_cons_some (alookup_aset_same k v sc)
    | none =>
      simp only [Option.isSome_none, Bool.false_eq_true, if_false]
      rw [scopeGet_cons_none hk]
      simp only [scopeHas, hk, Option.isSome_none, Bool.false_or] at h
      exact ih h

theorem scopeGet_scopeUpdate_other {k k' : Bytes} (hne : k ≠ k') (scs : Scopes) (v : TV) :
    scopeGet (scopeUpdate scs k v) k' = scopeGet scs k' := by
  induction scs with
  | nil => rfl
  | cons sc r ih =>
    simp only [scopeUpdate]
    split
    · simp only [scopeGet, alookup_aset_other hne]
    · simp only [scopeGet, ih]

/-! ### `scopeSet` -/

theorem scopeSet_of_has {scs : Scopes} {k : Bytes} (v : TV) (h : scopeHas scs k = true) :
    scopeSet scs k v = scopeUpdate scs k v := by
  simp only [scopeSet, h, if_true]

theorem scopeSet_of_not_has {sc : List (Bytes × TV)} {r : Scopes} {k : Bytes} (v : TV)
    (h : scopeHas (sc :: r) k = false) : scopeSet (sc :: r) k v = aset k v sc :: r := by
  simp only [scopeSet, h, Bool.false_eq_true, if_false]

theorem scopeSet_nil (k : Bytes) (v : TV) : scopeSet [] k v = [] := rfl

theorem scopeSet_length (scs : Scopes) (k : Bytes) (v : TV) : (scopeSet scs k v).length = scs.length := by
  cases h : scopeHas scs k with
  | true => rw [scopeSet_of_has v h, scopeUpdate_length]
  | false =>
    cases scs with
    | nil => rfl
    | cons sc r => rw [scopeSet_of_not_has v h]; rfl

theorem scopeSet_tail_keys (scs : Scopes) (k : Bytes) (v : TV) :
    ((scopeSet scs k v).map akeys).tail = (scs.map akeys).tail := by
  cases h : scopeHas scs k with
  | true => rw [scopeSet_of_has v h, scopeUpdate_keys]
  | false =>
    cases scs with
    | nil => rfl
    | cons sc r => rw [scopeSet_of_not_has v h]; rfl

theorem scopeGet_scopeSet_same {scs : Scopes} (hne : scs ≠ []) (k : Bytes) (v : TV) :
    scopeGet (scopeSet scs k v) k = some v := by
  cases h : scopeHas scs k with
  | true => rw [scopeSet_of_has v h]; exact scopeGet_scopeUpdate_same v h
  | false =>
    cases scs with
    | nil => exact absurd rfl hne
    | cons sc r =>
      rw [scopeSet_of_not_has v h]
      exact scopeGet_cons_some (alookup_aset_same k v sc)

theorem scopeGet_scopeSet_other {k k' : Bytes} (hne : k ≠ k') (scs : Scopes) (v : TV) :
    scopeGet (scopeSet scs k v) k' = scopeGet scs k' := by
  cases h : scopeHas scs k with
  | true => rw [scopeSet_of_has v h]; exact scopeGet_scopeUpdate_other hne scs v
  | false =>
    cases scs with
    | nil => rfl
    | cons sc r =>
      rw [scopeSet_of_not_has v h]
      simp only [scopeGet, alookup_aset_other hne]

/-! ### the relations `KeysEq` and `OuterEq` -/

/-- the names bound in each scope, innermost first -/
def scopeKeys (scs : Scopes) : List (List Bytes) := scs.map akeys

/-- same depth, and every scope binds the same names (in the same order) -/
def KeysEq (A B : Scopes) : Prop := scopeKeys A = scopeKeys B

/-- same depth, and every scope *but the innermost* binds the same names -/
def OuterEq (A B : Scopes) : Prop := A.length = B.length ∧ (scopeKeys A).tail = (scopeKeys B).tail

theorem KeysEq.refl (A : Scopes) : KeysEq A A := rfl
theorem KeysEq.trans {A B C : Scopes} (h1 : KeysEq A B) (h2 : KeysEq B C) : KeysEq A C := Eq.trans h1 h2
theorem KeysEq.symm {A B : Scopes} (h : KeysEq A B) : KeysEq B A := Eq.symm h
theorem OuterEq.refl (A : Scopes) : OuterEq A A := ⟨rfl, rfl⟩
theorem OuterEq.trans {A B C : Scopes} (h1 : OuterEq A B) (h2 : OuterEq B C) : OuterEq A C :=
  ⟨h1.1.trans h2.1, h1.2.trans h2.2⟩

theorem KeysEq.length {A B : Scopes} (h : KeysEq A B) : A.length = B.length := by
  have := congrArg List.length h
  simpa [scopeKeys] using this

theorem KeysEq.outer {A B : Scopes} (h : KeysEq A B) : OuterEq A B :=
  ⟨h.length, congrArg List.tail h⟩

/-- leaving a block: if the stack with the block's scope on top was kept up to the innermost scope,
    the stack without it was kept entirely -/
theorem OuterEq.pop {A B : Scopes} {sc : List (Bytes × TV)} (h : OuterEq (sc :: A) B) : KeysEq A B.tail := by
  obtain ⟨h1, h2⟩ := h
  cases B with
  | nil => simp at h1
  | cons b B' => simpa [scopeKeys, KeysEq] using h2

theorem KeysEq.push {A B : Scopes} (h : KeysEq A B) (sc sc' : List (Bytes × TV)) : OuterEq (sc :: A) (sc' :: B) :=
  ⟨by simp [h.length], by simpa [scopeKeys, KeysEq] using h⟩

theorem OuterEq.scopeSet (A : Scopes) (k : Bytes) (v : TV) : OuterEq A (scopeSet A k v) :=
  ⟨(scopeSet_length A k v).symm, (scopeSet_tail_keys A k v).symm⟩

theorem OuterEq.clear (A : Scopes) : OuterEq A (match A with | [] => [] | _ :: r => [] :: r) := by
  cases A with
  | nil => exact OuterEq.refl _
  | cons a r => exact ⟨rfl, rfl⟩

theorem scopeGet_eq_none_iff_keys (A : Scopes) (k : Bytes) :
    scopeGet A k = none ↔ ∀ ks ∈ scopeKeys A, k ∉ ks := by
  rw [scopeGet_eq_none_iff]
  simp only [scopeKeys, List.mem_map, forall_exists_index, and_imp, forall_apply_eq_imp_iff₂]
  constructor
  · intro h sc hsc; exact (alookup_eq_none_iff k sc).1 (h sc hsc)
  · intro h sc hsc; exact (alookup_eq_none_iff k sc).2 (h sc hsc)

/-- stacks with the same names bind the same names -/
theorem KeysEq.scopeGet_none_iff {A B : Scopes} (h : KeysEq A B) (k : Bytes) :
    scopeGet A k = none ↔ scopeGet B k = none := by
  rw [scopeGet_eq_none_iff_keys, scopeGet_eq_none_iff_keys, h]

/-! ### results and computations -/

/-- a successful result relates the scope stacks by `R` -/
def OkRel (R : Scopes → Scopes → Prop) {α} (s : St) : Res α → Prop
  | .ok _ s' => R s.task.scopes s'.task.scopes
  | _ => True

/-- a result with a state (success or error) relates the scope stacks by `R` -/
def AllRel (R : Scopes → Scopes → Prop) {α} (s : St) : Res α → Prop
  | .ok _ s' => R s.task.scopes s'.task.scopes
  | .err _ s' => R s.task.scopes s'.task.scopes
  | _ => True

/-- every successful run of `m` keeps the scope stack up to the innermost scope -/
def OuterM {α} (m : EM α) : Prop := ∀ s, OkRel OuterEq s (m s)
/-- every successful run of `m` keeps the names of every scope -/
def KeysM {α} (m : EM α) : Prop := ∀ s, OkRel KeysEq s (m s)

theorem AllRel.ok {R : Scopes → Scopes → Prop} {α} {s : St} {r : Res α} (h : AllRel R s r) : OkRel R s r := by
  cases r <;> first | exact h | trivial

theorem OkRel.trans {α} {s0 s : St} {r : Res α} (h0 : OuterEq s0.task.scopes s.task.scopes)
    (h : OkRel OuterEq s r) : OkRel OuterEq s0 r := by
  cases r <;> first | exact OuterEq.trans h0 h | trivial

theorem KeysM.outer {α} {m : EM α} (h : KeysM m) : OuterM m := by
  intro s
  have := h s
  cases hr : m s <;> rw [hr] at this <;> first | exact KeysEq.outer this | trivial

theorem OuterM.pure {α} (a : α) : OuterM (Pure.pure a : EM α) := fun _ => OuterEq.refl _
theorem OuterM.getS : OuterM Platypus.getS := fun _ => OuterEq.refl _
theorem OuterM.modTask (g : Task → Task) (h : ∀ t, OuterEq t.scopes (g t).scopes) :
    OuterM (Platypus.modTask g) := fun s => h s.task
theorem OuterM.modWorld (g : World → World) : OuterM (Platypus.modWorld g) := fun _ => OuterEq.refl _
theorem OuterM.runErr {α} (p : Pos) (m : String) : OuterM (Platypus.runErr p m : EM α) := fun _ => trivial
theorem OuterM.panicE {α} (m : String) : OuterM (Platypus.panicE m : EM α) := fun _ => trivial
theorem OuterM.needE {α} (q : Bytes) : OuterM (Platypus.needE q : EM α) := fun _ => trivial
theorem OuterM.outOfFuel {α} : OuterM (Platypus.outOfFuel : EM α) := fun _ => trivial
theorem OuterM.clearScope : OuterM Platypus.clearScope := fun _ => OuterEq.clear _
theorem OuterM.setVarb (k : Bytes) (v : TV) : OuterM (Platypus.setVarb k v) := fun _ => OuterEq.scopeSet _ _ _
theorem OuterM.procExit (env : Env) : OuterM (Platypus.procExit env) := by
  intro s; rw [procExit_apply]
  show OuterEq _ _
  rw [pollSt_scopes]; exact OuterEq.refl _
theorem OuterM.stmtReturn (env : Env) : OuterM (Platypus.stmtReturn env) := by
  intro s; rw [stmtReturn_apply]
  show OuterEq _ _
  rw [pollSt_scopes]; exact OuterEq.refl _

theorem OuterM.bind {α β} {m : EM α} {k : α → EM β} (hm : OuterM m) (hk : ∀ a, OuterM (k a)) :
    OuterM (m >>= k) := by
  intro s
  rw [bind_apply]
  have h1 := hm s
  cases h : m s with
  | ok a s' => rw [h] at h1; exact OkRel.trans h1 (hk a s')
  | err e s' => trivial
  | panic m => trivial
  | fuel => trivial
  | need q => trivial

/-- a block: push a scope, run, pop it — every scope that was there before keeps its names -/
theorem KeysM.block {m : EM Unit} (hm : OuterM m) :
    KeysM (Platypus.pushScope >>= fun _ => m >>= fun _ => Platypus.popScope) := by
  intro s
  simp only [bind_apply, pushScope, popScope, modTask_apply, rbind_ok]
  have h1 := hm { s with task := { s.task with scopes := [] :: s.task.scopes } }
  generalize m { s with task := { s.task with scopes := [] :: s.task.scopes } } = r at h1 ⊢
  cases r with
  | ok a s' => exact OuterEq.pop h1
  | err e s' => trivial
  | panic m => trivial
  | fuel => trivial
  | need q => trivial

theorem OuterM.blockK {β} {m : EM Unit} {K : EM β} (hm : OuterM m) (hK : OuterM K) :
    OuterM (Platypus.pushScope >>= fun _ => m >>= fun _ => Platypus.popScope >>= fun _ => K) := by
  have h := (KeysM.block hm).outer
  have : (Platypus.pushScope >>= fun _ => m >>= fun _ => Platypus.popScope >>= fun _ => K)
      = ((Platypus.pushScope >>= fun _ => m >>= fun _ => Platypus.popScope) >>= fun _ => K) := by
    simp only [em_bind_assoc]
  rw [this]
  exact OuterM.bind h fun _ => hK

/-- `(push; m).finally pop` -/
theorem KeysM.pushFinally {α} {m : EM α} (hm : OuterM m) :
    KeysM ((Platypus.pushScope >>= fun _ => m).finally popSt) := by
  intro s
  simp only [finally_apply, bind_apply, pushScope, modTask_apply, rbind_ok]
  have h1 := hm { s with task := { s.task with scopes := [] :: s.task.scopes } }
  generalize m { s with task := { s.task with scopes := [] :: s.task.scopes } } = r at h1 ⊢
  cases r with
  | ok a s' => exact OuterEq.pop h1
  | err e s' => trivial
  | panic m => trivial
  | fuel => trivial
  | need q => trivial

/-! ### classes of nodes closed under the machine's descent -/

/-- statement nodes (handled by the machine); every other node is the evaluator's -/
def isStmt : Node → Bool
  | .ifelse _ _ _ | .forS _ _ _ _ _ | .forIn _ _ _ _ _ | .brk _ | .cont _ => true
  | _ => false

section
variable (C : Node → Prop)
def CL (l : List Node) : Prop := ∀ n ∈ l, C n
def CBlk (b : Option (List Node)) : Prop := ∀ blk, b = some blk → CL C blk
def COpt (o : Option Node) : Prop := ∀ n, o = some n → C n
def CIfs (ifs : List (Node × Option (List Node) × Pos)) : Prop := ∀ x ∈ ifs, C x.1 ∧ CBlk C x.2.1
end

theorem CBlk.some {C : Node → Prop} {b : List Node} (h : CBlk C (some b)) : CL C b := h b rfl
theorem COpt.some {C : Node → Prop} {n : Node} (h : COpt C (some n)) : C n := h n rfl
theorem CL.head {C : Node → Prop} {n : Node} {r : List Node} (h : CL C (n :: r)) : C n := h n (by simp)
theorem CL.tail {C : Node → Prop} {n : Node} {r : List Node} (h : CL C (n :: r)) : CL C r :=
  fun m hm => h m (by simp [hm])
theorem CIfs.head {C : Node → Prop} {c blk p} {r : List (Node × Option (List Node) × Pos)}
    (h : CIfs C ((c, blk, p) :: r)) : C c ∧ CBlk C blk := h (c, blk, p) (by simp)
theorem CIfs.tail {C : Node → Prop} {x} {r : List (Node × Option (List Node) × Pos)}
    (h : CIfs C (x :: r)) : CIfs C r := fun y hy => h y (by simp [hy])

/-- the evaluator `ev`, run on the expression `e`, keeps the scope stack up to the innermost scope
    (which an assignment may extend): same depth, same names in every outer scope -/
def ScopeStepAt (ev : Node → EM TV) (e : Node) : Prop := OuterM (ev e)

/-- `C` is a class of nodes closed under the descent of the statement machine, all of whose
    expression nodes are scope-safe for `ev` -/
structure Closed (ev : Node → EM TV) (C : Node → Prop) : Prop where
  expr : ∀ e, C e → isStmt e = false → ScopeStepAt ev e
  ifelse : ∀ ifs els p, C (.ifelse ifs els p) → CIfs C ifs ∧ CBlk C els
  forS : ∀ ini c l body p, C (.forS ini c l body p) → COpt C ini ∧ COpt C c ∧ COpt C l ∧ CBlk C body
  forIn : ∀ var iter body p1 p2, C (.forIn var iter body p1 p2) → C iter ∧ CBlk C body

/-- every node, for an evaluator that is scope-safe on every expression -/
theorem Closed.all {ev : Node → EM TV} (h : ∀ e, ScopeStepAt ev e) : Closed ev (fun _ => True) :=
  ⟨fun e _ _ => h e, fun _ _ _ _ => ⟨fun _ _ => ⟨trivial, fun _ _ _ _ => trivial⟩, fun _ _ _ _ => trivial⟩,
   fun _ _ _ _ _ _ => ⟨fun _ _ => trivial, fun _ _ => trivial, fun _ _ => trivial, fun _ _ _ _ => trivial⟩,
   fun _ _ _ _ _ _ => ⟨trivial, fun _ _ _ _ => trivial⟩⟩

/-! ### the machine -/

/-- the machine functions keep the scope stack up to the innermost scope, at fuel `g` -/
structure MOuter (env : Env) (ev : Node → EM TV) (C : Node → Prop) (g : Nat) : Prop where
  stmt : ∀ n, C n → OuterM (runStmt env ev g n)
  stmts : ∀ l, CL C l → OuterM (runStmts env ev g l)
  ifs : ∀ ifs els, CIfs C ifs → CBlk C els → OuterM (runIfs env ev g ifs els)
  loop : ∀ c l body, COpt C c → COpt C l → CBlk C body → OuterM (forLoop env ev g c l body)
  forIn : ∀ var it pos body, CBlk C body → OuterM (Platypus.forIn env ev g var it pos body)
  forStr : ∀ var rs body, CBlk C body → OuterM (forInStr env ev g var rs body)
  forItems : ∀ var pos items live body, CBlk C body → OuterM (forInItems env ev g var pos items live body)

theorem mouter_zero (env : Env) (ev : Node → EM TV) (C : Node → Prop) : MOuter env ev C 0 := by
  refine ⟨?_, ?_, ?_, ?_, ?_, ?_, ?_⟩ <;> intros
  · rw [runStmt]; exact OuterM.outOfFuel
  · rw [runStmts]; exact OuterM.outOfFuel
  · rw [runIfs]; exact OuterM.outOfFuel
  · rw [forLoop]; exact OuterM.outOfFuel
  · rw [Platypus.forIn]; exact OuterM.outOfFuel
  · rw [forInStr]; exact OuterM.outOfFuel
  · rw [forInItems]; exact OuterM.outOfFuel

set_option hygiene false in
/-- one step of the syntax-directed proof that a `do` block keeps the outer scopes; induction
    hypotheses are looked up under the reserved names `ih1` … `ih7` -/
macro "scope_outer_step" : tactic => `(tactic| first
  | with_reducible exact OuterM.pure _
  | with_reducible exact OuterM.getS
  | with_reducible exact OuterM.runErr _ _
  | with_reducible exact OuterM.panicE _
  | with_reducible exact OuterM.needE _
  | with_reducible exact OuterM.outOfFuel
  | with_reducible exact OuterM.clearScope
  | with_reducible exact OuterM.setVarb _ _
  | with_reducible exact OuterM.modWorld _
  | with_reducible exact OuterM.procExit _
  | with_reducible exact OuterM.stmtReturn _
  | with_reducible assumption
  | (with_reducible refine OuterM.modTask _ (fun t => ?_); exact OuterEq.refl _)
  | (with_reducible apply ih1; first | assumption | exact COpt.some (by assumption) | exact CL.head (by assumption))
  | (with_reducible apply ih2; first | assumption | exact CBlk.some (by assumption) | exact CL.tail (by assumption))
  | (with_reducible apply ih3 <;> assumption)
  | (with_reducible apply ih4 <;> assumption)
  | (with_reducible apply ih5; assumption)
  | (with_reducible apply ih6; assumption)
  | (with_reducible apply ih7; assumption)
  | with_reducible refine OuterM.blockK ?_ ?_
  | with_reducible refine (KeysM.block ?_).outer
  | with_reducible refine (KeysM.pushFinally ?_).outer
  | with_reducible refine OuterM.bind ?_ (fun _ => ?_)
  | split)

macro "scope_outer" : tactic => `(tactic| repeat' scope_outer_step)

section
variable {env : Env} {ev : Node → EM TV} {C : Node → Prop} {g : Nat}

theorem runStmts_outer_step (ih : MOuter env ev C g) (l : List Node) (hl : CL C l) :
    OuterM (runStmts env ev (g+1) l) := by
  cases l with
  | nil => simp only [runStmts]; exact OuterM.pure _
  | cons n rest =>
    intro s
    simp only [runStmts, stmtReturn_apply]
    cases (pollB env s || (s.task.brk || s.task.cont)) with
    | true =>
      show OuterEq _ _
      rw [pollSt_scopes]; exact OuterEq.refl _
    | false =>
      dsimp only
      have h0 : OuterEq s.task.scopes (pollSt env s).task.scopes := by
        rw [pollSt_scopes]; exact OuterEq.refl _
      have h2 := ih.stmt n hl.head (pollSt env s)
      cases hr : runStmt env ev g n (pollSt env s) with
      | ok v s2 =>
        rw [hr] at h2
        exact OkRel.trans h0 (OkRel.trans h2 (ih.stmts rest hl.tail s2))
      | err e s2 => trivial
      | panic m => trivial
      | fuel => trivial
      | need q => trivial

/-- an `if` statement keeps the names of every scope -/
theorem ifelse_keys (hcl : Closed ev C) (ih : MOuter env ev C g) (ifs els p)
    (hC : C (.ifelse ifs els p)) : KeysM (runStmt env ev (g+1) (.ifelse ifs els p)) := by
  obtain ⟨h1, h2⟩ := hcl.ifelse ifs els p hC
  simp only [runStmt]
  exact KeysM.pushFinally (ih.ifs ifs els h1 h2)

/-- a `for` statement keeps the names of every scope -/
theorem forS_keys (hcl : Closed ev C) (ih : MOuter env ev C g) (ini c l body p)
    (hC : C (.forS ini c l body p)) : KeysM (runStmt env ev (g+1) (.forS ini c l body p)) := by
  obtain ⟨h1, h2, h3, h4⟩ := hcl.forS ini c l body p hC
  have ih1 := ih.stmt; have ih4 := ih.loop
  simp only [runStmt]
  refine KeysM.pushFinally ?_
  scope_outer

/-- a `for … in` statement keeps the names of every scope -/
theorem forIn_keys (hcl : Closed ev C) (ih : MOuter env ev C g) (var iter body p1 p2)
    (hC : C (.forIn var iter body p1 p2)) : KeysM (runStmt env ev (g+1) (.forIn var iter body p1 p2)) := by
  obtain ⟨h1, h2⟩ := hcl.forIn var iter body p1 p2 hC
  have ih1 := ih.stmt; have ih5 := ih.forIn
  simp only [runStmt]
  refine KeysM.pushFinally ?_
  scope_outer

theorem runStmt_outer_step (hcl : Closed ev C) (ih : MOuter env ev C g) (n : Node) (hC : C n) :
    OuterM (runStmt env ev (g+1) n) := by
  cases n
  case ifelse ifs els p => exact (ifelse_keys hcl ih ifs els p hC).outer
  case forS ini c l body p => exact (forS_keys hcl ih ini c l body p hC).outer
  case forIn var iter body p1 p2 => exact (forIn_keys hcl ih var iter body p1 p2 hC).outer
  case brk p => simp only [runStmt]; scope_outer
  case cont p => simp only [runStmt]; scope_outer
  all_goals (simp only [runStmt]; exact hcl.expr _ hC rfl)

theorem runIfs_outer_step (ih : MOuter env ev C g) (ifs : List (Node × Option (List Node) × Pos))
    (els : Option (List Node)) (hifs : CIfs C ifs) (hels : CBlk C els) :
    OuterM (runIfs env ev (g+1) ifs els) := by
  have ih1 := ih.stmt; have ih2 := ih.stmts; have ih3 := ih.ifs
  cases ifs with
  | nil => rw [runIfs.eq_def]; simp only []; scope_outer
  | cons x rest =>
    obtain ⟨c, blk, p⟩ := x
    have hc := hifs.head.1
    have hblk := hifs.head.2
    have hrest := hifs.tail
    rw [runIfs.eq_def]; simp only []; scope_outer

theorem forLoop_outer_step (ih : MOuter env ev C g) (c l : Option Node) (body : Option (List Node))
    (hc : COpt C c) (hl : COpt C l) (hb : CBlk C body) : OuterM (forLoop env ev (g+1) c l body) := by
  have ih1 := ih.stmt; have ih2 := ih.stmts; have ih4 := ih.loop
  rw [forLoop.eq_def]; simp only []
  scope_outer

theorem mouter_succ (hcl : Closed ev C) (ih : MOuter env ev C g) : MOuter env ev C (g+1) := by
  have ih1 := ih.stmt; have ih2 := ih.stmts; have ih3 := ih.ifs; have ih4 := ih.loop
  have ih5 := ih.forIn; have ih6 := ih.forStr; have ih7 := ih.forItems
  refine ⟨runStmt_outer_step hcl ih, runStmts_outer_step ih, runIfs_outer_step ih, forLoop_outer_step ih, ?_, ?_, ?_⟩
  · intro var it pos body hb
    rw [Platypus.forIn.eq_def]; simp only []; scope_outer
  · intro var rs body hb
    cases rs with
    | nil => simp only [forInStr]; scope_outer
    | cons r rest => rw [forInStr.eq_def]; simp only []; scope_outer
  · intro var pos items live body hb
    rw [forInItems.eq_def]; simp only []; scope_outer

theorem mouter_all (hcl : Closed ev C) : ∀ g, MOuter env ev C g
  | 0 => mouter_zero env ev C
  | g+1 => mouter_succ hcl (mouter_all hcl g)

end

end Platypus.ScopeProofs
