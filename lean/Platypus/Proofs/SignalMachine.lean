import Platypus.Proofs.SignalRel
/-!
C14, effects-prefix theorem, part 5: lockstep of the statement machine under the two signals, for
any pair of expression evaluators that agree on signal-free expressions, are related on
`use(…)` statements and (the later one) only add to the trace.
-/
namespace Platypus.SignalProofs
open Platypus Platypus.MachineProofs Platypus.Sem

section
variable {env : Env} {k : Nat} {later : Option Nat}

/-! ### after the observation the K-run's machine is quiet -/

theorem Quiet.runStmts (ev : Node → EM TV) (g : Nat) (b : List Node) :
    Quiet k (runStmts (withSig env (some k)) ev g b) := by
  intro s hs
  cases g with
  | zero => left; simp only [Platypus.runStmts]; rfl
  | succ g =>
    cases b with
    | nil => right; exact ⟨(), s, rfl, hs, rfl⟩
    | cons n rest =>
      right
      refine ⟨(), pollSt (withSig env (some k)) s, ?_, Nat.le_trans hs (pollSt_polls_le _ _), pollSt_trace _ _⟩
      simp only [Platypus.runStmts, stmtReturn_apply, pollB_fired s hs, Bool.true_or]

theorem Quiet.tail (K : EM TV) : Quiet k (loopTail (withSig env (some k)) K) := by
  intro s hs
  right
  by_cases hb : s.task.brk = true
  · rw [loopTail_brk _ K hb]
    exact ⟨voidTV, clrBrk s, rfl, hs, rfl⟩
  · have hb' : s.task.brk = false := by simpa using hb
    by_cases hc : s.task.cont = true
    · rw [loopTail_cont _ K hb' hc]
      have : pollB (withSig env (some k)) (clearBC s) = true := pollB_fired (clearBC s) hs
      rw [if_pos this]
      exact ⟨voidTV, _, rfl, Nat.le_trans hs (pollSt_polls_le _ (clearBC s)), pollSt_trace _ _⟩
    · have hc' : s.task.cont = false := by simpa using hc
      rw [loopTail_clr _ K ⟨hb', hc'⟩, if_pos (pollB_fired s hs)]
      exact ⟨voidTV, _, rfl, Nat.le_trans hs (pollSt_polls_le _ s), pollSt_trace _ _⟩

theorem MonoM.tail (env : Env) {K : EM TV} (ih1 : MonoM K) : MonoM (loopTail env K) := by
  unfold loopTail
  mono

variable (hl : ∀ k', later = some k' → k ≤ k')
include hl

theorem Rel2.tail {KK KL : EM TV} (hK : Rel2 k KK KL) (hm : MonoM KL) :
    Rel2 k (loopTail (withSig env (some k)) KK) (loopTail (withSig env later) KL) := by
  unfold loopTail
  refine Rel2.bind_same fun s => ?_
  simp only []
  refine Rel2.ite _ (Rel2.refl _) (Rel2.ite _ (Rel2.bind_same fun _ => ?_) ?_)
  · exact Rel2.stmtRet hl voidTV hK hm
  · exact Rel2.stmtRet hl voidTV hK hm


/-! ### lockstep -/
variable {evK evL : Node → EM TV}

/-- the hypotheses on the two evaluators -/
structure EvRel (k : Nat) (evK evL : Node → EM TV) : Prop where
  sf : ∀ n, SF n → evK n = evL n
  use : ∀ args np lp rp site, Rel2 k (evK (.call (B "use") args np lp rp site)) (evL (.call (B "use") args np lp rp site))
  mono : ∀ n, MonoM (evL n)

def OptSF (o : Option Node) : Prop := ∀ x, o = some x → SF x

/-- lockstep of the machine functions at fuel `g` -/
structure MRel (env : Env) (k : Nat) (later : Option Nat) (evK evL : Node → EM TV) (g : Nat) : Prop where
  stmt : ∀ n, StmtOk n → Rel2 k (runStmt (withSig env (some k)) evK g n) (runStmt (withSig env later) evL g n)
  stmts : ∀ l, StmtsOk l → Rel2 k (runStmts (withSig env (some k)) evK g l) (runStmts (withSig env later) evL g l)
  ifs : ∀ ifs els, (∀ x ∈ ifs, SF x.1) → (∀ x ∈ ifs, BlockOk x.2.1) → BlockOk els →
    Rel2 k (runIfs (withSig env (some k)) evK g ifs els) (runIfs (withSig env later) evL g ifs els)
  loop : ∀ c l body, OptSF c → OptSF l → BlockOk body →
    Rel2 k (forLoop (withSig env (some k)) evK g c l body) (forLoop (withSig env later) evL g c l body)
  forIn : ∀ var it pos body, BlockOk body →
    Rel2 k (Platypus.forIn (withSig env (some k)) evK g var it pos body)
      (Platypus.forIn (withSig env later) evL g var it pos body)
  forStr : ∀ var rs body, BlockOk body →
    Rel2 k (forInStr (withSig env (some k)) evK g var rs body) (forInStr (withSig env later) evL g var rs body)
  forItems : ∀ var pos items live body, BlockOk body →
    Rel2 k (forInItems (withSig env (some k)) evK g var pos items live body)
      (forInItems (withSig env later) evL g var pos items live body)

omit hl in
theorem mrel_zero : MRel env k later evK evL 0 := by
  refine ⟨?_, ?_, ?_, ?_, ?_, ?_, ?_⟩ <;> intros <;> intro s
  · rw [runStmt, runStmt]; exact .inl rfl
  · rw [runStmts, runStmts]; exact .inl rfl
  · rw [runIfs, runIfs]; exact .inl rfl
  · rw [forLoop, forLoop]; exact .inl rfl
  · rw [Platypus.forIn, Platypus.forIn]; exact .inl rfl
  · rw [forInStr, forInStr]; exact .inl rfl
  · rw [forInItems, forInItems]; exact .inl rfl

omit hl in
/-- a signal-free node in statement position runs the same under both signals -/
theorem runStmt_sf (hev : EvRel k evK evL) (g : Nat) (n : Node) (h : SF n) :
    runStmt (withSig env (some k)) evK g n = runStmt (withSig env later) evL g n := by
  cases g with
  | zero => simp only [runStmt]
  | succ g => cases h <;> simp only [runStmt] <;> exact hev.sf _ (by constructor <;> assumption)

theorem runStmts_rel_step (hev : EvRel k evK evL) {g : Nat} (ih : MRel env k later evK evL g)
    (l : List Node) (hl' : StmtsOk l) :
    Rel2 k (runStmts (withSig env (some k)) evK (g+1) l) (runStmts (withSig env later) evL (g+1) l) := by
  cases l with
  | nil => simp only [runStmts]; exact Rel2.refl _
  | cons n rest =>
    have hmL := mmono_all (env := withSig env later) hev.mono
    intro s
    have hwhole := (hmL (g+1)).stmts (n :: rest) s
    simp only [runStmts, stmtReturn_apply] at hwhole ⊢
    rcases poll_cases (env := env) hl s with ⟨h1, h2⟩ | ⟨h1, h2, h3⟩
    · rw [h1, h2]
      cases (pollB (withSig env later) s || (s.task.brk || s.task.cont)) with
      | true => exact .inl rfl
      | false =>
        simp only []
        rcases ih.stmt n (hl' n (by simp)) (pollSt (withSig env later) s) with h | h
        · rw [h]
          cases runStmt (withSig env later) evL g n (pollSt (withSig env later) s) with
          | ok a s' => exact ih.stmts rest (fun x hx => hl' x (by simp [hx])) s'
          | err e s' => exact .inl rfl
          | panic m => exact .inl rfl
          | fuel => exact .inl rfl
          | need q => exact .inl rfl
        · refine .inr (h.step ?_ ?_ ?_)
          · intro e; rw [e]
          · intro a sK e hk; rw [e]; exact Quiet.runStmts evK g rest sK hk
          · intro sL' he
            cases hL : runStmt (withSig env later) evL g n (pollSt (withSig env later) s) with
            | ok a sL =>
              rw [hL] at he
              exact ⟨sL, .inl ⟨a, rfl⟩, ((hmL g).stmts rest sL).ends he⟩
            | err e sL =>
              rw [hL] at he
              exact ⟨sL, .inr ⟨e, rfl⟩, by rw [← he.err]; exact List.suffix_refl _⟩
            | panic m => rw [hL] at he; exact absurd he not_ends_panic
            | fuel => rw [hL] at he; exact absurd he not_ends_fuel
            | need q => rw [hL] at he; exact absurd he not_ends_need
    · rw [h1]
      simp only [Bool.true_or]
      refine .inr (.inr ⟨(), _, rfl, h3, fun sL he => ?_⟩)
      rw [pollSt_trace]
      exact hwhole.ends he


omit hl in
/-- `{ … }`: push, statements, pop, then a continuation that is quiet after the observation -/
theorem block_rel {g : Nat} (ih : MRel env k later evK evL g) (b : List Node) (hb : StmtsOk b)
    {KK KL : EM TV} (hK : Rel2 k KK KL) (hq : Quiet k KK) (hm : MonoM KL) :
    Rel2 k (do pushScope; runStmts (withSig env (some k)) evK g b; popScope; KK)
      (do pushScope; runStmts (withSig env later) evL g b; popScope; KL) :=
  Rel2.bind_same fun _ => Rel2.bind (ih.stmts b hb) (fun _ => Rel2.bind_same fun _ => hK)
    (fun _ => Quiet.bind Quiet.popScope fun _ => hq) (fun _ => MonoM.bind MonoM.popScope fun _ => hm)

omit hl in
theorem runIfs_rel_step (hev : EvRel k evK evL) {g : Nat} (ih : MRel env k later evK evL g)
    (ifs : List (Node × Option (List Node) × Pos)) (els : Option (List Node))
    (h1 : ∀ x ∈ ifs, SF x.1) (h2 : ∀ x ∈ ifs, BlockOk x.2.1) (h3 : BlockOk els) :
    Rel2 k (runIfs (withSig env (some k)) evK (g+1) ifs els) (runIfs (withSig env later) evL (g+1) ifs els) := by
  cases ifs with
  | nil =>
    simp only [runIfs]
    cases els with
    | none => exact Rel2.refl _
    | some b => exact block_rel ih b (h3 b rfl) (Rel2.refl _) (Quiet.pure _) (MonoM.pure _)
  | cons x rest =>
    obtain ⟨c, blk, p⟩ := x
    have hc : SF c := h1 (c, blk, p) (by simp)
    simp only [runIfs]
    rw [runStmt_sf (later := later) hev g c hc]
    refine Rel2.bind_same fun v => ?_
    refine Rel2.bind_same fun s => ?_
    refine Rel2.ite _ ?_ ?_
    · cases blk with
      | none => exact Rel2.refl _
      | some b =>
        exact block_rel ih b (h2 (c, some b, p) (by simp) b rfl) (Rel2.refl _) (Quiet.pure _) (MonoM.pure _)
    · exact ih.ifs rest els (fun x hx => h1 x (by simp [hx])) (fun x hx => h2 x (by simp [hx])) h3


theorem forLoop_rel_step (hev : EvRel k evK evL) {g : Nat} (ih : MRel env k later evK evL g)
    (c l : Option Node) (body : Option (List Node)) (hc : OptSF c) (hl2 : OptSF l) (hb : BlockOk body) :
    Rel2 k (forLoop (withSig env (some k)) evK (g+1) c l body) (forLoop (withSig env later) evL (g+1) c l body) := by
  have hmL := mmono_all (env := withSig env later) hev.mono
  have hwhole := (hmL (g+1)).loop c l body
  have hK : Rel2 k
      (match (generalizing := false) l with
        | some ln => do let _ ← runStmt (withSig env (some k)) evK g ln; forLoop (withSig env (some k)) evK g c l body
        | none => forLoop (withSig env (some k)) evK g c l body)
      (match (generalizing := false) l with
        | some ln => do let _ ← runStmt (withSig env later) evL g ln; forLoop (withSig env later) evL g c l body
        | none => forLoop (withSig env later) evL g c l body) := by
    cases l with
    | none => exact ih.loop c none body hc hl2 hb
    | some ln =>
      simp only []
      rw [runStmt_sf (later := later) hev g ln (hl2 ln rfl)]
      exact Rel2.bind_same fun _ => ih.loop c (some ln) body hc hl2 hb
  have hKm : MonoM
      (match (generalizing := false) l with
        | some ln => do let _ ← runStmt (withSig env later) evL g ln; forLoop (withSig env later) evL g c l body
        | none => forLoop (withSig env later) evL g c l body) := by
    cases l with
    | none => exact (hmL g).loop _ _ _
    | some ln => exact MonoM.bind ((hmL g).stmt _) fun _ => (hmL g).loop _ _ _
  have hT := Rel2.tail (env := env) hl hK hKm
  have hTq := Quiet.tail (env := env) (k := k)
    (match (generalizing := false) l with
        | some ln => do let _ ← runStmt (withSig env (some k)) evK g ln; forLoop (withSig env (some k)) evK g c l body
        | none => forLoop (withSig env (some k)) evK g c l body)
  have hTm := MonoM.tail (withSig env later) hKm
  simp only [forLoop] at hwhole ⊢
  refine Rel2.poll' hl voidTV ?_ hwhole
  refine Rel2.bind_congr ?_ fun go => ?_
  · cases c with
    | none => rfl
    | some cn => simp only []; rw [runStmt_sf (later := later) hev g cn (hc cn rfl)]
  refine Rel2.ite _ (Rel2.refl _) ?_
  cases body with
  | none => exact hT
  | some b =>
    exact block_rel ih b (hb b rfl) hT hTq hTm


theorem forInStr_rel_step (hev : EvRel k evK evL) {g : Nat} (ih : MRel env k later evK evL g)
    (var : Node) (rs : List Bytes) (body : Option (List Node)) (hb : BlockOk body) :
    Rel2 k (forInStr (withSig env (some k)) evK (g+1) var rs body)
      (forInStr (withSig env later) evL (g+1) var rs body) := by
  have hmL := mmono_all (env := withSig env later) hev.mono
  cases rs with
  | nil => simp only [forInStr]; exact Rel2.refl _
  | cons r rest =>
    have hT := Rel2.tail (env := env) hl (ih.forStr var rest body hb) ((hmL g).forStr var rest body)
    have hTq := Quiet.tail (env := env) (k := k) (forInStr (withSig env (some k)) evK g var rest body)
    have hTm := MonoM.tail (withSig env later) ((hmL g).forStr var rest body)
    cases var
    case ident name p =>
      simp only [forInStr]
      cases body with
      | none => exact Rel2.bind_same fun _ => Rel2.bind_same fun _ => hT
      | some b =>
        exact Rel2.bind_same fun _ => Rel2.bind (ih.stmts b (hb b rfl)) (fun _ => Rel2.bind_same fun _ => hT)
          (fun _ => Quiet.bind Quiet.clearScope fun _ => hTq) (fun _ => MonoM.bind MonoM.clearScope fun _ => hTm)
    all_goals
      simp only [forInStr]
      exact Rel2.refl _

theorem forInItems_rel_step (hev : EvRel k evK evL) {g : Nat} (ih : MRel env k later evK evL g)
    (var : Node) (pos : Pos) (items : List TV) (live : Option (Nat × Nat × Nat)) (body : Option (List Node))
    (hb : BlockOk body) :
    Rel2 k (forInItems (withSig env (some k)) evK (g+1) var pos items live body)
      (forInItems (withSig env later) evL (g+1) var pos items live body) := by
  have hmL := mmono_all (env := withSig env later) hev.mono
  cases var
  case ident name p =>
    simp only [forInItems]
    refine Rel2.bind_same fun next => ?_
    cases next with
    | none => exact Rel2.refl _
    | some t =>
      obtain ⟨x, items', live'⟩ := t
      have hT := Rel2.tail (env := env) hl (ih.forItems (.ident name p) pos items' live' body hb)
        ((hmL g).forItems (.ident name p) pos items' live' body)
      have hTq := Quiet.tail (env := env) (k := k)
        (forInItems (withSig env (some k)) evK g (.ident name p) pos items' live' body)
      have hTm := MonoM.tail (withSig env later) ((hmL g).forItems (.ident name p) pos items' live' body)
      refine Rel2.bind_same fun _ => ?_
      refine Rel2.ite _ (Rel2.refl _) ?_
      refine Rel2.bind_same fun _ => ?_
      cases body with
      | none => exact hT
      | some b => exact Rel2.bind (ih.stmts b (hb b rfl)) (fun _ => hT) (fun _ => hTq) (fun _ => hTm)
  all_goals
    simp only [forInItems]
    refine Rel2.bind_same fun next => ?_
    cases next with
    | none => exact Rel2.refl _
    | some t =>
      obtain ⟨x, items', live'⟩ := t
      refine Rel2.bind_same fun _ => ?_
      exact Rel2.ite _ (Rel2.refl _) (Rel2.panic_bind _ _ _)


omit hl in
theorem forIn_rel_step {g : Nat} (ih : MRel env k later evK evL g)
    (var : Node) (it : TV) (pos : Pos) (body : Option (List Node)) (hb : BlockOk body) :
    Rel2 k (Platypus.forIn (withSig env (some k)) evK (g+1) var it pos body)
      (Platypus.forIn (withSig env later) evL (g+1) var it pos body) := by
  obtain ⟨v, t⟩ := it
  cases t <;> simp only [Platypus.forIn, withSig_mapOrder] <;> try exact Rel2.refl _
  · -- str
    cases v <;> simp only [] <;> first | exact Rel2.refl _ | exact ih.forStr _ _ _ hb
  · -- list
    refine Rel2.bind_same fun st => ?_
    cases v <;> simp only [] <;> try exact Rel2.refl _
    rename_i a
    cases h : st.world.heap.get? a with
    | none => exact Rel2.refl _
    | some o => cases o <;> simp only [] <;> first | exact Rel2.refl _ | exact ih.forItems _ _ _ _ _ hb
  · -- map
    refine Rel2.bind_same fun st => ?_
    cases v <;> simp only [] <;> try exact Rel2.refl _
    rename_i a
    cases h : st.world.heap.get? a with
    | none => exact Rel2.refl _
    | some o =>
      cases o <;> simp only [] <;>
        first | exact Rel2.refl _ | exact Rel2.bind_same fun _ => ih.forItems _ _ _ _ _ hb

omit hl in
theorem runStmt_rel_step (hev : EvRel k evK evL) {g : Nat} (ih : MRel env k later evK evL g)
    (n : Node) (hn : StmtOk n) :
    Rel2 k (runStmt (withSig env (some k)) evK (g+1) n) (runStmt (withSig env later) evL (g+1) n) := by
  cases hn
  case ifelse ifs els p h1 h2 h3 =>
    simp only [runStmt]
    exact Rel2.finally (Rel2.bind_same fun _ => ih.ifs ifs els h1 h2 h3)
  case forS a b c body p h1 h2 h3 h4 =>
    simp only [runStmt]
    refine Rel2.finally (Rel2.bind_same fun _ => ?_)
    cases a with
    | none => exact ih.loop b c body h2 h3 h4
    | some i =>
      simp only []
      rw [runStmt_sf (later := later) hev g i (h1 i rfl)]
      exact Rel2.bind_same fun _ => ih.loop b c body h2 h3 h4
  case forIn v it body fp ip h1 h2 =>
    simp only [runStmt]
    rw [runStmt_sf (later := later) hev g it h1]
    exact Rel2.finally (Rel2.bind_same fun _ => Rel2.bind_same fun itv =>
      Rel2.finally (Rel2.bind_same fun _ => ih.forIn v itv _ body h2))
  case use args np lp rp site =>
    simp only [runStmt]
    exact hev.use args np lp rp site
  case expr h =>
    exact Rel2.of_eq (runStmt_sf hev (g+1) n h)

theorem mrel_succ (hev : EvRel k evK evL) {g : Nat} (ih : MRel env k later evK evL g) :
    MRel env k later evK evL (g+1) :=
  ⟨runStmt_rel_step hev ih, runStmts_rel_step hl hev ih, runIfs_rel_step hev ih,
    forLoop_rel_step hl hev ih, forIn_rel_step ih, forInStr_rel_step hl hev ih, forInItems_rel_step hl hev ih⟩

theorem mrel_all (hev : EvRel k evK evL) : ∀ g, MRel env k later evK evL g
  | 0 => mrel_zero
  | g+1 => mrel_succ hl hev (mrel_all hev g)

end
end Platypus.SignalProofs
