import Platypus.Proofs.ElabInv
import Platypus.Spec.PosFacts
/-!
# Front end, helper 7: the position-free elaborated tree is a function of the position-free parse tree

`unpos x`: `x` with every stored `Pos` replaced by `Pos.invalid` (call sites kept).
`ofPT pf t n`: elaboration of a position-free parser tree.  `toNode_unpos`:
`(toNode c pp n).map (unpos × id) = ofPT c.pf pp.erase n` for every tree whose index expressions have
one `[` and one `]` per index (`ShapeAll`, which `C17Tree.shapes` gives for every parser output).
-/
set_option linter.unusedVariables false
namespace Platypus.FrontEnd
open Platypus Platypus.Elab Platypus.ParsePos Platypus.Parse

mutual
/-- forget every stored position -/
def unpos : Node → Node
  | .ident nm _ => .ident nm Pos.invalid
  | .strLit v _ => .strLit v Pos.invalid
  | .intLit v _ => .intLit v Pos.invalid
  | .floatLit v _ => .floatLit v Pos.invalid
  | .boolLit v _ => .boolLit v Pos.invalid
  | .nilLit _ => .nilLit Pos.invalid
  | .list xs _ _ => .list (unposL xs) Pos.invalid Pos.invalid
  | .map kvs _ _ => .map (unposKV kvs) Pos.invalid Pos.invalid
  | .paren e _ _ => .paren (unpos e) Pos.invalid Pos.invalid
  | .attr o a _ => .attr (unposO o) (unposO a) Pos.invalid
  | .index obj idx lbs rbs =>
    .index (obj.map fun o => (o.1, Pos.invalid)) (unposL idx) (lbs.map fun _ => Pos.invalid)
      (rbs.map fun _ => Pos.invalid)
  | .unary op e _ => .unary op (unpos e) Pos.invalid
  | .arith op l r _ => .arith op (unpos l) (unpos r) Pos.invalid
  | .cond op l r _ => .cond op (unpos l) (unpos r) Pos.invalid
  | .inE l r _ => .inE (unpos l) (unpos r) Pos.invalid
  | .assign op l r _ => .assign op (unposL l) (unposL r) Pos.invalid
  | .call nm args _ _ _ site => .call nm (unposL args) Pos.invalid Pos.invalid Pos.invalid site
  | .slice o a b c c2 _ _ => .slice (unpos o) (unposO a) (unposO b) (unposO c) c2 Pos.invalid Pos.invalid
  | .ifelse ifs els _ => .ifelse (unposIfs ifs) (unposOB els) Pos.invalid
  | .forS i c l b _ => .forS (unposO i) (unposO c) (unposO l) (unposOB b) Pos.invalid
  | .forIn v it b _ _ => .forIn (unpos v) (unpos it) (unposOB b) Pos.invalid Pos.invalid
  | .brk _ => .brk Pos.invalid
  | .cont _ => .cont Pos.invalid
def unposL : List Node → List Node
  | [] => []
  | x :: r => unpos x :: unposL r
def unposO : Option Node → Option Node
  | none => none
  | some x => some (unpos x)
def unposKV : List (Node × Node) → List (Node × Node)
  | [] => []
  | (k, v) :: r => (unpos k, unpos v) :: unposKV r
def unposOB : Option (List Node) → Option (List Node)
  | none => none
  | some b => some (unposL b)
def unposIfs : List (Node × Option (List Node) × Pos) → List (Node × Option (List Node) × Pos)
  | [] => []
  | (c, b, _) :: r => (unpos c, unposOB b, Pos.invalid) :: unposIfs r
end

theorem unposL_eq_map (xs : List Node) : unposL xs = xs.map unpos := by
  induction xs with
  | nil => rfl
  | cons x r ih => simp [unposL, ih]

/-- the object of an index expression, without position -/
def idxObjP : Option (Bool × Bytes) → Option (Option (Bytes × Pos))
  | none => some none
  | some (q, v) => match identName q v with
    | some nm => some (some (nm, Pos.invalid))
    | none => none

mutual
/-- elaboration of a position-free parser tree: every position is `Pos.invalid` -/
def ofPT (pf : Bytes → Option UInt64) : PT → Nat → Option (Node × Nat)
  | .ident q v, n => match identName q v with
    | some nm => some (.ident nm Pos.invalid, n)
    | none => none
  | .num neg v, n => match numNode ⟨[], pf⟩ neg v Pos.invalid with
    | some x => some (x, n)
    | none => none
  | .str multi v, n =>
    match (if multi then Unq.unquoteMultiline v else Unq.unquote v) with
    | some b => some (.strLit b Pos.invalid, n)
    | none => none
  | .bool b, n => some (.boolLit b Pos.invalid, n)
  | .nil, n => some (.nilLit Pos.invalid, n)
  | .list xs, n => match ofPTs pf xs n with
    | some (ys, n') => some (.list ys Pos.invalid Pos.invalid, n')
    | none => none
  | .map kvs, n => match ofPTKV pf kvs n with
    | some (ys, n') => some (.map ys Pos.invalid Pos.invalid, n')
    | none => none
  | .paren e, n => match ofPT pf e n with
    | some (x, n') => some (.paren x Pos.invalid Pos.invalid, n')
    | none => none
  | .attr o a, n => match ofPT pf o n with
    | some (x, n1) => match ofPT pf a n1 with
      | some (y, n2) => some (.attr (some x) (some y) Pos.invalid, n2)
      | none => none
    | none => none
  | .index obj idx, n => match idxObjP obj with
    | none => none
    | some o => match ofPTs pf idx n with
      | some (ys, n') =>
        some (.index o ys (List.replicate idx.length Pos.invalid) (List.replicate idx.length Pos.invalid), n')
      | none => none
  | .unary op e, n => match ofPT pf e n with
    | some (x, n') => some (.unary (uopOf op) x Pos.invalid, n')
    | none => none
  | .bin op l r, n => match ofPT pf l n with
    | some (x, n1) => match ofPT pf r n1 with
      | some (y, n2) => some (mkBinNode op x y Pos.invalid, n2)
      | none => none
    | none => none
  | .assign op l r, n => match ofPTs pf l n with
    | some (xs, n1) => match ofPTs pf r n1 with
      | some (ys, n2) => some (.assign (asopOf op) xs ys Pos.invalid, n2)
      | none => none
    | none => none
  | .call q v args, n => match identName q v with
    | some nm => match ofPTs pf args (n + 1) with
      | some (ys, n') => some (.call nm ys Pos.invalid Pos.invalid Pos.invalid (n + 1), n')
      | none => none
    | none => none
  | .slice o a b s c2, n => match ofPT pf o n with
    | some (x, n1) => match ofPTO pf a n1 with
      | some (a', n2) => match ofPTO pf b n2 with
        | some (b', n3) => match ofPTO pf s n3 with
          | some (s', n4) => some (.slice x a' b' s' c2 Pos.invalid Pos.invalid, n4)
          | none => none
        | none => none
      | none => none
    | none => none
  | .ifelse ifs els, n => match ofPTIfs pf ifs n with
    | some (is, n1) => match ofPTEls pf els n1 with
      | some (e, n2) => some (.ifelse is e Pos.invalid, n2)
      | none => none
    | none => none
  | .forS i cd l b, n => match ofPTO pf i n with
    | some (i', n1) => match ofPTO pf cd n1 with
      | some (c', n2) => match ofPTO pf l n2 with
        | some (l', n3) => match ofPTs pf b n3 with
          | some (b', n4) => some (.forS i' c' l' (some b') Pos.invalid, n4)
          | none => none
        | none => none
      | none => none
    | none => none
  | .forIn v it b, n => match ofPT pf v n with
    | some (v', n1) => match ofPT pf it n1 with
      | some (it', n2) => match ofPTs pf b n2 with
        | some (b', n3) => some (.forIn v' it' (some b') Pos.invalid Pos.invalid, n3)
        | none => none
      | none => none
    | none => none
  | .brk, n => some (.brk Pos.invalid, n)
  | .cont, n => some (.cont Pos.invalid, n)

def ofPTs (pf : Bytes → Option UInt64) : List PT → Nat → Option (List Node × Nat)
  | [], n => some ([], n)
  | x :: r, n => match ofPT pf x n with
    | some (y, n1) => match ofPTs pf r n1 with
      | some (ys, n2) => some (y :: ys, n2)
      | none => none
    | none => none

def ofPTO (pf : Bytes → Option UInt64) : Option PT → Nat → Option (Option Node × Nat)
  | none, n => some (none, n)
  | some x, n => match ofPT pf x n with
    | some (y, n1) => some (some y, n1)
    | none => none

def ofPTKV (pf : Bytes → Option UInt64) : List (PT × PT) → Nat → Option (List (Node × Node) × Nat)
  | [], n => some ([], n)
  | (k, v) :: r, n => match ofPT pf k n with
    | some (k', n1) => match ofPT pf v n1 with
      | some (v', n2) => match ofPTKV pf r n2 with
        | some (ys, n3) => some ((k', v') :: ys, n3)
        | none => none
      | none => none
    | none => none

def ofPTIfs (pf : Bytes → Option UInt64) : List (PT × List PT) → Nat →
    Option (List (Node × Option (List Node) × Pos) × Nat)
  | [], n => some ([], n)
  | (cd, b) :: r, n => match ofPT pf cd n with
    | some (c', n1) => match ofPTs pf b n1 with
      | some (b', n2) => match ofPTIfs pf r n2 with
        | some (ys, n3) => some ((c', some b', Pos.invalid) :: ys, n3)
        | none => none
      | none => none
    | none => none

def ofPTEls (pf : Bytes → Option UInt64) : Option (List PT) → Nat → Option (Option (List Node) × Nat)
  | none, n => some (none, n)
  | some b, n => match ofPTs pf b n with
    | some (b', n1) => some (some b', n1)
    | none => none
end

/-! ### the shape hypothesis -/

/-- every node of the tree is `shapeOk` (index expressions: one `[`, one `]` per index) -/
def ShapeAll (t : PP) : Prop := ∀ m ∈ t.nodes, m.shapeOk

theorem shapeAll_iff {t : PP} : ShapeAll t ↔ t.shapeOk ∧ ∀ c ∈ t.children, ShapeAll c := by
  unfold ShapeAll
  rw [PP.nodes_eq]
  simp only [List.mem_cons, List.mem_flatMap]
  constructor
  · intro h
    exact ⟨h t (Or.inl rfl), fun c hc n hn => h n (Or.inr ⟨c, hc, hn⟩)⟩
  · rintro ⟨h1, h2⟩ n (rfl | ⟨c, hc, hn⟩)
    · exact h1
    · exact h2 c hc n hn

theorem ShapeAll.child {t c : PP} (h : ShapeAll t) (hc : c ∈ t.children) : ShapeAll c :=
  (shapeAll_iff.1 h).2 c hc

def ShapeAllL (xs : List PP) : Prop := ∀ x ∈ xs, ShapeAll x
def ShapeAllO (x : Option PP) : Prop := ∀ y, x = some y → ShapeAll y
def ShapeAllKV (xs : List (PP × PP)) : Prop := ∀ kv ∈ xs, ShapeAll kv.1 ∧ ShapeAll kv.2
def ShapeAllIfs (xs : List (Nat × PP × List PP)) : Prop := ∀ e ∈ xs, ShapeAll e.2.1 ∧ ShapeAllL e.2.2

theorem eraseL_length (xs : List PP) : (eraseL xs).length = xs.length := by
  induction xs with
  | nil => rfl
  | cons x r ih => simp [eraseL, ih]

theorem numNode_unpos (c : Cfg) (neg v p) :
    (numNode c neg v p).map unpos = numNode ⟨[], c.pf⟩ neg v Pos.invalid := by
  unfold numNode
  split
  · rfl
  · dsimp only
    cases c.pf _ <;> rfl
  · rfl

theorem unpos_mkBinNode (op l r p) : unpos (mkBinNode op l r p) = mkBinNode op (unpos l) (unpos r) Pos.invalid := by
  cases op <;> rfl

theorem idxObj_unpos (c : Cfg) (obj : Option (Bool × Bytes × Nat)) :
    (idxObj c obj).map (Option.map fun o => (o.1, Pos.invalid)) = idxObjP (obj.map fun o => (o.1, o.2.1)) := by
  rcases obj with _ | ⟨q, v, p⟩
  · rfl
  · simp only [idxObj, idxObjP, Option.map_some]
    cases identName q v <;> rfl

theorem map_const_inv {α} (l : List α) (n : Nat) (h : l.length = n) :
    l.map (fun _ => Pos.invalid) = List.replicate n Pos.invalid := by
  subst h
  induction l with
  | nil => rfl
  | cons a r ih => simp [List.replicate_succ, ih]

end Platypus.FrontEnd
