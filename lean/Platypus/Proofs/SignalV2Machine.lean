import Platypus.Proofs.SignalV2Indep
/-!
C14 for the v2 interpreter, part 3: lockstep of the v2 statement functions under the two signals
(the run interrupted at poll `k`, the "K-run", and a run whose signal fires later or never, the
"L-run"), by induction on the fuel.  The relation `R`/`Div` and its calculus are those of the v1
proof (`SignalRel`).
-/
namespace Platypus.SignalV2
open Platypus Platypus.V2 Platypus.MachineProofs Platypus.SignalProofs Platypus.Sem

section
variable {env : Env} {k : Nat} {later : Option Nat}

/-! ### after the observation the K-run's statement functions are quiet -/

theorem Quiet.stmts2 (g : Nat) (b : List Node) : Quiet k (stmts2 (withSig env (some k)) g b) := by
  intro s hs
  cases g with
  | zero => left; simp only [V2.stmts2]; rfl
  | succ g =>
    cases b with
    | nil => right; exact ⟨(), s, rfl, hs, rfl⟩
    | cons n rest =>
      right
      refine ⟨(), pollSt (withSig env (some k)) s, ?_, Nat.le_trans hs (pollSt_polls_le _ _), pollSt_trace _ _⟩
      simp only [V2.stmts2, stmtReturn_apply, pollB_fired s hs, Bool.true_or]

theorem Quiet.tail2 (K : EM Unit) : Quiet k (loopTail2 (withSig env (some k)) K) := by
  intro s hs
  right
  by_cases hb : s.task.brk = true
  · rw [loopTail2_brk _ K hb]
    exact ⟨(), clrBrk s, rfl, hs, rfl⟩
  · have hb' : s.task.brk = false := by simpa using hb
    by_cases hc : s.task.cont = true
    · rw [loopTail2_cont _ K hb' hc]
      have : pollB (withSig env (some k)) (clearBC s) = true := pollB_fired (clearBC s) hs
      rw [if_pos this]
      exact ⟨(), _, rfl, Nat.le_trans hs (pollSt_polls_le _ (clearBC s)), pollSt_trace _ _⟩
    · have hc' : s.task.cont = false := by simpa using hc
      rw [loopTail2_clr _ K ⟨hb', hc'⟩, if_pos (pollB_fired s hs)]
      exact ⟨(), _, rfl, Nat.le_trans hs (pollSt_polls_le _ s), pollSt_trace _ _⟩

theorem MonoM.tail2 (env : Env) {K : EM Unit} (ih1 : MonoM K) : MonoM (loopTail2 env K) := by
  unfold loopTail2
  mono

variable (hl : ∀ k', later = some k' → k ≤ k')
include hl

theorem Rel2.tail2 {KK KL : EM Unit} (hK : Rel2 k KK KL) (hm : MonoM KL) :
    Rel2 k (loopTail2 (withSig env (some k)) KK) (loopTail2 (withSig env later) KL) := by
  unfold loopTail2
  refine Rel2.bind_same fun s => ?_
  simp only []
  refine Rel2.ite _ (Rel2.refl _) (Rel2.ite _ (Rel2.bind_same fun _ => ?_) ?_)
  · exact Rel2.stmtRet hl () hK hm
  · exact Rel2.stmtRet hl () hK hm

/-! ### lockstep -/

/-- lockstep of the v2 statement functions at fuel `g` -/
structure MRel2 (env : Env) (k : Nat) (later : Option Nat) (g : Nat) : Prop where
  stmt : ∀ n, StmtOk2 n → Rel2 k (runExpr (withSig env (some k)) g n) (runExpr (withSig env later) g n)
  stmts : ∀ l, StmtsOk2 l → Rel2 k (stmts2 (withSig env (some k)) g l) (stmts2 (withSig env later) g l)
  ifs : ∀ ifs els, (∀ x ∈ ifs, SF2 x.1) → (∀ x ∈ ifs, BlockOk2 x.2.1) → BlockOk2 els →
    Rel2 k (ifs2 (withSig env (some k)) g ifs els) (ifs2 (withSig env later) g ifs els)
  loop : ∀ c l body, OptSF2 c → OptSF2 l → BlockOk2 body →
    Rel2 k (for2 (withSig env (some k)) g c l body) (for2 (withSig env later) g c l body)
  forIn : ∀ var it pos body, BlockOk2 body →
    Rel2 k (forIn2 (withSig env (some k)) g var it pos body) (forIn2 (withSig env later) g var it pos body)
  forStr : ∀ var rs body, BlockOk2 body →
    Rel2 k (forInStr2 (withSig env (some k)) g var rs body) (forInStr2 (withSig env later) g var rs body)
  forItems : ∀ var pos items live body, BlockOk2 body →
    Rel2 k (forInItems2 (withSig env (some k)) g var pos items live body)
      (forInItems2 (withSig env later) g var pos items live body)

omit hl in
theorem mrel2_zero : MRel2 env k later 0 := by
  refine ⟨?_, ?_, ?_, ?_, ?_, ?_, ?_⟩ <;> intros <;> intro s
  · rw [runExpr, runExpr]; exact .inl rfl
  · rw [V2.stmts2, V2.stmts2]; exact .inl rfl
  · rw [ifs2, ifs2]; exact .inl rfl
  · rw [for2, for2]; exact .inl rfl
  · rw [forIn2, forIn2]; exact .inl rfl
  · rw [forInStr2, forInStr2]; exact .inl rfl
  · rw [forInItems2, forInItems2]; exact .inl rfl

theorem stmts2_rel_step {g : Nat} (ih : MRel2 env k later g) (l : List Node) (hl' : StmtsOk2 l) :
    Rel2 k (V2.stmts2 (withSig env (some k)) (g+1) l) (V2.stmts2 (withSig env later) (g+1) l) := by
  cases l with
  | nil => simp only [V2.stmts2]; exact Rel2.refl _
  | cons n rest =>
    have hmL := mono2_all (withSig env later)
    intro s
    have hwhole := (hmL (g+1)).stmts (n :: rest) s
    simp only [V2.stmts2, stmtReturn_apply] at hwhole ⊢
    rcases poll_cases (env := env) hl s with ⟨h1, h2⟩ | ⟨h1, h2, h3⟩
    · rw [h1, h2]
      cases (pollB (withSig env later) s || (s.task.brk || s.task.cont)) with
      | true => exact .inl rfl
      | false =>
        simp only []
        rcases ih.stmt n (hl' n (by simp)) (pollSt (withSig env later) s) with h | h
        · rw [h]
          cases runExpr (withSig env later) g n (pollSt (withSig env later) s) with
          | ok a s' => exact ih.stmts rest (fun x hx => hl' x (by simp [hx])) s'
          | err e s' => exact .inl rfl
          | panic m => exact .inl rfl
          | fuel => exact .inl rfl
          | need q => exact .inl rfl
        · refine .inr (h.step ?_ ?_ ?_)
          · intro e; rw [e]
          · intro a sK e hk; rw [e]; exact Quiet.stmts2 g rest sK hk
          · intro sL' he
            cases hL : runExpr (withSig env later) g n (pollSt (withSig env later) s) with
            | ok a sL =>
              rw [hL] at he
              exact ⟨sL, .inl ⟨a, rfl⟩, ((hmL g).stmts rest sL).ends he⟩
            | err e sL =>
              rw [hL] at he
              exact ⟨sL, .inr ⟨e, rfl⟩, by rw [← he.err]; exact List.suffix_refl _⟩
            | panic m => rw [hL] at he; exact absurd he not_ends_panic
            | fuel => rw [hL] at he; exact absurd he not_ends_fuel
            | need q => rw [hL] at he; exact absurd he not_ends_need
    · rw [h1]
      simp only [Bool.true_or]
      refine .inr (.inr ⟨(), _, rfl, h3, fun sL he => ?_⟩)
      rw [pollSt_trace]
      exact hwhole.ends he

omit hl in
/-- `{ … }`: push, statements, pop, then a continuation that is quiet after the observation -/
theorem block2_rel {g : Nat} (ih : MRel2 env k later g) (b : List Node) (hb : StmtsOk2 b)
    {KK KL : EM Unit} (hK : Rel2 k KK KL) (hq : Quiet k KK) (hm : MonoM KL) :
    Rel2 k (do pushScope; V2.stmts2 (withSig env (some k)) g b; popScope; KK)
      (do pushScope; V2.stmts2 (withSig env later) g b; popScope; KL) :=
  Rel2.bind_same fun _ => Rel2.bind (ih.stmts b hb) (fun _ => Rel2.bind_same fun _ => hK)
    (fun _ => Quiet.bind Quiet.popScope fun _ => hq) (fun _ => MonoM.bind MonoM.popScope fun _ => hm)

omit hl in
/-- the same without a continuation -/
theorem block2_rel' {g : Nat} (ih : MRel2 env k later g) (b : List Node) (hb : StmtsOk2 b) :
    Rel2 k (do pushScope; V2.stmts2 (withSig env (some k)) g b; popScope)
      (do pushScope; V2.stmts2 (withSig env later) g b; popScope) :=
  Rel2.bind_same fun _ => Rel2.bind (ih.stmts b hb) (fun _ => Rel2.refl _)
    (fun _ => Quiet.popScope) (fun _ => MonoM.popScope)

omit hl in
theorem ifs2_rel_step {g : Nat} (ih : MRel2 env k later g)
    (ifs : List (Node × Option (List Node) × Pos)) (els : Option (List Node))
    (h1 : ∀ x ∈ ifs, SF2 x.1) (h2 : ∀ x ∈ ifs, BlockOk2 x.2.1) (h3 : BlockOk2 els) :
    Rel2 k (ifs2 (withSig env (some k)) (g+1) ifs els) (ifs2 (withSig env later) (g+1) ifs els) := by
  cases ifs with
  | nil =>
    simp only [ifs2]
    cases els with
    | none => exact Rel2.refl _
    | some b => exact block2_rel' ih b (h3 b rfl)
  | cons x rest =>
    obtain ⟨c, blk, p⟩ := x
    have hc : SF2 c := h1 (c, blk, p) (by simp)
    simp only [ifs2]
    rw [valueOf_sigFree env (some k) later g c hc]
    refine Rel2.bind_same fun v => ?_
    refine Rel2.bind_same fun s => ?_
    refine Rel2.ite _ ?_ ?_
    · cases blk with
      | none => exact Rel2.refl _
      | some b => exact block2_rel' ih b (h2 (c, some b, p) (by simp) b rfl)
    · exact ih.ifs rest els (fun x hx => h1 x (by simp [hx])) (fun x hx => h2 x (by simp [hx])) h3


theorem for2_rel_step {g : Nat} (ih : MRel2 env k later g)
    (c l : Option Node) (body : Option (List Node)) (hc : OptSF2 c) (hl2 : OptSF2 l) (hb : BlockOk2 body) :
    Rel2 k (for2 (withSig env (some k)) (g+1) c l body) (for2 (withSig env later) (g+1) c l body) := by
  have hmL := mono2_all (withSig env later)
  have hwhole := (hmL (g+1)).loop c l body
  have hK : Rel2 k
      (match (generalizing := false) l with
        | some ln => do runExpr (withSig env (some k)) g ln; for2 (withSig env (some k)) g c l body
        | none => for2 (withSig env (some k)) g c l body)
      (match (generalizing := false) l with
        | some ln => do runExpr (withSig env later) g ln; for2 (withSig env later) g c l body
        | none => for2 (withSig env later) g c l body) := by
    cases l with
    | none => exact ih.loop c none body hc hl2 hb
    | some ln =>
      simp only []
      rw [runExpr_sigFree env (some k) later g ln (hl2 ln rfl)]
      exact Rel2.bind_same fun _ => ih.loop c (some ln) body hc hl2 hb
  have hKm : MonoM
      (match (generalizing := false) l with
        | some ln => do runExpr (withSig env later) g ln; for2 (withSig env later) g c l body
        | none => for2 (withSig env later) g c l body) := by
    cases l with
    | none => exact (hmL g).loop _ _ _
    | some ln => exact MonoM.bind ((hmL g).expr _) fun _ => (hmL g).loop _ _ _
  have hT := Rel2.tail2 (env := env) hl hK hKm
  have hTq := Quiet.tail2 (env := env) (k := k)
    (match (generalizing := false) l with
        | some ln => do runExpr (withSig env (some k)) g ln; for2 (withSig env (some k)) g c l body
        | none => for2 (withSig env (some k)) g c l body)
  have hTm := MonoM.tail2 (withSig env later) hKm
  simp only [for2] at hwhole ⊢
  refine Rel2.poll' hl () ?_ hwhole
  refine Rel2.bind_congr ?_ fun go => ?_
  · cases c with
    | none => rfl
    | some cn => simp only []; rw [valueOf_sigFree env (some k) later g cn (hc cn rfl)]
  refine Rel2.ite _ (Rel2.refl _) ?_
  cases body with
  | none => exact hT
  | some b =>
    exact block2_rel ih b (hb b rfl) hT hTq hTm

theorem forInStr2_rel_step {g : Nat} (ih : MRel2 env k later g)
    (var : Node) (rs : List Bytes) (body : Option (List Node)) (hb : BlockOk2 body) :
    Rel2 k (forInStr2 (withSig env (some k)) (g+1) var rs body)
      (forInStr2 (withSig env later) (g+1) var rs body) := by
  have hmL := mono2_all (withSig env later)
  cases rs with
  | nil => simp only [forInStr2]; exact Rel2.refl _
  | cons r rest =>
    have hT := Rel2.tail2 (env := env) hl (ih.forStr var rest body hb) ((hmL g).forStr var rest body)
    have hTq := Quiet.tail2 (env := env) (k := k) (forInStr2 (withSig env (some k)) g var rest body)
    have hTm := MonoM.tail2 (withSig env later) ((hmL g).forStr var rest body)
    cases var
    case ident name p =>
      simp only [forInStr2]
      cases body with
      | none => exact Rel2.bind_same fun _ => Rel2.bind_same fun _ => hT
      | some b =>
        exact Rel2.bind_same fun _ => Rel2.bind (ih.stmts b (hb b rfl)) (fun _ => Rel2.bind_same fun _ => hT)
          (fun _ => Quiet.bind Quiet.clearScope fun _ => hTq) (fun _ => MonoM.bind MonoM.clearScope fun _ => hTm)
    all_goals
      simp only [forInStr2]
      exact Rel2.refl _

theorem forInItems2_rel_step {g : Nat} (ih : MRel2 env k later g)
    (var : Node) (pos : Pos) (items : List TV) (live : Option (Nat × Nat × Nat)) (body : Option (List Node))
    (hb : BlockOk2 body) :
    Rel2 k (forInItems2 (withSig env (some k)) (g+1) var pos items live body)
      (forInItems2 (withSig env later) (g+1) var pos items live body) := by
  have hmL := mono2_all (withSig env later)
  cases var
  case ident name p =>
    simp only [forInItems2]
    refine Rel2.bind_same fun next => ?_
    cases next with
    | none => exact Rel2.refl _
    | some t =>
      obtain ⟨x, items', live'⟩ := t
      have hT := Rel2.tail2 (env := env) hl (ih.forItems (.ident name p) pos items' live' body hb)
        ((hmL g).forItems (.ident name p) pos items' live' body)
      have hTq := Quiet.tail2 (env := env) (k := k)
        (forInItems2 (withSig env (some k)) g (.ident name p) pos items' live' body)
      have hTm := MonoM.tail2 (withSig env later) ((hmL g).forItems (.ident name p) pos items' live' body)
      refine Rel2.bind_same fun _ => ?_
      refine Rel2.ite _ (Rel2.refl _) ?_
      refine Rel2.bind_same fun _ => ?_
      cases body with
      | none => exact hT
      | some b => exact Rel2.bind (ih.stmts b (hb b rfl)) (fun _ => hT) (fun _ => hTq) (fun _ => hTm)
  all_goals
    simp only [forInItems2]
    refine Rel2.bind_same fun next => ?_
    cases next with
    | none => exact Rel2.refl _
    | some t =>
      obtain ⟨x, items', live'⟩ := t
      refine Rel2.bind_same fun _ => ?_
      exact Rel2.ite _ (Rel2.refl _) (Rel2.panic_bind _ _ _)

omit hl in
theorem forIn2_rel_step {g : Nat} (ih : MRel2 env k later g)
    (var : Node) (it : TV) (pos : Pos) (body : Option (List Node)) (hb : BlockOk2 body) :
    Rel2 k (forIn2 (withSig env (some k)) (g+1) var it pos body)
      (forIn2 (withSig env later) (g+1) var it pos body) := by
  obtain ⟨v, t⟩ := it
  cases t <;> simp only [forIn2, withSig_mapOrder] <;> try exact Rel2.refl _
  · -- str
    cases v <;> simp only [] <;> first | exact Rel2.refl _ | exact ih.forStr _ _ _ hb
  · -- list
    refine Rel2.bind_same fun st => ?_
    cases v <;> simp only [] <;> try exact Rel2.refl _
    rename_i a
    cases h : st.world.heap.get? a with
    | none => exact Rel2.refl _
    | some o => cases o <;> simp only [] <;> first | exact Rel2.refl _ | exact ih.forItems _ _ _ _ _ hb
  · -- map
    refine Rel2.bind_same fun st => ?_
    cases v <;> simp only [] <;> try exact Rel2.refl _
    rename_i a
    cases h : st.world.heap.get? a with
    | none => exact Rel2.refl _
    | some o =>
      cases o <;> simp only [] <;>
        first | exact Rel2.refl _ | exact Rel2.bind_same fun _ => ih.forItems _ _ _ _ _ hb

omit hl in
theorem runExpr_rel_step {g : Nat} (ih : MRel2 env k later g) (n : Node) (hn : StmtOk2 n) :
    Rel2 k (runExpr (withSig env (some k)) (g+1) n) (runExpr (withSig env later) (g+1) n) := by
  cases hn
  case ifelse ifs els p h1 h2 h3 =>
    simp only [runExpr]
    exact Rel2.finally (Rel2.bind_same fun _ => ih.ifs ifs els h1 h2 h3)
  case forS a b c body p h1 h2 h3 h4 =>
    simp only [runExpr]
    refine Rel2.finally (Rel2.bind_same fun _ => ?_)
    cases a with
    | none => exact ih.loop b c body h2 h3 h4
    | some i =>
      simp only []
      rw [runExpr_sigFree env (some k) later g i (h1 i rfl)]
      exact Rel2.bind_same fun _ => ih.loop b c body h2 h3 h4
  case forIn v it body fp ip h1 h2 =>
    simp only [runExpr]
    rw [valueOf_sigFree env (some k) later g it h1]
    exact Rel2.finally (Rel2.bind_same fun _ => Rel2.bind_same fun itv =>
      Rel2.finally (Rel2.bind_same fun _ => ih.forIn v itv _ body h2))
  case expr h =>
    exact Rel2.of_eq (runExpr_sigFree env (some k) later (g+1) n h)

theorem mrel2_succ {g : Nat} (ih : MRel2 env k later g) : MRel2 env k later (g+1) :=
  ⟨runExpr_rel_step ih, stmts2_rel_step hl ih, ifs2_rel_step ih,
    for2_rel_step hl ih, forIn2_rel_step ih, forInStr2_rel_step hl ih, forInItems2_rel_step hl ih⟩

theorem mrel2_all : ∀ g, MRel2 env k later g
  | 0 => mrel2_zero
  | g+1 => mrel2_succ hl (mrel2_all g)

/-- lockstep of a block of v2 statements -/
theorem stmts2_lockstep (g : Nat) (stmts : List Node) (h : StmtsOk2 stmts) :
    Rel2 k (V2.stmts2 (withSig env (some k)) g stmts) (V2.stmts2 (withSig env later) g stmts) :=
  (mrel2_all hl g).stmts stmts h

end
end Platypus.SignalV2
