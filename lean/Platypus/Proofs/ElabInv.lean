import Platypus.Model.Elab
/-!
# Front end, helper 3: unfolding and inversion lemmas for `Elab.toNode`

Lean cannot generate the equation lemmas of `toNode` (the `ifelse` case matches on the optional else
block inside the recursion), so `simp only [toNode]` / `unfold toNode` fail.  Every equation holds by
`rfl`; they are stated here (`toNode_*_eq`), with one inversion lemma per constructor
(`toNode_*_inv`): what a successful result looks like.
-/
namespace Platypus.Elab
open Platypus.ParsePos Platypus.Parse

/-- the object of an index expression -/
def idxObj (c : Cfg) : Option (Bool × Bytes × Nat) → Option (Option (Bytes × Pos))
  | none => some none
  | some (q, v, p) => match identName q v with
    | some nm => some (some (nm, mkPos c.src p))
    | none => none

/-! ### equations -/

theorem toNode_ident_eq (c q v p n) : toNode c (.ident q v p) n =
    (match identName q v with
      | some nm => some (.ident nm (mkPos c.src p), n)
      | none => none) := rfl
theorem toNode_num_eq (c neg v p k n) : toNode c (.num neg v p k) n =
    (match numNode c neg v (mkPos c.src p) with
      | some x => some (x, n)
      | none => none) := rfl
theorem toNode_str_eq (c multi v p n) : toNode c (.str multi v p) n =
    (match (if multi then Unq.unquoteMultiline v else Unq.unquote v) with
      | some b => some (.strLit b (mkPos c.src p), n)
      | none => none) := rfl
theorem toNode_bool_eq (c b p n) : toNode c (.bool b p) n = some (.boolLit b (mkPos c.src p), n) := rfl
theorem toNode_nil_eq (c p k n) : toNode c (.nil p k) n = some (.nilLit (mkPos c.src p), n) := rfl
theorem toNode_list_eq (c xs lb rb n) : toNode c (.list xs lb rb) n =
    (match toNodes c xs n with
      | some (ys, n') => some (.list ys (mkPos c.src lb) (mkPos c.src rb), n')
      | none => none) := rfl
theorem toNode_map_eq (c kvs lb rb n) : toNode c (.map kvs lb rb) n =
    (match toNodeKV c kvs n with
      | some (ys, n') => some (.map ys (mkPos c.src lb) (mkPos c.src rb), n')
      | none => none) := rfl
theorem toNode_paren_eq (c e lp rp n) : toNode c (.paren e lp rp) n =
    (match toNode c e n with
      | some (x, n') => some (.paren x (mkPos c.src lp) (mkPos c.src rp), n')
      | none => none) := rfl
theorem toNode_attr_eq (c o a p n) : toNode c (.attr o a p) n =
    (match toNode c o n with
      | some (x, n1) => match toNode c a n1 with
        | some (y, n2) => some (.attr (some x) (some y) (mkPos c.src p), n2)
        | none => none
      | none => none) := rfl
theorem toNode_index_eq (c obj idx lbs rbs n) : toNode c (.index obj idx lbs rbs) n =
    (match idxObj c obj with
      | none => none
      | some o => match toNodes c idx n with
        | some (ys, n') => some (.index o ys (lbs.map (mkPos c.src)) (rbs.map (mkPos c.src)), n')
        | none => none) := by
  rcases obj with _ | ⟨q, v, p⟩
  · rfl
  · show (match (match identName q v with
        | some nm => some (some (nm, mkPos c.src p))
        | none => none : Option (Option (Bytes × Pos))) with
      | none => none
      | some o => match toNodes c idx n with
        | some (ys, n') => some (Node.index o ys (lbs.map (mkPos c.src)) (rbs.map (mkPos c.src)), n')
        | none => none) = _
    rfl
theorem toNode_unary_eq (c op e p n) : toNode c (.unary op e p) n =
    (match toNode c e n with
      | some (x, n') => some (.unary (uopOf op) x (mkPos c.src p), n')
      | none => none) := rfl
theorem toNode_bin_eq (c op l r p n) : toNode c (.bin op l r p) n =
    (match toNode c l n with
      | some (x, n1) => match toNode c r n1 with
        | some (y, n2) => some (mkBinNode op x y (mkPos c.src p), n2)
        | none => none
      | none => none) := rfl
theorem toNode_assign_eq (c op l r p n) : toNode c (.assign op l r p) n =
    (match toNodes c l n with
      | some (xs, n1) => match toNodes c r n1 with
        | some (ys, n2) => some (.assign (asopOf op) xs ys (mkPos c.src p), n2)
        | none => none
      | none => none) := rfl
theorem toNode_call_eq (c q v args np lp rp n) : toNode c (.call q v args np lp rp) n =
    (match identName q v with
      | some nm => match toNodes c args (n + 1) with
        | some (ys, n') =>
          some (.call nm ys (mkPos c.src np) (mkPos c.src lp) (mkPos c.src rp) (n + 1), n')
        | none => none
      | none => none) := rfl
theorem toNode_slice_eq (c o a b s c2 lb rb n) : toNode c (.slice o a b s c2 lb rb) n =
    (match toNode c o n with
      | some (x, n1) => match toNodeO c a n1 with
        | some (a', n2) => match toNodeO c b n2 with
          | some (b', n3) => match toNodeO c s n3 with
            | some (s', n4) => some (.slice x a' b' s' c2 (mkPos c.src lb) (mkPos c.src rb), n4)
            | none => none
          | none => none
        | none => none
      | none => none) := rfl
theorem toNode_ifelse_none_eq (c ifs n) : toNode c (.ifelse ifs none) n =
    (match toNodeIfs c ifs n with
      | some (is, n1) => some (.ifelse is none ⟨0, 0, 0⟩, n1)
      | none => none) := rfl
theorem toNode_ifelse_some_eq (c ifs ep b n) : toNode c (.ifelse ifs (some (ep, b))) n =
    (match toNodeIfs c ifs n with
      | some (is, n1) => match toNodes c b n1 with
        | some (bs, n2) => some (.ifelse is (some bs) (mkPos c.src ep), n2)
        | none => none
      | none => none) := rfl
theorem toNode_forS_eq (c i cd l b p n) : toNode c (.forS i cd l b p) n =
    (match toNodeO c i n with
      | some (i', n1) => match toNodeO c cd n1 with
        | some (c', n2) => match toNodeO c l n2 with
          | some (l', n3) => match toNodes c b n3 with
            | some (b', n4) => some (.forS i' c' l' (some b') (mkPos c.src p), n4)
            | none => none
          | none => none
        | none => none
      | none => none) := rfl
theorem toNode_forIn_eq (c v it b fp ip n) : toNode c (.forIn v it b fp ip) n =
    (match toNode c v n with
      | some (v', n1) => match toNode c it n1 with
        | some (it', n2) => match toNodes c b n2 with
          | some (b', n3) => some (.forIn v' it' (some b') (mkPos c.src fp) (mkPos c.src ip), n3)
          | none => none
        | none => none
      | none => none) := rfl
theorem toNode_brk_eq (c p n) : toNode c (.brk p) n = some (.brk (mkPos c.src p), n) := rfl
theorem toNode_cont_eq (c p n) : toNode c (.cont p) n = some (.cont (mkPos c.src p), n) := rfl

theorem toNodes_nil_eq (c n) : toNodes c [] n = some ([], n) := rfl
theorem toNodes_cons_eq (c x r n) : toNodes c (x :: r) n =
    (match toNode c x n with
      | some (y, n1) => match toNodes c r n1 with
        | some (ys, n2) => some (y :: ys, n2)
        | none => none
      | none => none) := rfl
theorem toNodeO_none_eq (c n) : toNodeO c none n = some (none, n) := rfl
theorem toNodeO_some_eq (c x n) : toNodeO c (some x) n =
    (match toNode c x n with
      | some (y, n1) => some (some y, n1)
      | none => none) := rfl
theorem toNodeKV_nil_eq (c n) : toNodeKV c [] n = some ([], n) := rfl
theorem toNodeKV_cons_eq (c k v r n) : toNodeKV c ((k, v) :: r) n =
    (match toNode c k n with
      | some (k', n1) => match toNode c v n1 with
        | some (v', n2) => match toNodeKV c r n2 with
          | some (ys, n3) => some ((k', v') :: ys, n3)
          | none => none
        | none => none
      | none => none) := rfl
theorem toNodeIfs_nil_eq (c n) : toNodeIfs c [] n = some ([], n) := rfl
theorem toNodeIfs_cons_eq (c p cd b r n) : toNodeIfs c ((p, cd, b) :: r) n =
    (match toNode c cd n with
      | some (c', n1) => match toNodes c b n1 with
        | some (b', n2) => match toNodeIfs c r n2 with
          | some (ys, n3) => some ((c', some b', mkPos c.src p) :: ys, n3)
          | none => none
        | none => none
      | none => none) := rfl

/-! ### inversions -/

theorem toNode_ident_inv {c q v p n x n'} (h : toNode c (.ident q v p) n = some (x, n')) :
    ∃ nm, identName q v = some nm ∧ x = .ident nm (mkPos c.src p) ∧ n' = n := by
  rw [toNode_ident_eq] at h
  split at h
  · cases h; exact ⟨_, by assumption, rfl, rfl⟩
  · cases h

theorem toNode_num_inv {c neg v p k n x n'} (h : toNode c (.num neg v p k) n = some (x, n')) :
    numNode c neg v (mkPos c.src p) = some x ∧ n' = n := by
  rw [toNode_num_eq] at h
  split at h
  · cases h; exact ⟨by assumption, rfl⟩
  · cases h

theorem toNode_str_inv {c multi v p n x n'} (h : toNode c (.str multi v p) n = some (x, n')) :
    ∃ b, (if multi then Unq.unquoteMultiline v else Unq.unquote v) = some b ∧
      x = .strLit b (mkPos c.src p) ∧ n' = n := by
  rw [toNode_str_eq] at h
  split at h
  · cases h; exact ⟨_, by assumption, rfl, rfl⟩
  · cases h

theorem toNode_bool_inv {c b p n x n'} (h : toNode c (.bool b p) n = some (x, n')) :
    x = .boolLit b (mkPos c.src p) ∧ n' = n := by
  rw [toNode_bool_eq] at h; cases h; exact ⟨rfl, rfl⟩

theorem toNode_nil_inv {c p k n x n'} (h : toNode c (.nil p k) n = some (x, n')) :
    x = .nilLit (mkPos c.src p) ∧ n' = n := by
  rw [toNode_nil_eq] at h; cases h; exact ⟨rfl, rfl⟩

theorem toNode_list_inv {c xs lb rb n x n'} (h : toNode c (.list xs lb rb) n = some (x, n')) :
    ∃ ys, toNodes c xs n = some (ys, n') ∧ x = .list ys (mkPos c.src lb) (mkPos c.src rb) := by
  rw [toNode_list_eq] at h
  split at h
  · cases h; exact ⟨_, by assumption, rfl⟩
  · cases h

theorem toNode_map_inv {c kvs lb rb n x n'} (h : toNode c (.map kvs lb rb) n = some (x, n')) :
    ∃ ys, toNodeKV c kvs n = some (ys, n') ∧ x = .map ys (mkPos c.src lb) (mkPos c.src rb) := by
  rw [toNode_map_eq] at h
  split at h
  · cases h; exact ⟨_, by assumption, rfl⟩
  · cases h

theorem toNode_paren_inv {c e lp rp n x n'} (h : toNode c (.paren e lp rp) n = some (x, n')) :
    ∃ y, toNode c e n = some (y, n') ∧ x = .paren y (mkPos c.src lp) (mkPos c.src rp) := by
  rw [toNode_paren_eq] at h
  split at h
  · cases h; exact ⟨_, by assumption, rfl⟩
  · cases h

theorem toNode_attr_inv {c o a p n x n'} (h : toNode c (.attr o a p) n = some (x, n')) :
    ∃ y n1 z, toNode c o n = some (y, n1) ∧ toNode c a n1 = some (z, n') ∧
      x = .attr (some y) (some z) (mkPos c.src p) := by
  rw [toNode_attr_eq] at h
  split at h
  · split at h
    · cases h; exact ⟨_, _, _, by assumption, by assumption, rfl⟩
    · cases h
  · cases h

theorem toNode_index_inv {c obj idx lbs rbs n x n'} (h : toNode c (.index obj idx lbs rbs) n = some (x, n')) :
    ∃ o ys, idxObj c obj = some o ∧ toNodes c idx n = some (ys, n') ∧
      x = .index o ys (lbs.map (mkPos c.src)) (rbs.map (mkPos c.src)) := by
  rw [toNode_index_eq] at h
  split at h
  · cases h
  · split at h
    · cases h; exact ⟨_, _, by assumption, by assumption, rfl⟩
    · cases h

theorem toNode_unary_inv {c op e p n x n'} (h : toNode c (.unary op e p) n = some (x, n')) :
    ∃ y, toNode c e n = some (y, n') ∧ x = .unary (uopOf op) y (mkPos c.src p) := by
  rw [toNode_unary_eq] at h
  split at h
  · cases h; exact ⟨_, by assumption, rfl⟩
  · cases h

theorem toNode_bin_inv {c op l r p n x n'} (h : toNode c (.bin op l r p) n = some (x, n')) :
    ∃ y n1 z, toNode c l n = some (y, n1) ∧ toNode c r n1 = some (z, n') ∧
      x = mkBinNode op y z (mkPos c.src p) := by
  rw [toNode_bin_eq] at h
  split at h
  · split at h
    · cases h; exact ⟨_, _, _, by assumption, by assumption, rfl⟩
    · cases h
  · cases h

theorem toNode_assign_inv {c op l r p n x n'} (h : toNode c (.assign op l r p) n = some (x, n')) :
    ∃ ys n1 zs, toNodes c l n = some (ys, n1) ∧ toNodes c r n1 = some (zs, n') ∧
      x = .assign (asopOf op) ys zs (mkPos c.src p) := by
  rw [toNode_assign_eq] at h
  split at h
  · split at h
    · cases h; exact ⟨_, _, _, by assumption, by assumption, rfl⟩
    · cases h
  · cases h

theorem toNode_call_inv {c q v args np lp rp n x n'} (h : toNode c (.call q v args np lp rp) n = some (x, n')) :
    ∃ nm ys, identName q v = some nm ∧ toNodes c args (n + 1) = some (ys, n') ∧
      x = .call nm ys (mkPos c.src np) (mkPos c.src lp) (mkPos c.src rp) (n + 1) := by
  rw [toNode_call_eq] at h
  split at h
  · split at h
    · cases h; exact ⟨_, _, by assumption, by assumption, rfl⟩
    · cases h
  · cases h

theorem toNode_slice_inv {c o a b s c2 lb rb n x n'} (h : toNode c (.slice o a b s c2 lb rb) n = some (x, n')) :
    ∃ y n1 a' n2 b' n3 s', toNode c o n = some (y, n1) ∧ toNodeO c a n1 = some (a', n2) ∧
      toNodeO c b n2 = some (b', n3) ∧ toNodeO c s n3 = some (s', n') ∧
      x = .slice y a' b' s' c2 (mkPos c.src lb) (mkPos c.src rb) := by
  rw [toNode_slice_eq] at h
  split at h
  · split at h
    · split at h
      · split at h
        · cases h
          exact ⟨_, _, _, _, _, _, _, by assumption, by assumption, by assumption, by assumption, rfl⟩
        · cases h
      · cases h
    · cases h
  · cases h

theorem toNode_ifelse_none_inv {c ifs n x n'} (h : toNode c (.ifelse ifs none) n = some (x, n')) :
    ∃ is, toNodeIfs c ifs n = some (is, n') ∧ x = .ifelse is none ⟨0, 0, 0⟩ := by
  rw [toNode_ifelse_none_eq] at h
  split at h
  · cases h; exact ⟨_, by assumption, rfl⟩
  · cases h

theorem toNode_ifelse_some_inv {c ifs ep b n x n'} (h : toNode c (.ifelse ifs (some (ep, b))) n = some (x, n')) :
    ∃ is n1 bs, toNodeIfs c ifs n = some (is, n1) ∧ toNodes c b n1 = some (bs, n') ∧
      x = .ifelse is (some bs) (mkPos c.src ep) := by
  rw [toNode_ifelse_some_eq] at h
  split at h
  · split at h
    · cases h; exact ⟨_, _, _, by assumption, by assumption, rfl⟩
    · cases h
  · cases h

theorem toNode_forS_inv {c i cd l b p n x n'} (h : toNode c (.forS i cd l b p) n = some (x, n')) :
    ∃ i' n1 c' n2 l' n3 b', toNodeO c i n = some (i', n1) ∧ toNodeO c cd n1 = some (c', n2) ∧
      toNodeO c l n2 = some (l', n3) ∧ toNodes c b n3 = some (b', n') ∧
      x = .forS i' c' l' (some b') (mkPos c.src p) := by
  rw [toNode_forS_eq] at h
  split at h
  · split at h
    · split at h
      · split at h
        · cases h
          exact ⟨_, _, _, _, _, _, _, by assumption, by assumption, by assumption, by assumption, rfl⟩
        · cases h
      · cases h
    · cases h
  · cases h

theorem toNode_forIn_inv {c v it b fp ip n x n'} (h : toNode c (.forIn v it b fp ip) n = some (x, n')) :
    ∃ v' n1 it' n2 b', toNode c v n = some (v', n1) ∧ toNode c it n1 = some (it', n2) ∧
      toNodes c b n2 = some (b', n') ∧
      x = .forIn v' it' (some b') (mkPos c.src fp) (mkPos c.src ip) := by
  rw [toNode_forIn_eq] at h
  split at h
  · split at h
    · split at h
      · cases h
        exact ⟨_, _, _, _, _, by assumption, by assumption, by assumption, rfl⟩
      · cases h
    · cases h
  · cases h

theorem toNode_brk_inv {c p n x n'} (h : toNode c (.brk p) n = some (x, n')) :
    x = .brk (mkPos c.src p) ∧ n' = n := by
  rw [toNode_brk_eq] at h; cases h; exact ⟨rfl, rfl⟩

theorem toNode_cont_inv {c p n x n'} (h : toNode c (.cont p) n = some (x, n')) :
    x = .cont (mkPos c.src p) ∧ n' = n := by
  rw [toNode_cont_eq] at h; cases h; exact ⟨rfl, rfl⟩

theorem toNodes_nil_inv {c n xs n'} (h : toNodes c [] n = some (xs, n')) : xs = [] ∧ n' = n := by
  rw [toNodes_nil_eq] at h; cases h; exact ⟨rfl, rfl⟩

theorem toNodes_cons_inv {c x r n xs n'} (h : toNodes c (x :: r) n = some (xs, n')) :
    ∃ y n1 ys, toNode c x n = some (y, n1) ∧ toNodes c r n1 = some (ys, n') ∧ xs = y :: ys := by
  rw [toNodes_cons_eq] at h
  split at h
  · split at h
    · cases h; exact ⟨_, _, _, by assumption, by assumption, rfl⟩
    · cases h
  · cases h

theorem toNodeO_none_inv {c n o n'} (h : toNodeO c none n = some (o, n')) : o = none ∧ n' = n := by
  rw [toNodeO_none_eq] at h; cases h; exact ⟨rfl, rfl⟩

theorem toNodeO_some_inv {c x n o n'} (h : toNodeO c (some x) n = some (o, n')) :
    ∃ y, toNode c x n = some (y, n') ∧ o = some y := by
  rw [toNodeO_some_eq] at h
  split at h
  · cases h; exact ⟨_, by assumption, rfl⟩
  · cases h

theorem toNodeKV_nil_inv {c n xs n'} (h : toNodeKV c [] n = some (xs, n')) : xs = [] ∧ n' = n := by
  rw [toNodeKV_nil_eq] at h; cases h; exact ⟨rfl, rfl⟩

theorem toNodeKV_cons_inv {c k v r n xs n'} (h : toNodeKV c ((k, v) :: r) n = some (xs, n')) :
    ∃ k' n1 v' n2 ys, toNode c k n = some (k', n1) ∧ toNode c v n1 = some (v', n2) ∧
      toNodeKV c r n2 = some (ys, n') ∧ xs = (k', v') :: ys := by
  rw [toNodeKV_cons_eq] at h
  split at h
  · split at h
    · split at h
      · cases h; exact ⟨_, _, _, _, _, by assumption, by assumption, by assumption, rfl⟩
      · cases h
    · cases h
  · cases h

theorem toNodeIfs_nil_inv {c n xs n'} (h : toNodeIfs c [] n = some (xs, n')) : xs = [] ∧ n' = n := by
  rw [toNodeIfs_nil_eq] at h; cases h; exact ⟨rfl, rfl⟩

theorem toNodeIfs_cons_inv {c p cd b r n xs n'} (h : toNodeIfs c ((p, cd, b) :: r) n = some (xs, n')) :
    ∃ c' n1 b' n2 ys, toNode c cd n = some (c', n1) ∧ toNodes c b n1 = some (b', n2) ∧
      toNodeIfs c r n2 = some (ys, n') ∧ xs = (c', some b', mkPos c.src p) :: ys := by
  rw [toNodeIfs_cons_eq] at h
  split at h
  · split at h
    · split at h
      · cases h; exact ⟨_, _, _, _, _, by assumption, by assumption, by assumption, rfl⟩
      · cases h
    · cases h
  · cases h

end Platypus.Elab
