import Platypus.Proofs.ErrPosEval
import Platypus.Model.EvalV2
import Platypus.Proofs.ErrPosStart
/-!
Where run-time errors point in the v2 interpreter model: every failure carries the single link
(running script, position designated by the node being evaluated).  v2 has no use(), so chains
have one link; the proof reuses the rules of `ErrPosBase`.
-/
namespace Platypus.ErrPos
open Platypus Platypus.V2

variable {env : Env}

theorem EOK.getRet {P : Pos → Prop} {p : Pos} (hp : P p) : EOK env (getRet p) P := by
  intro s
  unfold TrE V2.getRet
  split
  · exact (rfl : s.task.name = s.task.name)
  · exact ⟨rfl, .here hp⟩
  · exact ⟨rfl, .here hp⟩

theorem EOK.retSet {P : Pos → Prop} {vs : List TV} : EOK env (retSet vs) P := EOK.modTask fun _ => rfl
theorem EOK.setVar {P : Pos → Prop} {k : Bytes} {v : TV} : EOK env (setVar k v) P := EOK.modTask fun _ => rfl

def InRhs (l : List Node) (first : Node) : Pos → Prop := fun p => p = Node.start first ∨ InL l p
def InAll (l : List Node) (p : Pos) : Pos → Prop := fun q => q = p ∨ InL l q

structure IH2 (env : Env) (f : Nat) : Prop where
  expr : ∀ n, EOK env (runExpr env f n) (In n)
  value : ∀ n, EOK env (valueOf env f n) (In n)
  values : ∀ l, EOK env (valuesOf env f l) (InL l)
  mapLit : ∀ kvs acc, EOK env (V2.mapLit env f kvs acc) (InKV kvs)
  search : ∀ cur idx, EOK env (searchLM2 env f cur idx) (InL idx)
  change : ∀ cur idx val, EOK env (changeLM2 env f cur idx val) (InL idx)
  slice : ∀ obj st en sp, EOK env (slice2 env f obj st en sp) (InSl obj st en sp)
  rhs : ∀ l first cnt acc, EOK env (rhsVals env f l first cnt acc) (InRhs l first)
  assignTo : ∀ e v, EOK env (V2.assignTo env f e v) (In e)
  assignAll : ∀ op l vals p, EOK env (V2.assignAll env f op l vals p) (InAll l p)
  assign : ∀ op lhs rhs p, EOK env (assign2 env f op lhs rhs p) (InAs lhs rhs p)
  call : ∀ name args np, EOK env (call2 env f name args np) (InCall args np)
  stmts : ∀ l, EOK env (stmts2 env f l) (InL l)
  ifs : ∀ ifs els, EOK env (ifs2 env f ifs els) (InIfs ifs els)
  loop : ∀ c l body, EOK env (for2 env f c l body) (InLoop c l body)
  forIn : ∀ var it pos body, EOK env (forIn2 env f var it pos body) (InFor pos body)
  forStr : ∀ var rs body, EOK env (forInStr2 env f var rs body) (InOB body)
  forItems : ∀ var pos items live body, EOK env (forInItems2 env f var pos items live body) (InFor pos body)

macro "pos_sub2" : tactic => `(tactic| first |
  (intro p hp
   simp only [In, InL, InO, InOB, InKV, InSl, InAs, InCall, InRhs, InAll, InIfs, InLoop, InFor, posOf, posOfL, posOfO,
     posOfKV, posOfOB, posOfIfs, List.mem_cons, List.mem_append, List.not_mem_nil, or_false, false_or] at hp ⊢
   first
     | (simp [hp]; done)
     | (rcases hp with h | h <;> simp [h] <;> done)
     | (rcases hp with h | h | h <;> simp [h] <;> done)
     | (rcases hp with h | h | h | h <;> simp [h] <;> done)))

macro "pos_mem2" : tactic => `(tactic| first |
  (simp [In, InL, InO, InOB, InKV, InSl, InAs, InCall, InRhs, InAll, InIfs, InLoop, InFor, posOf, posOfL, posOfO,
     posOfKV, posOfOB, posOfIfs]; done))

macro "eok2 " ih:ident : tactic => `(tactic|
  repeat' (first
    | exact EOK.pure | exact EOK.fuel | exact EOK.panic | exact EOK.need
    | exact EOK.modWorld | exact EOK.getS | exact EOK.retSet | exact EOK.setVar
    | exact EOK.pushScope | exact EOK.popScope | exact EOK.clearScope | exact EOK.procExit | exact EOK.stmtReturn
    | (refine EOK.modTask ?_; intro _; rfl)
    | (exfalso; contradiction)
    | exact EOK.runErr (by pos_mem2)
    | exact EOK.getRet (by pos_mem2)
    | exact (IH2.expr $ih _).mono (by pos_sub2)
    | exact (IH2.value $ih _).mono (by pos_sub2)
    | exact (IH2.values $ih _).mono (by pos_sub2)
    | exact (IH2.mapLit $ih _ _).mono (by pos_sub2)
    | exact (IH2.search $ih _ _).mono (by pos_sub2)
    | exact (IH2.change $ih _ _ _).mono (by pos_sub2)
    | exact (IH2.slice $ih _ _ _ _).mono (by pos_sub2)
    | exact (IH2.rhs $ih _ _ _ _).mono (by pos_sub2)
    | exact (IH2.assignTo $ih _ _).mono (by pos_sub2)
    | exact (IH2.assignAll $ih _ _ _ _).mono (by pos_sub2)
    | exact (IH2.assign $ih _ _ _ _).mono (by pos_sub2)
    | exact (IH2.call $ih _ _ _).mono (by pos_sub2)
    | exact (IH2.stmts $ih _).mono (by pos_sub2)
    | refine EOK.bind ?_ (fun _ => ?_)
    | refine EOK.map ?_
    | split))

section
variable {f : Nat}

theorem valueOf_step2 (ih : IH2 env f) (n : Node) : EOK env (valueOf env (f+1) n) (In n) := by
  simp only [valueOf]; eok2 ih

theorem valuesOf_step2 (ih : IH2 env f) (l : List Node) : EOK env (valuesOf env (f+1) l) (InL l) := by
  cases l <;> (simp only [valuesOf]; eok2 ih)

theorem mapLit_step2 (ih : IH2 env f) (kvs : List (Node × Node)) (acc : List (Bytes × Val)) :
    EOK env (V2.mapLit env (f+1) kvs acc) (InKV kvs) := by
  cases kvs with
  | nil => simp only [V2.mapLit]; exact EOK.pure
  | cons kv r => obtain ⟨k, v⟩ := kv; simp only [V2.mapLit]; eok2 ih

theorem searchLM2_step2 (ih : IH2 env f) (cur : Val) (idx : List Node) :
    EOK env (searchLM2 env (f+1) cur idx) (InL idx) := by
  cases idx <;> (simp only [searchLM2]; eok2 ih)

theorem changeLM2_step2 (ih : IH2 env f) (cur : Val) (idx : List Node) (val : TV) :
    EOK env (changeLM2 env (f+1) cur idx val) (InL idx) := by
  cases idx <;> (simp only [changeLM2]; eok2 ih)

set_option maxHeartbeats 3200000 in
theorem slice2_step2 (ih : IH2 env f) (obj : Node) (st en sp : Option Node) :
    EOK env (slice2 env (f+1) obj st en sp) (InSl obj st en sp) := by
  cases st <;> cases en <;> cases sp <;>
    (simp only [slice2, Platypus.MachineProofs.em_pure_bind]; eok2 ih)

theorem rhsVals_step2 (ih : IH2 env f) (l : List Node) (first : Node) (cnt : Nat) (acc : List TV) :
    EOK env (rhsVals env (f+1) l first cnt acc) (InRhs l first) := by
  cases l <;> (simp only [rhsVals]; eok2 ih)

theorem assignTo_step2 (ih : IH2 env f) (e : Node) (v : TV) : EOK env (V2.assignTo env (f+1) e v) (In e) := by
  simp only [V2.assignTo]; eok2 ih

theorem assignAll_step2 (ih : IH2 env f) (op : AsOp) (l : List Node) (vals : List TV) (p : Pos) :
    EOK env (V2.assignAll env (f+1) op l vals p) (InAll l p) := by
  cases l <;> (simp only [V2.assignAll]; eok2 ih)

theorem assign2_step2 (ih : IH2 env f) (op : AsOp) (lhs rhs : List Node) (p : Pos) :
    EOK env (assign2 env (f+1) op lhs rhs p) (InAs lhs rhs p) := by
  simp only [assign2]; eok2 ih

theorem call2_step2 (ih : IH2 env f) (name : Bytes) (args : List Node) (np : Pos) :
    EOK env (call2 env (f+1) name args np) (InCall args np) := by
  simp only [call2]; eok2 ih


theorem stmts2_step2 (ih : IH2 env f) (l : List Node) : EOK env (stmts2 env (f+1) l) (InL l) := by
  cases l with
  | nil => simp only [stmts2]; exact EOK.pure
  | cons n rest =>
    intro s
    simp only [stmts2]
    unfold TrE
    dsimp only
    have h1 := EOK.stmtReturn (env := env) (P := InL (n :: rest)) s
    unfold TrE at h1
    cases hr : stmtReturn env s with
    | ok b s1 =>
      rw [hr] at h1
      cases b with
      | true => exact h1
      | false =>
        dsimp only
        have h2 := ih.expr n s1
        unfold TrE at h2
        cases hr2 : runExpr env f n s1 with
        | ok v s2 =>
          rw [hr2] at h2
          have h3 := (ih.stmts rest).mono (Q := InL (n :: rest)) (fun p hp => inL_cons_tail hp) s2
          unfold TrE at h3
          have hn : s2.task.name = s.task.name := h2.trans h1
          rw [hn] at h3
          exact h3
        | err e s2 =>
          rw [hr2] at h2
          have hn : s1.task.name = s.task.name := h1
          rw [hn] at h2
          exact ⟨h2.1, h2.2.mono fun p hp => inL_cons_head hp⟩
        | panic m => trivial
        | fuel => trivial
        | need q => trivial
    | err e s1 => rw [hr] at h1; exact h1
    | panic m => trivial
    | fuel => trivial
    | need q => trivial

theorem eok_block2 (ih : IH2 env f) {b : List Node} {P : Pos → Prop} (hb : ∀ p, InL b p → P p)
    {K : EM Unit} (hK : EOK env K P) :
    EOK env (do pushScope; stmts2 env f b; popScope; K) P := by
  refine EOK.bind EOK.pushScope fun _ => ?_
  refine EOK.bind ((ih.stmts b).mono hb) fun _ => ?_
  exact EOK.bind EOK.popScope fun _ => hK

theorem ifs2_step2 (ih : IH2 env f) (ifs : List (Node × Option (List Node) × Pos))
    (els : Option (List Node)) : EOK env (ifs2 env (f+1) ifs els) (InIfs ifs els) := by
  cases ifs with
  | nil =>
    rw [ifs2.eq_def]
    dsimp only
    split
    · refine EOK.bind EOK.pushScope fun _ => ?_
      refine EOK.bind ((ih.stmts _).mono fun p hp => Or.inr hp) fun _ => EOK.popScope
    · exact EOK.pure
  | cons x rest =>
    obtain ⟨c, blk, q⟩ := x
    rw [ifs2.eq_def]
    dsimp only
    refine EOK.bind ((ih.value c).mono ?_) fun v => ?_
    · intro p hp; exact Or.inl (by simp only [posOfIfs, List.mem_cons, List.mem_append]; exact Or.inr (Or.inl hp))
    refine EOK.bind EOK.getS fun s1 => ?_
    split
    · split
      · refine EOK.bind EOK.pushScope fun _ => ?_
        refine EOK.bind ((ih.stmts _).mono ?_) fun _ => EOK.popScope
        intro p hp
        exact Or.inl (by simp only [posOfIfs, List.mem_cons, List.mem_append]; exact Or.inr (Or.inr (Or.inl hp)))
      · exact EOK.pure
    · refine (ih.ifs rest els).mono ?_
      intro p hp
      rcases hp with hp | hp
      · exact Or.inl (by simp only [posOfIfs, List.mem_cons, List.mem_append]; exact Or.inr (Or.inr (Or.inr hp)))
      · exact Or.inr hp

/-- the end of every loop iteration (v2: no value) -/
def tailM2 (env : Env) (K : EM Unit) : EM Unit := do
  let s ← getS
  if s.task.brk = true then do
    modTask fun t => { t with brk := false }
    pure ()
  else if s.task.cont = true then do
    modTask fun t => { t with cont := false }
    let r ← stmtReturn env
    if r = true then pure () else K
  else do
    let r ← stmtReturn env
    if r = true then pure () else K

theorem eok_tail2 {K : EM Unit} {P : Pos → Prop} (hK : EOK env K P) : EOK env (tailM2 env K) P := by
  unfold tailM2
  refine EOK.bind EOK.getS fun s => ?_
  split
  · exact EOK.bind (EOK.modTask fun _ => rfl) fun _ => EOK.pure
  · split
    · refine EOK.bind (EOK.modTask fun _ => rfl) fun _ => ?_
      refine EOK.bind EOK.stmtReturn fun r => ?_
      split
      · exact EOK.pure
      · exact hK
    · refine EOK.bind EOK.stmtReturn fun r => ?_
      split
      · exact EOK.pure
      · exact hK

theorem for2_step2 (ih : IH2 env f) (c l : Option Node) (body : Option (List Node)) :
    EOK env (for2 env (f+1) c l body) (InLoop c l body) := by
  rw [for2.eq_def]
  simp only []
  refine EOK.bind EOK.procExit fun r => ?_
  split
  · exact EOK.pure
  refine EOK.bind ?_ fun go => ?_
  · split
    · rename_i cn
      refine EOK.bind ((ih.value cn).mono fun p hp => Or.inl hp) fun v => ?_
      exact EOK.bind EOK.getS fun _ => EOK.pure
    · exact EOK.pure
  split
  · exact EOK.pure
  have hK : EOK env (match l with
      | some ln => do runExpr env f ln; for2 env f c l body
      | none => for2 env f c l body) (InLoop c l body) := by
    split
    · rename_i ln
      refine EOK.bind ((ih.expr ln).mono fun p hp => Or.inr (Or.inl hp)) fun v => ?_
      exact ih.loop c _ body
    · exact ih.loop c _ body
  split
  · exact eok_block2 ih (fun p hp => Or.inr (Or.inr hp)) (eok_tail2 hK)
  · exact eok_tail2 hK

theorem forInItems2_step2 (ih : IH2 env f) (var : Node) (pos : Pos) (items : List TV)
    (live : Option (Nat × Nat × Nat)) (body : Option (List Node)) :
    EOK env (forInItems2 env (f+1) var pos items live body) (InFor pos body) := by
  rw [forInItems2.eq_def]
  simp only []
  refine EOK.bind ?_ fun nx => ?_
  · split
    · split
      · exact EOK.bind EOK.getS fun _ => EOK.pure
      · exact EOK.pure
    · split <;> exact EOK.pure
  split
  · exact EOK.pure
  · rename_i x items' live'
    refine EOK.bind EOK.clearScope fun _ => ?_
    split
    · exact EOK.runErr (Or.inl rfl)
    · have hK := ih.forItems var pos items' live' body
      split
      · refine EOK.bind EOK.setVar fun _ => ?_
        split
        · refine EOK.bind ((ih.stmts _).mono fun p hp => Or.inr hp) fun _ => ?_
          exact eok_tail2 hK
        · exact eok_tail2 hK
      · exact EOK.bind EOK.panic fun _ => by
          split
          · refine EOK.bind ((ih.stmts _).mono fun p hp => Or.inr hp) fun _ => ?_
            exact eok_tail2 hK
          · exact eok_tail2 hK

theorem forInStr2_step2 (ih : IH2 env f) (var : Node) (rs : List Bytes) (body : Option (List Node)) :
    EOK env (forInStr2 env (f+1) var rs body) (InOB body) := by
  cases rs with
  | nil => simp only [forInStr2]; exact EOK.pure
  | cons r rest =>
    rw [forInStr2.eq_def]
    simp only []
    have hK := ih.forStr var rest body
    split
    · refine EOK.bind EOK.setVar fun _ => ?_
      split
      · refine EOK.bind ((ih.stmts _).mono fun p hp => hp) fun _ => ?_
        exact EOK.bind EOK.clearScope fun _ => eok_tail2 hK
      · exact EOK.bind EOK.clearScope fun _ => eok_tail2 hK
    · exact EOK.pure

theorem forIn2_step2 (ih : IH2 env f) (var : Node) (it : TV) (pos : Pos) (body : Option (List Node)) :
    EOK env (forIn2 env (f+1) var it pos body) (InFor pos body) := by
  rw [forIn2.eq_def]
  simp only []
  split
  · split
    · exact (ih.forStr _ _ _).mono fun p hp => Or.inr hp
    · exact EOK.runErr (Or.inl rfl)
  · refine EOK.bind EOK.getS fun st => ?_
    split
    · split
      · exact EOK.bind EOK.modWorld fun _ => ih.forItems _ _ _ _ _
      · exact EOK.runErr (Or.inl rfl)
    · exact EOK.runErr (Or.inl rfl)
  · refine EOK.bind EOK.getS fun st => ?_
    split
    · split
      · exact ih.forItems _ _ _ _ _
      · exact EOK.runErr (Or.inl rfl)
    · exact EOK.runErr (Or.inl rfl)
  · exact EOK.runErr (Or.inl rfl)


set_option maxHeartbeats 1600000 in
theorem runExpr_step2 (ih : IH2 env f) (n : Node) : EOK env (runExpr env (f+1) n) (In n) := by
  cases n
  case ifelse ifs els p =>
    simp only [runExpr]
    refine EOK.finally ?_ popSt_name
    refine EOK.bind EOK.pushScope fun _ => ?_
    refine (ih.ifs ifs els).mono ?_
    intro q hq
    simp only [In, posOf, List.mem_cons, List.mem_append]
    rcases hq with hq | hq
    · exact Or.inr (Or.inl hq)
    · exact Or.inr (Or.inr hq)
  case forS ini c l body p =>
    have hl : EOK env (for2 env f c l body) (In (.forS ini c l body p)) := by
      refine (ih.loop c l body).mono ?_
      intro q hq
      simp only [In, posOf, List.mem_cons, List.mem_append]
      rcases hq with hq | hq | hq
      · exact Or.inr (Or.inr (Or.inr (Or.inl hq)))
      · exact Or.inr (Or.inr (Or.inr (Or.inr (Or.inl hq))))
      · exact Or.inr (Or.inr (Or.inr (Or.inr (Or.inr hq))))
    cases ini with
    | some i =>
      simp only [runExpr]
      refine EOK.finally ?_ popSt_name
      refine EOK.bind EOK.pushScope fun _ => ?_
      refine EOK.bind ((ih.expr i).mono ?_) fun _ => hl
      intro q hq
      simp only [In, posOf, posOfO, List.mem_cons, List.mem_append]
      exact Or.inr (Or.inr (Or.inl hq))
    | none =>
      simp only [runExpr]
      refine EOK.finally ?_ popSt_name
      refine EOK.bind EOK.pushScope fun _ => ?_
      first | exact hl | exact EOK.bind EOK.pure fun _ => hl
  case forIn var iter body fp ip =>
    simp only [runExpr]
    refine EOK.finally ?_ popSt_name
    refine EOK.bind EOK.pushScope fun _ => ?_
    refine EOK.bind ((ih.value iter).mono ?_) fun it => ?_
    · intro q hq
      simp only [In, posOf, List.mem_cons, List.mem_append]
      exact Or.inr (Or.inr (Or.inr (Or.inr (Or.inl hq))))
    refine EOK.finally ?_ popSt_name
    refine EOK.bind EOK.pushScope fun _ => ?_
    refine (ih.forIn var it _ body).mono ?_
    intro q hq
    simp only [In, posOf, List.mem_cons, List.mem_append]
    rcases hq with hq | hq
    · subst hq; exact Or.inr (Or.inr (Or.inr (Or.inr (Or.inl (start_in iter)))))
    · exact Or.inr (Or.inr (Or.inr (Or.inr (Or.inr hq))))
  all_goals (simp only [runExpr]; eok2 ih)

theorem ih2_zero (env : Env) : IH2 env 0 := by
  refine ⟨?_, ?_, ?_, ?_, ?_, ?_, ?_, ?_, ?_, ?_, ?_, ?_, ?_, ?_, ?_, ?_, ?_, ?_⟩ <;> intros
  · rw [runExpr]; exact EOK.fuel
  · rw [valueOf]; exact EOK.fuel
  · rw [valuesOf]; exact EOK.fuel
  · rw [V2.mapLit]; exact EOK.fuel
  · rw [searchLM2]; exact EOK.fuel
  · rw [changeLM2]; exact EOK.fuel
  · rw [slice2]; exact EOK.fuel
  · rw [rhsVals]; exact EOK.fuel
  · rw [V2.assignTo]; exact EOK.fuel
  · rw [V2.assignAll]; exact EOK.fuel
  · rw [assign2]; exact EOK.fuel
  · rw [call2]; exact EOK.fuel
  · rw [stmts2]; exact EOK.fuel
  · rw [ifs2]; exact EOK.fuel
  · rw [for2]; exact EOK.fuel
  · rw [forIn2]; exact EOK.fuel
  · rw [forInStr2]; exact EOK.fuel
  · rw [forInItems2]; exact EOK.fuel

theorem ih2_succ (ih : IH2 env f) : IH2 env (f+1) :=
  ⟨runExpr_step2 ih, valueOf_step2 ih, valuesOf_step2 ih, mapLit_step2 ih, searchLM2_step2 ih,
    changeLM2_step2 ih, slice2_step2 ih, rhsVals_step2 ih, assignTo_step2 ih, assignAll_step2 ih,
    assign2_step2 ih, call2_step2 ih, stmts2_step2 ih, ifs2_step2 ih, for2_step2 ih, forIn2_step2 ih,
    forInStr2_step2 ih, forInItems2_step2 ih⟩

theorem ih2_all (env : Env) : ∀ f, IH2 env f
  | 0 => ih2_zero env
  | f+1 => ih2_succ (ih2_all env f)

/-- v2 has no use(): a located chain is a single link -/
theorem located_v2_single {env : Env} {name : Bytes} {P : Pos → Prop} {c : List (Bytes × Pos)}
    (h : Located env name P c) (hb : ∀ site, env.bound site = none) : ∀ l ∈ c, l.1 = name ∧ P l.2 :=
  located_single_script hb h

end
end Platypus.ErrPos
