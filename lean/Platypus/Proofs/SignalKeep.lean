import Platypus.Proofs.SignalMono
import Platypus.Proofs.SignalIndep
/-!
C14, part 7: without a signal (`hasSignal = false`) nothing is ever polled: every computation of
the machine and of the evaluator leaves the poll counter unchanged.  (Same structure as
`SignalMono`.)  Together with signal-independence this shows that a signal-free expression never
polls, whatever the signal.
-/
namespace Platypus.SignalProofs
open Platypus Platypus.MachineProofs

def KeepR {α} (s : St) : Res α → Prop
  | .ok _ s' => s'.world.polls = s.world.polls
  | .err _ s' => s'.world.polls = s.world.polls
  | _ => True

/-- every run of `m` that ends in a state has left the poll counter unchanged -/
def KeepM {α} (m : EM α) : Prop := ∀ s, KeepR s (m s)

theorem KeepR.trans {α} {s0 s : St} {r : Res α} (h0 : s.world.polls = s0.world.polls) (h : KeepR s r) :
    KeepR s0 r := by
  cases r <;> first | exact Eq.trans h h0 | trivial

theorem KeepM.pure {α} (a : α) : KeepM (Pure.pure a : EM α) := fun _ => rfl
theorem KeepM.getS : KeepM Platypus.getS := fun _ => rfl
theorem KeepM.modTask (g : Task → Task) : KeepM (Platypus.modTask g) := fun _ => rfl
theorem KeepM.modWorld (g : World → World) (h : ∀ w, (g w).polls = w.polls) : KeepM (Platypus.modWorld g) :=
  fun s => h s.world
theorem KeepM.runErr {α} (p : Pos) (m : String) : KeepM (Platypus.runErr p m : EM α) := fun _ => rfl
theorem KeepM.panicE {α} (m : String) : KeepM (Platypus.panicE m : EM α) := fun _ => trivial
theorem KeepM.needE {α} (q : Bytes) : KeepM (Platypus.needE q : EM α) := fun _ => trivial
theorem KeepM.outOfFuel {α} : KeepM (Platypus.outOfFuel : EM α) := fun _ => trivial
theorem KeepM.pushScope : KeepM Platypus.pushScope := fun _ => rfl
theorem KeepM.popScope : KeepM Platypus.popScope := fun _ => rfl
theorem KeepM.clearScope : KeepM Platypus.clearScope := fun _ => rfl
theorem KeepM.setVarb (k : Bytes) (v : TV) : KeepM (Platypus.setVarb k v) := fun _ => rfl
theorem KeepM.ask (env : Env) (q : Bytes) : KeepM (Platypus.ask env q) := by
  intro s; unfold Platypus.ask; split
  · exact rfl
  · trivial

theorem KeepM.bind {α β} {m : EM α} {k : α → EM β} (hm : KeepM m) (hk : ∀ a, KeepM (k a)) :
    KeepM (m >>= k) := by
  intro s
  rw [bind_apply]
  have h1 := hm s
  cases h : m s with
  | ok a s' => rw [h] at h1; exact KeepR.trans h1 (hk a s')
  | err e s' => rw [h] at h1; exact h1
  | panic m => trivial
  | fuel => trivial
  | need q => trivial

theorem KeepM.map {α β} {m : EM α} (g : α → β) (hm : KeepM m) : KeepM (g <$> m) := by
  intro s
  have h1 := hm s
  show KeepR s (EM.bind m _ s)
  unfold EM.bind
  cases h : m s <;> rw [h] at h1 <;> first | exact h1 | trivial

theorem KeepM.finally {α} {m : EM α} (hm : KeepM m) : KeepM (m.finally popSt) := by
  intro s
  rw [finally_apply]
  have h1 := hm s
  cases h : m s <;> rw [h] at h1 <;> first | exact h1 | trivial

theorem pollSt_noSignal (env : Env) (h : env.hasSignal = false) (s : St) : pollSt env s = s := by
  unfold pollSt; simp [h]

theorem KeepM.procExit (env : Env) (h : env.hasSignal = false) : KeepM (Platypus.procExit env) := by
  intro s; rw [procExit_apply, pollSt_noSignal env h]; exact rfl
theorem KeepM.stmtReturn (env : Env) (h : env.hasSignal = false) : KeepM (Platypus.stmtReturn env) := by
  intro s; rw [stmtReturn_apply, pollSt_noSignal env h]; exact rfl

theorem KeepM.castToString (env : Env) (v : Val) : KeepM (Platypus.castToString env v) := by
  cases v <;> simp only [Platypus.castToString] <;>
    first | exact KeepM.pure _ | exact KeepM.bind (KeepM.ask _ _) fun _ => KeepM.pure _

set_option hygiene false in
/-- one step of the syntax-directed proof that a `do` block keeps the poll counter; induction
    hypotheses are looked up under the reserved names `ih1` … `ih12`, the absence of a signal
    under `hsig` -/
macro "keep_step" : tactic => `(tactic| first
  | with_reducible exact KeepM.pure _
  | with_reducible exact KeepM.getS
  | with_reducible exact KeepM.modTask _
  | with_reducible exact KeepM.runErr _ _
  | with_reducible exact KeepM.panicE _
  | with_reducible exact KeepM.needE _
  | with_reducible exact KeepM.outOfFuel
  | with_reducible exact KeepM.pushScope
  | with_reducible exact KeepM.popScope
  | with_reducible exact KeepM.clearScope
  | with_reducible exact KeepM.setVarb _ _
  | with_reducible exact KeepM.ask _ _
  | with_reducible exact KeepM.procExit _ hsig
  | with_reducible exact KeepM.stmtReturn _ hsig
  | with_reducible exact KeepM.castToString _ _
  | with_reducible assumption
  | with_reducible apply ih1
  | with_reducible apply ih2
  | with_reducible apply ih3
  | with_reducible apply ih4
  | with_reducible apply ih5
  | with_reducible apply ih6
  | with_reducible apply ih7
  | with_reducible apply ih8
  | with_reducible apply ih9
  | with_reducible apply ih10
  | with_reducible apply ih11
  | with_reducible apply ih12
  | (with_reducible refine KeepM.modWorld _ (fun w => ?_); exact rfl)
  | with_reducible refine KeepM.bind ?_ (fun _ => ?_)
  | with_reducible refine KeepM.map _ ?_
  | with_reducible refine KeepM.finally ?_
  | split)

macro "keep" : tactic => `(tactic| repeat' keep_step)

theorem KeepM.conv2str (env : Env) (x : TV) : KeepM (Platypus.conv2str env x) := by
  unfold Platypus.conv2str
  keep

/-- the machine functions keep the poll counter, at fuel `g` -/
structure MKeep (env : Env) (ev : Node → EM TV) (g : Nat) : Prop where
  stmt : ∀ n, KeepM (runStmt env ev g n)
  stmts : ∀ l, KeepM (runStmts env ev g l)
  ifs : ∀ ifs els, KeepM (runIfs env ev g ifs els)
  loop : ∀ c l body, KeepM (forLoop env ev g c l body)
  forIn : ∀ var it pos body, KeepM (Platypus.forIn env ev g var it pos body)
  forStr : ∀ var rs body, KeepM (forInStr env ev g var rs body)
  forItems : ∀ var pos items live body, KeepM (forInItems env ev g var pos items live body)

theorem mkeep_zero (env : Env) (ev : Node → EM TV) : MKeep env ev 0 := by
  refine ⟨?_, ?_, ?_, ?_, ?_, ?_, ?_⟩ <;> intros
  · rw [runStmt]; exact KeepM.outOfFuel
  · rw [runStmts]; exact KeepM.outOfFuel
  · rw [runIfs]; exact KeepM.outOfFuel
  · rw [forLoop]; exact KeepM.outOfFuel
  · rw [Platypus.forIn]; exact KeepM.outOfFuel
  · rw [forInStr]; exact KeepM.outOfFuel
  · rw [forInItems]; exact KeepM.outOfFuel

section
variable {env : Env} {ev : Node → EM TV} {g : Nat} (hsig : env.hasSignal = false)
include hsig

theorem runStmts_keep_step (ih : MKeep env ev g) (l : List Node) : KeepM (runStmts env ev (g+1) l) := by
  cases l with
  | nil => simp only [runStmts]; exact KeepM.pure _
  | cons n rest =>
    intro s
    simp only [runStmts, stmtReturn_apply, pollSt_noSignal env hsig]
    cases (pollB env s || (s.task.brk || s.task.cont)) with
    | true => exact rfl
    | false =>
      dsimp only
      have h2 := ih.stmt n s
      cases hr : runStmt env ev g n s with
      | ok v s2 =>
        rw [hr] at h2
        exact KeepR.trans h2 (ih.stmts rest s2)
      | err e s2 =>
        rw [hr] at h2
        exact h2
      | panic m => trivial
      | fuel => trivial
      | need q => trivial

omit hsig in
theorem runStmt_keep_step (ih8 : ∀ n, KeepM (ev n)) (ih : MKeep env ev g) (n : Node) :
    KeepM (runStmt env ev (g+1) n) := by
  have ih1 := ih.stmt; have ih3 := ih.ifs; have ih4 := ih.loop; have ih5 := ih.forIn
  cases n <;> simp only [runStmt] <;> keep

omit hsig in
theorem block_keep (ih : MKeep env ev g) (b : List Node) {K : EM TV} (ih9 : KeepM K) :
    KeepM (do pushScope; runStmts env ev g b; popScope; K) := by
  have ih2 := ih.stmts
  keep

omit hsig in
theorem runIfs_keep_step (ih : MKeep env ev g) (ifs : List (Node × Option (List Node) × Pos))
    (els : Option (List Node)) : KeepM (runIfs env ev (g+1) ifs els) := by
  have ih1 := ih.stmt; have ih2 := ih.stmts; have ih3 := ih.ifs
  cases ifs with
  | nil => rw [runIfs.eq_def]; simp only []; keep
  | cons x rest =>
    obtain ⟨c, blk, p⟩ := x
    rw [runIfs.eq_def]; simp only []; keep

theorem forLoop_keep_step (ih : MKeep env ev g) (c l : Option Node) (body : Option (List Node)) :
    KeepM (forLoop env ev (g+1) c l body) := by
  have ih1 := ih.stmt; have ih2 := ih.stmts; have ih4 := ih.loop
  rw [forLoop.eq_def]; simp only []
  keep

theorem mkeep_succ (hev : ∀ n, KeepM (ev n)) (ih : MKeep env ev g) : MKeep env ev (g+1) := by
  have ih1 := ih.stmt; have ih2 := ih.stmts; have ih3 := ih.ifs; have ih4 := ih.loop
  have ih5 := ih.forIn; have ih6 := ih.forStr; have ih7 := ih.forItems
  refine ⟨runStmt_keep_step hev ih, runStmts_keep_step hsig ih, runIfs_keep_step ih, forLoop_keep_step hsig ih, ?_, ?_, ?_⟩
  · intro var it pos body
    rw [Platypus.forIn.eq_def]; simp only []; keep
  · intro var rs body
    cases rs with
    | nil => simp only [forInStr]; keep
    | cons r rest => rw [forInStr.eq_def]; simp only []; keep
  · intro var pos items live body
    rw [forInItems.eq_def]; simp only []; keep

theorem mkeep_all (hev : ∀ n, KeepM (ev n)) : ∀ g, MKeep env ev g
  | 0 => mkeep_zero env ev
  | g+1 => mkeep_succ hsig hev (mkeep_all hev g)

end

/-- the evaluator functions keep the poll counter, at fuel `f` -/
structure EKeep (env : Env) (f : Nat) : Prop where
  node : ∀ n, KeepM (evalNode env f n)
  list : ∀ l, KeepM (evalList env f l)
  mapLit : ∀ kvs acc, KeepM (evalMapLit env f kvs acc)
  search : ∀ cur idx, KeepM (searchLM env f cur idx)
  change : ∀ cur idx val, KeepM (changeLM env f cur idx val)
  slice : ∀ obj st en sp, KeepM (evalSlice env f obj st en sp)
  assign : ∀ op lhs rhs p, KeepM (evalAssign env f op lhs rhs p)
  call : ∀ name args np site, KeepM (evalCall env f name args np site)
  builtin : ∀ fn name args np site, KeepM (builtin env f fn name args np site)

theorem ekeep_zero (env : Env) : EKeep env 0 := by
  refine ⟨?_, ?_, ?_, ?_, ?_, ?_, ?_, ?_, ?_⟩ <;> intros
  · rw [evalNode]; exact KeepM.outOfFuel
  · rw [evalList]; exact KeepM.outOfFuel
  · rw [evalMapLit]; exact KeepM.outOfFuel
  · rw [searchLM]; exact KeepM.outOfFuel
  · rw [changeLM]; exact KeepM.outOfFuel
  · rw [evalSlice]; exact KeepM.outOfFuel
  · rw [evalAssign]; exact KeepM.outOfFuel
  · rw [evalCall]; exact KeepM.outOfFuel
  · rw [builtin]; exact KeepM.outOfFuel

section
variable {env : Env} {f : Nat} (hsig : env.hasSignal = false)
include hsig

theorem evalNode_keep_step (ih : EKeep env f) (n : Node) : KeepM (evalNode env (f+1) n) := by
  have ih1 := ih.node; have ih2 := ih.list; have ih3 := ih.mapLit; have ih4 := ih.search
  have ih5 := ih.slice; have ih6 := ih.assign; have ih7 := ih.call
  have ih8 := (mkeep_all (env := env) hsig ih.node f).stmt
  cases n <;> simp only [evalNode] <;> keep

omit hsig in
theorem evalList_keep_step (ih : EKeep env f) (l : List Node) : KeepM (evalList env (f+1) l) := by
  have ih1 := ih.node; have ih2 := ih.list
  cases l <;> simp only [evalList] <;> keep

omit hsig in
theorem evalMapLit_keep_step (ih : EKeep env f) (kvs : List (Node × Node)) (acc : List (Bytes × Val)) :
    KeepM (evalMapLit env (f+1) kvs acc) := by
  have ih1 := ih.node; have ih3 := ih.mapLit
  cases kvs with
  | nil => simp only [evalMapLit]; keep
  | cons kv r => obtain ⟨k, v⟩ := kv; simp only [evalMapLit]; keep

omit hsig in
theorem searchLM_keep_step (ih : EKeep env f) (cur : Val) (idx : List Node) :
    KeepM (searchLM env (f+1) cur idx) := by
  have ih1 := ih.node; have ih4 := ih.search
  cases idx <;> simp only [searchLM] <;> keep

omit hsig in
theorem changeLM_keep_step (ih : EKeep env f) (cur : Val) (idx : List Node) (val : TV) :
    KeepM (changeLM env (f+1) cur idx val) := by
  have ih1 := ih.node; have ih4 := ih.change
  cases idx <;> simp only [changeLM] <;> keep

omit hsig in
theorem evalSlice_keep_step (ih : EKeep env f) (obj : Node) (st en sp : Option Node) :
    KeepM (evalSlice env (f+1) obj st en sp) := by
  have ih1 := ih.node
  rw [evalSlice.eq_def]; simp only []
  keep

omit hsig in
theorem evalAssign_keep_step (ih : EKeep env f) (op : AsOp) (lhs rhs : List Node) (p : Pos) :
    KeepM (evalAssign env (f+1) op lhs rhs p) := by
  have ih1 := ih.node; have ih4 := ih.search; have ih5 := ih.change
  rw [evalAssign.eq_def]; simp only []
  keep

omit hsig in
theorem KeepM.app {α} {m : EM α} (h : KeepM m) (s : St) : KeepR s (m s) := h s

omit hsig in
theorem evalCall_keep_step (ih : EKeep env f) (name : Bytes) (args : List Node) (np : Pos) (site : Nat) :
    KeepM (evalCall env (f+1) name args np site) := by
  intro s
  simp only [evalCall]
  split
  · exact rfl
  · cases hfn : Fn.ofName name with
    | none => trivial
    | some fn =>
      simp only []
      have h := ih.builtin fn name args np site s
      generalize builtin env f fn name args np site s = r at h ⊢
      cases r <;> first | exact h | trivial

omit hsig in
theorem put_keep {sp : Bytes → TV → EM Unit} (h : ∀ k x, KeepM (sp k x)) :
    ∀ l : List (Bytes × Val), KeepM (builtin.put sp l) := by
  intro l
  induction l with
  | nil => simp only [builtin.put]; exact KeepM.pure _
  | cons kv r ih =>
    obtain ⟨ck, cv⟩ := kv
    simp only [builtin.put]
    exact KeepM.bind (h _ _) fun _ => ih

theorem builtin_keep_step (ih : EKeep env f) (fn : Fn) (name : Bytes) (args : List Node) (np : Pos) (site : Nat) :
    KeepM (builtin env (f+1) fn name args np site) := by
  have ih1 := ih.node; have ih2 := ih.list
  have ih3 := fun x => KeepM.conv2str env x
  cases fn
  case addKey =>
    rw [builtin.eq_def]; simp only []; keep
    rename_i k e _
    intro s
    dsimp only
    have h := ih.node e s
    generalize evalNode env f e s = r at h ⊢
    cases r <;> first | exact h | trivial
  case setMeasurement =>
    rw [builtin.eq_def]; simp only []
    split
    · rename_i a0 rest
      split
      · keep
      · intro s
        dsimp only
        have h := ih.node a0 s
        generalize evalNode env f a0 s = r at h ⊢
        cases r <;> simp only []
        · repeat' split
          all_goals exact h
        · exact h
        all_goals trivial
    · keep
  case use =>
    rw [builtin.eq_def]; simp only []; keep
    rename_i cname stmts _
    intro s
    dsimp only
    have h := (mkeep_all (env := env) hsig ih.node f).stmts stmts { task := { name := cname, scopes := [[]] }, world := s.world }
    generalize runStmts env (evalNode env f) f stmts { task := { name := cname, scopes := [[]] }, world := s.world } = r at h ⊢
    cases r <;> first | exact h | trivial
  case printf =>
    rw [builtin.eq_def]; simp only []
    split
    · rename_i a0 rest
      intro s
      dsimp only
      have h := ih.node a0 s
      generalize evalNode env f a0 s = r at h ⊢
      cases r <;> simp only []
      · split
        · split
          · exact h
          · refine KeepR.trans h (KeepM.app ?_ _)
            keep
        · exact h
      · exact h
      all_goals trivial
    · keep
  case grok =>
    rw [builtin.eq_def]; simp only []; keep
    refine put_keep (fun k x => ?_) _
    keep
  all_goals (rw [builtin.eq_def]; simp only []; keep)

theorem ekeep_succ (ih : EKeep env f) : EKeep env (f+1) :=
  ⟨evalNode_keep_step hsig ih, evalList_keep_step ih, evalMapLit_keep_step ih, searchLM_keep_step ih,
    changeLM_keep_step ih, evalSlice_keep_step ih, evalAssign_keep_step ih, evalCall_keep_step ih,
    builtin_keep_step hsig ih⟩

end

theorem ekeep_all (env : Env) (hsig : env.hasSignal = false) : ∀ f, EKeep env f
  | 0 => ekeep_zero env
  | f+1 => ekeep_succ hsig (ekeep_all env hsig f)

/-- a signal-free expression never polls, whatever the signal -/
theorem evalNode_sigFree_keep (env : Env) (o : Option Nat) (f : Nat) (n : Node) (h : SF n) :
    KeepM (evalNode (withSig env o) f n) := by
  rw [evalNode_sigFree_noSignal env o f n h]
  exact (ekeep_all (withSigH env false none) rfl f).node n

end Platypus.SignalProofs
