import Platypus.Proofs.ParsePosBase
/-!
# C17 (tree part) helper, part 2: the position-carrying parser and the model parser in lock step

`Agree f`: at fuel `f`, every function of `Parse.lean` applied to erased arguments returns the
erasure of what its position-carrying copy returns — same acceptance, same trees, EQUAL leftover
item lists.  `agree : ∀ f, Agree f` by induction on the fuel, one step lemma per function.
-/
set_option linter.unusedSimpArgs false
namespace Platypus.ParsePos
open Platypus.Lex (Tok Item)
open Platypus.Parse

def e1 (x : PP × List Item) : PT × List Item := (x.1.erase, x.2)
def eL (x : List PP × List Item) : List PT × List Item := (eraseL x.1, x.2)
def eIC (x : (List PP × List Nat × List Nat) × List Item) : List PT × List Item := (eraseL x.1.1, x.2)
def eLP (x : (List PP × Nat) × List Item) : List PT × List Item := (eraseL x.1.1, x.2)
def eKP (x : (List (PP × PP) × Nat) × List Item) : List (PT × PT) × List Item := (eraseKV x.1.1, x.2)
def eSB (x : (Option PP × Option PP × Option PP × Bool × Nat) × List Item) :
    (Option PT × Option PT × Option PT × Bool) × List Item :=
  ((eraseO x.1.1, eraseO x.1.2.1, eraseO x.1.2.2.1, x.1.2.2.2.1), x.2)
def eNm (nm : Option (Bool × Bytes × Nat)) : Option (Bool × Bytes) := nm.map fun o => (o.1, o.2.1)

structure Agree (f : Nat) : Prop where
  expr : ∀ mp ts, parseExpr f mp ts = (parsePosExpr f mp ts).map e1
  binRest : ∀ mp l ts, parseBinRest f mp l.erase ts = (parsePosBinRest f mp l ts).map e1
  unary : ∀ ts, parseUnary f ts = (parsePosUnary f ts).map e1
  primary : ∀ ts, parsePrimary f ts = (parsePosPrimary f ts).map e1
  afterIdent : ∀ q v p r, parseAfterIdent f q v r = (parsePosAfterIdent f q v p r).map e1
  indexChain : ∀ acc lbs rbs ts, parseIndexChain f (eraseL acc) ts = (parsePosIndexChain f acc lbs rbs ts).map eIC
  attrChain : ∀ obj ts, parseAttrChain f obj.erase ts = (parsePosAttrChain f obj ts).map e1
  attrY : ∀ ts, parseAttrY f ts = (parsePosAttrY f ts).map e1
  attrYIdx : ∀ nm r, parseAttrYIdx f (eNm nm) r = (parsePosAttrYIdx f nm r).map e1
  sliceChain : ∀ obj ts, parseSliceChain f obj.erase ts = (parsePosSliceChain f obj ts).map e1
  sliceBody : ∀ st ts, parseSliceBody f (eraseO st) ts = (parsePosSliceBody f st ts).map eSB
  args : ∀ acc ts, parseArgs f (eraseL acc) ts = (parsePosArgs f acc ts).map eLP
  listElems : ∀ acc ts, parseListElems f (eraseL acc) ts = (parsePosListElems f acc ts).map eLP
  mapElems : ∀ acc ts, parseMapElems f (eraseKV acc) ts = (parsePosMapElems f acc ts).map eKP
  commaParams : ∀ acc ts, parseCommaParams f (eraseL acc) ts = (parsePosCommaParams f acc ts).map eL
  simple : ∀ ts, parseSimple f ts = (parsePosSimple f ts).map e1
  block : ∀ ts, parseBlock f ts = (parsePosBlock f ts).map eL
  stmts : ∀ ts, parseStmts f ts = (parsePosStmts f ts).map eL
  stmtsTail : ∀ acc ts, parseStmtsTail f (eraseL acc) ts = (parsePosStmtsTail f acc ts).map eL
  stmtsAfterSep : ∀ acc ts, parseStmtsAfterSep f (eraseL acc) ts = (parsePosStmtsAfterSep f acc ts).map eL
  stmt : ∀ ts, parseStmt f ts = (parsePosStmt f ts).map e1
  elifs : ∀ acc ts, parseElifs f (eraseIfs acc) ts = (parsePosElifs f acc ts).map e1
  for_ : ∀ fp ts, parseFor f ts = (parsePosFor f fp ts).map e1
  forRest : ∀ fp init ts, parseForRest f (eraseO init) ts = (parsePosForRest f fp init ts).map e1

theorem agree_zero : Agree 0 := by
  constructor <;> intros <;> simp [parseExpr, parseBinRest, parseUnary, parsePrimary, parseAfterIdent, parseIndexChain,
    parseAttrChain, parseAttrY, parseAttrYIdx, parseSliceChain, parseSliceBody, parseArgs, parseListElems, parseMapElems,
    parseCommaParams, parseSimple, parseBlock, parseStmts, parseStmtsTail, parseStmtsAfterSep, parseStmt, parseElifs,
    parseFor, parseForRest,
    parsePosExpr, parsePosBinRest, parsePosUnary, parsePosPrimary, parsePosAfterIdent, parsePosIndexChain,
    parsePosAttrChain, parsePosAttrY, parsePosAttrYIdx, parsePosSliceChain, parsePosSliceBody, parsePosArgs, parsePosListElems, parsePosMapElems,
    parsePosCommaParams, parsePosSimple, parsePosBlock, parsePosStmts, parsePosStmtsTail, parsePosStmtsAfterSep, parsePosStmt, parsePosElifs,
    parsePosFor, parsePosForRest]

theorem expr_step {f} (ih : Agree f) (mp ts) : parseExpr (f+1) mp ts = (parsePosExpr (f+1) mp ts).map e1 := by
  simp only [parseExpr, parsePosExpr, ih.unary]
  cases h : parsePosUnary f ts with
  | none => simp
  | some x => obtain ⟨l, r⟩ := x; simp [e1, ih.binRest]

theorem binRest_step {f} (ih : Agree f) (mp l ts) : parseBinRest (f+1) mp l.erase ts = (parsePosBinRest (f+1) mp l ts).map e1 := by
  simp only [parseBinRest, parsePosBinRest, ih.expr]
  cases ts with
  | nil => simp [e1]
  | cons i rest =>
    simp only
    rcases hb : binOf i.typ with _ | ⟨p, op⟩
    · simp [e1]
    · simp only
      by_cases hp : p ≥ mp
      · simp only [hp, if_true]
        rcases he : parsePosExpr f (p + 1) (skipE rest) with _ | ⟨rhs, r2⟩
        · simp
        · simp only [Option.map_some, e1, mkBinP_erase op i.pos]
          rcases hm : mkBinP op i.pos l rhs with _ | e
          · simp
          · simp [ih.binRest]
      · simp [hp, e1]

theorem unary_step {f} (ih : Agree f) (ts) : parseUnary (f+1) ts = (parsePosUnary (f+1) ts).map e1 := by
  simp only [parseUnary, parsePosUnary, ih.unary, ih.primary]
  cases ts with
  | nil => simp
  | cons i rest =>
    simp only
    rcases hb : unOf i.typ with _ | op
    · simp
    · simp only
      rcases he : parsePosUnary f rest with _ | ⟨e, r⟩
      · simp
      · simp [e1, mkUnaryP_erase]


attribute [local simp] e1 eL eIC eLP eKP eSB eNm

theorem primary_step {f} (ih : Agree f) (ts) : parsePrimary (f+1) ts = (parsePosPrimary (f+1) ts).map e1 := by
  cases ts with
  | nil => simp [parsePrimary, parsePosPrimary]
  | cons i r =>
    simp only [parsePrimary, parsePosPrimary]
    cases ht : i.typ <;> dsimp only
    case ID => exact ih.afterIdent _ _ _ _
    case QUOTED_STRING =>
      split
      · exact ih.afterIdent _ _ _ _
      · rfl
    case DOT =>
      rcases h1 : expect .LEFT_BRACKET r with _ | r1
      · simp
      · simp only [ih.expr]
        rcases h2 : parsePosExpr f 1 (skipE r1) with _ | ⟨e, r2⟩
        · simp
        · simp only [Option.map_some, e1]
          rcases h3 : expect .RIGHT_BRACKET (skipE r2) with _ | r3
          · simp
          · have := ih.indexChain [e] [hp r] [hp (skipE r2)] r3
            simp only [eraseL_single] at this
            simp only [this]
            rcases h4 : parsePosIndexChain f [e] [hp r] [hp (skipE r2)] r3 with _ | ⟨ic, r4⟩
            · simp
            · simpa [PP.erase] using ih.attrChain (.index none ic.1 ic.2.1 ic.2.2) r4
    case NUMBER => simpa [PP.erase] using ih.sliceChain (.num false i.val i.pos .NUMBER) r
    case TRUE => simpa [PP.erase] using ih.sliceChain (.bool true i.pos) r
    case FALSE => simpa [PP.erase] using ih.sliceChain (.bool false i.pos) r
    case NIL => simpa [PP.erase] using ih.sliceChain (.nil i.pos .NIL) r
    case NULL => simpa [PP.erase] using ih.sliceChain (.nil i.pos .NULL) r
    case STRING =>
      split
      · simpa [PP.erase] using ih.sliceChain (.str false i.val i.pos) r
      · rfl
    case MULTILINE_STRING =>
      split
      · simpa [PP.erase] using ih.sliceChain (.str true i.val i.pos) r
      · rfl
    case LEFT_BRACKET =>
      split
      · simpa [PP.erase] using ih.sliceChain (.list [] i.pos (hp (skipE r))) ((skipE r).drop 1)
      · have := ih.listElems [] (skipE r)
        simp only [eraseL_nil] at this
        simp only [this]
        rcases h4 : parsePosListElems f [] (skipE r) with _ | ⟨xr, r2⟩
        · simp
        · simpa [PP.erase] using ih.sliceChain (.list xr.1 i.pos xr.2) r2
    case LEFT_BRACE =>
      split
      · simp [PP.erase]
      · have := ih.mapElems [] (skipE r)
        simp only [eraseKV_nil] at this
        simp only [this]
        rcases h4 : parsePosMapElems f [] (skipE r) with _ | ⟨xr, r2⟩
        · simp
        · simp [PP.erase]
    case LEFT_PAREN =>
      simp only [ih.expr]
      rcases h2 : parsePosExpr f 1 (skipE r) with _ | ⟨e, r2⟩
      · simp
      · simp only [Option.map_some, e1]
        rcases h3 : expect .RIGHT_PAREN (skipE r2) with _ | r3
        · simp
        · simp [PP.erase]
    all_goals simp


theorem afterIdent_step {f} (ih : Agree f) (q v p r) :
    parseAfterIdent (f+1) q v r = (parsePosAfterIdent (f+1) q v p r).map e1 := by
  simp only [parseAfterIdent, parsePosAfterIdent]
  cases ht : tk r <;> dsimp only
  case LEFT_PAREN =>
    split
    · simpa [PP.erase] using
        ih.sliceChain (.call q v [] p (hp r) (hp (skipE (r.drop 1)))) ((skipE (r.drop 1)).drop 1)
    · have := ih.args [] (skipE (r.drop 1))
      simp only [eraseL_nil] at this
      simp only [this]
      rcases h4 : parsePosArgs f [] (skipE (r.drop 1)) with _ | ⟨ar, r2⟩
      · simp
      · simpa [PP.erase] using ih.sliceChain (.call q v ar.1 p (hp r) ar.2) r2
  case LEFT_BRACKET =>
    split
    · have hsb := ih.sliceBody (none) (skipE (r.drop 1))
      simp only [eraseO_none, eraseO_some] at hsb
      simp only [hsb]
      rcases h4 : parsePosSliceBody f (none) (skipE (r.drop 1)) with _ | ⟨sl, r2⟩
      · simp
      · simp only [Option.map_some, eSB]
        have hm := mkSliceP_erase (.ident q v p) sl.1 sl.2.1 sl.2.2.1 sl.2.2.2.1 (hp r) sl.2.2.2.2
        try simp only [PP.erase] at hm
        simp only [hm]
        rcases h5 : mkSliceP (.ident q v p) sl.1 sl.2.1 sl.2.2.1 sl.2.2.2.1 (hp r) sl.2.2.2.2 with _ | s
        · simp
        · simpa using ih.sliceChain s r2
    · simp only [ih.expr]
      rcases h2 : parsePosExpr f 1 (skipE (r.drop 1)) with _ | ⟨e, r2⟩
      · simp
      · simp only [Option.map_some, e1]
        split
        · have hsb := ih.sliceBody (some e) (r2)
          simp only [eraseO_none, eraseO_some] at hsb
          simp only [hsb]
          rcases h4 : parsePosSliceBody f (some e) (r2) with _ | ⟨sl, r3⟩
          · simp
          · simp only [Option.map_some, eSB]
            have hm := mkSliceP_erase (.ident q v p) sl.1 sl.2.1 sl.2.2.1 sl.2.2.2.1 (hp r) sl.2.2.2.2
            try simp only [PP.erase] at hm
            simp only [hm]
            rcases h5 : mkSliceP (.ident q v p) sl.1 sl.2.1 sl.2.2.1 sl.2.2.2.1 (hp r) sl.2.2.2.2 with _ | s
            · simp
            · simpa using ih.sliceChain s r3
        · rcases h3 : expect .RIGHT_BRACKET (skipE r2) with _ | r3
          · simp
          · have := ih.indexChain [e] [hp r] [hp (skipE r2)] r3
            simp only [eraseL_single] at this
            simp only [this]
            rcases h4 : parsePosIndexChain f [e] [hp r] [hp (skipE r2)] r3 with _ | ⟨ic, r4⟩
            · simp
            · simpa [PP.erase] using ih.attrChain (.index (some (q, v, p)) ic.1 ic.2.1 ic.2.2) r4
  case DOT => simpa [PP.erase] using ih.attrChain (.ident q v p) r
  all_goals simp [PP.erase]

theorem indexChain_step {f} (ih : Agree f) (acc lbs rbs ts) :
    parseIndexChain (f+1) (eraseL acc) ts = (parsePosIndexChain (f+1) acc lbs rbs ts).map eIC := by
  simp only [parseIndexChain, parsePosIndexChain]
  split
  · simp only [ih.expr]
    rcases h2 : parsePosExpr f 1 (skipE (ts.drop 1)) with _ | ⟨e, r2⟩
    · simp
    · simp only [Option.map_some, e1]
      rcases h3 : expect .RIGHT_BRACKET (skipE r2) with _ | r3
      · simp
      · simpa using ih.indexChain (acc ++ [e]) (lbs ++ [hp ts]) (rbs ++ [hp (skipE r2)]) r3
  · simp

theorem attrChain_step {f} (ih : Agree f) (obj ts) :
    parseAttrChain (f+1) obj.erase ts = (parsePosAttrChain (f+1) obj ts).map e1 := by
  simp only [parseAttrChain, parsePosAttrChain]
  split
  · simp only [ih.attrY]
    rcases h2 : parsePosAttrY f (ts.drop 1) with _ | ⟨y, r⟩
    · simp
    · simpa [PP.erase] using ih.attrChain (.attr obj y obj.start) r
  · simp

theorem attrY_step {f} (ih : Agree f) (ts) : parseAttrY (f+1) ts = (parsePosAttrY (f+1) ts).map e1 := by
  cases ts with
  | nil => simp [parseAttrY, parsePosAttrY]
  | cons i r =>
    simp only [parseAttrY, parsePosAttrY]
    cases ht : i.typ <;> dsimp only
    case ID => simpa using ih.attrYIdx (some (false, i.val, i.pos)) r
    case QUOTED_STRING =>
      split
      · simpa using ih.attrYIdx (some (true, i.val, i.pos)) r
      · rfl
    case DOT =>
      split
      · simpa using ih.attrYIdx none r
      · rfl
    all_goals simp

theorem attrYIdx_step {f} (ih : Agree f) (nm r) :
    parseAttrYIdx (f+1) (eNm nm) r = (parsePosAttrYIdx (f+1) nm r).map e1 := by
  simp only [parseAttrYIdx, parsePosAttrYIdx]
  split
  · have := ih.indexChain [] [] [] r
    simp only [eraseL_nil] at this
    simp only [this]
    rcases h4 : parsePosIndexChain f [] [] [] r with _ | ⟨ic, r2⟩
    · simp
    · simp [PP.erase]
  · rcases nm with _ | ⟨q, v, p⟩ <;> simp [PP.erase]

theorem sliceChain_step {f} (ih : Agree f) (obj ts) :
    parseSliceChain (f+1) obj.erase ts = (parsePosSliceChain (f+1) obj ts).map e1 := by
  simp only [parseSliceChain, parsePosSliceChain]
  split
  · split
    · have hsb := ih.sliceBody (none) (skipE (ts.drop 1))
      simp only [eraseO_none, eraseO_some] at hsb
      simp only [hsb]
      rcases h4 : parsePosSliceBody f (none) (skipE (ts.drop 1)) with _ | ⟨sl, r2⟩
      · simp
      · simp only [Option.map_some, eSB]
        have hm := mkSliceP_erase (obj) sl.1 sl.2.1 sl.2.2.1 sl.2.2.2.1 (hp ts) sl.2.2.2.2
        try simp only [PP.erase] at hm
        simp only [hm]
        rcases h5 : mkSliceP (obj) sl.1 sl.2.1 sl.2.2.1 sl.2.2.2.1 (hp ts) sl.2.2.2.2 with _ | s
        · simp
        · simpa using ih.sliceChain s r2
    · simp only [ih.expr]
      rcases h2 : parsePosExpr f 1 (skipE (ts.drop 1)) with _ | ⟨e, r2⟩
      · simp
      · simp only [Option.map_some, e1]
        have hsb := ih.sliceBody (some e) (r2)
        simp only [eraseO_none, eraseO_some] at hsb
        simp only [hsb]
        rcases h4 : parsePosSliceBody f (some e) (r2) with _ | ⟨sl, r3⟩
        · simp
        · simp only [Option.map_some, eSB]
          have hm := mkSliceP_erase (obj) sl.1 sl.2.1 sl.2.2.1 sl.2.2.2.1 (hp ts) sl.2.2.2.2
          try simp only [PP.erase] at hm
          simp only [hm]
          rcases h5 : mkSliceP (obj) sl.1 sl.2.1 sl.2.2.1 sl.2.2.2.1 (hp ts) sl.2.2.2.2 with _ | s
          · simp
          · simpa using ih.sliceChain s r3
  · simp

theorem sliceBody_step {f} (ih : Agree f) (st ts) :
    parseSliceBody (f+1) (eraseO st) ts = (parsePosSliceBody (f+1) st ts).map eSB := by
  simp only [parseSliceBody, parsePosSliceBody]
  rcases h0 : expect .COLON ts with _ | r0
  · simp
  · dsimp only
    have tail : ∀ (stop : Option PP) (r2 : List Item),
        (if tk r2 = Tok.COLON then
          if tk (skipE (List.drop 1 r2)) = Tok.RIGHT_BRACKET then
            some ((eraseO st, eraseO stop, none, true), List.drop 1 (skipE (List.drop 1 r2)))
          else
            match parseExpr f 1 (skipE (List.drop 1 r2)) with
            | some (e, r4) =>
              match expect Tok.RIGHT_BRACKET r4 with
              | some r5 => some ((eraseO st, eraseO stop, some e, true), r5)
              | none => none
            | none => none
        else
          match expect Tok.RIGHT_BRACKET r2 with
          | some r3 => some ((eraseO st, eraseO stop, none, false), r3)
          | none => none) =
        Option.map eSB
          (if tk r2 = Tok.COLON then
            if tk (skipE (List.drop 1 r2)) = Tok.RIGHT_BRACKET then
              some ((st, stop, none, true, hp (skipE (List.drop 1 r2))), List.drop 1 (skipE (List.drop 1 r2)))
            else
              match parsePosExpr f 1 (skipE (List.drop 1 r2)) with
              | some (e, r4) =>
                match expect Tok.RIGHT_BRACKET r4 with
                | some r5 => some ((st, stop, some e, true, hp r4), r5)
                | none => none
              | none => none
          else
            match expect Tok.RIGHT_BRACKET r2 with
            | some r3 => some ((st, stop, none, false, hp r2), r3)
            | none => none) := by
      intro stop r2
      split
      · split
        · simp
        · simp only [ih.expr]
          rcases h3 : parsePosExpr f 1 (skipE (r2.drop 1)) with _ | ⟨e', r4⟩
          · simp
          · simp only [Option.map_some, e1]
            rcases h5 : expect .RIGHT_BRACKET r4 with _ | r5 <;> simp
      · rcases h5 : expect .RIGHT_BRACKET r2 with _ | r3 <;> simp
    by_cases hc : (decide (tk (skipE r0) = Tok.COLON) || decide (tk (skipE r0) = Tok.RIGHT_BRACKET)) = true
    · simp only [hc, ↓reduceIte]
      exact tail none _
    · have hx := ih.expr 1 (skipE r0)
      simp only [hc, Bool.false_eq_true, ↓reduceIte, hx]
      rcases h2 : parsePosExpr f 1 (skipE r0) with _ | ⟨e, r2⟩
      · simp
      · simp only [Option.map_some, e1]
        exact tail (some e) r2

theorem args_step {f} (ih : Agree f) (acc ts) :
    parseArgs (f+1) (eraseL acc) ts = (parsePosArgs (f+1) acc ts).map eLP := by
  simp only [parseArgs, parsePosArgs]
  have hx := ih.expr 1 ts
  simp only [hx]
  rcases h1 : parsePosExpr f 1 ts with _ | ⟨e, r⟩
  · simp
  · simp only [Option.map_some, e1]
    have tail : ∀ (arg : PP) (argE : PT) (r : List Item), argE = arg.erase →
        (if tk r = Tok.COMMA then
          if tk (skipE (List.drop 1 r)) = Tok.RIGHT_PAREN then
            some (eraseL acc ++ [argE], List.drop 1 (skipE (List.drop 1 r)))
          else parseArgs f (eraseL acc ++ [argE]) (skipE (List.drop 1 r))
        else
          match expect Tok.RIGHT_PAREN (skipE r) with
          | some r3 => some (eraseL acc ++ [argE], r3)
          | none => none) =
        Option.map eLP
          (if tk r = Tok.COMMA then
            if tk (skipE (List.drop 1 r)) = Tok.RIGHT_PAREN then
              some ((acc ++ [arg], hp (skipE (List.drop 1 r))), List.drop 1 (skipE (List.drop 1 r)))
            else parsePosArgs f (acc ++ [arg]) (skipE (List.drop 1 r))
          else
            match expect Tok.RIGHT_PAREN (skipE r) with
            | some r3 => some ((acc ++ [arg], hp (skipE r)), r3)
            | none => none) := by
      intro arg argE r hE
      subst hE
      split
      · split
        · simp
        · simpa using ih.args (acc ++ [arg]) (skipE (r.drop 1))
      · rcases h5 : expect .RIGHT_PAREN (skipE r) with _ | r3 <;> simp
    cases e
    case ident q v p =>
      simp only [PP.erase]
      by_cases hq : tk r = Tok.EQ
      · have hx2 := ih.expr 1 (skipE (r.drop 1))
        simp only [hq, ↓reduceIte, hx2]
        rcases h2 : parsePosExpr f 1 (skipE (r.drop 1)) with _ | ⟨v', r'⟩
        · simp
        · simp only [Option.map_some, e1]
          exact tail (.assign .eq [.ident q v p] [v'] (hp r)) _ r' (by simp [PP.erase])
      · simp only [hq, ↓reduceIte]
        exact tail (.ident q v p) _ r (by simp [PP.erase])
    all_goals (simp only [PP.erase]; exact tail _ _ _ (by simp [PP.erase]))

theorem listElems_step {f} (ih : Agree f) (acc ts) :
    parseListElems (f+1) (eraseL acc) ts = (parsePosListElems (f+1) acc ts).map eLP := by
  simp only [parseListElems, parsePosListElems]
  have hx := ih.expr 1 ts
  simp only [hx]
  rcases h1 : parsePosExpr f 1 ts with _ | ⟨e, r⟩
  · simp
  · simp only [Option.map_some, e1]
    split
    · simp
    · split
      · split
        · simp
        · simpa using ih.listElems (acc ++ [e]) (skipE ((skipE r).drop 1))
      · simp

theorem mapElems_step {f} (ih : Agree f) (acc ts) :
    parseMapElems (f+1) (eraseKV acc) ts = (parsePosMapElems (f+1) acc ts).map eKP := by
  simp only [parseMapElems, parsePosMapElems]
  have hx := ih.expr 1 ts
  simp only [hx]
  rcases h1 : parsePosExpr f 1 ts with _ | ⟨k, r⟩
  · simp
  · simp only [Option.map_some, e1]
    rcases h2 : expect .COLON r with _ | r1
    · simp
    · have hx2 := ih.expr 1 (skipE r1)
      simp only [hx2]
      rcases h3 : parsePosExpr f 1 (skipE r1) with _ | ⟨v, r2⟩
      · simp
      · simp only [Option.map_some, e1]
        split
        · split
          · simp
          · simpa using ih.mapElems (acc ++ [(k, v)]) (skipE (r2.drop 1))
        · rcases h5 : expect .RIGHT_BRACE (skipE r2) with _ | r3 <;> simp

theorem commaParams_step {f} (ih : Agree f) (acc ts) :
    parseCommaParams (f+1) (eraseL acc) ts = (parsePosCommaParams (f+1) acc ts).map eL := by
  simp only [parseCommaParams, parsePosCommaParams]
  have hx := ih.expr 1 ts
  simp only [hx]
  rcases h1 : parsePosExpr f 1 ts with _ | ⟨e, r⟩
  · simp
  · simp only [Option.map_some, e1]
    split
    · simpa using ih.commaParams (acc ++ [e]) (skipE (r.drop 1))
    · simp

theorem simple_step {f} (ih : Agree f) (ts) : parseSimple (f+1) ts = (parsePosSimple (f+1) ts).map e1 := by
  simp only [parseSimple, parsePosSimple]
  have hx := ih.commaParams [] ts
  simp only [eraseL_nil] at hx
  simp only [hx]
  rcases h1 : parsePosCommaParams f [] ts with _ | ⟨es, r⟩
  · simp
  · simp only [Option.map_some, eL]
    split
    · have hx2 := ih.commaParams [] (skipE (r.drop 1))
      simp only [eraseL_nil] at hx2
      simp only [hx2]
      rcases h2 : parsePosCommaParams f [] (skipE (r.drop 1)) with _ | ⟨rs, r2⟩ <;> simp [PP.erase]
    · rcases ha : asgOf (tk r) with _ | op
      · rcases es with _ | ⟨e, _ | ⟨e2, es⟩⟩ <;> simp [eraseL]
      · rcases es with _ | ⟨e, _ | ⟨e2, es⟩⟩
        · simp [eraseL]
        · have hx3 := ih.expr 1 (skipE (r.drop 1))
          simp only [eraseL, hx3]
          rcases h3 : parsePosExpr f 1 (skipE (r.drop 1)) with _ | ⟨v, r2⟩ <;> simp [PP.erase, eraseL]
        · simp [eraseL]

theorem block_step {f} (ih : Agree f) (ts) : parseBlock (f+1) ts = (parsePosBlock (f+1) ts).map eL := by
  simp only [parseBlock, parsePosBlock]
  rcases h0 : expect .LEFT_BRACE ts with _ | r
  · simp
  · dsimp only
    split
    · simp
    · simp only [ih.stmts]
      rcases h1 : parsePosStmts f (skipE r) with _ | ⟨ss, r2⟩
      · simp
      · simp only [Option.map_some, eL]
        rcases h2 : expect .RIGHT_BRACE r2 with _ | r3 <;> simp

theorem stmts_step {f} (ih : Agree f) (ts) : parseStmts (f+1) ts = (parsePosStmts (f+1) ts).map eL := by
  simp only [parseStmts, parsePosStmts]
  split
  · simpa using ih.stmtsAfterSep [] (skipSep ts)
  · simp only [ih.stmt]
    rcases h1 : parsePosStmt f ts with _ | ⟨s, r⟩
    · simp
    · simpa using ih.stmtsTail [s] r

theorem stmtsTail_step {f} (ih : Agree f) (acc ts) :
    parseStmtsTail (f+1) (eraseL acc) ts = (parsePosStmtsTail (f+1) acc ts).map eL := by
  simp only [parseStmtsTail, parsePosStmtsTail]
  split
  · exact ih.stmtsAfterSep acc (skipSep ts)
  · simp

theorem stmtsAfterSep_step {f} (ih : Agree f) (acc ts) :
    parseStmtsAfterSep (f+1) (eraseL acc) ts = (parsePosStmtsAfterSep (f+1) acc ts).map eL := by
  simp only [parseStmtsAfterSep, parsePosStmtsAfterSep]
  split
  · simp
  · simp only [ih.stmt]
    rcases h1 : parsePosStmt f ts with _ | ⟨s, r⟩
    · simp
    · simpa using ih.stmtsTail (acc ++ [s]) r

theorem stmt_step {f} (ih : Agree f) (ts) : parseStmt (f+1) ts = (parsePosStmt (f+1) ts).map e1 := by
  cases ts with
  | nil => simp [parseStmt, parsePosStmt]
  | cons i r =>
    simp only [parseStmt, parsePosStmt]
    cases ht : i.typ <;> dsimp only
    case IF =>
      simp only [ih.expr]
      rcases h1 : parsePosExpr f 1 r with _ | ⟨c, r1⟩
      · simp
      · simp only [Option.map_some, e1, ih.block]
        rcases h2 : parsePosBlock f r1 with _ | ⟨b, r2⟩
        · simp
        · simpa using ih.elifs [(i.pos, c, b)] r2
    case FOR => exact ih.for_ i.pos r
    case BREAK => simp [PP.erase]
    case CONTINUE => simp [PP.erase]
    all_goals exact ih.simple _

theorem elifs_step {f} (ih : Agree f) (acc ts) :
    parseElifs (f+1) (eraseIfs acc) ts = (parsePosElifs (f+1) acc ts).map e1 := by
  simp only [parseElifs, parsePosElifs]
  split
  · simp only [ih.expr]
    rcases h1 : parsePosExpr f 1 (ts.drop 1) with _ | ⟨c, r1⟩
    · simp
    · simp only [Option.map_some, e1, ih.block]
      rcases h2 : parsePosBlock f r1 with _ | ⟨b, r2⟩
      · simp
      · simpa using ih.elifs (acc ++ [(hp ts, c, b)]) r2
  · split
    · simp only [ih.block]
      rcases h2 : parsePosBlock f (ts.drop 1) with _ | ⟨b, r2⟩ <;> simp [PP.erase, eraseEls]
    · simp [PP.erase, eraseEls]

theorem for_step {f} (ih : Agree f) (fp ts) : parseFor (f+1) ts = (parsePosFor (f+1) fp ts).map e1 := by
  simp only [parseFor, parsePosFor]
  split
  · simpa using ih.forRest fp none (ts.drop 1)
  · simp only [ih.simple]
    rcases h1 : parsePosSimple f ts with _ | ⟨s, r⟩
    · simp
    · simp only [Option.map_some, e1]
      split
      · simp only [ih.block]
        rcases h2 : parsePosBlock f r with _ | ⟨b, r2⟩
        · simp
        · simp only [Option.map_some, eL, mkForInP_erase fp]
          rcases h3 : mkForInP fp s b with _ | st <;> simp
      · rcases h2 : expect .SEMICOLON r with _ | r1
        · simp
        · simpa using ih.forRest fp (some s) r1

theorem forRest_step {f} (ih : Agree f) (fp init ts) :
    parseForRest (f+1) (eraseO init) ts = (parsePosForRest (f+1) fp init ts).map e1 := by
  simp only [parseForRest, parsePosForRest]
  have tail : ∀ (cond : Option PP) (r : List Item),
      (match expect Tok.SEMICOLON r with
      | none => none
      | some r1 =>
        match
          if tk r1 = Tok.LEFT_BRACE then
            match parseBlock f r1 with
            | some (b, r2) => if stmtEnd (tk r2) = true then some (b, r2) else none
            | none => none
          else none with
        | some (b, r2) => some (PT.forS (eraseO init) (eraseO cond) none b, r2)
        | none =>
          match parseSimple f r1 with
          | some (l, r2) =>
            match parseBlock f r2 with
            | some (b, r3) => some (PT.forS (eraseO init) (eraseO cond) (some l) b, r3)
            | none => none
          | none => none) =
      Option.map e1
        (match expect Tok.SEMICOLON r with
        | none => none
        | some r1 =>
          match
            if tk r1 = Tok.LEFT_BRACE then
              match parsePosBlock f r1 with
              | some (b, r2) => if stmtEnd (tk r2) = true then some (b, r2) else none
              | none => none
            else none with
          | some (b, r2) => some (PP.forS init cond none b fp, r2)
          | none =>
            match parsePosSimple f r1 with
            | some (l, r2) =>
              match parsePosBlock f r2 with
              | some (b, r3) => some (PP.forS init cond (some l) b fp, r3)
              | none => none
            | none => none) := by
    intro cond r
    rcases h1 : expect .SEMICOLON r with _ | r1
    · simp
    · dsimp only
      have rest : (match parseSimple f r1 with
          | some (l, r2) =>
            match parseBlock f r2 with
            | some (b, r3) => some (PT.forS (eraseO init) (eraseO cond) (some l) b, r3)
            | none => none
          | none => none) =
          Option.map e1 (match parsePosSimple f r1 with
            | some (l, r2) =>
              match parsePosBlock f r2 with
              | some (b, r3) => some (PP.forS init cond (some l) b fp, r3)
              | none => none
            | none => none) := by
        simp only [ih.simple]
        rcases h2 : parsePosSimple f r1 with _ | ⟨l, r2⟩
        · simp
        · simp only [Option.map_some, e1, ih.block]
          rcases h3 : parsePosBlock f r2 with _ | ⟨b, r3⟩ <;> simp [PP.erase]
      by_cases hb : tk r1 = Tok.LEFT_BRACE
      · have hx := ih.block r1
        simp only [hb, ↓reduceIte, hx]
        rcases h2 : parsePosBlock f r1 with _ | ⟨b, r2⟩
        · simpa using rest
        · simp only [Option.map_some, eL]
          by_cases he : stmtEnd (tk r2) = true
          · simp [he, PP.erase]
          · simp only [he, Bool.false_eq_true, ↓reduceIte]
            exact rest
      · simp only [hb, ↓reduceIte]
        exact rest
  by_cases hs : tk ts = Tok.SEMICOLON
  · simp only [hs, ↓reduceIte]
    exact tail none ts
  · have hx := ih.expr 1 ts
    simp only [hs, ↓reduceIte, hx]
    rcases h1 : parsePosExpr f 1 ts with _ | ⟨c, r⟩
    · simp
    · simp only [Option.map_some, e1]
      exact tail (some c) r

theorem agree : ∀ f, Agree f
  | 0 => agree_zero
  | f+1 =>
    have ih := agree f
    { expr := expr_step ih, binRest := binRest_step ih, unary := unary_step ih, primary := primary_step ih
      afterIdent := afterIdent_step ih, indexChain := indexChain_step ih, attrChain := attrChain_step ih
      attrY := attrY_step ih, attrYIdx := attrYIdx_step ih, sliceChain := sliceChain_step ih
      sliceBody := sliceBody_step ih, args := args_step ih, listElems := listElems_step ih
      mapElems := mapElems_step ih, commaParams := commaParams_step ih, simple := simple_step ih
      block := block_step ih, stmts := stmts_step ih, stmtsTail := stmtsTail_step ih
      stmtsAfterSep := stmtsAfterSep_step ih, stmt := stmt_step ih, elifs := elifs_step ih
      for_ := for_step ih, forRest := forRest_step ih }

/-- the position-carrying parser returns, erased, exactly what the model parser returns -/
theorem parseItems_eq (its : List Item) :
    parseItems its = (parsePosItems its).map (List.map PP.erase) := by
  simp only [parseItems, parsePosItems]
  split
  · rfl
  · split
    · split <;> simp
    · simp only [(agree _).stmts]
      rcases h : parsePosStmts (16 * (its.filter fun i => decide (i.typ ≠ .COMMENT)).length + 64)
          (skipE (its.filter fun i => decide (i.typ ≠ .COMMENT))) with _ | ⟨ss, r⟩
      · simp
      · simp only [Option.map_some, eL]
        split <;> simp [eraseL_eq]

end Platypus.ParsePos
