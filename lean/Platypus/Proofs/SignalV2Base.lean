import Platypus.Proofs.SignalObs
import Platypus.Model.EvalV2
/-!
C14 for the v2 interpreter, part 1: the syntactic hypothesis (`SF2`: an expression that contains no
`if`/`for` statement node; `StmtOk2`: a statement whose expressions are `SF2`) with its Boolean
checker, and trace monotonicity (`MonoM`) of every function of the v2 evaluator.

v2 has no `use(…)`; the only polls are those of `stmts2`, `for2`, `forInStr2`, `forInItems2`.
But `runExpr` *does* run statement nodes, so a statement in expression position polls in the middle
of an expression.
-/
namespace Platypus.SignalV2
open Platypus Platypus.V2 Platypus.MachineProofs Platypus.SignalProofs

/-! ### the syntactic hypothesis -/

mutual
/-- no `if`/`for` statement node anywhere inside the expression -/
def exprFree : Nat → Node → Bool
  | 0, _ => false
  | f+1, n => match n with
    | .ident _ _ | .strLit _ _ | .intLit _ _ | .floatLit _ _ | .boolLit _ _ | .nilLit _ => true
    | .attr _ _ _ => true
    | .brk _ | .cont _ => true
    | .list xs _ _ => exprFreeL f xs
    | .map kvs _ _ => exprFreeKV f kvs
    | .paren e _ _ => exprFree f e
    | .index _ idx _ _ => exprFreeL f idx
    | .unary _ e _ => exprFree f e
    | .arith _ l r _ | .cond _ l r _ | .inE l r _ => exprFree f l && exprFree f r
    | .assign _ lhs rhs _ => exprFreeL f lhs && exprFreeL f rhs
    | .call _ args _ _ _ _ => exprFreeL f args
    | .slice o a b c _ _ _ => exprFree f o && exprFreeO f a && exprFreeO f b && exprFreeO f c
    | .ifelse _ _ _ | .forS _ _ _ _ _ | .forIn _ _ _ _ _ => false
def exprFreeL : Nat → List Node → Bool
  | 0, _ => false
  | _+1, [] => true
  | f+1, n :: r => exprFree f n && exprFreeL f r
def exprFreeO : Nat → Option Node → Bool
  | 0, _ => false
  | _+1, none => true
  | f+1, some n => exprFree f n
def exprFreeKV : Nat → List (Node × Node) → Bool
  | 0, _ => false
  | _+1, [] => true
  | f+1, (k, v) :: r => exprFree f k && exprFree f v && exprFreeKV f r
end

mutual
/-- statements occur only in statement position: conditions, loop headers, iterables and
    expression statements contain no statement node -/
def stmtOk2 : Nat → Node → Bool
  | 0, _ => false
  | f+1, n => match n with
    | .ifelse ifs els _ => ifsOk2 f ifs && blockOk2 f els
    | .forS a b c body _ => exprFreeO f a && exprFreeO f b && exprFreeO f c && blockOk2 f body
    | .forIn _ it body _ _ => exprFree f it && blockOk2 f body
    | e => exprFree f e
def stmtsOk2 : Nat → List Node → Bool
  | 0, _ => false
  | _+1, [] => true
  | f+1, n :: r => stmtOk2 f n && stmtsOk2 f r
def blockOk2 : Nat → Option (List Node) → Bool
  | 0, _ => false
  | _+1, none => true
  | f+1, some b => stmtsOk2 f b
def ifsOk2 : Nat → List (Node × Option (List Node) × Pos) → Bool
  | 0, _ => false
  | _+1, [] => true
  | f+1, (c, b, _) :: r => exprFree f c && blockOk2 f b && ifsOk2 f r
end

/-- expressions without statement nodes, as a predicate -/
inductive SF2 : Node → Prop
  | ident (n p) : SF2 (.ident n p)
  | strLit (v p) : SF2 (.strLit v p)
  | intLit (v p) : SF2 (.intLit v p)
  | floatLit (v p) : SF2 (.floatLit v p)
  | boolLit (v p) : SF2 (.boolLit v p)
  | nilLit (p) : SF2 (.nilLit p)
  | attr (o a p) : SF2 (.attr o a p)
  | brk (p) : SF2 (.brk p)
  | cont (p) : SF2 (.cont p)
  | list (xs lb rb) : (∀ x ∈ xs, SF2 x) → SF2 (.list xs lb rb)
  | map (kvs lb rb) : (∀ kv ∈ kvs, SF2 kv.1) → (∀ kv ∈ kvs, SF2 kv.2) → SF2 (.map kvs lb rb)
  | paren (e lp rp) : SF2 e → SF2 (.paren e lp rp)
  | index (obj idx lbs rbs) : (∀ x ∈ idx, SF2 x) → SF2 (.index obj idx lbs rbs)
  | unary (op e p) : SF2 e → SF2 (.unary op e p)
  | arith (op l r p) : SF2 l → SF2 r → SF2 (.arith op l r p)
  | cond (op l r p) : SF2 l → SF2 r → SF2 (.cond op l r p)
  | inE (l r p) : SF2 l → SF2 r → SF2 (.inE l r p)
  | assign (op lhs rhs p) : (∀ x ∈ lhs, SF2 x) → (∀ x ∈ rhs, SF2 x) → SF2 (.assign op lhs rhs p)
  | call (name args np lp rp site) : (∀ x ∈ args, SF2 x) → SF2 (.call name args np lp rp site)
  | slice (o a b c c2 lb rb) : SF2 o → (∀ x, a = some x → SF2 x) → (∀ x, b = some x → SF2 x) →
      (∀ x, c = some x → SF2 x) → SF2 (.slice o a b c c2 lb rb)

/-- statements whose expressions contain no statement node -/
inductive StmtOk2 : Node → Prop
  | ifelse (ifs els p) :
      (∀ x ∈ ifs, SF2 x.1) → (∀ x ∈ ifs, ∀ b, x.2.1 = some b → ∀ n ∈ b, StmtOk2 n) →
      (∀ b, els = some b → ∀ n ∈ b, StmtOk2 n) → StmtOk2 (.ifelse ifs els p)
  | forS (a b c body p) : (∀ x, a = some x → SF2 x) → (∀ x, b = some x → SF2 x) → (∀ x, c = some x → SF2 x) →
      (∀ bl, body = some bl → ∀ n ∈ bl, StmtOk2 n) → StmtOk2 (.forS a b c body p)
  | forIn (v it body fp ip) : SF2 it → (∀ bl, body = some bl → ∀ n ∈ bl, StmtOk2 n) →
      StmtOk2 (.forIn v it body fp ip)
  | expr (e) : SF2 e → StmtOk2 e

def StmtsOk2 (b : List Node) : Prop := ∀ n ∈ b, StmtOk2 n
def BlockOk2 (b : Option (List Node)) : Prop := ∀ bl, b = some bl → StmtsOk2 bl
def OptSF2 (o : Option Node) : Prop := ∀ x, o = some x → SF2 x

/-! ### the checker is sound -/
theorem exprFree_sound : ∀ f,
    (∀ n, exprFree f n = true → SF2 n) ∧ (∀ l, exprFreeL f l = true → ∀ x ∈ l, SF2 x) ∧
    (∀ o, exprFreeO f o = true → ∀ x, o = some x → SF2 x) ∧
    (∀ kvs, exprFreeKV f kvs = true → ∀ kv ∈ kvs, SF2 kv.1 ∧ SF2 kv.2) := by
  intro f
  induction f with
  | zero => simp [exprFree, exprFreeL, exprFreeO, exprFreeKV]
  | succ f ih =>
    obtain ⟨ihn, ihl, iho, ihk⟩ := ih
    refine ⟨?_, ?_, ?_, ?_⟩
    · intro n h
      cases n <;> simp only [exprFree, Bool.and_eq_true] at h
      case ident => exact .ident _ _
      case strLit => exact .strLit _ _
      case intLit => exact .intLit _ _
      case floatLit => exact .floatLit _ _
      case boolLit => exact .boolLit _ _
      case nilLit => exact .nilLit _
      case attr => exact .attr _ _ _
      case brk => exact .brk _
      case cont => exact .cont _
      case list => exact .list _ _ _ (ihl _ h)
      case map => exact .map _ _ _ (fun kv hkv => (ihk _ h kv hkv).1) (fun kv hkv => (ihk _ h kv hkv).2)
      case paren => exact .paren _ _ _ (ihn _ h)
      case index => exact .index _ _ _ _ (ihl _ h)
      case unary => exact .unary _ _ _ (ihn _ h)
      case arith => exact .arith _ _ _ _ (ihn _ h.1) (ihn _ h.2)
      case cond => exact .cond _ _ _ _ (ihn _ h.1) (ihn _ h.2)
      case inE => exact .inE _ _ _ (ihn _ h.1) (ihn _ h.2)
      case assign => exact .assign _ _ _ _ (ihl _ h.1) (ihl _ h.2)
      case call => exact .call _ _ _ _ _ _ (ihl _ h)
      case slice => exact .slice _ _ _ _ _ _ _ (ihn _ h.1.1.1) (iho _ h.1.1.2) (iho _ h.1.2) (iho _ h.2)
      all_goals exact absurd h (by simp)
    · intro l h
      cases l with
      | nil => simp
      | cons n r =>
        simp only [exprFreeL, Bool.and_eq_true] at h
        intro x hx
        rcases List.mem_cons.1 hx with rfl | hx
        · exact ihn _ h.1
        · exact ihl _ h.2 x hx
    · intro o h x hx
      subst hx
      exact ihn _ (by simpa [exprFreeO] using h)
    · intro kvs h
      cases kvs with
      | nil => simp
      | cons kv r =>
        obtain ⟨k, v⟩ := kv
        simp only [exprFreeKV, Bool.and_eq_true] at h
        intro x hx
        rcases List.mem_cons.1 hx with rfl | hx
        · exact ⟨ihn _ h.1.1, ihn _ h.1.2⟩
        · exact ihk _ h.2 x hx

theorem stmtOk2_sound : ∀ f,
    (∀ n, stmtOk2 f n = true → StmtOk2 n) ∧ (∀ l, stmtsOk2 f l = true → StmtsOk2 l) ∧
    (∀ o, blockOk2 f o = true → BlockOk2 o) ∧
    (∀ ifs, ifsOk2 f ifs = true → ∀ x ∈ ifs, SF2 x.1 ∧ ∀ b, x.2.1 = some b → ∀ n ∈ b, StmtOk2 n) := by
  intro f
  induction f with
  | zero => simp [stmtOk2, stmtsOk2, blockOk2, ifsOk2]
  | succ f ih =>
    obtain ⟨ihn, ihl, iho, ihi⟩ := ih
    have sfn := (exprFree_sound f).1
    have sfo := (exprFree_sound f).2.2.1
    refine ⟨?_, ?_, ?_, ?_⟩
    · intro n h
      cases n
      case ifelse ifs els p =>
        simp only [stmtOk2, Bool.and_eq_true] at h
        exact .ifelse _ _ _ (fun x hx => (ihi _ h.1 x hx).1) (fun x hx => (ihi _ h.1 x hx).2) (iho _ h.2)
      case forS a b c body p =>
        simp only [stmtOk2, Bool.and_eq_true] at h
        exact .forS _ _ _ _ _ (sfo _ h.1.1.1) (sfo _ h.1.1.2) (sfo _ h.1.2) (iho _ h.2)
      case forIn v it body fp ip =>
        simp only [stmtOk2, Bool.and_eq_true] at h
        exact .forIn _ _ _ _ _ (sfn _ h.1) (iho _ h.2)
      all_goals
        simp only [stmtOk2] at h
        exact .expr _ (sfn _ h)
    · intro l h
      cases l with
      | nil => intro x hx; cases hx
      | cons n r =>
        simp only [stmtsOk2, Bool.and_eq_true] at h
        intro x hx
        rcases List.mem_cons.1 hx with rfl | hx
        · exact ihn _ h.1
        · exact ihl _ h.2 x hx
    · intro o h bl hb
      subst hb
      exact ihl _ (by simpa [blockOk2] using h)
    · intro ifs h
      cases ifs with
      | nil => simp
      | cons x r =>
        obtain ⟨c, b, p⟩ := x
        simp only [ifsOk2, Bool.and_eq_true] at h
        intro y hy
        rcases List.mem_cons.1 hy with rfl | hy
        · exact ⟨sfn _ h.1.1, iho _ h.1.2⟩
        · exact ihi _ h.2 y hy

/-! ### the end of a loop iteration -/

/-- the end of every loop iteration of v2: consume break / continue, test exit -/
def loopTail2 (env : Env) (K : EM Unit) : EM Unit := do
  let s ← getS
  if s.task.brk then
    modTask fun t => { t with brk := false }
    return ()
  if s.task.cont then modTask fun t => { t with cont := false }
  if (← stmtReturn env) then return ()
  K

theorem loopTail2_brk (env : Env) (K : EM Unit) {s : St} (h : s.task.brk = true) :
    loopTail2 env K s = .ok () (clrBrk s) := by
  unfold loopTail2
  simp only [bind_apply, getS_apply, rbind_ok, ite_app, modTask_apply, pure_apply]
  rw [if_pos h]
  rfl

theorem loopTail2_cont (env : Env) (K : EM Unit) {s : St} (hb : s.task.brk = false) (hc : s.task.cont = true) :
    loopTail2 env K s =
      if pollB env (Sem.clearBC s) = true then .ok () (pollSt env (Sem.clearBC s)) else K (pollSt env (Sem.clearBC s)) := by
  unfold loopTail2
  simp only [bind_apply, getS_apply, rbind_ok, ite_app, modTask_apply, pure_apply, stmtReturn_apply]
  rw [if_neg (by simp [hb]), if_pos hc, clearBC_of_brk_false hb]
  simp only [hb, Bool.or_false, Bool.or_self]

theorem loopTail2_clr (env : Env) (K : EM Unit) {s : St} (h : Clr s) :
    loopTail2 env K s = if pollB env s = true then .ok () (pollSt env s) else K (pollSt env s) := by
  unfold loopTail2
  simp only [bind_apply, getS_apply, rbind_ok, ite_app, modTask_apply, pure_apply, stmtReturn_apply]
  rw [if_neg (by simp [h.1]), if_neg (by simp [h.2])]
  simp [h.1, h.2]

/-! ### trace monotonicity -/

theorem MonoM.retSet (vs : List TV) : MonoM (retSet vs) := MonoM.modTask _
theorem MonoM.setVar (k : Bytes) (v : TV) : MonoM (setVar k v) := MonoM.modTask _
theorem MonoM.getRet (p : Pos) : MonoM (getRet p) := by
  intro s; unfold V2.getRet; split <;> exact List.suffix_refl _

set_option hygiene false in
macro "mono2_step" : tactic => `(tactic| first
  | with_reducible exact MonoM.retSet _
  | with_reducible exact MonoM.setVar _ _
  | with_reducible exact MonoM.getRet _
  | mono_step)

macro "mono2" : tactic => `(tactic| repeat' mono2_step)

/-- trace-monotonicity of the v2 functions at fuel `f` -/
structure Mono2 (env : Env) (f : Nat) : Prop where
  expr : ∀ n, MonoM (runExpr env f n)
  value : ∀ n, MonoM (valueOf env f n)
  values : ∀ l, MonoM (valuesOf env f l)
  mapLit : ∀ kvs acc, MonoM (mapLit env f kvs acc)
  search : ∀ cur idx, MonoM (searchLM2 env f cur idx)
  change : ∀ cur idx val, MonoM (changeLM2 env f cur idx val)
  slice : ∀ obj st en sp, MonoM (slice2 env f obj st en sp)
  rhs : ∀ es first n acc, MonoM (rhsVals env f es first n acc)
  assignTo : ∀ e v, MonoM (assignTo env f e v)
  assignAll : ∀ op es vals p, MonoM (assignAll env f op es vals p)
  assign : ∀ op lhs rhs p, MonoM (assign2 env f op lhs rhs p)
  call : ∀ name args np, MonoM (call2 env f name args np)
  stmts : ∀ l, MonoM (stmts2 env f l)
  ifs : ∀ ifs els, MonoM (ifs2 env f ifs els)
  loop : ∀ c l body, MonoM (for2 env f c l body)
  forIn : ∀ var it pos body, MonoM (forIn2 env f var it pos body)
  forStr : ∀ var rs body, MonoM (forInStr2 env f var rs body)
  forItems : ∀ var pos items live body, MonoM (forInItems2 env f var pos items live body)

theorem mono2_zero (env : Env) : Mono2 env 0 := by
  refine ⟨?_, ?_, ?_, ?_, ?_, ?_, ?_, ?_, ?_, ?_, ?_, ?_, ?_, ?_, ?_, ?_, ?_, ?_⟩ <;> intros
  · rw [runExpr]; exact MonoM.outOfFuel
  · rw [valueOf]; exact MonoM.outOfFuel
  · rw [valuesOf]; exact MonoM.outOfFuel
  · rw [V2.mapLit]; exact MonoM.outOfFuel
  · rw [searchLM2]; exact MonoM.outOfFuel
  · rw [changeLM2]; exact MonoM.outOfFuel
  · rw [slice2]; exact MonoM.outOfFuel
  · rw [rhsVals]; exact MonoM.outOfFuel
  · rw [V2.assignTo]; exact MonoM.outOfFuel
  · rw [V2.assignAll]; exact MonoM.outOfFuel
  · rw [assign2]; exact MonoM.outOfFuel
  · rw [call2]; exact MonoM.outOfFuel
  · rw [stmts2]; exact MonoM.outOfFuel
  · rw [ifs2]; exact MonoM.outOfFuel
  · rw [for2]; exact MonoM.outOfFuel
  · rw [forIn2]; exact MonoM.outOfFuel
  · rw [forInStr2]; exact MonoM.outOfFuel
  · rw [forInItems2]; exact MonoM.outOfFuel

section
variable {env : Env} {f : Nat}

theorem stmts2_mono_step (ih : Mono2 env f) (l : List Node) : MonoM (stmts2 env (f+1) l) := by
  cases l with
  | nil => simp only [stmts2]; exact MonoM.pure _
  | cons n rest =>
    intro s
    simp only [stmts2, stmtReturn_apply]
    have h0 : (pollSt env s).world.trace = s.world.trace := by unfold pollSt; split <;> rfl
    cases (pollB env s || (s.task.brk || s.task.cont)) with
    | true => exact (List.suffix_refl _).trans (by rw [h0]; exact List.suffix_refl _)
    | false =>
      dsimp only
      have h2 := ih.expr n (pollSt env s)
      cases hr : runExpr env f n (pollSt env s) with
      | ok v s2 =>
        rw [hr] at h2
        exact MonoR.of_trace_eq h0 (MonoR.trans h2 (ih.stmts rest s2))
      | err e s2 =>
        rw [hr] at h2
        exact MonoR.of_trace_eq (r := (.err e s2 : Res Unit)) h0 h2
      | panic m => trivial
      | fuel => trivial
      | need q => trivial

theorem runExpr_mono_step (ih : Mono2 env f) (n : Node) : MonoM (runExpr env (f+1) n) := by
  have ih1 := ih.expr; have ih2 := ih.value; have ih3 := ih.values; have ih4 := ih.mapLit
  have ih5 := ih.search; have ih6 := ih.slice; have ih7 := ih.assign; have ih8 := ih.call
  have ih9 := ih.ifs; have ih10 := ih.loop; have ih11 := ih.forIn
  cases n <;> simp only [runExpr] <;> mono2

theorem mono2_succ (ih : Mono2 env f) : Mono2 env (f+1) := by
  have ih1 := ih.expr; have ih2 := ih.value; have ih3 := ih.values; have ih4 := ih.mapLit
  have ih5 := ih.search; have ih6 := ih.change; have ih7 := ih.rhs; have ih8 := ih.assignTo
  have ih9 := ih.assignAll; have ih10 := ih.stmts; have ih11 := ih.forStr; have ih12 := ih.forItems
  refine ⟨runExpr_mono_step ih, ?_, ?_, ?_, ?_, ?_, ?_, ?_, ?_, ?_, ?_, ?_, stmts2_mono_step ih, ?_, ?_, ?_, ?_, ?_⟩
  · intro n; simp only [valueOf]; mono2
  · intro l; cases l <;> simp only [valuesOf] <;> mono2
  · intro kvs acc
    cases kvs with
    | nil => simp only [V2.mapLit]; mono2
    | cons kv r => obtain ⟨k, v⟩ := kv; simp only [V2.mapLit]; mono2
  · intro cur idx; cases idx <;> simp only [searchLM2] <;> mono2
  · intro cur idx val; cases idx <;> simp only [changeLM2] <;> mono2
  · intro obj st en sp; rw [slice2.eq_def]; simp only []; mono2
  · intro es first n acc; cases es <;> simp only [rhsVals] <;> mono2
  · intro e v; rw [V2.assignTo.eq_def]; simp only []; mono2
  · intro op es vals p; cases es <;> simp only [V2.assignAll] <;> mono2
  · intro op lhs rhs p; rw [assign2.eq_def]; simp only []; mono2
  · intro name args np; rw [call2.eq_def]; simp only []; mono2
  · intro ifs els
    have ih1 := ih.ifs
    cases ifs with
    | nil => rw [ifs2.eq_def]; simp only []; mono2
    | cons x rest => obtain ⟨c, blk, p⟩ := x; rw [ifs2.eq_def]; simp only []; mono2
  · intro c l body
    have ih3 := ih.loop
    rw [for2.eq_def]; simp only []; mono2
  · intro var it pos body
    rw [forIn2.eq_def]; simp only []; mono2
  · intro var rs body
    cases rs with
    | nil => simp only [forInStr2]; mono2
    | cons r rest => rw [forInStr2.eq_def]; simp only []; mono2
  · intro var pos items live body
    rw [forInItems2.eq_def]; simp only []; mono2

end

theorem mono2_all (env : Env) : ∀ f, Mono2 env f
  | 0 => mono2_zero env
  | f+1 => mono2_succ (mono2_all env f)

end Platypus.SignalV2
